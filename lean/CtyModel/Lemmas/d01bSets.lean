/-
C01 (slice d01b), sets whose members are weakened IN PLACE — including weakened sets
that store more members than the set they stand for (several stand-in members that
coalesce in the concrete set: `Cov.coversS` is a surjection from the stored members
onto the concrete members).

* `HasElement` with the needle kept: a definite True of the weakened call comes from a
  stored member that is `Equals`-true to the needle; the concrete member it stands for
  is then `Equals`-true to the needle too and sits in the needle's bucket.  A definite
  False only comes from a wholly known weakened set, every member of which IS the member
  it stands for.
* `Equals` on two sets: the weakened call cannot fail, and answers "unknown" as soon as a
  member of either weakened set is not wholly known.

The members' types are in the fragment of Lemmas/OpsEquals.lean (primitives, lists,
tuples, nested; numbers integers), where `Equals` is total (`eqF_total`) and sound
(`eqF_sound`).  The one fact about hashing the proofs need is stated about the operands
as a decidable predicate, `hashCoh`: a member that `Equals` the needle sits in the
bucket the needle hashes to (property C03's subject; the driver evaluates it on every
paired run of the harness).
-/
import CtyModel.Lemmas.d01EqObj
import CtyModel.Lemmas.d01Has
import CtyModel.Lemmas.d01Len
import CtyModel.d01bSide
namespace CtyModel
open Value Cov

namespace D01b

/-! ### members of covered sets -/

theorem anySplit_mem {p : Payload → List Payload → Bool} : ∀ {cs l : List Payload}, anySplit p l cs = true →
    ∃ c rest, c ∈ cs ∧ p c rest = true ∧ (∀ x, x ∈ rest → x ∈ l ∨ x ∈ cs) ∧ (∀ x, x ∈ l ∨ x ∈ cs → x = c ∨ x ∈ rest)
  | [], l, h => by simp [anySplit] at h
  | c :: r, l, h => by
    simp only [anySplit, Bool.or_eq_true] at h
    rcases h with h | h
    · refine ⟨c, _, by simp, h, ?_, ?_⟩
      · intro x hx
        simp only [List.mem_append, List.mem_reverse] at hx
        rcases hx with hx | hx
        · exact Or.inl hx
        · exact Or.inr (List.mem_cons_of_mem _ hx)
      · intro x hx
        simp only [List.mem_append, List.mem_reverse, List.mem_cons] at hx ⊢
        rcases hx with hx | hx | hx
        · exact Or.inr (Or.inl hx)
        · exact Or.inl hx
        · exact Or.inr (Or.inr hx)
    · obtain ⟨c', rest, hc, hp, h1, h2⟩ := anySplit_mem h
      refine ⟨c', rest, List.mem_cons_of_mem _ hc, hp, ?_, ?_⟩
      · intro x hx
        rcases h1 x hx with hx | hx
        · simp only [List.mem_cons] at hx
          rcases hx with rfl | hx
          · exact Or.inr (by simp)
          · exact Or.inl hx
        · exact Or.inr (List.mem_cons_of_mem _ hx)
      · intro x hx
        apply h2
        simp only [List.mem_cons] at hx ⊢
        rcases hx with hx | hx | hx
        · exact Or.inl (Or.inr hx)
        · exact Or.inl (Or.inl hx)
        · exact Or.inr hx

/-- every stored member stands for some concrete member -/
theorem coversS_left {ex : Bool} : ∀ {as cs : List Payload}, coversS ex as cs = true →
    ∀ a, a ∈ as → ∃ c, c ∈ cs ∧ coversP ex a c = true
  | [], _, _, a, ha => by simp at ha
  | a0 :: as, cs, h, a, ha => by
    simp only [coversS] at h
    obtain ⟨c, rest, hc, hp, h1, _⟩ := anySplit_mem h
    simp only [Bool.and_eq_true, Bool.or_eq_true] at hp
    simp only [List.mem_cons] at ha
    rcases ha with rfl | ha
    · exact ⟨c, hc, hp.1⟩
    · rcases hp.2 with h' | h'
      · obtain ⟨c', hc', hcov⟩ := coversS_left h' a ha
        rcases h1 c' hc' with hx | hx
        · simp at hx
        · exact ⟨c', hx, hcov⟩
      · exact coversS_left h' a ha

/-- every concrete member is stood for by some stored member -/
theorem coversS_right {ex : Bool} : ∀ {as cs : List Payload}, coversS ex as cs = true →
    ∀ c, c ∈ cs → ∃ a, a ∈ as ∧ coversP ex a c = true
  | [], cs, h, c, hc => by
    simp only [coversS, List.isEmpty_iff] at h
    subst h; simp at hc
  | a0 :: as, cs, h, c, hc => by
    simp only [coversS] at h
    obtain ⟨c0, rest, _, hp, _, h2⟩ := anySplit_mem h
    simp only [Bool.and_eq_true, Bool.or_eq_true] at hp
    rcases hp.2 with h' | h'
    · rcases h2 c (Or.inr hc) with rfl | hr
      · exact ⟨a0, by simp, hp.1⟩
      · obtain ⟨a, ha, hcov⟩ := coversS_right h' c hr
        exact ⟨a, List.mem_cons_of_mem _ ha, hcov⟩
    · obtain ⟨a, ha, hcov⟩ := coversS_right h' c hc
      exact ⟨a, List.mem_cons_of_mem _ ha, hcov⟩

theorem wtAll_mem {e : Ty} : ∀ {vs : List Payload}, wtAll e vs = true → ∀ v, v ∈ vs → wt e v = true
  | [], _, v, hv => by simp at hv
  | v0 :: vs, h, v, hv => by
    simp only [wtAll, Bool.and_eq_true] at h
    simp only [List.mem_cons] at hv
    rcases hv with rfl | hv
    · exact h.1
    · exact wtAll_mem h.2 v hv

theorem wkL_mem : ∀ {vs : List Payload}, Payload.whollyKnownL vs = true → ∀ v, v ∈ vs → v.whollyKnown = true
  | [], _, v, hv => by simp at hv
  | v0 :: vs, h, v, hv => by
    simp only [Payload.whollyKnownL, Bool.and_eq_true] at h
    simp only [List.mem_cons] at hv
    rcases hv with rfl | hv
    · exact h.1
    · exact wkL_mem h.2 v hv

theorem depthL_mem : ∀ {vs : List Payload} (v : Payload), v ∈ vs → v.depth ≤ Payload.depthL vs
  | [], v, hv => by simp at hv
  | v0 :: vs, v, hv => by
    simp only [List.mem_cons] at hv
    simp only [Payload.depthL]
    rcases hv with rfl | hv
    · omega
    · have := depthL_mem v hv; omega

theorem mem_zip_of_mem : ∀ {ids : List Int} {vs : List Payload} (v : Payload), ids.length = vs.length → v ∈ vs →
    ∃ j, (j, v) ∈ ids.zip vs
  | _, [], v, _, hv => by simp at hv
  | [], _ :: _, _, hl, _ => by simp at hl
  | j :: js, v0 :: vs, v, hl, hv => by
    simp only [List.mem_cons] at hv
    rcases hv with rfl | hv
    · exact ⟨j, by simp⟩
    · obtain ⟨j', hj⟩ := mem_zip_of_mem v (by simpa using hl) hv
      exact ⟨j', by simp [hj]⟩

/-! ### the fragment: a wholly known payload covers itself, and only itself -/

mutual
theorem coversP_refl_wk : ∀ (t : Ty) (p : Payload), wt t p = true → p.whollyKnown = true → coversP true p p = true
  | _, .null, _, _ => by simp [coversP]
  | _, .unk _, _, h => by simp [Payload.whollyKnown] at h
  | _, .b _, _, _ => by simp [coversP]
  | _, .n _, _, _ => by simp [coversP, numEq]
  | _, .s _, _, _ => by simp [coversP]
  | t, .seq vs, h, k => by
    simp only [Payload.whollyKnown] at k
    simp only [coversP]
    cases t <;> simp only [wt] at h <;> try (cases h; done)
    · exact coversL_refl_all _ vs h k
    · exact coversL_refl_zip _ vs h k
  | _, .caps, h, _ => by simp [wt] at h
  | _, .smap _ _, h, _ => by simp [wt] at h
  | _, .sset _ _, h, _ => by simp [wt] at h
  | _, .marked _ _, h, _ => by simp [wt] at h
  | _, .bad _, h, _ => by simp [wt] at h
theorem coversL_refl_all : ∀ (e : Ty) (vs : List Payload), wtAll e vs = true → Payload.whollyKnownL vs = true →
    coversL true vs vs = true
  | _, [], _, _ => by simp [coversL]
  | e, v :: vs, h, k => by
    simp only [wtAll, Bool.and_eq_true] at h
    simp only [Payload.whollyKnownL, Bool.and_eq_true] at k
    simp only [coversL, Bool.and_eq_true]
    exact ⟨coversP_refl_wk e v h.1 k.1, coversL_refl_all e vs h.2 k.2⟩
theorem coversL_refl_zip : ∀ (ts : List Ty) (vs : List Payload), wtZip ts vs = true → Payload.whollyKnownL vs = true →
    coversL true vs vs = true
  | _, [], _, _ => by simp [coversL]
  | [], _ :: _, h, _ => by simp [wtZip] at h
  | t :: ts, v :: vs, h, k => by
    simp only [wtZip, Bool.and_eq_true] at h
    simp only [Payload.whollyKnownL, Bool.and_eq_true] at k
    simp only [coversL, Bool.and_eq_true]
    exact ⟨coversP_refl_wk t v h.1 k.1, coversL_refl_zip ts vs h.2 k.2⟩
end

mutual
theorem coversP_wk_eq : ∀ (t : Ty) (a c : Payload), wt t a = true → a.whollyKnown = true → coversP true a c = true → a = c
  | _, .null, c, _, _, h => by cases c <;> simp_all [coversP]
  | _, .unk _, _, _, k, _ => by simp [Payload.whollyKnown] at k
  | _, .b _, c, _, _, h => by cases c <;> simp_all [coversP]
  | _, .n _, c, _, _, h => by cases c <;> simp_all [coversP, numEq]
  | _, .s _, c, _, _, h => by cases c <;> simp_all [coversP]
  | t, .seq vs, c, hw, k, h => by
    simp only [Payload.whollyKnown] at k
    cases c <;> simp only [coversP] at h <;> try (cases h; done)
    rename_i cs
    cases t <;> simp only [wt] at hw <;> try (cases hw; done)
    · rw [coversL_wk_eq_all _ vs cs hw k h]
    · rw [coversL_wk_eq_zip _ vs cs hw k h]
  | _, .caps, _, h, _, _ => by simp [wt] at h
  | _, .smap _ _, _, h, _, _ => by simp [wt] at h
  | _, .sset _ _, _, h, _, _ => by simp [wt] at h
  | _, .marked _ _, _, h, _, _ => by simp [wt] at h
  | _, .bad _, _, h, _, _ => by simp [wt] at h
theorem coversL_wk_eq_all : ∀ (e : Ty) (as cs : List Payload), wtAll e as = true → Payload.whollyKnownL as = true →
    coversL true as cs = true → as = cs
  | _, [], cs, _, _, h => by simp only [coversL, List.isEmpty_iff] at h; exact h.symm
  | _, _ :: _, [], _, _, h => by simp [coversL] at h
  | e, a :: as, c :: cs, hw, k, h => by
    simp only [wtAll, Bool.and_eq_true] at hw
    simp only [Payload.whollyKnownL, Bool.and_eq_true] at k
    simp only [coversL, Bool.and_eq_true] at h
    rw [coversP_wk_eq e a c hw.1 k.1 h.1, coversL_wk_eq_all e as cs hw.2 k.2 h.2]
theorem coversL_wk_eq_zip : ∀ (ts : List Ty) (as cs : List Payload), wtZip ts as = true → Payload.whollyKnownL as = true →
    coversL true as cs = true → as = cs
  | _, [], cs, _, _, h => by simp only [coversL, List.isEmpty_iff] at h; exact h.symm
  | _, _ :: _, [], _, _, h => by simp [coversL] at h
  | [], _ :: _, _ :: _, hw, _, _ => by simp [wtZip] at hw
  | t :: ts, a :: as, c :: cs, hw, k, h => by
    simp only [wtZip, Bool.and_eq_true] at hw
    simp only [Payload.whollyKnownL, Bool.and_eq_true] at k
    simp only [coversL, Bool.and_eq_true] at h
    rw [coversP_wk_eq t a c hw.1 k.1 h.1, coversL_wk_eq_zip ts as cs hw.2 k.2 h.2]
end

/-! ### `Equals` of a wholly known value with a member weakened in place -/

/-- `x` wholly known, `y` stands for the wholly known `c`: `Equals x y` succeeds at every
sufficient fuel, and answers "unknown" or what `Equals x c` answers -/
theorem eqF_weak_member (n : Nat) {e : Ty} {x y c : Payload} (he : eqTy e = true) (hx : wt e x = true) (hy : wt e y = true)
    (hc : wt e c = true) (kx : x.whollyKnown = true) (kc : c.whollyKnown = true) (hcov : coversP true y c = true)
    (dx : x.depth ≤ n) (dy : y.depth ≤ n) :
    ∃ v b, equalsFuel n e x e y = .ok v ∧ equalsFuel (max n c.depth) e x e c = .ok (boolVal b) ∧ (v = unkBool ∨ v = boolVal b) := by
  obtain ⟨b, hb⟩ := eqF_total (max n c.depth) e x c he hx hc kx kc (by omega) (by omega)
  obtain ⟨r', hr', hor⟩ := eqF_sound (max n c.depth) e e x c x y _ he he hx hc hx hy kx kc (coversP_refl_wk e x hx kx) hcov hb
  refine ⟨r', b, ?_, hb, hor⟩
  rw [← hr']
  exact equalsFuel_stable _ _ e x e y he dx dy (by omega) (by omega)

/-- the same for `equalsP` (the fuel `Equals` picks for the pair) -/
theorem eqP_weak_member {e : Ty} {x y c : Payload} (he : eqTy e = true) (hx : wt e x = true) (hy : wt e y = true)
    (hc : wt e c = true) (kx : x.whollyKnown = true) (kc : c.whollyKnown = true) (hcov : coversP true y c = true) :
    ∃ v b, equalsP e x e y = .ok v ∧ equalsP e x e c = .ok (boolVal b) ∧ (v = unkBool ∨ v = boolVal b) := by
  obtain ⟨v, b, h1, h2, h3⟩ := eqF_weak_member (max x.depth y.depth + 1) he hx hy hc kx kc hcov (by omega) (by omega)
  refine ⟨v, b, h1, ?_, h3⟩
  rw [← h2]
  unfold equalsP
  exact equalsFuel_stable _ _ e x e c he (by omega) (by omega) (by omega) (by omega)

/-! ### `setHas` -/

theorem setHas_total {rec : EqRec} {e : Ty} {i : Int} {x : Payload} : ∀ (js : List Int) (ys : List Payload),
    (∀ y, y ∈ ys → ∃ v, rec e x e y = .ok v) → ∃ f, setHas rec e i x js ys = .ok f
  | [], _, _ => ⟨false, by simp [setHas]⟩
  | _ :: _, [], _ => ⟨false, by simp [setHas]⟩
  | j :: js, y :: ys, h => by
    obtain ⟨v, hv⟩ := h y (by simp)
    obtain ⟨f, hf⟩ := setHas_total (rec := rec) (e := e) (i := i) (x := x) js ys (fun y' hy' => h y' (List.mem_cons_of_mem _ hy'))
    simp only [setHas, hv]
    by_cases hij : (i == j) = true
    · simp only [hij, if_true]
      by_cases ht : v.isTrue = true
      · exact ⟨true, by simp [ht]⟩
      · exact ⟨f, by simp [ht, hf]⟩
    · exact ⟨f, by simp [hij, hf]⟩

/-- a member of the needle's bucket that `Equals` the needle is found (if the scan succeeds) -/
theorem setHas_found {rec : EqRec} {e : Ty} {i : Int} {x : Payload} : ∀ (js : List Int) (ys : List Payload) (f : Bool),
    setHas rec e i x js ys = .ok f → (∃ y v, (i, y) ∈ js.zip ys ∧ rec e x e y = .ok v ∧ v.isTrue = true) → f = true
  | [], _, _, _, ⟨_, _, hm, _⟩ => by simp at hm
  | _ :: _, [], _, _, ⟨_, _, hm, _⟩ => by simp at hm
  | j :: js, y :: ys, f, h, ⟨y', v, hm, hv, ht⟩ => by
    simp only [setHas] at h
    simp only [List.zip_cons_cons, List.mem_cons, Prod.mk.injEq] at hm
    by_cases hij : (i == j) = true
    · simp only [hij, if_true] at h
      rcases hm with ⟨_, rfl⟩ | hm
      · simp only [hv, ht, if_true, Res.ok.injEq] at h
        exact h.symm
      · cases hr : rec e x e y with
        | ok v' =>
          simp only [hr] at h
          by_cases ht' : v'.isTrue = true
          · simp only [ht', if_true, Res.ok.injEq] at h; exact h.symm
          · simp only [ht', Bool.false_eq_true, if_false] at h
            exact setHas_found js ys f h ⟨y', v, hm, hv, ht⟩
        | err c => simp [hr] at h
        | panic w => simp [hr] at h
        | unmodelled => simp [hr] at h
    · simp only [hij, Bool.false_eq_true, if_false] at h
      rcases hm with ⟨hji, _⟩ | hm
      · subst hji; simp at hij
      · exact setHas_found js ys f h ⟨y', v, hm, hv, ht⟩

/-- what is found is a member of the needle's bucket that `Equals` the needle -/
theorem setHas_true {rec : EqRec} {e : Ty} {i : Int} {x : Payload} : ∀ (js : List Int) (ys : List Payload),
    setHas rec e i x js ys = .ok true → ∃ y v, (i, y) ∈ js.zip ys ∧ rec e x e y = .ok v ∧ v.isTrue = true
  | [], _, h => by simp [setHas] at h
  | _ :: _, [], h => by simp [setHas] at h
  | j :: js, y :: ys, h => by
    simp only [setHas] at h
    by_cases hij : (i == j) = true
    · simp only [hij, if_true] at h
      cases hr : rec e x e y with
      | ok v' =>
        simp only [hr] at h
        by_cases ht' : v'.isTrue = true
        · have : i = j := by simpa using hij
          subst this
          exact ⟨y, v', by simp, hr, ht'⟩
        · simp only [ht', Bool.false_eq_true, if_false] at h
          obtain ⟨y', v, hm, hv, ht⟩ := setHas_true js ys h
          exact ⟨y', v, by simp [hm], hv, ht⟩
      | err c => simp [hr] at h
      | panic w => simp [hr] at h
      | unmodelled => simp [hr] at h
    · simp only [hij, Bool.false_eq_true, if_false] at h
      obtain ⟨y', v, hm, hv, ht⟩ := setHas_true js ys h
      exact ⟨y', v, by simp [hm], hv, ht⟩

theorem hashCoh_mem {e : Ty} {x : Payload} {h : Int} : ∀ {js : List Int} {ys : List Payload}, hashCoh e x h js ys = true →
    ∀ j y v, (j, y) ∈ js.zip ys → equalsP e x e y = .ok v → v.isTrue = true → j = h
  | [], _, _, _, _, _, hm, _, _ => by simp at hm
  | _ :: _, [], _, _, _, _, hm, _, _ => by simp at hm
  | j0 :: js, y0 :: ys, hc, j, y, v, hm, hv, ht => by
    simp only [hashCoh, Bool.and_eq_true] at hc
    simp only [List.zip_cons_cons, List.mem_cons, Prod.mk.injEq] at hm
    rcases hm with ⟨rfl, rfl⟩ | hm
    · have h1 := hc.1
      simp only [hv, ht, Bool.not_true, Bool.false_or, beq_iff_eq] at h1
      exact h1
    · exact hashCoh_mem hc.2 j y v hm hv ht

theorem isTrue_unkBool : unkBool.isTrue = false := by decide
theorem isTrue_boolVal (b : Bool) : (boolVal b).isTrue = b := by cases b <;> rfl

/-! ### HasElement on a set whose members are weakened in place -/

theorem hasElementU_set_eq {e : Ty} {ids : List Int} {vs : List Payload} {x : Payload} {h : Int}
    (he : eqTy e = true) (hx : wt e x = true) (kx : x.whollyKnown = true) :
    hasElementU ⟨.set e, .sset ids vs⟩ ⟨e, x⟩ (some h) =
      (setHas equalsP e h x ids vs).map fun found =>
        if found then boolVal true else if Payload.whollyKnownL vs then boolVal false else unkBool := by
  have hkx : (⟨e, x⟩ : Value).isKnown = true := isKnown_of_pKnown (pKnown_of_wk kx hx)
  have hee : Ty.equals e e = true := ty_equals_self (eqTy_wf e he)
  have hn : (⟨.set e, .sset ids vs⟩ : Value).isNull = false := rfl
  have hk : (⟨.set e, .sset ids vs⟩ : Value).isKnown = true := rfl
  have hw : (⟨.set e, .sset ids vs⟩ : Value).whollyKnown = Payload.whollyKnownL vs := rfl
  unfold hasElementU
  simp only [hn, hk, hkx, hw, hee, Bool.false_eq_true, if_false, Bool.not_true, Bool.and_false]

theorem covers_bool_cases (r' : Value) (b : Bool) (h : r' = unkBool ∨ r' = boolVal b) : Covers r' (boolVal b) = true := by
  rcases h with rfl | rfl
  · exact covers_unkBool_boolVal b
  · exact covers_boolVal_self b

theorem hasElementU_sound_members {e : Ty} {ids ids' : List Int} {vs ws : List Payload} {x : Payload} {h : Int} {r : Value}
    (he : eqTy e = true) (hvs : wtAll e vs = true) (hws : wtAll e ws = true) (hx : wt e x = true)
    (kx : x.whollyKnown = true) (kvs : Payload.whollyKnownL vs = true)
    (hl : ids.length = vs.length) (hl' : ids'.length = ws.length) (hc : coversS true ws vs = true)
    (hh : hashCoh e x h ids vs = true) (hh' : hashCoh e x h ids' ws = true)
    (ho : hasElementU ⟨.set e, .sset ids vs⟩ ⟨e, x⟩ (some h) = .ok r) :
    ∃ r', hasElementU ⟨.set e, .sset ids' ws⟩ ⟨e, x⟩ (some h) = .ok r' ∧ Covers r' r = true := by
  rw [hasElementU_set_eq he hx kx] at ho ⊢
  obtain ⟨f0, hf0, rfl⟩ := res_map_ok ho
  simp only [kvs, if_true]
  -- every comparison of the needle with a stored member succeeds
  have hmem : ∀ y, y ∈ ws → ∃ c, c ∈ vs ∧ coversP true y c = true ∧
      ∃ v b, equalsP e x e y = .ok v ∧ equalsP e x e c = .ok (boolVal b) ∧ (v = unkBool ∨ v = boolVal b) := by
    intro y hy
    obtain ⟨c, hcm, hcov⟩ := coversS_left hc y hy
    exact ⟨c, hcm, hcov, eqP_weak_member he hx (wtAll_mem hws y hy) (wtAll_mem hvs c hcm) kx (wkL_mem kvs c hcm) hcov⟩
  obtain ⟨f', hf'⟩ := setHas_total (rec := equalsP) (e := e) (i := h) (x := x) ids' ws (fun y hy => by
    obtain ⟨_, _, _, v, _, hv, _⟩ := hmem y hy
    exact ⟨v, hv⟩)
  rw [hf']
  refine ⟨_, rfl, ?_⟩
  cases f' with
  | true =>
    -- found: the member it stands for Equals the needle and sits in the needle's bucket
    obtain ⟨y, v, hm, hv, ht⟩ := setHas_true ids' ws hf'
    obtain ⟨c, hcm, _, v', b, hv', hb, hor⟩ := hmem y (List.of_mem_zip hm).2
    rw [hv] at hv'
    cases hv'
    have hbt : b = true := by
      rcases hor with rfl | rfl
      · rw [isTrue_unkBool] at ht; cases ht
      · rw [isTrue_boolVal] at ht; exact ht
    subst hbt
    obtain ⟨j, hj⟩ := mem_zip_of_mem c hl hcm
    have hjh : j = h := hashCoh_mem hh j c _ hj hb (by rfl)
    subst hjh
    have : f0 = true := setHas_found ids vs f0 hf0 ⟨c, _, hj, hb, by rfl⟩
    subst this
    exact covers_boolVal_self true
  | false =>
    by_cases kws : Payload.whollyKnownL ws = true
    · -- a wholly known weakened set: every stored member IS the member it stands for
      simp only [kws, if_true, Bool.false_eq_true, if_false]
      cases f0 with
      | false => exact covers_boolVal_self false
      | true =>
        exfalso
        obtain ⟨c, v, hm, hv, ht⟩ := setHas_true ids vs hf0
        obtain ⟨a, ha, hcov⟩ := coversS_right hc c (List.of_mem_zip hm).2
        have hac : a = c := coversP_wk_eq e a c (wtAll_mem hws a ha) (wkL_mem kws a ha) hcov
        subst hac
        obtain ⟨j, hj⟩ := mem_zip_of_mem a hl' ha
        have hjh : j = h := hashCoh_mem hh' j a v hj hv ht
        subst hjh
        have := setHas_found ids' ws false hf' ⟨a, v, hj, hv, ht⟩
        cases this
    · simp only [kws, Bool.false_eq_true, if_false]
      cases f0
      · exact covers_unkBool_boolVal false
      · exact covers_unkBool_boolVal true

/-! ### Equals on two sets whose members are weakened in place: the weakened call succeeds -/

theorem setInclWK_total {n : Nat} {e : Ty} (he : eqTy e = true) (iy : List Int) (ys : List Payload)
    (hys : ∀ y, y ∈ ys → wt e y = true ∧ y.depth ≤ n ∧ ∃ c, wt e c = true ∧ c.whollyKnown = true ∧ coversP true y c = true) :
    ∀ (ix : List Int) (xs : List Payload), wtAll e xs = true → Payload.depthL xs ≤ n →
      ∃ o, setInclWK (equalsFuel n) e ix xs iy ys = .ok o
  | [], _, _, _ => ⟨some true, by simp [setInclWK]⟩
  | _ :: _, [], _, _ => ⟨some true, by simp [setInclWK]⟩
  | i :: is, x :: xs, hw, hd => by
    simp only [wtAll, Bool.and_eq_true] at hw
    simp only [Payload.depthL] at hd
    simp only [setInclWK]
    by_cases kx : x.whollyKnown = true
    · simp only [kx, Bool.not_true, Bool.false_eq_true, if_false]
      obtain ⟨f, hf⟩ := setHas_total (rec := equalsFuel n) (e := e) (i := i) (x := x) iy ys (fun y hy => by
        obtain ⟨hwy, hdy, c, hwc, kc, hcov⟩ := hys y hy
        obtain ⟨v, _, hv, _, _⟩ := eqF_weak_member n he hw.1 hwy hwc kx kc hcov (by omega) hdy
        exact ⟨v, hv⟩)
      obtain ⟨o, ho⟩ := setInclWK_total he iy ys hys is xs hw.2 (by omega)
      rw [hf, ho]
      cases o <;> exact ⟨_, rfl⟩
    · simp only [kx, Bool.not_false, if_true]
      exact ⟨none, rfl⟩

/-- members that stand for wholly known members of the fragment -/
def StandIn (e : Ty) (ws vs : List Payload) : Prop :=
  wtAll e ws = true ∧ wtAll e vs = true ∧ Payload.whollyKnownL vs = true ∧ coversS true ws vs = true

theorem standIn_mem {e : Ty} {ws vs : List Payload} (h : StandIn e ws vs) (n : Nat) (hd : Payload.depthL ws ≤ n) :
    ∀ y, y ∈ ws → wt e y = true ∧ y.depth ≤ n ∧ ∃ c, wt e c = true ∧ c.whollyKnown = true ∧ coversP true y c = true := by
  intro y hy
  obtain ⟨h1, h2, h3, h4⟩ := h
  obtain ⟨c, hcm, hcov⟩ := coversS_left h4 y hy
  have := depthL_mem y hy
  exact ⟨wtAll_mem h1 y hy, by omega, c, wtAll_mem h2 c hcm, wkL_mem h3 c hcm, hcov⟩

theorem equalsFuel_set_total {n : Nat} {e : Ty} {ix iy : List Int} {xs ys xs0 ys0 : List Payload} (he : eqTy e = true)
    (hx : StandIn e xs xs0) (hy : StandIn e ys ys0) (dx : Payload.depthL xs ≤ n) (dy : Payload.depthL ys ≤ n) :
    ∃ r, equalsFuel (n + 1) (.set e) (.sset ix xs) (.set e) (.sset iy ys) = .ok r := by
  have hee : Ty.equals (.set e) (.set e) = true := ty_equals_self (by simpa [Ty.wf] using eqTy_wf e he)
  obtain ⟨p, hp⟩ := setInclWK_total he iy ys (standIn_mem hy n dy) ix xs hx.1 dx
  obtain ⟨q, hq⟩ := setInclWK_total he ix xs (standIn_mem hx n dx) iy ys hy.1 dy
  unfold equalsFuel
  rw [equalsPre_both_known (isKnown_of_pKnown (by rfl)) (isKnown_of_pKnown (by rfl))]
  simp only [isNull_val (t := .set e) (p := .sset ix xs) (by rfl), isNull_val (t := .set e) (p := .sset iy ys) (by rfl),
    pNull, Bool.false_eq_true, if_false]
  split
  · simp only [conform_zero_of_equals hee, bne_self_eq_false, Bool.false_and, Bool.false_eq_true, if_false]
    exact ⟨_, rfl⟩
  · simp only [hee, Bool.not_true, Bool.false_eq_true, if_false, hp]
    cases p with
    | none => exact ⟨_, rfl⟩
    | some p =>
      simp only [hq]
      cases q <;> exact ⟨_, rfl⟩

/-! ### Value level -/

mutual
theorem wt_strip : ∀ (t : Ty) (p : Payload), wt t p = true → p.stripMarks = p
  | _, .null, _ | _, .unk _, _ | _, .b _, _ | _, .n _, _ | _, .s _, _ | _, .caps, _ | _, .bad _, _ => by
    simp [Payload.stripMarks]
  | t, .seq vs, h => by
    simp only [Payload.stripMarks]
    cases t <;> simp only [wt] at h <;> try (cases h; done)
    · rw [wtAll_strip _ vs h]
    · rw [wtZip_strip _ vs h]
  | _, .smap _ _, h => by simp [wt] at h
  | _, .sset _ _, h => by simp [wt] at h
  | _, .marked _ _, h => by simp [wt] at h
theorem wtAll_strip : ∀ (e : Ty) (vs : List Payload), wtAll e vs = true → Payload.stripMarksL vs = vs
  | _, [], _ => by simp [Payload.stripMarksL]
  | e, v :: vs, h => by
    simp only [wtAll, Bool.and_eq_true] at h
    simp only [Payload.stripMarksL, wt_strip e v h.1, wtAll_strip e vs h.2]
theorem wtZip_strip : ∀ (ts : List Ty) (vs : List Payload), wtZip ts vs = true → Payload.stripMarksL vs = vs
  | _, [], _ => by simp [Payload.stripMarksL]
  | [], _ :: _, h => by simp [wtZip] at h
  | t :: ts, v :: vs, h => by
    simp only [wtZip, Bool.and_eq_true] at h
    simp only [Payload.stripMarksL, wt_strip t v h.1, wtZip_strip ts vs h.2]
end

/-- what `CoversX` says about two known sets of mark-free members -/
theorem coversS_of_coversX {w o : Value} {e : Ty} {ids ids' : List Int} {vs ws : List Payload}
    (hw : w.unmark = ⟨.set e, .sset ids' ws⟩) (ho : o.unmark = ⟨.set e, .sset ids vs⟩)
    (hws : wtAll e ws = true) (hvs : wtAll e vs = true) (hc : CoversX w o = true) : coversS true ws vs = true := by
  rw [← coversX_unmark_left, ← coversX_unmark_right, hw, ho] at hc
  simp only [CoversX, CoversG, Bool.and_eq_true, Payload.stripMarks, coversP] at hc
  rw [wtAll_strip e ws hws, wtAll_strip e vs hvs] at hc
  exact hc.2

/-- HasElement with the needle kept and the members of the set weakened in place -/
theorem hasElement_sound_members (s el ws r : Value) {e : Ty} {ids ids' : List Int} {vs wvs : List Payload} {x : Payload} {h : Int}
    (hs : s.unmark = ⟨.set e, .sset ids vs⟩) (hw : ws.unmark = ⟨.set e, .sset ids' wvs⟩) (hel : el.unmarkDeep = ⟨e, x⟩)
    (he : eqTy e = true) (hvs : wtAll e vs = true) (hws : wtAll e wvs = true) (hx : wt e x = true)
    (kx : x.whollyKnown = true) (kvs : Payload.whollyKnownL vs = true)
    (hl : ids.length = vs.length) (hl' : ids'.length = wvs.length) (hc : CoversX ws s = true)
    (hh : hashCoh e x h ids vs = true) (hh' : hashCoh e x h ids' wvs = true)
    (ho : hasElement s el (some h) = .ok r) : ∃ r', hasElement ws el (some h) = .ok r' ∧ Covers r' r = true := by
  obtain ⟨f, _, f2, hf⟩ := hasElement_body s el (some h)
  obtain ⟨g, g1, _, hg⟩ := hasElement_body ws el (some h)
  rw [hf, hs, hel] at ho
  obtain ⟨r0, h0, rfl⟩ := res_map_ok ho
  rw [hg, hw, hel]
  obtain ⟨r', h1, h2⟩ := hasElementU_sound_members he hvs hws hx kx kvs hl hl' (coversS_of_coversX hw hs hws hvs hc) hh hh' h0
  rw [h1]
  exact ⟨g r', rfl, by rw [g1, f2]; exact h2⟩

/-- whatever `Equals` answers admits itself -/
theorem covers_equals_self {a b r : Value} (h : Value.equals a b = .ok r) : Covers r r = true := by
  obtain ⟨r0, ms, hs0, hr0⟩ := equals_result_boolish h
  have base : Covers r0 r0 = true := by
    rcases hs0 with rfl | ⟨x, rfl⟩
    · decide
    · exact covers_boolVal_self x
  rcases hr0 with rfl | rfl
  · rw [covers_withMarks_left, covers_withMarks_right]; exact base
  · exact base

/-- Equals on two sets of one type whose members are weakened in place: the weakened call
cannot fail, and it answers "unknown" as soon as a member of either set is not wholly known -/
theorem equals_sound_sets (o₁ o₂ w₁ w₂ r : Value) {e : Ty} {ix iy : List Int} {xs ys xs0 ys0 : List Payload}
    (he : eqTy e = true) (ht₁ : w₁.ty = .set e) (ht₂ : w₂.ty = .set e)
    (hp₁ : w₁.v.stripMarks = .sset ix xs) (hp₂ : w₂.v.stripMarks = .sset iy ys)
    (hl₁ : ix.length = xs.length) (hl₂ : iy.length = ys.length)
    (hs₁ : StandIn e xs xs0) (hs₂ : StandIn e ys ys0)
    (hk : (w₁ = o₁ ∧ w₂ = o₂) ∨ Payload.whollyKnownL xs = false ∨ Payload.whollyKnownL ys = false)
    (ho : Value.equals o₁ o₂ = .ok r) : ∃ r', Value.equals w₁ w₂ = .ok r' ∧ Covers r' r = true := by
  rcases hk with ⟨rfl, rfl⟩ | hk
  · exact ⟨r, ho, covers_equals_self ho⟩
  · have hee : Ty.equals (.set e) w₂.ty = true := by
      rw [ht₂]; exact ty_equals_self (by simpa [Ty.wf] using eqTy_wf e he)
    have htot : ∃ r0, equalsP (.set e) (.sset ix xs) (.set e) (.sset iy ys) = .ok r0 := by
      unfold equalsP
      exact equalsFuel_set_total he hs₁ hs₂ (by simp only [Payload.depth]; omega) (by simp only [Payload.depth]; omega)
    obtain ⟨r0, hr0⟩ := htot
    have hw : ∃ r', Value.equals w₁ w₂ = .ok r' := by
      obtain ⟨ms, hs | hs⟩ := equals_strip w₁ w₂
      · rw [hs, ht₁, ht₂, hp₁, hp₂, hr0]; exact ⟨_, rfl⟩
      · rw [hs, ht₁, ht₂, hp₁, hp₂, hr0]; exact ⟨_, rfl⟩
    obtain ⟨r', hr'⟩ := hw
    exact ⟨r', hr', equals_unknown_covers hr' (equals_set_unknown w₁ w₂ r' ht₁ hee hp₁ hp₂ hl₁ hl₂ hk hr') ho⟩

end D01b
end CtyModel
