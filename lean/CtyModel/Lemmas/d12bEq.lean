/-
C12 / d12b: a weakened value that is itself WHOLLY KNOWN is the value it weakens (set-free payloads:
`CoversX` keeps every known leaf as it is — numbers included — and the shape).  This is what makes the
"`if !arg.IsWhollyKnown() { return unknown }`" guards of the stdlib callbacks sound: past the guard the
callback computes on the very value of the concrete call.
-/
import CtyModel.Lemmas.d12bCall
namespace CtyModel
namespace D12b
open Cov

mutual
/-- no set anywhere inside (set members are covered by a surjection, not position by position) -/
def noSet : Payload → Bool
  | .sset _ _ => false
  | .marked _ r => noSet r
  | .seq vs | .smap _ vs => noSetL vs
  | _ => true
def noSetL : List Payload → Bool
  | [] => true
  | v :: vs => noSet v && noSetL vs
end

mutual
theorem coversP_wk_eq : ∀ (a c : Payload), a.containsMarked = false → a.whollyKnown = true → noSet a = true →
    coversP true a c = true → a = c
  | .unk r, c, _, hk, _, _ => by simp [Payload.whollyKnown] at hk
  | .null, c, _, _, _, h => by cases c <;> simp_all [coversP]
  | .b x, c, _, _, _, h => by cases c <;> simp_all [coversP]
  | .n x, c, _, _, _, h => by cases c <;> simp_all [coversP, numEq]
  | .s x, c, _, _, _, h => by cases c <;> simp_all [coversP]
  | .caps, c, _, _, _, h => by cases c <;> simp_all [coversP]
  | .seq as, c, hm, hk, hs, h => by
    cases c <;> simp [coversP] at h
    simp only [Payload.containsMarked, Payload.whollyKnown, noSet] at hm hk hs
    rw [coversL_wk_eq as _ hm hk hs h]
  | .smap ks as, c, hm, hk, hs, h => by
    cases c <;> simp [coversP] at h
    simp only [Payload.containsMarked, Payload.whollyKnown, noSet] at hm hk hs
    rw [coversL_wk_eq as _ hm hk hs h.2, h.1]
  | .sset _ as, c, _, _, hs, _ => by simp [noSet] at hs
  | .marked _ a, c, hm, _, _, _ => by simp [Payload.containsMarked] at hm
  | .bad _, _, _, _, _, h => by simp [coversP] at h
theorem coversL_wk_eq : ∀ (as cs : List Payload), Payload.containsMarkedL as = false → Payload.whollyKnownL as = true →
    noSetL as = true → coversL true as cs = true → as = cs
  | [], cs, _, _, _, h => by cases cs <;> simp_all [coversL]
  | a :: as, cs, hm, hk, hs, h => by
    cases cs <;> simp [coversL] at h
    simp only [Payload.containsMarkedL, Payload.whollyKnownL, noSetL, Bool.or_eq_false_iff, Bool.and_eq_true] at hm hk hs
    rw [coversP_wk_eq a _ hm.1 hk.1 hs.1 h.1, coversL_wk_eq as _ hm.2 hk.2 hs.2 h.2]
end

theorem stripMarks_clean' (p : Payload) (h : p.containsMarked = false) : p.stripMarks = p :=
  C12L.stripMarks_clean p h

/-- a wholly known, mark-free, set-free weakening of a mark-free value of the same type IS that value -/
theorem coversX_wk_eq {w o : Value} (hty : w.ty = o.ty) (hmw : w.containsMarked = false) (hmo : o.containsMarked = false)
    (hk : w.whollyKnown = true) (hs : noSet w.v = true) (hc : CoversX w o = true) : w = o := by
  obtain ⟨wt, wp⟩ := w
  obtain ⟨ot, op⟩ := o
  simp only [CoversX, CoversG, Bool.and_eq_true] at hc
  simp only at hty
  subst hty
  have h1 := stripMarks_clean' wp hmw
  have h2 := stripMarks_clean' op hmo
  simp only [h1, h2] at hc
  rw [coversP_wk_eq wp op hmw hk hs hc.2]

end D12b
end CtyModel
