/-
C15 — what the encoder does with values JSON cannot represent: a value containing an
unknown or a mark anywhere is never encoded (`noOk_*`), and on well-formed conforming
capsule-free set-free input the encoder never panics (`okErr_*`); together: an error.
-/
import CtyModel.Lemmas.JsonValRT
namespace CtyModel
namespace JsonVal
open Ty

/-! ### the type encoder only fails on capsules -/
mutual
theorem toJson_ok : ∀ t : Ty, hasCapsule t = false → ∃ j, toJson t = .ok j
  | .bool, _ => ⟨_, rfl⟩
  | .number, _ => ⟨_, rfl⟩
  | .string, _ => ⟨_, rfl⟩
  | .dyn, _ => ⟨_, rfl⟩
  | .capsule _, h => by simp [hasCapsule] at h
  | .list e, h => by
    obtain ⟨j, hj⟩ := toJson_ok e (by simpa [hasCapsule] using h)
    simp [toJson, hj, Res.map]
  | .set e, h => by
    obtain ⟨j, hj⟩ := toJson_ok e (by simpa [hasCapsule] using h)
    simp [toJson, hj, Res.map]
  | .map e, h => by
    obtain ⟨j, hj⟩ := toJson_ok e (by simpa [hasCapsule] using h)
    simp [toJson, hj, Res.map]
  | .tuple es, h => by
    obtain ⟨js, hj⟩ := toJsonL_ok es (by simpa [hasCapsule] using h)
    simp [toJson, hj, Res.map]
  | .object ns ts os, h => by
    obtain ⟨js, hj⟩ := toJsonL_ok ts (by simpa [hasCapsule] using h)
    simp [toJson, hj, Res.map]
theorem toJsonL_ok : ∀ ts : List Ty, hasCapsuleL ts = false → ∃ js, toJsonL ts = .ok js
  | [], _ => ⟨[], rfl⟩
  | t :: ts, h => by
    simp only [hasCapsuleL, Bool.or_eq_false_iff] at h
    obtain ⟨j, hj⟩ := toJson_ok t h.1
    obtain ⟨js, hjs⟩ := toJsonL_ok ts h.2
    exact ⟨j :: js, by simp [toJsonL, hj, hjs, Res.map]⟩
end

/-! ### never encoded -/

/-- "contains a mark, an unknown or an infinite number somewhere" -/
def Tainted (p : Payload) : Prop := p.containsMarked = true ∨ p.whollyKnown = false ∨ hasInf p = true
def TaintedL (vs : List Payload) : Prop :=
  Payload.containsMarkedL vs = true ∨ Payload.whollyKnownL vs = false ∨ hasInfL vs = true

theorem taintedL_cons {v : Payload} {vs : List Payload} (h : TaintedL (v :: vs)) : Tainted v ∨ TaintedL vs := by
  unfold TaintedL at h
  simp only [Payload.containsMarkedL, Payload.whollyKnownL, hasInfL, Bool.or_eq_true, Bool.and_eq_false_iff] at h
  unfold Tainted TaintedL
  rcases h with (h | h) | (h | h) | (h | h)
  · exact .inl (.inl h)
  · exact .inr (.inl h)
  · exact .inl (.inr (.inl h))
  · exact .inr (.inr (.inl h))
  · exact .inl (.inr (.inr h))
  · exact .inr (.inr (.inr h))

theorem map_ne_ok {α β} {r : Res α} {f : α → β} (h : ∀ a, r ≠ .ok a) : ∀ b, r.map f ≠ .ok b := by
  intro b
  cases r with
  | ok a => exact absurd rfl (h a)
  | _ => simp [Res.map]

theorem noOk_entry (t vt : Ty) (p : Payload) (body : Ty → Res Json)
    (hb : ∀ t' j, body t' ≠ .ok j) : ∀ j, marshalEntry t vt p body ≠ .ok j := by
  intro j
  unfold marshalEntry
  split
  · simp
  · split
    · simp
    · split
      · split
        · rename_i tj _
          have := hb vt
          split
          · rename_i j' hj'; exact absurd hj' (this j')
          · simp
          · rename_i r hr1 hr2
            intro e
            cases hbv : body vt with
            | ok a => exact absurd hbv (this a)
            | err c => exact hr2 c hbv
            | panic w => simp [hbv] at e
            | unmodelled => simp [hbv] at e
        · simp
        · simp
        · simp
      · exact hb t j

mutual
theorem noOk_known (env : JEnv) : ∀ (p : Payload) (t vt : Ty), Tainted p →
    ∀ j, marshalKnown env t vt p ≠ .ok j
  | .null, _, _, h, _ => by simp [Tainted, Payload.containsMarked, Payload.whollyKnown, hasInf] at h
  | .b _, _, _, h, _ => by simp [Tainted, Payload.containsMarked, Payload.whollyKnown, hasInf] at h
  | .n x, t, _, h, _ => by
    have hx : x.isInf = true := by simpa [Tainted, Payload.containsMarked, Payload.whollyKnown, hasInf] using h
    simp only [marshalKnown]
    split
    · simp [hx]
    · simp
  | .s _, _, _, h, _ => by simp [Tainted, Payload.containsMarked, Payload.whollyKnown, hasInf] at h
  | .caps, _, _, h, _ => by simp [Tainted, Payload.containsMarked, Payload.whollyKnown, hasInf] at h
  | .bad _, _, _, h, _ => by simp [Tainted, Payload.containsMarked, Payload.whollyKnown, hasInf] at h
  | .unk _, _, _, _, _ => by simp [marshalKnown]
  | .marked _ _, _, _, _, _ => by simp [marshalKnown]
  | .seq vs, t, vt, h, j => by
    have hl : TaintedL vs := by simpa [Tainted, TaintedL, Payload.containsMarked, Payload.whollyKnown, hasInf] using h
    simp only [marshalKnown]
    split
    · exact map_ne_ok (noOk_all env vs _ _ hl) j
    · exact map_ne_ok (noOk_zip env vs _ _ hl) j
    · simp
    · simp
  | .sset _ vs, t, vt, h, j => by
    have hl : TaintedL vs := by simpa [Tainted, TaintedL, Payload.containsMarked, Payload.whollyKnown, hasInf] using h
    simp only [marshalKnown]
    split
    · rename_i e ve
      have := noOk_all env vs e ve hl
      split
      · rename_i js hjs; exact absurd hjs (this js)
      · simp
      · simp
      · simp
    · simp
    · simp
  | .smap ks vs, t, vt, h, j => by
    have hl : TaintedL vs := by simpa [Tainted, TaintedL, Payload.containsMarked, Payload.whollyKnown, hasInf] using h
    simp only [marshalKnown]
    split
    · exact map_ne_ok (noOk_all env vs _ _ hl) j
    · split
      · exact map_ne_ok (noOk_zip env vs _ _ hl) j
      · simp
    · simp
    · simp
theorem noOk_all (env : JEnv) : ∀ (vs : List Payload) (e ve : Ty), TaintedL vs →
    ∀ js, marshalAll env e ve vs ≠ .ok js
  | [], _, _, h, _ => by simp [TaintedL, Payload.containsMarkedL, Payload.whollyKnownL, hasInfL] at h
  | v :: vs, e, ve, h, js => by
    simp only [marshalAll]
    rcases taintedL_cons h with hv | hvs
    · have := noOk_entry e ve v (fun t' => marshalKnown env t' ve v) (fun t' j => noOk_known env v t' ve hv j)
      split
      · rename_i j hj; exact absurd hj (this j)
      · simp
      · simp
      · simp
    · split
      · exact map_ne_ok (noOk_all env vs e ve hvs) js
      · simp
      · simp
      · simp
theorem noOk_zip (env : JEnv) : ∀ (vs : List Payload) (es ves : List Ty), TaintedL vs →
    ∀ js, marshalZip env es ves vs ≠ .ok js
  | [], _, _, h, _ => by simp [TaintedL, Payload.containsMarkedL, Payload.whollyKnownL, hasInfL] at h
  | v :: vs, [], _, _, _ => by simp [marshalZip]
  | v :: vs, _ :: _, [], _, _ => by simp [marshalZip]
  | v :: vs, e :: es, ve :: ves, h, js => by
    simp only [marshalZip]
    rcases taintedL_cons h with hv | hvs
    · have := noOk_entry e ve v (fun t' => marshalKnown env t' ve v) (fun t' j => noOk_known env v t' ve hv j)
      split
      · rename_i j hj; exact absurd hj (this j)
      · simp
      · simp
      · simp
    · split
      · exact map_ne_ok (noOk_zip env vs es ves hvs) js
      · simp
      · simp
      · simp
end

/-- a value containing a mark, an unknown or an infinite number anywhere is never encoded -/
theorem noOk_marshal (env : JEnv) (v : Value) (t : Ty) (h : Tainted v.v) : ∀ j, marshal env v t ≠ .ok j :=
  noOk_entry t v.ty v.v _ (fun t' j => noOk_known env v.v t' v.ty h j)

/-! ### never a panic -/

def OkOrErr {α} (r : Res α) : Prop := (∃ a, r = .ok a) ∨ (∃ c, r = .err c)

theorem okErr_map {α β} {r : Res α} (f : α → β) (h : OkOrErr r) : OkOrErr (r.map f) := by
  rcases h with ⟨a, rfl⟩ | ⟨c, rfl⟩
  · exact .inl ⟨f a, rfl⟩
  · exact .inr ⟨c, rfl⟩

/-- what "never panics" needs: well-formed, conforming, capsule-free, set-free (unknowns
and marks allowed) -/
structure RW (t vt : Ty) (p : Payload) : Prop where
  wt : wf t = true
  wvt : wf vt = true
  noCaps : hasCapsule vt = false
  noSet : setFree vt = true
  conf : «matches» t vt = true
  wfp : wfP vt p = true

theorem RW.self {t vt p} (h : RW t vt p) : RW vt vt p :=
  { h with wt := h.wvt, conf := matches_refl vt }

def ZipW : List Ty → List Ty → List Payload → Prop
  | e :: es, ve :: ves, v :: vs => RW e ve v ∧ ZipW es ves vs
  | [], [], [] => True
  | _, _, _ => False

theorem zipW_of : ∀ (es ves : List Ty) (vs : List Payload),
    wfL es = true → wfL ves = true → hasCapsuleL ves = false → setFreeL ves = true →
    matchesL es ves = true → ves.length = vs.length → wfZip ves vs = true → ZipW es ves vs
  | [], [], [], _, _, _, _, _, _, _ => trivial
  | [], _ :: _, _, _, _, _, _, h, _, _ => by simp [matchesL] at h
  | _ :: _, [], _, _, _, _, _, h, _, _ => by simp [matchesL] at h
  | [], [], _ :: _, _, _, _, _, _, h, _ => by simp at h
  | _ :: _, _ :: _, [], _, _, _, _, _, h, _ => by simp at h
  | e :: es, ve :: ves, v :: vs, h1, h2, h4, h5, h7, h8, h9 => by
    simp only [wfL, Bool.and_eq_true] at h1 h2
    simp only [hasCapsuleL, Bool.or_eq_false_iff] at h4
    simp only [setFreeL, matchesL, wfZip, Bool.and_eq_true] at h5 h7 h9
    exact ⟨⟨h1.1, h2.1, h4.1, h5.1, h7.1, h9.1⟩,
      zipW_of es ves vs h1.2 h2.2 h4.2 h5.2 h7.2 (by simpa using h8) h9.2⟩

theorem okErr_entry (t vt : Ty) (p : Payload) (body : Ty → Res Json) (h : RW t vt p)
    (hb : ∀ t', RW t' vt p → (t'.isDyn = true → vt.isDyn = true) → OkOrErr (body t')) :
    OkOrErr (marshalEntry t vt p body) := by
  unfold marshalEntry
  split
  · exact .inr ⟨_, rfl⟩
  · split
    · exact .inr ⟨_, rfl⟩
    · split
      · rename_i hd
        simp only [Bool.and_eq_true, Bool.not_eq_true'] at hd
        obtain ⟨tj, htj⟩ := toJson_ok vt h.noCaps
        simp only [htj]
        rcases hb vt h.self (fun a => a) with ⟨j, hj⟩ | ⟨c, hc⟩
        · simp only [hj]; exact .inl ⟨_, rfl⟩
        · simp only [hc]; exact .inr ⟨_, rfl⟩
      · rename_i hd
        refine hb t h ?_
        intro ht
        simp only [ht, Bool.true_and, Bool.not_eq_true', Bool.not_eq_false] at hd
        exact hd

mutual
theorem okErr_known (env : JEnv) : ∀ (p : Payload) (t vt : Ty), RW t vt p →
    (t.isDyn = true → vt.isDyn = true) → OkOrErr (marshalKnown env t vt p)
  | .null, _, _, _, _ => by simp [OkOrErr, marshalKnown]
  | .unk _, _, _, _, _ => by simp [OkOrErr, marshalKnown]
  | .marked _ _, _, _, _, _ => by simp [OkOrErr, marshalKnown]
  | .caps, _, vt, h, _ => by have := h.wfp; cases vt <;> simp [wfP] at this
  | .bad _, _, vt, h, _ => by have := h.wfp; cases vt <;> simp [wfP] at this
  | .sset _ _, _, vt, h, _ => by
    have hw := h.wfp
    have hs := h.noSet
    cases vt <;> simp [wfP] at hw
    simp [setFree] at hs
  | .b x, t, vt, h, hd => by
    have hw := h.wfp
    cases vt with
    | bool =>
      have hc := h.conf
      cases t with
      | bool => simp [OkOrErr, marshalKnown]
      | dyn => exact absurd (hd rfl) (by simp [Ty.isDyn])
      | _ => simp [«matches»] at hc
    | _ => simp [wfP] at hw
  | .s x, t, vt, h, hd => by
    have hw := h.wfp
    cases vt with
    | string =>
      have hc := h.conf
      cases t with
      | string => simp [OkOrErr, marshalKnown]
      | dyn => exact absurd (hd rfl) (by simp [Ty.isDyn])
      | _ => simp [«matches»] at hc
    | _ => simp [wfP] at hw
  | .n x, t, vt, h, hd => by
    have hw := h.wfp
    cases vt with
    | number =>
      have hc := h.conf
      cases t with
      | number =>
        simp only [marshalKnown]
        split
        · exact .inr ⟨_, rfl⟩
        · exact .inl ⟨_, rfl⟩
      | dyn => exact absurd (hd rfl) (by simp [Ty.isDyn])
      | _ => simp [«matches»] at hc
    | _ => simp [wfP] at hw
  | .seq vs, t, vt, h, hd => by
    have hw := h.wfp
    cases vt with
    | list ve =>
      have hc := h.conf
      cases t with
      | list e =>
        simp only [«matches»] at hc
        simp only [wfP] at hw
        have hel : ∀ v ∈ vs, RW e ve v := fun v hv =>
          { wt := by simpa [wf] using h.wt, wvt := by simpa [wf] using h.wvt
            noCaps := by simpa [hasCapsule] using h.noCaps
            noSet := by simpa [setFree] using h.noSet
            conf := hc, wfp := wfAll_mem hw v hv }
        simp only [marshalKnown]
        exact okErr_map _ (okErr_all env vs e ve hel)
      | dyn => exact absurd (hd rfl) (by simp [Ty.isDyn])
      | _ => simp [«matches»] at hc
    | tuple ves =>
      have hc := h.conf
      cases t with
      | tuple es =>
        simp only [«matches»] at hc
        simp only [wfP, Bool.and_eq_true, beq_iff_eq] at hw
        have hz : ZipW es ves vs :=
          zipW_of es ves vs (by simpa [wf] using h.wt) (by simpa [wf] using h.wvt)
            (by simpa [hasCapsule] using h.noCaps) (by simpa [setFree] using h.noSet) hc hw.1 hw.2
        simp only [marshalKnown]
        exact okErr_map _ (okErr_zip env vs es ves hz)
      | dyn => exact absurd (hd rfl) (by simp [Ty.isDyn])
      | _ => simp [«matches»] at hc
    | _ => simp [wfP] at hw
  | .smap ks vs, t, vt, h, hd => by
    have hw := h.wfp
    cases vt with
    | map ve =>
      have hc := h.conf
      cases t with
      | map e =>
        simp only [«matches»] at hc
        simp only [wfP, Bool.and_eq_true, beq_iff_eq] at hw
        have hel : ∀ v ∈ vs, RW e ve v := fun v hv =>
          { wt := by simpa [wf] using h.wt, wvt := by simpa [wf] using h.wvt
            noCaps := by simpa [hasCapsule] using h.noCaps
            noSet := by simpa [setFree] using h.noSet
            conf := hc, wfp := wfAll_mem hw.2 v hv }
        simp only [marshalKnown]
        exact okErr_map _ (okErr_all env vs e ve hel)
      | dyn => exact absurd (hd rfl) (by simp [Ty.isDyn])
      | _ => simp [«matches»] at hc
    | object vns vts vos =>
      have hc := h.conf
      cases t with
      | object ns ts os =>
        simp only [«matches», Bool.and_eq_true, beq_iff_eq] at hc
        obtain ⟨hns, hc⟩ := hc
        subst hns
        simp only [wfP, Bool.and_eq_true, beq_iff_eq] at hw
        obtain ⟨⟨hks, hvl⟩, hw⟩ := hw
        subst hks
        have hwt := h.wt
        have hwvt := h.wvt
        simp only [wf, Bool.and_eq_true, beq_iff_eq] at hwt hwvt
        have hz : ZipW ts vts vs :=
          zipW_of ts vts vs hwt.2 hwvt.2 (by simpa [hasCapsule] using h.noCaps)
            (by simpa [setFree] using h.noSet) hc hvl hw
        simp only [marshalKnown, beq_self_eq_true, if_true]
        exact okErr_map _ (okErr_zip env vs ts vts hz)
      | dyn => exact absurd (hd rfl) (by simp [Ty.isDyn])
      | _ => simp [«matches»] at hc
    | _ => simp [wfP] at hw
theorem okErr_all (env : JEnv) : ∀ (vs : List Payload) (e ve : Ty), (∀ v ∈ vs, RW e ve v) →
    OkOrErr (marshalAll env e ve vs)
  | [], _, _, _ => .inl ⟨[], rfl⟩
  | v :: vs, e, ve, h => by
    simp only [marshalAll]
    rcases okErr_entry e ve v (fun t' => marshalKnown env t' ve v) (h v (by simp))
      (fun t' a b => okErr_known env v t' ve a b) with ⟨j, hj⟩ | ⟨c, hc⟩
    · simp only [hj]
      exact okErr_map _ (okErr_all env vs e ve (fun x hx => h x (List.mem_cons_of_mem _ hx)))
    · simp only [hc]; exact .inr ⟨_, rfl⟩
theorem okErr_zip (env : JEnv) : ∀ (vs : List Payload) (es ves : List Ty), ZipW es ves vs →
    OkOrErr (marshalZip env es ves vs)
  | [], _, _, _ => .inl ⟨[], by simp [marshalZip]⟩
  | _ :: _, [], _, h => by cases ‹List Ty› <;> simp [ZipW] at h
  | _ :: _, _ :: _, [], h => by simp [ZipW] at h
  | v :: vs, e :: es, ve :: ves, h => by
    simp only [ZipW] at h
    simp only [marshalZip]
    rcases okErr_entry e ve v (fun t' => marshalKnown env t' ve v) h.1
      (fun t' a b => okErr_known env v t' ve a b) with ⟨j, hj⟩ | ⟨c, hc⟩
    · simp only [hj]
      exact okErr_map _ (okErr_zip env vs es ves h.2)
    · simp only [hc]; exact .inr ⟨_, rfl⟩
end

/-- on well-formed conforming capsule-free set-free input the encoder returns a document
or an error — never a panic -/
theorem okErr_marshal (env : JEnv) (v : Value) (t : Ty) (h : RW t v.ty v.v) : OkOrErr (marshal env v t) :=
  okErr_entry t v.ty v.v _ h (fun t' a b => okErr_known env v.v t' v.ty a b)

end JsonVal
end CtyModel
