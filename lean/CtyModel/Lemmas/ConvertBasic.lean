/-
Basic facts for the conversion model: the `Res` combinators, the value
constructors (`listVal`, `mapVal`, `setVal`, …), and a few facts about types that
the C07 lemma files do not already provide.
-/
import CtyModel.ConvertSpec
import CtyModel.Lemmas.TyMisc
import CtyModel.Lemmas.TyConform
namespace CtyModel
namespace Convert
open Ty

/-! ### Res -/

theorem Res.bind_eq_ok {α β} {r : Res α} {f : α → Res β} {b : β} (h : r.bind f = .ok b) :
    ∃ a, r = .ok a ∧ f a = .ok b := by
  cases r <;> simp [Res.bind] at h
  exact ⟨_, rfl, h⟩

theorem Res.map_eq_ok {α β} {r : Res α} {f : α → β} {b : β} (h : r.map f = .ok b) :
    ∃ a, r = .ok a ∧ f a = b := by
  cases r <;> simp [Res.map] at h
  exact ⟨_, rfl, h⟩

/-- pointwise relation of two lists of the same length -/
inductive All2 {α β} (R : α → β → Prop) : List α → List β → Prop
  | nil : All2 R [] []
  | cons {a b as bs} : R a b → All2 R as bs → All2 R (a :: as) (b :: bs)

theorem All2.length {α β} {R : α → β → Prop} : ∀ {xs : List α} {ys : List β}, All2 R xs ys → xs.length = ys.length
  | _, _, .nil => rfl
  | _, _, .cons _ h => by simp [h.length]

theorem All2.right {α β} {R : α → β → Prop} {P : β → Prop} (hR : ∀ a b, R a b → P b) :
    ∀ {xs : List α} {ys : List β}, All2 R xs ys → ∀ y ∈ ys, P y
  | _, _, .nil => by simp
  | _, _, .cons h hs => by
    intro y hy
    rcases List.mem_cons.mp hy with rfl | hy
    · exact hR _ _ h
    · exact All2.right hR hs y hy

theorem mapRes_ok {α β} {f : α → Res β} : ∀ {xs : List α} {ys : List β},
    mapRes f xs = .ok ys → All2 (fun x y => f x = .ok y) xs ys
  | [], ys, h => by
    simp [mapRes] at h; subst h; exact .nil
  | x :: xs, ys, h => by
    simp only [mapRes] at h
    obtain ⟨b, hb, h⟩ := Res.bind_eq_ok h
    obtain ⟨bs, hbs, h⟩ := Res.bind_eq_ok h
    simp at h; subst h
    exact .cons hb (mapRes_ok hbs)

theorem mapRes_id {α} {f : α → Res α} : ∀ (xs : List α), (∀ x ∈ xs, f x = .ok x) → mapRes f xs = .ok xs
  | [], _ => rfl
  | x :: xs, h => by
    simp [mapRes, h x (by simp), mapRes_id xs (fun y hy => h y (by simp [hy])), Res.bind]

/-! ### Types -/

theorem isDyn_hasDyn {t : Ty} (h : t.isDyn = true) : t.hasDyn = true := by
  cases t <;> simp [Ty.isDyn] at h <;> simp [hasDyn]

theorem not_isDyn_of_noDyn {t : Ty} (h : t.hasDyn = false) : t.isDyn = false := by
  cases t <;> simp [Ty.isDyn, hasDyn] at *

mutual
theorem wf_stripOpt : ∀ t : Ty, wf t = true → wf (stripOpt t) = true
  | .bool, _ | .number, _ | .string, _ | .dyn, _ | .capsule _, _ => by simp [stripOpt, wf]
  | .list e, h | .set e, h | .map e, h => by
    simp only [wf] at h; simp [stripOpt, wf, wf_stripOpt e h]
  | .tuple es, h => by simp only [wf] at h; simp [stripOpt, wf, wfL_stripOptL es h]
  | .object ns ts os, h => by
    simp only [wf, Bool.and_eq_true] at h
    simp [stripOpt, wf, wfL_stripOptL ts h.2, stripOptL_length, h.1.1.1, h.1.1.2, h.1.2]
theorem wfL_stripOptL : ∀ ts : List Ty, wfL ts = true → wfL (stripOptL ts) = true
  | [], _ => rfl
  | t :: ts, h => by
    simp only [wfL, Bool.and_eq_true] at h
    simp [stripOptL, wfL, wf_stripOpt t h.1, wfL_stripOptL ts h.2]
end

theorem equals_self {t : Ty} (h : wf t = true) : t.equals t = true :=
  (Ty.equals_iff_eq t t h h).mpr rfl

theorem eq_of_equals {a b : Ty} (ha : wf a = true) (hb : wf b = true) (h : a.equals b = true) : a = b :=
  (Ty.equals_iff_eq a b ha hb).mp h

/-! a placeholder-free constraint is conformed to exactly by itself (up to annotations) -/
mutual
theorem fill_noDyn : ∀ (c t : Ty), hasDyn c = false → fill c t = c
  | .dyn, _, h => by simp [hasDyn] at h
  | .bool, _, _ | .number, _, _ | .string, _, _ | .capsule _, _, _ => by simp [fill]
  | .list c, t, h => by
    cases t <;> simp [fill]
    exact fill_noDyn c _ (by simpa [hasDyn] using h)
  | .set c, t, h => by
    cases t <;> simp [fill]
    exact fill_noDyn c _ (by simpa [hasDyn] using h)
  | .map c, t, h => by
    cases t <;> simp [fill]
    exact fill_noDyn c _ (by simpa [hasDyn] using h)
  | .tuple cs, t, h => by
    cases t <;> simp [fill]
    exact fillL_noDyn cs _ (by simpa [hasDyn] using h)
  | .object cn ct co, t, h => by
    cases t <;> simp [fill]
    exact fillL_noDyn ct _ (by simpa [hasDyn] using h)
theorem fillL_noDyn : ∀ (cs ts : List Ty), hasDynL cs = false → fillL cs ts = cs
  | [], _, _ => by simp [fillL]
  | _ :: _, [], _ => by simp [fillL]
  | c :: cs, t :: ts, h => by
    simp only [hasDynL, Bool.or_eq_false_iff] at h
    simp [fillL, fill_noDyn c t h.1, fillL_noDyn cs ts h.2]
end

/-- the erased form of a placeholder-free type conforms to it -/
theorem conform_stripOpt (c : Ty) (hw : wf c = true) (hd : hasDyn c = false) :
    conformErrs c (stripOpt c) = 0 := by
  rw [Ty.conform_iff c _ hw (wf_stripOpt c hw), Ty.matches_iff_fill c _ hw (wf_stripOpt c hw),
    fill_noDyn c _ hd, stripOpt_idem]

/-! ### value constructors -/

theorem elemTyAcc_same (t : Ty) (hw : wf t = true) (hd : t.isDyn = false) :
    ∀ (ts : List Ty), (∀ x ∈ ts, x = t) → elemTyAcc t ts = some t
  | [], _ => rfl
  | x :: xs, h => by
    have hx : x = t := h x (by simp)
    subst hx
    simp [elemTyAcc, hd, equals_self hw, elemTyAcc_same x hw hd xs (fun y hy => h y (by simp [hy]))]

theorem elemTyOf_same {t : Ty} (hw : wf t = true) (hd : t.isDyn = false) {vs : List Value}
    (hne : vs ≠ []) (h : ∀ v ∈ vs, v.ty = t) : elemTyOf vs = some t := by
  cases vs with
  | nil => exact absurd rfl hne
  | cons v vs =>
    have hv : v.ty = t := h v (by simp)
    simp only [elemTyOf, List.map_cons, elemTyAcc, Ty.isDyn, if_true, hv]
    exact elemTyAcc_same t hw hd _ (by
      intro x hx
      obtain ⟨w, hw', rfl⟩ := List.mem_map.mp hx
      exact h w (by simp [hw']))

theorem withMarks_ty (v : Value) (ms : List String) : (v.withMarks ms).ty = v.ty := rfl

theorem listVal_ty {vs : List Value} {r : Value} {t : Ty} (hw : wf t = true) (hd : t.isDyn = false)
    (h : ∀ v ∈ vs, v.ty = t) (hr : listVal vs = .ok r) : r.ty = .list t := by
  unfold listVal at hr
  by_cases he : vs.isEmpty
  · simp [he] at hr
  · have hne : vs ≠ [] := by simpa using he
    simp [he, elemTyOf_same hw hd hne h] at hr
    rw [← hr]

theorem mapVal_ty {ks : List String} {vs : List Value} {r : Value} {t : Ty} (hw : wf t = true)
    (hd : t.isDyn = false) (h : ∀ v ∈ vs, v.ty = t) (hr : mapVal ks vs = .ok r) : r.ty = .map t := by
  unfold mapVal at hr
  by_cases he : vs.isEmpty
  · simp [he] at hr
  · have hne : vs ≠ [] := by simpa using he
    simp [he, elemTyOf_same hw hd hne h] at hr
    rw [← hr]

theorem setVal_ty {E : Env} {vs : List Value} {r : Value} {t : Ty} (hw : wf t = true)
    (hd : t.isDyn = false) (h : ∀ v ∈ vs, v.ty = t) (hr : setVal E vs = .ok r) : r.ty = .set t := by
  unfold setVal at hr
  by_cases he : vs.isEmpty
  · simp [he] at hr
  · have hne : vs ≠ [] := by simpa using he
    simp only [he, elemTyOf_same hw hd hne h] at hr
    obtain ⟨p, _, hp⟩ := Res.map_eq_ok hr
    rw [← hp]; rfl

theorem canCollVal_same {t : Ty} (hw : wf t = true) (hd : t.isDyn = false) {vs : List Value}
    (hne : vs ≠ []) (h : ∀ v ∈ vs, v.ty = t) : canCollVal vs = true := by
  simp [canCollVal, elemTyOf_same hw hd hne h]

theorem stripNull_ty (v : Value) (h : v.ty.hasOpt = false) : (stripNull v).ty = v.ty := by
  unfold stripNull
  split
  · simp [Value.null, Value.withMarks, stripOpt_id_of_noOpt _ h]
  · rfl

end Convert
end CtyModel
