/-
C12 / d12b: `element` and `index` end to end: both end in `Value.Index` on the (known-at-the-top) collection
and a KNOWN key, whose soundness is C01 `sound_index`; what is added here is that the index computed from
the key (`element`: modulo the length) and the predicted type are the same for the weakened call.
-/
import CtyModel.Lemmas.d12bContains
import CtyModel.Props.C01
namespace CtyModel
namespace D12b
open Fn Stdlib C12L Cov

/-- a weakening, known at the top, of a number / string / bool is that number / string / bool -/
theorem leaf_eq {w o : Value} (hmw : w.containsMarked = false) (hmo : o.containsMarked = false) (hty : w.ty = o.ty)
    (hc : CoversX w o = true) (hk : w.isKnown = true) (hl : o.v.isLeaf = true) : w = o := by
  obtain ⟨wt, wp⟩ := w
  obtain ⟨ot, op⟩ := o
  simp only at hty
  subst hty
  simp only [CoversX, CoversG, Bool.and_eq_true] at hc
  have h1 := stripMarks_clean' wp hmw
  have h2 := stripMarks_clean' op hmo
  simp only [h1, h2] at hc
  have hc2 := hc.2
  cases op <;> simp [Payload.isLeaf] at hl <;>
    cases wp <;> simp_all [coversP, numEq, Value.isKnown, Payload.isKnown, Payload.unmark1, Value.containsMarked,
      Payload.containsMarked, admits]

/-- the type of what `Value.Index` returns depends on the collection's TYPE and the (known) key only -/
theorem indexU_ty_dep {v v' k r r' : Value} (hty : v'.ty = v.ty) (hk : k.isKnown = true) (hkd : k.ty.isDyn = false)
    (h : Value.indexU v k = .ok r) (h' : Value.indexU v' k = .ok r') : r'.ty = r.ty := by
  unfold Value.indexU at h h'
  rw [hty] at h'
  simp only [hkd, hk, Bool.not_true, Bool.false_eq_true, if_false] at h h'
  generalize v.ty = vt at h h'
  cases vt <;> simp only [Ty.isDyn, Bool.false_eq_true, if_false, if_true, Res.ok.injEq] at h h'
  case dyn => cases h; cases h'; rfl
  case list e =>
    repeat' (first | split at h | (obtain ⟨_, _, h⟩ := Res.bind_eq_ok.mp h))
    all_goals (try cases h)
    all_goals
      repeat' (first | split at h' | (obtain ⟨_, _, h'⟩ := Res.bind_eq_ok.mp h'))
    all_goals (try cases h')
    all_goals rfl
  case map e =>
    repeat' (first | split at h | (obtain ⟨_, _, h⟩ := Res.bind_eq_ok.mp h))
    all_goals (try cases h)
    all_goals
      repeat' (first | split at h' | (obtain ⟨_, _, h'⟩ := Res.bind_eq_ok.mp h'))
    all_goals (try cases h')
    all_goals rfl
  case tuple es =>
    split at h
    · cases h
    · rename_i hnum
      simp only [hnum, if_false] at h'
      obtain ⟨j, hj, h⟩ := Res.bind_eq_ok.mp h
      obtain ⟨j', hj', h'⟩ := Res.bind_eq_ok.mp h'
      rw [hj] at hj'
      cases hj'
      cases j with
      | none => cases h
      | some i =>
        simp only at h h'
        cases hes : es[i]? with
        | none => rw [hes] at h; cases h
        | some ety =>
          rw [hes] at h h'
          simp only at h h'
          repeat' (first | split at h | (obtain ⟨_, _, h⟩ := Res.bind_eq_ok.mp h))
          all_goals (try cases h)
          all_goals
            repeat' (first | split at h' | (obtain ⟨_, _, h'⟩ := Res.bind_eq_ok.mp h'))
          all_goals (try cases h')
          all_goals rfl
  all_goals cases h

theorem index_clean {v k : Value} (hv : v.containsMarked = false) (hk : k.containsMarked = false) :
    Value.index v k = Value.indexU v k := by
  simp [Value.index, Value.binMarks, clean_not_marked hv, clean_not_marked hk]

theorem intVal_facts (i : Int) : (Value.intVal i).wfc = true ∧ (Value.intVal i).whollyKnown = true ∧
    (Value.intVal i).containsMarked = false ∧ CoversX (Value.intVal i) (Value.intVal i) = true ∧
    (Value.intVal i).isKnown = true ∧ (Value.intVal i).ty.isDyn = false := by
  refine ⟨rfl, rfl, rfl, ?_, rfl, rfl⟩
  simp [CoversX, CoversG, Value.intVal, Value.numVal, Ty.matches, Payload.stripMarks, coversP, numEq]

/-- `Value.Index` with a known integer key, through C01 `sound_index`, with the result's type -/
theorem index_int_sound {o w r : Value} (i : Int) (hk : o.whollyKnown = true) (hfo : o.wfc = true) (hfw : w.wfc = true)
    (hmo : o.containsMarked = false) (hmw : w.containsMarked = false) (hty : w.ty = o.ty)
    (hc : CoversX w o = true) (h : Value.index o (Value.intVal i) = .ok r) :
    ∃ r', Value.index w (Value.intVal i) = .ok r' ∧ r'.ty = r.ty ∧ Covers r' r = true := by
  obtain ⟨f1, f2, f3, f4, f5, f6⟩ := intVal_facts i
  obtain ⟨r', h1, h2⟩ := C01.sound_index o (Value.intVal i) w (Value.intVal i) r hk f2 hfo f1 hfw f1 hc f4 h
  refine ⟨r', h1, ?_, h2⟩
  rw [index_clean hmo f3] at h
  rw [index_clean hmw f3] at h1
  exact indexU_ty_dep hty f5 f6 h h1

theorem elementType_eq {o w i : Value} (hty : w.ty = o.ty) : elementType [w, i] = elementType [o, i] := by
  simp [elementType, hty]

/-- `element`: the list or tuple is known at the top (the parameter refuses unknowns), the index is the same
number; the element picked (index modulo length) is the weakening of the concrete element -/
theorem element_implSound (o w i : Value) (hty : w.ty = o.ty)
    (hk : o.whollyKnown = true) (hfo : o.wfc = true) (hfw : w.wfc = true)
    (hmo : o.containsMarked = false) (hmw : w.containsMarked = false)
    (hkw : w.isKnown = true) (hc : CoversX w o = true) :
    ImplSoundAt elementType elementImpl [o, i] [w, i] := by
  intro rt rt' r ho hw hio hconf hwf' hrwf hrefl
  rw [elementType_eq hty, ho] at hw
  cases hw
  have hns : isSetTy o.ty = false := by
    simp only [elementType] at ho
    split at ho <;> simp_all [isSetTy]
  obtain ⟨huw, hmsw⟩ := clean_unmark hmw
  obtain ⟨huo, hmso⟩ := clean_unmark hmo
  simp only [elementImpl, huw, hmsw, huo, hmso] at hio ⊢
  cases hfi : fromCtyInt i with
  | ok index =>
    rw [hfi] at hio
    simp only [hkw, C12L.whollyKnown_isKnown hk, Bool.not_true, Bool.false_eq_true, if_false] at hio ⊢
    cases hl : Stdlib.lengthInt o with
    | ok l =>
      rw [hl] at hio
      rw [lengthInt_covers hmw hmo hty hc hkw hns hl]
      simp only at hio ⊢
      split at hio
      · cases hio
      · rename_i h0
        simp only [h0, if_false]
        obtain ⟨r0, hr0, rfl⟩ := res_map_ok hio
        obtain ⟨r', h1, h2, h3⟩ := index_int_sound _ hk hfo hfw hmo hmw hty hc hr0
        rw [h1]
        refine ⟨_, rfl, ?_, ?_⟩
        · dsimp only; rw [withMarkSets_nil1', withMarks_ty, h2]
          rw [withMarkSets_nil1', withMarks_ty] at hconf
          exact hconf
        · dsimp only; rw [withMarkSets_nil1', withMarkSets_nil1', covers_withMarks_left, covers_withMarks_right]
          exact h3
    | err c => rw [hl] at hio; cases hio
    | panic c => rw [hl] at hio; cases hio
    | unmodelled => rw [hl] at hio; cases hio
  | err c => rw [hfi] at hio; cases hio
  | panic c => rw [hfi] at hio; cases hio
  | unmodelled => rw [hfi] at hio; cases hio

/-- two positional parameters that do not say `AllowDynamicType`: weakenings that pass the checks kept their types -/
theorem two_args_pass {spec : Spec} {p1 p2 : Param} {w1 w2 o1 o2 : Value}
    (he : spec.expand 2 = [p1, p2]) (hd1 : p1.allowDynamic = false) (hd2 : p2.allowDynamic = false)
    (hp : Passes spec [w1, w2])
    (hty1 : w1.ty = o1.ty ∨ w1.ty.isDyn = true) (hty2 : w2.ty = o2.ty ∨ w2.ty.isDyn = true) :
    w1.ty = o1.ty ∧ w2.ty = o2.ty := by
  unfold Passes at hp
  simp only [List.length_cons, List.length_nil, Nat.zero_add, Nat.reduceAdd] at hp
  · have h : p1.allowDynamic = false ∧ p2.allowDynamic = false := ⟨hd1, hd2⟩
    rw [he] at hp
    have hc1 := firstFail_none hp 0 p1 w1 rfl rfl
    have hc2 := firstFail_none hp 1 p2 w2 rfl rfl
    constructor
    · rcases hty1 with h' | h'
      · exact h'
      · exfalso
        unfold Param.check at hc1
        split at hc1
        · cases hc1
        · simp [h', h.1] at hc1
    · rcases hty2 with h' | h'
      · exact h'
      · exfalso
        unfold Param.check at hc2
        split at hc2
        · cases hc2
        · simp [h', h.2] at hc2

/-- two positional parameters that do not say `AllowUnknown`: weakenings that reach `Impl` are known -/
theorem two_args_known {spec : Spec} {p1 p2 : Param} {w1 w2 : Value}
    (he : spec.expand 2 = [p1, p2]) (hu1 : p1.allowUnknown = false) (hu2 : p2.allowUnknown = false)
    (hr : ReachesImpl spec [w1, w2]) :
    w1.isKnown = true ∧ w2.isKnown = true := by
  unfold ReachesImpl at hr
  simp only [List.length_cons, List.length_nil, Nat.zero_add, Nat.reduceAdd] at hr
  · have h : p1.allowUnknown = false ∧ p2.allowUnknown = false := ⟨hu1, hu2⟩
    rw [he] at hr
    simp only [pass2, Bool.or_eq_false_iff, Param.blocksUnknown, h.1, h.2, Bool.not_false, Bool.and_true,
      Bool.or_false] at hr
    exact ⟨by simpa using hr.1, by simpa using hr.2⟩

theorem elementType_mono {o w oi wi : Value} (h1 : w.ty = o.ty) (h : wi = oi ∨ wi.isKnown = false) :
    TypeMonoAt elementType [o, oi] [w, wi] := by
  rcases h with rfl | h
  · exact typeMonoAt_of_eq (elementType_eq h1)
  · intro t ht
    simp only [elementType, h1] at ht ⊢
    split at ht
    · exact ⟨t, ht, fun _ hc => hc⟩
    · simp only [h, Bool.not_false, if_true]
      exact ⟨.dyn, rfl, admits_dyn' t⟩
    · cases ht

end D12b
end CtyModel
