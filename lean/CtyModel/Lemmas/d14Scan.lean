/-
d14 — the verb scanner of `format` against the documented grammar

    '%' flags* width? ('.' digit*)? ('[' num ']')? letter        num = [1-9][0-9]*

`VerbSyn` is a sentence of the grammar, `VerbSyn.text` its spelling, `VerbSyn.verb` the
`formatVerb` it denotes (numbers through `satNum`, the saturating decimal value).
`scanVerb_iff`: the scanner accepts exactly the sentences of the grammar, and returns the
denoted verb and the unconsumed rest.
-/
import CtyModel.Stdlib.Format
namespace CtyModel
namespace StdNum

/-! ### character classes -/

theorem char_le_iff (a b : Char) : a ≤ b ↔ a.toNat ≤ b.toNat := by
  rw [Char.le_def, UInt32.le_iff_toNat_le]; rfl

theorem isDigit_iff (c : Char) : isDigit c = true ↔ 48 ≤ c.toNat ∧ c.toNat ≤ 57 := by
  simp only [isDigit, Bool.and_eq_true, decide_eq_true_eq, char_le_iff]; rfl

theorem isLetter_iff (c : Char) :
    isLetter c = true ↔ (97 ≤ c.toNat ∧ c.toNat ≤ 122) ∨ (65 ≤ c.toNat ∧ c.toNat ≤ 90) := by
  simp only [isLetter, Bool.and_eq_true, Bool.or_eq_true, decide_eq_true_eq, char_le_iff]; rfl

/-- the five flag characters -/
def isFlag (c : Char) : Bool := c == '0' || c == '#' || c == '-' || c == '+' || c == ' '

theorem isFlag_iff (c : Char) :
    isFlag c = true ↔ c.toNat = 48 ∨ c.toNat = 35 ∨ c.toNat = 45 ∨ c.toNat = 43 ∨ c.toNat = 32 := by
  simp only [isFlag, Bool.or_eq_true, beq_iff_eq, ← Char.toNat_inj]
  constructor
  · rintro ((((h | h) | h) | h) | h) <;> simp [h]
  · rintro (h | h | h | h | h) <;> simp [h]

/-- a digit other than '0' (what a `num` starts with) -/
def isNumStart (c : Char) : Bool := isDigit c && c != '0'

theorem isNumStart_iff (c : Char) : isNumStart c = true ↔ 49 ≤ c.toNat ∧ c.toNat ≤ 57 := by
  simp only [isNumStart, Bool.and_eq_true, isDigit_iff, bne_iff_ne, ne_eq, ← Char.toNat_inj]
  have : ('0' : Char).toNat = 48 := rfl
  omega

theorem numStart_not_flag (c : Char) (h : isNumStart c = true) : isFlag c = false := by
  rw [isNumStart_iff] at h
  cases hf : isFlag c with
  | false => rfl
  | true => rw [isFlag_iff] at hf; omega

theorem letter_not_flag (c : Char) (h : isLetter c = true) : isFlag c = false := by
  rw [isLetter_iff] at h
  cases hf : isFlag c with
  | false => rfl
  | true => rw [isFlag_iff] at hf; omega

theorem letter_not_digit (c : Char) (h : isLetter c = true) : isDigit c = false := by
  rw [isLetter_iff] at h
  cases hf : isDigit c with
  | false => rfl
  | true => rw [isDigit_iff] at hf; omega

theorem numStart_digit (c : Char) (h : isNumStart c = true) : isDigit c = true := by
  simp only [isNumStart, Bool.and_eq_true] at h; exact h.1

/-- "the list does not start with a character of class `p`" -/
def startsNot (p : Char → Bool) : List Char → Prop
  | [] => True
  | c :: _ => p c = false

/-! ### flags -/

/-- what one flag character does to the verb -/
def setFlag (v : Verb) (c : Char) : Verb :=
  if c == '0' then { v with zero := true, raw := v.raw ++ [c] }
  else if c == '#' then { v with sharp := true, raw := v.raw ++ [c] }
  else if c == '-' then { v with minus := true, raw := v.raw ++ [c] }
  else if c == '+' then { v with plus := true, raw := v.raw ++ [c] }
  else { v with space := true, raw := v.raw ++ [c] }

theorem takeFlags_cons (c : Char) (rest : List Char) (v : Verb) :
    takeFlags (c :: rest) v = if isFlag c then takeFlags rest (setFlag v c) else (v, c :: rest) := by
  simp only [takeFlags, isFlag, setFlag]
  by_cases h0 : (c == '0') = true <;> by_cases h1 : (c == '#') = true <;> by_cases h2 : (c == '-') = true <;>
    by_cases h3 : (c == '+') = true <;> by_cases h4 : (c == ' ') = true <;> simp [h0, h1, h2, h3, h4]

theorem takeFlags_append (fs r : List Char) (v : Verb) (hf : ∀ c ∈ fs, isFlag c = true)
    (hr : startsNot isFlag r) : takeFlags (fs ++ r) v = (fs.foldl setFlag v, r) := by
  induction fs generalizing v with
  | nil =>
    cases r with
    | nil => rfl
    | cons c t => simp only [List.nil_append, takeFlags_cons, List.foldl_nil]; simp [show isFlag c = false from hr]
  | cons f fs ih =>
    have hf1 : isFlag f = true := hf f List.mem_cons_self
    simp only [List.cons_append, takeFlags_cons, hf1, if_true, List.foldl_cons]
    exact ih _ fun c hc => hf c (List.mem_cons_of_mem _ hc)

theorem takeFlags_decomp (cs : List Char) (v : Verb) :
    ∃ fs, cs = fs ++ (takeFlags cs v).2 ∧ (∀ c ∈ fs, isFlag c = true) ∧
      (takeFlags cs v).1 = fs.foldl setFlag v ∧ startsNot isFlag (takeFlags cs v).2 := by
  induction cs generalizing v with
  | nil => exact ⟨[], rfl, by simp, rfl, trivial⟩
  | cons c rest ih =>
    rw [takeFlags_cons]
    cases hc : isFlag c with
    | false => exact ⟨[], rfl, by simp, rfl, hc⟩
    | true =>
      obtain ⟨fs, h1, h2, h3, h4⟩ := ih (setFlag v c)
      refine ⟨c :: fs, ?_, ?_, ?_, ?_⟩
      · simp only [if_true, List.cons_append]; rw [← h1]
      · intro d hd
        rcases List.mem_cons.mp hd with rfl | hd
        · exact hc
        · exact h2 d hd
      · simpa using h3
      · simpa using h4

/-! ### digits -/

theorem takeDigits_append (ds r : List Char) (acc : Nat) (seen : List Char) (hd : ∀ c ∈ ds, isDigit c = true)
    (hr : startsNot isDigit r) : takeDigits (ds ++ r) acc seen = (ds.foldl appendDigit acc, seen ++ ds, r) := by
  induction ds generalizing acc seen with
  | nil =>
    cases r with
    | nil => simp [takeDigits]
    | cons c t => simp [takeDigits, show isDigit c = false from hr]
  | cons d ds ih =>
    have hd1 : isDigit d = true := hd d List.mem_cons_self
    simp only [List.cons_append, takeDigits, hd1, if_true, List.foldl_cons]
    rw [ih _ _ fun c hc => hd c (List.mem_cons_of_mem _ hc)]
    simp

theorem takeDigits_decomp (cs : List Char) (acc : Nat) (seen : List Char) :
    ∃ ds, cs = ds ++ (takeDigits cs acc seen).2.2 ∧ (∀ c ∈ ds, isDigit c = true) ∧
      (takeDigits cs acc seen).1 = ds.foldl appendDigit acc ∧ (takeDigits cs acc seen).2.1 = seen ++ ds ∧
      startsNot isDigit (takeDigits cs acc seen).2.2 := by
  induction cs generalizing acc seen with
  | nil => exact ⟨[], rfl, by simp, rfl, by simp [takeDigits], trivial⟩
  | cons c rest ih =>
    cases hc : isDigit c with
    | false => exact ⟨[], by simp [takeDigits, hc], by simp, by simp [takeDigits, hc], by simp [takeDigits, hc],
        by simp [takeDigits, hc, startsNot]⟩
    | true =>
      obtain ⟨ds, h1, h2, h3, h4, h5⟩ := ih (appendDigit acc c) (seen ++ [c])
      refine ⟨c :: ds, ?_, ?_, ?_, ?_, ?_⟩
      · simp only [takeDigits, hc, if_true, List.cons_append]; rw [← h1]
      · intro d hd
        rcases List.mem_cons.mp hd with rfl | hd
        · exact hc
        · exact h2 d hd
      · simpa [takeDigits, hc] using h3
      · simpa [takeDigits, hc] using h4
      · simpa [takeDigits, hc] using h5

/-! ### the grammar -/

/-- `num = [1-9][0-9]*` -/
def isNum : List Char → Bool
  | c :: t => isNumStart c && t.all isDigit
  | [] => false

/-- a sentence of the verb grammar (after the '%') -/
structure VerbSyn where
  flags : List Char
  width : Option (List Char)
  prec : Option (List Char)
  idx : Option (List Char)
  mode : Char


/-- the number a digit string denotes for the scanner: decimal, saturating (`formatArgNumAppendDigit`) -/
def satNum (ds : List Char) : Nat := ds.foldl appendDigit 0

def withWidth (v : Verb) : Option (List Char) → Verb
  | some w => { v with hasWidth := true, width := satNum w, raw := v.raw ++ w }
  | none => v
def withPrec (v : Verb) : Option (List Char) → Verb
  | some p => { v with hasPrec := true, prec := satNum p, raw := v.raw ++ ('.' :: p) }
  | none => v
def withIdx (v : Verb) : Option (List Char) → Verb
  | some i => { v with argNum := satNum i, raw := v.raw ++ ('[' :: i) ++ [']'] }
  | none => v
def withMode (v : Verb) (c : Char) : Verb := { v with mode := c, raw := v.raw ++ [c] }

/-- the `formatVerb` a sentence denotes -/
def VerbSyn.verb (g : VerbSyn) (offset nextArg : Nat) : Verb :=
  withMode (withIdx (withPrec (withWidth
    (g.flags.foldl setFlag { raw := ['%'], offset := offset, argNum := nextArg }) g.width) g.prec) g.idx) g.mode

def wfNumOpt : Option (List Char) → Bool
  | some w => isNum w
  | none => true
def wfDigitsOpt : Option (List Char) → Bool
  | some p => p.all isDigit
  | none => true
def precTextOf : Option (List Char) → List Char
  | some p => '.' :: p
  | none => []
def idxTextOf : Option (List Char) → List Char
  | some i => '[' :: (i ++ [']'])
  | none => []

def VerbSyn.wf (g : VerbSyn) : Bool :=
  g.flags.all isFlag && wfNumOpt g.width && wfDigitsOpt g.prec && wfNumOpt g.idx && isLetter g.mode

/-- the spelling of the sentence -/
def VerbSyn.text (g : VerbSyn) : List Char :=
  g.flags ++ (g.width.getD [] ++ (precTextOf g.prec ++ (idxTextOf g.idx ++ [g.mode])))

theorem isNum_cons {c : Char} {t : List Char} (h : isNum (c :: t) = true) :
    isNumStart c = true ∧ ∀ d ∈ t, isDigit d = true := by
  simp only [isNum, Bool.and_eq_true, List.all_eq_true] at h; exact h

theorem isNum_digits {w : List Char} (h : isNum w = true) : ∀ d ∈ w, isDigit d = true := by
  cases w with
  | nil => simp [isNum] at h
  | cons c t =>
    obtain ⟨h1, h2⟩ := isNum_cons h
    intro d hd
    rcases List.mem_cons.mp hd with rfl | hd
    · exact numStart_digit _ h1
    · exact h2 d hd

/-! ### the stages -/

theorem scanWidth_some (v : Verb) (w r : List Char) (hw : isNum w = true) (hr : startsNot isDigit r) :
    scanWidth v (w ++ r) = ({ v with hasWidth := true, width := satNum w, raw := v.raw ++ w }, r) := by
  cases w with
  | nil => simp [isNum] at hw
  | cons c t =>
    obtain ⟨h1, _⟩ := isNum_cons hw
    have h1' : (isDigit c && c != '0') = true := h1
    simp only [scanWidth, List.cons_append, h1', if_true]
    have := takeDigits_append (c :: t) r 0 [] (isNum_digits hw) hr
    simp only [List.cons_append] at this
    rw [this]
    simp [satNum]

theorem scanWidth_none (v : Verb) (r : List Char) (hr : startsNot isNumStart r) : scanWidth v r = (v, r) := by
  cases r with
  | nil => rfl
  | cons c t =>
    have : (isDigit c && c != '0') = false := hr
    simp [scanWidth, this]

theorem scanWidth_decomp (v : Verb) (r : List Char) :
    (∃ w, isNum w = true ∧ r = w ++ (scanWidth v r).2 ∧ startsNot isDigit (scanWidth v r).2 ∧
      (scanWidth v r).1 = { v with hasWidth := true, width := satNum w, raw := v.raw ++ w }) ∨
    (startsNot isNumStart r ∧ scanWidth v r = (v, r)) := by
  cases r with
  | nil => right; exact ⟨trivial, rfl⟩
  | cons c t =>
    cases hc : isNumStart c with
    | false => right; exact ⟨hc, scanWidth_none v _ hc⟩
    | true =>
      left
      have hc' : (isDigit c && c != '0') = true := hc
      obtain ⟨ds, h1, h2, h3, h4, h5⟩ := takeDigits_decomp (c :: t) 0 []
      have hne : ds ≠ [] := by
        intro he
        rw [he] at h1
        simp only [List.nil_append] at h1
        rw [← h1] at h5
        have : isDigit c = false := h5
        rw [numStart_digit c hc] at this
        cases this
      refine ⟨ds, ?_, ?_, ?_, ?_⟩
      · cases ds with
        | nil => exact absurd rfl hne
        | cons d ds' =>
          have hd : d = c := by
            have := congrArg List.head? h1
            simp at this
            exact this.symm
          subst hd
          simp only [isNum, Bool.and_eq_true, List.all_eq_true]
          exact ⟨hc, fun x hx => h2 x (List.mem_cons_of_mem _ hx)⟩
      · simp only [scanWidth, hc', if_true]; exact h1
      · simp only [scanWidth, hc', if_true]; exact h5
      · simp only [scanWidth, hc', if_true]
        rw [h3, h4]; simp [satNum]

theorem scanPrec_some (v : Verb) (p r : List Char) (hp : ∀ d ∈ p, isDigit d = true) (hr : startsNot isDigit r) :
    scanPrec v ('.' :: (p ++ r)) = ({ v with hasPrec := true, prec := satNum p, raw := v.raw ++ ('.' :: p) }, r) := by
  simp only [scanPrec]
  rw [takeDigits_append p r 0 [] hp hr]
  simp [satNum]

theorem scanPrec_none (v : Verb) (r : List Char) (hr : startsNot (· == '.') r) : scanPrec v r = (v, r) := by
  cases r with
  | nil => rfl
  | cons c t =>
    have hc : (c == '.') = false := hr
    have : c ≠ '.' := by simpa using hc
    unfold scanPrec
    split
    · rename_i h; cases h; exact absurd rfl this
    · rfl

theorem scanPrec_decomp (v : Verb) (r : List Char) :
    (∃ p, (∀ d ∈ p, isDigit d = true) ∧ r = '.' :: (p ++ (scanPrec v r).2) ∧ startsNot isDigit (scanPrec v r).2 ∧
      (scanPrec v r).1 = { v with hasPrec := true, prec := satNum p, raw := v.raw ++ ('.' :: p) }) ∨
    (startsNot (· == '.') r ∧ scanPrec v r = (v, r)) := by
  cases r with
  | nil => right; exact ⟨trivial, rfl⟩
  | cons c t =>
    by_cases hc : c = '.'
    · subst hc
      left
      obtain ⟨ds, h1, h2, h3, h4, h5⟩ := takeDigits_decomp t 0 []
      refine ⟨ds, h2, ?_, ?_, ?_⟩
      · simp only [scanPrec]; rw [← h1]
      · simp only [scanPrec]; exact h5
      · simp only [scanPrec]; rw [h3, h4]; simp [satNum]
    · right
      have : startsNot (· == '.') (c :: t) := by simpa [startsNot] using hc
      exact ⟨this, scanPrec_none v _ this⟩

theorem scanIdx_some (v : Verb) (i r : List Char) (hi : isNum i = true) :
    scanIdx v ('[' :: (i ++ ']' :: r)) = some ({ v with argNum := satNum i, raw := v.raw ++ ('[' :: i) ++ [']'] }, r) := by
  cases i with
  | nil => simp [isNum] at hi
  | cons c t =>
    obtain ⟨h1, _⟩ := isNum_cons hi
    have h1' : (isDigit c && c != '0') = true := h1
    simp only [scanIdx, List.cons_append, h1', if_true]
    have hr : startsNot isDigit (']' :: r) := by simp only [startsNot]; decide
    have := takeDigits_append (c :: t) (']' :: r) 0 [] (isNum_digits hi) hr
    simp only [List.cons_append] at this
    rw [this]
    simp [satNum]

theorem scanIdx_none (v : Verb) (r : List Char) (hr : startsNot (· == '[') r) : scanIdx v r = some (v, r) := by
  cases r with
  | nil => rfl
  | cons c t =>
    have hc : (c == '[') = false := hr
    have : c ≠ '[' := by simpa using hc
    unfold scanIdx
    split
    · rename_i h; cases h; exact absurd rfl this
    · rename_i h; cases h; exact absurd rfl this
    · rfl

theorem scanIdx_decomp (v v' : Verb) (r r' : List Char) (h : scanIdx v r = some (v', r')) :
    (∃ i, isNum i = true ∧ r = '[' :: (i ++ ']' :: r') ∧
      v' = { v with argNum := satNum i, raw := v.raw ++ ('[' :: i) ++ [']'] }) ∨
    (startsNot (· == '[') r ∧ v' = v ∧ r' = r) := by
  unfold scanIdx at h
  split at h
  · rename_i c t
    split at h
    · rename_i hc
      left
      obtain ⟨ds, h1, h2, h3, h4, h5⟩ := takeDigits_decomp (c :: t) 0 []
      dsimp only at h
      split at h
      · rename_i r'' hr''
        cases h
        rw [hr''] at h1
        have hne : ds ≠ [] := by
          intro he
          rw [he] at h1
          simp only [List.nil_append] at h1
          have := congrArg List.head? h1
          simp at this
          rw [this] at hc
          revert hc; decide
        refine ⟨ds, ?_, ?_, ?_⟩
        · cases ds with
          | nil => exact absurd rfl hne
          | cons d ds' =>
            have hd : d = c := by
              have := congrArg List.head? h1
              simp at this
              exact this.symm
            subst hd
            simp only [isNum, Bool.and_eq_true, List.all_eq_true]
            exact ⟨hc, fun x hx => h2 x (List.mem_cons_of_mem _ hx)⟩
        · rw [h1]
        · rw [h3, h4]; simp [satNum]
      · cases h
    · cases h
  · cases h
  · rename_i h1 h2
    cases h
    right
    refine ⟨?_, rfl, rfl⟩
    cases r with
    | nil => trivial
    | cons c t =>
      simp only [startsNot]
      cases hc : (c == '[') with
      | false => rfl
      | true =>
        have : c = '[' := by simpa using hc
        subst this
        cases t with
        | nil => exact absurd rfl h2
        | cons d t' => exact absurd rfl (h1 d t')

theorem scanMode_iff (v v' : Verb) (r r' : List Char) :
    scanMode v r = some (v', r') ↔ ∃ c, isLetter c = true ∧ r = c :: r' ∧ v' = { v with mode := c, raw := v.raw ++ [c] } := by
  cases r with
  | nil => simp [scanMode]
  | cons c t =>
    simp only [scanMode]
    constructor
    · intro h
      split at h
      · rename_i hc; cases h; exact ⟨c, hc, rfl, rfl⟩
      · cases h
    · rintro ⟨d, hd, h1, h2⟩
      cases h1
      simp [hd, h2]

/-! ### the stages, on optional parts -/

theorem scanWidth_opt (v : Verb) (wd : Option (List Char)) (r : List Char) (hw : wfNumOpt wd = true)
    (hr : startsNot isDigit r) (hr' : startsNot isNumStart r) :
    scanWidth v (wd.getD [] ++ r) = (withWidth v wd, r) := by
  cases wd with
  | none => simpa [withWidth] using scanWidth_none v r hr'
  | some w => simpa [withWidth] using scanWidth_some v w r hw hr

theorem scanPrec_opt (v : Verb) (pr : Option (List Char)) (r : List Char) (hp : wfDigitsOpt pr = true)
    (hr : startsNot isDigit r) (hr' : startsNot (· == '.') r) :
    scanPrec v (precTextOf pr ++ r) = (withPrec v pr, r) := by
  cases pr with
  | none => simpa [withPrec, precTextOf] using scanPrec_none v r hr'
  | some p =>
    have hp' : ∀ d ∈ p, isDigit d = true := by simpa [wfDigitsOpt, List.all_eq_true] using hp
    simpa [withPrec, precTextOf] using scanPrec_some v p r hp' hr

theorem scanIdx_opt (v : Verb) (ix : Option (List Char)) (r : List Char) (hi : wfNumOpt ix = true)
    (hr' : startsNot (· == '[') r) :
    scanIdx v (idxTextOf ix ++ r) = some (withIdx v ix, r) := by
  cases ix with
  | none => simpa [withIdx, idxTextOf] using scanIdx_none v r hr'
  | some i => simpa [withIdx, idxTextOf] using scanIdx_some v i r hi

theorem startsNot_idx (p : Char → Bool) (ix : Option (List Char)) (r : List Char) (h1 : startsNot p r)
    (h2 : p '[' = false) : startsNot p (idxTextOf ix ++ r) := by
  cases ix with
  | none => exact h1
  | some i => exact h2

theorem startsNot_prec (p : Char → Bool) (pr : Option (List Char)) (r : List Char) (h1 : startsNot p r)
    (h2 : p '.' = false) : startsNot p (precTextOf pr ++ r) := by
  cases pr with
  | none => exact h1
  | some i => exact h2

/-! ### the scanner accepts exactly the grammar -/

theorem scanVerb_complete (g : VerbSyn) (hg : g.wf = true) (rest : List Char) (offset nextArg : Nat) :
    scanVerb (g.text ++ rest) offset nextArg = some (g.verb offset nextArg, rest) := by
  obtain ⟨fl, wd, pr, ix, md⟩ := g
  simp only [VerbSyn.wf, Bool.and_eq_true, List.all_eq_true] at hg
  obtain ⟨⟨⟨⟨hfl, hwd⟩, hpr⟩, hix⟩, hmd⟩ := hg
  have hmf := letter_not_flag md hmd
  have hmd' := letter_not_digit md hmd
  have hmn : isNumStart md = false := by simp [isNumStart, hmd']
  have hmdot : (md == '.') = false := by
    cases h : (md == '.') with
    | false => rfl
    | true => have : md = '.' := by simpa using h
              subst this; revert hmd; decide
  have hmbr : (md == '[') = false := by
    cases h : (md == '[') with
    | false => rfl
    | true => have : md = '[' := by simpa using h
              subst this; revert hmd; decide
  have hF : startsNot isFlag (wd.getD [] ++ (precTextOf pr ++ (idxTextOf ix ++ md :: rest))) := by
    cases wd with
    | none => exact startsNot_prec _ _ _ (startsNot_idx _ _ _ (show startsNot isFlag (md :: rest) from hmf) (by decide)) (by decide)
    | some w =>
      cases w with
      | nil => simp [wfNumOpt, isNum] at hwd
      | cons c t => exact numStart_not_flag c (isNum_cons hwd).1
  simp only [VerbSyn.text, List.append_assoc, List.singleton_append, scanVerb]
  rw [takeFlags_append fl _ _ hfl hF]
  simp only []
  have sM : ∀ p : Char → Bool, p md = false → startsNot p (md :: rest) := fun _ h => h
  rw [scanWidth_opt _ wd _ hwd
    (startsNot_prec _ _ _ (startsNot_idx _ _ _ (sM _ hmd') (by decide)) (by decide))
    (startsNot_prec _ _ _ (startsNot_idx _ _ _ (sM _ hmn) (by decide)) (by decide))]
  simp only []
  rw [scanPrec_opt _ pr _ hpr (startsNot_idx _ _ _ (sM _ hmd') (by decide)) (startsNot_idx _ _ _ (sM _ hmdot) (by decide))]
  simp only []
  rw [scanIdx_opt _ ix _ hix (sM _ hmbr)]
  simp only [scanMode, hmd, if_true]
  rfl

theorem scanVerb_sound (cs : List Char) (offset nextArg : Nat) (v : Verb) (rest : List Char)
    (h : scanVerb cs offset nextArg = some (v, rest)) :
    ∃ g : VerbSyn, g.wf = true ∧ cs = g.text ++ rest ∧ v = g.verb offset nextArg := by
  simp only [scanVerb] at h
  obtain ⟨fl, hf1, hf2, hf3, _⟩ := takeFlags_decomp cs { raw := ['%'], offset := offset, argNum := nextArg }
  generalize hF : takeFlags cs { raw := ['%'], offset := offset, argNum := nextArg } = F at h hf1 hf3
  generalize hW : scanWidth F.1 F.2 = W at h
  generalize hP : scanPrec W.1 W.2 = P at h
  cases hI : scanIdx P.1 P.2 with
  | none => rw [hI] at h; cases h
  | some I =>
    rw [hI] at h
    simp only [] at h
    obtain ⟨md, hmd, hr, hv⟩ := (scanMode_iff _ _ _ _).mp h
    have hwd : ∃ wd : Option (List Char), wfNumOpt wd = true ∧ F.2 = wd.getD [] ++ W.2 ∧ W.1 = withWidth F.1 wd := by
      rcases scanWidth_decomp F.1 F.2 with ⟨w, h1, h2, _, h4⟩ | ⟨_, h2⟩
      · rw [hW] at h2 h4; exact ⟨some w, h1, h2, h4⟩
      · rw [hW] at h2; exact ⟨none, rfl, by rw [h2]; rfl, by rw [h2]; rfl⟩
    obtain ⟨wd, hwd1, hwd2, hwd3⟩ := hwd
    have hpr : ∃ pr : Option (List Char), wfDigitsOpt pr = true ∧ W.2 = precTextOf pr ++ P.2 ∧ P.1 = withPrec W.1 pr := by
      rcases scanPrec_decomp W.1 W.2 with ⟨p, h1, h2, _, h4⟩ | ⟨_, h2⟩
      · rw [hP] at h2 h4
        exact ⟨some p, by simpa [wfDigitsOpt, List.all_eq_true] using h1, by simpa [precTextOf] using h2, h4⟩
      · rw [hP] at h2; exact ⟨none, rfl, by rw [h2]; rfl, by rw [h2]; rfl⟩
    obtain ⟨pr, hpr1, hpr2, hpr3⟩ := hpr
    have hix : ∃ ix : Option (List Char), wfNumOpt ix = true ∧ P.2 = idxTextOf ix ++ I.2 ∧ I.1 = withIdx P.1 ix := by
      rcases scanIdx_decomp P.1 I.1 P.2 I.2 hI with ⟨i, h1, h2, h3⟩ | ⟨_, h2, h3⟩
      · exact ⟨some i, h1, by simpa [idxTextOf] using h2, h3⟩
      · exact ⟨none, rfl, by rw [h3]; rfl, h2⟩
    obtain ⟨ix, hix1, hix2, hix3⟩ := hix
    refine ⟨⟨fl, wd, pr, ix, md⟩, ?_, ?_, ?_⟩
    · simp only [VerbSyn.wf, Bool.and_eq_true, List.all_eq_true]
      exact ⟨⟨⟨⟨hf2, hwd1⟩, hpr1⟩, hix1⟩, hmd⟩
    · rw [hf1, hwd2, hpr2, hix2, hr]
      simp [VerbSyn.text]
    · rw [hv, hix3, hpr3, hwd3, hf3]
      rfl

/-- THE SCANNER AND THE GRAMMAR AGREE: `scanVerb` accepts `cs` leaving `rest` iff `cs` is
a sentence of the verb grammar followed by `rest`, and the verb it returns is the one the
sentence denotes. -/
theorem scanVerb_iff (cs : List Char) (offset nextArg : Nat) (v : Verb) (rest : List Char) :
    scanVerb cs offset nextArg = some (v, rest) ↔
      ∃ g : VerbSyn, g.wf = true ∧ cs = g.text ++ rest ∧ v = g.verb offset nextArg := by
  constructor
  · exact scanVerb_sound cs offset nextArg v rest
  · rintro ⟨g, hg, rfl, rfl⟩
    exact scanVerb_complete g hg rest offset nextArg

end StdNum
end CtyModel
