/-
C05: the effect of one builder call on the admitted set γ.
`step_spec`: a successful call keeps receiver and marks, keeps the builder
well-formed, and turns γ b into γ b ∩ ⟦c⟧ — except for the dropped bound shape
(`RefineCall.dropped`), where γ stays as it was.
-/
import CtyModel.Lemmas.RefineStep
namespace CtyModel
namespace Refine
open NumCmp

variable [ExactOracle]

/-! ## γ under a change of one component -/

omit [ExactOracle] in
theorem rangeOk_setNull (n : Tri) (r : Rfn) (x : Conc) : rangeOk (setNull n r) x = rangeOk r x := by
  cases r <;> cases x <;> rfl

omit [ExactOracle] in
theorem nullness_setNull (n : Tri) {r : Rfn} (h : r ≠ .unref) : (setNull n r).nullness = n := by
  cases r <;> simp_all [setNull, Rfn.nullness]

omit [ExactOracle] in
theorem rangeOk_null (r : Rfn) : rangeOk r .null = true := by cases r <;> rfl

omit [ExactOracle] in
theorem γ_setNull_f {t : Ty} {r : Rfn} (hr : r ≠ .unref) (hn : r.nullness ≠ .t) (x : Conc) :
    γ t (setNull .f r) x = (γ t r x && den .notNull x) := by
  unfold γ
  rw [rangeOk_setNull, nullness_setNull _ hr]
  cases x <;> cases hn' : r.nullness <;> simp only [nullOk, den] <;>
    first
    | exact absurd hn' hn
    | (generalize Conc.kindOk _ _ = a; generalize rangeOk _ _ = c; cases a <;> cases c <;> rfl)

omit [ExactOracle] in
theorem γ_setNull_t {t : Ty} {r : Rfn} (hr : r ≠ .unref) (hn : r.nullness ≠ .f) (x : Conc) :
    γ t (setNull .t r) x = (γ t r x && den .null x) := by
  unfold γ
  rw [rangeOk_setNull, nullness_setNull _ hr]
  cases x <;> cases hn' : r.nullness <;> simp only [nullOk, den] <;>
    first
    | exact absurd hn' hn
    | (generalize Conc.kindOk _ _ = a; generalize rangeOk _ _ = c; cases a <;> cases c <;> rfl)

omit [ExactOracle] in
theorem γ_num_lower {t : Ty} {n : Tri} {lo lo' hi : Option Bound} {a : NumArg} {incl : Bool}
    (hl : ∀ y, aboveLower lo' y = (aboveLower lo y && argLower a incl y)) (x : Conc) :
    γ t (.num n lo' hi) x = (γ t (.num n lo hi) x && den (.numLower a incl) x) := by
  cases x <;> simp [γ, rangeOk, den, Rfn.nullness, hl]
  ac_rfl

omit [ExactOracle] in
theorem γ_num_upper {t : Ty} {n : Tri} {lo hi hi' : Option Bound} {a : NumArg} {incl : Bool}
    (hl : ∀ y, belowUpper hi' y = (belowUpper hi y && argUpper a incl y)) (x : Conc) :
    γ t (.num n lo hi') x = (γ t (.num n lo hi) x && den (.numUpper a incl) x) := by
  cases x <;> simp [γ, rangeOk, den, Rfn.nullness, hl]
  ac_rfl

omit [ExactOracle] in
theorem argLower_of_num? {a : NumArg} {m : Num} (h : a.num? = some m) (incl : Bool) (y : Num) :
    argLower a incl y = aboveLower (some ⟨m, incl⟩) y := by
  cases a <;> simp_all [NumArg.num?, argLower] <;> subst h <;> rfl

omit [ExactOracle] in
theorem argUpper_of_num? {a : NumArg} {m : Num} (h : a.num? = some m) (incl : Bool) (y : Num) :
    argUpper a incl y = belowUpper (some ⟨m, incl⟩) y := by
  cases a <;> simp_all [NumArg.num?, argUpper] <;> subst h <;> rfl

omit [ExactOracle] in
theorem γ_coll_lower {t : Ty} {nl : Tri} {lo hi n : Int} (h : lo ≤ n) (x : Conc) :
    γ t (.coll nl n hi) x = (γ t (.coll nl lo hi) x && den (.lenLower n) x) := by
  cases x <;> simp only [γ, rangeOk, den, Rfn.nullness, Bool.and_true]
  rename_i k
  generalize Conc.kindOk _ _ = a; generalize nullOk _ _ = c
  cases a <;> cases c <;> simp <;> (first | omega | (rw [Bool.eq_iff_iff]; simp; omega))

omit [ExactOracle] in
theorem γ_coll_lower_same {t : Ty} {nl : Tri} {lo hi n : Int} (h : n < lo) (x : Conc) :
    γ t (.coll nl lo hi) x = (γ t (.coll nl lo hi) x && den (.lenLower n) x) := by
  cases x <;> simp only [γ, rangeOk, den, Rfn.nullness, Bool.and_true]
  rename_i k
  generalize Conc.kindOk _ _ = a; generalize nullOk _ _ = c
  cases a <;> cases c <;> simp <;> (first | omega | (rw [Bool.eq_iff_iff]; simp; omega))

omit [ExactOracle] in
theorem γ_coll_upper {t : Ty} {nl : Tri} {lo hi n : Int} (h : n ≤ hi) (x : Conc) :
    γ t (.coll nl lo n) x = (γ t (.coll nl lo hi) x && den (.lenUpper n) x) := by
  cases x <;> simp only [γ, rangeOk, den, Rfn.nullness, Bool.and_true]
  rename_i k
  generalize Conc.kindOk _ _ = a; generalize nullOk _ _ = c
  cases a <;> cases c <;> simp <;> (first | omega | (rw [Bool.eq_iff_iff]; simp; omega))

omit [ExactOracle] in
theorem γ_coll_upper_same {t : Ty} {nl : Tri} {lo hi n : Int} (h : hi < n) (x : Conc) :
    γ t (.coll nl lo hi) x = (γ t (.coll nl lo hi) x && den (.lenUpper n) x) := by
  cases x <;> simp only [γ, rangeOk, den, Rfn.nullness, Bool.and_true]
  rename_i k
  generalize Conc.kindOk _ _ = a; generalize nullOk _ _ = c
  cases a <;> cases c <;> simp <;> (first | omega | (rw [Bool.eq_iff_iff]; simp; omega))

/-! ## prefixes -/

omit [ExactOracle] in
theorem overlap_prefix {a b : List UInt8} (h : overlapDiffers a b = false) :
    (a.length ≤ b.length → a <+: b) ∧ (b.length ≤ a.length → b <+: a) := by
  unfold overlapDiffers at h
  simp at h
  constructor
  · intro hl
    rw [Nat.min_eq_left hl, List.take_length] at h
    rw [List.prefix_iff_eq_take]; exact h
  · intro hl
    rw [Nat.min_eq_right hl, List.take_length] at h
    rw [List.prefix_iff_eq_take]; exact h.symm

omit [ExactOracle] in
/-- the merged prefix has both the recorded and the new prefix as prefixes, and
nothing more is demanded of a string -/
theorem merged_prefix {q p : List UInt8} (h : overlapDiffers q p = false) (s : List UInt8) :
    (if p.length > q.length then p else q).isPrefixOf s = (q.isPrefixOf s && p.isPrefixOf s) := by
  obtain ⟨h1, h2⟩ := overlap_prefix h
  rw [Bool.eq_iff_iff]
  simp only [Bool.and_eq_true, List.isPrefixOf_iff_prefix]
  split
  · rename_i hl
    have hq : q <+: p := h1 (by omega)
    exact ⟨fun hp => ⟨hq.trans hp, hp⟩, fun hp => hp.2⟩
  · rename_i hl
    have hp : p <+: q := h2 (by omega)
    exact ⟨fun hq => ⟨hq, hp.trans hq⟩, fun hq => hq.1⟩

omit [ExactOracle] in
theorem bytes_ite (c : Prop) [Decidable c] (p q : String) :
    bytes (if c then p else q) = if c then bytes p else bytes q := by
  split <;> rfl

omit [ExactOracle] in
theorem γ_str_prefix {t : Ty} {n : Tri} {q p : String} (h : overlapDiffers (bytes q) (bytes p) = false)
    (c : RefineCall) (hc : c = .stringPrefix p ∨ c = .stringPrefixFull p) (x : Conc) :
    γ t (.str n (if (bytes p).length > (bytes q).length then p else q)) x = (γ t (.str n q) x && den c x) := by
  rcases hc with rfl | rfl <;>
  · cases x <;> simp only [γ, rangeOk, den, Rfn.nullness, Bool.and_true]
    rw [bytes_ite, merged_prefix h]
    ac_rfl


/-! ## the effect of one successful call -/

/-- what a successful call `c` does to a builder: receiver and marks stay,
well-formedness stays, and the admitted set becomes `γ b ∩ ⟦c⟧` — or stays what it
was when `c` is the dropped bound shape -/
def Effect (b b' : Builder) (c : RefineCall) : Prop :=
  b.sameBase b' ∧ (b.wf = true → b'.wf = true) ∧ (b.wip.lenOk = true → b'.wip.lenOk = true) ∧
  (if c.dropped then ∀ x, γB b' x = γB b x else ∀ x, γB b' x = (γB b x && den c x))

omit [ExactOracle] in
theorem γB_wip (b : Builder) (r : Rfn) (x : Conc) : γB { b with wip := r } x = γ b.orig.ty r x := rfl

omit [ExactOracle] in
theorem γB_of_wip {b : Builder} {r : Rfn} (h : b.wip = r) (x : Conc) : γB b x = γ b.orig.ty r x := by
  unfold γB; rw [h]

omit [ExactOracle] in
theorem wf_wip {b : Builder} {r : Rfn} (hk : kindOk b.orig.ty r = kindOk b.orig.ty b.wip)
    (h : b.wf = true) : ({ b with wip := r } : Builder).wf = true := by
  unfold Builder.wf at h ⊢
  simp only [Bool.and_eq_true] at h ⊢
  exact ⟨h.1, by rw [hk]; exact h.2⟩

omit [ExactOracle] in
theorem kindOk_setNull (t : Ty) (n : Tri) (r : Rfn) : kindOk t (setNull n r) = kindOk t r := by
  cases r <;> rfl
omit [ExactOracle] in
theorem lenOk_setNull (n : Tri) (r : Rfn) : (setNull n r).lenOk = r.lenOk := by
  cases r <;> rfl

omit [ExactOracle] in
theorem den_numLower_unknown (incl : Bool) (x : Conc) : den (.numLower .unknown incl) x = true := by
  cases x <;> rfl
omit [ExactOracle] in
theorem den_numUpper_unknown (incl : Bool) (x : Conc) : den (.numUpper .unknown incl) x = true := by
  cases x <;> rfl

omit [ExactOracle] in
theorem aboveLower_negInf_incl (y : Num) : aboveLower (some ⟨.inf true, true⟩) y = true :=
  aboveLower_incl.mpr (Le.negInf y)
omit [ExactOracle] in
theorem belowUpper_posInf_incl (y : Num) : belowUpper (some ⟨.inf false, true⟩) y = true :=
  belowUpper_incl.mpr (Le.posInf y)

omit [ExactOracle] in
theorem stepNotNull_effect {b b' : Builder} (hu : b.wip ≠ .unref) (h : stepNotNull b = .ok b') :
    Effect b b' .notNull := by
  obtain ⟨rfl, hn, _⟩ := stepNotNull_ok h
  refine ⟨b.sameBase_wip _, wf_wip (kindOk_setNull _ _ _), (by rw [lenOk_setNull]; exact id), ?_⟩
  simp only [RefineCall.dropped, Bool.false_eq_true, if_false]
  intro x; rw [γB_wip]; exact γ_setNull_f hu hn x

omit [ExactOracle] in
theorem stepNull_effect {b b' : Builder} (hu : b.wip ≠ .unref) (h : stepNull b = .ok b') :
    Effect b b' .null := by
  obtain ⟨rfl, hn, _⟩ := stepNull_ok h
  refine ⟨b.sameBase_wip _, wf_wip (kindOk_setNull _ _ _), (by rw [lenOk_setNull]; exact id), ?_⟩
  simp only [RefineCall.dropped, Bool.false_eq_true, if_false]
  intro x; rw [γB_wip]; exact γ_setNull_t hu hn x

omit [ExactOracle] in
theorem kindOk_num (t : Ty) (n n' : Tri) (lo hi lo' hi' : Option Bound) :
    kindOk t (.num n lo hi) = kindOk t (.num n' lo' hi') := by cases t <;> rfl
omit [ExactOracle] in
theorem kindOk_coll (t : Ty) (n n' : Tri) (lo hi lo' hi' : Int) :
    kindOk t (.coll n lo hi) = kindOk t (.coll n' lo' hi') := by cases t <;> rfl
omit [ExactOracle] in
theorem kindOk_str (t : Ty) (n n' : Tri) (p p' : String) :
    kindOk t (.str n p) = kindOk t (.str n' p') := by cases t <;> rfl

theorem stepNumLower_effect {b b' : Builder} {a : NumArg} {incl : Bool} (h : stepNumLower b a incl = .ok b') :
    Effect b b' (.numLower a incl) := by
  obtain ⟨n, lo, hi, hw, hcase⟩ := stepNumLower_ok h
  rcases hcase with ⟨rfl, rfl⟩ | ⟨m, hm, hcore⟩
  · refine ⟨Builder.sameBase.rfl' _, id, id, ?_⟩
    simp only [RefineCall.dropped, Bool.false_eq_true, if_false]
    intro x; rw [den_numLower_unknown]; simp
  · obtain ⟨_, hc⟩ := lowerCore_ok hcore
    rcases hc with ⟨rfl, ht⟩ | ⟨ht, rfl, _⟩
    · refine ⟨Builder.sameBase.rfl' _, id, id, ?_⟩
      split
      · intro x; rfl
      · intro x
        rw [γB_of_wip hw]
        exact γ_num_lower (fun y => and_self_of_imp (fun hy => by
          rw [argLower_of_num? hm]; exact lowerTighter_false ht hy)) x
    · refine ⟨b.sameBase_wip _, wf_wip (by rw [hw]; exact kindOk_num _ _ _ _ _ _ _), (fun _ => rfl), ?_⟩
      by_cases hneg : a = .negInf
      · subst hneg
        have hst : (NumArg.negInf != NumArg.negInf) = false := rfl
        simp only [hst, Bool.false_eq_true, if_false]
        split
        · intro x; rw [γB_wip, γB_of_wip hw]
        · rename_i hd
          have hi' : incl = true := by cases incl <;> simp_all [RefineCall.dropped]
          subst hi'
          intro x
          rw [γB_wip, γB_of_wip hw]
          exact γ_num_lower (fun y => by
            simp only [NumArg.num?, Option.some.injEq] at hm; subst hm
            simp [argLower, aboveLower_negInf_incl]) x
      · have hst : (a != NumArg.negInf) = true := by cases a <;> first | rfl | exact absurd rfl hneg
        have hd : (RefineCall.numLower a incl).dropped = false := by
          cases a <;> first | rfl | exact absurd rfl hneg
        simp only [hst, if_true, hd, Bool.false_eq_true, if_false]
        intro x
        rw [γB_wip, γB_of_wip hw]
        exact γ_num_lower (fun y => by
          rw [argLower_of_num? hm]; exact and_self_of_imp' (fun hy => lowerTighter_true ht hy)) x

theorem stepNumUpper_effect {b b' : Builder} {a : NumArg} {incl : Bool} (h : stepNumUpper b a incl = .ok b') :
    Effect b b' (.numUpper a incl) := by
  obtain ⟨n, lo, hi, hw, hcase⟩ := stepNumUpper_ok h
  rcases hcase with ⟨rfl, rfl⟩ | ⟨m, hm, hcore⟩
  · refine ⟨Builder.sameBase.rfl' _, id, id, ?_⟩
    simp only [RefineCall.dropped, Bool.false_eq_true, if_false]
    intro x; rw [den_numUpper_unknown]; simp
  · obtain ⟨_, hc⟩ := upperCore_ok hcore
    rcases hc with ⟨rfl, ht⟩ | ⟨ht, rfl, _⟩
    · refine ⟨Builder.sameBase.rfl' _, id, id, ?_⟩
      split
      · intro x; rfl
      · intro x
        rw [γB_of_wip hw]
        exact γ_num_upper (fun y => and_self_of_imp (fun hy => by
          rw [argUpper_of_num? hm]; exact upperTighter_false ht hy)) x
    · refine ⟨b.sameBase_wip _, wf_wip (by rw [hw]; exact kindOk_num _ _ _ _ _ _ _), (fun _ => rfl), ?_⟩
      by_cases hpos : a = .posInf
      · subst hpos
        have hst : (NumArg.posInf != NumArg.posInf) = false := rfl
        simp only [hst, Bool.false_eq_true, if_false]
        split
        · intro x; rw [γB_wip, γB_of_wip hw]
        · rename_i hd
          have hi' : incl = true := by cases incl <;> simp_all [RefineCall.dropped]
          subst hi'
          intro x
          rw [γB_wip, γB_of_wip hw]
          exact γ_num_upper (fun y => by
            simp only [NumArg.num?, Option.some.injEq] at hm; subst hm
            simp [argUpper, belowUpper_posInf_incl]) x
      · have hst : (a != NumArg.posInf) = true := by cases a <;> first | rfl | exact absurd rfl hpos
        have hd : (RefineCall.numUpper a incl).dropped = false := by
          cases a <;> first | rfl | exact absurd rfl hpos
        simp only [hst, if_true, hd, Bool.false_eq_true, if_false]
        intro x
        rw [γB_wip, γB_of_wip hw]
        exact γ_num_upper (fun y => by
          rw [argUpper_of_num? hm]; exact and_self_of_imp' (fun hy => upperTighter_true ht hy)) x

omit [ExactOracle] in
theorem stepLenLower_effect {b b' : Builder} {n : Int} (h : stepLenLower b n = .ok b') :
    Effect b b' (.lenLower n) := by
  obtain ⟨nl, lo, hi, hw, hcase, _⟩ := stepLenLower_ok h
  simp only [Effect, RefineCall.dropped, Bool.false_eq_true, if_false]
  rcases hcase with ⟨rfl, hlt⟩ | ⟨h1, h2, rfl⟩
  · exact ⟨Builder.sameBase.rfl' _, id, id, fun x => by rw [γB_of_wip hw]; exact γ_coll_lower_same hlt x⟩
  · refine ⟨b.sameBase_wip _, wf_wip (by rw [hw]; exact kindOk_coll _ _ _ _ _ _ _), ?_, fun x => by
      rw [γB_wip, γB_of_wip hw]; exact γ_coll_lower h1 x⟩
    rw [hw]; simp only [Rfn.lenOk, decide_eq_true_eq]; omega

omit [ExactOracle] in
theorem stepLenUpper_effect {b b' : Builder} {n : Int} (h : stepLenUpper b n = .ok b') :
    Effect b b' (.lenUpper n) := by
  obtain ⟨nl, lo, hi, hw, hcase, _⟩ := stepLenUpper_ok h
  simp only [Effect, RefineCall.dropped, Bool.false_eq_true, if_false]
  rcases hcase with ⟨rfl, hlt⟩ | ⟨h1, h2, rfl⟩
  · exact ⟨Builder.sameBase.rfl' _, id, id, fun x => by rw [γB_of_wip hw]; exact γ_coll_upper_same hlt x⟩
  · refine ⟨b.sameBase_wip _, wf_wip (by rw [hw]; exact kindOk_coll _ _ _ _ _ _ _), ?_, fun x => by
      rw [γB_wip, γB_of_wip hw]; exact γ_coll_upper h2 x⟩
    rw [hw]; simp only [Rfn.lenOk]; exact id

omit [ExactOracle] in
theorem stepPrefix_effect {b b' : Builder} {p : String} (c : RefineCall)
    (hc : c = .stringPrefix p ∨ c = .stringPrefixFull p) (h : stepPrefix b p = .ok b') :
    Effect b b' c := by
  obtain ⟨n, q, hw, ho, rfl, _⟩ := stepPrefix_ok h
  have hd : c.dropped = false := by rcases hc with rfl | rfl <;> rfl
  simp only [Effect, hd, Bool.false_eq_true, if_false]
  exact ⟨b.sameBase_wip _, wf_wip (by rw [hw]; exact kindOk_str _ _ _ _ _), (fun _ => rfl), fun x => by
    rw [γB_wip, γB_of_wip hw]; exact γ_str_prefix ho c hc x⟩

end Refine
end CtyModel
