import CtyModel.Lemmas.GoctyDecode
import CtyModel.Lemmas.TyEq
namespace CtyModel
namespace Num
theorem eq_of_beq {a b : Num} (h : (a == b) = true) : a = b := by
  cases a <;> cases b <;> simp_all [BEq.beq, instBEqNum.beq]

theorem roundME_fits (m : Nat) (e : Int) (p : Nat) (hp : p ≠ 0) (h : bitlen m ≤ p) : roundME m e p = (m, e) := by
  simp [roundME, hp, h]

/-- the reduced precision `toIEEE` rounds to -/
def ieeeP (mb : Nat) (emin : Int) (m : Nat) (e : Int) : Int :=
  if e + (bitlen m : Int) - 1 < emin then (mb : Int) + 1 - emin + (e + (bitlen m : Int) - 1) else (mb : Int) + 1

theorem toIEEE_fin (mb : Nat) (emin emax : Int) (n : Bool) (m0 : Nat) (e0 : Int) (p0 : Nat) (m : Nat) (e : Int)
    (hn : norm m0 e0 = (m, e)) (hm : m ≠ 0) :
    toIEEE mb emin emax (.fin n m0 e0 p0) =
      (if ieeeP mb emin m e < 0 ∨ (ieeeP mb emin m e = 0 ∧ m = 1) then (.fin n 0 0 fprec, false)
       else if ieeeP mb emin m e = 0 then (.fin n 1 (emin - (mb : Int)) fprec, false)
       else if (roundME m e (ieeeP mb emin m e).toNat).2 +
            (bitlen (roundME m e (ieeeP mb emin m e).toNat).1 : Int) - 1 > emax then (.inf n, false)
       else (mk n (roundME m e (ieeeP mb emin m e).toNat).1 (roundME m e (ieeeP mb emin m e).toNat).2 fprec,
             decide (bitlen m ≤ (ieeeP mb emin m e).toNat))) := by
  unfold toIEEE ieeeP
  simp only [hn, hm, if_false]

theorem toIEEE_exact (mb : Nat) (emin emax : Int) (n : Bool) (m0 : Nat) (e0 : Int) (p0 : Nat) (m : Nat) (e : Int)
    (hn : norm m0 e0 = (m, e)) (hm : m ≠ 0)
    (h : (toIEEE mb emin emax (.fin n m0 e0 p0)).2 = true) :
    (toIEEE mb emin emax (.fin n m0 e0 p0)).1 = mk n m e fprec ∧ 0 < ieeeP mb emin m e ∧
      bitlen m ≤ (ieeeP mb emin m e).toNat ∧ e + (bitlen m : Int) - 1 ≤ emax := by
  rw [toIEEE_fin mb emin emax n m0 e0 p0 m e hn hm] at h ⊢
  split at h; · cases h
  split at h; · cases h
  split at h; · cases h
  rename_i h1 h2 h3
  rw [if_neg h1, if_neg h2, if_neg h3]
  simp only [decide_eq_true_eq] at h
  have hp : 0 < ieeeP mb emin m e := by omega
  have hr := roundME_fits m e (ieeeP mb emin m e).toNat (by omega) h
  rw [hr] at h3 ⊢
  exact ⟨rfl, hp, h, by simp only [] at h3; omega⟩

theorem toIEEE_of_fits (mb : Nat) (emin emax : Int) (n : Bool) (m0 : Nat) (e0 : Int) (p0 : Nat) (m : Nat) (e : Int)
    (hn : norm m0 e0 = (m, e)) (hm : m ≠ 0) (hp : 0 < ieeeP mb emin m e)
    (hf : bitlen m ≤ (ieeeP mb emin m e).toNat) (he : e + (bitlen m : Int) - 1 ≤ emax) :
    toIEEE mb emin emax (.fin n m0 e0 p0) = (mk n m e fprec, true) := by
  rw [toIEEE_fin mb emin emax n m0 e0 p0 m e hn hm]
  have hr := roundME_fits m e (ieeeP mb emin m e).toNat (by omega) hf
  rw [hr]
  rw [if_neg (by omega), if_neg (by omega), if_neg (by simp only []; omega)]
  simp [hf]

/-- a number that `Float32()` represents exactly is represented exactly by `Float64()` too, by the same value -/
theorem toF64_of_toF32_exact (n : Bool) (m0 : Nat) (e0 : Int) (p0 : Nat)
    (h : (toF32 (.fin n m0 e0 p0)).2 = true) :
    toF64 (.fin n m0 e0 p0) = ((toF32 (.fin n m0 e0 p0)).1, true) := by
  obtain ⟨m, e, hn⟩ : ∃ m e, norm m0 e0 = (m, e) := ⟨_, _, rfl⟩
  by_cases hm : m = 0
  · subst hm
    unfold toF32 toF64 toIEEE
    simp [hn]
  · unfold toF32 at h ⊢
    unfold toF64
    obtain ⟨h1, h2, h3, h4⟩ := toIEEE_exact 23 (-126) 127 n m0 e0 p0 m e hn hm h
    rw [h1]
    have hp32 : ieeeP 23 (-126) m e ≤ 24 := by unfold ieeeP; split <;> omega
    have hen : -150 < e + (bitlen m : Int) - 1 := by
      unfold ieeeP at h2; split at h2 <;> omega
    have hp64 : ieeeP 52 (-1022) m e = 53 := by unfold ieeeP; rw [if_neg (by omega)]; rfl
    rw [toIEEE_of_fits 52 (-1022) 1023 n m0 e0 p0 m e hn hm (by omega) (by omega) (by omega)]
end Num

namespace Gocty

/-! ### loops over all-successful members -/

theorem seqAll_map_ok {α} : ∀ (xs : List α), seqAll (xs.map Res.ok) = .ok xs
  | [] => rfl
  | x :: xs => by simp [seqAll, seqAll_map_ok xs]

theorem anyErr_map_ok {α} : ∀ (xs : List α), anyErr (xs.map Res.ok) = false
  | [] => rfl
  | x :: xs => by simp [anyErr, anyErr_map_ok xs]
theorem anyPanic_map_ok {α} : ∀ (xs : List α), anyPanic (xs.map Res.ok) = false
  | [] => rfl
  | x :: xs => by simp [anyPanic, anyPanic_map_ok xs]
theorem anyUnmodelled_map_ok {α} : ∀ (xs : List α), anyUnmodelled (xs.map Res.ok) = false
  | [] => rfl
  | x :: xs => by simp [anyUnmodelled, anyUnmodelled_map_ok xs]
theorem okVals_map_ok {α} : ∀ (xs : List α), okVals (xs.map Res.ok) = xs
  | [] => rfl
  | x :: xs => by simp [okVals, okVals_map_ok xs]

theorem combAll_map_ok {α} (xs : List α) : combAll (xs.map Res.ok) = .ok xs := by
  simp [combAll, anyErr_map_ok, anyPanic_map_ok, anyUnmodelled_map_ok, okVals_map_ok]

theorem combAll_ok_inv {α} : ∀ (rs : List (Res α)) (xs : List α), combAll rs = .ok xs → rs = xs.map Res.ok := by
  intro rs xs h
  unfold combAll at h
  split at h; · cases h
  split at h; · cases h
  split at h; · cases h
  split at h; · cases h
  rename_i h1 h2 h3 h4
  simp only [Res.ok.injEq] at h
  subst h
  clear h2
  induction rs with
  | nil => rfl
  | cons r rs ih =>
    cases r with
    | ok a =>
      simp only [anyUnmodelled, anyPanic, anyErr] at h1 h3 h4
      simpa [okVals] using ih h1 h3 h4
    | err c => simp [anyErr] at h4
    | panic w => simp [anyPanic] at h3
    | unmodelled => simp [anyUnmodelled] at h1

/-! ### numbers -/

theorem IsTheInt_ofInt (v : Int) (p : Nat) : IsTheInt (Num.ofInt v p) v := by
  unfold Num.ofInt Num.mk IsTheInt
  simp only []
  by_cases hm : v.natAbs = 0
  · have : v = 0 := by omega
    subst this
    simp [Num.norm_zero]
  · obtain ⟨k, hk1, hk2, _⟩ := Num.norm_spec v.natAbs 0 hm
    rw [hk1]
    have h0 : ((0:Int) + (k:Int)).toNat = k := by omega
    have h1 : (-((0:Int) + (k:Int))).toNat = 0 := by omega
    rw [h0, h1]
    have h2 : ((Num.norm v.natAbs 0).1 : Int) * 2 ^ k = (v.natAbs : Int) := by
      have : ((Num.norm v.natAbs 0).1 * 2 ^ k : Nat) = v.natAbs := hk2.symm
      exact_mod_cast this
    by_cases hv : v < 0
    · simp only [hv, decide_true, if_true, Int.neg_mul, h2]; omega
    · simp only [hv, decide_false, Bool.false_eq_true, if_false, h2]; omega

theorem normal_ofInt (v : Int) (p : Nat) : normalNum (Num.ofInt v p) = true := normal_mk _ _ _ _

/-- an integer of the target's range survives the number round trip -/
theorem int_roundtrip (v : Int) (w : IntW) (s : Bool) (p : Nat)
    (h : lo w.bits s ≤ v ∧ v ≤ hi w.bits s) :
    fromNum (Num.ofInt v p) (.int w s) = .ok (.int v) :=
  (fromNum_int_ok_iff _ (normal_ofInt v p) w s _).mpr ⟨v, IsTheInt_ofInt v p, h.1, h.2, rfl⟩

theorem bigInt_roundtrip (v : Int) (p : Nat) : fromNum (Num.ofInt v p) .bigInt = .ok (.bigInt v) := by
  have := (toInt?_iff _ (normal_ofInt v p) v).mpr (IsTheInt_ofInt v p)
  simp [fromNum, this]


theorem flt_roundtrip (x : Num) (is32 : Bool) (h : (if is32 then x.isF32 else x.isF64) = true) :
    fromNum (fixPrec x) (.float is32) = .ok (.flt x) := by
  rw [fromNum_float]
  cases x with
  | inf n => cases is32 <;> rfl
  | fin n m e p =>
    cases is32 with
    | false =>
      simp only [Bool.false_eq_true, if_false, Num.isF64, Bool.and_eq_true, beq_iff_eq] at h
      obtain ⟨⟨hp, h2⟩, h1⟩ := h
      subst hp
      have h1 := Num.eq_of_beq h1
      simp only [fixPrec, fromNumFloat, h2, h1, Bool.not_true, Bool.false_and, Bool.false_eq_true, if_false, mapRes]
    | true =>
      simp only [if_true, Num.isF32, Bool.and_eq_true, beq_iff_eq] at h
      obtain ⟨⟨hp, h2⟩, h1⟩ := h
      subst hp
      have h1 := Num.eq_of_beq h1
      have h64 := Num.toF64_of_toF32_exact n m e Num.fprec h2
      rw [h1] at h64
      have h32 : Num.f64to32 (.fin n m e Num.fprec) = .fin n m e Num.fprec := h1
      simp only [fixPrec, fromNumFloat, h64, h32, Num.isInf, Bool.not_true, Bool.false_and, Bool.and_false,
        Bool.false_eq_true, if_false, if_true, mapRes]

/-! ### one more pointer level around the target -/

theorem mapRes_ok_iff {α β} (f : α → β) (r : Res α) (b : β) : mapRes f r = .ok b ↔ ∃ a, r = .ok a ∧ b = f a := by
  cases r <;> simp [mapRes, eq_comm]

theorem fromCtyP_ptr : ∀ (p : Payload) (S : Sched) (ms : List String) (ty : Ty) (T : GoTy) (g : GoVal),
    fromCtyP S ms ty p T = .ok g → fromCtyP S ms ty p (.ptr T) = .ok (.ptr g)
  | .marked m r, S, ms, ty, T, g, h => by
    unfold fromCtyP at h ⊢
    simp only [GoTy.base, GoTy.depth]
    by_cases hc : T.base.isCval = true
    · simp only [hc, if_true] at h ⊢; cases h; rfl
    · simp only [Bool.not_eq_true] at hc
      simp only [hc, Bool.false_eq_true, if_false] at h ⊢
      exact fromCtyP_ptr r S _ ty T g h
  | .null, S, ms, ty, T, g, h => by
    unfold fromCtyP at h ⊢
    simp only [GoTy.base, GoTy.depth]
    by_cases hc : T.base.isCval = true
    · simp only [hc, if_true] at h ⊢; cases h; rfl
    · simp only [Bool.not_eq_true] at hc
      simp only [hc, Bool.false_eq_true, if_false] at h ⊢
      split at h
      · split at h
        · cases h
        · rename_i hd
          obtain ⟨d, hd'⟩ : ∃ d, T.depth = d + 1 := ⟨T.depth - 1, by omega⟩
          simp only [hd', Nat.add_sub_cancel] at h ⊢
          cases h; simp [*, wrapPtr]
      · repeat' (split at h)
        all_goals first | (cases h; done) | (cases h; simp [*, wrapPtr]; done)
  | .unk _, S, ms, ty, T, g, h | .b _, S, ms, ty, T, g, h | .n _, S, ms, ty, T, g, h | .s _, S, ms, ty, T, g, h
  | .seq _, S, ms, ty, T, g, h | .smap _ _, S, ms, ty, T, g, h | .sset _ _, S, ms, ty, T, g, h
  | .caps, S, ms, ty, T, g, h | .bad _, S, ms, ty, T, g, h => by
    unfold fromCtyP at h ⊢
    simp only [GoTy.base, GoTy.depth]
    by_cases hc : T.base.isCval = true
    · simp only [hc, if_true] at h ⊢; cases h; rfl
    · simp only [Bool.not_eq_true] at hc
      simp only [hc, Bool.false_eq_true, if_false] at h ⊢
      repeat' (split at h)
      all_goals first | (cases h; done) | (cases h; simp [*, wrapPtr]; done) |
        (obtain ⟨a, ha, rfl⟩ := (mapRes_ok_iff _ _ _).mp h; simp [*, mapRes, wrapPtr]; done)

open Ty

/-! ### sorted attribute names -/

theorem mem_insertName {k x : String} : ∀ {xs : List String}, x ∈ insertName k xs ↔ x = k ∨ x ∈ xs
  | [] => by simp [insertName]
  | y :: ys => by
    simp only [insertName]
    split
    · simp
    · split
      · rename_i h; subst h; simp
      · simp only [List.mem_cons, mem_insertName (xs := ys)]
        constructor
        · rintro (h | h | h) <;> simp [h]
        · rintro (h | h | h) <;> simp [h]

theorem mem_sortNames {x : String} : ∀ {ks : List String}, x ∈ sortNames ks ↔ x ∈ ks
  | [] => by simp [sortNames]
  | k :: ks => by
    have ih := mem_sortNames (x := x) (ks := ks)
    unfold sortNames at ih ⊢
    simp only [List.foldr_cons, mem_insertName, ih, List.mem_cons]

theorem lt_of_not_lt_of_ne {a b : String} (h1 : ¬ a < b) (h2 : a ≠ b) : b < a := by
  by_cases h : b < a
  · exact h
  · exact absurd (String.le_antisymm (String.not_lt.mp h) (String.not_lt.mp h1)) h2

theorem strictAsc_insertName (k : String) : ∀ (xs : List String), strictAsc xs = true →
    strictAsc (insertName k xs) = true
  | [], _ => by simp [insertName, strictAsc]
  | x :: xs, h => by
    have ⟨hxs, hlt⟩ := strictAsc_cons h
    simp only [insertName]
    split
    · rename_i hk
      apply strictAsc_of h
      intro y hy
      rcases List.mem_cons.mp hy with rfl | hy
      · exact hk
      · exact String.lt_trans hk (hlt y hy)
    · split
      · exact h
      · rename_i h1 h2
        have hxk : x < k := lt_of_not_lt_of_ne h1 h2
        apply strictAsc_of (strictAsc_insertName k xs hxs)
        intro y hy
        rcases mem_insertName.mp hy with rfl | hy
        · exact hxk
        · exact hlt y hy

theorem strictAsc_sortNames : ∀ (ks : List String), strictAsc (sortNames ks) = true
  | [] => rfl
  | k :: ks => by
    have ih := strictAsc_sortNames ks
    unfold sortNames at ih ⊢
    exact strictAsc_insertName k _ ih

/-! ### the bridge type is well formed -/

/-- what a successful `impliedStructType` returned -/
theorem impliedStruct_inv {norm : String → String} {etags : List String} {rs : List (Res Ty)} {ty : Ty}
    (h : impliedStruct norm etags rs = .ok ty) :
    ∃ ts, rs = ts.map Res.ok ∧ taggedNames etags ≠ [] ∧
      ty = .object (sortNames ((taggedNames etags).map norm))
        ((sortNames ((taggedNames etags).map norm)).map fun k =>
          (lookupKey k ((taggedNames etags).map norm) ts).getD .dyn)
        ((sortNames ((taggedNames etags).map norm)).map fun _ => false) := by
  unfold impliedStruct at h
  simp only [] at h
  split at h; · cases h
  rename_i hne
  split at h; · cases h
  split at h
  · rename_i ts hts
    cases h
    refine ⟨ts, combAll_ok_inv _ _ hts, ?_, rfl⟩
    intro e; rw [e] at hne; simp at hne
  · cases h
  · cases h
  · cases h

theorem effTags_of_distinct : ∀ (tags : List String), tagsDistinct tags = true → effTags tags = tags
  | [], _ => rfl
  | t :: ts, h => by
    simp only [tagsDistinct, Bool.and_eq_true, Bool.or_eq_true, beq_iff_eq, Bool.not_eq_true',
      List.contains_eq_mem, decide_eq_false_iff_not] at h
    simp only [effTags, effTags_of_distinct ts h.2, List.cons.injEq, and_true]
    rcases h.1 with h0 | h0
    · simp [h0]
    · simp [h0]

theorem taggedNames_effTags_nil : ∀ (tags : List String), taggedNames tags = [] → taggedNames (effTags tags) = []
  | [], _ => rfl
  | t :: ts, h => by
    simp only [taggedNames] at h
    split at h
    · rename_i ht
      subst ht
      simp only [effTags, bne_self_eq_false, Bool.false_and, Bool.false_eq_true, if_false, taggedNames, if_true]
      exact taggedNames_effTags_nil ts h
    · cases h

theorem wf_lookup_getD (k : String) : ∀ (ks : List String) (ts : List Ty), wfL ts = true →
    wf ((lookupKey k ks ts).getD .dyn) = true
  | [], _, _ => by simp [lookupKey, wf]
  | _ :: _, [], _ => by simp [lookupKey, wf]
  | n :: ns, t :: ts, h => by
    simp only [wfL, Bool.and_eq_true] at h
    simp only [lookupKey]
    split
    · exact h.1
    · exact wf_lookup_getD k ns ts h.2

theorem wfL_map (f : String → Ty) (hf : ∀ k, wf (f k) = true) : ∀ (ns : List String), wfL (ns.map f) = true
  | [] => rfl
  | n :: ns => by simp [wfL, hf n, wfL_map f hf ns]

mutual
theorem impliedG_wf (norm : String → String) (ext : Bool) : ∀ (T : GoTy) (ty : Ty),
    impliedG norm ext T = .ok ty → wf ty = true
  | .ptr e, ty, h => by simp only [impliedG] at h; exact impliedG_wf norm ext e ty h
  | .bool, ty, h | .int _ _, ty, h | .float _, ty, h | .str, ty, h | .cval, ty, h => by
    simp only [impliedG] at h; cases h; rfl
  | .bigInt, ty, h | .bigFloat, ty, h => by
    simp only [impliedG] at h; split at h <;> cases h; rfl
  | .slice e, ty, h => by
    simp only [impliedG] at h
    split at h
    · rename_i t ht; cases h; simp only [wf]; exact impliedG_wf norm ext e t ht
    · rename_i r hr; rw [h] at hr; exact absurd rfl (hr ty)
  | .map e, ty, h => by
    simp only [impliedG] at h
    split at h
    · rename_i t ht; cases h; simp only [wf]; exact impliedG_wf norm ext e t ht
    · rename_i r hr; rw [h] at hr; exact absurd rfl (hr ty)
  | .array _ e, ty, h => by
    simp only [impliedG] at h
    split at h
    · split at h
      · rename_i t ht; cases h; simp only [wf]; exact impliedG_wf norm ext e t ht
      · rename_i r hr; rw [h] at hr; exact absurd rfl (hr ty)
    · cases h
  | .struct tags tys, ty, h => by
    simp only [impliedG] at h
    obtain ⟨ts, hts, _, rfl⟩ := impliedStruct_inv h
    have hw := impliedFields_wf norm ext (effTags tags) tys ts hts
    simp only [wf, List.length_map, beq_self_eq_true, Bool.true_and, strictAsc_sortNames]
    exact wfL_map _ (fun k => wf_lookup_getD k _ ts hw) _
theorem impliedFields_wf (norm : String → String) (ext : Bool) : ∀ (tags : List String) (tys : List GoTy)
    (ts : List Ty), impliedFields norm ext tags tys = ts.map Res.ok → wfL ts = true
  | [], _, ts, h => by
    simp only [impliedFields] at h
    cases ts with
    | nil => rfl
    | cons _ _ => simp at h
  | _ :: _, [], ts, h => by
    simp only [impliedFields] at h
    cases ts with
    | nil => rfl
    | cons _ _ => simp at h
  | t :: tags, T :: tys, ts, h => by
    simp only [impliedFields] at h
    split at h
    · exact impliedFields_wf norm ext tags tys ts h
    · cases ts with
      | nil => simp at h
      | cons a ts =>
        simp only [List.map_cons, List.cons.injEq] at h
        simp only [wfL, Bool.and_eq_true]
        exact ⟨impliedG_wf norm ext T a h.1, impliedFields_wf norm ext tags tys ts h.2⟩
end

/-! ### inversion of the bridge type -/

theorem impliedG_slice_inv {norm : String → String} {ext : Bool} {e : GoTy} {ty : Ty}
    (h : impliedG norm ext (.slice e) = .ok ty) : ∃ t, impliedG norm ext e = .ok t ∧ ty = .list t := by
  simp only [impliedG] at h
  split at h
  · rename_i t ht; cases h; exact ⟨t, ht, rfl⟩
  · rename_i r hr; rw [h] at hr; exact absurd rfl (hr ty)

theorem impliedG_map_inv {norm : String → String} {ext : Bool} {e : GoTy} {ty : Ty}
    (h : impliedG norm ext (.map e) = .ok ty) : ∃ t, impliedG norm ext e = .ok t ∧ ty = .map t := by
  simp only [impliedG] at h
  split at h
  · rename_i t ht; cases h; exact ⟨t, ht, rfl⟩
  · rename_i r hr; rw [h] at hr; exact absurd rfl (hr ty)

theorem impliedG_array_inv {norm : String → String} {ext : Bool} {n : Nat} {e : GoTy} {ty : Ty}
    (h : impliedG norm ext (.array n e) = .ok ty) : ∃ t, impliedG norm ext e = .ok t ∧ ty = .list t := by
  simp only [impliedG] at h
  split at h
  · split at h
    · rename_i t ht; cases h; exact ⟨t, ht, rfl⟩
    · rename_i r hr; rw [h] at hr; exact absurd rfl (hr ty)
  · cases h

theorem impliedG_struct_obj {norm : String → String} {ext : Bool} {tags : List String} {tys : List GoTy} {ty : Ty}
    (h : impliedG norm ext (.struct tags tys) = .ok ty) : ∃ n a o, ty = .object n a o := by
  simp only [impliedG] at h
  obtain ⟨ts, _, _, rfl⟩ := impliedStruct_inv h
  exact ⟨_, _, _, rfl⟩

/-- with distinct NFC tags (the well-tagged structs of the round trip) -/
theorem impliedG_struct_inv {norm : String → String} {ext : Bool} {tags : List String} {tys : List GoTy} {ty : Ty}
    (hd : tagsDistinct tags = true) (hn : (taggedNames tags).map norm = taggedNames tags)
    (h : impliedG norm ext (.struct tags tys) = .ok ty) :
    ∃ ts, impliedFields norm ext tags tys = ts.map Res.ok ∧ taggedNames tags ≠ [] ∧
      ty = .object (sortNames (taggedNames tags))
        ((sortNames (taggedNames tags)).map fun k => (lookupKey k (taggedNames tags) ts).getD .dyn)
        ((sortNames (taggedNames tags)).map fun _ => false) := by
  simp only [impliedG, effTags_of_distinct tags hd] at h
  obtain ⟨ts, hts, hne, rfl⟩ := impliedStruct_inv h
  rw [hn]
  exact ⟨ts, hts, hne, rfl⟩

theorem impliedG_notDyn (norm : String → String) (ext : Bool) : ∀ (T : GoTy) (ty : Ty),
    impliedG norm ext T = .ok ty → hasCval T = false → isDynTy ty = false
  | .ptr e, ty, h, hc => by
    simp only [impliedG] at h; simp only [hasCval] at hc; exact impliedG_notDyn norm ext e ty h hc
  | .bool, ty, h, _ | .int _ _, ty, h, _ | .float _, ty, h, _ | .str, ty, h, _ => by
    simp only [impliedG] at h; cases h; rfl
  | .cval, ty, h, hc => by simp [hasCval] at hc
  | .bigInt, ty, h, _ | .bigFloat, ty, h, _ => by
    simp only [impliedG] at h; split at h <;> cases h; rfl
  | .slice e, ty, h, _ => by obtain ⟨t, _, rfl⟩ := impliedG_slice_inv h; rfl
  | .map e, ty, h, _ => by obtain ⟨t, _, rfl⟩ := impliedG_map_inv h; rfl
  | .array _ e, ty, h, _ => by obtain ⟨t, _, rfl⟩ := impliedG_array_inv h; rfl
  | .struct tags tys, ty, h, _ => by obtain ⟨_, _, _, rfl⟩ := impliedG_struct_obj h; rfl

/-! ### `cty.ListVal` / `cty.MapVal` on members of one type -/

theorem elemTypeOf_same (ety : Ty) (hd : isDynTy ety = false) (he : Ty.equals ety ety = true) :
    ∀ (ws : List Value), (∀ w ∈ ws, w.ty = ety) → elemTypeOf ety ws = .ok ety
  | [], _ => rfl
  | w :: ws, h => by
    have hw : w.ty = ety := h w (by simp)
    simp only [elemTypeOf, hd, Bool.false_eq_true, if_false, hw, he, Bool.not_false, Bool.not_true, Bool.and_false]
    exact elemTypeOf_same ety hd he ws (fun x hx => h x (List.mem_cons_of_mem _ hx))

theorem elemTypeOf_dyn (ety : Ty) (hd : isDynTy ety = false) (he : Ty.equals ety ety = true)
    (ws : List Value) (hne : ws ≠ []) (h : ∀ w ∈ ws, w.ty = ety) : elemTypeOf .dyn ws = .ok ety := by
  cases ws with
  | nil => exact absurd rfl hne
  | cons w ws =>
    have hw : w.ty = ety := h w (by simp)
    simp only [elemTypeOf, isDynTy, if_true, hw]
    exact elemTypeOf_same ety hd he ws (fun x hx => h x (List.mem_cons_of_mem _ hx))

/-- below a pointer `toCtyValue` no longer passes a `cty.Value` through `convert`; for the
bridge type (`cty.DynamicPseudoType`) that makes no difference -/
theorem toCtyG_pass (norm : String → String) (g : GoVal) (T : GoTy) (ty : Ty)
    (hT : hasTy g T = true) (hb : impliedG norm true T = .ok ty) :
    toCtyG norm false g ty = toCtyG norm true g ty := by
  cases g with
  | cval cv =>
    cases T <;> simp [hasTy] at hT
    simp only [impliedG] at hb; cases hb
    simp [toCtyG, passthrough, isDynTy]
  | _ => simp only [toCtyG]

/-! ### `ImpliedType` and the bridge type -/
mutual
theorem implied_bridge (norm : String → String) : ∀ (T : GoTy) (ty : Ty),
    impliedG norm false T = .ok ty → impliedG norm true T = .ok ty
  | .ptr e, ty, h => by simp only [impliedG] at h ⊢; exact implied_bridge norm e ty h
  | .bool, ty, h | .int _ _, ty, h | .float _, ty, h | .str, ty, h | .cval, ty, h => by
    simp only [impliedG] at h ⊢; exact h
  | .bigInt, ty, h | .bigFloat, ty, h | .array _ _, ty, h => by simp [impliedG] at h
  | .slice e, ty, h => by
    obtain ⟨t, ht, rfl⟩ := impliedG_slice_inv h
    simp only [impliedG, implied_bridge norm e t ht]
  | .map e, ty, h => by
    obtain ⟨t, ht, rfl⟩ := impliedG_map_inv h
    simp only [impliedG, implied_bridge norm e t ht]
  | .struct tags tys, ty, h => by
    simp only [impliedG] at h ⊢
    obtain ⟨ts, hts, _, _⟩ := impliedStruct_inv h
    rw [impliedFields_bridge norm (effTags tags) tys ts hts, ← hts]
    exact h
theorem impliedFields_bridge (norm : String → String) : ∀ (tags : List String) (tys : List GoTy) (ts : List Ty),
    impliedFields norm false tags tys = ts.map Res.ok → impliedFields norm true tags tys = ts.map Res.ok
  | [], _, ts, h => by simp only [impliedFields] at h ⊢; exact h
  | _ :: _, [], ts, h => by simp only [impliedFields] at h ⊢; exact h
  | t :: tags, T :: tys, ts, h => by
    simp only [impliedFields] at h ⊢
    split
    · rename_i ht; simp only [ht, if_true] at h; exact impliedFields_bridge norm tags tys ts h
    · rename_i ht
      simp only [ht, if_false] at h
      cases ts with
      | nil => simp at h
      | cons a ts =>
        simp only [List.map_cons, List.cons.injEq] at h ⊢
        exact ⟨implied_bridge norm T a h.1, impliedFields_bridge norm tags tys ts h.2⟩
end

end Gocty
end CtyModel
