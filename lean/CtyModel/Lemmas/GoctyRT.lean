import CtyModel.Lemmas.GoctyDecode
import CtyModel.Lemmas.TyEq
namespace CtyModel
namespace Num
theorem eq_of_beq {a b : Num} (h : (a == b) = true) : a = b := by
  cases a <;> cases b <;> simp_all [BEq.beq, instBEqNum.beq]

theorem roundME_fits (m : Nat) (e : Int) (p : Nat) (hp : p ≠ 0) (h : bitlen m ≤ p) : roundME m e p = (m, e) := by
  simp [roundME, hp, h]

/-- the reduced precision `toIEEE` rounds to -/
def ieeeP (mb : Nat) (emin : Int) (m : Nat) (e : Int) : Int :=
  if e + (bitlen m : Int) - 1 < emin then (mb : Int) + 1 - emin + (e + (bitlen m : Int) - 1) else (mb : Int) + 1

theorem toIEEE_fin (mb : Nat) (emin emax : Int) (n : Bool) (m0 : Nat) (e0 : Int) (p0 : Nat) (m : Nat) (e : Int)
    (hn : norm m0 e0 = (m, e)) (hm : m ≠ 0) :
    toIEEE mb emin emax (.fin n m0 e0 p0) =
      (if ieeeP mb emin m e < 0 ∨ (ieeeP mb emin m e = 0 ∧ m = 1) then (.fin n 0 0 fprec, false)
       else if ieeeP mb emin m e = 0 then (.fin n 1 (emin - (mb : Int)) fprec, false)
       else if (roundME m e (ieeeP mb emin m e).toNat).2 +
            (bitlen (roundME m e (ieeeP mb emin m e).toNat).1 : Int) - 1 > emax then (.inf n, false)
       else (mk n (roundME m e (ieeeP mb emin m e).toNat).1 (roundME m e (ieeeP mb emin m e).toNat).2 fprec,
             decide (bitlen m ≤ (ieeeP mb emin m e).toNat))) := by
  unfold toIEEE ieeeP
  simp only [hn, hm, if_false]

theorem toIEEE_exact (mb : Nat) (emin emax : Int) (n : Bool) (m0 : Nat) (e0 : Int) (p0 : Nat) (m : Nat) (e : Int)
    (hn : norm m0 e0 = (m, e)) (hm : m ≠ 0)
    (h : (toIEEE mb emin emax (.fin n m0 e0 p0)).2 = true) :
    (toIEEE mb emin emax (.fin n m0 e0 p0)).1 = mk n m e fprec ∧ 0 < ieeeP mb emin m e ∧
      bitlen m ≤ (ieeeP mb emin m e).toNat ∧ e + (bitlen m : Int) - 1 ≤ emax := by
  rw [toIEEE_fin mb emin emax n m0 e0 p0 m e hn hm] at h ⊢
  split at h; · cases h
  split at h; · cases h
  split at h; · cases h
  rename_i h1 h2 h3
  rw [if_neg h1, if_neg h2, if_neg h3]
  simp only [decide_eq_true_eq] at h
  have hp : 0 < ieeeP mb emin m e := by omega
  have hr := roundME_fits m e (ieeeP mb emin m e).toNat (by omega) h
  rw [hr] at h3 ⊢
  exact ⟨rfl, hp, h, by simp only [] at h3; omega⟩

theorem toIEEE_of_fits (mb : Nat) (emin emax : Int) (n : Bool) (m0 : Nat) (e0 : Int) (p0 : Nat) (m : Nat) (e : Int)
    (hn : norm m0 e0 = (m, e)) (hm : m ≠ 0) (hp : 0 < ieeeP mb emin m e)
    (hf : bitlen m ≤ (ieeeP mb emin m e).toNat) (he : e + (bitlen m : Int) - 1 ≤ emax) :
    toIEEE mb emin emax (.fin n m0 e0 p0) = (mk n m e fprec, true) := by
  rw [toIEEE_fin mb emin emax n m0 e0 p0 m e hn hm]
  have hr := roundME_fits m e (ieeeP mb emin m e).toNat (by omega) hf
  rw [hr]
  rw [if_neg (by omega), if_neg (by omega), if_neg (by simp only []; omega)]
  simp [hf]

/-- a number that `Float32()` represents exactly is represented exactly by `Float64()` too, by the same value -/
theorem toF64_of_toF32_exact (n : Bool) (m0 : Nat) (e0 : Int) (p0 : Nat)
    (h : (toF32 (.fin n m0 e0 p0)).2 = true) :
    toF64 (.fin n m0 e0 p0) = ((toF32 (.fin n m0 e0 p0)).1, true) := by
  obtain ⟨m, e, hn⟩ : ∃ m e, norm m0 e0 = (m, e) := ⟨_, _, rfl⟩
  by_cases hm : m = 0
  · subst hm
    unfold toF32 toF64 toIEEE
    simp [hn]
  · unfold toF32 at h ⊢
    unfold toF64
    obtain ⟨h1, h2, h3, h4⟩ := toIEEE_exact 23 (-126) 127 n m0 e0 p0 m e hn hm h
    rw [h1]
    have hp32 : ieeeP 23 (-126) m e ≤ 24 := by unfold ieeeP; split <;> omega
    have hen : -150 < e + (bitlen m : Int) - 1 := by
      unfold ieeeP at h2; split at h2 <;> omega
    have hp64 : ieeeP 52 (-1022) m e = 53 := by unfold ieeeP; rw [if_neg (by omega)]; rfl
    rw [toIEEE_of_fits 52 (-1022) 1023 n m0 e0 p0 m e hn hm (by omega) (by omega) (by omega)]
end Num

namespace Gocty

/-! ### loops over all-successful members -/

theorem seqAll_map_ok {α} : ∀ (xs : List α), seqAll (xs.map Res.ok) = .ok xs
  | [] => rfl
  | x :: xs => by simp [seqAll, seqAll_map_ok xs]

theorem anyErr_map_ok {α} : ∀ (xs : List α), anyErr (xs.map Res.ok) = false
  | [] => rfl
  | x :: xs => by simp [anyErr, anyErr_map_ok xs]
theorem anyPanic_map_ok {α} : ∀ (xs : List α), anyPanic (xs.map Res.ok) = false
  | [] => rfl
  | x :: xs => by simp [anyPanic, anyPanic_map_ok xs]
theorem anyUnmodelled_map_ok {α} : ∀ (xs : List α), anyUnmodelled (xs.map Res.ok) = false
  | [] => rfl
  | x :: xs => by simp [anyUnmodelled, anyUnmodelled_map_ok xs]
theorem okVals_map_ok {α} : ∀ (xs : List α), okVals (xs.map Res.ok) = xs
  | [] => rfl
  | x :: xs => by simp [okVals, okVals_map_ok xs]

theorem combAll_map_ok {α} (xs : List α) : combAll (xs.map Res.ok) = .ok xs := by
  simp [combAll, anyErr_map_ok, anyPanic_map_ok, anyUnmodelled_map_ok, okVals_map_ok]

theorem combAll_ok_inv {α} : ∀ (rs : List (Res α)) (xs : List α), combAll rs = .ok xs → rs = xs.map Res.ok := by
  intro rs xs h
  unfold combAll at h
  split at h; · cases h
  split at h; · cases h
  split at h; · cases h
  split at h; · cases h
  rename_i h1 h2 h3 h4
  simp only [Res.ok.injEq] at h
  subst h
  clear h2
  induction rs with
  | nil => rfl
  | cons r rs ih =>
    cases r with
    | ok a =>
      simp only [anyUnmodelled, anyPanic, anyErr] at h1 h3 h4
      simpa [okVals] using ih h1 h3 h4
    | err c => simp [anyErr] at h4
    | panic w => simp [anyPanic] at h3
    | unmodelled => simp [anyUnmodelled] at h1

/-! ### numbers -/

theorem IsTheInt_ofInt (v : Int) (p : Nat) : IsTheInt (Num.ofInt v p) v := by
  unfold Num.ofInt Num.mk IsTheInt
  simp only []
  by_cases hm : v.natAbs = 0
  · have : v = 0 := by omega
    subst this
    simp [Num.norm_zero]
  · obtain ⟨k, hk1, hk2, _⟩ := Num.norm_spec v.natAbs 0 hm
    rw [hk1]
    have h0 : ((0:Int) + (k:Int)).toNat = k := by omega
    have h1 : (-((0:Int) + (k:Int))).toNat = 0 := by omega
    rw [h0, h1]
    have h2 : ((Num.norm v.natAbs 0).1 : Int) * 2 ^ k = (v.natAbs : Int) := by
      have : ((Num.norm v.natAbs 0).1 * 2 ^ k : Nat) = v.natAbs := hk2.symm
      exact_mod_cast this
    by_cases hv : v < 0
    · simp only [hv, decide_true, if_true, Int.neg_mul, h2]; omega
    · simp only [hv, decide_false, Bool.false_eq_true, if_false, h2]; omega

theorem normal_ofInt (v : Int) (p : Nat) : normalNum (Num.ofInt v p) = true := normal_mk _ _ _ _

/-- an integer of the target's range survives the number round trip -/
theorem int_roundtrip (v : Int) (w : IntW) (s : Bool) (p : Nat)
    (h : lo w.bits s ≤ v ∧ v ≤ hi w.bits s) :
    fromNum (Num.ofInt v p) (.int w s) = .ok (.int v) :=
  (fromNum_int_ok_iff _ (normal_ofInt v p) w s _).mpr ⟨v, IsTheInt_ofInt v p, h.1, h.2, rfl⟩

theorem bigInt_roundtrip (v : Int) (p : Nat) : fromNum (Num.ofInt v p) .bigInt = .ok (.bigInt v) := by
  have := (toInt?_iff _ (normal_ofInt v p) v).mpr (IsTheInt_ofInt v p)
  simp [fromNum, this]


theorem flt_roundtrip (x : Num) (is32 : Bool) (h : (if is32 then x.isF32 else x.isF64) = true) :
    fromNum (fixPrec x) (.float is32) = .ok (.flt x) := by
  rw [fromNum_float]
  cases x with
  | inf n => cases is32 <;> rfl
  | fin n m e p =>
    cases is32 with
    | false =>
      simp only [Bool.false_eq_true, if_false, Num.isF64, Bool.and_eq_true, beq_iff_eq] at h
      obtain ⟨⟨hp, h2⟩, h1⟩ := h
      subst hp
      have h1 := Num.eq_of_beq h1
      simp only [fixPrec, fromNumFloat, h2, h1, Bool.not_true, Bool.false_and, Bool.false_eq_true, if_false, mapRes]
    | true =>
      simp only [if_true, Num.isF32, Bool.and_eq_true, beq_iff_eq] at h
      obtain ⟨⟨hp, h2⟩, h1⟩ := h
      subst hp
      have h1 := Num.eq_of_beq h1
      have h64 := Num.toF64_of_toF32_exact n m e Num.fprec h2
      rw [h1] at h64
      have h32 : Num.f64to32 (.fin n m e Num.fprec) = .fin n m e Num.fprec := h1
      simp only [fixPrec, fromNumFloat, h64, h32, Num.isInf, Bool.not_true, Bool.false_and, Bool.and_false,
        Bool.false_eq_true, if_false, if_true, mapRes]

/-! ### one more pointer level around the target -/

theorem mapRes_ok_iff {α β} (f : α → β) (r : Res α) (b : β) : mapRes f r = .ok b ↔ ∃ a, r = .ok a ∧ b = f a := by
  cases r <;> simp [mapRes, eq_comm]

theorem fromCtyP_ptr : ∀ (p : Payload) (ms : List String) (ty : Ty) (T : GoTy) (g : GoVal),
    fromCtyP ms ty p T = .ok g → fromCtyP ms ty p (.ptr T) = .ok (.ptr g)
  | .marked m r, ms, ty, T, g, h => by
    unfold fromCtyP at h ⊢
    simp only [GoTy.base, GoTy.depth]
    by_cases hc : T.base.isCval = true
    · simp only [hc, if_true] at h ⊢; cases h; rfl
    · simp only [Bool.not_eq_true] at hc
      simp only [hc, Bool.false_eq_true, if_false] at h ⊢
      exact fromCtyP_ptr r _ ty T g h
  | .null, ms, ty, T, g, h => by
    unfold fromCtyP at h ⊢
    simp only [GoTy.base, GoTy.depth]
    by_cases hc : T.base.isCval = true
    · simp only [hc, if_true] at h ⊢; cases h; rfl
    · simp only [Bool.not_eq_true] at hc
      simp only [hc, Bool.false_eq_true, if_false] at h ⊢
      split at h
      · split at h
        · cases h
        · rename_i hd
          obtain ⟨d, hd'⟩ : ∃ d, T.depth = d + 1 := ⟨T.depth - 1, by omega⟩
          simp only [hd', Nat.add_sub_cancel] at h ⊢
          cases h; simp [*, wrapPtr]
      · repeat' (split at h)
        all_goals first | (cases h; done) | (cases h; simp [*, wrapPtr]; done)
  | .unk _, ms, ty, T, g, h | .b _, ms, ty, T, g, h | .n _, ms, ty, T, g, h | .s _, ms, ty, T, g, h
  | .seq _, ms, ty, T, g, h | .smap _ _, ms, ty, T, g, h | .sset _ _, ms, ty, T, g, h
  | .caps, ms, ty, T, g, h | .bad _, ms, ty, T, g, h => by
    unfold fromCtyP at h ⊢
    simp only [GoTy.base, GoTy.depth]
    by_cases hc : T.base.isCval = true
    · simp only [hc, if_true] at h ⊢; cases h; rfl
    · simp only [Bool.not_eq_true] at hc
      simp only [hc, Bool.false_eq_true, if_false] at h ⊢
      repeat' (split at h)
      all_goals first | (cases h; done) | (cases h; simp [*, wrapPtr]; done) |
        (obtain ⟨a, ha, rfl⟩ := (mapRes_ok_iff _ _ _).mp h; simp [*, mapRes, wrapPtr]; done)

open Ty

/-! ### sorted attribute names -/

theorem mem_insertName {k x : String} : ∀ {xs : List String}, x ∈ insertName k xs ↔ x = k ∨ x ∈ xs
  | [] => by simp [insertName]
  | y :: ys => by
    simp only [insertName]
    split
    · simp
    · split
      · rename_i h; subst h; simp
      · simp only [List.mem_cons, mem_insertName (xs := ys)]
        constructor
        · rintro (h | h | h) <;> simp [h]
        · rintro (h | h | h) <;> simp [h]

theorem mem_sortNames {x : String} : ∀ {ks : List String}, x ∈ sortNames ks ↔ x ∈ ks
  | [] => by simp [sortNames]
  | k :: ks => by
    have ih := mem_sortNames (x := x) (ks := ks)
    unfold sortNames at ih ⊢
    simp only [List.foldr_cons, mem_insertName, ih, List.mem_cons]

theorem lt_of_not_lt_of_ne {a b : String} (h1 : ¬ a < b) (h2 : a ≠ b) : b < a := by
  by_cases h : b < a
  · exact h
  · exact absurd (String.le_antisymm (String.not_lt.mp h) (String.not_lt.mp h1)) h2

theorem strictAsc_insertName (k : String) : ∀ (xs : List String), strictAsc xs = true →
    strictAsc (insertName k xs) = true
  | [], _ => by simp [insertName, strictAsc]
  | x :: xs, h => by
    have ⟨hxs, hlt⟩ := strictAsc_cons h
    simp only [insertName]
    split
    · rename_i hk
      apply strictAsc_of h
      intro y hy
      rcases List.mem_cons.mp hy with rfl | hy
      · exact hk
      · exact String.lt_trans hk (hlt y hy)
    · split
      · exact h
      · rename_i h1 h2
        have hxk : x < k := lt_of_not_lt_of_ne h1 h2
        apply strictAsc_of (strictAsc_insertName k xs hxs)
        intro y hy
        rcases mem_insertName.mp hy with rfl | hy
        · exact hxk
        · exact hlt y hy

theorem strictAsc_sortNames : ∀ (ks : List String), strictAsc (sortNames ks) = true
  | [] => rfl
  | k :: ks => by
    have ih := strictAsc_sortNames ks
    unfold sortNames at ih ⊢
    exact strictAsc_insertName k _ ih

/-! ### the bridge type is well formed -/

theorem wf_lookup_getD (k : String) : ∀ (ks : List String) (ts : List Ty), wfL ts = true →
    wf ((lookupKey k ks ts).getD .dyn) = true
  | [], _, _ => by simp [lookupKey, wf]
  | _ :: _, [], _ => by simp [lookupKey, wf]
  | n :: ns, t :: ts, h => by
    simp only [wfL, Bool.and_eq_true] at h
    simp only [lookupKey]
    split
    · exact h.1
    · exact wf_lookup_getD k ns ts h.2

theorem wfL_map (f : String → Ty) (hf : ∀ k, wf (f k) = true) : ∀ (ns : List String), wfL (ns.map f) = true
  | [] => rfl
  | n :: ns => by simp [wfL, hf n, wfL_map f hf ns]

mutual
theorem impliedG_wf (norm : String → String) (ext : Bool) : ∀ (T : GoTy) (ty : Ty),
    impliedG norm ext T = .ok ty → wf ty = true
  | .ptr e, ty, h => by simp only [impliedG] at h; exact impliedG_wf norm ext e ty h
  | .bool, ty, h | .int _ _, ty, h | .float _, ty, h | .str, ty, h | .cval, ty, h => by
    simp only [impliedG] at h; cases h; rfl
  | .bigInt, ty, h | .bigFloat, ty, h => by
    simp only [impliedG] at h; split at h <;> cases h; rfl
  | .slice e, ty, h => by
    simp only [impliedG] at h
    split at h
    · rename_i t ht; cases h; simp only [wf]; exact impliedG_wf norm ext e t ht
    · rename_i r hr; rw [h] at hr; exact absurd rfl (hr ty)
  | .map e, ty, h => by
    simp only [impliedG] at h
    split at h
    · rename_i t ht; cases h; simp only [wf]; exact impliedG_wf norm ext e t ht
    · rename_i r hr; rw [h] at hr; exact absurd rfl (hr ty)
  | .array _ e, ty, h => by
    simp only [impliedG] at h
    split at h
    · split at h
      · rename_i t ht; cases h; simp only [wf]; exact impliedG_wf norm ext e t ht
      · rename_i r hr; rw [h] at hr; exact absurd rfl (hr ty)
    · cases h
  | .struct tags tys, ty, h => by
    simp only [impliedG] at h
    split at h; · cases h
    split at h; · cases h
    split at h
    · rename_i ts hts
      cases h
      have hw := impliedFields_wf norm ext tags tys ts (combAll_ok_inv _ _ hts)
      simp only [wf, List.length_map, beq_self_eq_true, Bool.true_and, strictAsc_sortNames, Bool.and_eq_true]
      exact wfL_map _ (fun k => wf_lookup_getD k _ ts hw) _
    · cases h
    · cases h
    · cases h
theorem impliedFields_wf (norm : String → String) (ext : Bool) : ∀ (tags : List String) (tys : List GoTy)
    (ts : List Ty), impliedFields norm ext tags tys = ts.map Res.ok → wfL ts = true
  | [], _, ts, h => by
    simp only [impliedFields] at h
    cases ts with
    | nil => rfl
    | cons _ _ => simp at h
  | _ :: _, [], ts, h => by
    simp only [impliedFields] at h
    cases ts with
    | nil => rfl
    | cons _ _ => simp at h
  | t :: tags, T :: tys, ts, h => by
    simp only [impliedFields] at h
    split at h
    · exact impliedFields_wf norm ext tags tys ts h
    · cases ts with
      | nil => simp at h
      | cons a ts =>
        simp only [List.map_cons, List.cons.injEq] at h
        simp only [wfL, Bool.and_eq_true]
        exact ⟨impliedG_wf norm ext T a h.1, impliedFields_wf norm ext tags tys ts h.2⟩
end

/-! ### struct fields as records (instead of five parallel lists) -/

/-- one struct field together with everything the round trip says about it -/
structure Fld where
  tag : String
  v : GoVal
  T : GoTy
  t : Ty
  w : Value

def findF (k : String) : List Fld → Option Fld
  | [] => none
  | f :: fs => if f.tag = k then some f else findF k fs

theorem lookupKey_map {α} (π : Fld → α) (k : String) : ∀ (fs : List Fld),
    lookupKey k (fs.map (·.tag)) (fs.map π) = (findF k fs).map π
  | [] => rfl
  | f :: fs => by
    simp only [List.map_cons, lookupKey, findF]
    split
    · rfl
    · exact lookupKey_map π k fs

theorem findF_self : ∀ {fs : List Fld} {f : Fld}, (fs.map (·.tag)).Nodup → f ∈ fs → findF f.tag fs = some f
  | [], _, _, h => by simp at h
  | a :: fs, f, hn, h => by
    simp only [List.map_cons, List.nodup_cons] at hn
    simp only [findF]
    rcases List.mem_cons.mp h with rfl | h
    · simp
    · have : a.tag ≠ f.tag := by
        intro e
        exact hn.1 (e ▸ List.mem_map_of_mem h)
      simp only [this, if_false]
      exact findF_self hn.2 h

theorem findF_of_mem : ∀ {fs : List Fld} {k : String}, k ∈ fs.map (·.tag) →
    ∃ f, findF k fs = some f ∧ f.tag = k ∧ f ∈ fs
  | [], _, h => by simp at h
  | a :: fs, k, h => by
    simp only [findF]
    by_cases e : a.tag = k
    · exact ⟨a, by simp [e], e, by simp⟩
    · simp only [e, if_false]
      simp only [List.map_cons, List.mem_cons] at h
      rcases h with h | h
      · exact absurd h.symm e
      · obtain ⟨f, h1, h2, h3⟩ := findF_of_mem h
        exact ⟨f, h1, h2, List.mem_cons_of_mem _ h3⟩

theorem lookupKey_names {α} (f : String → α) (k : String) : ∀ (ns : List String), k ∈ ns →
    lookupKey k ns (ns.map f) = some (f k)
  | [], h => by simp at h
  | n :: ns, h => by
    simp only [List.map_cons, lookupKey]
    split
    · rename_i e; rw [e]
    · rename_i e
      rcases List.mem_cons.mp h with h | h
      · exact absurd h.symm e
      · exact lookupKey_names f k ns h

theorem taggedNames_allTagged : ∀ (tags : List String), allTagged tags = true → taggedNames tags = tags
  | [], _ => rfl
  | t :: ts, h => by
    simp only [allTagged, Bool.and_eq_true, bne_iff_ne, ne_eq] at h
    simp only [taggedNames, h.1, if_false, taggedNames_allTagged ts h.2]

theorem allTagged_mem : ∀ {tags : List String}, allTagged tags = true → ∀ t ∈ tags, t ≠ ""
  | [], _, _, h => by simp at h
  | a :: ts, h, t, ht => by
    simp only [allTagged, Bool.and_eq_true, bne_iff_ne, ne_eq] at h
    rcases List.mem_cons.mp ht with rfl | ht
    · exact h.1
    · exact allTagged_mem h.2 t ht

theorem nodup_of_tagsDistinct : ∀ {tags : List String}, allTagged tags = true → tagsDistinct tags = true →
    tags.Nodup
  | [], _, _ => List.nodup_nil
  | t :: ts, ha, hd => by
    simp only [allTagged, Bool.and_eq_true, bne_iff_ne, ne_eq] at ha
    simp only [tagsDistinct, Bool.and_eq_true, Bool.or_eq_true, beq_iff_eq, Bool.not_eq_true',
      List.contains_eq_mem, decide_eq_false_iff_not] at hd
    refine List.nodup_cons.mpr ⟨?_, nodup_of_tagsDistinct ha.2 hd.2⟩
    rcases hd.1 with h | h
    · exact absurd h ha.1
    · exact h

/-! struct → object -/

theorem toCtyF_flds (norm : String → String) (names : List String) (atys : List Ty) : ∀ (sub : List Fld),
    (∀ f ∈ sub, f.tag ≠ "" ∧ lookupKey f.tag names atys = some f.t ∧ toCtyG norm true f.v f.t = .ok f.w) →
    toCtyF norm (sub.map (·.tag)) (sub.map (·.v)) names atys = sub.map (fun f => Res.ok f.w)
  | [], _ => by simp [toCtyF]
  | f :: sub, h => by
    have hf := h f (by simp)
    simp only [List.map_cons, toCtyF, hf.1, if_false, hf.2.1, hf.2.2]
    rw [toCtyF_flds norm names atys sub (fun g hg => h g (List.mem_cons_of_mem _ hg))]

theorem attrResults_flds (fs : List Fld) (φ : String → Ty) : ∀ (ns : List String),
    (∀ k ∈ ns, k ∈ fs.map (·.tag)) →
    attrResults ns (ns.map φ) (fs.map (·.tag)) (fs.map (fun f => Res.ok f.w)) =
      ns.map (fun k => Res.ok (((findF k fs).map (·.w)).getD default))
  | [], _ => rfl
  | k :: ns, h => by
    obtain ⟨f, h1, _, _⟩ := findF_of_mem (h k (by simp))
    simp only [List.map_cons, attrResults, lookupKey_map, h1, Option.map_some, Option.getD_some]
    rw [attrResults_flds fs φ ns (fun k hk => h k (List.mem_cons_of_mem _ hk))]

/-! object → struct -/

theorem missingRequired_none (names : List String) : ∀ (tags : List String) (tys : List GoTy),
    (∀ t ∈ tags, t ∈ names) → missingRequired names tags tys = false
  | [], _, _ => by simp [missingRequired]
  | _ :: _, [], _ => by simp [missingRequired]
  | t :: tags, T :: tys, h => by
    have : names.contains t = true := by simpa using h t (by simp)
    simp only [missingRequired, this, Bool.not_true, Bool.and_false, Bool.false_and, Bool.false_or]
    exact missingRequired_none names tags tys (fun x hx => h x (List.mem_cons_of_mem _ hx))

theorem fromCtyA_flds (fs : List Fld) (hnd : (fs.map (·.tag)).Nodup)
    (hne : ∀ f ∈ fs, f.tag ≠ "")
    (hrt : ∀ f ∈ fs, fromCtyP [] f.w.ty f.w.v f.T = .ok f.v) : ∀ (ns : List String),
    (∀ k ∈ ns, k ∈ fs.map (·.tag)) →
    fromCtyA [] ns (tysOf (ns.map fun k => ((findF k fs).map (·.w)).getD default))
      (payloads (ns.map fun k => ((findF k fs).map (·.w)).getD default))
      (fs.map (·.tag)) (fs.map (·.T)) =
      ns.map (fun k => Res.ok (((findF k fs).map (·.v)).getD default))
  | [], _ => by simp [fromCtyA, tysOf, payloads]
  | k :: ns, h => by
    obtain ⟨f, h1, h2, h3⟩ := findF_of_mem (h k (by simp))
    have hk : k ≠ "" := h2 ▸ hne f h3
    simp only [List.map_cons, tysOf, payloads, fromCtyA, lookupTag, hk, if_false, lookupKey_map, h1,
      Option.map_some, Option.getD_some, hrt f h3]
    rw [fromCtyA_flds fs hnd hne hrt ns (fun k hk => h k (List.mem_cons_of_mem _ hk))]

theorem assemble_flds (names : List String) (gs : List GoVal) : ∀ (sub : List Fld),
    (∀ f ∈ sub, lookupTag f.tag names gs = some f.v) →
    assemble names gs (sub.map (·.tag)) (sub.map (·.T)) = sub.map (·.v)
  | [], _ => by simp [assemble]
  | f :: sub, h => by
    simp only [List.map_cons, assemble, h f (by simp)]
    rw [assemble_flds names gs sub (fun g hg => h g (List.mem_cons_of_mem _ hg))]

theorem tysOf_map {α} (f : α → Value) : ∀ (xs : List α), tysOf (xs.map f) = xs.map (fun x => (f x).ty)
  | [] => rfl
  | x :: xs => by simp [tysOf, tysOf_map f xs]

theorem payloads_length : ∀ (ws : List Value), (payloads ws).length = ws.length
  | [] => rfl
  | _ :: ws => by simp [payloads, payloads_length ws]

theorem struct_rt (norm : String → String) (fs : List Fld) (hne : fs ≠ [])
    (hall : allTagged (fs.map (·.tag)) = true) (hdist : tagsDistinct (fs.map (·.tag)) = true)
    (hto : ∀ f ∈ fs, toCtyG norm true f.v f.t = .ok f.w)
    (hfrom : ∀ f ∈ fs, fromCtyP [] f.w.ty f.w.v f.T = .ok f.v) :
    let tags := fs.map (·.tag)
    let names := sortNames tags
    let φ : String → Ty := fun k => (lookupKey k tags (fs.map (·.t))).getD .dyn
    let ov := objectVal names (names.map fun k => ((findF k fs).map (·.w)).getD default)
    toCtyG norm true (.struct tags (fs.map (·.v))) (.object names (names.map φ) (names.map fun _ => false)) = .ok ov ∧
    fromCtyP [] ov.ty ov.v (.struct tags (fs.map (·.T))) = .ok (.struct tags (fs.map (·.v))) ∧
    ((∀ f ∈ fs, f.w.ty = f.t) → ov.ty = .object names (names.map φ) (names.map fun _ => false)) := by
  intro tags names φ ov
  have hnd : tags.Nodup := nodup_of_tagsDistinct hall hdist
  have hne' : ∀ f ∈ fs, f.tag ≠ "" := fun f hf => allTagged_mem hall f.tag (List.mem_map_of_mem hf)
  have hmem : ∀ k ∈ names, k ∈ tags := fun k hk => mem_sortNames.mp hk
  have hmem' : ∀ t ∈ tags, t ∈ names := fun k hk => mem_sortNames.mpr hk
  have hnames : names.isEmpty = false := by
    cases fs with
    | nil => exact absurd rfl hne
    | cons f fs =>
      have : f.tag ∈ names := hmem' _ (by simp [tags])
      cases hn : names with
      | nil => rw [hn] at this; simp at this
      | cons _ _ => rfl
  have hφ : ∀ f ∈ fs, φ f.tag = f.t := by
    intro f hf
    simp only [φ, tags, lookupKey_map, findF_self hnd hf, Option.map_some, Option.getD_some]
  have hdist' : tagsDistinct tags = true := hdist
  refine ⟨?_, ?_, ?_⟩
  · -- ToCtyValue
    simp only [toCtyG, hnames, Bool.false_eq_true, if_false, hdist, Bool.not_true]
    rw [taggedNames_allTagged tags hall]
    rw [toCtyF_flds norm names (names.map φ) fs (fun f hf => ⟨hne' f hf, by
      rw [lookupKey_names φ f.tag names (hmem' _ (List.mem_map_of_mem hf)), hφ f hf], hto f hf⟩)]
    rw [attrResults_flds fs φ names hmem]
    rw [show (names.map fun k => Res.ok (((findF k fs).map (·.w)).getD default)) =
      (names.map fun k => ((findF k fs).map (·.w)).getD default).map Res.ok by simp [List.map_map]]
    rw [combAll_map_ok]
    simp [hdist', ov]
  · -- FromCtyValue
    simp only [ov, objectVal]
    unfold fromCtyP
    simp only [GoTy.base, GoTy.isCval, Bool.false_eq_true, if_false, bne_self_eq_false, hdist, Bool.not_true,
      GoTy.depth, wrapPtr]
    rw [missingRequired_none names tags _ hmem']
    simp only [Bool.false_eq_true, if_false]
    rw [fromCtyA_flds fs hnd hne' hfrom names hmem]
    rw [show (names.map fun k => Res.ok (((findF k fs).map (·.v)).getD default)) =
      (names.map fun k => ((findF k fs).map (·.v)).getD default).map Res.ok by simp [List.map_map]]
    rw [combAll_map_ok]
    simp only [mapRes]
    rw [assemble_flds names _ fs (fun f hf => by
      simp only [lookupTag, hne' f hf, if_false]
      rw [lookupKey_names _ f.tag names (hmem' _ (List.mem_map_of_mem hf)), findF_self hnd hf]
      rfl)]
    simp [hdist']
  · intro hty
    simp only [ov, objectVal, tysOf_map]
    congr 1
    apply List.map_congr_left
    intro k hk
    obtain ⟨f, h1, h2, h3⟩ := findF_of_mem (hmem k hk)
    subst h2
    simp only [h1, Option.map_some, Option.getD_some, hty f h3, hφ f h3]

/-! ### inversion of the bridge type -/

theorem impliedG_slice_inv {norm : String → String} {ext : Bool} {e : GoTy} {ty : Ty}
    (h : impliedG norm ext (.slice e) = .ok ty) : ∃ t, impliedG norm ext e = .ok t ∧ ty = .list t := by
  simp only [impliedG] at h
  split at h
  · rename_i t ht; cases h; exact ⟨t, ht, rfl⟩
  · rename_i r hr; rw [h] at hr; exact absurd rfl (hr ty)

theorem impliedG_map_inv {norm : String → String} {ext : Bool} {e : GoTy} {ty : Ty}
    (h : impliedG norm ext (.map e) = .ok ty) : ∃ t, impliedG norm ext e = .ok t ∧ ty = .map t := by
  simp only [impliedG] at h
  split at h
  · rename_i t ht; cases h; exact ⟨t, ht, rfl⟩
  · rename_i r hr; rw [h] at hr; exact absurd rfl (hr ty)

theorem impliedG_array_inv {norm : String → String} {ext : Bool} {n : Nat} {e : GoTy} {ty : Ty}
    (h : impliedG norm ext (.array n e) = .ok ty) : ∃ t, impliedG norm ext e = .ok t ∧ ty = .list t := by
  simp only [impliedG] at h
  split at h
  · split at h
    · rename_i t ht; cases h; exact ⟨t, ht, rfl⟩
    · rename_i r hr; rw [h] at hr; exact absurd rfl (hr ty)
  · cases h

theorem impliedG_struct_inv {norm : String → String} {ext : Bool} {tags : List String} {tys : List GoTy} {ty : Ty}
    (h : impliedG norm ext (.struct tags tys) = .ok ty) :
    ∃ ts, impliedFields norm ext tags tys = ts.map Res.ok ∧ taggedNames tags ≠ [] ∧
      ty = .object (sortNames (taggedNames tags))
        ((sortNames (taggedNames tags)).map fun k => (lookupKey k (taggedNames tags) ts).getD .dyn)
        ((sortNames (taggedNames tags)).map fun _ => false) := by
  simp only [impliedG] at h
  split at h; · cases h
  rename_i hne
  split at h; · cases h
  split at h
  · rename_i ts hts
    cases h
    refine ⟨ts, combAll_ok_inv _ _ hts, ?_, rfl⟩
    intro e; rw [e] at hne; simp at hne
  · cases h
  · cases h
  · cases h

theorem impliedG_notDyn (norm : String → String) (ext : Bool) : ∀ (T : GoTy) (ty : Ty),
    impliedG norm ext T = .ok ty → hasCval T = false → isDynTy ty = false
  | .ptr e, ty, h, hc => by
    simp only [impliedG] at h; simp only [hasCval] at hc; exact impliedG_notDyn norm ext e ty h hc
  | .bool, ty, h, _ | .int _ _, ty, h, _ | .float _, ty, h, _ | .str, ty, h, _ => by
    simp only [impliedG] at h; cases h; rfl
  | .cval, ty, h, hc => by simp [hasCval] at hc
  | .bigInt, ty, h, _ | .bigFloat, ty, h, _ => by
    simp only [impliedG] at h; split at h <;> cases h; rfl
  | .slice e, ty, h, _ => by obtain ⟨t, _, rfl⟩ := impliedG_slice_inv h; rfl
  | .map e, ty, h, _ => by obtain ⟨t, _, rfl⟩ := impliedG_map_inv h; rfl
  | .array _ e, ty, h, _ => by obtain ⟨t, _, rfl⟩ := impliedG_array_inv h; rfl
  | .struct tags tys, ty, h, _ => by obtain ⟨ts, _, _, rfl⟩ := impliedG_struct_inv h; rfl

/-! ### `cty.ListVal` / `cty.MapVal` on members of one type -/

theorem elemTypeOf_same (ety : Ty) (hd : isDynTy ety = false) (he : Ty.equals ety ety = true) :
    ∀ (ws : List Value), (∀ w ∈ ws, w.ty = ety) → elemTypeOf ety ws = .ok ety
  | [], _ => rfl
  | w :: ws, h => by
    have hw : w.ty = ety := h w (by simp)
    simp only [elemTypeOf, hd, Bool.false_eq_true, if_false, hw, he, Bool.not_false, Bool.not_true, Bool.and_false]
    exact elemTypeOf_same ety hd he ws (fun x hx => h x (List.mem_cons_of_mem _ hx))

theorem elemTypeOf_dyn (ety : Ty) (hd : isDynTy ety = false) (he : Ty.equals ety ety = true)
    (ws : List Value) (hne : ws ≠ []) (h : ∀ w ∈ ws, w.ty = ety) : elemTypeOf .dyn ws = .ok ety := by
  cases ws with
  | nil => exact absurd rfl hne
  | cons w ws =>
    have hw : w.ty = ety := h w (by simp)
    simp only [elemTypeOf, isDynTy, if_true, hw]
    exact elemTypeOf_same ety hd he ws (fun x hx => h x (List.mem_cons_of_mem _ hx))

/-- below a pointer `toCtyValue` no longer passes a `cty.Value` through `convert`; for the
bridge type (`cty.DynamicPseudoType`) that makes no difference -/
theorem toCtyG_pass (norm : String → String) (g : GoVal) (T : GoTy) (ty : Ty)
    (hT : hasTy g T = true) (hb : impliedG norm true T = .ok ty) :
    toCtyG norm false g ty = toCtyG norm true g ty := by
  cases g with
  | cval cv =>
    cases T <;> simp [hasTy] at hT
    simp only [impliedG] at hb; cases hb
    simp [toCtyG, passthrough, isDynTy]
  | _ => simp only [toCtyG]

/-! ### the round trip, by induction on the Go value -/

/-- the round trip of one Go value through the bridge type of its Go type -/
def RT (norm : String → String) (g : GoVal) (T : GoTy) (ty : Ty) : Prop :=
  ∃ v : Value, toCtyG norm true g ty = .ok v ∧ fromCtyP [] v.ty v.v T = .ok g ∧
    (hasCval T = false → v.ty = ty)

theorem isEmpty_false_of_ne {α} {l : List α} (h : l ≠ []) : l.isEmpty = false := by
  cases l <;> simp_all

theorem hasCvalL_false_mem : ∀ {fs : List Fld}, hasCvalL (fs.map (·.T)) = false → ∀ f ∈ fs, hasCval f.T = false
  | [], _, _, h => by simp at h
  | a :: fs, hc, f, hf => by
    simp only [List.map_cons, hasCvalL, Bool.or_eq_false_iff] at hc
    rcases List.mem_cons.mp hf with rfl | hf
    · exact hc.1
    · exact hasCvalL_false_mem hc.2 f hf

mutual
theorem rt (norm : String → String) : ∀ (g : GoVal) (T : GoTy) (ty : Ty), hasTy g T = true →
    rtSide norm g T = true → impliedG norm true T = .ok ty → RT norm g T ty
  | .int v, T, ty, hT, hs, hb => by
    cases T <;> simp [hasTy] at hT
    rename_i w s
    simp only [impliedG] at hb; cases hb
    refine ⟨⟨.number, .n (Num.ofInt v)⟩, by simp [toCtyG], ?_, fun _ => rfl⟩
    unfold fromCtyP
    simp [GoTy.base, GoTy.isCval, GoTy.depth, int_roundtrip v w s 64 hT, mapRes, wrapPtr]
  | .flt x, T, ty, hT, hs, hb => by
    cases T <;> simp only [hasTy, Bool.false_eq_true] at hT
    rename_i is32
    simp only [impliedG] at hb; cases hb
    refine ⟨⟨.number, .n (fixPrec x)⟩, by simp [toCtyG], ?_, fun _ => rfl⟩
    unfold fromCtyP
    simp [GoTy.base, GoTy.isCval, GoTy.depth, flt_roundtrip x is32 hT, mapRes, wrapPtr]
  | .nan, T, ty, hT, hs, hb => by cases T <;> simp [hasTy] at hT
  | .cvalNil, T, ty, hT, hs, hb => by cases T <;> simp [hasTy] at hT
  | .str s, T, ty, hT, hs, hb => by
    cases T <;> simp [hasTy] at hT
    simp only [impliedG] at hb; cases hb
    simp only [rtSide, beq_iff_eq] at hs
    refine ⟨⟨.string, .s s⟩, by simp [toCtyG, hs], ?_, fun _ => rfl⟩
    unfold fromCtyP
    simp [GoTy.base, GoTy.isCval, GoTy.depth, wrapPtr]
  | .bool b, T, ty, hT, hs, hb => by
    cases T <;> simp [hasTy] at hT
    simp only [impliedG] at hb; cases hb
    refine ⟨⟨.bool, .b b⟩, by simp [toCtyG], ?_, fun _ => rfl⟩
    unfold fromCtyP
    simp [GoTy.base, GoTy.isCval, GoTy.depth, wrapPtr]
  | .bigInt v, T, ty, hT, hs, hb => by
    cases T <;> simp [hasTy] at hT
    simp only [impliedG] at hb; cases hb
    refine ⟨⟨.number, .n (Num.ofInt v (max 64 (Num.bitlen v.natAbs)))⟩, by simp [toCtyG], ?_, fun _ => rfl⟩
    unfold fromCtyP
    simp [GoTy.base, GoTy.isCval, GoTy.depth, bigInt_roundtrip, mapRes, wrapPtr]
  | .bigFloat x, T, ty, hT, hs, hb => by
    cases T <;> simp [hasTy] at hT
    simp only [impliedG] at hb; cases hb
    refine ⟨⟨.number, .n x⟩, by simp [toCtyG], ?_, fun _ => rfl⟩
    unfold fromCtyP
    simp [GoTy.base, GoTy.isCval, GoTy.depth, fromNum, mapRes, wrapPtr]
  | .cval cv, T, ty, hT, hs, hb => by
    cases T <;> simp [hasTy] at hT
    simp only [impliedG] at hb; cases hb
    refine ⟨cv, by simp [toCtyG, passthrough, isDynTy], ?_, fun h => by simp [hasCval] at h⟩
    unfold fromCtyP
    simp [GoTy.base, GoTy.isCval, GoTy.depth, wrapPtr, pushMarks]
  | .nilSlice, T, ty, hT, hs, hb => by
    cases T <;> simp [hasTy] at hT
    rename_i E
    obtain ⟨ety, hbe, rfl⟩ := impliedG_slice_inv hb
    refine ⟨Value.null (.list ety), by simp [toCtyG], ?_, fun _ => rfl⟩
    unfold fromCtyP
    simp [Value.null, GoTy.base, GoTy.isCval, GoTy.depth, wrapPtr, nullViaPtr]
  | .nilMap, T, ty, hT, hs, hb => by
    cases T <;> simp [hasTy] at hT
    rename_i E
    obtain ⟨ety, hbe, rfl⟩ := impliedG_map_inv hb
    refine ⟨Value.null (.map ety), by simp [toCtyG], ?_, fun _ => rfl⟩
    unfold fromCtyP
    simp [Value.null, GoTy.base, GoTy.isCval, GoTy.depth, wrapPtr, nullViaPtr]
  | .slice vs, T, ty, hT, hs, hb => by
    cases T <;> simp only [hasTy, Bool.false_eq_true] at hT
    rename_i E
    obtain ⟨ety, hbe, rfl⟩ := impliedG_slice_inv hb
    simp only [rtSide, Bool.and_eq_true, Bool.not_eq_true'] at hs
    obtain ⟨ws, hl, h5, h6, h7⟩ := rtL norm vs E ety hT hs.2 hbe hs.1
    by_cases hvs : vs = []
    · subst hvs
      refine ⟨⟨.list ety, .seq []⟩, by simp [toCtyG], ?_, fun _ => rfl⟩
      unfold fromCtyP
      simp [GoTy.base, GoTy.isCval, GoTy.depth, wrapPtr, fromCtyL, seqAll, mapRes]
    · have hwf := impliedG_wf norm true E ety hbe
      have heq : Ty.equals ety ety = true := (Ty.equals_iff_eq ety ety hwf hwf).mpr rfl
      have hnd := impliedG_notDyn norm true E ety hbe hs.1
      have hwne : ws ≠ [] := by
        intro e; subst e
        cases vs with
        | nil => exact hvs rfl
        | cons _ _ => simp at hl
      refine ⟨⟨.list ety, .seq (payloads ws)⟩, ?_, ?_, fun _ => rfl⟩
      · simp only [toCtyG, isEmpty_false_of_ne hvs, Bool.false_eq_true, if_false, h5, seqAll_map_ok, listVal,
          isEmpty_false_of_ne hwne, elemTypeOf_dyn ety hnd heq ws hwne h7]
      · unfold fromCtyP
        simp [GoTy.base, GoTy.isCval, GoTy.depth, wrapPtr, h6, seqAll_map_ok, mapRes]
  | .arr vs, T, ty, hT, hs, hb => by
    cases T <;> simp only [hasTy, Bool.false_eq_true] at hT
    rename_i n E
    simp only [Bool.and_eq_true, beq_iff_eq] at hT
    obtain ⟨ety, hbe, rfl⟩ := impliedG_array_inv hb
    simp only [rtSide, Bool.and_eq_true, Bool.not_eq_true'] at hs
    obtain ⟨ws, hl, h5, h6, h7⟩ := rtL norm vs E ety hT.2 hs.2 hbe hs.1
    have hpl : (payloads ws).length = n := by rw [payloads_length, hl, hT.1]
    by_cases hvs : vs = []
    · subst hvs
      have hn : n = 0 := by simpa using hT.1.symm
      subst hn
      refine ⟨⟨.list ety, .seq []⟩, by simp [toCtyG], ?_, fun _ => rfl⟩
      unfold fromCtyP
      simp [GoTy.base, GoTy.isCval, GoTy.depth, wrapPtr, fromCtyL, seqAll, mapRes]
    · have hwf := impliedG_wf norm true E ety hbe
      have heq : Ty.equals ety ety = true := (Ty.equals_iff_eq ety ety hwf hwf).mpr rfl
      have hnd := impliedG_notDyn norm true E ety hbe hs.1
      have hwne : ws ≠ [] := by
        intro e; subst e
        cases vs with
        | nil => exact hvs rfl
        | cons _ _ => simp at hl
      refine ⟨⟨.list ety, .seq (payloads ws)⟩, ?_, ?_, fun _ => rfl⟩
      · simp only [toCtyG, isEmpty_false_of_ne hvs, Bool.false_eq_true, if_false, h5, seqAll_map_ok, listVal,
          isEmpty_false_of_ne hwne, elemTypeOf_dyn ety hnd heq ws hwne h7]
      · unfold fromCtyP
        simp [GoTy.base, GoTy.isCval, GoTy.depth, wrapPtr, h6, seqAll_map_ok, mapRes, hpl]
  | .map ks vs, T, ty, hT, hs, hb => by
    cases T <;> simp only [hasTy, Bool.false_eq_true] at hT
    rename_i E
    simp only [Bool.and_eq_true, beq_iff_eq] at hT
    obtain ⟨ety, hbe, rfl⟩ := impliedG_map_inv hb
    simp only [rtSide, Bool.and_eq_true, Bool.not_eq_true', beq_iff_eq] at hs
    obtain ⟨ws, hl, h5, h6, h7⟩ := rtL norm vs E ety hT.2 hs.2 hbe hs.1.2
    by_cases hvs : vs = []
    · subst hvs
      have hks : ks = [] := by cases ks <;> simp_all
      subst hks
      refine ⟨⟨.map ety, .smap [] []⟩, by simp [toCtyG], ?_, fun _ => rfl⟩
      unfold fromCtyP
      simp [GoTy.base, GoTy.isCval, GoTy.depth, wrapPtr, fromCtyL, seqAll, mapRes]
    · have hwf := impliedG_wf norm true E ety hbe
      have heq : Ty.equals ety ety = true := (Ty.equals_iff_eq ety ety hwf hwf).mpr rfl
      have hnd := impliedG_notDyn norm true E ety hbe hs.1.2
      have hwne : ws ≠ [] := by
        intro e; subst e
        cases vs with
        | nil => exact hvs rfl
        | cons _ _ => simp at hl
      refine ⟨⟨.map ety, .smap ks (payloads ws)⟩, ?_, ?_, fun _ => rfl⟩
      · simp only [toCtyG, isEmpty_false_of_ne hvs, Bool.false_eq_true, if_false, h5, combAll_map_ok, mapVal,
          isEmpty_false_of_ne hwne, elemTypeOf_dyn ety hnd heq ws hwne h7, hs.1.1, bne_self_eq_false]
      · unfold fromCtyP
        simp [GoTy.base, GoTy.isCval, GoTy.depth, wrapPtr, h6, seqAll_map_ok, mapRes]
  | .nilPtr, T, ty, hT, hs, hb => by
    cases T <;> simp only [hasTy, Bool.false_eq_true] at hT
    rename_i E
    simp only [rtSide] at hs
    simp only [impliedG] at hb
    refine ⟨Value.null ty, by simp [toCtyG], ?_, fun _ => rfl⟩
    have hbase : E.base = E := by cases E <;> simp_all [plainPointee, GoTy.base]
    have hdepth : E.depth = 0 := by cases E <;> simp_all [plainPointee, GoTy.depth]
    have hcv : E.isCval = false := by cases E <;> simp_all [plainPointee, GoTy.isCval]
    have hnv : nullViaPtr ty = true := by
      cases E <;> simp only [plainPointee, Bool.false_eq_true] at hs
      all_goals first
        | (simp only [impliedG] at hb; cases hb; rfl)
        | (simp only [impliedG] at hb; split at hb <;> cases hb; rfl)
        | (obtain ⟨ts, _, _, rfl⟩ := impliedG_struct_inv hb; rfl)
    unfold fromCtyP
    simp [Value.null, GoTy.base, GoTy.depth, hbase, hdepth, hcv, hnv, wrapPtr]
  | .ptr v, T, ty, hT, hs, hb => by
    cases T <;> simp only [hasTy, Bool.false_eq_true] at hT
    rename_i E
    simp only [rtSide] at hs
    simp only [impliedG] at hb
    obtain ⟨w, h1, h2, h3⟩ := rt norm v E ty hT hs hb
    refine ⟨w, ?_, fromCtyP_ptr w.v [] w.ty E v h2, fun hc => h3 (by simpa [hasCval] using hc)⟩
    simp only [toCtyG]
    rw [toCtyG_pass norm v E ty hT hb]
    exact h1
  | .struct tags vs, T, ty, hT, hs, hb => by
    cases T <;> simp only [hasTy, Bool.false_eq_true] at hT
    rename_i tags' tys
    simp only [Bool.and_eq_true, beq_iff_eq] at hT
    obtain ⟨⟨rfl, hlen⟩, hTZ⟩ := hT
    simp only [rtSide, Bool.and_eq_true, beq_iff_eq] at hs
    obtain ⟨⟨⟨hall, hdist⟩, hnorm⟩, hsZ⟩ := hs
    obtain ⟨ts, hfields, hne, rfl⟩ := impliedG_struct_inv hb
    rw [taggedNames_allTagged tags hall] at hne ⊢
    obtain ⟨fs, e1, e2, e3, e4, hfs⟩ := rtZ norm vs tags tys ts hall hlen hTZ hsZ hfields
    subst e1 e2 e3 e4
    have hfne : fs ≠ [] := by intro e; subst e; exact hne rfl
    obtain ⟨s1, s2, s3⟩ := struct_rt norm fs hfne hall hdist (fun f hf => (hfs f hf).1) (fun f hf => (hfs f hf).2.1)
    refine ⟨_, s1, s2, fun hc => s3 (fun f hf => (hfs f hf).2.2 ?_)⟩
    simp only [hasCval] at hc
    exact hasCvalL_false_mem hc f hf
theorem rtL (norm : String → String) : ∀ (vs : List GoVal) (E : GoTy) (ety : Ty), hasTyL vs E = true →
    rtSideL norm vs E = true → impliedG norm true E = .ok ety → hasCval E = false →
    ∃ ws : List Value, ws.length = vs.length ∧ toCtyL norm vs ety = ws.map Res.ok ∧
      fromCtyL ety (payloads ws) E = vs.map Res.ok ∧ (∀ w ∈ ws, w.ty = ety)
  | [], _, _, _, _, _, _ => ⟨[], rfl, rfl, rfl, by simp⟩
  | v :: vs, E, ety, hT, hs, hb, hc => by
    simp only [hasTyL, rtSideL, Bool.and_eq_true] at hT hs
    obtain ⟨w, h1, h2, h3⟩ := rt norm v E ety hT.1 hs.1 hb
    obtain ⟨ws, h4, h5, h6, h7⟩ := rtL norm vs E ety hT.2 hs.2 hb hc
    have hw := h3 hc
    refine ⟨w :: ws, by simp [h4], by simp [toCtyL, h1, h5], ?_, ?_⟩
    · simp only [payloads, fromCtyL, h6, List.map_cons]
      rw [← hw, h2]
    · intro x hx
      rcases List.mem_cons.mp hx with rfl | hx
      · exact hw
      · exact h7 x hx
theorem rtZ (norm : String → String) : ∀ (vs : List GoVal) (tags : List String) (tys : List GoTy) (ts : List Ty),
    allTagged tags = true → tags.length = vs.length → hasTyZ vs tys = true → rtSideZ norm vs tys = true →
    impliedFields norm true tags tys = ts.map Res.ok →
    ∃ fs : List Fld, fs.map (·.tag) = tags ∧ fs.map (·.v) = vs ∧ fs.map (·.T) = tys ∧ fs.map (·.t) = ts ∧
      ∀ f ∈ fs, toCtyG norm true f.v f.t = .ok f.w ∧ fromCtyP [] f.w.ty f.w.v f.T = .ok f.v ∧
        (hasCval f.T = false → f.w.ty = f.t)
  | [], tags, tys, ts, _, hl, hT, _, hf => by
    have : tags = [] := by cases tags <;> simp_all
    subst this
    have : tys = [] := by cases tys <;> simp_all [hasTyZ]
    subst this
    have : ts = [] := by cases ts <;> simp_all [impliedFields]
    subst this
    exact ⟨[], rfl, rfl, rfl, rfl, by simp⟩
  | v :: vs, [], _, _, _, hl, _, _, _ => by simp at hl
  | v :: vs, _ :: _, [], _, _, _, hT, _, _ => by simp [hasTyZ] at hT
  | v :: vs, t :: tags, T :: tys, ts, ha, hl, hT, hs, hf => by
    simp only [allTagged, Bool.and_eq_true, bne_iff_ne, ne_eq] at ha
    simp only [hasTyZ, rtSideZ, Bool.and_eq_true] at hT hs
    simp only [impliedFields, ha.1, if_false] at hf
    cases ts with
    | nil => simp at hf
    | cons a ts =>
      simp only [List.map_cons, List.cons.injEq] at hf
      obtain ⟨w, h1, h2, h3⟩ := rt norm v T a hT.1 hs.1 hf.1
      obtain ⟨fs, e1, e2, e3, e4, hfs⟩ := rtZ norm vs tags tys ts ha.2 (by simpa using hl) hT.2 hs.2 hf.2
      refine ⟨⟨t, v, T, a, w⟩ :: fs, by simp [e1], by simp [e2], by simp [e3], by simp [e4], ?_⟩
      intro f hf'
      rcases List.mem_cons.mp hf' with rfl | hf'
      · exact ⟨h1, h2, h3⟩
      · exact hfs f hf'
end

/-! ### `ImpliedType` and the bridge type -/
mutual
theorem implied_bridge (norm : String → String) : ∀ (T : GoTy) (ty : Ty),
    impliedG norm false T = .ok ty → impliedG norm true T = .ok ty
  | .ptr e, ty, h => by simp only [impliedG] at h ⊢; exact implied_bridge norm e ty h
  | .bool, ty, h | .int _ _, ty, h | .float _, ty, h | .str, ty, h | .cval, ty, h => by
    simp only [impliedG] at h ⊢; exact h
  | .bigInt, ty, h | .bigFloat, ty, h | .array _ _, ty, h => by simp [impliedG] at h
  | .slice e, ty, h => by
    obtain ⟨t, ht, rfl⟩ := impliedG_slice_inv h
    simp only [impliedG, implied_bridge norm e t ht]
  | .map e, ty, h => by
    obtain ⟨t, ht, rfl⟩ := impliedG_map_inv h
    simp only [impliedG, implied_bridge norm e t ht]
  | .struct tags tys, ty, h => by
    simp only [impliedG] at h ⊢
    split at h; · cases h
    rename_i h1
    split at h; · cases h
    rename_i h2
    split at h
    · rename_i ts hts
      cases h
      have := impliedFields_bridge norm tags tys ts (combAll_ok_inv _ _ hts)
      simp only [h1, h2, Bool.false_eq_true, if_false, this, combAll_map_ok]
    · cases h
    · cases h
    · cases h
theorem impliedFields_bridge (norm : String → String) : ∀ (tags : List String) (tys : List GoTy) (ts : List Ty),
    impliedFields norm false tags tys = ts.map Res.ok → impliedFields norm true tags tys = ts.map Res.ok
  | [], _, ts, h => by simp only [impliedFields] at h ⊢; exact h
  | _ :: _, [], ts, h => by simp only [impliedFields] at h ⊢; exact h
  | t :: tags, T :: tys, ts, h => by
    simp only [impliedFields] at h ⊢
    split
    · rename_i ht; simp only [ht, if_true] at h; exact impliedFields_bridge norm tags tys ts h
    · rename_i ht
      simp only [ht, if_false] at h
      cases ts with
      | nil => simp at h
      | cons a ts =>
        simp only [List.map_cons, List.cons.injEq] at h ⊢
        exact ⟨implied_bridge norm T a h.1, impliedFields_bridge norm tags tys ts h.2⟩
end

end Gocty
end CtyModel
