/- The round trip `FromCtyValue(ToCtyValue(g, bridge type))`, by induction on the Go value. -/
import CtyModel.Lemmas.GoctyStruct
import CtyModel.Lemmas.d18Cval
namespace CtyModel
namespace Gocty
open Ty

/-! ### the round trip, by induction on the Go value -/

/-- the round trip of one Go value through the bridge type of its Go type -/
def RT (norm : String → String) (g : GoVal) (T : GoTy) (ty : Ty) : Prop :=
  ∃ v : Value, toCtyG norm true g ty = .ok v ∧ (∀ S, fromCtyP S [] v.ty v.v T = .ok g) ∧
    (hasCval T = false → v.ty = ty) ∧ «matches» ty v.ty = true

theorem isEmpty_false_of_ne {α} {l : List α} (h : l ≠ []) : l.isEmpty = false := by
  cases l <;> simp_all

theorem hasCvalL_false_mem : ∀ {fs : List Fld}, hasCvalL (fs.map (·.T)) = false → ∀ f ∈ fs, hasCval f.T = false
  | [], _, _, h => by simp at h
  | a :: fs, hc, f, hf => by
    simp only [List.map_cons, hasCvalL, Bool.or_eq_false_iff] at hc
    rcases List.mem_cons.mp hf with rfl | hf
    · exact hc.1
    · exact hasCvalL_false_mem hc.2 f hf

mutual
theorem rt (norm : String → String) : ∀ (g : GoVal) (T : GoTy) (ty : Ty), hasTy g T = true →
    rtSide norm g T = true → impliedG norm true T = .ok ty → RT norm g T ty
  | .int v, T, ty, hT, hs, hb => by
    cases T <;> simp [hasTy] at hT
    rename_i w s
    simp only [impliedG] at hb; cases hb
    refine ⟨⟨.number, .n (Num.ofInt v)⟩, by simp [toCtyG], ?_, fun _ => rfl, matches_refl _⟩
    intro S
    unfold fromCtyP
    simp [GoTy.base, GoTy.isCval, GoTy.depth, int_roundtrip v w s 64 hT, mapRes, wrapPtr]
  | .flt x, T, ty, hT, hs, hb => by
    cases T <;> simp only [hasTy, Bool.false_eq_true] at hT
    rename_i is32
    simp only [impliedG] at hb; cases hb
    refine ⟨⟨.number, .n (fixPrec x)⟩, by simp [toCtyG], ?_, fun _ => rfl, matches_refl _⟩
    intro S
    unfold fromCtyP
    simp [GoTy.base, GoTy.isCval, GoTy.depth, flt_roundtrip x is32 hT, mapRes, wrapPtr]
  | .nan, T, ty, hT, hs, hb => by cases T <;> simp [hasTy] at hT
  | .cvalNil, T, ty, hT, hs, hb => by simp [rtSide] at hs
  | .str s, T, ty, hT, hs, hb => by
    cases T <;> simp [hasTy] at hT
    simp only [impliedG] at hb; cases hb
    simp only [rtSide, beq_iff_eq] at hs
    refine ⟨⟨.string, .s s⟩, by simp [toCtyG, hs], ?_, fun _ => rfl, matches_refl _⟩
    intro S
    unfold fromCtyP
    simp [GoTy.base, GoTy.isCval, GoTy.depth, wrapPtr]
  | .bool b, T, ty, hT, hs, hb => by
    cases T <;> simp [hasTy] at hT
    simp only [impliedG] at hb; cases hb
    refine ⟨⟨.bool, .b b⟩, by simp [toCtyG], ?_, fun _ => rfl, matches_refl _⟩
    intro S
    unfold fromCtyP
    simp [GoTy.base, GoTy.isCval, GoTy.depth, wrapPtr]
  | .bigInt v, T, ty, hT, hs, hb => by
    cases T <;> simp [hasTy] at hT
    simp only [impliedG] at hb; cases hb
    refine ⟨⟨.number, .n (Num.ofInt v (max 64 (Num.bitlen v.natAbs)))⟩, by simp [toCtyG], ?_, fun _ => rfl, matches_refl _⟩
    intro S
    unfold fromCtyP
    simp [GoTy.base, GoTy.isCval, GoTy.depth, bigInt_roundtrip, mapRes, wrapPtr]
  | .bigFloat x, T, ty, hT, hs, hb => by
    cases T <;> simp [hasTy] at hT
    simp only [impliedG] at hb; cases hb
    refine ⟨⟨.number, .n x⟩, by simp [toCtyG], ?_, fun _ => rfl, matches_refl _⟩
    intro S
    unfold fromCtyP
    simp [GoTy.base, GoTy.isCval, GoTy.depth, fromNum, mapRes, wrapPtr]
  | .cval cv, T, ty, hT, hs, hb => by
    cases T <;> simp [hasTy] at hT
    simp only [impliedG] at hb; cases hb
    refine ⟨cv, by simp [toCtyG, passthrough, isDynTy], ?_, fun h => by simp [hasCval] at h, rfl⟩
    intro S
    unfold fromCtyP
    simp [GoTy.base, GoTy.isCval, GoTy.depth, wrapPtr, pushMarks]
  | .nilSlice, T, ty, hT, hs, hb => by
    cases T <;> simp [hasTy] at hT
    rename_i E
    obtain ⟨ety, hbe, rfl⟩ := impliedG_slice_inv hb
    refine ⟨Value.null (.list ety), by simp [toCtyG], ?_, fun _ => rfl, matches_refl _⟩
    intro S
    unfold fromCtyP
    simp [Value.null, GoTy.base, GoTy.isCval, GoTy.depth, wrapPtr, nullViaPtr]
  | .nilMap, T, ty, hT, hs, hb => by
    cases T <;> simp [hasTy] at hT
    rename_i E
    obtain ⟨ety, hbe, rfl⟩ := impliedG_map_inv hb
    refine ⟨Value.null (.map ety), by simp [toCtyG], ?_, fun _ => rfl, matches_refl _⟩
    intro S
    unfold fromCtyP
    simp [Value.null, GoTy.base, GoTy.isCval, GoTy.depth, wrapPtr, nullViaPtr]
  | .slice vs, T, ty, hT, hs, hb => by
    cases T <;> simp only [hasTy, Bool.false_eq_true] at hT
    rename_i E
    obtain ⟨ety, hbe, rfl⟩ := impliedG_slice_inv hb
    simp only [rtSide, Bool.and_eq_true, Bool.or_eq_true, Bool.not_eq_true'] at hs
    rcases hs with ⟨hcv | hu, hsL⟩
    · have hs : hasCval E = false ∧ rtSideL norm vs E = true := ⟨hcv, hsL⟩
      obtain ⟨ws, hl, h5, h6, h7⟩ := rtL norm vs E ety hT hs.2 hbe hs.1
      by_cases hvs : vs = []
      · subst hvs
        refine ⟨⟨.list ety, .seq []⟩, by simp [toCtyG], ?_, fun _ => rfl, matches_refl _⟩
        intro S
        unfold fromCtyP
        simp [GoTy.base, GoTy.isCval, GoTy.depth, wrapPtr, fromCtyL, seqAll, mapRes]
      · have hwf := impliedG_wf norm true E ety hbe
        have heq : Ty.equals ety ety = true := (Ty.equals_iff_eq ety ety hwf hwf).mpr rfl
        have hnd := impliedG_notDyn norm true E ety hbe hs.1
        have hwne : ws ≠ [] := by
          intro e; subst e
          cases vs with
          | nil => exact hvs rfl
          | cons _ _ => simp at hl
        refine ⟨⟨.list ety, .seq (payloads ws)⟩, ?_, ?_, fun _ => rfl, matches_refl _⟩
        · simp only [toCtyG, isEmpty_false_of_ne hvs, Bool.false_eq_true, if_false, h5, seqAll_map_ok, listVal,
            isEmpty_false_of_ne hwne, canListVal, elemTypeOf_dyn ety hnd heq ws hwne h7, Bool.not_true, Bool.false_eq_true]
        · intro S
          unfold fromCtyP
          simp [GoTy.base, GoTy.isCval, GoTy.depth, wrapPtr, h6 S, seqAll_map_ok, mapRes]
    · -- d18: the element type is `cty.Value` itself, the members all of one type
      obtain ⟨rfl, hvs | ⟨ws, t, rfl, hne, hty, hd, heq⟩⟩ := uniformCv_inv hu
      · subst hvs
        simp only [impliedG] at hbe; cases hbe
        refine ⟨⟨.list .dyn, .seq []⟩, by simp [toCtyG], ?_, fun h => by simp [hasCval] at h, matches_refl _⟩
        intro S
        unfold fromCtyP
        simp [GoTy.base, GoTy.isCval, GoTy.depth, wrapPtr, fromCtyL, seqAll, mapRes]
      · simp only [impliedG] at hbe; cases hbe
        obtain ⟨h1, h2⟩ := rt_cval_slice norm ws t hne hty hd heq
        exact ⟨⟨.list t, .seq (payloads ws)⟩, h1, h2, fun h => by simp [hasCval] at h, by simp [«matches»]⟩
  | .arr vs, T, ty, hT, hs, hb => by
    cases T <;> simp only [hasTy, Bool.false_eq_true] at hT
    rename_i n E
    simp only [Bool.and_eq_true, beq_iff_eq] at hT
    obtain ⟨ety, hbe, rfl⟩ := impliedG_array_inv hb
    simp only [rtSide, Bool.and_eq_true, Bool.or_eq_true, Bool.not_eq_true'] at hs
    rcases hs with ⟨hcv | hu, hsL⟩
    · have hs : hasCval E = false ∧ rtSideL norm vs E = true := ⟨hcv, hsL⟩
      obtain ⟨ws, hl, h5, h6, h7⟩ := rtL norm vs E ety hT.2 hs.2 hbe hs.1
      have hpl : (payloads ws).length = n := by rw [payloads_length, hl, hT.1]
      by_cases hvs : vs = []
      · subst hvs
        have hn : n = 0 := by simpa using hT.1.symm
        subst hn
        refine ⟨⟨.list ety, .seq []⟩, by simp [toCtyG], ?_, fun _ => rfl, matches_refl _⟩
        intro S
        unfold fromCtyP
        simp [GoTy.base, GoTy.isCval, GoTy.depth, wrapPtr, fromCtyL, seqAll, mapRes]
      · have hwf := impliedG_wf norm true E ety hbe
        have heq : Ty.equals ety ety = true := (Ty.equals_iff_eq ety ety hwf hwf).mpr rfl
        have hnd := impliedG_notDyn norm true E ety hbe hs.1
        have hwne : ws ≠ [] := by
          intro e; subst e
          cases vs with
          | nil => exact hvs rfl
          | cons _ _ => simp at hl
        refine ⟨⟨.list ety, .seq (payloads ws)⟩, ?_, ?_, fun _ => rfl, matches_refl _⟩
        · simp only [toCtyG, isEmpty_false_of_ne hvs, Bool.false_eq_true, if_false, h5, seqAll_map_ok, listVal,
            isEmpty_false_of_ne hwne, canListVal, elemTypeOf_dyn ety hnd heq ws hwne h7, Bool.not_true, Bool.false_eq_true]
        · intro S
          unfold fromCtyP
          simp [GoTy.base, GoTy.isCval, GoTy.depth, wrapPtr, h6 S, seqAll_map_ok, mapRes, hpl]
    · obtain ⟨rfl, hvs | ⟨ws, t, rfl, hne, hty, hd, heq⟩⟩ := uniformCv_inv hu
      · subst hvs
        have hn : n = 0 := by simpa using hT.1.symm
        subst hn
        simp only [impliedG] at hbe; cases hbe
        refine ⟨⟨.list .dyn, .seq []⟩, by simp [toCtyG], ?_, fun h => by simp [hasCval] at h, matches_refl _⟩
        intro S
        unfold fromCtyP
        simp [GoTy.base, GoTy.isCval, GoTy.depth, wrapPtr, fromCtyL, seqAll, mapRes]
      · simp only [impliedG] at hbe; cases hbe
        have hn : n = ws.length := by simpa using hT.1.symm
        subst hn
        obtain ⟨h1, h2⟩ := rt_cval_array norm ws t hne hty hd heq
        exact ⟨⟨.list t, .seq (payloads ws)⟩, h1, h2, fun h => by simp [hasCval] at h, by simp [«matches»]⟩
  | .map ks vs, T, ty, hT, hs, hb => by
    cases T <;> simp only [hasTy, Bool.false_eq_true] at hT
    rename_i E
    simp only [Bool.and_eq_true, beq_iff_eq] at hT
    obtain ⟨ety, hbe, rfl⟩ := impliedG_map_inv hb
    simp only [rtSide, Bool.and_eq_true, Bool.or_eq_true, Bool.not_eq_true', beq_iff_eq] at hs
    rcases hs with ⟨⟨hk, hcv | hu⟩, hsL⟩
    · have hs : (List.map norm ks = ks ∧ hasCval E = false) ∧ rtSideL norm vs E = true := ⟨⟨hk, hcv⟩, hsL⟩
      obtain ⟨ws, hl, h5, h6, h7⟩ := rtL norm vs E ety hT.2 hs.2 hbe hs.1.2
      by_cases hvs : vs = []
      · subst hvs
        have hks : ks = [] := by cases ks <;> simp_all
        subst hks
        refine ⟨⟨.map ety, .smap [] []⟩, by simp [toCtyG], ?_, fun _ => rfl, matches_refl _⟩
        intro S
        unfold fromCtyP
        simp [GoTy.base, GoTy.isCval, GoTy.depth, wrapPtr, fromCtyL, seqAll, mapRes]
      · have hwf := impliedG_wf norm true E ety hbe
        have heq : Ty.equals ety ety = true := (Ty.equals_iff_eq ety ety hwf hwf).mpr rfl
        have hnd := impliedG_notDyn norm true E ety hbe hs.1.2
        have hwne : ws ≠ [] := by
          intro e; subst e
          cases vs with
          | nil => exact hvs rfl
          | cons _ _ => simp at hl
        refine ⟨⟨.map ety, .smap ks (payloads ws)⟩, ?_, ?_, fun _ => rfl, matches_refl _⟩
        · simp only [toCtyG, isEmpty_false_of_ne hvs, Bool.false_eq_true, if_false, h5, combAll_map_ok, mapVal,
            isEmpty_false_of_ne hwne, canListVal, elemTypeOf_dyn ety hnd heq ws hwne h7, hs.1.1, bne_self_eq_false, Bool.not_true, Bool.false_eq_true]
        · intro S
          unfold fromCtyP
          simp [GoTy.base, GoTy.isCval, GoTy.depth, wrapPtr, h6 S, seqAll_map_ok, mapRes]
    · obtain ⟨rfl, hvs | ⟨ws, t, rfl, hne, hty, hd, heq⟩⟩ := uniformCv_inv hu
      · subst hvs
        have hks : ks = [] := by cases ks <;> simp_all
        subst hks
        simp only [impliedG] at hbe; cases hbe
        refine ⟨⟨.map .dyn, .smap [] []⟩, by simp [toCtyG], ?_, fun h => by simp [hasCval] at h, matches_refl _⟩
        intro S
        unfold fromCtyP
        simp [GoTy.base, GoTy.isCval, GoTy.depth, wrapPtr, fromCtyL, seqAll, mapRes]
      · simp only [impliedG] at hbe; cases hbe
        obtain ⟨h1, h2⟩ := rt_cval_map norm ks ws t hne hk hty hd heq
        exact ⟨⟨.map t, .smap ks (payloads ws)⟩, h1, h2, fun h => by simp [hasCval] at h, by simp [«matches»]⟩
  | .nilPtr, T, ty, hT, hs, hb => by
    cases T <;> simp only [hasTy, Bool.false_eq_true] at hT
    rename_i E
    simp only [rtSide] at hs
    simp only [impliedG] at hb
    refine ⟨Value.null ty, by simp [toCtyG], ?_, fun _ => rfl, matches_refl _⟩
    have hbase : E.base = E := by cases E <;> simp_all [plainPointee, GoTy.base]
    have hdepth : E.depth = 0 := by cases E <;> simp_all [plainPointee, GoTy.depth]
    have hcv : E.isCval = false := by cases E <;> simp_all [plainPointee, GoTy.isCval]
    have hnv : nullViaPtr ty = true := by
      cases E <;> simp only [plainPointee, Bool.false_eq_true] at hs
      all_goals first
        | (simp only [impliedG] at hb; cases hb; rfl)
        | (simp only [impliedG] at hb; split at hb <;> cases hb; rfl)
        | (obtain ⟨_, _, _, rfl⟩ := impliedG_struct_obj hb; rfl)
    intro S
    unfold fromCtyP
    simp [Value.null, GoTy.base, GoTy.depth, hbase, hdepth, hcv, hnv, wrapPtr]
  | .ptr v, T, ty, hT, hs, hb => by
    cases T <;> simp only [hasTy, Bool.false_eq_true] at hT
    rename_i E
    simp only [rtSide] at hs
    simp only [impliedG] at hb
    obtain ⟨w, h1, h2, h3, h4⟩ := rt norm v E ty hT hs hb
    refine ⟨w, ?_, fun S => fromCtyP_ptr w.v S [] w.ty E v (h2 S), fun hc => h3 (by simpa [hasCval] using hc), h4⟩
    simp only [toCtyG]
    rw [toCtyG_pass norm v E ty hT hb]
    exact h1
  | .struct tags vs, T, ty, hT, hs, hb => by
    cases T <;> simp only [hasTy, Bool.false_eq_true] at hT
    rename_i tags' tys
    simp only [Bool.and_eq_true, beq_iff_eq] at hT
    obtain ⟨⟨rfl, hlen⟩, hTZ⟩ := hT
    simp only [rtSide, Bool.and_eq_true, beq_iff_eq] at hs
    obtain ⟨⟨hdist, hnorm⟩, hsZ⟩ := hs
    obtain ⟨ts, hfields, hne, rfl⟩ := impliedG_struct_inv hdist hnorm hb
    obtain ⟨fs, e1, e2, e3, e4, hz, hfs⟩ := rtZ norm vs tags tys ts hlen hTZ hsZ hfields
    subst e1 e2 e3 e4
    have hfne : tg fs ≠ [] := by
      intro e; apply hne; rw [taggedNames_flds, e]; rfl
    obtain ⟨s1, s2, s3, s4⟩ := struct_rt norm fs hfne hdist hz (fun f hf hn => (hfs f hf hn).1)
      (fun f hf hn => (hfs f hf hn).2.1)
    refine ⟨_, s1, s2, fun hc => s3 (fun f hf hn => (hfs f hf hn).2.2.1 ?_), s4 (fun f hf hn => (hfs f hf hn).2.2.2)⟩
    simp only [hasCval] at hc
    exact hasCvalL_false_mem hc f hf
theorem rtL (norm : String → String) : ∀ (vs : List GoVal) (E : GoTy) (ety : Ty), hasTyL vs E = true →
    rtSideL norm vs E = true → impliedG norm true E = .ok ety → hasCval E = false →
    ∃ ws : List Value, ws.length = vs.length ∧ toCtyL norm vs ety = ws.map Res.ok ∧
      (∀ S, fromCtyL S ety (payloads ws) E = vs.map Res.ok) ∧ (∀ w ∈ ws, w.ty = ety)
  | [], _, _, _, _, _, _ => ⟨[], rfl, rfl, fun _ => rfl, by simp⟩
  | v :: vs, E, ety, hT, hs, hb, hc => by
    simp only [hasTyL, rtSideL, Bool.and_eq_true] at hT hs
    obtain ⟨w, h1, h2, h3, _⟩ := rt norm v E ety hT.1 hs.1 hb
    obtain ⟨ws, h4, h5, h6, h7⟩ := rtL norm vs E ety hT.2 hs.2 hb hc
    have hw := h3 hc
    refine ⟨w :: ws, by simp [h4], by simp [toCtyL, h1, h5], ?_, ?_⟩
    · intro S
      simp only [payloads, fromCtyL, h6 S, List.map_cons]
      rw [← hw, h2 S]
    · intro x hx
      rcases List.mem_cons.mp hx with rfl | hx
      · exact hw
      · exact h7 x hx
theorem rtZ (norm : String → String) : ∀ (vs : List GoVal) (tags : List String) (tys : List GoTy) (ts : List Ty),
    tags.length = vs.length → hasTyZ vs tys = true → rtSideZ norm tags vs tys = true →
    impliedFields norm true tags tys = ts.map Res.ok →
    ∃ fs : List Fld, fs.map (·.tag) = tags ∧ fs.map (·.v) = vs ∧ fs.map (·.T) = tys ∧ (tg fs).map (·.t) = ts ∧
      (∀ f ∈ fs, f.tag = "" → f.v = zeroVal f.T) ∧
      ∀ f ∈ fs, f.tag ≠ "" → toCtyG norm true f.v f.t = .ok f.w ∧ (∀ S, fromCtyP S [] f.w.ty f.w.v f.T = .ok f.v) ∧
        (hasCval f.T = false → f.w.ty = f.t) ∧ «matches» f.t f.w.ty = true
  | [], tags, tys, ts, hl, hT, _, hf => by
    have : tags = [] := by cases tags <;> simp_all
    subst this
    have : tys = [] := by cases tys <;> simp_all [hasTyZ]
    subst this
    have : ts = [] := by cases ts <;> simp_all [impliedFields]
    subst this
    exact ⟨[], rfl, rfl, rfl, rfl, by simp, by simp⟩
  | v :: vs, [], _, _, hl, _, _, _ => by simp at hl
  | v :: vs, _ :: _, [], _, _, hT, _, _ => by simp [hasTyZ] at hT
  | v :: vs, t :: tags, T :: tys, ts, hl, hT, hs, hf => by
    simp only [hasTyZ, rtSideZ, Bool.and_eq_true] at hT hs
    simp only [impliedFields] at hf
    by_cases ht : t = ""
    · simp only [ht, if_true] at hf hs
      obtain ⟨fs, e1, e2, e3, e4, hz, hfs⟩ := rtZ norm vs tags tys ts (by simpa using hl) hT.2 hs.2 hf
      refine ⟨⟨"", v, T, .dyn, default⟩ :: fs, by simp [e1, ht], by simp [e2], by simp [e3], ?_, ?_, ?_⟩
      · simpa [tg] using e4
      · intro f hf' h0
        rcases List.mem_cons.mp hf' with rfl | hf'
        · exact isZero_eq v T hs.1
        · exact hz f hf' h0
      · intro f hf' hn
        rcases List.mem_cons.mp hf' with rfl | hf'
        · exact absurd rfl hn
        · exact hfs f hf' hn
    · simp only [ht, if_false] at hf hs
      cases ts with
      | nil => simp at hf
      | cons a ts =>
        simp only [List.map_cons, List.cons.injEq] at hf
        obtain ⟨w, h1, h2, h3, h4⟩ := rt norm v T a hT.1 hs.1 hf.1
        obtain ⟨fs, e1, e2, e3, e4, hz, hfs⟩ := rtZ norm vs tags tys ts (by simpa using hl) hT.2 hs.2 hf.2
        refine ⟨⟨t, v, T, a, w⟩ :: fs, by simp [e1], by simp [e2], by simp [e3], ?_, ?_, ?_⟩
        · simp only [tg, List.filter_cons, bne_iff_ne, ne_eq, ht, not_false_eq_true, if_true, List.map_cons,
            List.cons.injEq, true_and]
          exact e4
        · intro f hf' h0
          rcases List.mem_cons.mp hf' with rfl | hf'
          · exact absurd h0 ht
          · exact hz f hf' h0
        · intro f hf' hn
          rcases List.mem_cons.mp hf' with rfl | hf'
          · exact ⟨h1, h2, h3, h4⟩
          · exact hfs f hf' hn
end

/-! ### `ImpliedType` never panics -/
mutual
theorem impliedG_noPanic (norm : String → String) (ext : Bool) : ∀ (T : GoTy), (impliedG norm ext T).isPanic = false
  | .ptr e => by simp only [impliedG]; exact impliedG_noPanic norm ext e
  | .bool | .int _ _ | .float _ | .str | .cval => by simp [impliedG, Res.isPanic]
  | .bigInt | .bigFloat => by simp only [impliedG]; split <;> rfl
  | .slice e => by
    have := impliedG_noPanic norm ext e
    simp only [impliedG]
    cases h : impliedG norm ext e <;> simp_all [Res.isPanic]
  | .map e => by
    have := impliedG_noPanic norm ext e
    simp only [impliedG]
    cases h : impliedG norm ext e <;> simp_all [Res.isPanic]
  | .array _ e => by
    have := impliedG_noPanic norm ext e
    simp only [impliedG]
    split
    · cases h : impliedG norm ext e <;> simp_all [Res.isPanic]
    · rfl
  | .struct tags tys => by
    have := combAll_isPanic _ (impliedFields_noPanic norm ext (effTags tags) tys)
    simp only [impliedG]
    unfold impliedStruct
    simp only []
    split; · rfl
    split; · rfl
    cases h : combAll (impliedFields norm ext (effTags tags) tys) <;> simp_all [Res.isPanic]
theorem impliedFields_noPanic (norm : String → String) (ext : Bool) : ∀ (tags : List String) (tys : List GoTy),
    anyPanic (impliedFields norm ext tags tys) = false
  | [], _ => by simp [impliedFields, anyPanic]
  | _ :: _, [] => by simp [impliedFields, anyPanic]
  | t :: tags, T :: tys => by
    simp only [impliedFields]
    split
    · exact impliedFields_noPanic norm ext tags tys
    · rw [anyPanic_cons, impliedG_noPanic norm ext T, impliedFields_noPanic norm ext tags tys]; rfl
end

end Gocty
end CtyModel
