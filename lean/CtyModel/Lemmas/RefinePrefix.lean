/-
C05, string-prefix half: `ctystrings.SafeKnownPrefix` over oracle columns.

Unicode normalisation (x/text/unicode/norm) and grapheme segmentation
(go-textseg) are NOT modelled.  Their answers are parameters (`Ext`), and the one
law the continuation-safety proof needs is a FIELD of that structure — a
hypothesis visible in every theorem that uses it, probed against the real
libraries by the harness on every run (`ctx.Probe "lastBoundary_stable"`); it is
not an axiom.
-/
import CtyModel.Refine
namespace CtyModel
namespace Refine

/-- the external libraries, as far as `SafeKnownPrefix` consults them -/
structure Ext where
  /-- `norm.NFC.Bytes` -/
  nfc : List UInt8 → List UInt8
  /-- `norm.NFC.LastBoundary` of an already normalised string (−1: none) -/
  lastBoundary : List UInt8 → Int
  /-- the successive advances of `textseg.ScanGraphemeClusters(_, false)` -/
  advances : List UInt8 → List Nat
  /-- streaming law of normalisation (UAX #15 §13.1): what precedes the last
  normalisation boundary of NFC(p) is unaffected by anything appended to p -/
  lastBoundary_stable : ∀ p c, 0 ≤ lastBoundary (nfc p) →
    (nfc p).take (lastBoundary (nfc p)).toNat <+: nfc (p ++ c)

/-- `SafeKnownPrefix(p)` with the libraries' answers plugged in -/
def Ext.safe (E : Ext) (delims : List UInt8) (p : List UInt8) : List UInt8 :=
  safeKnownPrefix delims (E.nfc p) (E.lastBoundary (E.nfc p)) (E.advances (E.nfc p))

/-- structural: the result is cut off the normalised prefix — for any delimiter
table and any answers of the libraries -/
theorem safeKnownPrefix_prefix (delims nfc : List UInt8) (lb : Int) (advs : List Nat) :
    safeKnownPrefix delims nfc lb advs <+: nfc := by
  unfold safeKnownPrefix
  split <;> exact List.take_prefix _ _

/-- structural: the result never reaches beyond the last normalisation boundary -/
theorem safeKnownPrefix_length_le (delims nfc : List UInt8) (lb : Int) (advs : List Nat) (h : 0 ≤ lb) :
    (safeKnownPrefix delims nfc lb advs).length ≤ lb.toNat := by
  unfold safeKnownPrefix
  split
  · rw [List.length_take]; omega
  · rename_i hc
    have : lb = nfc.length := by
      by_cases h1 : lb = -1
      · omega
      · by_cases h2 : lb = nfc.length
        · exact h2
        · exact absurd ⟨h1, h2⟩ hc
    simp only [List.length_take]
    omega

theorem safeKnownPrefix_prefix_take (delims nfc : List UInt8) (lb : Int) (advs : List Nat) (h : 0 ≤ lb) :
    safeKnownPrefix delims nfc lb advs <+: nfc.take lb.toNat := by
  refine List.prefix_of_prefix_length_le (safeKnownPrefix_prefix _ _ _ _) (List.take_prefix _ _) ?_
  have h1 := safeKnownPrefix_length_le delims nfc lb advs h
  have h2 := (safeKnownPrefix_prefix delims nfc lb advs).length_le
  rw [List.length_take]
  omega

/-- continuation safety, from the streaming law -/
theorem Ext.safe_continuation (E : Ext) (delims p c : List UInt8) (h : 0 ≤ E.lastBoundary (E.nfc p)) :
    E.safe delims p <+: E.nfc (p ++ c) :=
  (safeKnownPrefix_prefix_take _ _ _ _ h).trans (E.lastBoundary_stable p c h)

/-- an instance of `Ext` (so the law is satisfiable): text in which nothing
combines — normalisation is the identity and every position is a boundary -/
def Ext.inert : Ext where
  nfc := id
  lastBoundary := fun p => p.length
  advances := fun p => p.map fun _ => 1
  lastBoundary_stable := by
    intro p c _
    simp only [id, Int.toNat_natCast, List.take_length]
    exact List.prefix_append p c

end Refine
end CtyModel
