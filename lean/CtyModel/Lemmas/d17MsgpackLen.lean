/-
C17 (MessagePack half) — /repo bb6ac26 is complete: an unknown-value extension item decoded against
a LIST type never yields a list whose length comes from the input.  The loop variables
`notNull, minLen, maxLen` of `unmarshalUnknownValue` mirror the refinement builder's record
(`LenInv`), so the test after the loop refuses exactly the records that `NewValue` would turn into
`make([]Value, n)` unknown elements.
-/
import CtyModel.Lemmas.d17MsgpackWF
namespace CtyModel
namespace D17
open Msgpack Refine Ty

/-- the loop variables mirror the builder's record (receiver: the unrefined unknown list) -/
def LenInv (e : Ty) (b : Builder) (st : LenSt) : Prop :=
  b.orig = Value.unknown (.list e) ∧
  ∃ nl lo hi, b.wip = .coll nl lo hi ∧ lo = st.minLen ∧ hi = st.maxLen ∧ (nl = .f ↔ st.notNull = true)

section
variable [O : EqOracle] (E : Ext)

theorem step_nullness_inv {e : Ty} {b b' : Builder} {st : LenSt} (isNull : Bool) (hi : LenInv e b st)
    (h : Refine.step b (if isNull then .null else .notNull) = .ok b') :
    LenInv e b' (if isNull then st else { st with notNull := true }) := by
  obtain ⟨ho, nl, lo, hi', hw, h1, h2, h3⟩ := hi
  have hd : b.isDyn = false := by simp [Builder.isDyn, ho, isDynVal, Value.unknown]
  have hk : b.orig.isKnown = false := by rw [ho]; rfl
  cases isNull with
  | true =>
    cases nl <;> simp [Refine.step, hd, hw, step1, stepNull, hk, Rfn.nullness, setNull] at h <;> subst h
    all_goals
      refine ⟨ho, .t, lo, hi', rfl, h1, h2, ?_⟩
      constructor
      · intro h0; cases h0
      · intro h0; have := h3.mpr h0; cases this
  | false =>
    cases nl <;> simp [Refine.step, hd, hw, step1, stepNotNull, hk, Rfn.nullness, setNull] at h <;> subst h
    all_goals exact ⟨ho, .f, lo, hi', rfl, h1, h2, by simp⟩

theorem step_len_inv {e : Ty} {b b' : Builder} {st : LenSt} (isMin : Bool) (n : Int) (hi : LenInv e b st)
    (h : Refine.step b (if isMin then .lenLower n else .lenUpper n) = .ok b') :
    LenInv e b' (st.bound isMin n) := by
  obtain ⟨ho, nl, lo, hi', hw, h1, h2, h3⟩ := hi
  have hd : b.isDyn = false := by simp [Builder.isDyn, ho, isDynVal, Value.unknown]
  have hk : b.orig.isKnown = false := by rw [ho]; rfl
  cases isMin with
  | true =>
    simp [Refine.step, hd, hw, step1, stepLenLower, hk] at h
    simp only [LenSt.bound, if_true]
    split at h
    · rename_i hc
      simp at h; subst h
      have : ¬ n > st.minLen := by omega
      simp only [this, if_false]
      exact ⟨ho, nl, lo, hi', hw, h1, h2, h3⟩
    · rename_i hc
      split at h
      · simp at h
      · simp at h; subst h
        refine ⟨ho, nl, n, hi', rfl, ?_, ?_, ?_⟩
        · split <;> first | rfl | omega | (simp; omega)
        · split <;> simp [h2]
        · split <;> simp [h3]
  | false =>
    simp [Refine.step, hd, hw, step1, stepLenUpper, hk] at h
    simp only [LenSt.bound, Bool.false_eq_true, if_false]
    split at h
    · rename_i hc
      simp at h; subst h
      have : ¬ n < st.maxLen := by omega
      simp only [this, if_false]
      exact ⟨ho, nl, lo, hi', hw, h1, h2, h3⟩
    · rename_i hc
      split at h
      · simp at h
      · simp at h; subst h
        refine ⟨ho, nl, lo, n, rfl, ?_, ?_, ?_⟩
        · split <;> simp [h1]
        · split <;> first | rfl | omega | (simp; omega)
        · split <;> simp [h3]

theorem rfnLoop_len_inv (e : Ty) : ∀ (n : Nat) (stream : List Item) (b : Builder) (st : LenSt) (b' : Builder) (st' : LenSt),
    LenInv e b st → rfnLoop E (.list e) n stream b st = .ok (b', st') → LenInv e b' st'
  | 0, stream, b, st, b', st', hinv, h => by
    cases stream <;> (simp only [D17.rfnLoop] at h; cases h; exact hinv)
  | _ + 1, [], _, _, _, _, _, h => by simp [D17.rfnLoop] at h
  | n + 1, k :: rest, b, st, b', st', hinv, h => by
    rw [D17.rfnLoop.eq_def] at h
    simp only at h
    split at h
    · cases h
    · rename_i key _
      split at h
      · split at h
        · cases h
        · split at h
          · cases h
          · rename_i isNull _
            split at h
            · rename_i b'' heq
              exact rfnLoop_len_inv e n _ _ _ _ _ (step_nullness_inv isNull hinv heq) h
            all_goals cases h
      · split at h
        · simp [Ty.isString] at h
        · split at h
          · simp only [isCollection, Bool.not_true, Bool.false_eq_true, if_false] at h
            split at h
            · cases h
            · split at h
              · cases h
              · rename_i bound _
                split at h
                · rename_i b'' heq
                  exact rfnLoop_len_inv e n _ _ _ _ _
                    (step_len_inv (decide (key = keyLengthMin)) bound hinv (by simpa using heq)) h
                all_goals cases h
          · split at h
            · simp [Ty.isNumber] at h
            · split at h
              · cases h
              · exact rfnLoop_len_inv e n _ _ _ _ _ hinv h

/-- `NewValue` on a record of an unknown list that the test after the loop has let through -/
theorem newValue_list_shape {e : Ty} {b : Builder} {st : LenSt} {w : Value} (hinv : LenInv e b st) (hm : b.marks = [])
    (hc : (st.notNull && isListTy (.list e) && st.minLen == st.maxLen && decide (st.minLen > 0)) = false)
    (h : newValue b = .ok w) : w.v = .null ∨ (∃ r, w.v = .unk r) ∨ w.v = .seq [] := by
  obtain ⟨ho, nl, lo, hi, hw, h1, h2, h3⟩ := hinv
  have hd : b.isDyn = false := by simp [Builder.isDyn, ho, isDynVal, Value.unknown]
  have hk : b.orig.isKnown = false := by rw [ho]; rfl
  have hk' : (Value.unknown (Ty.list e)).isKnown = false := rfl
  unfold newValue at h
  simp only [ho, hk', hd, hm, hw, Bool.or_self, Bool.false_eq_true, if_false, Rfn.nullness] at h
  cases nl with
  | t => cases h; left; rw [withMarks_nil (by rfl)]; rfl
  | u => cases h; right; left; rw [withMarks_nil (by rfl)]; exact ⟨_, rfl⟩
  | f =>
    have hnn : st.notNull = true := h3.mp rfl
    simp only [hnn, isListTy, Bool.true_and] at hc
    simp only [collapse, Value.unknown] at h
    by_cases heq : lo = hi
    · subst heq
      by_cases h0 : lo = 0
      · subst h0
        simp at h; subst h
        right; right; rw [withMarks_nil (by rfl)]
      · exfalso
        have hpos : ¬ st.minLen > 0 := by simpa [← h1, ← h2] using hc
        by_cases hneg : lo < 0
        · simp [h0, hneg] at h
        · omega
    · simp [heq] at h; subst h
      right; left; rw [withMarks_nil (by rfl)]; exact ⟨_, rfl⟩

/-- an unknown-value extension item decoded against a LIST type is null, unknown or the empty
list: never a list whose length was read from the input -/
theorem ext_list_shape {code : Int} {len : Nat} {hdr : ExtHdr} {stream : List Item} {e : Ty} {v : Value}
    (h : unmarshal E (.ext code len hdr stream) (.list e) = .ok v) :
    v.v = .null ∨ (∃ r, v.v = .unk r) ∨ v.v = .seq [] := by
  have hinit : ∀ b, Refine.init (Value.unknown (.list e)) = .ok b → LenInv e b lenSt0 ∧ b.marks = [] := by
    intro b hi
    obtain ⟨i1, i2, _, _, i5⟩ := init_ok hi
    refine ⟨⟨i1, ?_⟩, i2⟩
    rcases i5 with ⟨r, hr, hne, _⟩ | ⟨_, hfw⟩
    · simp [Value.unknown, Value.unmark, Payload.unmark1] at hr; exact absurd hr.symm hne
    · exact ⟨.u, 0, Refine.maxInt, by rw [hfw]; rfl, rfl, rfl, by simp [lenSt0]⟩
  simp only [D17.unmarshal] at h
  have h := recoverErr_ok h
  repeat' split at h
  all_goals first
    | (cases h; done)
    | (cases h; exact Or.inr (Or.inl ⟨_, rfl⟩))
    | (obtain ⟨b, hi, hn⟩ := bind_ok h
       obtain ⟨i1, i2⟩ := hinit b hi
       exact newValue_list_shape i1 i2 (by simp [lenSt0, Refine.maxInt]) hn)
    | (obtain ⟨b, hi, h2⟩ := bind_ok h
       obtain ⟨r, hlp, h3⟩ := bind_ok h2
       obtain ⟨i1, i2⟩ := hinit b hi
       have hI := rfnLoop_len_inv E e _ _ _ _ r.1 r.2 i1 hlp
       have hB := rfnLoop_base E (.list e) _ _ _ _ r.1 r.2 hlp
       split at h3
       · cases h3
       · rename_i hc
         exact newValue_list_shape hI (hB.1.2.trans i2) (by simpa using hc) h3)

end
end D17
end CtyModel
