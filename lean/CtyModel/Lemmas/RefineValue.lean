/-
C05: the two ends of a refinement — `Value.Refine()` (`init`) and `NewValue`
(`newValue`) — and `Value.Range()`, related to the admitted sets `γV` (of a
value) and `γB` (of a builder); and the assertion reading of calls on a known
receiver.
-/
import CtyModel.Lemmas.RefineReject
namespace CtyModel
namespace Refine
open NumCmp

variable [ExactOracle]

/-! ## marks -/

omit [ExactOracle] in
theorem core_of_unmarked {p : Payload} (h : p.isMarked = false) : core p = p := by
  cases p <;> simp_all [core, Payload.isMarked]

omit [ExactOracle] in
theorem unionMarks_nil (ms : List String) : unionMarks [] ms = ms := rfl

omit [ExactOracle] in
/-- attaching marks to an unmarked payload does not change what lies under them -/
theorem core_withMarks {p : Payload} (h : p.isMarked = false) (ms : List String) :
    core (p.withMarks ms) = p := by
  unfold Payload.withMarks
  have h1 : p.marks1 = [] := by cases p <;> simp_all [Payload.marks1, Payload.isMarked]
  have h2 : p.unmark1 = p := by cases p <;> simp_all [Payload.unmark1, Payload.isMarked]
  simp only [h1, h2, unionMarks_nil]
  split
  · exact core_of_unmarked h
  · simp only [core]; exact core_of_unmarked h

omit [ExactOracle] in
theorem γV_withMarks {v : Value} (h : v.v.isMarked = false) (ms : List String) (x : Conc) :
    γV (v.withMarks ms) x = γV v x := by
  unfold γV Value.withMarks
  simp only [core_withMarks h, core_of_unmarked h]

omit [ExactOracle] in
theorem unmark_withMarks {v : Value} (h : v.v.isMarked = false) (ms : List String) :
    (v.withMarks ms).unmark = v := by
  unfold Value.withMarks Value.unmark Payload.withMarks
  have h1 : v.v.marks1 = [] := by cases hv : v.v <;> simp_all [Payload.marks1, Payload.isMarked]
  have h2 : v.v.unmark1 = v.v := by cases hv : v.v <;> simp_all [Payload.unmark1, Payload.isMarked]
  simp only [h1, h2, unionMarks_nil]
  split
  · simp [h2]
  · simp [Payload.unmark1]

/-! ## known receivers: calls are assertions -/

omit [ExactOracle] in
theorem concOf_eq {v : Value} (h : v.v.isMarked = false) :
    concOf v = (match v.v with
      | .null => some .null
      | .n x => some (.num x)
      | .s s => some (.str (bytes s))
      | .seq vs => some (if isCollectionTy v.ty then .coll vs.length else .other)
      | .smap ks _ => some (if isCollectionTy v.ty then .coll ks.length else .other)
      | .sset _ vs => if vs.length ≤ 1 || Payload.whollyKnownL vs then some (.coll vs.length) else none
      | .b _ => some .other
      | .caps => some .other
      | _ => none) := by
  unfold concOf
  rw [core_of_unmarked h]
  cases v.v <;> rfl

omit [ExactOracle] in
theorem isNull_iff {v : Value} (h : v.v.isMarked = false) : v.isNull = true ↔ v.v = .null := by
  unfold Value.isNull Payload.isNull
  cases hv : v.v <;> simp_all [Payload.unmark1, Payload.isMarked]

omit [ExactOracle] in
theorem isKnown_iff {v : Value} (h : v.v.isMarked = false) : v.isKnown = false ↔ ∃ r, v.v = .unk r := by
  unfold Value.isKnown Payload.isKnown
  cases hv : v.v <;> simp_all [Payload.unmark1, Payload.isMarked]

section
variable {b b' : Builder} {x : Conc}

omit [ExactOracle] in
theorem stepNotNull_known (hm : b.orig.v.isMarked = false) (hk : b.orig.isKnown = true)
    (hx : concOf b.orig = some x) (h : stepNotNull b = .ok b') : den .notNull x = true := by
  obtain ⟨_, _, hkn⟩ := stepNotNull_ok h
  rw [hk, Bool.true_and] at hkn
  have hnn : b.orig.v ≠ .null := fun hv => by
    rw [(isNull_iff hm).mpr hv] at hkn; cases hkn
  rw [concOf_eq hm] at hx
  cases hv : b.orig.v <;> rw [hv] at hx <;> simp at hx
  · exact absurd hv hnn
  all_goals first
    | (subst hx; rfl)
    | (subst hx; split <;> rfl)
    | (obtain ⟨_, rfl⟩ := hx; rfl)

omit [ExactOracle] in
theorem stepNull_known (hm : b.orig.v.isMarked = false) (hk : b.orig.isKnown = true)
    (hx : concOf b.orig = some x) (h : stepNull b = .ok b') : den .null x = true := by
  obtain ⟨_, _, hkn⟩ := stepNull_ok h
  rw [hk, Bool.true_and] at hkn
  have hv : b.orig.v = .null := (isNull_iff hm).mp (by simpa using hkn)
  rw [concOf_eq hm, hv] at hx
  simp at hx; subst hx; rfl

theorem stepNumLower_known {a : NumArg} {incl : Bool} (hm : b.orig.v.isMarked = false)
    (_hk : b.orig.isKnown = true) (hx : concOf b.orig = some x) (h : stepNumLower b a incl = .ok b') :
    den (.numLower a incl) x = true := by
  obtain ⟨n, lo, hi, hw, hcase⟩ := stepNumLower_ok h
  rcases hcase with ⟨rfl, _⟩ | ⟨m, hmm, hcore⟩
  · exact den_numLower_unknown _ _
  · obtain ⟨hr, _⟩ := lowerCore_ok hcore
    rw [concOf_eq hm] at hx
    unfold origRejectsLower at hr
    cases hv : b.orig.v <;> rw [hv] at hx hr <;> simp at hx hr
    rename_i x0
    subst hx
    simp only [den]
    rw [argLower_of_num? hmm]
    cases incl
    · simp only [Bool.false_eq_true, if_false, optRes] at hr
      split at hr
      · simp at hr; subst hr
        rename_i hge
        exact aboveLower_excl.mpr (ge?_false hge)
      · simp at hr
    · simp only [if_true] at hr
      simp at hr
      exact aboveLower_incl.mpr (gt_false_iff.mp hr)

theorem stepNumUpper_known {a : NumArg} {incl : Bool} (hm : b.orig.v.isMarked = false)
    (_hk : b.orig.isKnown = true) (hx : concOf b.orig = some x) (h : stepNumUpper b a incl = .ok b') :
    den (.numUpper a incl) x = true := by
  obtain ⟨n, lo, hi, hw, hcase⟩ := stepNumUpper_ok h
  rcases hcase with ⟨rfl, _⟩ | ⟨m, hmm, hcore⟩
  · exact den_numUpper_unknown _ _
  · obtain ⟨hr, _⟩ := upperCore_ok hcore
    rw [concOf_eq hm] at hx
    unfold origRejectsUpper at hr
    cases hv : b.orig.v <;> rw [hv] at hx hr <;> simp at hx hr
    rename_i x0
    subst hx
    simp only [den]
    rw [argUpper_of_num? hmm]
    cases incl
    · simp only [Bool.false_eq_true, if_false, optRes] at hr
      split at hr
      · simp at hr; subst hr
        rename_i hge
        exact belowUpper_excl.mpr (le?_false hge)
      · simp at hr
    · simp only [if_true] at hr
      simp at hr
      exact belowUpper_incl.mpr (lt_false_iff.mp hr)

omit [ExactOracle] in
/-- the concrete length a known collection stands for is the one `Length()` reports -/
theorem knownLength_conc {v : Value} (hm : v.v.isMarked = false) {least most : Nat}
    (hl : knownLength v = .ok (least, most)) (hx : concOf v = some x) :
    x = .null ∨ ∃ k, x = .coll k ∧ least = k ∧ most = k := by
  rw [concOf_eq hm] at hx
  unfold knownLength at hl
  split at hl
  · rename_i e vs hty hv
    rw [hv] at hx; simp [hty, isCollectionTy] at hx hl
    exact .inr ⟨_, hx.symm, hl.1.symm, hl.2.symm⟩
  · rename_i e ks vs hty hv
    rw [hv] at hx; simp [hty, isCollectionTy] at hx hl
    exact .inr ⟨_, hx.symm, hl.1.symm, hl.2.symm⟩
  · rename_i e ids vs hty hv
    rw [hv] at hx
    simp only at hx
    split at hx
    · rename_i hc
      simp at hx
      split at hl
      · simp at hl
        exact .inr ⟨_, hx.symm, hl.1.symm, hl.2.symm⟩
      · rename_i hc2
        exfalso
        simp only [Bool.or_eq_true, decide_eq_true_eq, beq_iff_eq] at hc hc2
        rcases hc with hc | hc
        · have h0 : vs.length = 0 := by omega
          have : vs = [] := List.eq_nil_of_length_eq_zero h0
          subst this
          exact hc2 (.inr rfl)
        · exact hc2 (.inr hc)
    · simp at hx
  · simp at hl
  · simp at hl

omit [ExactOracle] in
theorem stepLenLower_known {n : Int} (hm : b.orig.v.isMarked = false)
    (hk : b.orig.isKnown = true) (hx : concOf b.orig = some x) (h : stepLenLower b n = .ok b') :
    den (.lenLower n) x = true := by
  obtain ⟨_, _, _, _, _, hkl⟩ := stepLenLower_ok h
  obtain ⟨least, most, hl, hn⟩ := hkl hk
  rcases knownLength_conc hm hl hx with rfl | ⟨k, rfl, h1, h2⟩
  · rfl
  · simp only [den, decide_eq_true_eq]; omega

omit [ExactOracle] in
theorem stepLenUpper_known {n : Int} (hm : b.orig.v.isMarked = false)
    (hk : b.orig.isKnown = true) (hx : concOf b.orig = some x) (h : stepLenUpper b n = .ok b') :
    den (.lenUpper n) x = true := by
  obtain ⟨_, _, _, _, _, hkl⟩ := stepLenUpper_ok h
  obtain ⟨least, most, hl, hn⟩ := hkl hk
  rcases knownLength_conc hm hl hx with rfl | ⟨k, rfl, h1, h2⟩
  · rfl
  · simp only [den, decide_eq_true_eq]; omega

omit [ExactOracle] in
theorem stepPrefix_known {p : String} (c : RefineCall) (hc : c = .stringPrefix p ∨ c = .stringPrefixFull p)
    (hm : b.orig.v.isMarked = false) (hk : b.orig.isKnown = true) (hx : concOf b.orig = some x)
    (h : stepPrefix b p = .ok b') : den c x = true := by
  obtain ⟨_, _, _, _, _, hkn⟩ := stepPrefix_ok h
  rw [hk, Bool.true_and] at hkn
  by_cases hnull : b.orig.isNull = true
  · have hv := (isNull_iff hm).mp hnull
    rw [concOf_eq hm, hv] at hx
    simp at hx; subst hx
    rcases hc with rfl | rfl <;> rfl
  · obtain ⟨known, hv, hp⟩ := hkn (by simpa using hnull)
    rw [concOf_eq hm, hv] at hx
    simp at hx; subst hx
    rcases hc with rfl | rfl <;> exact hp

end

/-- a call accepted on a known receiver holds of the value it stands for -/
theorem step_known {b b' : Builder} {c : RefineCall} {x : Conc}
    (hm : b.orig.v.isMarked = false) (hk : b.orig.isKnown = true) (hx : concOf b.orig = some x)
    (h : step b c = .ok b') : den c x = true := by
  have hd : b.isDyn = false := by
    unfold Builder.isDyn isDynVal
    split
    · rename_i hty hv
      have := (isKnown_iff hm).mpr ⟨_, hv⟩
      rw [hk] at this; cases this
    · rfl
  unfold step at h
  rw [hd] at h
  simp only [Bool.false_eq_true, if_false] at h
  split at h
  · simp at h
  · cases c with
    | notNull => exact stepNotNull_known hm hk hx h
    | null => exact stepNull_known hm hk hx h
    | numLower a incl => exact stepNumLower_known hm hk hx h
    | numUpper a incl => exact stepNumUpper_known hm hk hx h
    | lenLower n => exact stepLenLower_known hm hk hx h
    | lenUpper n => exact stepLenUpper_known hm hk hx h
    | stringPrefix p => exact stepPrefix_known _ (.inl rfl) hm hk hx h
    | stringPrefixFull p => exact stepPrefix_known _ (.inr rfl) hm hk hx h
    | numRangeInclusive lo hi =>
      simp only [step1] at h
      cases h1 : stepNumLower b lo true with
      | ok b1 =>
        rw [h1] at h
        simp only [Res.bind] at h
        have e := (stepNumLower_effect h1).1
        rw [den_rangeInclusive, stepNumLower_known hm hk hx h1,
          stepNumUpper_known (by rw [e.1]; exact hm) (by rw [e.1]; exact hk) (by rw [e.1]; exact hx) h]
        rfl
      | err e => rw [h1] at h; simp [Res.bind] at h
      | panic w => rw [h1] at h; simp [Res.bind] at h
      | unmodelled => rw [h1] at h; simp [Res.bind] at h
    | collectionLength n =>
      simp only [step1] at h
      cases h1 : stepLenLower b n with
      | ok b1 =>
        rw [h1] at h
        simp only [Res.bind] at h
        have e := (stepLenLower_effect h1).1
        rw [den_collectionLength, stepLenLower_known hm hk hx h1,
          stepLenUpper_known (by rw [e.1]; exact hm) (by rw [e.1]; exact hk) (by rw [e.1]; exact hx) h]
        rfl
      | err e => rw [h1] at h; simp [Res.bind] at h
      | panic w => rw [h1] at h; simp [Res.bind] at h
      | unmodelled => rw [h1] at h; simp [Res.bind] at h

omit [ExactOracle] in
theorem known_not_dyn {b : Builder} (hm : b.orig.v.isMarked = false) (hk : b.orig.isKnown = true) :
    b.isDyn = false := by
  unfold Builder.isDyn isDynVal
  split
  · rename_i hty hv
    have := (isKnown_iff hm).mpr ⟨_, hv⟩
    rw [hk] at this; cases this
  · rfl

/-- every call of an accepted sequence on a known receiver holds of the value -/
theorem run_known {cs : List RefineCall} : ∀ {b b' : Builder} {x : Conc},
    b.orig.v.isMarked = false → b.orig.isKnown = true → concOf b.orig = some x →
    run b cs = .ok b' → cs.all (fun c => den c x) = true := by
  induction cs with
  | nil => intros; rfl
  | cons c cs ih =>
    intro b b' x hm hk hx h
    simp only [run] at h
    cases h1 : step b c with
    | ok b1 =>
      rw [h1] at h
      simp only [Res.bind] at h
      have e := (step_effect (known_not_dyn hm hk) h1).1
      rw [List.all_cons, step_known hm hk hx h1,
        ih (by rw [e.1]; exact hm) (by rw [e.1]; exact hk) (by rw [e.1]; exact hx) h]
      rfl
    | err e => rw [h1] at h; simp [Res.bind] at h
    | panic w => rw [h1] at h; simp [Res.bind] at h
    | unmodelled => rw [h1] at h; simp [Res.bind] at h

end Refine
end CtyModel
