/-
C09 / d09 — fuel stability of ConvertUnify's `unifyTyF` (the type result of `unify`).

`unifyTyF (n+1) = unifyStep (unifyTyF n)`, and "out of fuel" answers `none`, which is also
the answer "NilType".  So more fuel is NOT monotone in general (a `none` of a nested call can
turn a fallback on).  What holds, and is proved here: `unifyStep U uns ts` consults `U` only

* on lists of types nested strictly less deeply than `ts` (element types, attribute types,
  tuple element types, the columns, and — inside `getConversionKnown` — the element types of
  an input type), and
* in unifyTuplesAsList / unifyObjectsAsMaps on ONE list that is as deep as `ts` but consists of
  list (map) types and placeholders only, for which the next activation goes straight to
  unifyCollectionTypes,

and the result of `unify` is never nested more deeply than its input.  Hence `2·depth + 2`
activations always suffice (`unifyTyF_stable`), `fuelFor ts = 3·depth + 8` is more than
enough, and `unifyTy` is the value of `unifyTyF` at EVERY sufficient fuel (`unifyTyF_eq_unifyTy`).
-/
import CtyModel.Lemmas.UnifyTyLaws
namespace CtyModel
namespace Unify
open Convert Ty

abbrev UFn := Bool → List Ty → Option Ty

/-- `U` and `U'` answer alike on every list of types nested less than `d` deep -/
def AgreeBelow (d : Nat) (U U' : UFn) : Prop := ∀ uns ts, tyDepthL ts < d → U uns ts = U' uns ts

theorem AgreeBelow.mono {U U' : UFn} {d d' : Nat} (ha : AgreeBelow d U U') (h : d' ≤ d) : AgreeBelow d' U U' :=
  fun uns ts ht => ha uns ts (by omega)

theorem unifyG_congr {U U' : UFn} {d : Nat} (ha : AgreeBelow d U U') (uns : Bool) (ts : List Ty)
    (h : tyDepthL ts < d) : (Env.ofUnify U).unifyG uns ts = (Env.ofUnify U').unifyG uns ts := by
  simp only [Env.unifyG, Env.ofUnify, ha uns ts h]

theorem unifyG'_congr {U U' : UFn} {d : Nat} (ha : AgreeBelow d U U') (uns : Bool) (ts : List Ty)
    (h : tyDepthL ts < d) : unifyG' U uns ts = unifyG' U' uns ts := by
  simp only [unifyG', ha uns ts h]

/-! ## `getConversionKnown(in, out)` consults `unify` only below the depth of `in` -/

mutual
theorem gck_congr {U U' : UFn} : ∀ (inT out : Ty) (uns : Bool), AgreeBelow (tyDepth inT) U U' →
    gck (Env.ofUnify U) inT out uns = gck (Env.ofUnify U') inT out uns
  | .bool, out, uns, _ => by cases out <;> simp [gck, Ty.isDyn, isPrim]
  | .number, out, uns, _ => by cases out <;> simp [gck, Ty.isDyn, isPrim]
  | .string, out, uns, _ => by cases out <;> simp [gck, Ty.isDyn, isPrim]
  | .dyn, out, uns, _ => by cases out <;> simp [gck, Ty.isDyn, isPrim]
  | .capsule _, out, uns, _ => by cases out <;> simp [gck, Ty.isDyn, isPrim]
  | .list ie, out, uns, h => by
    have hr := fun o => gck_congr (U := U) (U' := U') ie o uns (h.mono (by simp [tyDepth]))
    cases out <;> simp [gck, Ty.isDyn, isPrim, hr]
  | .set ie, out, uns, h => by
    have hr := fun o => gck_congr (U := U) (U' := U') ie o uns (h.mono (by simp [tyDepth]))
    cases out <;> simp [gck, Ty.isDyn, isPrim, hr]
  | .map ie, out, uns, h => by
    have hr := fun o => gck_congr (U := U) (U' := U') ie o uns (h.mono (by simp [tyDepth]))
    cases out <;> simp [gck, Ty.isDyn, isPrim, hr]
  | .tuple its, out, uns, h => by
    have hd : tyDepthL its < tyDepth (.tuple its) := by simp [tyDepth]
    have hz := fun os => gcZip_congr (U := U) (U' := U') its os uns (h.mono (by omega))
    have ha := fun o => gcAll_congr (U := U) (U' := U') its o uns (h.mono (by omega))
    have hs : ∀ oe, seqTargetEty (Env.ofUnify U) uns its oe = seqTargetEty (Env.ofUnify U') uns its oe := by
      intro oe; simp only [seqTargetEty, unifyG_congr h uns its hd]
    cases out <;> simp [gck, Ty.isDyn, isPrim, hz, ha, hs]
  | .object inn it io, out, uns, h => by
    have hd : tyDepthL it < tyDepth (.object inn it io) := by simp [tyDepth]
    have ho := fun on ot oo => gcObj_congr (U := U) (U' := U') inn it on ot oo uns (h.mono (by omega))
    have ha := fun o => gcAll_congr (U := U) (U' := U') it o uns (h.mono (by omega))
    have hs : ∀ oe, mapTargetEty (Env.ofUnify U) uns it oe = mapTargetEty (Env.ofUnify U') uns it oe := by
      intro oe; simp only [mapTargetEty, unifyG_congr h uns it hd]
    cases out <;> simp [gck, Ty.isDyn, isPrim, ho, ha, hs]
theorem gcAll_congr {U U' : UFn} : ∀ (ts : List Ty) (target : Ty) (uns : Bool), AgreeBelow (tyDepthL ts) U U' →
    gcAll (Env.ofUnify U) ts target uns = gcAll (Env.ofUnify U') ts target uns
  | [], _, _, _ => by simp [gcAll]
  | t :: ts, target, uns, h => by
    have h1 := gck_congr (U := U) (U' := U') t target uns (h.mono (by simp [tyDepthL]; omega))
    have h2 := gcAll_congr (U := U) (U' := U') ts target uns (h.mono (by simp [tyDepthL]; omega))
    simp [gcAll, h1, h2]
theorem gcZip_congr {U U' : UFn} : ∀ (ts os : List Ty) (uns : Bool), AgreeBelow (tyDepthL ts) U U' →
    gcZip (Env.ofUnify U) ts os uns = gcZip (Env.ofUnify U') ts os uns
  | [], _, _, _ => by simp [gcZip]
  | t :: ts, [], uns, _ => by simp [gcZip]
  | t :: ts, o :: os, uns, h => by
    have h1 := gck_congr (U := U) (U' := U') t o uns (h.mono (by simp [tyDepthL]; omega))
    have h2 := gcZip_congr (U := U) (U' := U') ts os uns (h.mono (by simp [tyDepthL]; omega))
    simp [gcZip, h1, h2]
theorem gcObj_congr {U U' : UFn} : ∀ (ns : List String) (ts : List Ty) (on : List String) (ot : List Ty) (oo : List Bool)
    (uns : Bool), AgreeBelow (tyDepthL ts) U U' →
    gcObj (Env.ofUnify U) ns ts on ot oo uns = gcObj (Env.ofUnify U') ns ts on ot oo uns
  | [], _, _, _, _, _, _ => by simp [gcObj]
  | _ :: _, [], _, _, _, _, _ => by simp [gcObj]
  | n :: ns, t :: ts, on, ot, oo, uns, h => by
    have h1 := fun o => gck_congr (U := U) (U' := U') t o uns (h.mono (by simp [tyDepthL]; omega))
    have h2 := gcObj_congr (U := U) (U' := U') ns ts on ot oo uns (h.mono (by simp [tyDepthL]; omega))
    simp [gcObj, h1, h2]
end

/-! ## depth bookkeeping -/

theorem tyDepthL_le_of_forall {k : Nat} : ∀ {L : List Ty}, (∀ x ∈ L, tyDepth x ≤ k) → tyDepthL L ≤ k
  | [], _ => by simp [tyDepthL]
  | x :: xs, h => by
    have h1 := h x (by simp)
    have h2 := tyDepthL_le_of_forall (L := xs) (fun y hy => h y (List.mem_cons_of_mem _ hy))
    simp only [tyDepthL]; omega

theorem tyDepthL_lt_of_forall {k : Nat} {L : List Ty} (hne : L ≠ []) (h : ∀ x ∈ L, tyDepth x < k) : tyDepthL L < k := by
  cases L with
  | nil => exact absurd rfl hne
  | cons x xs =>
    have hk : 0 < k := by have := h x (by simp); omega
    have := tyDepthL_le_of_forall (k := k - 1) (L := x :: xs) (fun y hy => by have := h y hy; omega)
    omega

theorem tyDepthL_filter_le (p : Ty → Bool) (L : List Ty) : tyDepthL (L.filter p) ≤ tyDepthL L :=
  tyDepthL_le_of_forall fun x hx => tyDepth_le_of_mem L x (List.mem_filter.mp hx).1

theorem depth_attrTysD (x y : Ty) (h : y ∈ attrTysD x) : tyDepth y < tyDepth x := by
  cases x <;> simp [attrTysD] at h
  rename_i ns ts os
  have := tyDepth_le_of_mem ts y h
  simp only [tyDepth]; omega

theorem depth_tupleEtysD (x y : Ty) (h : y ∈ tupleEtysD x) : tyDepth y < tyDepth x := by
  cases x <;> simp [tupleEtysD] at h
  rename_i es
  have := tyDepth_le_of_mem es y h
  simp only [tyDepth]; omega

/-- list, set or map type -/
def isCollTy (x : Ty) : Bool := isListTy x || isSetTy x || isMapTy x

theorem depth_elemTyD (x : Ty) (h : isCollTy x = true) : tyDepth (elemTyD x) < tyDepth x := by
  cases x <;> simp [isCollTy, isListTy, isSetTy, isMapTy] at h <;> simp [elemTyD, tyDepth]

theorem depth_flatMap {f : Ty → List Ty} (hf : ∀ x y, y ∈ f x → tyDepth y < tyDepth x) (L : List Ty) :
    ∀ y ∈ L.flatMap f, tyDepth y < tyDepthL L := by
  intro y hy
  obtain ⟨x, hx, hyx⟩ := List.mem_flatMap.mp hy
  have := hf x y hyx
  have := tyDepth_le_of_mem L x hx
  omega

theorem depth_getD (L : List Ty) (i : Nat) : (L.getD i .dyn) ∈ L ∨ L.getD i .dyn = .dyn := by
  rw [List.getD_eq_getElem?_getD]
  cases h : L[i]? with
  | none => right; rfl
  | some y => left; exact List.mem_of_getElem? h

/-! ## counting kinds -/

theorem count_cons (p : Ty → Bool) (x : Ty) (xs : List Ty) :
    count p (x :: xs) = (if p x = true then 1 else 0) + count p xs := by
  simp only [count, List.filter_cons]
  split <;> simp <;> omega

theorem count_or (p q : Ty → Bool) (hd : ∀ x, p x = true → q x = true → False) :
    ∀ ts, count (fun x => p x || q x) ts = count p ts + count q ts
  | [] => rfl
  | x :: xs => by
    rw [count_cons, count_cons, count_cons, count_or p q hd xs]
    cases hp : p x <;> cases hq : q x <;> simp
    · omega
    · omega
    · exact (hd x hp hq).elim

theorem all_of_count2 {p q : Ty → Bool} (hd : ∀ x, p x = true → q x = true → False) {ts : List Ty}
    (h : count p ts + count q ts = ts.length) : ∀ x ∈ ts, (p x || q x) = true := by
  rw [← count_or p q hd] at h
  exact all_of_count h

theorem all_of_count3 {p q r : Ty → Bool} (h1 : ∀ x, p x = true → q x = true → False)
    (h2 : ∀ x, p x = true → r x = true → False) (h3 : ∀ x, q x = true → r x = true → False) {ts : List Ty}
    (h : count p ts + count q ts + count r ts = ts.length) : ∀ x ∈ ts, (p x || q x || r x) = true := by
  have hd : ∀ x, (p x || q x) = true → r x = true → False := by
    intro x hpq hr
    rcases Bool.or_eq_true _ _ ▸ hpq with hp | hq
    · exact h2 x hp hr
    · exact h3 x hq hr
  rw [← count_or p q h1, ← count_or (fun x => p x || q x) r hd] at h
  exact all_of_count h

/-! ## every piece of `unifyStep` consults `U` only below the depth of its argument -/

theorem all_congr' {α} {p q : α → Bool} : ∀ (L : List α), (∀ x ∈ L, p x = q x) → L.all p = L.all q
  | [], _ => rfl
  | x :: xs, h => by
    simp only [List.all_cons, h x (by simp), all_congr' xs (fun y hy => h y (List.mem_cons_of_mem _ hy))]

section
variable {U U' : UFn} {uns : Bool}

theorem convOk_congr {d : Nat} (h : AgreeBelow d U U') (ty retTy : Ty) (hty : tyDepth ty ≤ d) :
    convOk U uns ty retTy = convOk U' uns ty retTy := by
  simp only [convOk, getConv, gck_congr ty retTy uns (h.mono hty)]

theorem all_convOk_congr {d : Nat} (h : AgreeBelow d U U') (L : List Ty) (hL : tyDepthL L ≤ d) (retTy : Ty) :
    L.all (fun ty => convOk U uns ty retTy) = L.all (fun ty => convOk U' uns ty retTy) :=
  all_congr' L fun ty hty => convOk_congr h ty retTy (by have := tyDepth_le_of_mem L ty hty; omega)

theorem unifyG'_congr_lt {d : Nat} (h : AgreeBelow d U U') (L : List Ty) (hL : ∀ x ∈ L, tyDepth x < d) :
    unifyG' U uns L = unifyG' U' uns L := by
  by_cases hne : L = []
  · subst hne; simp [unifyG']
  · exact unifyG'_congr h uns L (tyDepthL_lt_of_forall hne hL)

theorem collectionTypes_congr (types : List Ty) (h : AgreeBelow (tyDepthL types) U U') (mk : Ty → Ty) (hd : Bool)
    (hc : hd = false → ∀ x ∈ types, isCollTy x = true) :
    unifyCollectionTypes U uns mk types hd = unifyCollectionTypes U' uns mk types hd := by
  cases hd with
  | true => simp [unifyCollectionTypes]
  | false =>
    have hg : unifyG' U uns (types.map elemTyD) = unifyG' U' uns (types.map elemTyD) := by
      apply unifyG'_congr_lt h
      intro y hy
      obtain ⟨x, hx, rfl⟩ := List.mem_map.mp hy
      have := depth_elemTyD x (hc rfl x hx)
      have := tyDepth_le_of_mem types x hx
      omega
    have ha := all_convOk_congr (uns := uns) h types (Nat.le_refl _)
    simp only [unifyCollectionTypes, hg, ha]

theorem objectTypesToMap_congr {d : Nat} (h : AgreeBelow d U U') (types : List Ty) (hL : tyDepthL types ≤ d) :
    unifyObjectTypesToMap U uns types = unifyObjectTypesToMap U' uns types := by
  have hg : unifyG' U uns (types.flatMap attrTysD) = unifyG' U' uns (types.flatMap attrTysD) :=
    unifyG'_congr_lt h _ fun y hy => by have := depth_flatMap depth_attrTysD types y hy; omega
  have ha := all_convOk_congr (uns := uns) h types hL
  simp only [unifyObjectTypesToMap, hg, ha]

theorem tupleTypesToList_congr {d : Nat} (h : AgreeBelow d U U') (types : List Ty) (hL : tyDepthL types ≤ d) :
    unifyTupleTypesToList U uns types = unifyTupleTypesToList U' uns types := by
  have hg : unifyG' U uns (types.flatMap tupleEtysD) = unifyG' U' uns (types.flatMap tupleEtysD) :=
    unifyG'_congr_lt h _ fun y hy => by have := depth_flatMap depth_tupleEtysD types y hy; omega
  have ha := all_convOk_congr (uns := uns) h types hL
  simp only [unifyTupleTypesToList, hg, ha]

theorem columns_congr {d : Nat} (h : AgreeBelow d U U') : ∀ (cols : List (List Ty)),
    (∀ col ∈ cols, ∀ x ∈ col, tyDepth x < d) → Convert.unifyColumns U uns cols = Convert.unifyColumns U' uns cols
  | [], _ => rfl
  | col :: cols, hc => by
    simp only [Convert.unifyColumns, unifyG'_congr_lt h col (hc col (by simp)),
      columns_congr h cols (fun c hcm => hc c (List.mem_cons_of_mem _ hcm))]

/-- the columns of unifyObjectTypes are nested less deeply than the objects -/
theorem depth_attr_cols (types : List Ty) :
    ∀ col ∈ (List.range (attrNamesD (types.headD .dyn)).length).map
        (fun i => types.map fun ty => (attrTysD ty).getD i .dyn),
      ∀ x ∈ col, (attrNamesD (types.headD .dyn)) ≠ [] → tyDepth x < tyDepthL types := by
  intro col hcol x hx hne
  obtain ⟨i, _, rfl⟩ := List.mem_map.mp hcol
  obtain ⟨ty, hty, rfl⟩ := List.mem_map.mp hx
  have hpos : 0 < tyDepthL types := by
    cases types with
    | nil => simp [attrNamesD] at hne
    | cons t ts =>
      cases t <;> simp [attrNamesD] at hne
      simp [tyDepthL, tyDepth]; omega
  rcases depth_getD (attrTysD ty) i with hm | he
  · have := depth_attrTysD ty _ hm
    have := tyDepth_le_of_mem types ty hty
    omega
  · rw [he]; simpa [tyDepth] using hpos

theorem depth_tuple_cols (types : List Ty) :
    ∀ col ∈ (List.range (tupleEtysD (types.headD .dyn)).length).map
        (fun i => types.map fun ty => (tupleEtysD ty).getD i .dyn),
      ∀ x ∈ col, (tupleEtysD (types.headD .dyn)) ≠ [] → tyDepth x < tyDepthL types := by
  intro col hcol x hx hne
  obtain ⟨i, _, rfl⟩ := List.mem_map.mp hcol
  obtain ⟨ty, hty, rfl⟩ := List.mem_map.mp hx
  have hpos : 0 < tyDepthL types := by
    cases types with
    | nil => simp [tupleEtysD] at hne
    | cons t ts =>
      cases t <;> simp [tupleEtysD] at hne
      simp [tyDepthL, tyDepth]; omega
  rcases depth_getD (tupleEtysD ty) i with hm | he
  · have := depth_tupleEtysD ty _ hm
    have := tyDepth_le_of_mem types ty hty
    omega
  · rw [he]; simpa [tyDepth] using hpos

theorem range_map_nil_of_nil {α β} (L : List α) (f : Nat → β) (h : L = []) : (List.range L.length).map f = [] := by
  subst h; rfl

theorem objectTypes_congr (types : List Ty) (h : AgreeBelow (tyDepthL types) U U') (hd : Bool) :
    unifyObjectTypes U uns types hd = unifyObjectTypes U' uns types hd := by
  have hm := objectTypesToMap_congr (uns := uns) h types (Nat.le_refl _)
  have ha := all_convOk_congr (uns := uns) h types (Nat.le_refl _)
  have hcols := columns_congr (uns := uns) h ((List.range (attrNamesD (types.headD .dyn)).length).map
        (fun i => types.map fun ty => (attrTysD ty).getD i .dyn)) (by
    intro col hcol x hx
    by_cases hne : attrNamesD (types.headD .dyn) = []
    · rw [range_map_nil_of_nil _ _ hne] at hcol; simp at hcol
    · exact depth_attr_cols types col hcol x hx hne)
  simp only [unifyObjectTypes, hm, ha, hcols]

theorem tupleTypes_congr (types : List Ty) (h : AgreeBelow (tyDepthL types) U U') (hd : Bool) :
    unifyTupleTypes U uns types hd = unifyTupleTypes U' uns types hd := by
  have hm := tupleTypesToList_congr (uns := uns) h types (Nat.le_refl _)
  have ha := all_convOk_congr (uns := uns) h types (Nat.le_refl _)
  have hcols := columns_congr (uns := uns) h ((List.range (tupleEtysD (types.headD .dyn)).length).map
        (fun i => types.map fun ty => (tupleEtysD ty).getD i .dyn)) (by
    intro col hcol x hx
    by_cases hne : tupleEtysD (types.headD .dyn) = []
    · rw [range_map_nil_of_nil _ _ hne] at hcol; simp at hcol
    · exact depth_tuple_cols types col hcol x hx hne)
  simp only [unifyTupleTypes, hm, ha, hcols]

theorem general_congr (types : List Ty) (h : AgreeBelow (tyDepthL types) U U') :
    unifyGeneral U uns types = unifyGeneral U' uns types := by
  have hi : ∀ (i : Nat) (want : Ty),
      (match types[i]? with | some t => convOk U uns t want | none => true) =
      (match types[i]? with | some t => convOk U' uns t want | none => true) := by
    intro i want
    cases hti : types[i]? with
    | none => rfl
    | some t => exact convOk_congr h t want (tyDepth_le_of_mem types t (List.mem_of_getElem? hti))
  simp only [unifyGeneral]
  congr 1
  funext wantIdx
  cases types[wantIdx]? with
  | none => rfl
  | some want =>
    have ha : ((List.range types.length).all fun i => i == wantIdx ||
          match types[i]? with | some t => convOk U uns t want | none => true) =
        ((List.range types.length).all fun i => i == wantIdx ||
          match types[i]? with | some t => convOk U' uns t want | none => true) :=
      all_congr' _ (fun i _ => by rw [hi i want])
    exact congrArg (fun b : Bool => if b = true then some want else none) ha

/-- the list unifyTuplesAsList re-enters `unify` with -/
def listedOf (e : Ty) (types : List Ty) : List Ty := types.map fun t => if isTupleTy t then Ty.list e else t
/-- the list unifyObjectsAsMaps re-enters `unify` with -/
def mappedOf (e : Ty) (types : List Ty) : List Ty := types.map fun t => if isObjectTy t then Ty.map e else t

theorem tuplesAsList_congr (types : List Ty) (h : AgreeBelow (tyDepthL types) U U')
    (hrep : ∀ e, unifyTupleTypesToList U uns (types.filter isTupleTy) = some (.list e) →
      U uns (listedOf e types) = U' uns (listedOf e types)) :
    unifyTuplesAsList U uns types = unifyTuplesAsList U' uns types := by
  have h1 := tupleTypesToList_congr (uns := uns) h (types.filter isTupleTy) (tyDepthL_filter_le _ _)
  simp only [unifyTuplesAsList, ← h1]
  cases hr : unifyTupleTypesToList U uns (types.filter isTupleTy) with
  | none => rfl
  | some t =>
    cases t <;> try rfl
    rename_i e
    have := hrep e hr
    simp only [listedOf] at this
    simp only [unifyG', this]

theorem objectsAsMaps_congr (types : List Ty) (h : AgreeBelow (tyDepthL types) U U')
    (hrep : ∀ e, unifyObjectTypesToMap U uns (types.filter isObjectTy) = some (.map e) →
      U uns (mappedOf e types) = U' uns (mappedOf e types)) :
    unifyObjectsAsMaps U uns types = unifyObjectsAsMaps U' uns types := by
  have h1 := objectTypesToMap_congr (uns := uns) h (types.filter isObjectTy) (tyDepthL_filter_le _ _)
  simp only [unifyObjectsAsMaps, ← h1]
  cases hr : unifyObjectTypesToMap U uns (types.filter isObjectTy) with
  | none => rfl
  | some t =>
    cases t <;> try rfl
    rename_i e
    have := hrep e hr
    simp only [mappedOf] at this
    simp only [unifyG', this]
end

/-! ## one activation of `unify` -/

theorem disj_list_tuple (x : Ty) : isListTy x = true → isTupleTy x = true → False := by
  cases x <;> simp [isListTy, isTupleTy]
theorem disj_list_dyn (x : Ty) : isListTy x = true → x.isDyn = true → False := by
  cases x <;> simp [isListTy, Ty.isDyn]
theorem disj_tuple_dyn (x : Ty) : isTupleTy x = true → x.isDyn = true → False := by
  cases x <;> simp [isTupleTy, Ty.isDyn]
theorem disj_map_object (x : Ty) : isMapTy x = true → isObjectTy x = true → False := by
  cases x <;> simp [isMapTy, isObjectTy]
theorem disj_map_dyn (x : Ty) : isMapTy x = true → x.isDyn = true → False := by
  cases x <;> simp [isMapTy, Ty.isDyn]
theorem disj_object_dyn (x : Ty) : isObjectTy x = true → x.isDyn = true → False := by
  cases x <;> simp [isObjectTy, Ty.isDyn]

/-- `kindCt + dynamicCt == len(types)` without a placeholder: every type is of that kind -/
theorem all_kind_of_counts {p : Ty → Bool} {types : List Ty}
    (hc : count p types + count Ty.isDyn types = types.length)
    (hd : decide (count Ty.isDyn types > 0) = false) : ∀ x ∈ types, p x = true := by
  have h0 : count Ty.isDyn types = 0 := by simpa using hd
  exact all_of_count (by omega)

section
variable {U U' : UFn} {uns : Bool}

theorem unifyStep_congr (types : List Ty) (h : AgreeBelow (tyDepthL types) U U')
    (hrepL : (∀ x ∈ types, (isListTy x || isTupleTy x || x.isDyn) = true) →
      ∀ e, unifyTupleTypesToList U uns (types.filter isTupleTy) = some (.list e) →
        U uns (listedOf e types) = U' uns (listedOf e types))
    (hrepM : (∀ x ∈ types, (isMapTy x || isObjectTy x || x.isDyn) = true) →
      ∀ e, unifyObjectTypesToMap U uns (types.filter isObjectTy) = some (.map e) →
        U uns (mappedOf e types) = U' uns (mappedOf e types)) :
    Convert.unifyStep U uns types = Convert.unifyStep U' uns types := by
  simp only [Convert.unifyStep]
  refine ite_congr rfl (fun _ => rfl) (fun _ => ?_)
  refine ite_congr rfl (fun hc => ?_) (fun _ => ?_)
  · simp only [Bool.and_eq_true, decide_eq_true_eq, beq_iff_eq] at hc
    exact collectionTypes_congr types h .map _ (fun hd x hx => by
      simp [isCollTy, all_kind_of_counts hc.2 hd x hx])
  refine ite_congr rfl (fun hc => ?_) (fun _ => ?_)
  · simp only [Bool.and_eq_true, decide_eq_true_eq, beq_iff_eq] at hc
    rw [objectsAsMaps_congr types h (hrepM (all_of_count3 disj_map_object disj_map_dyn disj_object_dyn hc.2)),
      general_congr types h]
  refine ite_congr rfl (fun hc => ?_) (fun _ => ?_)
  · simp only [Bool.and_eq_true, decide_eq_true_eq, beq_iff_eq] at hc
    exact collectionTypes_congr types h .list _ (fun hd x hx => by
      simp [isCollTy, all_kind_of_counts hc.2 hd x hx])
  refine ite_congr rfl (fun hc => ?_) (fun _ => ?_)
  · simp only [Bool.and_eq_true, decide_eq_true_eq, beq_iff_eq] at hc
    rw [tuplesAsList_congr types h (hrepL (all_of_count3 disj_list_tuple disj_list_dyn disj_tuple_dyn hc.2)),
      general_congr types h]
  refine ite_congr rfl (fun hc => ?_) (fun _ => ?_)
  · simp only [Bool.and_eq_true, decide_eq_true_eq, beq_iff_eq] at hc
    exact collectionTypes_congr types h .set _ (fun hd x hx => by
      simp [isCollTy, all_kind_of_counts hc.2 hd x hx])
  refine ite_congr rfl (fun _ => objectTypes_congr types h _) (fun _ => ?_)
  refine ite_congr rfl (fun _ => tupleTypes_congr types h _) (fun _ => ?_)
  refine ite_congr rfl (fun _ => rfl) (fun _ => general_congr types h)

/-! ## the result of `unify` is never nested more deeply than its input -/

/-- every answer of `U` is nested at most as deeply as the list it was asked about -/
def DepthBounded (U : UFn) : Prop := ∀ uns L t, U uns L = some t → tyDepth t ≤ tyDepthL L

theorem unifyG'_depth_lt {d : Nat} (hU : DepthBounded U) (L : List Ty) (hL : ∀ x ∈ L, tyDepth x < d) (e : Ty)
    (h : unifyG' U uns L = some e) : tyDepth e < d := by
  simp only [unifyG'] at h
  split at h
  · simp at h
  · rename_i hne
    have hne' : L ≠ [] := by intro e; subst e; simp at hne
    have := hU uns L e h
    have := tyDepthL_lt_of_forall hne' hL
    omega

theorem collection_depth (hU : DepthBounded U) (types : List Ty) (mk : Ty → Ty)
    (hmk : ∀ e, tyDepth (mk e) = tyDepth e + 1) (hd : Bool) (hc : hd = false → ∀ x ∈ types, isCollTy x = true)
    (t : Ty) (h : unifyCollectionTypes U uns mk types hd = some t) : tyDepth t ≤ tyDepthL types := by
  cases hd with
  | true =>
    simp [unifyCollectionTypes] at h
    subst h; simp [tyDepth]
  | false =>
    simp only [unifyCollectionTypes, Bool.false_eq_true, if_false] at h
    cases hg : unifyG' U uns (types.map elemTyD) with
    | none => simp [hg] at h
    | some e =>
      simp only [hg] at h
      have he : tyDepth e < tyDepthL types := by
        apply unifyG'_depth_lt hU _ _ e hg
        intro y hy
        obtain ⟨x, hx, rfl⟩ := List.mem_map.mp hy
        have := depth_elemTyD x (hc rfl x hx)
        have := tyDepth_le_of_mem types x hx
        omega
      split at h
      · simp only [Option.some.injEq] at h
        subst h; rw [hmk]; omega
      · simp at h

theorem toMap_inv (types : List Ty) (t : Ty) (h : unifyObjectTypesToMap U uns types = some t) :
    ∃ e, t = .map e ∧ unifyG' U uns (types.flatMap attrTysD) = some e := by
  simp only [unifyObjectTypesToMap] at h
  cases hg : unifyG' U uns (types.flatMap attrTysD) with
  | none => simp [hg] at h
  | some e =>
    simp only [hg] at h
    split at h
    · exact ⟨e, by simpa using h.symm, rfl⟩
    · simp at h

theorem toList_inv (types : List Ty) (t : Ty) (h : unifyTupleTypesToList U uns types = some t) :
    ∃ e, t = .list e ∧ unifyG' U uns (types.flatMap tupleEtysD) = some e := by
  simp only [unifyTupleTypesToList] at h
  cases hg : unifyG' U uns (types.flatMap tupleEtysD) with
  | none => simp [hg] at h
  | some e =>
    simp only [hg] at h
    split at h
    · exact ⟨e, by simpa using h.symm, rfl⟩
    · simp at h

theorem toMap_depth (hU : DepthBounded U) (types : List Ty) (e : Ty)
    (h : unifyObjectTypesToMap U uns types = some (.map e)) : tyDepth e < tyDepthL types := by
  obtain ⟨e', he, hg⟩ := toMap_inv types _ h
  simp only [Ty.map.injEq] at he; subst he
  exact unifyG'_depth_lt hU _ (depth_flatMap depth_attrTysD types) _ hg

theorem toList_depth (hU : DepthBounded U) (types : List Ty) (e : Ty)
    (h : unifyTupleTypesToList U uns types = some (.list e)) : tyDepth e < tyDepthL types := by
  obtain ⟨e', he, hg⟩ := toList_inv types _ h
  simp only [Ty.list.injEq] at he; subst he
  exact unifyG'_depth_lt hU _ (depth_flatMap depth_tupleEtysD types) _ hg

theorem toMap_depth' (hU : DepthBounded U) (types : List Ty) (t : Ty)
    (h : unifyObjectTypesToMap U uns types = some t) : tyDepth t ≤ tyDepthL types := by
  obtain ⟨e, rfl, _⟩ := toMap_inv types _ h
  have := toMap_depth hU types e h
  simp only [tyDepth]; omega

theorem toList_depth' (hU : DepthBounded U) (types : List Ty) (t : Ty)
    (h : unifyTupleTypesToList U uns types = some t) : tyDepth t ≤ tyDepthL types := by
  obtain ⟨e, rfl, _⟩ := toList_inv types _ h
  have := toList_depth hU types e h
  simp only [tyDepth]; omega

theorem columns_depth {d : Nat} (hU : DepthBounded U) : ∀ (cols : List (List Ty)) (atys : List Ty),
    Convert.unifyColumns U uns cols = some atys → (∀ col ∈ cols, ∀ x ∈ col, tyDepth x < d) →
    ∀ a ∈ atys, tyDepth a < d
  | [], atys, h, _ => by simp [Convert.unifyColumns] at h; subst h; simp
  | col :: cols, atys, h, hc => by
    simp only [Convert.unifyColumns] at h
    cases hg : unifyG' U uns col with
    | none => simp [hg] at h
    | some t =>
      simp only [hg] at h
      obtain ⟨rest, hr, rfl⟩ := Option.map_eq_some_iff.mp h
      intro a ha
      rcases List.mem_cons.mp ha with rfl | ha
      · exact unifyG'_depth_lt hU col (hc col (by simp)) _ hg
      · exact columns_depth hU cols rest hr (fun c hcm => hc c (List.mem_cons_of_mem _ hcm)) a ha

theorem depth_pos_of_head {p : Ty → Bool} (hp : ∀ x, p x = true → 0 < tyDepth x) {types : List Ty}
    (hne : types ≠ []) (hall : ∀ x ∈ types, p x = true) : 0 < tyDepthL types := by
  cases types with
  | nil => exact absurd rfl hne
  | cons x xs =>
    have := hp x (hall x (by simp))
    simp only [tyDepthL]; omega

theorem objectTypes_depth (hU : DepthBounded U) (types : List Ty) (hne : types ≠ []) (hd : Bool)
    (hc : hd = false → ∀ x ∈ types, isObjectTy x = true) (t : Ty)
    (h : unifyObjectTypes U uns types hd = some t) : tyDepth t ≤ tyDepthL types := by
  cases hd with
  | true => simp [unifyObjectTypes] at h; subst h; simp [tyDepth]
  | false =>
    have hpos : 0 < tyDepthL types :=
      depth_pos_of_head (p := isObjectTy) (by intro x; cases x <;> simp [isObjectTy, tyDepth]) hne (hc rfl)
    simp only [unifyObjectTypes, Bool.false_eq_true, if_false] at h
    split at h
    · exact toMap_depth' hU types t h
    · split at h
      · simp at h
      · rename_i atys hcol
        have hat : ∀ a ∈ atys, tyDepth a < tyDepthL types :=
          columns_depth hU _ atys hcol (by
            intro col hcol' x hx
            by_cases hn : attrNamesD (types.headD .dyn) = []
            · rw [range_map_nil_of_nil _ _ hn] at hcol'; simp at hcol'
            · exact depth_attr_cols types col hcol' x hx hn)
        split at h
        · simp only [Option.some.injEq] at h
          subst h
          have := tyDepthL_le_of_forall (k := tyDepthL types - 1) (L := atys) (fun a ha => by have := hat a ha; omega)
          simp only [tyDepth]; omega
        · exact toMap_depth' hU types t h

theorem tupleTypes_depth (hU : DepthBounded U) (types : List Ty) (hne : types ≠ []) (hd : Bool)
    (hc : hd = false → ∀ x ∈ types, isTupleTy x = true) (t : Ty)
    (h : unifyTupleTypes U uns types hd = some t) : tyDepth t ≤ tyDepthL types := by
  cases hd with
  | true => simp [unifyTupleTypes] at h; subst h; simp [tyDepth]
  | false =>
    have hpos : 0 < tyDepthL types :=
      depth_pos_of_head (p := isTupleTy) (by intro x; cases x <;> simp [isTupleTy, tyDepth]) hne (hc rfl)
    simp only [unifyTupleTypes, Bool.false_eq_true, if_false] at h
    split at h
    · exact toList_depth' hU types t h
    · split at h
      · simp at h
      · rename_i etys hcol
        have hat : ∀ a ∈ etys, tyDepth a < tyDepthL types :=
          columns_depth hU _ etys hcol (by
            intro col hcol' x hx
            by_cases hn : tupleEtysD (types.headD .dyn) = []
            · rw [range_map_nil_of_nil _ _ hn] at hcol'; simp at hcol'
            · exact depth_tuple_cols types col hcol' x hx hn)
        split at h
        · simp only [Option.some.injEq] at h
          subst h
          have := tyDepthL_le_of_forall (k := tyDepthL types - 1) (L := etys) (fun a ha => by have := hat a ha; omega)
          simp only [tyDepth]; omega
        · exact toList_depth' hU types t h

theorem listedOf_depth (e : Ty) (types : List Ty) (he : tyDepth e < tyDepthL types) :
    tyDepthL (listedOf e types) ≤ tyDepthL types := by
  apply tyDepthL_le_of_forall
  intro y hy
  obtain ⟨x, hx, rfl⟩ := List.mem_map.mp hy
  split
  · simp only [tyDepth]; omega
  · exact tyDepth_le_of_mem types x hx

theorem mappedOf_depth (e : Ty) (types : List Ty) (he : tyDepth e < tyDepthL types) :
    tyDepthL (mappedOf e types) ≤ tyDepthL types := by
  apply tyDepthL_le_of_forall
  intro y hy
  obtain ⟨x, hx, rfl⟩ := List.mem_map.mp hy
  split
  · simp only [tyDepth]; omega
  · exact tyDepth_le_of_mem types x hx

theorem tuplesAsList_depth (hU : DepthBounded U) (types : List Ty) (t : Ty)
    (h : unifyTuplesAsList U uns types = some t) : tyDepth t ≤ tyDepthL types := by
  simp only [unifyTuplesAsList] at h
  cases hr : unifyTupleTypesToList U uns (types.filter isTupleTy) with
  | none => simp [hr] at h
  | some m =>
    cases m <;> simp only [hr] at h <;> try (simp at h; done)
    rename_i e
    have he : tyDepth e < tyDepthL types := by
      have := toList_depth hU _ e hr
      have := tyDepthL_filter_le isTupleTy types
      omega
    cases hg : unifyG' U uns (types.map fun t => if isTupleTy t then Ty.list e else t) with
    | none => simp [hg] at h
    | some r =>
      cases r <;> simp only [hg] at h <;> try (simp at h; done)
      simp only [Option.some.injEq] at h; subst h
      simp only [unifyG'] at hg
      split at hg
      · simp at hg
      · have := hU uns _ _ hg
        have := listedOf_depth e types he
        simp only [listedOf] at this
        omega

theorem objectsAsMaps_depth (hU : DepthBounded U) (types : List Ty) (t : Ty)
    (h : unifyObjectsAsMaps U uns types = some t) : tyDepth t ≤ tyDepthL types := by
  simp only [unifyObjectsAsMaps] at h
  cases hr : unifyObjectTypesToMap U uns (types.filter isObjectTy) with
  | none => simp [hr] at h
  | some m =>
    cases m <;> simp only [hr] at h <;> try (simp at h; done)
    rename_i e
    have he : tyDepth e < tyDepthL types := by
      have := toMap_depth hU _ e hr
      have := tyDepthL_filter_le isObjectTy types
      omega
    cases hg : unifyG' U uns (types.map fun t => if isObjectTy t then Ty.map e else t) with
    | none => simp [hg] at h
    | some r =>
      cases r <;> simp only [hg] at h <;> try (simp at h; done)
      simp only [Option.some.injEq] at h; subst h
      simp only [unifyG'] at hg
      split at hg
      · simp at hg
      · have := hU uns _ _ hg
        have := mappedOf_depth e types he
        simp only [mappedOf] at this
        omega

theorem general_mem (types : List Ty) (t : Ty) (h : unifyGeneral U uns types = some t) : t ∈ types := by
  simp only [unifyGeneral] at h
  obtain ⟨w, _, hw⟩ := List.exists_of_findSome?_eq_some h
  cases hti : types[w]? with
  | none => simp [hti] at hw
  | some want =>
    simp only [hti] at hw
    split at hw
    · simp only [Option.some.injEq] at hw; subst hw; exact List.mem_of_getElem? hti
    · simp at hw

theorem unifyStep_depth (hU : DepthBounded U) (types : List Ty) (t : Ty)
    (h : Convert.unifyStep U uns types = some t) : tyDepth t ≤ tyDepthL types := by
  have hgen : ∀ t, unifyGeneral U uns types = some t → tyDepth t ≤ tyDepthL types :=
    fun t ht => tyDepth_le_of_mem types t (general_mem types t ht)
  simp only [Convert.unifyStep] at h
  split at h
  · simp at h
  rename_i hne
  have hne' : types ≠ [] := by intro e; subst e; simp at hne
  split at h
  · rename_i hc
    simp only [Bool.and_eq_true, decide_eq_true_eq, beq_iff_eq] at hc
    exact collection_depth hU types .map (by intro e; simp [tyDepth]) _
      (fun hd x hx => by simp [isCollTy, all_kind_of_counts hc.2 hd x hx]) t h
  split at h
  · cases hr : unifyObjectsAsMaps U uns types with
    | none => simp only [hr] at h; exact hgen t h
    | some r => simp only [hr, Option.some.injEq] at h; subst h; exact objectsAsMaps_depth hU types r hr
  split at h
  · rename_i hc
    simp only [Bool.and_eq_true, decide_eq_true_eq, beq_iff_eq] at hc
    exact collection_depth hU types .list (by intro e; simp [tyDepth]) _
      (fun hd x hx => by simp [isCollTy, all_kind_of_counts hc.2 hd x hx]) t h
  split at h
  · cases hr : unifyTuplesAsList U uns types with
    | none => simp only [hr] at h; exact hgen t h
    | some r => simp only [hr, Option.some.injEq] at h; subst h; exact tuplesAsList_depth hU types r hr
  split at h
  · rename_i hc
    simp only [Bool.and_eq_true, decide_eq_true_eq, beq_iff_eq] at hc
    exact collection_depth hU types .set (by intro e; simp [tyDepth]) _
      (fun hd x hx => by simp [isCollTy, all_kind_of_counts hc.2 hd x hx]) t h
  split at h
  · rename_i hc
    simp only [Bool.and_eq_true, decide_eq_true_eq, beq_iff_eq] at hc
    exact objectTypes_depth hU types hne' _ (fun hd => all_kind_of_counts hc.2 hd) t h
  split at h
  · rename_i hc
    simp only [Bool.and_eq_true, decide_eq_true_eq, beq_iff_eq] at hc
    exact tupleTypes_depth hU types hne' _ (fun hd => all_kind_of_counts hc.2 hd) t h
  split at h
  · simp at h
  · exact hgen t h
end

theorem unifyTyF_depth : ∀ n, DepthBounded (unifyTyF n)
  | 0 => by intro uns L t h; simp [unifyTyF] at h
  | n + 1 => fun _ L t h => unifyStep_depth (unifyTyF_depth n) L t h

/-! ## fuel stability -/

/-- list types and placeholders only, or map types and placeholders only: the lists
unifyTuplesAsList / unifyObjectsAsMaps re-enter `unify` with -/
def collOnly (L : List Ty) : Bool :=
  L.all (fun x => isListTy x || x.isDyn) || L.all (fun x => isMapTy x || x.isDyn)

theorem collOnly_no_tuple {L : List Ty} (h : collOnly L = true) : L.filter isTupleTy = [] := by
  simp only [collOnly, Bool.or_eq_true, List.all_eq_true] at h
  apply List.filter_eq_nil_iff.mpr
  intro x hx
  rcases h with h | h <;> have := h x hx <;> cases x <;> simp_all [isListTy, isMapTy, isTupleTy, Ty.isDyn]

theorem collOnly_no_object {L : List Ty} (h : collOnly L = true) : L.filter isObjectTy = [] := by
  simp only [collOnly, Bool.or_eq_true, List.all_eq_true] at h
  apply List.filter_eq_nil_iff.mpr
  intro x hx
  rcases h with h | h <;> have := h x hx <;> cases x <;> simp_all [isListTy, isMapTy, isObjectTy, Ty.isDyn]

theorem listedOf_collOnly {e : Ty} {types : List Ty}
    (h : ∀ x ∈ types, (isListTy x || isTupleTy x || x.isDyn) = true) : collOnly (listedOf e types) = true := by
  simp only [collOnly, listedOf, Bool.or_eq_true, List.all_eq_true, List.mem_map]
  left
  rintro y ⟨x, hx, rfl⟩
  have := h x hx
  cases ht : isTupleTy x <;> simp_all [isListTy]

theorem mappedOf_collOnly {e : Ty} {types : List Ty}
    (h : ∀ x ∈ types, (isMapTy x || isObjectTy x || x.isDyn) = true) : collOnly (mappedOf e types) = true := by
  simp only [collOnly, mappedOf, Bool.or_eq_true, List.all_eq_true, List.mem_map]
  right
  rintro y ⟨x, hx, rfl⟩
  have := h x hx
  cases ht : isObjectTy x <;> simp_all [isMapTy]

theorem toList_nil (U : UFn) (uns : Bool) : unifyTupleTypesToList U uns [] = none := by
  simp [unifyTupleTypesToList, unifyG']
theorem toMap_nil (U : UFn) (uns : Bool) : unifyObjectTypesToMap U uns [] = none := by
  simp [unifyObjectTypesToMap, unifyG']

/-- one more activation changes nothing once `2·depth + 2` are available (`2·depth + 1` for the
lists of list / map types unifyTuplesAsList / unifyObjectsAsMaps re-enter with) -/
theorem unifyTyF_stable_succ : ∀ n,
    (∀ uns ts, 2 * tyDepthL ts + 2 ≤ n → unifyTyF (n + 1) uns ts = unifyTyF n uns ts) ∧
    (∀ uns ts, collOnly ts = true → 2 * tyDepthL ts + 1 ≤ n → unifyTyF (n + 1) uns ts = unifyTyF n uns ts)
  | 0 => ⟨fun _ _ h => by omega, fun _ _ _ h => by omega⟩
  | n + 1 => by
    obtain ⟨ih1, ih2⟩ := unifyTyF_stable_succ n
    have hagree : ∀ ts, 2 * tyDepthL ts ≤ n → AgreeBelow (tyDepthL ts) (unifyTyF (n + 1)) (unifyTyF n) :=
      fun ts _ uns L _ => ih1 uns L (by omega)
    constructor
    · intro uns ts hn
      show Convert.unifyStep (unifyTyF (n + 1)) uns ts = Convert.unifyStep (unifyTyF n) uns ts
      apply unifyStep_congr ts (hagree ts (by omega))
      · intro hall e he
        have hd := toList_depth (unifyTyF_depth (n + 1)) _ e he
        have := tyDepthL_filter_le isTupleTy ts
        have := listedOf_depth e ts (by omega)
        exact ih2 uns _ (listedOf_collOnly hall) (by omega)
      · intro hall e he
        have hd := toMap_depth (unifyTyF_depth (n + 1)) _ e he
        have := tyDepthL_filter_le isObjectTy ts
        have := mappedOf_depth e ts (by omega)
        exact ih2 uns _ (mappedOf_collOnly hall) (by omega)
    · intro uns ts hco hn
      show Convert.unifyStep (unifyTyF (n + 1)) uns ts = Convert.unifyStep (unifyTyF n) uns ts
      apply unifyStep_congr ts (hagree ts (by omega))
      · intro _ e he
        rw [collOnly_no_tuple hco, toList_nil] at he
        simp at he
      · intro _ e he
        rw [collOnly_no_object hco, toMap_nil] at he
        simp at he

/-- FUEL STABILITY: from `2·depth + 2` activations on, more fuel never changes the answer -/
theorem unifyTyF_stable (uns : Bool) (ts : List Ty) : ∀ (k n : Nat), 2 * tyDepthL ts + 2 ≤ n →
    unifyTyF (n + k) uns ts = unifyTyF n uns ts
  | 0, _, _ => rfl
  | k + 1, n, h => by
    rw [show n + (k + 1) = (n + k) + 1 by omega, (unifyTyF_stable_succ (n + k)).1 uns ts (by omega)]
    exact unifyTyF_stable uns ts k n h

theorem unifyTyF_stable_le (uns : Bool) (ts : List Ty) {n m : Nat} (h : 2 * tyDepthL ts + 2 ≤ n) (hm : n ≤ m) :
    unifyTyF m uns ts = unifyTyF n uns ts := by
  have := unifyTyF_stable uns ts (m - n) n h
  rwa [show n + (m - n) = m by omega] at this

/-- `fuelFor ts` always suffices: `unifyTy` is the value of `unifyTyF` at every sufficient fuel -/
theorem unifyTyF_eq_unifyTy (uns : Bool) (ts : List Ty) {n : Nat} (h : 2 * tyDepthL ts + 2 ≤ n) :
    unifyTyF n uns ts = unifyTy uns ts := by
  simp only [unifyTy]
  rcases Nat.le_total n (fuelFor ts) with hle | hle
  · exact (unifyTyF_stable_le uns ts h hle).symm
  · exact unifyTyF_stable_le uns ts (by simp only [fuelFor]; omega) hle

theorem unifyTy_depth : DepthBounded unifyTy := fun uns L t h => unifyTyF_depth (fuelFor L) uns L t h

/-- `unifyTy` is a fixed point of one activation of `unify`: the fuel-free reading of unify.go
(every nested `unify(…)` call is `unifyTy` again) -/
theorem unifyTy_fixpoint (uns : Bool) (ts : List Ty) : unifyTy uns ts = Convert.unifyStep unifyTy uns ts := by
  have h1 : unifyTy uns ts = unifyTyF (fuelFor ts + 1) uns ts :=
    (unifyTyF_eq_unifyTy uns ts (by simp only [fuelFor]; omega)).symm
  rw [h1]
  show Convert.unifyStep (unifyTyF (fuelFor ts)) uns ts = _
  have hag : ∀ uns' L, tyDepthL L ≤ tyDepthL ts → unifyTyF (fuelFor ts) uns' L = unifyTy uns' L :=
    fun uns' L hL => unifyTyF_eq_unifyTy uns' L (by simp only [fuelFor]; omega)
  apply unifyStep_congr ts (fun uns' L hL => hag uns' L (by omega))
  · intro _ e he
    have hd := toList_depth (unifyTyF_depth (fuelFor ts)) _ e he
    have := tyDepthL_filter_le isTupleTy ts
    exact hag uns _ (listedOf_depth e ts (by omega))
  · intro _ e he
    have hd := toMap_depth (unifyTyF_depth (fuelFor ts)) _ e he
    have := tyDepthL_filter_le isObjectTy ts
    exact hag uns _ (mappedOf_depth e ts (by omega))

end Unify
end CtyModel
