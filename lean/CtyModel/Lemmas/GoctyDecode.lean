import CtyModel.Lemmas.GoctyNum
namespace CtyModel
namespace Gocty

theorem anyPanic_cons {α} (r : Res α) (rs : List (Res α)) :
    anyPanic (r :: rs) = (r.isPanic || anyPanic rs) := by
  cases r <;> simp [anyPanic, Res.isPanic]

theorem anyPanic_false_iff {α} : ∀ (rs : List (Res α)), anyPanic rs = false ↔ ∀ r ∈ rs, r.isPanic = false
  | [] => by simp [anyPanic]
  | r :: rs => by
    rw [anyPanic_cons, Bool.or_eq_false_iff, anyPanic_false_iff rs]
    simp

theorem mem_zipPR {c : Payload} {r : Res GoVal} : ∀ {cs : List Payload} {rs : List (Res GoVal)},
    (c, r) ∈ zipPR cs rs → r ∈ rs
  | [], _, h => by simp [zipPR] at h
  | _ :: _, [], h => by simp [zipPR] at h
  | c' :: cs, r' :: rs, h => by
    simp only [zipPR, List.mem_cons, Prod.mk.injEq] at h
    rcases h with h | h
    · simp [h.2]
    · exact List.mem_cons_of_mem _ (mem_zipPR h)

theorem mem_insertSorted (ety : Ty) (x y : Payload × Res GoVal) : ∀ (l : List (Payload × Res GoVal)),
    y ∈ insertSorted ety x l → y = x ∨ y ∈ l
  | [], h => by simpa [insertSorted] using h
  | z :: l, h => by
    simp only [insertSorted] at h
    split at h
    · simpa using h
    · simp only [List.mem_cons] at h ⊢
      rcases h with h | h
      · exact Or.inr (Or.inl h)
      · rcases mem_insertSorted ety x y l h with h | h
        · exact Or.inl h
        · exact Or.inr (Or.inr h)

theorem mem_foldl_insertSorted (ety : Ty) (y : Payload × Res GoVal) : ∀ (xs acc : List (Payload × Res GoVal)),
    y ∈ xs.foldl (fun acc x => insertSorted ety x acc) acc → y ∈ xs ∨ y ∈ acc
  | [], acc, h => Or.inr h
  | x :: xs, acc, h => by
    simp only [List.foldl_cons] at h
    rcases mem_foldl_insertSorted ety y xs _ h with h | h
    · exact Or.inl (List.mem_cons_of_mem _ h)
    · rcases mem_insertSorted ety x y acc h with h | h
      · exact Or.inl (by simp [h])
      · exact Or.inr h

/-- visiting the members of a set in iteration order meets the same per-member results -/
theorem mem_setOrder {ety : Ty} {cs : List Payload} {rs : List (Res GoVal)} {r : Res GoVal}
    (h : r ∈ setOrder ety cs rs) : r ∈ rs := by
  unfold setOrder at h
  obtain ⟨⟨c, r'⟩, hm, rfl⟩ := List.mem_map.mp h
  rcases mem_foldl_insertSorted ety (c, r') _ [] hm with h | h
  · exact mem_zipPR h
  · simp at h

theorem setOrder_noPanic (ety : Ty) (cs : List Payload) (rs : List (Res GoVal)) (h : anyPanic rs = false) :
    anyPanic (setOrder ety cs rs) = false := by
  rw [anyPanic_false_iff] at h ⊢
  exact fun r hr => h r (mem_setOrder hr)

theorem seqAll_isPanic {α} : ∀ (rs : List (Res α)), anyPanic rs = false → (seqAll rs).isPanic = false
  | [], _ => rfl
  | r :: rs, h => by
    rw [anyPanic_cons] at h
    simp only [Bool.or_eq_false_iff] at h
    have ih := seqAll_isPanic rs h.2
    cases r with
    | ok a =>
      simp only [seqAll]
      cases hs : seqAll rs <;> simp [Res.isPanic, hs] at ih ⊢
    | err c => rfl
    | panic w => simp [Res.isPanic] at h
    | unmodelled => rfl

theorem combAll_isPanic {α} (rs : List (Res α)) (h : anyPanic rs = false) : (combAll rs).isPanic = false := by
  unfold combAll
  simp only [h]
  split
  · rfl
  · simp only [Bool.and_false, Bool.false_eq_true, if_false]
    split <;> rfl

theorem mapRes_isPanic {α β} (f : α → β) (r : Res α) : (mapRes f r).isPanic = r.isPanic := by
  cases r <;> rfl

theorem fromNumFloat_isPanic (x : Num) (is32 : Bool) : (fromNumFloat x is32).isPanic = false := by
  unfold fromNumFloat
  simp only []
  split
  · rfl
  · split <;> rfl

theorem fromNum_isPanic (x : Num) (T : GoTy) : (fromNum x T).isPanic = false := by
  cases T with
  | int w s =>
    rcases fromNum_int_ok_or_err x w s with ⟨g, h⟩ | ⟨c, h⟩ <;> rw [h] <;> rfl
  | float is32 =>
    have := fromNumFloat_isPanic x is32
    simp only [fromNum]
    cases h : fromNumFloat x is32 <;> simp [Res.isPanic, h] at this ⊢
  | bigInt => simp only [fromNum]; cases x.toInt? <;> rfl
  | _ => rfl


theorem mem_inOrder {α} {order names : List String} {rs : List (Res α)} {r : Res α}
    (h : r ∈ inOrder order names rs) : r ∈ rs := by
  unfold inOrder at h
  obtain ⟨k, _, hk⟩ := List.mem_filterMap.mp h
  clear h
  induction names generalizing rs with
  | nil => simp [lookupKey] at hk
  | cons n ns ih =>
    cases rs with
    | nil => simp [lookupKey] at hk
    | cons x xs =>
      simp only [lookupKey] at hk
      split at hk
      · cases hk; simp
      · exact List.mem_cons_of_mem _ (ih hk)

theorem firstFailure_isPanic {α β} : ∀ (rs : List (Res α)) (f : Res β), anyPanic rs = false →
    firstFailure rs = some f → f.isPanic = false
  | [], _, _, h => by simp [firstFailure] at h
  | r :: rs, f, hp, h => by
    rw [anyPanic_cons, Bool.or_eq_false_iff] at hp
    simp only [firstFailure] at h
    cases r with
    | ok a => simp only [failureOf] at h; exact firstFailure_isPanic rs f hp.2 h
    | err c => simp only [failureOf, Option.some.injEq] at h; subst h; rfl
    | panic w => simp [Res.isPanic] at hp
    | unmodelled => simp only [failureOf, Option.some.injEq] at h; subst h; rfl

theorem combSched_isPanic {α} (order names : List String) (rs : List (Res α)) (h : anyPanic rs = false) :
    (combSched order names rs).isPanic = false := by
  unfold combSched
  split; · rfl
  have h2 : anyPanic (inOrder order names rs) = false := by
    rw [anyPanic_false_iff] at h ⊢
    exact fun r hr => h r (mem_inOrder hr)
  split
  · rename_i f hf; exact firstFailure_isPanic _ f h2 hf
  · split
    · rename_i f hf; exact firstFailure_isPanic _ f h hf
    · rfl

open Payload in
mutual
theorem fromCtyP_noPanic : ∀ (p : Payload) (S : Sched) (ty : Ty) (T : GoTy), containsMarked p = false →
    (fromCtyP S [] ty p T).isPanic = false
  | .null, S, ty, T, _ => by
    unfold fromCtyP
    split; · rfl
    simp only []
    split
    · split <;> rfl
    · split
      · split <;> rfl
      · split <;> rfl
      · rfl
  | .unk _, S, ty, T, _ => by
    unfold fromCtyP; split <;> rfl
  | .b v, S, ty, T, _ => by
    unfold fromCtyP; split; · rfl
    simp only []
    split
    · split <;> rfl
    · rfl
  | .n x, S, ty, T, _ => by
    unfold fromCtyP; split; · rfl
    simp only []
    split
    · simp [mapRes_isPanic, fromNum_isPanic]
    · rfl
  | .s v, S, ty, T, _ => by
    unfold fromCtyP; split; · rfl
    simp only []
    split
    · split <;> rfl
    · rfl
  | .caps, S, ty, T, _ => by
    unfold fromCtyP; split <;> rfl
  | .bad _, S, ty, T, _ => by
    unfold fromCtyP; split <;> rfl
  | .marked _ _, S, ty, T, h => by simp [containsMarked] at h
  | .seq cs, S, ty, T, h => by
    simp only [containsMarked] at h
    unfold fromCtyP; split; · rfl
    simp only []
    split
    · split
      · simp [mapRes_isPanic, seqAll_isPanic _ (fromCtyL_noPanic cs _ _ _ h)]
      · simp only [List.isEmpty_nil, Bool.not_true, Bool.false_eq_true, if_false]
        split
        · rfl
        · simp [mapRes_isPanic, seqAll_isPanic _ (fromCtyL_noPanic cs _ _ _ h)]
      · rfl
    · split
      · split
        · rfl
        · simp [mapRes_isPanic, seqAll_isPanic _ (fromCtyZ_noPanic cs _ _ _ h)]
      · rfl
      · rfl
      · rfl
    · rfl
  | .smap ks cs, S, ty, T, h => by
    simp only [containsMarked] at h
    unfold fromCtyP; split; · rfl
    simp only []
    split
    · split
      · simp [mapRes_isPanic, seqAll_isPanic _ (fromCtyL_noPanic cs _ _ _ h)]
      · rfl
    · split
      · rfl
      · split
        · split
          · rfl
          · simp [mapRes_isPanic, combSched_isPanic _ _ _ (fromCtyA_noPanic cs _ _ _ _ _ h)]
        · split <;> rfl
        · split <;> rfl
        · rfl
    · rfl
  | .sset _ cs, S, ty, T, h => by
    simp only [containsMarked] at h
    unfold fromCtyP; split; · rfl
    simp only []
    split
    · split
      · simp only [List.isEmpty_nil, Bool.not_true, Bool.false_eq_true, if_false]
        split
        · rfl
        · simp [mapRes_isPanic, seqAll_isPanic _ (setOrder_noPanic _ cs _ (fromCtyL_noPanic cs _ _ _ h))]
      · simp only [List.isEmpty_nil, Bool.not_true, Bool.false_eq_true, if_false]
        split
        · rfl
        · split
          · rfl
          · simp [mapRes_isPanic, seqAll_isPanic _ (setOrder_noPanic _ cs _ (fromCtyL_noPanic cs _ _ _ h))]
      · rfl
    · rfl
theorem fromCtyL_noPanic : ∀ (cs : List Payload) (S : Sched) (ety : Ty) (E : GoTy), containsMarkedL cs = false →
    anyPanic (fromCtyL S ety cs E) = false
  | [], _, _, _, _ => rfl
  | c :: cs, S, ety, E, h => by
    simp only [containsMarkedL, Bool.or_eq_false_iff] at h
    simp only [fromCtyL, anyPanic_cons, fromCtyP_noPanic c S ety E h.1, fromCtyL_noPanic cs S ety E h.2,
      Bool.or_false]
theorem fromCtyZ_noPanic : ∀ (cs : List Payload) (S : Sched) (etys : List Ty) (tys : List GoTy),
    containsMarkedL cs = false → anyPanic (fromCtyZ S [] etys cs tys) = false
  | [], _, _, _, _ => by simp [fromCtyZ, anyPanic]
  | c :: cs, _, [], _, _ => by simp [fromCtyZ, anyPanic]
  | c :: cs, _, _ :: _, [], _ => by simp [fromCtyZ, anyPanic]
  | c :: cs, S, ety :: etys, T :: tys, h => by
    simp only [containsMarkedL, Bool.or_eq_false_iff] at h
    simp only [fromCtyZ, anyPanic_cons, fromCtyP_noPanic c S ety T h.1, fromCtyZ_noPanic cs S etys tys h.2,
      Bool.or_false]
theorem fromCtyA_noPanic : ∀ (cs : List Payload) (S : Sched) (names : List String) (atys : List Ty)
    (tags : List String) (tys : List GoTy),
    containsMarkedL cs = false → anyPanic (fromCtyA S [] names atys cs tags tys) = false
  | [], _, _, _, _, _, _ => by simp [fromCtyA, anyPanic]
  | c :: cs, _, [], _, _, _, _ => by simp [fromCtyA, anyPanic]
  | c :: cs, _, _ :: _, [], _, _, _ => by simp [fromCtyA, anyPanic]
  | c :: cs, S, k :: names, aty :: atys, tags, tys, h => by
    simp only [containsMarkedL, Bool.or_eq_false_iff] at h
    simp only [fromCtyA, anyPanic_cons, fromCtyA_noPanic cs S names atys tags tys h.2, Bool.or_false]
    split
    · rfl
    · exact fromCtyP_noPanic c S aty _ h.1
end

theorem base_not_ptr : ∀ (T : GoTy) (e : GoTy), T.base ≠ .ptr e
  | .ptr t, e => by simp only [GoTy.base]; exact base_not_ptr t e
  | .int _ _, _ | .float _, _ | .str, _ | .bool, _ | .slice _, _ | .array _ _, _ | .map _, _
  | .struct _ _, _ | .bigInt, _ | .bigFloat, _ | .cval, _ => by simp [GoTy.base]

/-- unknown values are refused by every target that is not a `cty.Value` (marked or not) -/
theorem fromCtyP_unknown (S : Sched) (ms : List String) (ty : Ty) (r : Rfn) (T : GoTy) (h : T.base.isCval = false) :
    fromCtyP S ms ty (.unk r) T = .err "value must be known" := by
  unfold fromCtyP; simp [h]

theorem fromCtyP_marked_unknown (S : Sched) (ms m : List String) (ty : Ty) (r : Rfn) (T : GoTy) (h : T.base.isCval = false) :
    fromCtyP S ms ty (.marked m (.unk r)) T = .err "value must be known" := by
  unfold fromCtyP; simp only [h, Bool.false_eq_true, if_false]; exact fromCtyP_unknown S _ ty r T h

/-- null is refused by a target that is neither a pointer, a slice, a map nor a `cty.Value` -/
theorem fromCtyP_null_nonnilable (S : Sched) (ty : Ty) (T : GoTy) (h1 : T.nilableKind = false) (h2 : T.isCval = false) :
    ∃ c, fromCtyP S [] ty .null T = .err c := by
  have hb : T.base = T := by cases T <;> simp_all [GoTy.base, GoTy.nilableKind]
  have hd : T.depth = 0 := by cases T <;> simp_all [GoTy.depth, GoTy.nilableKind]
  unfold fromCtyP
  simp only [hb, h2, Bool.false_eq_true, if_false, hd]
  cases ty <;> cases T <;> simp_all [nullViaPtr, GoTy.nilableKind]

theorem fromCtyP_shape (S : Sched) (ty : Ty) (p : Payload) (T : GoTy) (hk : kindOK ty p = true)
    (hs : shapeOK ty T.base = false) : ∃ c, fromCtyP S [] ty p T = .err c := by
  have hc : T.base.isCval = false := by
    cases hb : T.base <;> simp_all [GoTy.isCval, shapeOK]
  unfold fromCtyP
  simp only [hc, Bool.false_eq_true, if_false]
  generalize T.base = B at hs
  cases ty <;> cases p <;> simp [kindOK] at hk <;> cases B <;> simp_all [shapeOK, fromNum, mapRes]

end Gocty
end CtyModel
