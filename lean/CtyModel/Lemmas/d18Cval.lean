/-
d18: containers of embedded dynamic values (`[]cty.Value`, `[n]cty.Value`, `map[string]cty.Value`)
round-trip exactly when the members are all of one (non-dynamic) type — the case the blanket
exclusion `!hasCval e` of `rtSide` left out.  Members of different types have no cty list / map
and are refused by `ToCtyValue` with an error (see `Props/C18.lean`).
-/
import CtyModel.Lemmas.GoctyStruct
namespace CtyModel
namespace Gocty

theorem toCtyL_cvals (norm : String → String) : ∀ (ws : List Value),
    toCtyL norm (ws.map GoVal.cval) .dyn = ws.map Res.ok
  | [] => rfl
  | w :: ws => by
    simp only [List.map_cons, toCtyL, toCtyG, if_true, passthrough, isDynTy, ite_self, toCtyL_cvals norm ws]

theorem fromCtyL_cvals (S : Sched) (t : Ty) : ∀ (ws : List Value), (∀ w ∈ ws, w.ty = t) →
    fromCtyL S t (payloads ws) .cval = (ws.map GoVal.cval).map Res.ok
  | [], _ => rfl
  | w :: ws, h => by
    have hw : w.ty = t := h w (by simp)
    simp only [payloads, fromCtyL, List.map_cons]
    rw [fromCtyL_cvals S t ws (fun x hx => h x (List.mem_cons_of_mem _ hx))]
    congr 1
    unfold fromCtyP
    simp only [GoTy.base, GoTy.isCval, if_true, GoTy.depth, wrapPtr, pushMarks, List.isEmpty_nil]
    rw [← hw]

theorem ne_nil_isEmpty {α} {l : List α} (h : l ≠ []) : l.isEmpty = false := by cases l <;> simp_all

theorem rt_cval_slice (norm : String → String) (ws : List Value) (t : Ty) (hne : ws ≠ [])
    (hty : ∀ w ∈ ws, w.ty = t) (hd : isDynTy t = false) (heq : Ty.equals t t = true) :
    toCtyG norm true (.slice (ws.map .cval)) (.list .dyn) = .ok ⟨.list t, .seq (payloads ws)⟩ ∧
    ∀ S, fromCtyP S [] (.list t) (.seq (payloads ws)) (.slice .cval) = .ok (.slice (ws.map .cval)) := by
  have hne' : ws.map GoVal.cval ≠ [] := by simpa using hne
  constructor
  · simp only [toCtyG, ne_nil_isEmpty hne', Bool.false_eq_true, if_false, toCtyL_cvals, seqAll_map_ok, canListVal,
      listVal, ne_nil_isEmpty hne, elemTypeOf_dyn t hd heq ws hne hty, Bool.not_true]
  · intro S
    unfold fromCtyP
    simp only [GoTy.base, GoTy.isCval, GoTy.depth, wrapPtr, Bool.false_eq_true, if_false, List.isEmpty_nil, Bool.not_true]
    rw [fromCtyL_cvals S t ws hty, seqAll_map_ok]
    rfl

theorem rt_cval_array (norm : String → String) (ws : List Value) (t : Ty) (hne : ws ≠ [])
    (hty : ∀ w ∈ ws, w.ty = t) (hd : isDynTy t = false) (heq : Ty.equals t t = true) :
    toCtyG norm true (.arr (ws.map .cval)) (.list .dyn) = .ok ⟨.list t, .seq (payloads ws)⟩ ∧
    ∀ S, fromCtyP S [] (.list t) (.seq (payloads ws)) (.array ws.length .cval) = .ok (.arr (ws.map .cval)) := by
  have hne' : ws.map GoVal.cval ≠ [] := by simpa using hne
  constructor
  · simp only [toCtyG, ne_nil_isEmpty hne', Bool.false_eq_true, if_false, toCtyL_cvals, seqAll_map_ok, canListVal,
      listVal, ne_nil_isEmpty hne, elemTypeOf_dyn t hd heq ws hne hty, Bool.not_true]
  · intro S
    unfold fromCtyP
    simp only [GoTy.base, GoTy.isCval, GoTy.depth, wrapPtr, Bool.false_eq_true, if_false, List.isEmpty_nil, Bool.not_true,
      payloads_length, ne_eq, not_true_eq_false]
    rw [fromCtyL_cvals S t ws hty, seqAll_map_ok]
    rfl

theorem rt_cval_map (norm : String → String) (ks : List String) (ws : List Value) (t : Ty) (hne : ws ≠ [])
    (hks : ks.map norm = ks)
    (hty : ∀ w ∈ ws, w.ty = t) (hd : isDynTy t = false) (heq : Ty.equals t t = true) :
    toCtyG norm true (.map ks (ws.map .cval)) (.map .dyn) = .ok ⟨.map t, .smap ks (payloads ws)⟩ ∧
    ∀ S, fromCtyP S [] (.map t) (.smap ks (payloads ws)) (.map .cval) = .ok (.map ks (ws.map .cval)) := by
  have hne' : ws.map GoVal.cval ≠ [] := by simpa using hne
  constructor
  · simp only [toCtyG, ne_nil_isEmpty hne', Bool.false_eq_true, if_false, toCtyL_cvals, combAll_map_ok, canListVal,
      mapVal, ne_nil_isEmpty hne, elemTypeOf_dyn t hd heq ws hne hty, Bool.not_true, hks, bne_self_eq_false]
  · intro S
    unfold fromCtyP
    simp only [GoTy.base, GoTy.isCval, GoTy.depth, wrapPtr, Bool.false_eq_true, if_false, List.isEmpty_nil, Bool.not_true]
    rw [fromCtyL_cvals S t ws hty, seqAll_map_ok]
    rfl

/-! ### what `uniformCv` (the side condition of the round trip) says -/

theorem sameTyCv_inv (t : Ty) : ∀ (vs : List GoVal), sameTyCv t vs = true →
    ∃ ws : List Value, vs = ws.map GoVal.cval ∧ ∀ w ∈ ws, w.ty = t
  | [], _ => ⟨[], rfl, by simp⟩
  | .cval w :: vs, h => by
    simp only [sameTyCv, Bool.and_eq_true] at h
    obtain ⟨ws, h1, h2⟩ := sameTyCv_inv t vs h.2
    refine ⟨w :: ws, by simp [h1], ?_⟩
    intro x hx
    rcases List.mem_cons.mp hx with rfl | hx
    · exact (Ty.same_iff _ _).mp h.1
    · exact h2 x hx
  | .int _ :: _, h | .flt _ :: _, h | .nan :: _, h | .str _ :: _, h | .bool _ :: _, h | .nilSlice :: _, h
  | .slice _ :: _, h | .arr _ :: _, h | .nilMap :: _, h | .map _ _ :: _, h | .nilPtr :: _, h | .ptr _ :: _, h
  | .struct _ _ :: _, h | .bigInt _ :: _, h | .bigFloat _ :: _, h | .cvalNil :: _, h => by simp [sameTyCv] at h

theorem uniformCv_inv {E : GoTy} {vs : List GoVal} (h : uniformCv E vs = true) :
    E = .cval ∧ (vs = [] ∨ ∃ (ws : List Value) (t : Ty), vs = ws.map GoVal.cval ∧ ws ≠ [] ∧ (∀ w ∈ ws, w.ty = t) ∧
      isDynTy t = false ∧ Ty.equals t t = true) := by
  cases E <;> try (simp [uniformCv] at h; done)
  refine ⟨rfl, ?_⟩
  cases vs with
  | nil => exact Or.inl rfl
  | cons v vs =>
    right
    cases v <;> try (simp [uniformCv] at h; done)
    rename_i w
    simp only [uniformCv, Bool.and_eq_true, Bool.not_eq_true'] at h
    obtain ⟨ws, h1, h2⟩ := sameTyCv_inv w.ty vs h.2
    refine ⟨w :: ws, w.ty, by simp [h1], by simp, ?_, h.1.1, h.1.2⟩
    intro x hx
    rcases List.mem_cons.mp hx with rfl | hx
    · rfl
    · exact h2 x hx

end Gocty
end CtyModel
