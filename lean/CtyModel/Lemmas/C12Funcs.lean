/-
C12, function level: the UNKNOWN branches of the modelled `Impl` callbacks (Stdlib/Collection.lean —
tied to the code by the C12 correspondence on weakened arguments) and "wholly known in, wholly known
out" through `Call`.
-/
import CtyModel.Lemmas.C12Refine
import CtyModel.Lemmas.OpsKnown
namespace CtyModel
namespace C12L
open Fn Stdlib

/-! ### wholly known in ⇒ wholly known out, through `Call` -/

/-- an `Impl` that answers wholly known values on wholly known arguments -/
def ImplKnownOut (impl : ImplFn) : Prop :=
  ∀ as rt v, (∀ a ∈ as, a.whollyKnown = true) → impl as rt = .ok v → v.whollyKnown = true

theorem whollyKnown_isKnown {v : Value} (h : v.whollyKnown = true) : v.isKnown = true := by
  obtain ⟨t, p⟩ := v
  cases p <;> simp_all [Value.whollyKnown, Payload.whollyKnown, Value.isKnown, Payload.isKnown, Payload.unmark1]
  rename_i ms q
  cases q <;> simp_all [Payload.whollyKnown]

/-- wholly known, mark-free arguments: `Call` (before the declared refinement) returns what `Impl` returned -/
theorem known_args_impl_value (spec : Spec) (tf : TypeFn) (impl : ImplFn) (args : List Value) (r : Value)
    (hk : ∀ a ∈ args, a.whollyKnown = true) (hm : ∀ a ∈ args, a.containsMarked = false)
    (hr : (callUnrefined spec tf impl args).1 = .ok r) :
    r = Value.unknown .dyn ∨ ∃ rt, tf args = .ok rt ∧ impl args rt = .ok r := by
  rw [callUnrefined_eq] at hr
  by_cases hc : spec.countOK args.length = true
  · simp only [hc, if_true] at hr
    obtain ⟨hta, hia, hua⟩ := unmarked_args hc hm
    cases hf : firstFail (spec.expand args.length) args with
    | some kf =>
      obtain ⟨k, f⟩ := kf
      rw [hf] at hr
      cases f with
      | null => simp at hr
      | nonconforming => simp at hr
      | dynamic =>
        left
        simp only [Out.ok.injEq, hua] at hr
        rw [← hr]; rfl
    | none =>
      rw [hf] at hr
      simp only [hta] at hr
      cases ht : tf args with
      | err c => rw [ht] at hr; simp at hr
      | panic w => rw [ht] at hr; simp at hr
      | unmodelled => rw [ht] at hr; simp at hr
      | ok rt =>
        rw [ht] at hr
        simp only at hr
        have hu : (pass2 (spec.expand args.length) args).unknown = false := by
          cases hu : (pass2 (spec.expand args.length) args).unknown with
          | false => rfl
          | true =>
            exfalso
            obtain ⟨i, p, v, hp, hv, hb⟩ := pass2_unknown_true hu
            have hvm : v ∈ args := List.mem_of_getElem? hv
            have := whollyKnown_isKnown (hk v hvm)
            simp [Param.blocksUnknown, this] at hb
        simp only [hu, Bool.false_eq_true, if_false, hia] at hr
        right
        refine ⟨rt, rfl, ?_⟩
        cases hi : impl args rt with
        | err c => rw [hi] at hr; simp at hr
        | panic w => rw [hi] at hr; simp at hr
        | unmodelled => rw [hi] at hr; simp at hr
        | ok v =>
          rw [hi] at hr
          simp only at hr
          split at hr
          · simp at hr
          · simp only [Out.ok.injEq] at hr
            have : withUnhandled spec args v = v := by
              unfold withUnhandled; simp [hua]
            rw [this] at hr
            rw [hr]
  · simp [hc] at hr

/-! ### unknown branches of modelled `Impl`s: the answer is the unrefined unknown of the result type -/

theorem compact_unknown_branch (E : Env) (w : Value) (rest : List Value) (rt : Ty) (h : w.whollyKnown = false) :
    compactImpl E (w :: rest) rt = .ok (Value.unknown rt) := by
  simp [compactImpl, h]

theorem reverse_set_unknown_branch (E : Env) (e : Ty) (p : Payload) (rest : List Value) (rt : Ty)
    (hm : p.isMarked = false) (h : p.whollyKnown = false) :
    reverseImpl E (⟨.set e, p⟩ :: rest) rt = .ok (Value.unknown rt) := by
  have hu : (⟨.set e, p⟩ : Value).unmark = ⟨.set e, p⟩ := by
    cases p <;> simp_all [Value.unmark, Payload.unmark1, Payload.isMarked]
  have hms : (⟨.set e, p⟩ : Value).marks = [] := by
    cases p <;> simp_all [Value.marks, Payload.marks1, Payload.isMarked]
  simp only [reverseImpl, hu, hms, isSetTy, Value.whollyKnown, h, Bool.not_false, Bool.and_self, if_true]
  rfl

theorem coalesce_unknown_branch (E : Env) (w : Value) (rest : List Value) (rt : Ty) (h : w.isKnown = false) :
    coalesceImpl E (w :: rest) rt = .ok (Value.unknown rt) := by
  simp [coalesceImpl, coalesceLoop, h]

theorem coalescelist_unknown_branch (w : Value) (rest : List Value) (rt : Ty) (h : w.isKnown = false) :
    coalesceListImpl (w :: rest) rt = .ok (Value.unknown rt) := by
  simp [coalesceListImpl, coalesceListLoop, h]

/-- the unrefined unknown of a type that the concrete result's type matches admits the concrete result -/
theorem unknown_covers_of_matches (rt : Ty) (r : Value) (h : Ty.matches rt r.ty = true) :
    Covers (Value.unknown rt) r = true := by
  obtain ⟨t, p⟩ := r
  exact covers_unknown h

end C12L
end CtyModel
