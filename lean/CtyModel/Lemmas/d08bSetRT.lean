/-
d08b, part 5 (audit C08 item 4, "set → list → set missing entirely"): a set converted to a list and
back.  The one fact about `set.Set` it rests on is stated as a decidable side condition, `setCanon`:
rebuilding the set from its members in iteration order reproduces the payload (the bucket ids are
the members' hashes, members of one bucket in insertion order) — true of every set the Go library
builds, and what the correspondence compares on every `cv.convert` case with a set result.
-/
import CtyModel.Lemmas.ConvertRoundtrip
import CtyModel.Lemmas.ConvertD08Len
import CtyModel.Lemmas.TyMisc
import CtyModel.Lemmas.d08bUnmark
namespace CtyModel
namespace D08B
open Convert Ty

/-- the payload of a set is what `NewSetFromSlice` builds from its members taken in iteration order -/
def setCanon (E : Env) (e : Ty) (ids : List Int) (ps : List Payload) : Prop :=
  newSet E e (setValues E e ps) = .ok (.sset ids ps)

theorem stripNull_clean (e : Ty) (heo : hasOpt e = false) {p : Payload} (hc : p.containsMarked = false) :
    stripNull ⟨e, p⟩ = ⟨e, p⟩ := by
  have hm : p.isMarked = false := by cases p <;> simp_all [Payload.containsMarked, Payload.isMarked]
  unfold stripNull
  split
  · rename_i hn
    have hp : p = .null := by
      cases p <;> simp_all [Value.isNull, Payload.isNull, Payload.unmark1, Payload.isMarked]
    subst hp
    rw [stripOpt_id_of_noOpt e heo]
    rfl
  · rfl

theorem marksOfAll_clean : ∀ (vs : List Value), (∀ v ∈ vs, v.v.containsMarked = false) → marksOfAll vs = []
  | [], _ => rfl
  | v :: vs, h => by
    simp only [marksOfAll]
    have h1 : v.marksDeep = [] := Payload.marksDeep_of_not_containsMarked _ (h v (by simp))
    rw [h1, marksOfAll_clean vs fun x hx => h x (List.mem_cons_of_mem _ hx)]
    rfl

/-- the members, in iteration order, as the element values both conversions see -/
def members (E : Env) (e : Ty) (ps : List Payload) : List Value := (setValues E e ps).map fun p => ⟨e, p⟩

theorem members_facts {E : Env} (e : Ty) (ps : List Payload) (hne : ps ≠ [])
    (hcl : Payload.containsMarkedL ps = false) :
    members E e ps ≠ [] ∧ (∀ x ∈ members E e ps, x.ty = e) ∧
    (∀ x ∈ members E e ps, x.v.containsMarked = false) ∧ (members E e ps).map (·.v) = setValues E e ps := by
  have hmem : ∀ x ∈ members E e ps, x.ty = e ∧ x.v.containsMarked = false := by
    intro x hx
    obtain ⟨p, hp, rfl⟩ := List.mem_map.mp hx
    exact ⟨rfl, clean_of_memL hcl p (setValues_mem hp)⟩
  refine ⟨?_, fun x hx => (hmem x hx).1, fun x hx => (hmem x hx).2, ?_⟩
  · intro h0
    have : (members E e ps).length = ps.length := by simp [members, setValues_length]
    rw [h0] at this
    exact hne (List.length_eq_zero_iff.mp this.symm)
  · simp [members, List.map_map, Function.comp_def]

/-- **set → list → set**: a wholly known set of a placeholder-free element type, members unmarked,
converts to the list of its members in iteration order, and that list converts back (an unsafe
conversion: list → set) to the ORIGINAL set — for every environment, every fuel ≥ 2. -/
theorem set_list_set_same {E : Env} (fuel : Nat) (e : Ty) (ids : List Int) (ps : List Payload)
    (he : wf e = true) (heo : hasOpt e = false) (hed : hasDyn e = false) (hne : ps ≠ [])
    (hwk : Payload.whollyKnownL ps = true) (hcl : Payload.containsMarkedL ps = false)
    (hcanon : setCanon E e ids ps) :
    convert E (fuel + 2) ⟨.set e, .sset ids ps⟩ (.list e) = .ok ⟨.list e, .seq (setValues E e ps)⟩ ∧
    convert E (fuel + 2) ⟨.list e, .seq (setValues E e ps)⟩ (.set e) = .ok ⟨.set e, .sset ids ps⟩ := by
  have hnd : e.isDyn = false := not_isDyn_of_noDyn hed
  have hee : e.equals e = true := equals_self he
  obtain ⟨hnz, hty, hclean, hv⟩ := members_facts (E := E) e ps hne hcl
  have hmr : ∀ (rec : Rec), mapRes (fun x => (applyOpt rec Plan.nil x).map stripNull) (members E e ps) =
      .ok (members E e ps) := by
    intro rec
    apply mapRes_id
    intro x hx
    obtain ⟨p, hp, rfl⟩ := List.mem_map.mp hx
    simp only [applyOpt, Res.map]
    rw [stripNull_clean e heo (clean_of_memL hcl p (setValues_mem hp))]
  have hemp : (members E e ps).isEmpty = false := by
    cases hz : members E e ps with
    | nil => exact absurd hz hnz
    | cons => rfl
  constructor
  · have hg : getConv E (.set e) (.list e) true = some (.wrap (.list e) (.collToList e .nil)) := by
      have h1 : (Ty.list e).isDyn = false := rfl
      have h2 : (Ty.set e).isDyn = false := rfl
      simp [getConv, gck, h1, h2, isPrim, hee]
    have hneq : (Ty.set e).equals (Ty.list e).stripOpt = false := by simp [stripOpt, Ty.equals]
    have hlk : lengthKnown ⟨.set e, .sset ids ps⟩ = true := by simp [lengthKnown, hwk]
    have hstep : applyStep E (apply E fuel) (.collToList e .nil) ⟨.set e, .sset ids ps⟩ =
        .ok ⟨.list e, .seq (setValues E e ps)⟩ := by
      simp only [applyStep, hlk, Bool.not_true, Bool.false_eq_true, if_false, elemsOf, Res.bind]
      have := hmr (apply E fuel)
      unfold members at this hemp hnz hty hv
      rw [this]
      simp only [hemp, Bool.false_eq_true, if_false, canCollVal_same he hnd hnz hty, Bool.not_true]
      unfold listVal
      simp [hemp, elemTyOf_same he hnd hnz hty, hv]
    have h1 : (Ty.list e).isDyn = false := rfl
    simp only [convert, convertWith, hneq, hg, apply, applyStep, Value.isMarked, Payload.isMarked, h1,
      Value.isKnown, Payload.isKnown, Payload.unmark1, Value.isNull, Payload.isNull, Bool.false_eq_true,
      if_false, Bool.not_true, Bool.or_self]
    exact hstep
  · have hg : getConv E (.list e) (.set e) true = some (.wrap (.set e) (.collToSet e .nil)) := by
      have h1 : (Ty.list e).isDyn = false := rfl
      have h2 : (Ty.set e).isDyn = false := rfl
      simp [getConv, gck, h1, h2, isPrim, hee]
    have hneq : (Ty.list e).equals (Ty.set e).stripOpt = false := by simp [stripOpt, Ty.equals]
    have hstrip : (members E e ps).map (fun v => v.v.stripMarks) = setValues E e ps := by
      rw [← hv]
      apply List.map_congr_left
      intro x hx
      exact Payload.stripMarks_of_clean _ (hclean x hx)
    have hstep : applyStep E (apply E fuel) (.collToSet e .nil) ⟨.list e, .seq (setValues E e ps)⟩ =
        .ok ⟨.set e, .sset ids ps⟩ := by
      simp only [applyStep, elemsOf, Res.bind]
      have := hmr (apply E fuel)
      unfold members at this hemp hnz hty hv hstrip hclean
      rw [this]
      simp only [hemp, Bool.false_eq_true, if_false, canCollVal_same he hnd hnz hty, Bool.not_true]
      unfold setVal
      have hc : setCanon E e ids ps := hcanon
      unfold setCanon at hc
      simp only [hemp, Bool.false_eq_true, if_false, elemTyOf_same he hnd hnz hty, hstrip, hc, Res.map,
        marksOfAll_clean _ hclean]
      rfl
    have h1 : (Ty.set e).isDyn = false := rfl
    simp only [convert, convertWith, hneq, hg, apply, applyStep, Value.isMarked, Payload.isMarked, h1,
      Value.isKnown, Payload.isKnown, Payload.unmark1, Value.isNull, Payload.isNull, Bool.false_eq_true,
      if_false, Bool.not_true, Bool.or_self]
    exact hstep

end D08B
end CtyModel
