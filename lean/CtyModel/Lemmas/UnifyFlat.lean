/-
"Unsafe unification succeeds whenever safe unification does", closed form, for the
types built from primitives, capsules, lists, sets and maps (`flat`: no tuple, no
object, no placeholder), nested to any depth: a statement about ConvertUnify's
`unifyTyF` for every fuel, proved together with "the result is one every input
converts to" by induction on the fuel.
-/
import CtyModel.Lemmas.UnifyUnsafe
namespace CtyModel
namespace Unify
open Convert Ty

/-- built from primitives, capsule types, lists, sets and maps only -/
def flat : Ty → Bool
  | .bool | .number | .string | .capsule _ => true
  | .list e | .set e | .map e => flat e
  | _ => false

theorem flat_wf : ∀ t : Ty, flat t = true → t.wf = true
  | .bool, _ | .number, _ | .string, _ | .capsule _, _ => rfl
  | .list e, h | .set e, h | .map e, h => by simpa [wf] using flat_wf e (by simpa [flat] using h)
  | .dyn, h | .tuple _, h | .object _ _ _, h => by simp [flat] at h

theorem flat_noDyn : ∀ t : Ty, flat t = true → t.hasDyn = false
  | .bool, _ | .number, _ | .string, _ | .capsule _, _ => rfl
  | .list e, h | .set e, h | .map e, h => by simpa [hasDyn] using flat_noDyn e (by simpa [flat] using h)
  | .dyn, h | .tuple _, h | .object _ _ _, h => by simp [flat] at h

/-- for flat types `getConversionKnown` never consults `unify` -/
theorem gck_flat_indep (E E' : Env) : ∀ (inT out : Ty) (uns : Bool), flat inT = true → flat out = true →
    gck E inT out uns = gck E' inT out uns
  | .bool, out, uns, _, ho => by cases out <;> simp [flat] at ho <;> simp [gck, Ty.isDyn, isPrim]
  | .number, out, uns, _, ho => by cases out <;> simp [flat] at ho <;> simp [gck, Ty.isDyn, isPrim]
  | .string, out, uns, _, ho => by cases out <;> simp [flat] at ho <;> simp [gck, Ty.isDyn, isPrim]
  | .capsule _, out, uns, _, ho => by cases out <;> simp [flat] at ho <;> simp [gck, Ty.isDyn, isPrim]
  | .list ie, out, uns, hi, ho => by
    have hi' : flat ie = true := by simpa [flat] using hi
    cases out <;> simp [flat] at ho <;> simp [gck, Ty.isDyn, isPrim]
    all_goals rw [gck_flat_indep E E' ie _ uns hi' ho]
  | .set ie, out, uns, hi, ho => by
    have hi' : flat ie = true := by simpa [flat] using hi
    cases out <;> simp [flat] at ho <;> simp [gck, Ty.isDyn, isPrim]
    all_goals rw [gck_flat_indep E E' ie _ uns hi' ho]
  | .map ie, out, uns, hi, ho => by
    have hi' : flat ie = true := by simpa [flat] using hi
    cases out <;> simp [flat] at ho <;> simp [gck, Ty.isDyn, isPrim]
    all_goals rw [gck_flat_indep E E' ie _ uns hi' ho]
  | .dyn, _, _, h, _ | .tuple _, _, _, h, _ | .object _ _ _, _, _, h, _ => by simp [flat] at h

/-- `x` is `t` or converts to it -/
def ReachOne (uns : Bool) (x t : Ty) : Prop := x.equals t = true ∨ ∀ E : Env, (gck E x t uns).isSome = true

theorem reach_of_convOk {U : Bool → List Ty → Option Ty} {uns : Bool} {x t : Ty} (hx : flat x = true)
    (ht : flat t = true) (h : convOk U uns x t = true) : ReachOne uns x t := by
  simp only [convOk, Bool.or_eq_true] at h
  rcases h with h | h
  · exact .inl h
  · right
    intro E
    rw [gck_flat_indep E (Env.ofUnify U) x t uns hx ht]
    simpa [getConv] using h

theorem convOk_of_reach {U : Bool → List Ty → Option Ty} {uns : Bool} {x t : Ty} (h : ReachOne uns x t) :
    convOk U uns x t = true := by
  simp only [convOk, Bool.or_eq_true]
  rcases h with h | h
  · exact .inl h
  · exact .inr (by simpa [getConv] using h (Env.ofUnify U))

/-- element-wise reachability lifts to the three collection constructors -/
theorem reach_list {uns : Bool} {a b : Ty} (h : ReachOne uns a b) : ReachOne uns (.list a) (.list b) := by
  rcases h with h | h
  · exact .inl (by simpa [equals] using h)
  · right; intro E
    simp only [gck, Ty.isDyn, isPrim, Bool.false_eq_true, if_false, Bool.and_false, Bool.false_and]
    split
    · rfl
    · simpa using h E

theorem reach_set {uns : Bool} {a b : Ty} (h : ReachOne uns a b) : ReachOne uns (.set a) (.set b) := by
  rcases h with h | h
  · exact .inl (by simpa [equals] using h)
  · right; intro E
    simp only [gck, Ty.isDyn, isPrim, Bool.false_eq_true, if_false, Bool.and_false, Bool.false_and]
    split
    · rfl
    · simpa using h E

theorem reach_map {uns : Bool} {a b : Ty} (h : ReachOne uns a b) : ReachOne uns (.map a) (.map b) := by
  rcases h with h | h
  · exact .inl (by simpa [equals] using h)
  · right; intro E
    simp only [gck, Ty.isDyn, isPrim, Bool.false_eq_true, if_false, Bool.and_false, Bool.false_and]
    simpa using h E

/-! ### the shape of one activation on a flat list -/

theorem count_zero_of_flat {p : Ty → Bool} {ts : List Ty} (hf : ∀ x ∈ ts, flat x = true)
    (hp : ∀ x, flat x = true → p x = false) : count p ts = 0 :=
  count_none (fun x hx => hp x (hf x hx))

theorem cstep_flat (U : Bool → List Ty → Option Ty) (uns : Bool) (ts : List Ty) (hf : ∀ x ∈ ts, flat x = true)
    (hne : ts ≠ []) :
    Convert.unifyStep U uns ts =
      if count isMapTy ts > 0 && count isMapTy ts == ts.length then unifyCollectionTypes U uns .map ts false
      else if count isListTy ts > 0 && count isListTy ts == ts.length then unifyCollectionTypes U uns .list ts false
      else if count isSetTy ts > 0 && count isSetTy ts == ts.length then unifyCollectionTypes U uns .set ts false
      else unifyGeneral U uns ts := by
  have ho : count isObjectTy ts = 0 := count_zero_of_flat hf (fun x hx => by cases x <;> simp [flat] at hx <;> rfl)
  have ht : count isTupleTy ts = 0 := count_zero_of_flat hf (fun x hx => by cases x <;> simp [flat] at hx <;> rfl)
  have hd : count Ty.isDyn ts = 0 := count_zero_of_flat hf (fun x hx => by cases x <;> simp [flat] at hx <;> rfl)
  have he : ts.isEmpty = false := by cases ts with
    | nil => exact absurd rfl hne
    | cons _ _ => rfl
  simp only [Convert.unifyStep, he, ho, ht, hd, Nat.add_zero, Bool.false_eq_true, if_false, Nat.lt_irrefl,
    decide_false, Bool.false_and, gt_iff_lt]
  split
  · rfl
  · split
    · rfl
    · rfl

theorem collection_inv {U : Bool → List Ty → Option Ty} {uns : Bool} {mk : Ty → Ty} {ts : List Ty} {t : Ty}
    (h : unifyCollectionTypes U uns mk ts false = some t) :
    ∃ e, unifyG' U uns (ts.map elemTyD) = some e ∧ t = mk e ∧ ∀ x ∈ ts, convOk U uns x (mk e) = true := by
  simp only [unifyCollectionTypes, Bool.false_eq_true, if_false] at h
  split at h
  · simp at h
  · rename_i e he
    split at h
    · rename_i hall
      simp only [Option.some.injEq] at h
      exact ⟨e, he, h.symm, List.all_eq_true.mp hall⟩
    · simp at h

theorem collection_of {U : Bool → List Ty → Option Ty} {uns : Bool} {mk : Ty → Ty} {ts : List Ty} {e : Ty}
    (he : unifyG' U uns (ts.map elemTyD) = some e) (hall : ∀ x ∈ ts, convOk U uns x (mk e) = true) :
    unifyCollectionTypes U uns mk ts false = some (mk e) := by
  simp [unifyCollectionTypes, he, List.all_eq_true.mpr hall]

theorem general_inv {U : Bool → List Ty → Option Ty} {uns : Bool} {ts : List Ty} {t : Ty}
    (h : unifyGeneral U uns ts = some t) :
    ∃ w ∈ sortTypes ts, ts[w]? = some t ∧ ∀ (i : Nat) x, ts[i]? = some x → i = w ∨ convOk U uns x t = true := by
  obtain ⟨w, hw, hf⟩ := List.exists_of_findSome?_eq_some h
  refine ⟨w, hw, ?_⟩
  split at hf
  · simp at hf
  · rename_i want hwant
    split at hf
    · rename_i hall
      simp only [Option.some.injEq] at hf
      subst hf
      refine ⟨hwant, ?_⟩
      intro i x hi
      have hil : i < ts.length := (List.getElem?_eq_some_iff.mp hi).1
      have := List.all_eq_true.mp hall i (List.mem_range.mpr hil)
      simp only [hi, Bool.or_eq_true, beq_iff_eq] at this
      exact this
    · simp at hf

theorem general_of {U : Bool → List Ty → Option Ty} {uns : Bool} {ts : List Ty} {t : Ty} {w : Nat}
    (hw : w ∈ sortTypes ts) (hwt : ts[w]? = some t)
    (hall : ∀ (i : Nat) x, ts[i]? = some x → i = w ∨ convOk U uns x t = true) :
    ∃ t', unifyGeneral U uns ts = some t' := by
  have : (unifyGeneral U uns ts).isSome = true := by
    unfold unifyGeneral
    apply List.findSome?_isSome_iff.mpr
    refine ⟨w, hw, ?_⟩
    simp only [hwt]
    rw [if_pos]
    · rfl
    · apply List.all_eq_true.mpr
      intro i hi
      have hil : i < ts.length := List.mem_range.mp hi
      rcases hall i ts[i] (List.getElem?_eq_getElem hil) with h | h
      · simp [h]
      · simp [List.getElem?_eq_getElem hil, h]
  exact Option.isSome_iff_exists.mp this

theorem elem_flat {ts : List Ty} (hf : ∀ x ∈ ts, flat x = true) : ∀ e ∈ ts.map elemTyD, flat e = true := by
  intro e he
  obtain ⟨x, hx, rfl⟩ := List.mem_map.mp he
  have := hf x hx
  cases x <;> simp [flat] at this <;> simp [elemTyD, flat, this]

theorem unifyG'_eq {U : Bool → List Ty → Option Ty} {uns : Bool} {ts : List Ty} (hne : ts ≠ []) :
    unifyG' U uns ts = U uns ts := by
  cases ts with
  | nil => exact absurd rfl hne
  | cons _ _ => rfl

/-- both statements, by induction on the fuel -/
theorem flat_main : ∀ (fuel : Nat),
    (∀ (uns : Bool) (ts : List Ty) (t : Ty), (∀ x ∈ ts, flat x = true) → unifyTyF fuel uns ts = some t →
      flat t = true ∧ ∀ x ∈ ts, ReachOne uns x t) ∧
    (∀ (ts : List Ty) (t : Ty), (∀ x ∈ ts, flat x = true) → unifyTyF fuel false ts = some t →
      ∃ t', unifyTyF fuel true ts = some t')
  | 0 => ⟨fun _ _ _ _ h => by simp [unifyTyF] at h, fun _ _ _ h => by simp [unifyTyF] at h⟩
  | fuel + 1 => by
    obtain ⟨ihR, ihT⟩ := flat_main fuel
    -- one collection branch, for reachability
    have collR : ∀ (uns : Bool) (mk : Ty → Ty) (ts : List Ty) (t : Ty),
        (∀ e, flat (mk e) = flat e) →
        (∀ x ∈ ts, flat x = true) → ts ≠ [] → unifyCollectionTypes (unifyTyF fuel) uns mk ts false = some t →
        flat t = true ∧ ∀ x ∈ ts, ReachOne uns x t := by
      intro uns mk ts t hmk hf hne h
      obtain ⟨e, he, rfl, hall⟩ := collection_inv h
      have hne' : ts.map elemTyD ≠ [] := by simpa using hne
      rw [unifyG'_eq hne'] at he
      have hfe := (ihR uns _ e (elem_flat hf) he).1
      have hft : flat (mk e) = true := by rw [hmk]; exact hfe
      exact ⟨hft, fun x hx => reach_of_convOk (hf x hx) hft (hall x hx)⟩
    refine ⟨?_, ?_⟩
    · intro uns ts t hf h
      have hne : ts ≠ [] := by
        intro e; subst e; simp [unifyTyF, Convert.unifyStep] at h
      simp only [unifyTyF] at h
      rw [cstep_flat _ uns ts hf hne] at h
      split at h
      · exact collR uns .map ts t (fun _ => rfl) hf hne h
      · split at h
        · exact collR uns .list ts t (fun _ => rfl) hf hne h
        · split at h
          · exact collR uns .set ts t (fun _ => rfl) hf hne h
          · obtain ⟨w, _, hwt, hall⟩ := general_inv h
            have hft : flat t = true := hf t (List.mem_of_getElem? hwt)
            refine ⟨hft, ?_⟩
            intro x hx
            obtain ⟨i, hi⟩ := List.mem_iff_getElem?.mp hx
            rcases hall i x hi with rfl | hc
            · rw [hwt] at hi
              simp only [Option.some.injEq] at hi
              subst hi
              exact .inl (equals_self (flat_wf _ hft))
            · exact reach_of_convOk (hf x hx) hft hc
    · intro ts t hf h
      have hne : ts ≠ [] := by
        intro e; subst e; simp [unifyTyF, Convert.unifyStep] at h
      simp only [unifyTyF] at h ⊢
      rw [cstep_flat _ false ts hf hne] at h
      rw [cstep_flat _ true ts hf hne]
      -- one collection branch, for the transfer
      have collT : ∀ (mk : Ty → Ty) (isK : Ty → Bool),
          (∀ x, isK x = true → mk (elemTyD x) = x) →
          (∀ a b, ReachOne true a b → ReachOne true (mk a) (mk b)) →
          (∀ x ∈ ts, isK x = true) →
          unifyCollectionTypes (unifyTyF fuel) false mk ts false = some t →
          ∃ t', unifyCollectionTypes (unifyTyF fuel) true mk ts false = some t' := by
        intro mk isK hmk hlift hall h
        obtain ⟨e, he, _, _⟩ := collection_inv h
        have hne' : ts.map elemTyD ≠ [] := by simpa using hne
        rw [unifyG'_eq hne'] at he
        obtain ⟨e', he'⟩ := ihT _ e (elem_flat hf) he
        have hreach := (ihR true _ e' (elem_flat hf) he').2
        refine ⟨mk e', collection_of (by rw [unifyG'_eq hne']; exact he') ?_⟩
        intro x hx
        have hr := hreach (elemTyD x) (List.mem_map.mpr ⟨x, hx, rfl⟩)
        have := hlift _ _ hr
        rw [hmk x (hall x hx)] at this
        exact convOk_of_reach this
      have hmapE : ∀ x, isMapTy x = true → Ty.map (elemTyD x) = x := by
        intro x hx; cases x <;> simp [isMapTy] at hx; rfl
      have hlistE : ∀ x, isListTy x = true → Ty.list (elemTyD x) = x := by
        intro x hx; cases x <;> simp [isListTy] at hx; rfl
      have hsetE : ∀ x, isSetTy x = true → Ty.set (elemTyD x) = x := by
        intro x hx; cases x <;> simp [isSetTy] at hx; rfl
      by_cases c1 : (decide (count isMapTy ts > 0) && count isMapTy ts == ts.length) = true
      · rw [if_pos c1] at h ⊢
        simp only [Bool.and_eq_true, decide_eq_true_eq, beq_iff_eq] at c1
        exact collT Ty.map isMapTy hmapE (fun _ _ hr => reach_map hr) (all_of_count c1.2) h
      · rw [if_neg c1] at h ⊢
        by_cases c2 : (decide (count isListTy ts > 0) && count isListTy ts == ts.length) = true
        · rw [if_pos c2] at h ⊢
          simp only [Bool.and_eq_true, decide_eq_true_eq, beq_iff_eq] at c2
          exact collT Ty.list isListTy hlistE (fun _ _ hr => reach_list hr) (all_of_count c2.2) h
        · rw [if_neg c2] at h ⊢
          by_cases c3 : (decide (count isSetTy ts > 0) && count isSetTy ts == ts.length) = true
          · rw [if_pos c3] at h ⊢
            simp only [Bool.and_eq_true, decide_eq_true_eq, beq_iff_eq] at c3
            exact collT Ty.set isSetTy hsetE (fun _ _ hr => reach_set hr) (all_of_count c3.2) h
          · rw [if_neg c3] at h ⊢
            obtain ⟨w, hw, hwt, hall⟩ := general_inv h
            have hft : flat t = true := hf t (List.mem_of_getElem? hwt)
            apply general_of hw hwt
            intro i x hi
            rcases hall i x hi with h1 | h1
            · exact .inl h1
            · right
              -- a safe conversion to a placeholder-free type is offered in unsafe mode too
              simp only [convOk, Bool.or_eq_true] at h1 ⊢
              rcases h1 with h1 | h1
              · exact .inl h1
              · right
                obtain ⟨p, hp⟩ := Option.isSome_iff_exists.mp h1
                obtain ⟨c, hc', _⟩ := Option.map_eq_some_iff.mp hp
                simp [getConv, gck_up _ x t c (flat_noDyn t hft) hc']

end Unify
end CtyModel
