/-
C12 / d12b: `keys` end to end (collection.go KeysFunc; the parameter says `AllowUnknown`).  An object's
keys come from its TYPE (known even when the object is not); a known map's keys are part of its known
shape (a weakening keeps them); an unknown map gives the unknown list of strings.
-/
import CtyModel.Lemmas.d12bCoalesce
namespace CtyModel
namespace D12b
open Fn Stdlib C12L Cov

theorem withMarkSets_nil1 (v : Value) : Fn.withMarkSets v [[]] = v.withMarks [] := by
  simp [Fn.withMarkSets, Fn.unionAll, unionMarks]

theorem keysType_eq {o w : Value} (hty : w.ty = o.ty) : keysType [w] = keysType [o] := by
  simp [keysType, hty]

/-- a known weakening of a map has the map's keys -/
theorem elemKeys_covers {w o : Value} (hmw : w.containsMarked = false) (hmo : o.containsMarked = false)
    (hty : w.ty = o.ty) (hc : CoversX w o = true) (hk : w.isKnown = true) {ks : List String}
    (h : elemKeys o = .ok ks) : elemKeys w = .ok ks := by
  obtain ⟨wt, wp⟩ := w
  obtain ⟨ot, op⟩ := o
  simp only at hty
  subst hty
  simp only [CoversX, CoversG, Bool.and_eq_true] at hc
  have h1 := stripMarks_clean' wp hmw
  have h2 := stripMarks_clean' op hmo
  simp only [h1, h2] at hc
  have hc2 := hc.2
  unfold elemKeys at h ⊢
  cases op <;> simp at h
  rename_i ks' vs
  cases wp <;> simp [coversP, Value.isKnown, Payload.isKnown, Payload.unmark1, Value.containsMarked,
    Payload.containsMarked] at hc2 hk hmw ⊢
  rename_i ks'' ws
  cases wt <;> simp_all

theorem keys_implSound (o w : Value) (hty : w.ty = o.ty)
    (hmw : w.containsMarked = false) (hmo : o.containsMarked = false)
    (hok : o.isKnown = true) (hc : CoversX w o = true) : ImplSoundAt keysType keysImpl [o] [w] := by
  intro rt rt' r ho hw hio hconf hwf' hrwf hrefl
  rw [keysType_eq hty, ho] at hw
  cases hw
  obtain ⟨huw, hmsw⟩ := clean_unmark hmw
  obtain ⟨huo, hmso⟩ := clean_unmark hmo
  simp only [keysImpl, huw, hmsw, huo, hmso] at hio ⊢
  rw [hty]
  cases hot : o.ty with
  | object ns ts os =>
    rw [hot] at hio
    simp only at hio ⊢
    exact ⟨r, hio, hconf, hrefl⟩
  | _ =>
    rw [hot] at hio
    simp only [hok, Bool.not_true, Bool.false_eq_true, if_false] at hio ⊢
    by_cases hwk : w.isKnown = true
    · simp only [hwk, Bool.not_true, Bool.false_eq_true, if_false]
      cases hek : elemKeys o with
      | ok ks =>
        rw [elemKeys_covers hmw hmo hty hc hwk hek]
        rw [hek] at hio
        exact ⟨r, hio, hconf, hrefl⟩
      | err c => rw [hek] at hio; cases hio
      | panic c => rw [hek] at hio; cases hio
      | unmodelled => rw [hek] at hio; cases hio
    · simp only [hwk, Bool.not_false, if_true]
      have e : Stdlib.withMarkSets (Value.unknown rt) [[]] = (Value.unknown rt).withMarks [] := withMarkSets_nil1 _
      refine ⟨_, rfl, ?_, ?_⟩
      · rw [e]
        exact (Ty.conform_iff rt rt hwf' hwf').mpr (Ty.matches_refl rt)
      · rw [e, covers_withMarks_left]
        exact unknown_covers_of_matches rt r ((Ty.conform_iff rt r.ty hwf' hrwf).mp hconf)

theorem wfL_strings : ∀ (ns : List String), Ty.wfL (ns.map fun _ => Ty.string) = true
  | [] => rfl
  | _ :: ns => by simp [Ty.wfL, Ty.wf, wfL_strings ns]

theorem keysType_wf {w : Value} {t : Ty} (h : keysType [w] = .ok t) : Ty.wf t = true := by
  simp only [keysType] at h
  split at h
  · cases h; rfl
  · cases h
    simp only [Ty.wf]
    exact wfL_strings _
  · cases h

end D12b
end CtyModel
