/-
C17 (JSON half) — the value constructors at the end of the decoder's per-kind functions
(`listVal`, `setVal`, `mapVal`, `tupleVal`, `objectVal` of `CtyModel/JsonVal.lean`: the calls of
`cty.ListVal`, `cty.SetVal`, `cty.MapVal`, `cty.TupleVal`, `cty.ObjectVal` guarded by
`CanListVal`/`CanSetVal`/`CanMapVal`): on members that are themselves good decoder results they
never panic and return a good result.

"Good" has two layers:
* `Good t v` — holds for EVERY document, no assumption on the oracles: the type of `v` is
  well-formed and conforms to the requested type `t`; the payload has the shape the type dictates,
  is wholly known and unmarked (`Dec`).  This is what keeps `Equals` inside `cty.SetVal` from
  panicking.
* `Fine env v` — C06's `WF` minus what `Good` already says, relative to `Laws env`: strings, map
  keys and attribute names are fixed points of `norm`; sets are in bucket order without
  `Equivalent` members.
-/
import CtyModel.Lemmas.C17JsonEq
import CtyModel.Lemmas.C17JsonImplied
import CtyModel.Lemmas.TyConform
import CtyModel.Lemmas.WFSet
namespace CtyModel
namespace C17Json
open Ty JsonVal

/-- the laws of the oracles that the well-formedness clause needs.  `norm` = `cty.NormalizeString`
(NFC): idempotent, and the two words the decoder writes itself are ASCII.  `hkey` =
`Value.Hash`: members the set rules call `Equivalent` have one hash (cty/set/rules.go asks this of
every `Rules`), and `Equivalent` is symmetric — both only on decoder-built members (`Dec`) that the
hash oracle answers for (the model builds a non-empty set only from such members).  Symmetry of
`Equals` is a theorem for set-free element types (C03, `Lemmas/ValEqSymm.lean`); for sets of sets it
is assumed here. -/
structure Laws (env : JEnv) : Prop where
  norm_idem : ∀ s, env.norm (env.norm s) = env.norm s
  norm_true : env.norm "true" = "true"
  norm_false : env.norm "false" = "false"
  hash_coherent : ∀ e x y i j a b, Dec e x → Dec e y → env.hkey e x = some (i, a) → env.hkey e y = some (j, b) →
    equivP e x y = true → i = j
  equiv_symm : ∀ e x y i j a b, Dec e x → Dec e y → env.hkey e x = some (i, a) → env.hkey e y = some (j, b) →
    equivP e x y = true → equivP e y x = true

abbrev nfcE (env : JEnv) : String → Bool := nfcOf env.norm

/-- law-free part -/
structure Good (t : Ty) (v : Value) : Prop where
  wfTy : Ty.wf v.ty = true
  conf : Ty.matches t v.ty = true
  dec : Dec v.ty v.v

/-- law-dependent part: with `Good` and `hasOpt v.ty = false` this is `Value.WF` -/
structure Fine (env : JEnv) (v : Value) : Prop where
  names : Ty.namesAll (nfcE env) v.ty = true
  wfp : Payload.wfP (nfcE env) v.ty v.v = true

/-- the invariant of the decoder for requested type `t` -/
def P (env : JEnv) (t : Ty) (v : Value) : Prop :=
  Good t v ∧ (Laws env → Ty.namesAll (nfcE env) t = true → Fine env v)

/-! ### small facts -/

theorem wfL_mem' : ∀ {ts : List Ty}, Ty.wfL ts = true → ∀ t ∈ ts, Ty.wf t = true
  | [], _, _, h => by simp at h
  | u :: us, hw, t, h => by
    simp only [Ty.wfL, Bool.and_eq_true] at hw
    rcases List.mem_cons.mp h with rfl | h
    · exact hw.1
    · exact wfL_mem' hw.2 t h

theorem wfL_of_mem' : ∀ {ts : List Ty}, (∀ t ∈ ts, Ty.wf t = true) → Ty.wfL ts = true
  | [], _ => rfl
  | u :: us, h => by simp [Ty.wfL, h u (by simp), wfL_of_mem' (fun t ht => h t (List.mem_cons_of_mem _ ht))]

theorem namesAllL_mem {p : String → Bool} : ∀ {ts : List Ty}, Ty.namesAllL p ts = true → ∀ t ∈ ts, Ty.namesAll p t = true
  | [], _, _, h => by simp at h
  | u :: us, hw, t, h => by
    simp only [Ty.namesAllL, Bool.and_eq_true] at hw
    rcases List.mem_cons.mp h with rfl | h
    · exact hw.1
    · exact namesAllL_mem hw.2 t h

theorem namesAllL_of_mem {p : String → Bool} : ∀ {ts : List Ty}, (∀ t ∈ ts, Ty.namesAll p t = true) → Ty.namesAllL p ts = true
  | [], _ => rfl
  | u :: us, h => by simp [Ty.namesAllL, h u (by simp), namesAllL_of_mem (fun t ht => h t (List.mem_cons_of_mem _ ht))]

mutual
theorem namesAll_strip (p : String → Bool) : ∀ t : Ty, Ty.namesAll p t = true → Ty.namesAll p t.stripOpt = true
  | .bool, _ | .number, _ | .string, _ | .dyn, _ | .capsule _, _ => by simp [stripOpt, Ty.namesAll]
  | .list e, h | .set e, h | .map e, h => by
    simp only [Ty.namesAll] at h; simp [stripOpt, Ty.namesAll, namesAll_strip p e h]
  | .tuple es, h => by simp only [Ty.namesAll] at h; simp [stripOpt, Ty.namesAll, namesAllL_strip p es h]
  | .object ns ts os, h => by
    simp only [Ty.namesAll, Bool.and_eq_true] at h
    simp only [stripOpt, Ty.namesAll, Bool.and_eq_true]
    exact ⟨h.1, namesAllL_strip p ts h.2⟩
theorem namesAllL_strip (p : String → Bool) : ∀ ts : List Ty, Ty.namesAllL p ts = true → Ty.namesAllL p (stripOptL ts) = true
  | [], _ => rfl
  | t :: ts, h => by
    simp only [Ty.namesAllL, Bool.and_eq_true] at h
    simp [stripOptL, Ty.namesAllL, namesAll_strip p t h.1, namesAllL_strip p ts h.2]
end

theorem shapedAll_of_mem {e : Ty} : ∀ {xs : List Payload}, (∀ x ∈ xs, Payload.shaped e x = true) → Payload.shapedAll e xs = true
  | [], _ => rfl
  | x :: xs, h => by
    simp [Payload.shapedAll, h x (by simp), shapedAll_of_mem (fun y hy => h y (List.mem_cons_of_mem _ hy))]

theorem whollyKnownL_of_mem : ∀ {xs : List Payload}, (∀ x ∈ xs, x.whollyKnown = true) → Payload.whollyKnownL xs = true
  | [], _ => rfl
  | x :: xs, h => by
    simp [Payload.whollyKnownL, h x (by simp), whollyKnownL_of_mem (fun y hy => h y (List.mem_cons_of_mem _ hy))]

theorem containsMarkedL_of_mem : ∀ {xs : List Payload}, (∀ x ∈ xs, x.containsMarked = false) → Payload.containsMarkedL xs = false
  | [], _ => rfl
  | x :: xs, h => by
    simp [Payload.containsMarkedL, h x (by simp), containsMarkedL_of_mem (fun y hy => h y (List.mem_cons_of_mem _ hy))]

theorem wfAll_of_mem {nfc : String → Bool} {e : Ty} : ∀ {xs : List Payload}, (∀ x ∈ xs, Payload.wfP nfc e x = true) →
    Payload.wfAll nfc e xs = true
  | [], _ => by simp [Payload.wfAll]
  | x :: xs, h => by
    simp [Payload.wfAll, h x (by simp), wfAll_of_mem (fun y hy => h y (List.mem_cons_of_mem _ hy))]

theorem dec_null (t : Ty) : Dec t .null := ⟨by simp [Payload.shaped], rfl, rfl⟩

/-- a decoder-built payload of the placeholder type is `null` -/
theorem dec_dyn {p : Payload} (h : Dec .dyn p) : p = .null := by
  obtain ⟨s, k, c⟩ := h
  cases p <;> simp_all [Payload.shaped, Payload.whollyKnown, Payload.containsMarked, Ty.isBool, Ty.isNumber, Ty.isString]

theorem dec_retype {v : Value} {e : Ty} (h : Dec v.ty v.v) (ht : v.ty = .dyn ∨ v.ty = e) : Dec e v.v := by
  rcases ht with ht | ht
  · rw [ht] at h; rw [dec_dyn h]; exact dec_null e
  · rw [ht] at h; exact h

theorem wfP_retype {nfc : String → Bool} {v : Value} {e : Ty} (hd : Dec v.ty v.v) (h : Payload.wfP nfc v.ty v.v = true)
    (ht : v.ty = .dyn ∨ v.ty = e) : Payload.wfP nfc e v.v = true := by
  rcases ht with ht | ht
  · rw [ht] at hd; rw [dec_dyn hd]; simp [Payload.wfP]
  · rw [ht] at h; exact h

theorem dec_list {e : Ty} {xs : List Payload} (h : DecAll e xs) : Dec (.list e) (.seq xs) :=
  ⟨by simpa [Payload.shaped] using shapedAll_of_mem (fun x hx => (h x hx).shaped),
   by simpa [Payload.whollyKnown] using whollyKnownL_of_mem (fun x hx => (h x hx).known),
   by simpa [Payload.containsMarked] using containsMarkedL_of_mem (fun x hx => (h x hx).clean)⟩

/-! ### the element-type loop -/

theorem isDyn_eq {t : Ty} (h : t.isDyn = true) : t = .dyn := by cases t <;> simp_all [Ty.isDyn]

/-- when `Can…Val` accepts the members the constructor's loop does not panic: it returns the one
type that every member not typed by the placeholder has -/
theorem unify_ok : ∀ (vals : List Value) (acc : Ty), canElemTy vals acc = true → Ty.wf acc = true →
    (∀ v ∈ vals, Ty.wf v.ty = true) →
    ∃ e, unifyElemTy vals acc = .ok e ∧ (acc.isDyn = false → e = acc) ∧
      (∀ v ∈ vals, v.ty = .dyn ∨ v.ty = e) ∧ (e = acc ∨ ∃ v ∈ vals, v.ty = e)
  | [], acc, _, _, _ => ⟨acc, rfl, fun _ => rfl, by intro v hv; simp at hv, Or.inl rfl⟩
  | v :: vs, acc, hc, hw, hv => by
    have hvs : ∀ x ∈ vs, Ty.wf x.ty = true := fun x hx => hv x (List.mem_cons_of_mem _ hx)
    simp only [canElemTy] at hc
    simp only [unifyElemTy]
    split at hc
    · rename_i hd
      obtain ⟨e, he, h1, h2, h3⟩ := unify_ok vs v.ty hc (hv v (by simp)) hvs
      simp only [hd, if_true]
      refine ⟨e, he, (fun hf => by cases hf), ?_, ?_⟩
      · intro x hx
        rcases List.mem_cons.mp hx with rfl | hx
        · cases hxd : x.ty.isDyn
          · exact Or.inr (h1 hxd).symm
          · exact Or.inl (isDyn_eq hxd)
        · exact h2 x hx
      · rcases h3 with h3 | ⟨x, hx, hxe⟩
        · exact Or.inr ⟨v, by simp, h3.symm⟩
        · exact Or.inr ⟨x, List.mem_cons_of_mem _ hx, hxe⟩
    · rename_i hd
      split at hc
      · simp at hc
      · rename_i hne
        obtain ⟨e, he, h1, h2, h3⟩ := unify_ok vs acc hc hw hvs
        have hd' : acc.isDyn = false := by simpa using hd
        simp only [hd', Bool.false_eq_true, if_false, hne]
        have hea := h1 hd'
        refine ⟨e, he, fun _ => hea, ?_, ?_⟩
        · intro x hx
          rcases List.mem_cons.mp hx with rfl | hx
          · cases hxd : x.ty.isDyn
            · have : acc.equals x.ty = true := by simpa [hxd] using hne
              exact Or.inr (by rw [hea]; exact ((Ty.equals_iff_eq _ _ hw (hv x (by simp))).mp this).symm)
            · exact Or.inl (isDyn_eq hxd)
          · exact h2 x hx
        · rcases h3 with h3 | ⟨x, hx, hxe⟩
          · exact Or.inl h3
          · exact Or.inr ⟨x, List.mem_cons_of_mem _ hx, hxe⟩

/-- the unified element type of a NON-EMPTY member list is the type of some member -/
theorem unify_some {vals : List Value} {e : Ty} (hne : vals ≠ [])
    (h2 : ∀ v ∈ vals, v.ty = .dyn ∨ v.ty = e) (h3 : e = .dyn ∨ ∃ v ∈ vals, v.ty = e) : ∃ v ∈ vals, v.ty = e := by
  rcases h3 with rfl | h3
  · cases vals with
    | nil => exact absurd rfl hne
    | cons v vs => exact ⟨v, by simp, by rcases h2 v (by simp) with h | h <;> exact h⟩
  · exact h3

/-! ### lists -/

section
variable (env : JEnv)

theorem listVal_sat {e : Ty} {vals : List Value} (hw : Ty.wf e = true) (hv : ∀ v ∈ vals, P env e v) :
    Sat (P env (.list e)) (listVal e vals) := by
  unfold listVal
  split
  · refine Sat.ok ⟨⟨by simpa [Ty.wf] using hw, by simp [Ty.matches, matches_refl], dec_list (by intro x hx; simp at hx)⟩, fun _ hn => ?_⟩
    exact ⟨by simpa [Ty.namesAll] using hn, by simp [Payload.wfP, Payload.wfAll]⟩
  · rename_i hne
    split
    · exact Sat.err
    · rename_i hc
      obtain ⟨e', he, _, h2, h3⟩ := unify_ok vals .dyn (by simpa using hc) rfl (fun v hv' => (hv v hv').1.wfTy)
      obtain ⟨v0, hv0, hv0e⟩ := unify_some (by simpa using hne) h2 h3
      rw [he]
      refine Sat.ok ⟨⟨?_, ?_, ?_⟩, fun hl hn => ⟨?_, ?_⟩⟩
      · simpa [Ty.wf, ← hv0e] using (hv v0 hv0).1.wfTy
      · simpa [Ty.matches, ← hv0e] using (hv v0 hv0).1.conf
      · refine dec_list ?_
        intro x hx
        obtain ⟨v, hvm, rfl⟩ := List.mem_map.mp hx
        exact dec_retype (hv v hvm).1.dec (h2 v hvm)
      · have := ((hv v0 hv0).2 hl (by simpa [Ty.namesAll] using hn)).names
        simpa [Ty.namesAll, ← hv0e] using this
      · simp only [Payload.wfP]
        refine wfAll_of_mem ?_
        intro x hx
        obtain ⟨v, hvm, rfl⟩ := List.mem_map.mp hx
        exact wfP_retype (hv v hvm).1.dec ((hv v hvm).2 hl (by simpa [Ty.namesAll] using hn)).wfp (h2 v hvm)

/-! ### tuples and objects: members decoded against per-position types -/

/-- `vals` is a (possibly shorter) list of good results for the leading positions of `es` -/
def ZipP : List Ty → List Value → Prop
  | _, [] => True
  | e :: es, v :: vs => P env e v ∧ ZipP es vs
  | [], _ :: _ => False

theorem zipP_facts : ∀ (es : List Ty) (vals : List Value), ZipP env es vals → vals.length = es.length →
    Ty.wfL (vals.map (·.ty)) = true ∧ Ty.matchesL es (vals.map (·.ty)) = true ∧
    DecZip (vals.map (·.ty)) (vals.map (·.v)) ∧
    (Laws env → Ty.namesAllL (nfcE env) es = true →
      Ty.namesAllL (nfcE env) (vals.map (·.ty)) = true ∧
      Payload.wfZip (nfcE env) (vals.map (·.ty)) (vals.map (·.v)) = true)
  | [], [], _, _ => ⟨rfl, rfl, trivial, fun _ _ => ⟨rfl, by simp [Payload.wfZip]⟩⟩
  | [], _ :: _, h, _ => absurd h id
  | _ :: _, [], _, hl => by simp at hl
  | e :: es, v :: vs, h, hl => by
    obtain ⟨h1, h2, h3, h4⟩ := zipP_facts es vs h.2 (by simpa using hl)
    obtain ⟨g, f⟩ := h.1
    refine ⟨by simp [Ty.wfL, g.wfTy, h1], by simp [Ty.matchesL, g.conf, h2], ⟨g.dec, h3⟩, fun hlaw hn => ?_⟩
    simp only [Ty.namesAllL, Bool.and_eq_true] at hn
    have f' := f hlaw hn.1
    have h4' := h4 hlaw hn.2
    exact ⟨by simp [Ty.namesAllL, f'.names, h4'.1], by simp [Payload.wfZip, f'.wfp, h4'.2]⟩

theorem decZip_parts : ∀ {ts : List Ty} {xs : List Payload}, DecZip ts xs →
    Payload.shapedZip ts xs = true ∧ Payload.whollyKnownL xs = true ∧ Payload.containsMarkedL xs = false ∧ ts.length = xs.length
  | [], [], _ => ⟨rfl, rfl, rfl, rfl⟩
  | [], _ :: _, h => absurd h id
  | _ :: _, [], h => absurd h id
  | t :: ts, x :: xs, h => by
    obtain ⟨a, b, c, d⟩ := decZip_parts h.2
    exact ⟨by simp [Payload.shapedZip, h.1.shaped, a], by simp [Payload.whollyKnownL, h.1.known, b],
      by simp [Payload.containsMarkedL, h.1.clean, c], by simp [d]⟩

theorem tupleVal_sat {es : List Ty} {vals : List Value} (h : ZipP env es vals) (hl : vals.length = es.length) :
    P env (.tuple es) (tupleVal vals) := by
  obtain ⟨h1, h2, h3, h4⟩ := zipP_facts env es vals h hl
  obtain ⟨a, b, c, d⟩ := decZip_parts h3
  refine ⟨⟨by simpa [tupleVal, Ty.wf] using h1, by simpa [tupleVal, Ty.matches] using h2,
    ⟨by simpa [tupleVal, Payload.shaped] using a, by simpa [tupleVal, Payload.whollyKnown] using b,
     by simpa [tupleVal, Payload.containsMarked] using c⟩⟩, fun hlaw hn => ?_⟩
  have := h4 hlaw (by simpa [Ty.namesAll] using hn)
  exact ⟨by simpa [tupleVal, Ty.namesAll] using this.1, by simpa [tupleVal, Payload.wfP] using this.2⟩

/-- every (name, type) of the suffix is found in the full attribute lists -/
def FindAll (NS : List String) (TS : List Ty) (OS : List Bool) : List String → List Ty → Prop
  | n :: ns, t :: ts => (∃ o, Ty.find n NS TS OS = some (t, o)) ∧ FindAll NS TS OS ns ts
  | _, _ => True

theorem findAll_skip {n0 : String} {t0 : Ty} {o0 : Bool} {NS : List String} {TS : List Ty} {OS : List Bool} :
    ∀ (ns : List String) (ts : List Ty), (∀ x ∈ ns, n0 ≠ x) → FindAll NS TS OS ns ts →
      FindAll (n0 :: NS) (t0 :: TS) (o0 :: OS) ns ts
  | [], _, _, _ => by simp [FindAll]
  | _ :: _, [], _, _ => by simp [FindAll]
  | n :: ns, t :: ts, hne, h => by
    obtain ⟨⟨o, ho⟩, hr⟩ := h
    refine ⟨⟨o, ?_⟩, findAll_skip ns ts (fun x hx => hne x (List.mem_cons_of_mem _ hx)) hr⟩
    simp [Ty.find, hne n (by simp), ho]

theorem findAll_self : ∀ (ns : List String) (ts : List Ty) (os : List Bool), Ty.strictAsc ns = true →
    ns.length = ts.length → os.length = ts.length → FindAll ns ts os ns ts
  | [], _, _, _, _, _ => by simp [FindAll]
  | _ :: _, [], _, _, _, _ => by simp [FindAll]
  | _ :: _, _ :: _, [], _, _, h => by simp at h
  | n :: ns, t :: ts, o :: os, ha, h1, h2 => by
    have ⟨ha', hlt⟩ := Ty.strictAsc_cons ha
    refine ⟨⟨o, by simp [Ty.find]⟩, findAll_skip ns ts ?_ (findAll_self ns ts os ha' (by simpa using h1) (by simpa using h2))⟩
    intro x hx e
    exact String.lt_irrefl _ (e ▸ hlt x hx)

theorem p_null {t : Ty} (hw : Ty.wf t = true) : P env t ⟨t, .null⟩ :=
  ⟨⟨hw, matches_refl t, dec_null t⟩, fun _ hn => ⟨hn, by simp [Payload.wfP]⟩⟩

/-- "make sure we have a value for every attribute": position by position a good result for the
attribute's type -/
theorem objectVal_zip {NS : List String} {TS : List Ty} {OS : List Bool} {nks : List String} {vals : List Value}
    (H : ∀ n v, lookupLast n nks vals = some v → ∃ aty o, Ty.find n NS TS OS = some (aty, o) ∧ P env aty v) :
    ∀ (ns : List String) (ts : List Ty), FindAll NS TS OS ns ts → Ty.wfL ts = true → ns.length = ts.length →
      ZipP env ts (objectVal ns ts nks vals) ∧ (objectVal ns ts nks vals).length = ts.length
  | [], [], _, _, _ => by simp [objectVal, ZipP]
  | [], _ :: _, _, _, h => by simp at h
  | _ :: _, [], _, _, h => by simp at h
  | n :: ns, t :: ts, hf, hw, hl => by
    simp only [Ty.wfL, Bool.and_eq_true] at hw
    obtain ⟨ih1, ih2⟩ := objectVal_zip H ns ts hf.2 hw.2 (by simpa using hl)
    simp only [objectVal]
    refine ⟨⟨?_, ih1⟩, by simp [ih2]⟩
    split
    · rename_i v hlk
      obtain ⟨aty, o, hfind, hp⟩ := H n v hlk
      obtain ⟨o', ho'⟩ := hf.1
      rw [ho'] at hfind
      cases hfind
      exact hp
    · exact p_null env hw.1

theorem objectVal_sat {ns : List String} {ts : List Ty} {os : List Bool} {nks : List String} {vals : List Value}
    (hw : Ty.wf (.object ns ts os) = true)
    (H : ∀ n v, lookupLast n nks vals = some v → ∃ aty o, Ty.find n ns ts os = some (aty, o) ∧ P env aty v) :
    P env (.object ns ts os)
      ⟨.object ns ((objectVal ns ts nks vals).map (·.ty)) (ns.map fun _ => false),
       .smap ns ((objectVal ns ts nks vals).map (·.v))⟩ := by
  simp only [Ty.wf, Bool.and_eq_true, beq_iff_eq] at hw
  obtain ⟨⟨⟨hl1, hl2⟩, hasc⟩, hwl⟩ := hw
  obtain ⟨hz, hlen⟩ := objectVal_zip env H ns ts (findAll_self ns ts os hasc hl1 hl2) hwl hl1
  obtain ⟨h1, h2, h3, h4⟩ := zipP_facts env ts _ hz hlen
  obtain ⟨a, b, c, d⟩ := decZip_parts h3
  refine ⟨⟨?_, ?_, ⟨?_, ?_, ?_⟩⟩, fun hlaw hn => ⟨?_, ?_⟩⟩
  · simp [Ty.wf, hasc, h1, hlen, hl1]
  · simp [Ty.matches, h2]
  · simp [Payload.shaped, a]
  · simpa [Payload.whollyKnown] using b
  · simpa [Payload.containsMarked] using c
  · simp only [Ty.namesAll, Bool.and_eq_true] at hn
    simp only [Ty.namesAll, Bool.and_eq_true]
    exact ⟨hn.1, (h4 hlaw hn.2).1⟩
  · simp only [Ty.namesAll, Bool.and_eq_true] at hn
    simp only [Payload.wfP, Bool.and_eq_true, beq_iff_eq]
    exact ⟨⟨by simp, by simp [d]⟩, (h4 hlaw hn.2).2⟩

/-! ### maps -/

theorem lastWins_length : ∀ (ks : List String) (vals : List Value), (lastWins ks vals).1.length = (lastWins ks vals).2.length
  | [], _ => by simp [lastWins]
  | _ :: _, [] => by simp [lastWins]
  | k :: ks, v :: vs => by
    simp only [lastWins]
    split
    · exact lastWins_length ks vs
    · simp [lastWins_length ks vs]

theorem nodup_of_hasDup : ∀ (ks : List String), hasDup ks = false → ks.Nodup
  | [], _ => List.nodup_nil
  | k :: ks, h => by
    simp only [hasDup, Bool.or_eq_false_iff] at h
    exact List.nodup_cons.mpr ⟨by simpa using h.1, nodup_of_hasDup ks h.2⟩

theorem insertKV_spec (k : String) (v : Payload) : ∀ (ns : List String) (us : List Payload),
    ns.length = us.length → Ty.strictAsc ns = true → k ∉ ns →
    Ty.strictAsc (insertKV k v ns us).1 = true ∧ (insertKV k v ns us).1.length = (insertKV k v ns us).2.length ∧
    (∀ x ∈ (insertKV k v ns us).1, x = k ∨ x ∈ ns) ∧ (∀ u ∈ (insertKV k v ns us).2, u = v ∨ u ∈ us)
  | [], [], _, _, _ => by simp [insertKV, Ty.strictAsc]
  | [], _ :: _, h, _, _ => by simp at h
  | _ :: _, [], h, _, _ => by simp at h
  | n :: ns, u :: us, hl, ha, hk => by
    have ⟨ha', hlt⟩ := Ty.strictAsc_cons ha
    simp only [insertKV]
    split
    · rename_i hkn
      refine ⟨Ty.strictAsc_of ha ?_, by simpa using hl, by intro x hx; simpa using hx, by intro y hy; simpa using hy⟩
      intro x hx
      rcases List.mem_cons.mp hx with rfl | hx
      · exact hkn
      · exact String.lt_trans hkn (hlt x hx)
    · rename_i hkn
      have hne : k ≠ n := fun e => hk (by simp [e])
      obtain ⟨i1, i2, i3, i4⟩ := insertKV_spec k v ns us (by simpa using hl) ha' (fun hm => hk (List.mem_cons_of_mem _ hm))
      refine ⟨Ty.strictAsc_of i1 ?_, by simpa using i2, ?_, ?_⟩
      · intro x hx
        rcases i3 x hx with rfl | hx
        · exact str_lt_of_not _ _ hkn hne
        · exact hlt x hx
      · intro x hx
        rcases List.mem_cons.mp hx with rfl | hx
        · exact Or.inr (by simp)
        · rcases i3 x hx with h | h
          · exact Or.inl h
          · exact Or.inr (by simp [h])
      · intro y hy
        rcases List.mem_cons.mp hy with rfl | hy
        · exact Or.inr (by simp)
        · rcases i4 y hy with h | h
          · exact Or.inl h
          · exact Or.inr (by simp [h])

theorem sortKV_spec : ∀ (ks : List String) (vs : List Payload), ks.length = vs.length → ks.Nodup →
    Ty.strictAsc (sortKV ks vs).1 = true ∧ (sortKV ks vs).1.length = (sortKV ks vs).2.length ∧
    (∀ x ∈ (sortKV ks vs).1, x ∈ ks) ∧ (∀ u ∈ (sortKV ks vs).2, u ∈ vs)
  | [], [], _, _ => by simp [sortKV, Ty.strictAsc]
  | [], _ :: _, h, _ => by simp at h
  | _ :: _, [], h, _ => by simp at h
  | k :: ks, v :: vs, hl, hn => by
    have ⟨hk, hn'⟩ := List.nodup_cons.mp hn
    obtain ⟨s1, s2, s3, s4⟩ := sortKV_spec ks vs (by simpa using hl) hn'
    simp only [sortKV]
    obtain ⟨i1, i2, i3, i4⟩ := insertKV_spec k v _ _ s2 s1 (fun hm => hk (s3 k hm))
    refine ⟨i1, i2, ?_, ?_⟩
    · intro x hx
      rcases i3 x hx with rfl | h
      · simp
      · exact List.mem_cons_of_mem _ (s3 x h)
    · intro u hu
      rcases i4 u hu with rfl | h
      · simp
      · exact List.mem_cons_of_mem _ (s4 u h)

theorem mapVal_sat {e : Ty} {ks : List String} {vals : List Value} (hw : Ty.wf e = true) (hv : ∀ v ∈ vals, P env e v) :
    Sat (P env (.map e)) (mapVal env e ks vals) := by
  unfold mapVal
  simp only
  have hsub := lastWins_subset ks vals
  have hlen := lastWins_length ks vals
  generalize lastWins ks vals = d at hsub hlen
  have hd : ∀ v ∈ d.2, P env e v := fun v hv' => hv v (hsub v hv')
  split
  · refine Sat.ok ⟨⟨by simpa [Ty.wf] using hw, by simp [Ty.matches, matches_refl],
      ⟨by simp [Payload.shaped, Payload.shapedAll, Ty.strictAsc], rfl, rfl⟩⟩, fun _ hn => ?_⟩
    exact ⟨by simpa [Ty.namesAll] using hn, by simp [Payload.wfP, Payload.wfAll, Ty.strictAsc]⟩
  · rename_i hne
    split
    · exact Sat.err
    · rename_i hc
      obtain ⟨e', he, _, h2, h3⟩ := unify_ok d.2 .dyn (by simpa using hc) rfl (fun v hv' => (hd v hv').1.wfTy)
      have hne2 : d.2 ≠ [] := by
        intro h0
        have : d.1.length = 0 := by rw [hlen, h0]; rfl
        exact hne (by simpa using this)
      obtain ⟨v0, hv0, hv0e⟩ := unify_some hne2 h2 h3
      rw [he]
      simp only
      split
      · exact Sat.unm
      · rename_i hdup
        have hnd := nodup_of_hasDup _ (by simpa using hdup)
        obtain ⟨s1, s2, s3, s4⟩ := sortKV_spec (d.1.map env.norm) (d.2.map (·.v)) (by simp [hlen]) hnd
        have hmem : ∀ x ∈ (sortKV (d.1.map env.norm) (d.2.map (·.v))).2, ∃ v ∈ d.2, v.v = x := by
          intro x hx
          obtain ⟨v, hvm, rfl⟩ := List.mem_map.mp (s4 x hx)
          exact ⟨v, hvm, rfl⟩
        refine Sat.ok ⟨⟨?_, ?_, ⟨?_, ?_, ?_⟩⟩, fun hlaw hn => ⟨?_, ?_⟩⟩
        · simpa [Ty.wf, ← hv0e] using (hd v0 hv0).1.wfTy
        · simpa [Ty.matches, ← hv0e] using (hd v0 hv0).1.conf
        · simp only [Payload.shaped, Bool.and_eq_true, beq_iff_eq]
          refine ⟨⟨s2, s1⟩, shapedAll_of_mem ?_⟩
          intro x hx
          obtain ⟨v, hvm, rfl⟩ := hmem x hx
          exact (dec_retype (hd v hvm).1.dec (h2 v hvm)).shaped
        · simp only [Payload.whollyKnown]
          refine whollyKnownL_of_mem ?_
          intro x hx
          obtain ⟨v, hvm, rfl⟩ := hmem x hx
          exact (hd v hvm).1.dec.known
        · simp only [Payload.containsMarked]
          refine containsMarkedL_of_mem ?_
          intro x hx
          obtain ⟨v, hvm, rfl⟩ := hmem x hx
          exact (hd v hvm).1.dec.clean
        · have := ((hd v0 hv0).2 hlaw (by simpa [Ty.namesAll] using hn)).names
          simpa [Ty.namesAll, ← hv0e] using this
        · simp only [Payload.wfP, Bool.and_eq_true, beq_iff_eq]
          refine ⟨⟨⟨s2, s1⟩, ?_⟩, wfAll_of_mem ?_⟩
          · simp only [List.all_eq_true]
            intro x hx
            obtain ⟨k, _, rfl⟩ := List.mem_map.mp (s3 x hx)
            simp [nfcE, nfcOf, hlaw.norm_idem]
          · intro x hx
            obtain ⟨v, hvm, rfl⟩ := hmem x hx
            exact wfP_retype (hd v hvm).1.dec ((hd v hvm).2 hlaw (by simpa [Ty.namesAll] using hn)).wfp (h2 v hvm)

end

end C17Json
end CtyModel
