/-
C20 — purity: the operations whose Go code ranges over a Go map do not depend on
the iteration schedule.  A schedule is a permutation of the map's entries.
-/
import CtyModel.Ops
import CtyModel.Heap
namespace CtyModel
namespace Purity
open Value

/-! ### `Value.Equals`, object and map branches (cty/value_ops.go)

`outs` are the outcomes of the member comparisons in the order the `range` loop
visits them (computed lazily by the code: a `False` breaks out of the loop). -/

/-- the loop as it is since /repo c1eb320: a known-unequal member decides; only
otherwise does an unknown comparison make the result unknown -/
def eqLoop : List (Res EqAcc) → Bool → Res EqAcc
  | [], sawU => .ok (if sawU then .u else .t)
  | .ok .t :: rest, sawU => eqLoop rest sawU
  | .ok .u :: rest, _ => eqLoop rest true
  | r :: _, _ => r

/-- the loop as it was before c1eb320: the first comparison that is not known-true
decides — unknown *or* false -/
def eqLoopOld : List (Res EqAcc) → Res EqAcc
  | [] => .ok .t
  | .ok .t :: rest => eqLoopOld rest
  | r :: _ => r

/-- the comparisons the object branch makes, in attribute order -/
def objOuts (rec : EqRec) : List Ty → List Payload → List Payload → List (Res EqAcc)
  | t :: ts, x :: xs, y :: ys => eqAccOf (rec t x t y) :: objOuts rec ts xs ys
  | _, _, _ => []

/-- the comparisons the map branch makes, in key order (a key missing from the
other map counts as a known-unequal member) -/
def mapOuts (rec : EqRec) (e : Ty) : List String → List Payload → List String → List Payload → List (Res EqAcc)
  | k :: ks, x :: xs, ky, ys =>
    (match lookupKey k ky ys with
     | none => .ok .f
     | some y => eqAccOf (rec e x e y)) :: mapOuts rec e ks xs ky ys
  | _, _, _, _ => []

/-- the model function diffed against the code IS this loop, run in key order -/
theorem equalsObj_eq_loop (rec : EqRec) :
    ∀ (ts : List Ty) (xs ys : List Payload) (sawU : Bool),
      equalsObj rec ts xs ys sawU = eqLoop (objOuts rec ts xs ys) sawU := by
  intro ts
  induction ts with
  | nil => intro xs ys s; simp [equalsObj, objOuts, eqLoop]
  | cons t ts ih =>
    intro xs ys s
    cases xs with
    | nil => simp [equalsObj, objOuts, eqLoop]
    | cons x xs =>
      cases ys with
      | nil => simp [equalsObj, objOuts, eqLoop]
      | cons y ys =>
        simp only [equalsObj, objOuts]
        cases h : eqAccOf (rec t x t y) with
        | ok a => cases a <;> simp [eqLoop, ih]
        | _ => simp [eqLoop]

theorem equalsMap_eq_loop (rec : EqRec) (e : Ty) (ky : List String) (ys : List Payload) :
    ∀ (ks : List String) (xs : List Payload) (sawU : Bool),
      equalsMap rec e ks xs ky ys sawU = eqLoop (mapOuts rec e ks xs ky ys) sawU := by
  intro ks
  induction ks with
  | nil => intro xs s; simp [equalsMap, mapOuts, eqLoop]
  | cons k ks ih =>
    intro xs s
    cases xs with
    | nil => simp [equalsMap, mapOuts, eqLoop]
    | cons x xs =>
      simp only [equalsMap, mapOuts]
      cases hl : lookupKey k ky ys with
      | none => simp [eqLoop]
      | some y =>
        simp only []
        cases h : eqAccOf (rec e x e y) with
        | ok a => cases a <;> simp [eqLoop, ih]
        | _ => simp [eqLoop]

/-- closed form of the loop when every comparison returns: `False` if some member
is known unequal; otherwise unknown if some comparison is; otherwise `True` -/
theorem eqLoop_closed : ∀ (l : List (Res EqAcc)) (sawU : Bool), (∀ r ∈ l, r.isOk = true) →
    (Res.ok EqAcc.f ∈ l → eqLoop l sawU = .ok .f) ∧
    (Res.ok EqAcc.f ∉ l → (sawU = true ∨ Res.ok EqAcc.u ∈ l) → eqLoop l sawU = .ok .u) ∧
    (Res.ok EqAcc.f ∉ l → sawU = false → Res.ok EqAcc.u ∉ l → eqLoop l sawU = .ok .t) := by
  intro l
  induction l with
  | nil => intro s _; cases s <;> simp [eqLoop]
  | cons r l ih =>
    intro s hok
    have hl : ∀ r ∈ l, r.isOk = true := fun r hr => hok r (List.mem_cons_of_mem _ hr)
    have hr := hok r List.mem_cons_self
    cases r with
    | ok a =>
      cases a with
      | t =>
        obtain ⟨h1, h2, h3⟩ := ih s hl
        refine ⟨fun h => ?_, fun h hu => ?_, fun h hs hu => ?_⟩
        · simp only [eqLoop]; exact h1 (by simpa using h)
        · simp only [eqLoop]; exact h2 (by simpa using h) (by simpa using hu)
        · simp only [eqLoop]; exact h3 (by simpa using h) hs (by simpa using hu)
      | f => simp [eqLoop]
      | u =>
        obtain ⟨h1, h2, _⟩ := ih true hl
        refine ⟨fun h => ?_, fun h _ => ?_, fun _ _ hu => ?_⟩
        · simp only [eqLoop]; exact h1 (by simpa using h)
        · simp only [eqLoop]; exact h2 (by simpa using h) (.inl rfl)
        · simp at hu
    | _ => simp [Res.isOk] at hr

/-- **purity of the Equals loop**: any two visiting orders give the same answer -/
theorem eqLoop_perm {l l' : List (Res EqAcc)} (hp : l.Perm l') (hok : ∀ r ∈ l, r.isOk = true)
    (sawU : Bool) : eqLoop l sawU = eqLoop l' sawU := by
  have hok' : ∀ r ∈ l', r.isOk = true := fun r hr => hok r (hp.mem_iff.mpr hr)
  obtain ⟨a1, a2, a3⟩ := eqLoop_closed l sawU hok
  obtain ⟨b1, b2, b3⟩ := eqLoop_closed l' sawU hok'
  by_cases hf : Res.ok EqAcc.f ∈ l
  · rw [a1 hf, b1 (hp.mem_iff.mp hf)]
  · have hf' : Res.ok EqAcc.f ∉ l' := fun h => hf (hp.mem_iff.mpr h)
    by_cases hu : sawU = true ∨ Res.ok EqAcc.u ∈ l
    · rw [a2 hf hu, b2 hf' (hu.imp id hp.mem_iff.mp)]
    · have hs : sawU = false := by cases sawU <;> simp_all
      have hu1 : Res.ok EqAcc.u ∉ l := fun h => hu (.inr h)
      rw [a3 hf hs hu1, b3 hf' hs (fun h => hu1 (hp.mem_iff.mpr h))]

/-! ### constructors that range over the caller's map (ObjectVal, MapVal, cty.Object)

`for attr, val := range attrs { attr = NormalizeString(attr); attrVals[attr] = val.v }` -/

open Heap in
/-- the map the loop builds when it visits the entries in the order `σ` -/
def buildMap (norm : String → String) (σ : List (String × Word)) : List (Key × Word) :=
  σ.foldl (fun acc kv => kvInsert (.s (norm kv.1)) kv.2 acc) []

open Heap

theorem kvLookup_kvInsert (k k' : Key) (w : Word) :
    ∀ l : List (Key × Word), kvLookup k (kvInsert k' w l) = if k' = k then some w else kvLookup k l := by
  intro l
  induction l with
  | nil => simp [kvInsert, kvLookup]
  | cons hd tl ih =>
    rcases hd with ⟨k1, w1⟩
    simp only [kvInsert]
    split
    · rename_i e
      subst e
      simp only [kvLookup]
      split <;> simp_all
    · split
      · simp only [kvLookup]
      · rename_i hne _
        simp only [kvLookup, ih]
        by_cases e1 : k1 = k
        · subst e1; simp [Ne.symm hne]
        · simp [e1]

/-- two maps that answer every lookup alike (Go maps have no other observable content) -/
def SameMap (a b : List (Key × Word)) : Prop := ∀ k, kvLookup k a = kvLookup k b

def ins (norm : String → String) (acc : List (Key × Word)) (kv : String × Word) : List (Key × Word) :=
  kvInsert (.s (norm kv.1)) kv.2 acc

theorem buildMap_eq (norm : String → String) (σ : List (String × Word)) :
    buildMap norm σ = σ.foldl (ins norm) [] := rfl

theorem ins_same {norm : String → String} {a b : List (Key × Word)} (h : SameMap a b)
    (kv : String × Word) : SameMap (ins norm a kv) (ins norm b kv) := by
  intro k; simp only [ins, kvLookup_kvInsert, h k]

theorem foldl_same {norm : String → String} : ∀ (l : List (String × Word)) {a b : List (Key × Word)},
    SameMap a b → SameMap (l.foldl (ins norm) a) (l.foldl (ins norm) b) := by
  intro l
  induction l with
  | nil => intro a b h; exact h
  | cons x l ih => intro a b h; exact ih (ins_same h x)

theorem ins_swap {norm : String → String} {a b : List (Key × Word)} (h : SameMap a b)
    (x y : String × Word) (hxy : norm x.1 = norm y.1 → x = y) :
    SameMap (ins norm (ins norm a y) x) (ins norm (ins norm b x) y) := by
  intro k
  simp only [ins, kvLookup_kvInsert, h k]
  by_cases e : norm x.1 = norm y.1
  · have := hxy e; subst this; rfl
  · by_cases e1 : Key.s (norm x.1) = k
    · have : ¬ Key.s (norm y.1) = k := by intro e2; rw [← e2] at e1; exact e (by simpa using e1)
      simp [e1, this]
    · simp [e1]

/-- no two different entries of the caller's map have keys that normalise alike -/
def NormDistinct (norm : String → String) (σ : List (String × Word)) : Prop :=
  ∀ x ∈ σ, ∀ y ∈ σ, norm x.1 = norm y.1 → x = y

theorem buildMap_perm_aux {norm : String → String} {l l' : List (String × Word)} (hp : l.Perm l') :
    NormDistinct norm l → ∀ {a b : List (Key × Word)}, SameMap a b →
      SameMap (l.foldl (ins norm) a) (l'.foldl (ins norm) b) := by
  induction hp with
  | nil => intro _ a b h; exact h
  | cons x _ ih =>
    intro hd a b h
    exact ih (fun u hu v hv => hd u (List.mem_cons_of_mem _ hu) v (List.mem_cons_of_mem _ hv)) (ins_same h x)
  | swap x y t =>
    intro hd a b h
    exact foldl_same t (ins_swap h x y (hd x (by simp) y (by simp)))
  | trans p1 _ ih1 ih2 =>
    intro hd a b h
    have hd2 : NormDistinct norm _ := fun u hu v hv => hd u (p1.mem_iff.mpr hu) v (p1.mem_iff.mpr hv)
    exact fun k => (ih1 hd (a := a) (b := a) (fun _ => rfl) k).trans (ih2 hd2 h k)

/-- **purity of ObjectVal / MapVal / cty.Object**: when no two keys of the caller's
map normalise to the same string, the map built does not depend on the order in
which Go's `range` visits the entries -/
theorem buildMap_perm {norm : String → String} {l l' : List (String × Word)} (hp : l.Perm l')
    (hd : NormDistinct norm l) : SameMap (buildMap norm l) (buildMap norm l') :=
  buildMap_perm_aux hp hd (fun _ => rfl)

end Purity
end CtyModel
