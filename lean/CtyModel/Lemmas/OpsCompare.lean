/-
C01 for the comparisons `LessThan` / `GreaterThan`: the range shortcuts compare
bounds strictly, every value an operand can stand for lies within its bounds
(inclusive or not), so a definite answer from the bounds is the answer for the
concrete numbers; otherwise the answer is the not-null unknown boolean.
-/
import CtyModel.Lemmas.OpsLogic
namespace CtyModel
open Value Cov NumCmp


theorem numEq_cmp {ex : Bool} {x y : Num} (h : numEq ex x y = true) : Num.cmp x y = 0 := by
  cases ex <;> simp [numEq] at h
  · exact h
  · subst h; exact cmp_self x

theorem numEq_exact {x y : Num} (h : numEq true x y = true) : x = y := by
  simpa [numEq] using h

theorem numEq_refl (ex : Bool) (x : Num) : numEq ex x x = true := by
  cases ex <;> simp [numEq, cmp_self]

theorem cmp_negInf_le (x : Num) : Num.cmp (.inf true) x ≤ 0 := by
  have := cmp_negInf x
  rw [cmp_swap x (.inf true)]
  omega

theorem loInside_pt {lo : Option Bound} {x : Num} (h : loInside lo (pt x) = true) :
    Num.cmp (lo.getD negInfB).v x ≤ 0 := by
  simp only [loInside, pt, Option.getD_some] at h
  cases hi : (lo.getD negInfB).incl <;> simp [hi] at h <;> have h := of_decide_eq_true h <;> omega

theorem hiInside_pt {hi : Option Bound} {x : Num} (h : hiInside hi (pt x) = true) :
    Num.cmp x (hi.getD posInfB).v ≤ 0 := by
  simp only [hiInside, pt, Option.getD_some] at h
  cases hi' : (hi.getD posInfB).incl <;> simp [hi'] at h <;> have h := of_decide_eq_true h <;> omega

/-- a wholly known number operand that passes `asNum` -/
theorem asNum_inv {o : Value} {x : Num} (h : asNum o = .ok x) : o.v = .n x := by
  obtain ⟨t, p⟩ := o
  cases p <;> simp_all [asNum]

/-- a known value covering the number `x` is a number with the same value -/
theorem asNum_of_covers {ex : Bool} {w o : Value} {x : Num} (hc : CoversG ex w o = true) (ho : asNum o = .ok x)
    (hw : w.isMarked = false) (hu : w.isUnk = false) : ∃ y, asNum w = .ok y ∧ numEq ex y x = true := by
  obtain ⟨tw, pw⟩ := w
  obtain ⟨to, po⟩ := o
  have := asNum_inv ho
  simp only at this
  subst this
  simp only [CoversG, Bool.and_eq_true] at hc
  obtain ⟨_, hcp⟩ := hc
  cases pw <;> simp_all [Payload.stripMarks, coversP, asNum, Value.isMarked, Payload.isMarked, Value.isUnk]

/-- the numeric range of an unmarked number-typed value that covers the number `x` contains `x` -/
theorem range_bounds_of_covers {ex : Bool} {w o : Value} {x : Num} (hc : CoversG ex w o = true) (ho : o.v = .n x)
    (hw : w.isMarked = false) (ht : w.ty = .number) :
    ∃ raw l h, w.range = .ok ⟨.number, raw⟩ ∧ VRange.numLower ⟨.number, raw⟩ = .ok (some l) ∧
      VRange.numUpper ⟨.number, raw⟩ = .ok (some h) ∧ Num.cmp l x ≤ 0 ∧ Num.cmp x h ≤ 0 := by
  obtain ⟨tw, pw⟩ := w
  obtain ⟨to, po⟩ := o
  simp only at ho ht
  subst ho ht
  simp only [CoversG, Bool.and_eq_true] at hc
  obtain ⟨_, hcp⟩ := hc
  cases pw <;> simp [Payload.stripMarks, coversP, Value.isMarked, Payload.isMarked] at hcp hw
  · -- unknown
    rename_i r
    simp only [admits, rfnAdmitsKnown] at hcp
    cases r with
    | unref =>
      exact ⟨_, _, _, by simp [Value.range, Value.isMarked, Payload.isMarked]; rfl, rfl, rfl, cmp_negInf_le x, cmp_posInf x⟩
    | nullable n =>
      exact ⟨_, _, _, by simp [Value.range, Value.isMarked, Payload.isMarked]; rfl, rfl, rfl, cmp_negInf_le x, cmp_posInf x⟩
    | str n p => simp at hcp
    | coll n lo hi => simp [possibleLen] at hcp
    | num n lo hi =>
      simp only [Bool.and_eq_true] at hcp
      obtain ⟨_, hlo, hhi⟩ := hcp
      refine ⟨_, (lo.getD negInfB).v, (hi.getD posInfB).v, by simp [Value.range, Value.isMarked, Payload.isMarked]; rfl, ?_, ?_, ?_, ?_⟩
      · cases lo <;> rfl
      · cases hi <;> rfl
      · exact loInside_pt hlo
      · exact hiInside_pt hhi
  · -- known number
    rename_i y
    have hy := numEq_cmp hcp
    refine ⟨.num .f (some ⟨y, true⟩) (some ⟨y, true⟩), y, y, by simp [Value.range, Value.isMarked, Payload.isMarked], rfl, rfl, by omega, ?_⟩
    rw [cmp_swap y x]; omega

/-- `Range()` of an unmarked value of number or placeholder type never panics and keeps the type -/
theorem range_ok_numdyn {w : Value} (hw : w.isMarked = false) (ht : w.ty = .number ∨ w.ty = .dyn) :
    ∃ raw, w.range = .ok ⟨w.ty, raw⟩ := by
  obtain ⟨tw, pw⟩ := w
  simp only at ht
  rcases ht with rfl | rfl <;> cases pw <;>
    simp_all [Value.range, Value.isMarked, Payload.isMarked] <;> (try split) <;> exact ⟨_, rfl⟩

theorem rangeLess_dyn {a b : Value} (ha : a.isMarked = false) (hb : b.isMarked = false)
    (hta : a.ty = .number ∨ a.ty = .dyn) (htb : b.ty = .number ∨ b.ty = .dyn)
    (hd : a.ty = .dyn ∨ b.ty = .dyn) : rangeLess a b = .ok none := by
  obtain ⟨ra, hra⟩ := range_ok_numdyn ha hta
  obtain ⟨rb, hrb⟩ := range_ok_numdyn hb htb
  unfold rangeLess
  rw [hra, hrb]
  simp only [Res.bind_ok]
  rcases hd with h | h <;> simp [h, Ty.isNumber, pure]


theorem tc2_number_inv {a b : Value} {tc : TC} (h : typeCheck .number [a, b] = .ok tc) :
    (a.ty = .number ∨ a.ty = .dyn) ∧ (b.ty = .number ∨ b.ty = .dyn) ∧
    (tc = .dynamic → a.ty = .dyn ∨ b.ty = .dyn) ∧ (tc ≠ .dynamic → a.ty = .number ∧ b.ty = .number) := by
  rw [typeCheck2] at h
  by_cases d1 : a.ty.isDyn = true <;> by_cases e1 : a.ty.equals .number = true <;>
  by_cases d2 : b.ty.isDyn = true <;> by_cases e2 : b.ty.equals .number = true <;>
    simp [d1, e1, d2, e2] at h <;>
    (try rw [isDyn_iff] at d1) <;> (try rw [isDyn_iff] at d2) <;>
    (try rw [equals_number_iff] at e1) <;> (try rw [equals_number_iff] at e2) <;>
    simp_all <;> (subst h; split <;> simp)

/-- the range shortcut of LessThan/GreaterThan on operands that cover the numbers `x₁`, `x₂` -/
theorem rangeLess_sound {ex : Bool} {w₁ w₂ o₁ o₂ : Value} {x₁ x₂ : Num}
    (hc₁ : CoversG ex w₁ o₁ = true) (hc₂ : CoversG ex w₂ o₂ = true) (ho₁ : o₁.v = .n x₁) (ho₂ : o₂.v = .n x₂)
    (hm₁ : w₁.isMarked = false) (hm₂ : w₂.isMarked = false)
    (ht₁ : w₁.ty = .number ∨ w₁.ty = .dyn) (ht₂ : w₂.ty = .number ∨ w₂.ty = .dyn) :
    ∃ s, rangeLess w₁ w₂ = .ok s ∧ (s = some true → Num.cmp x₁ x₂ < 0) ∧ (s = some false → Num.cmp x₁ x₂ > 0) := by
  rcases ht₁ with t1 | t1
  · rcases ht₂ with t2 | t2
    · obtain ⟨raw1, l1, h1, r1, lo1, hi1, b1, c1⟩ := range_bounds_of_covers hc₁ ho₁ hm₁ t1
      obtain ⟨raw2, l2, h2, r2, lo2, hi2, b2, c2⟩ := range_bounds_of_covers hc₂ ho₂ hm₂ t2
      unfold rangeLess
      rw [r1, r2]
      simp only [Res.bind_ok, Ty.isNumber, Bool.and_self, if_true, lo1, hi1, lo2, hi2]
      by_cases ha : Num.cmp h1 l2 < 0
      · refine ⟨some true, by simp [ha, pure], fun _ => ?_, fun h => by simp at h⟩
        exact cmp_le_lt_trans c1 (cmp_lt_le_trans ha b2)
      · by_cases hb : Num.cmp l1 h2 > 0
        · refine ⟨some false, by simp [ha, hb, pure], fun h => by simp at h, fun _ => ?_⟩
          -- x₂ ≤ h2 < l1 ≤ x₁
          have hb' : Num.cmp h2 l1 < 0 := by rw [cmp_swap l1 h2]; omega
          have := cmp_le_lt_trans c2 (cmp_lt_le_trans hb' b1)
          rw [cmp_swap x₂ x₁]; omega
        · exact ⟨none, by simp [ha, hb, pure], fun h => by simp at h, fun h => by simp at h⟩
    · exact ⟨none, rangeLess_dyn hm₁ hm₂ (Or.inl t1) (Or.inr t2) (Or.inr t2), fun h => by simp at h, fun h => by simp at h⟩
  · exact ⟨none, rangeLess_dyn hm₁ hm₂ (Or.inr t1) ht₂ (Or.inl t1), fun h => by simp at h, fun h => by simp at h⟩

theorem covers_boolVal_eq {x y : Bool} (h : x = y) : Covers (boolVal x) (boolVal y) = true := by
  subst h; exact covers_boolVal_self _

theorem lessThanU_sound : SoundU₂ lessThanU := by
  intro o₁ o₂ w₁ w₂ r hk₁ hk₂ hmo₁ hmo₂ hmw₁ hmw₂ hc₁ hc₂ ho
  unfold lessThanU at ho ⊢
  obtain ⟨tco, hto, ho⟩ := Res.bind_eq_ok.mp ho
  obtain ⟨tcw, htw⟩ := tc2_ok_of_covers (Or.inr rfl) hc₁ hc₂ hto
  obtain ⟨wt1, wt2, wd, wn⟩ := tc2_number_inv htw
  obtain ⟨ot1, ot2, od, on⟩ := tc2_number_inv hto
  rw [htw, Res.bind_ok]
  rcases tc_cases tco with rfl | rfl | rfl
  · -- the concrete call compares two known numbers
    simp only at ho
    obtain ⟨x₁, hx₁, ho⟩ := Res.bind_eq_ok.mp ho
    obtain ⟨x₂, hx₂, ho⟩ := Res.bind_eq_ok.mp ho
    simp only [pure, Res.ok.injEq] at ho
    subst ho
    have short : ∃ r', (do match ← rangeLess w₁ w₂ with
          | some r => pure (boolVal r)
          | none => pure unkBool) = Res.ok r' ∧ Covers r' (boolVal (decide (Num.cmp x₁ x₂ < 0))) = true := by
      obtain ⟨s, hs, st, sf⟩ := rangeLess_sound hc₁ hc₂ (asNum_inv hx₁) (asNum_inv hx₂) hmw₁ hmw₂ wt1 wt2
      rw [hs, Res.bind_ok]
      cases s with
      | none => exact ⟨_, rfl, covers_unkBool_boolVal _⟩
      | some b =>
        cases b
        · refine ⟨_, rfl, covers_boolVal_eq ?_⟩
          have := sf rfl
          symm; simp; omega
        · refine ⟨_, rfl, covers_boolVal_eq ?_⟩
          have := st rfl
          symm; simp; omega
    rcases tc_cases tcw with rfl | rfl | rfl
    · obtain ⟨_, u1, u2⟩ := tc2_none_of_covers (Or.inr rfl) hk₁ hk₂ hc₁ hc₂ htw
      obtain ⟨y₁, hy₁, s₁⟩ := asNum_of_covers hc₁ hx₁ hmw₁ u1
      obtain ⟨y₂, hy₂, s₂⟩ := asNum_of_covers hc₂ hx₂ hmw₂ u2
      simp only [hy₁, hy₂, Res.bind_ok, pure]
      refine ⟨_, rfl, covers_boolVal_eq ?_⟩
      rw [cmp_congr_left (numEq_cmp s₁) y₂, cmp_congr_right (numEq_cmp s₂) x₁]
    · exact short
    · exact short
  · -- some concrete operand has the placeholder type: both calls answer "unknown"
    simp only at ho
    have hro := rangeLess_dyn hmo₁ hmo₂ ot1 ot2 (od rfl)
    rw [hro, Res.bind_ok] at ho
    simp only [pure, Res.ok.injEq] at ho
    subst ho
    have hd : w₁.ty = .dyn ∨ w₂.ty = .dyn := by
      rcases od rfl with h | h
      · exact Or.inl (covers_ty_dyn hc₁ h)
      · exact Or.inr (covers_ty_dyn hc₂ h)
    have hrw := rangeLess_dyn hmw₁ hmw₂ wt1 wt2 hd
    rcases tc_cases tcw with rfl | rfl | rfl
    · rcases hd with h | h
      · rw [(wn (by simp)).1] at h; cases h
      · rw [(wn (by simp)).2] at h; cases h
    · simp only [hrw, Res.bind_ok]; exact ⟨_, rfl, covers_unkBool_self⟩
    · simp only [hrw, Res.bind_ok]; exact ⟨_, rfl, covers_unkBool_self⟩
  · exact absurd rfl (tc2_not_unknown hk₁ hk₂ hto)

/-- the range shortcut of GreaterThan (written inline in the method) -/
def gtShort (a b : Value) : Res Value := do
  let ra ← a.range
  let rb ← b.range
  if ra.ty.isNumber && rb.ty.isNumber then
    let aMin ← ra.numLower
    let bMax ← rb.numUpper
    let aMax ← ra.numUpper
    let bMin ← rb.numLower
    match aMin, bMax, aMax, bMin with
    | some aMin, some bMax, some aMax, some bMin =>
      if Num.cmp aMin bMax > 0 then pure (boolVal true)
      else if Num.cmp aMax bMin < 0 then pure (boolVal false)
      else pure unkBool
    | _, _, _, _ => pure unkBool
  else pure unkBool

theorem greaterThanU_eq (a b : Value) : greaterThanU a b = (do
    match ← typeCheck .number [a, b] with
    | .none =>
      let x ← asNum a
      let y ← asNum b
      pure (boolVal (Num.cmp x y > 0))
    | _ => gtShort a b) := rfl

theorem gtShort_dyn {a b : Value} (ha : a.isMarked = false) (hb : b.isMarked = false)
    (hta : a.ty = .number ∨ a.ty = .dyn) (htb : b.ty = .number ∨ b.ty = .dyn)
    (hd : a.ty = .dyn ∨ b.ty = .dyn) : gtShort a b = .ok unkBool := by
  obtain ⟨ra, hra⟩ := range_ok_numdyn ha hta
  obtain ⟨rb, hrb⟩ := range_ok_numdyn hb htb
  unfold gtShort
  rw [hra, hrb]
  simp only [Res.bind_ok]
  rcases hd with h | h <;> simp [h, Ty.isNumber, pure]

theorem gtShort_sound {ex : Bool} {w₁ w₂ o₁ o₂ : Value} {x₁ x₂ : Num}
    (hc₁ : CoversG ex w₁ o₁ = true) (hc₂ : CoversG ex w₂ o₂ = true) (ho₁ : o₁.v = .n x₁) (ho₂ : o₂.v = .n x₂)
    (hm₁ : w₁.isMarked = false) (hm₂ : w₂.isMarked = false)
    (ht₁ : w₁.ty = .number ∨ w₁.ty = .dyn) (ht₂ : w₂.ty = .number ∨ w₂.ty = .dyn) :
    ∃ r', gtShort w₁ w₂ = .ok r' ∧ Covers r' (boolVal (decide (Num.cmp x₁ x₂ > 0))) = true := by
  rcases ht₁ with t1 | t1
  · rcases ht₂ with t2 | t2
    · obtain ⟨raw1, l1, h1, r1, lo1, hi1, b1, c1⟩ := range_bounds_of_covers hc₁ ho₁ hm₁ t1
      obtain ⟨raw2, l2, h2, r2, lo2, hi2, b2, c2⟩ := range_bounds_of_covers hc₂ ho₂ hm₂ t2
      unfold gtShort
      rw [r1, r2]
      simp only [Res.bind_ok, Ty.isNumber, Bool.and_self, if_true, lo1, hi1, lo2, hi2]
      by_cases hb : Num.cmp l1 h2 > 0
      · refine ⟨boolVal true, by simp [hb, pure], covers_boolVal_eq ?_⟩
        have hb' : Num.cmp h2 l1 < 0 := by rw [cmp_swap l1 h2]; omega
        have := cmp_le_lt_trans c2 (cmp_lt_le_trans hb' b1)
        symm; simp; rw [cmp_swap x₂ x₁]; omega
      · by_cases ha : Num.cmp h1 l2 < 0
        · refine ⟨boolVal false, by simp [ha, hb, pure], covers_boolVal_eq ?_⟩
          have := cmp_le_lt_trans c1 (cmp_lt_le_trans ha b2)
          symm; simp; omega
        · exact ⟨unkBool, by simp [ha, hb, pure], covers_unkBool_boolVal _⟩
    · exact ⟨_, gtShort_dyn hm₁ hm₂ (Or.inl t1) (Or.inr t2) (Or.inr t2), covers_unkBool_boolVal _⟩
  · exact ⟨_, gtShort_dyn hm₁ hm₂ (Or.inr t1) ht₂ (Or.inl t1), covers_unkBool_boolVal _⟩

theorem greaterThanU_sound : SoundU₂ greaterThanU := by
  intro o₁ o₂ w₁ w₂ r hk₁ hk₂ hmo₁ hmo₂ hmw₁ hmw₂ hc₁ hc₂ ho
  rw [greaterThanU_eq] at ho ⊢
  obtain ⟨tco, hto, ho⟩ := Res.bind_eq_ok.mp ho
  obtain ⟨tcw, htw⟩ := tc2_ok_of_covers (Or.inr rfl) hc₁ hc₂ hto
  obtain ⟨wt1, wt2, wd, wn⟩ := tc2_number_inv htw
  obtain ⟨ot1, ot2, od, on⟩ := tc2_number_inv hto
  rw [htw, Res.bind_ok]
  rcases tc_cases tco with rfl | rfl | rfl
  · simp only at ho
    obtain ⟨x₁, hx₁, ho⟩ := Res.bind_eq_ok.mp ho
    obtain ⟨x₂, hx₂, ho⟩ := Res.bind_eq_ok.mp ho
    simp only [pure, Res.ok.injEq] at ho
    subst ho
    have short := gtShort_sound hc₁ hc₂ (asNum_inv hx₁) (asNum_inv hx₂) hmw₁ hmw₂ wt1 wt2
    rcases tc_cases tcw with rfl | rfl | rfl
    · obtain ⟨_, u1, u2⟩ := tc2_none_of_covers (Or.inr rfl) hk₁ hk₂ hc₁ hc₂ htw
      obtain ⟨y₁, hy₁, s₁⟩ := asNum_of_covers hc₁ hx₁ hmw₁ u1
      obtain ⟨y₂, hy₂, s₂⟩ := asNum_of_covers hc₂ hx₂ hmw₂ u2
      simp only [hy₁, hy₂, Res.bind_ok, pure]
      refine ⟨_, rfl, covers_boolVal_eq ?_⟩
      rw [cmp_congr_left (numEq_cmp s₁) y₂, cmp_congr_right (numEq_cmp s₂) x₁]
    · exact short
    · exact short
  · simp only at ho
    rw [gtShort_dyn hmo₁ hmo₂ ot1 ot2 (od rfl)] at ho
    simp only [Res.ok.injEq] at ho
    subst ho
    have hd : w₁.ty = .dyn ∨ w₂.ty = .dyn := by
      rcases od rfl with h | h
      · exact Or.inl (covers_ty_dyn hc₁ h)
      · exact Or.inr (covers_ty_dyn hc₂ h)
    have hrw := gtShort_dyn hmw₁ hmw₂ wt1 wt2 hd
    rcases tc_cases tcw with rfl | rfl | rfl
    · rcases hd with h | h
      · rw [(wn (by simp)).1] at h; cases h
      · rw [(wn (by simp)).2] at h; cases h
    · exact ⟨_, hrw, covers_unkBool_self⟩
    · exact ⟨_, hrw, covers_unkBool_self⟩
  · exact absurd rfl (tc2_not_unknown hk₁ hk₂ hto)
end CtyModel
