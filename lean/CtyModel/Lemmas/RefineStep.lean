/-
What one successful builder call does (C05): inversion lemmas for the methods of
`RefinementBuilder` as modelled in `CtyModel/Refine.lean`, and from them — for
every primitive call — that the receiver and its marks stay, that the admitted
set becomes exactly `γ b ∩ ⟦c⟧` (or stays as it is for the one bound shape the
builder drops), and that a constraint the known receiver violates is not accepted.
-/
import CtyModel.Lemmas.RefineNum
namespace CtyModel
namespace Refine
open NumCmp

variable [EqOracle]

/-! ## vocabulary -/

/-- the one argument shape the builder silently drops: an *exclusive* bound at the
singleton infinity of its own side (`NumberRangeLowerBound(cty.NegativeInfinity, false)`,
`NumberRangeUpperBound(cty.PositiveInfinity, false)`) -/
def RefineCall.dropped : RefineCall → Bool
  | .numLower .negInf false => true
  | .numUpper .posInf false => true
  | _ => false

/-- the number a bound argument denotes -/
def NumArg.num? : NumArg → Option Num
  | .known m => some m
  | .negInf => some (.inf true)
  | .posInf => some (.inf false)
  | _ => none

/-- a length bound never goes below zero (true of every refinement the builder makes) -/
def _root_.CtyModel.Rfn.lenOk : Rfn → Bool
  | .coll _ lo _ => decide (0 ≤ lo)
  | _ => true

/-- what `Value.Refine()` establishes and every builder call keeps: the receiver is
unmarked; if it is unknown, the work-in-progress refinement is of the kind its
type calls for -/
def Builder.wf (b : Builder) : Bool :=
  !b.orig.v.isMarked && (b.orig.isKnown || kindOk b.orig.ty b.wip)

/-- `b'` is `b` with another work-in-progress refinement -/
def Builder.sameBase (b b' : Builder) : Prop := b'.orig = b.orig ∧ b'.marks = b.marks

omit [EqOracle] in
theorem Builder.sameBase.rfl' (b : Builder) : b.sameBase b := ⟨rfl, rfl⟩
omit [EqOracle] in
theorem Builder.sameBase.trans {a b c : Builder} (h1 : a.sameBase b) (h2 : b.sameBase c) : a.sameBase c :=
  ⟨h2.1.trans h1.1, h2.2.trans h1.2⟩

omit [EqOracle] in
theorem Builder.sameBase_wip (b : Builder) (r : Rfn) : b.sameBase { b with wip := r } := ⟨rfl, rfl⟩

omit [EqOracle] in
theorem Builder.isDyn_congr {b b' : Builder} (h : b.sameBase b') : b'.isDyn = b.isDyn := by
  unfold Builder.isDyn; rw [h.1]

/-! ## Bool helpers -/
omit [EqOracle] in
theorem and_self_of_imp {p q : Bool} (h : p = true → q = true) : p = (p && q) := by
  cases p <;> cases q <;> simp_all
omit [EqOracle] in
theorem and_self_of_imp' {p q : Bool} (h : q = true → p = true) : q = (p && q) := by
  cases p <;> cases q <;> simp_all

/-! ## inversion of the builder methods -/

theorem lowerCore_ok {b b' : Builder} {n : Tri} {lo hi : Option Bound} {m : Num} {incl store : Bool}
    (h : lowerCore b n lo hi m incl store = .ok b') :
    origRejectsLower b.orig m incl = .ok false ∧
    ((b' = b ∧ lowerTighter? m incl lo = some false) ∨
     (lowerTighter? m incl lo = some true ∧
      b' = { b with wip := .num n (if store then some ⟨m, incl⟩ else lo) hi } ∧
      consistent? (if store then some ⟨m, incl⟩ else lo) hi = some true)) := by
  unfold lowerCore at h
  split at h
  · simp at h
  · rename_i hr
    refine ⟨hr, ?_⟩
    split at h
    · simp at h
    · rename_i ht
      simp at h
      exact .inl ⟨h.symm, ht⟩
    · rename_i ht
      right
      refine ⟨ht, ?_⟩
      cases store <;> simp only [if_true, if_false, Bool.false_eq_true] at h ⊢ <;>
      · split at h
        · simp at h
        · simp at h
        · rename_i hc
          simp at h
          exact ⟨h.symm, hc⟩
  all_goals simp at h

theorem upperCore_ok {b b' : Builder} {n : Tri} {lo hi : Option Bound} {m : Num} {incl store : Bool}
    (h : upperCore b n lo hi m incl store = .ok b') :
    origRejectsUpper b.orig m incl = .ok false ∧
    ((b' = b ∧ upperTighter? m incl hi = some false) ∨
     (upperTighter? m incl hi = some true ∧
      b' = { b with wip := .num n lo (if store then some ⟨m, incl⟩ else hi) } ∧
      consistent? lo (if store then some ⟨m, incl⟩ else hi) = some true)) := by
  unfold upperCore at h
  split at h
  · simp at h
  · rename_i hr
    refine ⟨hr, ?_⟩
    split at h
    · simp at h
    · rename_i ht
      simp at h
      exact .inl ⟨h.symm, ht⟩
    · rename_i ht
      right
      refine ⟨ht, ?_⟩
      cases store <;> simp only [if_true, if_false, Bool.false_eq_true] at h ⊢ <;>
      · split at h
        · simp at h
        · simp at h
        · rename_i hc
          simp at h
          exact ⟨h.symm, hc⟩
  all_goals simp at h

/-- `NumberRangeLowerBound` returned: the receiver refines a number and the argument
was unknown (nothing happens) or a number `m`, recorded unless it is the singleton
`cty.NegativeInfinity` -/
theorem stepNumLower_ok {b b' : Builder} {a : NumArg} {incl : Bool} (h : stepNumLower b a incl = .ok b') :
    ∃ n lo hi, b.wip = .num n lo hi ∧
      ((a = .unknown ∧ b' = b) ∨
       (∃ m, a.num? = some m ∧ lowerCore b n lo hi m incl (a != .negInf) = .ok b')) := by
  unfold stepNumLower at h
  split at h
  · rename_i n lo hi hw
    refine ⟨n, lo, hi, hw, ?_⟩
    cases a with
    | unknown => simp at h; exact .inl ⟨rfl, h.symm⟩
    | null => simp at h
    | known m => exact .inr ⟨m, rfl, h⟩
    | negInf => exact .inr ⟨_, rfl, h⟩
    | posInf => exact .inr ⟨_, rfl, h⟩
  · simp at h

theorem stepNumUpper_ok {b b' : Builder} {a : NumArg} {incl : Bool} (h : stepNumUpper b a incl = .ok b') :
    ∃ n lo hi, b.wip = .num n lo hi ∧
      ((a = .unknown ∧ b' = b) ∨
       (∃ m, a.num? = some m ∧ upperCore b n lo hi m incl (a != .posInf) = .ok b')) := by
  unfold stepNumUpper at h
  split at h
  · rename_i n lo hi hw
    refine ⟨n, lo, hi, hw, ?_⟩
    cases a with
    | unknown => simp at h; exact .inl ⟨rfl, h.symm⟩
    | null => simp at h
    | known m => exact .inr ⟨m, rfl, h⟩
    | negInf => exact .inr ⟨_, rfl, h⟩
    | posInf => exact .inr ⟨_, rfl, h⟩
  · simp at h

omit [EqOracle] in
theorem stepNotNull_ok {b b' : Builder} (h : stepNotNull b = .ok b') :
    b' = { b with wip := setNull .f b.wip } ∧ b.wip.nullness ≠ .t ∧ (b.orig.isKnown && b.orig.isNull) = false := by
  unfold stepNotNull at h
  split at h
  · simp at h
  · split at h
    · simp at h
    · rename_i h1 h2
      simp at h
      exact ⟨h.symm, h2, by simpa using h1⟩

omit [EqOracle] in
theorem stepNull_ok {b b' : Builder} (h : stepNull b = .ok b') :
    b' = { b with wip := setNull .t b.wip } ∧ b.wip.nullness ≠ .f ∧ (b.orig.isKnown && !b.orig.isNull) = false := by
  unfold stepNull at h
  split at h
  · simp at h
  · split at h
    · simp at h
    · rename_i h1 h2
      simp at h
      exact ⟨h.symm, h2, by simpa using h1⟩

omit [EqOracle] in
theorem stepLenLower_ok {b b' : Builder} {n : Int} (h : stepLenLower b n = .ok b') :
    ∃ nl lo hi, b.wip = .coll nl lo hi ∧
      ((b' = b ∧ n < lo) ∨ (lo ≤ n ∧ n ≤ hi ∧ b' = { b with wip := .coll nl n hi })) ∧
      (b.orig.isKnown = true → ∃ least most, knownLength b.orig = .ok (least, most) ∧ n ≤ (most : Int)) := by
  unfold stepLenLower at h
  split at h
  · rename_i nl lo hi hw
    refine ⟨nl, lo, hi, hw, ?_⟩
    have cont : ∀ {r : Res Builder}, r = .ok b' →
        r = (if lo > n then .ok b else if hi < n then .panic "length upper bound is less than lower bound"
              else .ok { b with wip := .coll nl n hi }) →
        ((b' = b ∧ n < lo) ∨ (lo ≤ n ∧ n ≤ hi ∧ b' = { b with wip := .coll nl n hi })) := by
      intro r h1 h2
      rw [h2] at h1
      split at h1
      · simp at h1; exact .inl ⟨h1.symm, by omega⟩
      · split at h1
        · simp at h1
        · simp at h1; exact .inr ⟨by omega, by omega, h1.symm⟩
    simp only at h
    split at h
    · rename_i hk
      split at h
      · rename_i least most hkl
        split at h
        · simp at h
        · rename_i hm
          exact ⟨cont h rfl, fun _ => ⟨_, most, hkl, by omega⟩⟩
      all_goals simp at h
    · rename_i hk
      exact ⟨cont h rfl, fun hk' => absurd hk' hk⟩
  · simp at h

omit [EqOracle] in
theorem stepLenUpper_ok {b b' : Builder} {n : Int} (h : stepLenUpper b n = .ok b') :
    ∃ nl lo hi, b.wip = .coll nl lo hi ∧
      ((b' = b ∧ hi < n) ∨ (lo ≤ n ∧ n ≤ hi ∧ b' = { b with wip := .coll nl lo n })) ∧
      (b.orig.isKnown = true → ∃ least most, knownLength b.orig = .ok (least, most) ∧ (least : Int) ≤ n) := by
  unfold stepLenUpper at h
  split at h
  · rename_i nl lo hi hw
    refine ⟨nl, lo, hi, hw, ?_⟩
    have cont : ∀ {r : Res Builder}, r = .ok b' →
        r = (if hi < n then .ok b else if n < lo then .panic "length upper bound is less than lower bound"
              else .ok { b with wip := .coll nl lo n }) →
        ((b' = b ∧ hi < n) ∨ (lo ≤ n ∧ n ≤ hi ∧ b' = { b with wip := .coll nl lo n })) := by
      intro r h1 h2
      rw [h2] at h1
      split at h1
      · simp at h1; exact .inl ⟨h1.symm, by omega⟩
      · split at h1
        · simp at h1
        · simp at h1; exact .inr ⟨by omega, by omega, h1.symm⟩
    simp only at h
    split at h
    · rename_i hk
      split at h
      · rename_i least most hkl
        split at h
        · simp at h
        · rename_i hm
          exact ⟨cont h rfl, fun _ => ⟨least, _, hkl, by omega⟩⟩
      all_goals simp at h
    · rename_i hk
      exact ⟨cont h rfl, fun hk' => absurd hk' hk⟩
  · simp at h

omit [EqOracle] in
theorem stepPrefix_ok {b b' : Builder} {p : String} (h : stepPrefix b p = .ok b') :
    ∃ n q, b.wip = .str n q ∧ overlapDiffers (bytes q) (bytes p) = false ∧
      b' = { b with wip := .str n (if (bytes p).length > (bytes q).length then p else q) } ∧
      ((b.orig.isKnown && !b.orig.isNull) = true →
        ∃ known, b.orig.v = .s known ∧ (bytes p).isPrefixOf (bytes known) = true) := by
  unfold stepPrefix at h
  split at h
  · rename_i n q hw
    refine ⟨n, q, hw, ?_⟩
    have cont : ∀ {r : Res Builder}, r = .ok b' →
        r = (if overlapDiffers (bytes q) (bytes p) then .panic "inconsistent with previous refined prefix"
             else .ok { b with wip := .str n (if (bytes p).length > (bytes q).length then p else q) }) →
        overlapDiffers (bytes q) (bytes p) = false ∧
          b' = { b with wip := .str n (if (bytes p).length > (bytes q).length then p else q) } := by
      intro r h1 h2
      rw [h2] at h1
      split at h1
      · simp at h1
      · rename_i ho
        simp at h1
        exact ⟨by simpa using ho, h1.symm⟩
    simp only at h
    split at h
    · rename_i hk
      split at h
      · rename_i known hs
        split at h
        · simp at h
        · rename_i hp
          obtain ⟨c1, c2⟩ := cont h rfl
          exact ⟨c1, c2, fun _ => ⟨known, hs, by simpa using hp⟩⟩
      · simp at h
    · rename_i hk
      obtain ⟨c1, c2⟩ := cont h rfl
      exact ⟨c1, c2, fun hk' => absurd hk' hk⟩
  · simp at h

end Refine
end CtyModel
