/-
C05, slice d05b: WHOLE CHAINS on a known collection whose length is a range.

`KnownIsAssertion` (Props/C05.lean) says: an accepted chain on a known value holds, call by call, of THE concrete
value the receiver stands for.  A known set with unknown members stands for several lengths `least … most`
(`knownLength`).  The statement for such a receiver: an accepted chain holds JOINTLY of SOME length the receiver can
have — `∃ l, least ≤ l ≤ most ∧ every call holds of a collection of length l`.  (Call by call would be weaker:
`CollectionLengthLowerBound(2)` then `CollectionLengthUpperBound(1)` on `{unknown, "a"}` are each satisfiable.)

Proof: the recorded length range `[lo, hi]` always meets `[least, most]` (`KInv`: every accepted bound was compared with
`Length()`), and every length inside `[lo, hi]` satisfies every accepted call (`inRange`).  For every equality oracle:
no number is compared.
-/
import CtyModel.Lemmas.d05bLen
import CtyModel.Lemmas.RefineEnds
namespace CtyModel
namespace Refine
namespace D05b

/-- what a chain on a known collection keeps: the receiver, and a recorded range that meets the possible lengths -/
def KInv (least most : Nat) (b : Builder) : Prop :=
  b.isDyn = false ∧ b.orig.isKnown = true ∧ b.orig.isNull = false ∧ knownLength b.orig = .ok (least, most) ∧
  ∃ nl lo hi, b.wip = .coll nl lo hi ∧ lo ≤ hi ∧ lo ≤ (most : Int) ∧ (least : Int) ≤ hi

/-- the length `l` lies in the recorded range -/
def inRange (b : Builder) (l : Nat) : Prop :=
  ∃ nl lo hi, b.wip = .coll nl lo hi ∧ lo ≤ (l : Int) ∧ (l : Int) ≤ hi

theorem lenLower_inv {least most : Nat} {b b' : Builder} {n : Int} (hI : KInv least most b)
    (h : stepLenLower b n = .ok b') :
    KInv least most b' ∧ ∀ l, inRange b' l → inRange b l ∧ n ≤ (l : Int) := by
  obtain ⟨hd, hk, hn, hl, nl, lo, hi, hw, h1, h2, h3⟩ := hI
  obtain ⟨nl', lo', hi', hw', hcase, hkn⟩ := stepLenLower_ok h
  rw [hw] at hw'; cases hw'
  obtain ⟨least', most', hl', hm⟩ := hkn hk
  rw [hl] at hl'; cases hl'
  rcases hcase with ⟨rfl, hlt⟩ | ⟨h4, h5, rfl⟩
  · refine ⟨⟨hd, hk, hn, hl, nl, lo, hi, hw, h1, h2, h3⟩, fun l hr => ⟨hr, ?_⟩⟩
    obtain ⟨_, lo2, hi2, hw2, h6, _⟩ := hr
    rw [hw] at hw2; cases hw2
    omega
  · refine ⟨⟨hd, hk, hn, hl, nl, n, hi, rfl, h5, hm, h3⟩, fun l hr => ?_⟩
    obtain ⟨_, lo2, hi2, hw2, h6, h7⟩ := hr
    cases hw2
    exact ⟨⟨nl, lo, hi, hw, by omega, h7⟩, h6⟩

theorem lenUpper_inv {least most : Nat} {b b' : Builder} {n : Int} (hI : KInv least most b)
    (h : stepLenUpper b n = .ok b') :
    KInv least most b' ∧ ∀ l, inRange b' l → inRange b l ∧ (l : Int) ≤ n := by
  obtain ⟨hd, hk, hn, hl, nl, lo, hi, hw, h1, h2, h3⟩ := hI
  obtain ⟨nl', lo', hi', hw', hcase, hkn⟩ := stepLenUpper_ok h
  rw [hw] at hw'; cases hw'
  obtain ⟨least', most', hl', hm⟩ := hkn hk
  rw [hl] at hl'; cases hl'
  rcases hcase with ⟨rfl, hlt⟩ | ⟨h4, h5, rfl⟩
  · refine ⟨⟨hd, hk, hn, hl, nl, lo, hi, hw, h1, h2, h3⟩, fun l hr => ⟨hr, ?_⟩⟩
    obtain ⟨_, lo2, hi2, hw2, _, h6⟩ := hr
    rw [hw] at hw2; cases hw2
    omega
  · refine ⟨⟨hd, hk, hn, hl, nl, lo, n, rfl, h4, h2, hm⟩, fun l hr => ?_⟩
    obtain ⟨_, lo2, hi2, hw2, h6, h7⟩ := hr
    cases hw2
    exact ⟨⟨nl, lo, hi, hw, h6, by omega⟩, h7⟩

section Any
variable [EqOracle]

/-- one accepted call on a known collection: the invariant is kept, and every length still in range was in range
before and satisfies the call -/
theorem step_known_inv {least most : Nat} {b b' : Builder} {c : RefineCall} (hI : KInv least most b)
    (h : step b c = .ok b') :
    KInv least most b' ∧ ∀ l, inRange b' l → inRange b l ∧ den c (.coll l) = true := by
  have hI' := hI
  obtain ⟨hd, hk, hn, hl, nl, lo, hi, hw, h1, h2, h3⟩ := hI
  have hu : b.wip ≠ .unref := by rw [hw]; simp
  unfold step at h
  rw [hd] at h
  simp only [Bool.false_eq_true, if_false, hu] at h
  cases c with
  | notNull =>
    obtain ⟨rfl, _, _⟩ := stepNotNull_ok h
    refine ⟨⟨hd, hk, hn, hl, .f, lo, hi, by simp only [hw, setNull], h1, h2, h3⟩, fun l hr => ⟨?_, rfl⟩⟩
    obtain ⟨_, lo2, hi2, hw2, h6, h7⟩ := hr
    simp only [hw, setNull] at hw2
    cases hw2
    exact ⟨nl, lo, hi, hw, h6, h7⟩
  | null =>
    obtain ⟨_, _, hc⟩ := stepNull_ok h
    rw [hk, hn] at hc; cases hc
  | numLower a incl =>
    obtain ⟨_, _, _, hw', _⟩ := stepNumLower_ok h
    rw [hw] at hw'; cases hw'
  | numUpper a incl =>
    obtain ⟨_, _, _, hw', _⟩ := stepNumUpper_ok h
    rw [hw] at hw'; cases hw'
  | numRangeInclusive a a' =>
    simp only [step1] at h
    cases h1' : stepNumLower b a true with
    | ok b1 =>
      obtain ⟨_, _, _, hw', _⟩ := stepNumLower_ok h1'
      rw [hw] at hw'; cases hw'
    | err e => rw [h1'] at h; simp [Res.bind] at h
    | panic w => rw [h1'] at h; simp [Res.bind] at h
    | unmodelled => rw [h1'] at h; simp [Res.bind] at h
  | lenLower n =>
    obtain ⟨k1, k2⟩ := lenLower_inv hI' h
    exact ⟨k1, fun l hr => ⟨(k2 l hr).1, by simp only [den, decide_eq_true_eq]; exact (k2 l hr).2⟩⟩
  | lenUpper n =>
    obtain ⟨k1, k2⟩ := lenUpper_inv hI' h
    exact ⟨k1, fun l hr => ⟨(k2 l hr).1, by simp only [den, decide_eq_true_eq]; exact (k2 l hr).2⟩⟩
  | collectionLength n =>
    simp only [step1] at h
    cases h1' : stepLenLower b n with
    | ok b1 =>
      rw [h1'] at h
      simp only [Res.bind] at h
      obtain ⟨k1, k2⟩ := lenLower_inv hI' h1'
      obtain ⟨k3, k4⟩ := lenUpper_inv k1 h
      refine ⟨k3, fun l hr => ⟨(k2 l (k4 l hr).1).1, ?_⟩⟩
      simp only [den, decide_eq_true_eq]
      have := (k2 l (k4 l hr).1).2
      have := (k4 l hr).2
      omega
    | err e => rw [h1'] at h; simp [Res.bind] at h
    | panic w => rw [h1'] at h; simp [Res.bind] at h
    | unmodelled => rw [h1'] at h; simp [Res.bind] at h
  | stringPrefix p =>
    obtain ⟨_, _, hw', _⟩ := stepPrefix_ok h
    rw [hw] at hw'; cases hw'
  | stringPrefixFull p =>
    obtain ⟨_, _, hw', _⟩ := stepPrefix_ok h
    rw [hw] at hw'; cases hw'

/-- … and a whole accepted chain -/
theorem run_known_inv {least most : Nat} {cs : List RefineCall} : ∀ {b b' : Builder}, KInv least most b →
    run b cs = .ok b' →
    KInv least most b' ∧ ∀ l, inRange b' l → inRange b l ∧ cs.all (fun c => den c (.coll l)) = true := by
  induction cs with
  | nil =>
    intro b b' hI h
    simp [run] at h; subst h
    exact ⟨hI, fun l hr => ⟨hr, rfl⟩⟩
  | cons c cs ih =>
    intro b b' hI h
    simp only [run] at h
    cases h1 : step b c with
    | ok b1 =>
      rw [h1] at h
      simp only [Res.bind] at h
      obtain ⟨k1, k2⟩ := step_known_inv hI h1
      obtain ⟨k3, k4⟩ := ih k1 h
      refine ⟨k3, fun l hr => ?_⟩
      obtain ⟨r1, r2⟩ := k4 l hr
      obtain ⟨r3, r4⟩ := k2 l r1
      exact ⟨r3, by simp only [List.all_cons, r4, r2, Bool.and_self]⟩
    | err e => rw [h1] at h; simp [Res.bind] at h
    | panic w => rw [h1] at h; simp [Res.bind] at h
    | unmodelled => rw [h1] at h; simp [Res.bind] at h

end Any

/-- what `knownLength v = ok` says about `v`: a known, non-null list, map or set -/
theorem knownLength_facts {u : Value} {least most : Nat} (h : knownLength u = .ok (least, most)) :
    u.isKnown = true ∧ u.isNull = false ∧ isDynVal u = false ∧ freshWip u = .coll .u 0 maxInt ∧
    (∀ r, u.v ≠ .unk r) ∧ u.v.isMarked = false := by
  obtain ⟨ty, p⟩ := u
  cases ty <;> cases p <;> simp only [knownLength] at h <;> (try (cases h; done)) <;>
    simp [Value.isKnown, Value.isNull, Payload.isKnown, Payload.isNull, Payload.unmark1, isDynVal, freshWip,
      Payload.isMarked]

section Any
variable [EqOracle]

/-- An accepted chain on a known collection holds JOINTLY of some length the receiver can have. -/
theorem refine_known_collection {v w : Value} {cs : List RefineCall} {least most : Nat}
    (hl : knownLength v.unmark = .ok (least, most)) (hfit : (most : Int) ≤ maxInt) (h : refine v cs = .ok w) :
    ∃ l : Nat, least ≤ l ∧ l ≤ most ∧ cs.all (fun c => den c (.coll l)) = true := by
  obtain ⟨b, b', hi, hr, _⟩ := refine_ok_any h
  obtain ⟨ho, _, _, _, hwip⟩ := init_ok hi
  obtain ⟨f1, f2, f3, f4, f5, _⟩ := knownLength_facts hl
  have hlm := knownLength_le hl
  have hw : b.wip = .coll .u 0 maxInt := by
    rcases hwip with ⟨r, hr', _, _⟩ | ⟨_, hw⟩
    · exact absurd hr' (f5 r)
    · rw [hw, f4]
  have hI : KInv least most b :=
    ⟨by unfold Builder.isDyn; rw [ho]; exact f3, by rw [ho]; exact f1, by rw [ho]; exact f2, by rw [ho]; exact hl,
     .u, 0, maxInt, hw, by unfold maxInt; omega, by omega, by omega⟩
  obtain ⟨⟨_, _, _, _, nl, lo, hi', hw', g1, g2, g3⟩, k2⟩ := run_known_inv hI hr
  -- a length in both ranges: max lo least
  have hex : ∃ l : Nat, (least : Int) ≤ l ∧ (l : Int) ≤ most ∧ lo ≤ (l : Int) ∧ (l : Int) ≤ hi' := by
    by_cases hc : lo ≤ (least : Int)
    · exact ⟨least, by omega, by omega, hc, g3⟩
    · exact ⟨lo.toNat, by omega, by omega, by omega, by omega⟩
  obtain ⟨l, e1, e2, e3, e4⟩ := hex
  exact ⟨l, by omega, by omega, (k2 l ⟨nl, lo, hi', hw', e3, e4⟩).2⟩

end Any

/-! ## the converse: a chain of length constraints and `NotNull()` that SOME possible length satisfies is accepted -/

/-- `NotNull()` or one of the three length calls -/
def isLenOrNotNull : RefineCall → Bool
  | .notNull => true
  | c => isLenCall c

/-- the invariant of the converse direction: the witness length `l` is possible and still inside the recorded range,
and the record is not "definitely null" -/
def KWit (least most l : Nat) (b : Builder) : Prop :=
  b.isDyn = false ∧ b.orig.isKnown = true ∧ b.orig.isNull = false ∧ knownLength b.orig = .ok (least, most) ∧
  least ≤ l ∧ l ≤ most ∧ ∃ nl lo hi, b.wip = .coll nl lo hi ∧ nl ≠ .t ∧ lo ≤ (l : Int) ∧ (l : Int) ≤ hi

theorem lenLower_wit {least most l : Nat} {b : Builder} {n : Int} (hI : KWit least most l b) (hn : n ≤ (l : Int)) :
    ∃ b', stepLenLower b n = .ok b' ∧ KWit least most l b' := by
  obtain ⟨hd, hk, hnl, hl, h1, h2, nl, lo, hi, hw, hnt, h3, h4⟩ := hI
  unfold stepLenLower
  rw [hw]
  simp only [hk, if_true, hl]
  rw [if_neg (by omega)]
  by_cases h5 : lo > n
  · rw [if_pos h5]
    exact ⟨b, rfl, hd, hk, hnl, hl, h1, h2, nl, lo, hi, hw, hnt, h3, h4⟩
  · rw [if_neg h5, if_neg (by omega)]
    exact ⟨_, rfl, hd, hk, hnl, hl, h1, h2, nl, n, hi, rfl, hnt, hn, h4⟩

theorem lenUpper_wit {least most l : Nat} {b : Builder} {n : Int} (hI : KWit least most l b) (hn : (l : Int) ≤ n) :
    ∃ b', stepLenUpper b n = .ok b' ∧ KWit least most l b' := by
  obtain ⟨hd, hk, hnl, hl, h1, h2, nl, lo, hi, hw, hnt, h3, h4⟩ := hI
  unfold stepLenUpper
  rw [hw]
  simp only [hk, if_true, hl]
  rw [if_neg (by omega)]
  by_cases h5 : hi < n
  · rw [if_pos h5]
    exact ⟨b, rfl, hd, hk, hnl, hl, h1, h2, nl, lo, hi, hw, hnt, h3, h4⟩
  · rw [if_neg h5, if_neg (by omega)]
    exact ⟨_, rfl, hd, hk, hnl, hl, h1, h2, nl, lo, n, rfl, hnt, h3, hn⟩

section Any
variable [EqOracle]

theorem step_known_wit {least most l : Nat} {b : Builder} {c : RefineCall} (hI : KWit least most l b)
    (hc : isLenOrNotNull c = true) (hden : den c (.coll l) = true) :
    ∃ b', step b c = .ok b' ∧ KWit least most l b' := by
  have hI' := hI
  obtain ⟨hd, hk, hnl, hl, h1, h2, nl, lo, hi, hw, hnt, h3, h4⟩ := hI
  have hu : b.wip ≠ .unref := by rw [hw]; simp
  unfold step
  rw [hd]
  simp only [Bool.false_eq_true, if_false, hu]
  cases c <;> simp [isLenOrNotNull, isLenCall] at hc
  · -- NotNull
    simp only [step1, stepNotNull, hk, hnl, Bool.and_false, Bool.false_eq_true, if_false]
    have : ¬ b.wip.nullness = .t := by rw [hw]; simpa [Rfn.nullness] using hnt
    rw [if_neg this]
    exact ⟨_, rfl, hd, hk, hnl, hl, h1, h2, .f, lo, hi, by simp only [hw, setNull], by simp, h3, h4⟩
  · rename_i n
    simp only [den, decide_eq_true_eq] at hden
    exact lenLower_wit hI' hden
  · rename_i n
    simp only [den, decide_eq_true_eq] at hden
    exact lenUpper_wit hI' hden
  · rename_i n
    simp only [den, decide_eq_true_eq] at hden
    simp only [step1]
    obtain ⟨b1, e1, k1⟩ := lenLower_wit (n := n) hI' (by omega)
    obtain ⟨b2, e2, k2⟩ := lenUpper_wit (n := n) k1 (by omega)
    exact ⟨b2, by rw [e1]; simp only [Res.bind]; exact e2, k2⟩

theorem run_known_wit {least most l : Nat} {cs : List RefineCall} : ∀ {b : Builder}, KWit least most l b →
    cs.all isLenOrNotNull = true → cs.all (fun c => den c (.coll l)) = true →
    ∃ b', run b cs = .ok b' ∧ KWit least most l b' := by
  induction cs with
  | nil => intro b hI _ _; exact ⟨b, rfl, hI⟩
  | cons c cs ih =>
    intro b hI hc hden
    simp only [List.all_cons, Bool.and_eq_true] at hc hden
    obtain ⟨b1, e1, k1⟩ := step_known_wit hI hc.1 hden.1
    obtain ⟨b2, e2, k2⟩ := ih k1 hc.2 hden.2
    exact ⟨b2, by simp only [run, e1, Res.bind]; exact e2, k2⟩

/-- A chain of `NotNull()` and length constraints that some possible length of the known collection satisfies is
accepted, and returns the receiver (marks restored). -/
theorem refine_known_collection_accepts {v : Value} {cs : List RefineCall} {least most l : Nat}
    (hl : knownLength v.unmark = .ok (least, most)) (hfit : (most : Int) ≤ maxInt)
    (hm : v.unmark.v.isMarked = false)
    (hc : cs.all isLenOrNotNull = true) (h1 : least ≤ l) (h2 : l ≤ most)
    (hden : cs.all (fun c => den c (.coll l)) = true) : refine v cs = .ok (v.unmark.withMarks v.marks) := by
  obtain ⟨f1, f2, f3, f4, f5, f6⟩ := knownLength_facts hl
  have hi : init v = .ok ⟨v.unmark, v.marks, .coll .u 0 maxInt⟩ := by
    unfold init
    simp only [hm, Bool.false_eq_true, if_false]
    cases hp : v.unmark.v <;> simp only [] <;> first
      | exact absurd hp (f5 _)
      | (rw [f4])
      | (exfalso; revert hl; simp [knownLength, hp])
  have hI : KWit least most l ⟨v.unmark, v.marks, .coll .u 0 maxInt⟩ :=
    ⟨f3, f1, f2, hl, h1, h2, .u, 0, maxInt, rfl, by simp, by omega, by omega⟩
  obtain ⟨b', e, k⟩ := run_known_wit hI hc hden
  have hb := (run_base_any e).1
  unfold refine
  rw [hi]
  simp only [Res.bind, e]
  rw [newValue_known_any (by rw [hb.1]; exact f1), hb.1, hb.2]

end Any

/-- every possible length is a value the known collection stands for (`γV`) -/
theorem γV_of_knownLength {u : Value} {least most : Nat} (h : knownLength u = .ok (least, most)) (l : Nat)
    (h1 : least ≤ l) (h2 : l ≤ most) : γV u (.coll l) = true := by
  obtain ⟨ty, p⟩ := u
  cases ty <;> cases p <;> simp only [knownLength] at h <;> (try (cases h; done))
  · simp only [Res.ok.injEq, Prod.mk.injEq] at h
    simp [γV, core, Conc.kindOk, knownAdmits, isCollectionTy]; omega
  · rename_i e ids vs
    split at h
    · rename_i hc
      simp only [Res.ok.injEq, Prod.mk.injEq] at h
      have : (vs.length ≤ 1 || Payload.whollyKnownL vs) = true := by
        simp only [Bool.or_eq_true, beq_iff_eq, decide_eq_true_eq] at hc ⊢
        rcases hc with hc | hc
        · left; omega
        · right; exact hc
      simp [γV, core, Conc.kindOk, knownAdmits, this]; omega
    · rename_i hc
      simp only [Res.ok.injEq, Prod.mk.injEq] at h
      have : (vs.length ≤ 1 || Payload.whollyKnownL vs) = false := by
        simp only [Bool.or_eq_true, beq_iff_eq, not_or, Bool.not_eq_true] at hc
        cases vs with
        | nil => simp [Payload.whollyKnownL] at hc
        | cons a as =>
          cases as with
          | nil => simp at hc
          | cons a2 as2 => simp [hc.2]
      simp [γV, core, Conc.kindOk, knownAdmits, this]; omega
  · simp only [Res.ok.injEq, Prod.mk.injEq] at h
    simp [γV, core, Conc.kindOk, knownAdmits, isCollectionTy]; omega

end D05b
end Refine
end CtyModel
