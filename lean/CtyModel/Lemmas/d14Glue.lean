/-
d14 — totality of the remaining glue functions: `csvdecode` (under the field-count law of
encoding/csv), `substr`, `join`.
-/
import CtyModel.Stdlib.Glue
import CtyModel.Lemmas.StdNumStr
import CtyModel.Lemmas.StdNumInt
import CtyModel.Lemmas.d14Str
namespace CtyModel
namespace StdNum

theorem csvRows_no_panic (L : Lib) (ns hdr : List String) (rows : List (List String))
    (h : ∀ r ∈ rows, r.length ≤ hdr.length) : (csvRows L ns hdr rows).isPanic = false := by
  induction rows with
  | nil => rfl
  | cons r rest ih =>
    have hr := h r List.mem_cons_self
    have ih' := ih fun x hx => h x (List.mem_cons_of_mem _ hx)
    have hnot : ¬ r.length > hdr.length := by omega
    simp only [csvRows, csvRow, hnot, if_false, Res.bind_ok]
    cases hc : csvRows L ns hdr rest with
    | ok ps => rfl
    | err e => rfl
    | panic w => rw [hc] at ih'; simp [Res.isPanic] at ih'
    | unmodelled => rfl

/-- `csvdecode` never panics (`headers[i]` is in range) when csv.Reader keeps its promise that
with `FieldsPerRecord = n` every delivered record has `n` fields -/
theorem csvDecodeImpl_no_panic (L : Lib) (s : String)
    (hlaw : ∀ n, ∀ r ∈ (L.csvAll s n).records, r.length = n) :
    (csvDecodeImpl L [sv s]).isPanic = false := by
  simp only [csvDecodeImpl, arg0, Res.bind_ok, asString_sv]
  split
  · rfl
  · rfl
  · split
    · rfl
    · split
      · rfl
      · rename_i headers _ _ _ hdr rows hrec
        split
        · rfl
        · have hl := hlaw (Gocty.sortNames (List.map L.nfc headers)).length
          rw [hrec] at hl
          have hh := hl hdr List.mem_cons_self
          have := csvRows_no_panic L (Gocty.sortNames (List.map L.nfc headers)) hdr rows (fun r hr => by
            have := hl r (List.mem_cons_of_mem _ hr)
            omega)
          cases hc : csvRows L (Gocty.sortNames (List.map L.nfc headers)) hdr rows with
          | ok ps => rfl
          | err e => rfl
          | panic w => rw [hc] at this; simp [Res.isPanic] at this
          | unmodelled => rfl

/-- `substr` never panics on a string and two numbers: a fraction or a number outside `int` is
an error of the argument conversion -/
theorem substrImpl_no_panic (nfc : String → String) (clusters : String → List String) (s : String) (x y : Num) :
    (substrImpl nfc clusters [sv s, Value.numVal x, Value.numVal y]).isPanic = false := by
  simp only [substrImpl, arg0, arg1, arg2, Res.bind_ok, asString_sv]
  rcases fromCtyInt_cases x with ⟨k, hk⟩ | ⟨c, hk⟩
  · rcases fromCtyInt_cases y with ⟨l, hl⟩ | ⟨c', hl⟩
    · simp [hk, hl, Res.isPanic]
    · simp [hk, hl, Res.isPanic]
  · simp [hk, Res.isPanic]

end StdNum
end CtyModel
