/-
C12 / d12b: `contains` end to end (collection.go ContainsFunc).  The callback walks the haystack and asks
`needle.Equals(v)` of every element: a definite True ends the search, an UNKNOWN answer is remembered and,
if nothing is found, makes the result unknown.  Its soundness therefore rests on the soundness of `Equals`
on the pairs it visits (property C01, `sound_equals_partial` and its object / map versions) — stated here
as the relation `EqPairs` — and on nothing else: no shortcut (hash lookup, `RawEquals`) may replace the
comparison, which is what the seeded changes `C12-contains-set-hash-lookup-fast-path` and
`C12-contains-rawequals-fast-path-matches-identical-unknowns` do.
-/
import CtyModel.Lemmas.d12bReverse
import CtyModel.Lemmas.OpsDerived
import CtyModel.Lemmas.SetRefineSort
namespace CtyModel
namespace D12b
open Fn Stdlib C12L Cov

/-- `Equals` of the (concrete / weakened) needle with one (concrete / weakened) element: both answer, and
the weakened answer admits the concrete one -/
def EqAt (on wn vo vw : Value) : Prop :=
  ∃ r r', Value.equals on vo = .ok r ∧ Value.equals wn vw = .ok r' ∧ Covers r' r = true

/-- … for the elements of the two haystacks in iteration order -/
def EqPairs (on wn : Value) : List Value → List Value → Prop
  | [], [] => True
  | vo :: eo, vw :: ew => EqAt on wn vo vw ∧ EqPairs on wn eo ew
  | _, _ => False

theorem equals_shape_clean {a b r : Value} (ha : a.containsMarked = false) (hb : b.containsMarked = false)
    (h : Value.equals a b = .ok r) : r = Value.unkBool ∨ ∃ x, r = Value.boolVal x := by
  unfold Value.equals at h
  simp only [ha, hb, Bool.or_self, Bool.false_eq_true, if_false] at h
  exact equalsFuel_shape h

theorem boolTrue_boolVal (x : Bool) : boolTrue (Value.boolVal x) = .ok x := by
  cases x <;> rfl

/-- what a covering pair of `Equals` answers looks like -/
theorem eq_answers {r r' : Value} (hr : r = Value.unkBool ∨ ∃ x, r = Value.boolVal x)
    (hr' : r' = Value.unkBool ∨ ∃ x, r' = Value.boolVal x) (hc : Covers r' r = true) :
    r' = Value.unkBool ∨ r' = r := by
  rcases hr' with rfl | ⟨x', rfl⟩
  · exact Or.inl rfl
  · right
    rcases hr with rfl | ⟨x, rfl⟩
    · cases x' <;> simp [Covers, CoversG, Value.boolVal, Value.unkBool, Payload.stripMarks, coversP] at hc
    · cases x' <;> cases x <;> first | rfl | (simp [Covers, CoversG, Value.boolVal, Payload.stripMarks, coversP] at hc)

/-- the search loop under weakening: the same definite answer, or "some comparison was unknown" -/
theorem containsLoop_sound {on wn : Value} (hon : on.containsMarked = false) (hwn : wn.containsMarked = false) :
    ∀ (eo ew : List Value) (so sw : Bool) (res : Option Bool),
    (∀ a ∈ eo, a.containsMarked = false) → (∀ a ∈ ew, a.containsMarked = false) →
    EqPairs on wn eo ew → (so = true → sw = true) →
    containsLoop on eo so = .ok res →
    ∃ res', containsLoop wn ew sw = .ok res' ∧ (res' = none ∨ res' = res)
  | [], [], so, sw, res, _, _, _, hs, h => by
    simp only [containsLoop, Res.ok.injEq] at h ⊢
    subst h
    cases so <;> cases sw <;> simp_all
  | [], _ :: _, _, _, _, _, _, hp, _, _ => by cases hp
  | _ :: _, [], _, _, _, _, _, hp, _, _ => by cases hp
  | vo :: eo, vw :: ew, so, sw, res, hco, hcw, hp, hs, h => by
    obtain ⟨⟨r, r', h1, h2, h3⟩, hrest⟩ := hp
    have hsr := equals_shape_clean hon (hco vo (by simp)) h1
    have hsr' := equals_shape_clean hwn (hcw vw (by simp)) h2
    have ih := containsLoop_sound hon hwn eo ew
    have hco' : ∀ a ∈ eo, a.containsMarked = false := fun a ha => hco a (by simp [ha])
    have hcw' : ∀ a ∈ ew, a.containsMarked = false := fun a ha => hcw a (by simp [ha])
    simp only [containsLoop, h1, h2] at h ⊢
    -- whatever the concrete loop does next, the rest of the weakened loop does not fail: run it both ways
    rcases eq_answers hsr hsr' h3 with rfl | rfl
    · -- the weakened comparison is unknown: the weakened search goes on with `sawUnknown`
      have hk : Value.unkBool.isKnown = false := rfl
      simp only [hk, Bool.not_false, if_true]
      rcases hsr with rfl | ⟨x, rfl⟩
      · simp only [hk, Bool.not_false, if_true] at h
        exact ih true true res hco' hcw' hrest (fun _ => rfl) h
      · have hkx : (Value.boolVal x).isKnown = true := by cases x <;> rfl
        simp only [hkx, Bool.not_true, Bool.false_eq_true, if_false, boolTrue_boolVal] at h
        cases x with
        | true =>
          simp only [Res.ok.injEq] at h
          subst h
          -- concrete: found.  weakened: the rest of the loop, which cannot fail on pairs where both sides answer
          have : ∀ (eo ew : List Value) (so : Bool), (∀ a ∈ eo, a.containsMarked = false) →
              (∀ a ∈ ew, a.containsMarked = false) → EqPairs on wn eo ew →
              ∃ res', containsLoop wn ew true = .ok res' ∧ (res' = none ∨ res' = some true) := by
            intro eo
            induction eo with
            | nil =>
              intro ew _ _ _ hp
              cases ew with
              | nil => exact ⟨none, by simp [containsLoop], Or.inl rfl⟩
              | cons _ _ => cases hp
            | cons vo eo ih2 =>
              intro ew so hco hcw hp
              cases ew with
              | nil => cases hp
              | cons vw ew =>
                obtain ⟨⟨r, r', _, h2, _⟩, hrest⟩ := hp
                have hsr' := equals_shape_clean hwn (hcw vw (by simp)) h2
                simp only [containsLoop, h2]
                rcases hsr' with rfl | ⟨x, rfl⟩
                · have hk : Value.unkBool.isKnown = false := rfl
                  simp only [hk, Bool.not_false, if_true]
                  exact ih2 ew so (fun a ha => hco a (by simp [ha])) (fun a ha => hcw a (by simp [ha])) hrest
                · have hkx : (Value.boolVal x).isKnown = true := by cases x <;> rfl
                  simp only [hkx, Bool.not_true, Bool.false_eq_true, if_false, boolTrue_boolVal]
                  cases x with
                  | true => exact ⟨some true, rfl, Or.inr rfl⟩
                  | false => exact ih2 ew so (fun a ha => hco a (by simp [ha])) (fun a ha => hcw a (by simp [ha])) hrest
          exact this eo ew so hco' hcw' hrest
        | false =>
          simp only at h
          obtain ⟨res', hr', hres⟩ := ih so true res hco' hcw' hrest (fun _ => rfl) h
          exact ⟨res', hr', hres⟩
    · -- the weakened comparison gives the concrete answer
      rcases hsr with rfl | ⟨x, rfl⟩
      · have hk : Value.unkBool.isKnown = false := rfl
        simp only [hk, Bool.not_false, if_true] at h ⊢
        exact ih true true res hco' hcw' hrest (fun _ => rfl) h
      · have hkx : (Value.boolVal x).isKnown = true := by cases x <;> rfl
        simp only [hkx, Bool.not_true, Bool.false_eq_true, if_false, boolTrue_boolVal] at h ⊢
        cases x with
        | true => exact ⟨res, h, Or.inr rfl⟩
        | false => exact ih so sw res hco' hcw' hrest hs h

theorem eqPairs_refl_of {on wn : Value} : ∀ (es : List Value), (∀ v ∈ es, EqAt on wn v v) → EqPairs on wn es es
  | [], _ => trivial
  | v :: es, h => ⟨h v (by simp), eqPairs_refl_of es (fun a ha => h a (by simp [ha]))⟩

/-- **`contains`** at the level of the callback.  The weakened haystack has the concrete one's type, is null
/ empty exactly when that is, and `Equals` is sound on the pairs (needle, element) in iteration order. -/
theorem contains_implSound (E : Env) (oa wa on wn : Value) (hta : wa.ty = oa.ty)
    (hmon : on.containsMarked = false) (hmwn : wn.containsMarked = false)
    (hkoa : oa.isKnown = true) (hkon : on.isKnown = true) (hnull : wa.isNull = oa.isNull)
    (hlen : ∀ l, Stdlib.lengthInt oa = .ok l → ∃ l', Stdlib.lengthInt wa = .ok l' ∧ ((l' == 0) = (l == 0)))
    (hel : ∀ eo, elems E oa = .ok eo → ∃ ew, elems E wa = .ok ew ∧ EqPairs on wn eo ew ∧
      (∀ a ∈ eo, a.containsMarked = false) ∧ (∀ a ∈ ew, a.containsMarked = false)) :
    ImplSoundAt containsType (containsImpl E) [oa, on] [wa, wn] := by
  intro rt rt' r _ hw hio _ _ _ _
  simp only [containsType, Res.ok.injEq] at hw
  subst hw
  simp only [containsImpl] at hio ⊢
  rw [hta, hnull]
  split at hio
  · cases hio
  · rename_i h1
    simp only [h1, if_false]
    split at hio
    · cases hio
    · rename_i h2
      simp only [h2, if_false]
      cases hl : Stdlib.lengthInt oa with
      | ok l =>
        rw [hl] at hio
        obtain ⟨l', hl', hz⟩ := hlen l hl
        rw [hl']
        simp only at hio ⊢
        rw [hz]
        by_cases h0 : (l == 0) = true
        · simp only [h0, if_true, Res.ok.injEq] at hio ⊢
          subst hio
          exact ⟨_, rfl, rfl, by decide⟩
        · simp only [h0, Bool.false_eq_true, if_false] at hio ⊢
          -- the concrete result is a boolean, known or not
          have hunk : ∀ r0 : Value, r0.ty = .bool → Covers (Value.unknown .bool) r0 = true := fun r0 h =>
            unknown_covers_of_matches .bool r0 (by rw [h]; rfl)
          have hrty : r.ty = .bool := by
            split at hio
            · cases hio; rfl
            · cases he : elems E oa with
              | ok es =>
                rw [he] at hio
                simp only at hio
                cases hc : containsLoop on es false with
                | ok res =>
                  rw [hc] at hio
                  cases res <;> (simp only [Res.ok.injEq] at hio; subst hio; rfl)
                | err c => rw [hc] at hio; cases hio
                | panic c => rw [hc] at hio; cases hio
                | unmodelled => rw [hc] at hio; cases hio
              | err c => rw [he] at hio; cases hio
              | panic c => rw [he] at hio; cases hio
              | unmodelled => rw [he] at hio; cases hio
          by_cases hkw : (!wa.isKnown || !wn.isKnown) = true
          · simp only [hkw, if_true]
            exact ⟨_, rfl, rfl, hunk r hrty⟩
          · simp only [hkw, Bool.false_eq_true, if_false]
            split at hio
            · rename_i hko
              simp [hkoa, hkon] at hko
            · cases he : elems E oa with
              | ok es =>
                rw [he] at hio
                obtain ⟨ew, hew, hp, hce, hcw⟩ := hel es he
                rw [hew]
                simp only at hio ⊢
                cases hc : containsLoop on es false with
                | ok res =>
                  rw [hc] at hio
                  obtain ⟨res', hr', hres⟩ := containsLoop_sound hmon hmwn es ew false false res hce hcw hp (fun h => h) hc
                  rw [hr']
                  rcases hres with rfl | rfl
                  · exact ⟨_, rfl, rfl, hunk r hrty⟩
                  · cases res' with
                    | none =>
                      simp only [Res.ok.injEq] at hio ⊢
                      exact ⟨_, rfl, rfl, hunk r hrty⟩
                    | some b =>
                      simp only [Res.ok.injEq] at hio ⊢
                      subst hio
                      exact ⟨_, rfl, rfl, by cases b <;> decide⟩
                | err c => rw [hc] at hio; cases hio
                | panic c => rw [hc] at hio; cases hio
                | unmodelled => rw [hc] at hio; cases hio
              | err c => rw [he] at hio; cases hio
              | panic c => rw [he] at hio; cases hio
              | unmodelled => rw [he] at hio; cases hio
      | err c => rw [hl] at hio; cases hio
      | panic c => rw [hl] at hio; cases hio
      | unmodelled => rw [hl] at hio; cases hio

theorem cleanVals_mem {es : List Value} (h : CleanVals es) : ∀ a ∈ es, a.containsMarked = false := by
  intro a ha
  exact h a.v (by rw [payloads_eq_map]; exact List.mem_map_of_mem ha)

/-- what `ElementIterator` yields over a mark-free collection is mark-free (sets included) -/
theorem elems_clean_all (E : Env) {v : Value} (hm : v.containsMarked = false) {es : List Value}
    (h : elems E v = .ok es) : ∀ a ∈ es, a.containsMarked = false := by
  by_cases hs : isSetTy v.ty = true
  · obtain ⟨t, p⟩ := v
    unfold elems at h
    cases p with
    | sset ids vs =>
      have hvs : ∀ q ∈ vs, q.containsMarked = false :=
        (containsMarkedL_iff vs).mp (by simpa [Value.containsMarked, Payload.containsMarked] using hm)
      cases t <;> simp at h
      subst h
      intro a ha
      simp only [List.mem_map] at ha
      obtain ⟨q, hq, rfl⟩ := ha
      exact hvs q ((SetImpl.mem_sortStable _ _ _).mp hq)
    | seq vs => cases t <;> simp [isSetTy] at hs h
    | smap ks vs => cases t <;> simp [isSetTy] at hs h
    | _ => simp at h
  · exact cleanVals_mem (elems_clean E hm (by simpa using hs) h)

/-- list / tuple haystacks weakened member by member: pairs of a concrete element and its weakening -/
theorem eqPairs_of_covVals {on wn : Value} : ∀ (eo ew : List Value), CovVals true ew eo →
    (∀ vo vw, vw.ty = vo.ty → coversP true vw.v vo.v = true → vo ∈ eo → EqAt on wn vo vw) → EqPairs on wn eo ew
  | [], [], _, _ => trivial
  | [], _ :: _, h, _ => by simp [CovVals, Gocty.tysOf] at h
  | _ :: _, [], h, _ => by simp [CovVals, Gocty.tysOf] at h
  | vo :: eo, vw :: ew, h, hE => by
    obtain ⟨h1, h2⟩ := h
    simp only [Gocty.tysOf, List.cons.injEq] at h1
    simp only [Gocty.payloads, coversL, Bool.and_eq_true] at h2
    exact ⟨hE vo vw h1.1 h2.1 (by simp),
      eqPairs_of_covVals eo ew ⟨h1.2, h2.2⟩ (fun a b h3 h4 h5 => hE a b h3 h4 (by simp [h5]))⟩

end D12b
end CtyModel
