/-
The deeply unmarked value (`Value.unmarkDeep`, written `strip` here) of a shaped
value: it is shaped and stable again, has the same members (stripped), and is
what the containers rebuild to.
-/
import CtyModel.Lemmas.WalkReplace
import CtyModel.Lemmas.WalkSteps
namespace CtyModel
namespace Walk
open Value

abbrev strip (v : Value) : Value := v.unmarkDeep

theorem stripMarksL_eq_map : ∀ (vs : List Payload), Payload.stripMarksL vs = vs.map Payload.stripMarks
  | [] => rfl
  | v :: vs => by simp [Payload.stripMarksL, stripMarksL_eq_map vs]

mutual
theorem stripMarks_not_containsMarked : ∀ p : Payload, p.stripMarks.containsMarked = false
  | .marked _ r => by simpa [Payload.stripMarks] using stripMarks_not_containsMarked r
  | .seq vs => by simpa [Payload.stripMarks, Payload.containsMarked] using stripMarksL_not_containsMarked vs
  | .smap _ vs => by simpa [Payload.stripMarks, Payload.containsMarked] using stripMarksL_not_containsMarked vs
  | .sset _ vs => by simpa [Payload.stripMarks, Payload.containsMarked] using stripMarksL_not_containsMarked vs
  | .null | .unk _ | .b _ | .n _ | .s _ | .caps | .bad _ => by simp [Payload.stripMarks, Payload.containsMarked]
theorem stripMarksL_not_containsMarked : ∀ vs : List Payload,
    Payload.containsMarkedL (Payload.stripMarksL vs) = false
  | [] => rfl
  | v :: vs => by
    simp [Payload.stripMarksL, Payload.containsMarkedL, stripMarks_not_containsMarked v,
      stripMarksL_not_containsMarked vs]
end

theorem stripMarks_isMarked (p : Payload) : p.stripMarks.isMarked = false := by
  have := stripMarks_not_containsMarked p
  cases h : p.stripMarks <;> simp_all [Payload.isMarked, Payload.containsMarked]

mutual
theorem shaped_strip : ∀ (t : Ty) (p : Payload), shaped t p = true → shaped t p.stripMarks = true
  | t, .marked ms r, h => by
    simp only [shaped, Bool.and_eq_true] at h
    simpa [Payload.stripMarks] using shaped_strip t r h.2
  | _, .null, _ => by simp [Payload.stripMarks, shaped]
  | _, .unk _, _ => by simp [Payload.stripMarks, shaped]
  | .bool, .b _, _ => by simp [Payload.stripMarks, shaped]
  | .number, .n _, _ => by simp [Payload.stripMarks, shaped]
  | .string, .s _, _ => by simp [Payload.stripMarks, shaped]
  | .capsule _, .caps, _ => by simp [Payload.stripMarks, shaped]
  | .list e, .seq vs, h => by
    simp only [shaped, Bool.and_eq_true, decide_eq_true_eq] at h
    have hl : (Payload.stripMarksL vs).length = vs.length := by simp [stripMarksL_eq_map]
    simp only [Payload.stripMarks, shaped, Bool.and_eq_true, decide_eq_true_eq, hl]
    exact ⟨h.1, shapedAll_strip e vs h.2⟩
  | .set e, .sset ids vs, h => by
    simp only [shaped, Bool.and_eq_true, beq_iff_eq, Bool.not_eq_true'] at h
    have hl : (Payload.stripMarksL vs).length = vs.length := by simp [stripMarksL_eq_map]
    simp only [Payload.stripMarks, shaped, Bool.and_eq_true, beq_iff_eq, Bool.not_eq_true', hl]
    exact ⟨⟨h.1.1, stripMarksL_not_containsMarked vs⟩, shapedAll_strip e vs h.2⟩
  | .map e, .smap ks vs, h => by
    simp only [shaped, Bool.and_eq_true, beq_iff_eq, decide_eq_true_eq] at h
    have hl : (Payload.stripMarksL vs).length = vs.length := by simp [stripMarksL_eq_map]
    simp only [Payload.stripMarks, shaped, Bool.and_eq_true, beq_iff_eq, decide_eq_true_eq, hl]
    exact ⟨h.1, shapedAll_strip e vs h.2⟩
  | .tuple ts, .seq vs, h => by
    simp only [shaped, Bool.and_eq_true, beq_iff_eq, decide_eq_true_eq] at h
    have hl : (Payload.stripMarksL vs).length = vs.length := by simp [stripMarksL_eq_map]
    simp only [Payload.stripMarks, shaped, Bool.and_eq_true, beq_iff_eq, decide_eq_true_eq, hl]
    exact ⟨h.1, shapedZip_strip ts vs h.2⟩
  | .object ns ts os, .smap ks vs, h => by
    simp only [shaped, Bool.and_eq_true, beq_iff_eq, decide_eq_true_eq] at h
    have hl : (Payload.stripMarksL vs).length = vs.length := by simp [stripMarksL_eq_map]
    simp only [Payload.stripMarks, shaped, Bool.and_eq_true, beq_iff_eq, decide_eq_true_eq, hl]
    exact ⟨h.1, shapedZip_strip ts vs h.2⟩
theorem shapedAll_strip : ∀ (e : Ty) (vs : List Payload), shapedAll e vs = true →
    shapedAll e (Payload.stripMarksL vs) = true
  | _, [], _ => rfl
  | e, v :: vs, h => by
    simp only [shapedAll, Bool.and_eq_true] at h
    simp only [Payload.stripMarksL, shapedAll, Bool.and_eq_true]
    exact ⟨shaped_strip e v h.1, shapedAll_strip e vs h.2⟩
theorem shapedZip_strip : ∀ (ts : List Ty) (vs : List Payload), shapedZip ts vs = true →
    shapedZip ts (Payload.stripMarksL vs) = true
  | [], vs, _ => by cases vs <;> simp [Payload.stripMarksL, shapedZip]
  | _ :: _, [], _ => by simp [Payload.stripMarksL, shapedZip]
  | t :: ts, v :: vs, h => by
    simp only [shapedZip, Bool.and_eq_true] at h
    simp only [Payload.stripMarksL, shapedZip, Bool.and_eq_true]
    exact ⟨shaped_strip t v h.1, shapedZip_strip ts vs h.2⟩
end

mutual
theorem SetsStable_strip (X : SetOracle) : ∀ (t : Ty) (p : Payload), shaped t p = true →
    SetsStable X t p → SetsStable X t p.stripMarks
  | t, .marked ms r, hs, h => by
    simp only [shaped, Bool.and_eq_true] at hs
    simp only [SetsStable] at h
    simpa [Payload.stripMarks] using SetsStable_strip X t r hs.2 h
  | _, .null, _, _ => by simp [Payload.stripMarks, SetsStable]
  | _, .unk _, _, _ => by simp [Payload.stripMarks, SetsStable]
  | .bool, .b _, _, _ => by simp [Payload.stripMarks, SetsStable]
  | .number, .n _, _, _ => by simp [Payload.stripMarks, SetsStable]
  | .string, .s _, _, _ => by simp [Payload.stripMarks, SetsStable]
  | .capsule _, .caps, _, _ => by simp [Payload.stripMarks, SetsStable]
  | .list e, .seq vs, hs, h => by
    simp only [shaped, Bool.and_eq_true] at hs
    simp only [SetsStable] at h
    simp only [Payload.stripMarks, SetsStable]
    exact SetsStableAll_strip X e vs hs.2 h
  | .set e, .sset ids vs, hs, h => by
    simp only [shaped, Bool.and_eq_true, Bool.not_eq_true'] at hs
    simp only [Payload.stripMarks, stripMarksL_id vs hs.1.2]
    exact h
  | .map e, .smap ks vs, hs, h => by
    simp only [shaped, Bool.and_eq_true] at hs
    simp only [SetsStable] at h
    simp only [Payload.stripMarks, SetsStable]
    exact SetsStableAll_strip X e vs hs.2 h
  | .tuple ts, .seq vs, hs, h => by
    simp only [shaped, Bool.and_eq_true] at hs
    simp only [SetsStable] at h
    simp only [Payload.stripMarks, SetsStable]
    exact SetsStableZip_strip X ts vs hs.2 h
  | .object ns ts os, .smap ks vs, hs, h => by
    simp only [shaped, Bool.and_eq_true] at hs
    simp only [SetsStable] at h
    simp only [Payload.stripMarks, SetsStable]
    exact SetsStableZip_strip X ts vs hs.2 h
theorem SetsStableAll_strip (X : SetOracle) : ∀ (e : Ty) (vs : List Payload), shapedAll e vs = true →
    SetsStableAll X e vs → SetsStableAll X e (Payload.stripMarksL vs)
  | _, [], _, _ => by simp [Payload.stripMarksL, SetsStableAll]
  | e, v :: vs, hs, h => by
    simp only [shapedAll, Bool.and_eq_true] at hs
    simp only [SetsStableAll] at h
    simp only [Payload.stripMarksL, SetsStableAll]
    exact ⟨SetsStable_strip X e v hs.1 h.1, SetsStableAll_strip X e vs hs.2 h.2⟩
theorem SetsStableZip_strip (X : SetOracle) : ∀ (ts : List Ty) (vs : List Payload),
    shapedZip ts vs = true → SetsStableZip X ts vs → SetsStableZip X ts (Payload.stripMarksL vs)
  | [], vs, _, _ => by cases vs <;> simp [Payload.stripMarksL, SetsStableZip]
  | _ :: _, [], _, _ => by simp [Payload.stripMarksL, SetsStableZip]
  | t :: ts, v :: vs, hs, h => by
    simp only [shapedZip, Bool.and_eq_true] at hs
    simp only [SetsStableZip] at h
    simp only [Payload.stripMarksL, SetsStableZip]
    exact ⟨SetsStable_strip X t v hs.1 h.1, SetsStableZip_strip X ts vs hs.2 h.2⟩
end

theorem Good.strip {X : SetOracle} {v : Value} (h : Good X v) : Good X (strip v) :=
  ⟨shaped_strip _ _ h.shaped, h.ty, SetsStable_strip X _ _ h.shaped h.sets⟩

/-! ### the members of the stripped value -/

theorem stripMarks_unmark1 (p : Payload) : p.stripMarks = p.unmark1.stripMarks := by
  cases p <;> rfl

theorem seqKids_strip (e : Ty) : ∀ (i : Nat) (vs : List Payload),
    seqKids e i (Payload.stripMarksL vs) = (seqKids e i vs).map (fun c => (c.1, strip c.2))
  | _, [] => rfl
  | i, v :: vs => by
    simp only [Payload.stripMarksL, seqKids, List.map_cons, seqKids_strip e (i + 1) vs]
    rfl

theorem tupKids_strip : ∀ (i : Nat) (ts : List Ty) (vs : List Payload),
    tupKids i ts (Payload.stripMarksL vs) = (tupKids i ts vs).map (fun c => (c.1, strip c.2))
  | _, [], vs => by cases vs <;> rfl
  | _, _ :: _, [] => rfl
  | i, t :: ts, v :: vs => by
    simp only [Payload.stripMarksL, tupKids, List.map_cons, tupKids_strip (i + 1) ts vs]
    rfl

theorem mapKids_strip (e : Ty) : ∀ (ks : List String) (vs : List Payload),
    mapKids e ks (Payload.stripMarksL vs) = (mapKids e ks vs).map (fun c => (c.1, strip c.2))
  | [], vs => by cases vs <;> rfl
  | _ :: _, [] => rfl
  | k :: ks, v :: vs => by
    simp only [Payload.stripMarksL, mapKids, List.map_cons, mapKids_strip e ks vs]
    rfl

theorem objKids_strip : ∀ (ns : List String) (ts : List Ty) (vs : List Payload),
    objKids ns ts (Payload.stripMarksL vs) = (objKids ns ts vs).map (fun c => (c.1, strip c.2))
  | [], ts, vs => by cases ts <;> cases vs <;> rfl
  | _ :: _, [], vs => by cases vs <;> rfl
  | _ :: _, _ :: _, [] => rfl
  | n :: ns, t :: ts, v :: vs => by
    simp only [Payload.stripMarksL, objKids, List.map_cons, objKids_strip ns ts vs]
    rfl

theorem setKids_strip (e : Ty) : ∀ (ms : List Payload), (∀ m ∈ ms, m.containsMarked = false) →
    setKids e ms = (setKids e ms).map (fun c => (c.1, strip c.2))
  | [], _ => rfl
  | m :: ms, h => by
    simp only [setKids, List.map_cons]
    rw [← setKids_strip e ms (fun x hx => h x (List.mem_cons_of_mem _ hx))]
    simp [strip, Value.unmarkDeep, stripMarks_id m (h m (by simp))]

/-- the stripped value has the same flags -/
theorem strip_flags (v : Value) (hs : shapedV v = true) :
    (strip v).isNull = v.isNull ∧ (strip v).isKnown = v.isKnown ∧
      (strip v).unmark = ⟨v.ty, v.v.unmark1.stripMarks⟩ := by
  have hmu := shaped_unmark1_notMarked hs
  obtain ⟨t, p⟩ := v
  simp only [strip, Value.unmarkDeep, Value.isNull, Payload.isNull, Value.isKnown, Payload.isKnown,
    Value.unmark]
  rw [stripMarks_unmark1 p]
  simp only at hmu
  cases hp : p.unmark1 <;> simp_all [Payload.stripMarks, Payload.unmark1, Payload.isMarked]

/-- **members of the stripped value**: the same steps, the members stripped -/
theorem kids_strip {X : SetOracle} (hX : IterPerm X) (v : Value) (hs : shapedV v = true) :
    kids X (strip v) = (kids X v).map (fun c => (c.1, strip c.2)) := by
  obtain ⟨h1, h2, h3⟩ := strip_flags v hs
  simp only [kids, h1, h2]
  split
  · rfl
  · rw [h3]
    have hsu : shaped v.ty v.v.unmark1 = true := shaped_unmark1 hs
    have hmu := shaped_unmark1_notMarked hs
    obtain ⟨t, p⟩ := v
    simp only [Value.unmark] at hsu hmu ⊢
    cases hp : p.unmark1 with
    | marked ms r => rw [hp] at hmu; simp [Payload.isMarked] at hmu
    | seq vs =>
      rw [hp] at hsu
      cases t <;> simp only [Payload.stripMarks, children, List.map_nil]
      · exact seqKids_strip _ _ _
      · exact tupKids_strip _ _ _
    | smap ks vs =>
      rw [hp] at hsu
      cases t <;> simp only [Payload.stripMarks, children, List.map_nil]
      · exact mapKids_strip _ _ _
      · exact objKids_strip _ _ _
    | sset ids vs =>
      rw [hp] at hsu
      cases t <;> simp only [Payload.stripMarks, children, List.map_nil]
      simp only [shaped, Bool.and_eq_true, Bool.not_eq_true'] at hsu
      rw [stripMarksL_id vs hsu.1.2]
      exact setKids_strip _ _ (fun m hm => containsMarkedL_mem hsu.1.2 m ((hX _ _ _).mem_iff.mp hm))
    | _ => cases t <;> simp [Payload.stripMarks, children]

/-! ### containers rebuilt from stripped / original members -/

theorem withMarks_nil_of_unmarked (t : Ty) (q : Payload) (h : q.isMarked = false) :
    (⟨t, q⟩ : Value).withMarks [] = ⟨t, q⟩ := by
  cases q <;> simp_all [Value.withMarks, Payload.withMarks, Payload.marks1, unionMarks, Payload.isMarked]

theorem replaceRaw_isMarked {raw : Payload} (h : raw.isMarked = false) (ws : List Payload) :
    (replaceRaw raw ws).isMarked = false := by
  cases raw <;> simp_all [replaceRaw, Payload.isMarked]

theorem map_snd_v (l : List (PathStep × Value)) :
    l.map (fun c => c.2.v) = (l.map (·.2)).map (·.v) := by
  simp [List.map_map, Function.comp_def]

/-- the payloads of the members of a shaped value that is not a set are its stored members -/
theorem kids_payloads {X : SetOracle} (v : Value) (hs : shapedV v = true) (hset : notSet v.ty = true)
    (hnull : v.isNull = false) (hknown : v.isKnown = true) :
    replaceRaw v.v.unmark1 ((kids X v).map (fun c => c.2.v)) = v.v.unmark1 := by
  have hk : kids X v = children X v.unmark := by simp [kids, hnull, hknown]
  have hraw := raw_of_flags hnull hknown
  have hsu : shaped v.ty v.v.unmark1 = true := shaped_unmark1 hs
  have hmu := shaped_unmark1_notMarked hs
  rw [hk]
  obtain ⟨t, p⟩ := v
  simp only [Value.unmark] at hraw hsu hmu ⊢
  cases t with
  | set e => simp [notSet] at hset
  | list e =>
    obtain ⟨vs, hv⟩ := shaped_known_cases hsu hmu hraw.1 hraw.2
    have := seqKids_vals e 0 vs
    simp only [hv, children, replaceRaw, map_snd_v, this]
    simp [Function.comp_def]
  | map e =>
    obtain ⟨ks, vs, hv⟩ := shaped_known_cases hsu hmu hraw.1 hraw.2
    have hsh := hsu
    rw [hv] at hsh
    simp only [shaped, Bool.and_eq_true, beq_iff_eq] at hsh
    have := mapKids_vals e ks vs hsh.1.1
    simp only [hv, children, replaceRaw, map_snd_v, this]
    simp [Function.comp_def]
  | tuple ts =>
    obtain ⟨vs, hv, hlen⟩ := shaped_known_cases hsu hmu hraw.1 hraw.2
    have := (tupKids_vals 0 ts vs hlen).2
    simp only [hv, children, replaceRaw, map_snd_v, this]
  | object ns ts os =>
    obtain ⟨vs, hv, h1, _⟩ := shaped_known_cases hsu hmu hraw.1 hraw.2
    have hsh := hsu
    rw [hv] at hsh
    simp only [shaped, Bool.and_eq_true, beq_iff_eq, decide_eq_true_eq] at hsh
    have := (objKids_vals ns ts vs h1 hsh.1.1.2).2
    simp only [hv, children, replaceRaw, map_snd_v, this]
  | _ => exact replaceRaw_of_prim hsu trivial

theorem replaceRaw_strip (raw : Payload) (ws : List Payload) (hm : raw.isMarked = false)
    (hset : ∀ ids vs, raw ≠ .sset ids vs) :
    replaceRaw raw (ws.map Payload.stripMarks) = (replaceRaw raw ws).stripMarks := by
  cases raw <;> first
    | exact absurd rfl (hset _ _)
    | (simp [Payload.isMarked] at hm; done)
    | rfl
    | simp [replaceRaw, Payload.stripMarks, stripMarksL_eq_map]

theorem strip_payloads (l : List (PathStep × Value)) :
    (l.map (fun c => strip c.2)).map (·.v) = (l.map (fun c => c.2.v)).map Payload.stripMarks := by
  simp [List.map_map, Function.comp_def, strip, Value.unmarkDeep]

/-- rebuilding the unmarked value from its stripped members gives the stripped value -/
theorem withKids_unmark_strip {X : SetOracle} (v : Value) (hs : shapedV v = true) :
    withKids v.unmark ((kids X v).map (fun c => strip c.2)) = strip v := by
  have hmu := shaped_unmark1_notMarked hs
  have hsu : shaped v.ty v.v.unmark1 = true := shaped_unmark1 hs
  have hidem := unmark1_idem hmu
  have hmk : v.unmark.marks = [] := marks_of_not_marked v.unmark hmu
  simp only [withKids, hmk]
  have hu : v.unmark.v.unmark1 = v.v.unmark1 := hidem
  rw [hu, withMarks_nil_of_unmarked _ _ (replaceRaw_isMarked hmu _)]
  simp only [strip, Value.unmarkDeep, Value.unmark]
  congr 1
  rw [stripMarks_unmark1 v.v]
  by_cases hn : (v.isNull || !v.isKnown) = true
  · have hk : kids X v = [] := by simp [kids, hn]
    simp only [hk, List.map_nil]
    simp only [Bool.or_eq_true, Bool.not_eq_true', Value.isNull, Payload.isNull, Value.isKnown,
      Payload.isKnown] at hn
    cases hp : v.v.unmark1 <;> rw [hp] at hn <;> simp [replaceRaw, Payload.stripMarks] at hn ⊢
  · simp only [Bool.or_eq_true, Bool.not_eq_true', not_or, Bool.not_eq_true, Bool.not_eq_false] at hn
    by_cases hset : notSet v.ty = true
    · have hnoset : ∀ ids vs, v.v.unmark1 ≠ .sset ids vs := by
        intro ids vs h
        rw [h] at hsu
        obtain ⟨t, p⟩ := v
        cases t <;> first
          | (simp [notSet] at hset; done)
          | exact Bool.noConfusion (show false = true from hsu)
      have hsp := strip_payloads (kids X v)
      simp only [strip, Value.unmarkDeep] at hsp
      rw [hsp, replaceRaw_strip _ _ hmu hnoset, kids_payloads v hs hset hn.1 hn.2]
    · obtain ⟨t, p⟩ := v
      cases t <;> (try (simp [notSet] at hset; done))
      have hraw := raw_of_flags hn.1 hn.2
      obtain ⟨ids, vs, hv⟩ := shaped_known_cases hsu hmu hraw.1 hraw.2
      simp only at hv hsu
      rw [hv] at hsu
      simp only [shaped, Bool.and_eq_true, Bool.not_eq_true'] at hsu
      simp only [hv, replaceRaw, Payload.stripMarks, stripMarksL_id vs hsu.1.2]

theorem replaceRaw_of_strip (raw : Payload) (ws : List Payload) (hm : raw.isMarked = false)
    (hset : ∀ ids vs, raw ≠ .sset ids vs) :
    replaceRaw raw.stripMarks ws = replaceRaw raw ws := by
  cases raw <;> first
    | exact absurd rfl (hset _ _)
    | (simp [Payload.isMarked] at hm; done)
    | rfl

/-- rebuilding the stripped value from the original members gives the value, unmarked -/
theorem withKids_strip_restore {X : SetOracle} (v : Value) (hs : shapedV v = true) :
    withKids (strip v) ((kids X v).map (·.2)) = v.unmark := by
  have hmu := shaped_unmark1_notMarked hs
  have hsu : shaped v.ty v.v.unmark1 = true := shaped_unmark1 hs
  have hsm : (strip v).v.isMarked = false := stripMarks_isMarked v.v
  have hmk : (strip v).marks = [] := marks_of_not_marked (strip v) hsm
  have hu1 : (strip v).v.unmark1 = v.v.unmark1.stripMarks := by
    have : (strip v).v.unmark1 = (strip v).v := by
      cases h : (strip v).v <;> simp_all [Payload.unmark1, Payload.isMarked]
    rw [this]
    exact stripMarks_unmark1 v.v
  simp only [withKids, hmk]
  rw [hu1, withMarks_nil_of_unmarked _ _ (replaceRaw_isMarked (by
    rw [← stripMarks_unmark1]; exact stripMarks_isMarked v.v) _)]
  simp only [Value.unmark]
  congr 1
  rw [← map_snd_v]
  by_cases hn : (v.isNull || !v.isKnown) = true
  · have hk : kids X v = [] := by simp [kids, hn]
    simp only [hk, List.map_nil]
    simp only [Bool.or_eq_true, Bool.not_eq_true', Value.isNull, Payload.isNull, Value.isKnown,
      Payload.isKnown] at hn
    cases hp : v.v.unmark1 <;> rw [hp] at hn <;> simp [replaceRaw, Payload.stripMarks] at hn ⊢
  · simp only [Bool.or_eq_true, Bool.not_eq_true', not_or, Bool.not_eq_true, Bool.not_eq_false] at hn
    by_cases hset : notSet v.ty = true
    · have hnoset : ∀ ids vs, v.v.unmark1 ≠ .sset ids vs := by
        intro ids vs h
        rw [h] at hsu
        obtain ⟨t, p⟩ := v
        cases t <;> first
          | (simp [notSet] at hset; done)
          | exact Bool.noConfusion (show false = true from hsu)
      rw [replaceRaw_of_strip _ _ hmu hnoset, kids_payloads v hs hset hn.1 hn.2]
    · obtain ⟨t, p⟩ := v
      cases t <;> (try (simp [notSet] at hset; done))
      have hraw := raw_of_flags hn.1 hn.2
      obtain ⟨ids, vs, hv⟩ := shaped_known_cases hsu hmu hraw.1 hraw.2
      simp only at hv hsu
      rw [hv] at hsu
      simp only [shaped, Bool.and_eq_true, Bool.not_eq_true'] at hsu
      simp only [hv, replaceRaw, Payload.stripMarks, stripMarksL_id vs hsu.1.2]

end Walk
end CtyModel
