/-
C20 (d20) — mark sets are heap objects of their own (`Body.markset`): a value's marker
points at one (`Word.marked ms real`), the caller's `ValueMarks` is one
(`Word.marks a`).  `WithMarks`, `Mark` build a NEW mark set for the value they return;
`Marks`, `Unmark` hand the caller a copy.
-/
import CtyModel.Lemmas.HeapStep
namespace CtyModel
namespace Heap

/-- the mark set of the value `WithMarks` / `Mark` pushes is an object the call itself
allocated as library-owned — or (no marks at all: `return val`) the receiver's own -/
theorem withMarks_markset {st st' : St} {v g : Nat} (h : step st (.api (.withMarks v g)) = some st') :
    ∃ t p, st.val v = some (t, p) ∧
      (st'.vals = st.vals ++ [.pair t p] ∧ st'.mem = st.mem ∨
       ∃ l, st'.vals = st.vals ++ [.pair t (.marked st.mem.length (unwrap p))] ∧
         st'.mem = st.mem ++ [⟨.lib, .markset l⟩]) := by
  simp only [step, stepApi] at h
  opt_cases h
  · rename_i tp htp _ _ _ _ _
    exact ⟨tp.1, tp.2, htp, .inl ⟨rfl, rfl⟩⟩
  · rename_i tp htp _ _ given _ _
    exact ⟨tp.1, tp.2, htp, .inr ⟨_, rfl, rfl⟩⟩

theorem mark_markset {st st' : St} {v : Nat} {mk : String} (h : step st (.api (.mark v mk)) = some st') :
    ∃ t p l, st.val v = some (t, p) ∧
      st'.vals = st.vals ++ [.pair t (.marked st.mem.length (unwrap p))] ∧
      st'.mem = st.mem ++ [⟨.lib, .markset l⟩] := by
  simp only [step, stepApi] at h
  opt_cases h
  rename_i tp htp
  exact ⟨tp.1, tp.2, _, htp, rfl, rfl⟩

/-- `WithMarks` as the seeded change
`C20-withmarks-fast-path-retains-caller-map` makes it: receiver unmarked and exactly one
non-empty set given → the caller's map itself goes into the marker -/
def withMarksFast (st : St) (v g : Nat) : Option St :=
  match st.val v, st.go g with
  | some (t, p), some (.marks a) =>
    match p, marksOf st.mem a with
    | .marked _ _, _ => stepApi st (.withMarks v g)
    | _, some (_ :: _) => some (st.pushVal t (.marked a p))
    | _, _ => stepApi st (.withMarks v g)
  | _, _ => stepApi st (.withMarks v g)

end Heap
end CtyModel
