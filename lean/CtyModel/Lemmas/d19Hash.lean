/-
Hash coherence of `pathSetRules` over ALL paths (no restriction on the keys):
whenever `Equivalent(p, q)` answers true — whatever the index keys are: marked,
unknown, null, of compound type — `Hash(p) = Hash(q)`.

The reason is structural: `Equivalent` answers true only for paths of the same
length whose steps are stepwise of the same kind with equal attribute names, and
`Hash` writes the attribute name of every `GetAttrStep` and the same placeholder
for every other step.  A `Hash` that folded anything of an `IndexStep` key into
the sum (so that a marked key and its plain twin, or `1` and `1.0`, land in
different buckets) falsifies `hashBytes_eq_of_equivSteps`.
-/
import CtyModel.PathSet
import CtyModel.Lemmas.d13Carrier
namespace CtyModel
namespace PathSet

/-- stepwise: equivalent step lists of the same length are written as the same bytes -/
theorem hashBytes_eq_of_equivSteps : ∀ (p q : Path), p.length = q.length →
    equivSteps p q = .ok true → hashBytes p = hashBytes q
  | [], [], _, _ => rfl
  | [], _ :: _, hl, _ => by simp at hl
  | _ :: _, [], hl, _ => by simp at hl
  | .getAttr a :: p, .index b :: q, _, h => by simp [equivSteps] at h
  | .index a :: p, .getAttr b :: q, _, h => by simp [equivSteps] at h
  | .getAttr a :: p, .getAttr b :: q, hl, h => by
    simp only [equivSteps] at h
    by_cases hab : a = b
    · subst hab
      simp only [bne_self_eq_false, Bool.false_eq_true, if_false] at h
      simp only [hashBytes]
      rw [hashBytes_eq_of_equivSteps p q (by simpa using hl) h]
    · have : (a != b) = true := by simpa using hab
      simp [this] at h
  | .index a :: p, .index b :: q, hl, h => by
    simp only [equivSteps] at h
    simp only [hashBytes]
    cases he : Value.equals a b with
    | ok eq =>
      simp only [he] at h
      by_cases h1 : eq.unmark.isKnown = true
      · by_cases h2 : eq.unmark.isTrue = true
        · simp only [h1, h2, Bool.not_true, Bool.false_eq_true, if_false] at h
          rw [hashBytes_eq_of_equivSteps p q (by simpa using hl) h]
        · simp [h1, h2] at h
      · simp [h1] at h
    | err c => simp [he] at h
    | panic w => simp [he] at h
    | unmodelled => simp [he] at h

/-- `pathSetRules.Equivalent(p, q)` true ⇒ `pathSetRules.Hash(p) = pathSetRules.Hash(q)`,
for all paths -/
theorem hash_eq_of_equiv (p q : Path) (h : equiv p q = .ok true) : hash p = hash q := by
  simp only [equiv] at h
  by_cases hl : p.length = q.length
  · simp only [hl, bne_self_eq_false, Bool.false_eq_true, if_false] at h
    simp only [hash, hashBytes_eq_of_equivSteps p q hl h]
  · have : (p.length != q.length) = true := by simpa using hl
    simp [this] at h

/-- the same for the `set.Rules` value handed to `set.NewSet` -/
theorem pathRules_hash_eq (p q : Path) (h : pathRules.equiv p q = true) :
    pathRules.hash p = pathRules.hash q := by
  simp only [pathRules] at h ⊢
  cases he : equiv p q with
  | ok b =>
    simp only [he] at h
    subst h
    exact hash_eq_of_equiv p q he
  | err c => simp [he] at h
  | panic w => simp [he] at h
  | unmodelled => simp [he] at h

/-- an equivalent path is found in the bucket its own hash names: a set holding
exactly `p` answers `Has(q)` with true for every `q` equivalent to `p`
(`q` being the argument of `Equivalent`, as `Set.Has` calls it) -/
theorem has_singleton_of_equiv (p q : Path) (h : pathRules.equiv q p = true) :
    SetImpl.has pathRules (SetImpl.add pathRules SetImpl.empty p) q = true := by
  have hh := pathRules_hash_eq q p h
  simp only [SetImpl.add, SetImpl.empty, SetImpl.lookup, Option.getD_none, List.any_nil,
    Bool.false_eq_true, if_false, List.nil_append, SetImpl.setBucket, SetImpl.has, hh, if_true,
    List.any_cons, h, Bool.or_false]

end PathSet
end CtyModel
