/-
`Text('f', -1)` of a number with a fractional part and back through `cty.ParseNumberVal`
(d16): when the shortest decimal text is the exact decimal expansion, the parsed number is
numerically the number itself.
-/
import CtyModel.Lemmas.MsgpackNum
import CtyModel.d16Num
namespace CtyModel
namespace Msgpack
open Num NumCmp

/-- a finite-valued `c` with value `v·2^e0` compares equal to any `.fin` with the same value -/
theorem cmp_of_isVal {c : Num} {v e0 : Int} (hc : IsVal c v e0) (n : Bool) (m : Nat) (e : Int) (p : Nat)
    (he : e0 ≤ e) (hv : sgnm n m * 2 ^ (e - e0).toNat = v) : Num.cmp c (.fin n m e p) = 0 := by
  cases c with
  | inf _ => simp [IsVal] at hc
  | fin nc mc ec pc =>
    rw [cmp_fin]
    simp only [IsVal] at hc
    rcases hc with ⟨h1, h2⟩ | ⟨h1, h2⟩
    · subst h1
      rw [h2] at hv
      have hpos := two_pow_pos (e - e0).toNat
      have hz : sgnm n m = 0 := by
        rcases Int.mul_eq_zero.mp hv with h | h
        · exact h
        · omega
      have h0 : sgnm nc 0 = 0 := by cases nc <;> simp [sgnm]
      rw [hz, h0]
      simp [scaleTo, icmp]
    · have hmin : e0 ≤ min ec e := by omega
      have s1 := scaleTo_shift (sgnm nc mc) ec (min ec e) e0 (by omega) hmin
      have s2 := scaleTo_shift (sgnm n m) e (min ec e) e0 (by omega) hmin
      have a1 : scaleTo (sgnm nc mc) ec e0 = v := by simpa [scaleTo, sgnm] using h2
      have a2 : scaleTo (sgnm n m) e e0 = v := by simpa [scaleTo] using hv
      have : scaleTo (sgnm nc mc) ec (min ec e) = scaleTo (sgnm n m) e (min ec e) := by
        have hpos := two_pow_pos (min ec e - e0).toNat
        apply Int.eq_of_mul_eq_mul_right (Int.ne_of_gt hpos)
        rw [← s1, ← s2, a1, a2]
      simp [icmp, this]

/-- rounding `m·2^j` to `p` bits only drops zero bits when `m` fits `p` bits -/
theorem roundME_shift (m j : Nat) (e : Int) (p : Nat) (hp : p ≠ 0) (hm : bitlen m ≤ p) :
    ∃ i, i ≤ j ∧ roundME (m * 2 ^ j) e p = (m * 2 ^ (j - i), e + i) := by
  unfold roundME
  simp only [hp, if_false]
  by_cases hb : bitlen (m * 2 ^ j) ≤ p
  · exact ⟨0, Nat.zero_le _, by simp [hb]⟩
  · simp only [hb, if_false]
    generalize hkk : bitlen (m * 2 ^ j) - p = kk
    have hkk0 : 0 < kk := by omega
    have hle : kk ≤ j := by
      apply Classical.byContradiction
      intro hgt
      have h1 : ¬ bitlen (m * 2 ^ j) ≤ p + j := by omega
      rw [bitlen_le_iff] at h1 hm
      apply h1
      rw [Nat.pow_add]
      exact Nat.mul_lt_mul_of_lt_of_le hm (Nat.le_refl _) (Nat.two_pow_pos _)
    have hsplit : m * 2 ^ j = m * 2 ^ (j - kk) * 2 ^ kk := by
      rw [Nat.mul_assoc, ← Nat.pow_add]; congr 2; omega
    have hmod : m * 2 ^ j % 2 ^ kk = 0 := by rw [hsplit]; exact Nat.mul_mod_left _ _
    have hdiv : (m * 2 ^ j) >>> kk = m * 2 ^ (j - kk) := by
      rw [Nat.shiftRight_eq_div_pow]
      exact Nat.div_eq_of_eq_mul_left (Nat.two_pow_pos _) hsplit
    have hhalf : 0 < 2 ^ (kk - 1) := Nat.two_pow_pos _
    have hc : ¬ (m * 2 ^ j % 2 ^ kk > 2 ^ (kk - 1) ∨
        (m * 2 ^ j % 2 ^ kk = 2 ^ (kk - 1) ∧ m * 2 ^ (j - kk) % 2 = 1)) := by
      rw [hmod]; omega
    refine ⟨kk, hle, ?_⟩
    simp only [hdiv, hc, if_false]

theorem round_shift_cmp (neg : Bool) (m j : Nat) (e : Int) (p q : Nat) (hp : p ≠ 0) (hm : bitlen m ≤ p) :
    Num.cmp (Num.round neg (m * 2 ^ j) e p) (.fin neg m (e + j) q) = 0 := by
  obtain ⟨i, hi, hr⟩ := roundME_shift m j e p hp hm
  unfold Num.round
  simp only [hr]
  have hv := mk_isVal neg (m * 2 ^ (j - i)) (e + i) p
  apply cmp_of_isVal hv neg m (e + j) q (by omega)
  have : (e + (j : Int) - (e + (i : Int))).toNat = j - i := by omega
  rw [this]
  cases neg <;> simp [sgnm, Int.neg_mul]

/-- dividing `m·5^k` by `5^k·2^k` at precision `p`: the quotient is exact and the rounding keeps it -/
theorem quo_pow5_cmp (neg : Bool) (m k p q : Nat) (hm : m ≠ 0) (hp : p ≠ 0) (hfit : bitlen m ≤ p) :
    ∃ y, Num.quo (.fin neg (m * 5 ^ k) 0 p) (.fin false (5 ^ k) (k : Int) p) = .ok y ∧
      Num.cmp y (.fin neg m (-(k : Int)) q) = 0 := by
  have h5 : 5 ^ k ≠ 0 := Nat.pos_iff_ne_zero.mp (Nat.pow_pos (by decide))
  have hN : m * 5 ^ k ≠ 0 := Nat.mul_ne_zero hm h5
  generalize hs : (p + 3 + bitlen (5 ^ k)) - bitlen (m * 5 ^ k) = s
  have hq : Num.quo (.fin neg (m * 5 ^ k) 0 p) (.fin false (5 ^ k) (k : Int) p) =
      .ok (Num.round neg (m * 2 ^ (s + 1)) (0 - (k : Int) - (s : Int) - 1) p) := by
    simp only [Num.quo, h5, hN, if_false, Nat.max_self, hs]
    have hnum : (m * 5 ^ k) <<< s = (m * 2 ^ s) * 5 ^ k := by
      rw [Nat.shiftLeft_eq, Nat.mul_right_comm]
    have hdiv : (m * 2 ^ s) * 5 ^ k / 5 ^ k = m * 2 ^ s := Nat.mul_div_cancel _ (Nat.pos_of_ne_zero h5)
    have hmod : (m * 2 ^ s) * 5 ^ k % 5 ^ k = 0 := Nat.mul_mod_left _ _
    rw [hnum, hdiv, hmod]
    have : 2 * (m * 2 ^ s) + (if (0 : Nat) = 0 then 0 else 1) = m * 2 ^ (s + 1) := by
      rw [Nat.pow_succ]; simp; rw [Nat.mul_left_comm, Nat.mul_comm 2]
    rw [this]
    simp
  refine ⟨_, hq, ?_⟩
  have := round_shift_cmp neg m (s + 1) (0 - (k : Int) - (s : Int) - 1) p q hp hfit
  have he : (0 - (k : Int) - (s : Int) - 1) + ((s + 1 : Nat) : Int) = -(k : Int) := by omega
  rw [he] at this
  exact this

theorem all_isDigit_digits (ds : List Nat) (h : ∀ d ∈ ds, d < 10) : (ds.map digitChar).all isDigit = true := by
  simp only [List.all_eq_true, List.mem_map]
  rintro c ⟨d, hd, rfl⟩
  exact (digitChar_spec d (h d hd)).1

/-- digits, a point, between 1 and 248 digits: the exact integer divided by the exact power of ten -/
theorem parseUnsigned_point (neg : Bool) (ip fp : List Nat) (hip : ∀ d ∈ ip, d < 10) (hfp : ∀ d ∈ fp, d < 10)
    (hne : ip ≠ []) (hk0 : 0 < fp.length) (hk : fp.length ≤ 248) :
    parseUnsigned neg (ip.map digitChar ++ '.' :: fp.map digitChar) =
      Num.quo (.fin neg (dval (ip ++ fp)) 0 512) (.fin false (5 ^ fp.length) (fp.length : Int) 512) := by
  have htw : (ip.map digitChar ++ '.' :: fp.map digitChar).takeWhile isDigit = ip.map digitChar := by
    rw [List.takeWhile_append_of_pos (fun c hc => by
      obtain ⟨d, hd, rfl⟩ := List.mem_map.mp hc
      exact (digitChar_spec d (hip d hd)).1)]
    have : isDigit '.' = false := by decide
    simp [this]
  have hdrop : (ip.map digitChar ++ '.' :: fp.map digitChar).drop (ip.map digitChar).length = '.' :: fp.map digitChar :=
    List.drop_left
  have hall := all_isDigit_digits fp hfp
  have hv : digitsVal (ip.map digitChar ++ fp.map digitChar) 0 = dval (ip ++ fp) := by
    rw [← List.map_append, digitsVal_digits _ 0 (by
      intro d hd
      rcases List.mem_append.mp hd with h | h
      · exact hip d h
      · exact hfp d h)]
    rfl
  have hk1 : ¬ fp.length = 0 := by omega
  have hk2 : ¬ fp.length > 248 := by omega
  unfold parseUnsigned
  simp only [htw, hdrop]
  simp only [hall, if_true, if_false, List.length_map, hk1, hk2, hv]
  have he : (List.map digitChar ip).isEmpty = false := by
    cases ip with
    | nil => exact absurd rfl hne
    | cons _ _ => rfl
  rw [he]; rfl

theorem parseChars_point (neg : Bool) (ip fp : List Nat) (hip : ∀ d ∈ ip, d < 10) (hfp : ∀ d ∈ fp, d < 10)
    (hne : ip ≠ []) (hk0 : 0 < fp.length) (hk : fp.length ≤ 248) :
    parseChars ((if neg then ['-'] else []) ++ (ip.map digitChar ++ '.' :: fp.map digitChar)) =
      Num.quo (.fin neg (dval (ip ++ fp)) 0 512) (.fin false (5 ^ fp.length) (fp.length : Int) 512) := by
  have hpu := parseUnsigned_point neg ip fp hip hfp hne hk0 hk
  cases ip with
  | nil => exact absurd rfl hne
  | cons d ds =>
    have h0 := digitChar_spec d (hip d (by simp))
    have hinf : ¬ ((d :: ds).map digitChar ++ '.' :: fp.map digitChar = ['I', 'n', 'f'] ∨
        (d :: ds).map digitChar ++ '.' :: fp.map digitChar = ['i', 'n', 'f']) := by
      rintro (h | h) <;> simp only [List.map_cons, List.cons_append, List.cons.injEq] at h
      · exact h0.2.2.2.2.1 h.1
      · exact h0.2.2.2.2.2 h.1
    cases neg with
    | true =>
      simp only [if_true, List.cons_append, List.nil_append, parseChars]
      rw [← List.cons_append, if_neg hinf]
      exact hpu
    | false =>
      simp only [Bool.false_eq_true, if_false, List.nil_append]
      unfold parseChars
      simp only [List.map_cons, List.cons_append]
      split
      · rename_i h; simp only [List.cons.injEq] at h; exact absurd h.1 h0.2.2.1
      · rename_i h; simp only [List.cons.injEq] at h; exact absurd h.1 h0.2.2.2.1
      · have := hinf
        simp only [List.map_cons, List.cons_append] at this
        simp only [this, if_false]
        exact hpu

theorem fracDigits_char (ds : List Nat) (k : Nat) :
    (List.range k).map (fun (i : Nat) => Dec.digitAt ⟨ds, (ds.length : Int) - k⟩ ((ds.length : Int) - k + (i : Int))) =
      List.replicate (k - ds.length) 0 ++ ds.drop (ds.length - k) := by
  apply List.ext_getElem
  · simp only [List.length_map, List.length_range, List.length_append, List.length_replicate, List.length_drop]
    omega
  · intro i h1 h2
    simp only [List.length_map, List.length_range] at h1
    simp only [List.getElem_map, List.getElem_range, Dec.digitAt, List.getElem_append, List.length_replicate,
      List.getElem_replicate, List.getElem_drop]
    by_cases hi : i < k - ds.length
    · have : ¬ (0 ≤ (ds.length : Int) - k + (i : Int) ∧ (ds.length : Int) - k + (i : Int) < ds.length) := by omega
      simp [this, hi]
    · have hc : (0 ≤ (ds.length : Int) - k + (i : Int) ∧ (ds.length : Int) - k + (i : Int) < ds.length) := by omega
      have ht : ((ds.length : Int) - k + (i : Int)).toNat = ds.length - k + (i - (k - ds.length)) := by omega
      simp only [hc, hi, if_true, dite_false, and_self, ht]
      rw [List.getD_eq_getElem?_getD, List.getElem?_eq_getElem (by omega)]
      rfl

theorem fmtF_frac (ds : List Nat) (k : Nat) (hk : 0 < k) :
    fmtF k ⟨ds, (ds.length : Int) - k⟩ =
      String.ofList ((if ds.length - k > 0 then ds.take (ds.length - k) else [0]).map digitChar ++
        '.' :: (List.replicate (k - ds.length) 0 ++ ds.drop (ds.length - k)).map digitChar) := by
  unfold fmtF
  simp only [hk, if_true, fracDigits_char]
  congr 3
  by_cases h : ds.length - k > 0
  · have h' : (ds.length : Int) - k > 0 := by omega
    have ht : ((ds.length : Int) - k).toNat = ds.length - k := by omega
    have hm : min ds.length (ds.length - k) = ds.length - k := by omega
    simp only [h, h', if_true, ht, hm, Nat.sub_self, List.replicate_zero, List.append_nil]
  · have h' : ¬ (ds.length : Int) - k > 0 := by omega
    simp only [h, h', if_false]

theorem dval_zeros (z : Nat) (ds : List Nat) : dval (List.replicate z 0 ++ ds) = dval ds := by
  induction z with
  | zero => simp
  | succ z ih =>
    rw [List.replicate_succ, List.cons_append]
    simpa [dval] using ih

theorem trimZeros_snoc (xs : List Nat) (d : Nat) (hd : d ≠ 0) : trimZeros (xs ++ [d]) = xs ++ [d] := by
  unfold trimZeros
  have : (d == 0) = false := by simpa using hd
  simp [this]

theorem trimZeros_digits_odd (N : Nat) (h : N % 2 = 1) : trimZeros (digits N) = digits N := by
  have h0 : N ≠ 0 := by omega
  unfold digits
  rw [digitsFuel_succ _ N h0]
  exact trimZeros_snoc _ _ (by omega)

theorem odd_mul_pow5 (m k : Nat) (hm : m % 2 = 1) : (m * 5 ^ k) % 2 = 1 := by
  rw [Nat.mul_mod, Nat.pow_mod, hm]
  simp

/-- the exact decimal expansion of a number with a fractional part -/
theorem ofME_frac (m : Nat) (e : Int) (hm : m % 2 = 1) (he : e < 0) :
    Dec.ofME m e = ⟨digits (m * 5 ^ (-e).toNat), ((digits (m * 5 ^ (-e).toNat)).length : Int) - ((-e).toNat : Nat)⟩ := by
  have hm0 : m ≠ 0 := by omega
  have he' : ¬ e ≥ 0 := by omega
  simp only [Dec.ofME, hm0, he', if_false, trimZeros_digits_odd _ (odd_mul_pow5 m _ hm)]

/-- A number m·2^e with e < 0, m odd (normal form: not whole), whose mantissa fits 512 bits and which
has at most 248 fractional decimal digits: when the SHORTEST decimal text of math/big
(`roundShortest`) is the EXACT decimal expansion (no digit dropped: a condition on digit lists,
nothing parsed), cty.ParseNumberVal of the text written by Text('f', -1) is numerically the number
itself. -/
theorem textF_exact_parse (n : Bool) (m : Nat) (e : Int) (p : Nat)
    (hm : m % 2 = 1) (he : e < 0) (hk : (-e).toNat ≤ 248) (hfit : Num.bitlen m ≤ 512)
    (hex : Num.roundShortest m e p = Num.Dec.ofME m e) :
    ∃ y, parseNumber (Num.textF (.fin n m e p)) = .ok y ∧ Num.cmp y (.fin n m e p) = 0 := by
  have hm0 : m ≠ 0 := by omega
  generalize hkk : (-e).toNat = k at hk
  have hk0 : 0 < k := by omega
  have hek : e = -(k : Int) := by omega
  have hN : (m * 5 ^ k) % 2 = 1 := odd_mul_pow5 m k hm
  have hd : Num.roundShortest m e p = ⟨digits (m * 5 ^ k), ((digits (m * 5 ^ k)).length : Int) - (k : Nat)⟩ := by
    rw [hex, ofME_frac m e hm he, hkk]
  have hlt := digits_lt10 (m * 5 ^ k)
  have hval := digits_val (m * 5 ^ k)
  have hne := digits_ne_nil (m * 5 ^ k) (by omega)
  generalize digits (m * 5 ^ k) = ds at hd hlt hval hne
  have hP : ((ds.length : Int) - ((ds.length : Int) - (k : Nat))).toNat = k := by omega
  have htext : Num.textF (.fin n m e p) = (if n then "-" else "") ++ fmtF k ⟨ds, (ds.length : Int) - k⟩ := by
    simp only [Num.textF, hm0, if_false, hd, hP]
  rw [htext, fmtF_frac ds k hk0]
  generalize hip : (if ds.length - k > 0 then ds.take (ds.length - k) else [0]) = ip
  generalize hfp : List.replicate (k - ds.length) 0 ++ ds.drop (ds.length - k) = fp
  have hip10 : ∀ d ∈ ip, d < 10 := by
    intro d hdm
    rw [← hip] at hdm
    split at hdm
    · exact hlt d (List.mem_of_mem_take hdm)
    · simp only [List.mem_singleton] at hdm; omega
  have hfp10 : ∀ d ∈ fp, d < 10 := by
    intro d hdm
    rw [← hfp] at hdm
    rcases List.mem_append.mp hdm with h | h
    · have := (List.mem_replicate.mp h).2; omega
    · exact hlt d (List.mem_of_mem_drop h)
  have hipne : ip ≠ [] := by
    rw [← hip]
    split
    · rename_i h
      intro h0
      have := congrArg List.length h0
      simp only [List.length_take, List.length_nil] at this
      omega
    · simp
  have hfplen : fp.length = k := by
    rw [← hfp]
    simp only [List.length_append, List.length_replicate, List.length_drop]
    omega
  have hdv : dval (ip ++ fp) = m * 5 ^ k := by
    rw [← hip, ← hfp, ← hval]
    split
    · rename_i h
      have hz : k - ds.length = 0 := by omega
      rw [hz, List.replicate_zero, List.nil_append, List.take_append_drop]
    · rename_i h
      have hz : ds.length - k = 0 := by omega
      rw [hz, List.drop_zero, ← List.append_assoc]
      exact dval_zeros (k - ds.length + 1) ds
  have hparse : parseNumber ((if n then "-" else "") ++
      String.ofList (ip.map digitChar ++ '.' :: fp.map digitChar)) =
      parseChars ((if n then ['-'] else []) ++ (ip.map digitChar ++ '.' :: fp.map digitChar)) := by
    unfold parseNumber
    cases n <;> simp
  rw [hparse, parseChars_point n ip fp hip10 hfp10 hipne (by omega) (by omega), hdv, hfplen, hek]
  exact quo_pow5_cmp n m k 512 p hm0 (by decide) hfit

/-! ### the parsed number is structurally the number itself, at 512 bits -/

theorem normFuel_odd_shift (m : Nat) (hm : m % 2 = 1) :
    ∀ (t fuel : Nat) (e : Int), t < fuel → normFuel fuel (m * 2 ^ t) e = (m, e + (t : Int))
  | 0, fuel, e, h => by
    cases fuel with
    | zero => omega
    | succ f =>
      have h0 : m ≠ 0 := by omega
      have h1 : ¬ m % 2 = 0 := by omega
      simp [normFuel, h0, h1]
  | t + 1, fuel, e, h => by
    cases fuel with
    | zero => omega
    | succ f =>
      have hpos := Nat.two_pow_pos t
      have h0 : m * 2 ^ (t + 1) ≠ 0 := Nat.mul_ne_zero (by omega) (by rw [Nat.pow_succ]; omega)
      have h1 : m * 2 ^ (t + 1) % 2 = 0 := by rw [Nat.pow_succ, ← Nat.mul_assoc]; exact Nat.mul_mod_left _ _
      have h2 : m * 2 ^ (t + 1) / 2 = m * 2 ^ t := by
        rw [Nat.pow_succ, ← Nat.mul_assoc]; exact Nat.mul_div_cancel _ (by decide)
      simp only [normFuel, h0, h1, if_true, if_false, h2]
      rw [normFuel_odd_shift m hm t f (e + 1) (by omega)]
      congr 1
      omega

/-- `norm` strips exactly the trailing zero bits of an odd number times a power of two -/
theorem norm_odd_shift (m t : Nat) (e : Int) (hm : m % 2 = 1) : norm (m * 2 ^ t) e = (m, e + (t : Int)) := by
  unfold norm
  apply normFuel_odd_shift m hm
  have : ¬ bitlen (m * 2 ^ t) ≤ t := by
    rw [bitlen_le_iff]
    have hpos := Nat.two_pow_pos t
    have : 1 * 2 ^ t ≤ m * 2 ^ t := Nat.mul_le_mul_right _ (by omega)
    omega
  omega

/-- rounding `m·2^j` (m odd, fitting `p` bits) to `p` bits gives back `m` itself -/
theorem round_shift_eq (neg : Bool) (m j : Nat) (e : Int) (p : Nat) (hp : p ≠ 0) (hodd : m % 2 = 1)
    (hm : bitlen m ≤ p) : Num.round neg (m * 2 ^ j) e p = .fin neg m (e + (j : Int)) p := by
  obtain ⟨i, hi, hr⟩ := roundME_shift m j e p hp hm
  unfold Num.round
  simp only [hr, Num.mk, norm_odd_shift m (j - i) (e + (i : Int)) hodd]
  congr 1
  omega

/-- the quotient `m·5^k / (5^k·2^k)` at precision `p` is literally `m·2^(-k)` for `m` odd fitting `p` bits -/
theorem quo_pow5_eq (neg : Bool) (m k p : Nat) (hodd : m % 2 = 1) (hp : p ≠ 0) (hfit : bitlen m ≤ p) :
    Num.quo (.fin neg (m * 5 ^ k) 0 p) (.fin false (5 ^ k) (k : Int) p) = .ok (.fin neg m (-(k : Int)) p) := by
  have hm : m ≠ 0 := by omega
  have h5 : 5 ^ k ≠ 0 := Nat.pos_iff_ne_zero.mp (Nat.pow_pos (by decide))
  have hN : m * 5 ^ k ≠ 0 := Nat.mul_ne_zero hm h5
  generalize hs : (p + 3 + bitlen (5 ^ k)) - bitlen (m * 5 ^ k) = s
  have hq : Num.quo (.fin neg (m * 5 ^ k) 0 p) (.fin false (5 ^ k) (k : Int) p) =
      .ok (Num.round neg (m * 2 ^ (s + 1)) (0 - (k : Int) - (s : Int) - 1) p) := by
    simp only [Num.quo, h5, hN, if_false, Nat.max_self, hs]
    have hnum : (m * 5 ^ k) <<< s = (m * 2 ^ s) * 5 ^ k := by
      rw [Nat.shiftLeft_eq, Nat.mul_right_comm]
    have hdiv : (m * 2 ^ s) * 5 ^ k / 5 ^ k = m * 2 ^ s := Nat.mul_div_cancel _ (Nat.pos_of_ne_zero h5)
    have hmod : (m * 2 ^ s) * 5 ^ k % 5 ^ k = 0 := Nat.mul_mod_left _ _
    rw [hnum, hdiv, hmod]
    have : 2 * (m * 2 ^ s) + (if (0 : Nat) = 0 then 0 else 1) = m * 2 ^ (s + 1) := by
      rw [Nat.pow_succ]; simp; rw [Nat.mul_left_comm, Nat.mul_comm 2]
    rw [this]
    simp
  rw [hq, round_shift_eq neg m (s + 1) _ p hp hodd hfit]
  congr 2
  omega

/-- the text of such a number parses to the exact quotient `m·5^k / 10^k` at 512 bits -/
theorem textF_exact_parse_quo (n : Bool) (m : Nat) (e : Int) (p : Nat)
    (hm : m % 2 = 1) (he : e < 0) (hk : (-e).toNat ≤ 248)
    (hex : Num.roundShortest m e p = Num.Dec.ofME m e) :
    parseNumber (Num.textF (.fin n m e p)) =
      Num.quo (.fin n (m * 5 ^ (-e).toNat) 0 512) (.fin false (5 ^ (-e).toNat) (((-e).toNat : Nat) : Int) 512) := by
  have hm0 : m ≠ 0 := by omega
  generalize hkk : (-e).toNat = k at hk
  have hk0 : 0 < k := by omega
  have hek : e = -(k : Int) := by omega
  have hN : (m * 5 ^ k) % 2 = 1 := odd_mul_pow5 m k hm
  have hd : Num.roundShortest m e p = ⟨digits (m * 5 ^ k), ((digits (m * 5 ^ k)).length : Int) - (k : Nat)⟩ := by
    rw [hex, ofME_frac m e hm he, hkk]
  have hlt := digits_lt10 (m * 5 ^ k)
  have hval := digits_val (m * 5 ^ k)
  have hne := digits_ne_nil (m * 5 ^ k) (by omega)
  generalize digits (m * 5 ^ k) = ds at hd hlt hval hne
  have hP : ((ds.length : Int) - ((ds.length : Int) - (k : Nat))).toNat = k := by omega
  have htext : Num.textF (.fin n m e p) = (if n then "-" else "") ++ fmtF k ⟨ds, (ds.length : Int) - k⟩ := by
    simp only [Num.textF, hm0, if_false, hd, hP]
  rw [htext, fmtF_frac ds k hk0]
  generalize hip : (if ds.length - k > 0 then ds.take (ds.length - k) else [0]) = ip
  generalize hfp : List.replicate (k - ds.length) 0 ++ ds.drop (ds.length - k) = fp
  have hip10 : ∀ d ∈ ip, d < 10 := by
    intro d hdm
    rw [← hip] at hdm
    split at hdm
    · exact hlt d (List.mem_of_mem_take hdm)
    · simp only [List.mem_singleton] at hdm; omega
  have hfp10 : ∀ d ∈ fp, d < 10 := by
    intro d hdm
    rw [← hfp] at hdm
    rcases List.mem_append.mp hdm with h | h
    · have := (List.mem_replicate.mp h).2; omega
    · exact hlt d (List.mem_of_mem_drop h)
  have hipne : ip ≠ [] := by
    rw [← hip]
    split
    · rename_i h
      intro h0
      have := congrArg List.length h0
      simp only [List.length_take, List.length_nil] at this
      omega
    · simp
  have hfplen : fp.length = k := by
    rw [← hfp]
    simp only [List.length_append, List.length_replicate, List.length_drop]
    omega
  have hdv : dval (ip ++ fp) = m * 5 ^ k := by
    rw [← hip, ← hfp, ← hval]
    split
    · rename_i h
      have hz : k - ds.length = 0 := by omega
      rw [hz, List.replicate_zero, List.nil_append, List.take_append_drop]
    · rename_i h
      have hz : ds.length - k = 0 := by omega
      rw [hz, List.drop_zero, ← List.append_assoc]
      exact dval_zeros (k - ds.length + 1) ds
  have hparse : parseNumber ((if n then "-" else "") ++
      String.ofList (ip.map digitChar ++ '.' :: fp.map digitChar)) =
      parseChars ((if n then ['-'] else []) ++ (ip.map digitChar ++ '.' :: fp.map digitChar)) := by
    unfold parseNumber
    cases n <;> simp
  rw [hparse, parseChars_point n ip fp hip10 hfp10 hipne (by omega) (by omega), hdv, hfplen]

/-- (A) For m odd the decoder's number is literally the same mantissa and exponent, at 512 bits. -/
theorem textF_exact_parse_eq (n : Bool) (m : Nat) (e : Int) (p : Nat)
    (hm : m % 2 = 1) (he : e < 0) (hk : (-e).toNat ≤ 248) (hfit : Num.bitlen m ≤ 512)
    (hex : Num.roundShortest m e p = Num.Dec.ofME m e) :
    parseNumber (Num.textF (.fin n m e p)) = .ok (.fin n m e 512) := by
  rw [textF_exact_parse_quo n m e p hm he hk hex, quo_pow5_eq n m _ 512 hm (by decide) hfit]
  congr 2
  omega

/-! ### the spec predicates follow from the digit-level conditions -/

theorem dec_eq_of_beq {a b : Num.Dec} (h : (a == b) = true) : a = b := by
  cases a with
  | mk a1 a2 =>
    cases b with
    | mk b1 b2 =>
      have h' : a1.beq b1 = true ∧ a2 = b2 := by simpa [BEq.beq, Num.instBEqDec.beq] using h
      have h1 : a1 = b1 := eq_of_beq (a := a1) (b := b1) h'.1
      rw [h1, h'.2]

theorem digitsExactOwn_fin {n : Bool} {m : Nat} {e : Int} {p : Nat} (h : digitsExactOwn (.fin n m e p) = true) :
    m % 2 = 1 ∧ e < 0 ∧ (-e).toNat ≤ 248 ∧ Num.bitlen m ≤ 512 ∧ Num.roundShortest m e p = Num.Dec.ofME m e := by
  simp only [digitsExactOwn, fracNormal, Bool.and_eq_true, decide_eq_true_eq] at h
  obtain ⟨⟨⟨⟨h1, h2⟩, h3⟩, h4⟩, h5⟩ := h
  exact ⟨by simpa using h1, h2, h3, h4, dec_eq_of_beq h5⟩

theorem digitsExact_fin {n : Bool} {m : Nat} {e : Int} {p : Nat} (h : digitsExact (.fin n m e p) = true) :
    digitsExactOwn (.fin n m e p) = true ∧ Num.roundShortest m e 512 = Num.Dec.ofME m e := by
  simp only [digitsExact, Bool.and_eq_true] at h
  exact ⟨h.1, dec_eq_of_beq h.2⟩

theorem digitsExactOwn_isInt {x : Num} (h : digitsExactOwn x = true) : x.isInt = false := by
  cases x with
  | inf _ => rfl
  | fin n m e p =>
    obtain ⟨_, he, _⟩ := digitsExactOwn_fin h
    simp only [Num.isInt, decide_eq_false_iff_not]
    omega

theorem digitsExactOwn_of_digitsExact {x : Num} (h : digitsExact x = true) : digitsExactOwn x = true := by
  cases x with
  | inf _ => simp [digitsExact] at h
  | fin n m e p => exact (digitsExact_fin h).1

theorem cmp_fin_self (n : Bool) (m : Nat) (e : Int) (p q : Nat) : Num.cmp (.fin n m e p) (.fin n m e q) = 0 := by
  rw [cmp_fin]; simp [icmp]

/-- (B) the shortest text is the exact expansion: it parses back to numerically the number -/
theorem textExact_of_digits (x : Num) (h : digitsExactOwn x = true) : textExact x = true := by
  cases x with
  | inf _ => simp [digitsExactOwn] at h
  | fin n m e p =>
    obtain ⟨hm, he, hk, hfit, hex⟩ := digitsExactOwn_fin h
    simp only [textExact, textF_exact_parse_eq n m e p hm he hk hfit hex, cmp_fin_self]
    rfl

/-- (B) … and, when the text at 512 bits is the exact expansion too, to a number Equal in cty's sense -/
theorem textBack_of_digits (x : Num) (h : digitsExact x = true) : textBack x = true := by
  cases x with
  | inf _ => simp [digitsExact] at h
  | fin n m e p =>
    obtain ⟨ho, hex5⟩ := digitsExact_fin h
    obtain ⟨hm, he, hk, hfit, hex⟩ := digitsExactOwn_fin ho
    have hm0 : m ≠ 0 := by omega
    have ht : Num.textF (.fin n m e 512) = Num.textF (.fin n m e p) := by
      simp only [Num.textF, hex, hex5]
    have hs : Num.sign (.fin n m e 512) = Num.sign (.fin n m e p) := by
      cases m with
      | zero => exact absurd rfl hm0
      | succ k => cases n <;> rfl
    simp only [textBack, textF_exact_parse_eq n m e p hm he hk hfit hex]
    simp [Num.rawEqual, hs, ht, Num.isInt, he]

/-! ### at the level of the encoder -/

/-- (C) a number that is not whole, not an exact float64, whose shortest text is exact: comes back as
the same number at 512 bits -/
theorem encNum_text_exact (n : Bool) (m : Nat) (e : Int) (p : Nat) (h : digitsExactOwn (.fin n m e p) = true)
    (hf : (Num.toF64 (.fin n m e p)).2 = false) :
    encNum (.fin n m e p) = .str (Num.textF (.fin n m e p)) ∧
    unmarshalNumber (encNum (.fin n m e p)) = .ok (.fin n m e 512) := by
  obtain ⟨hm, he, hk, hfit, hex⟩ := digitsExactOwn_fin h
  have he' : ¬ e ≥ 0 := by omega
  have hi : (Num.fin n m e p).toInt? = none := by rw [toInt?_fin]; simp only [he', if_false]
  have henc : encNum (.fin n m e p) = .str (Num.textF (.fin n m e p)) := by
    simp [encNum, route, hi, hf]
  refine ⟨henc, ?_⟩
  rw [henc, unmarshalNumber_str, textF_exact_parse_eq n m e p hm he hk hfit hex]

theorem numFits_of_digits (x : Num) (h : digitsExact x = true) : numFits x = true := by
  unfold numFits
  split
  · simp only [digitsExactOwn_isInt (digitsExactOwn_of_digitsExact h), Bool.false_eq_true, if_false]
    exact textBack_of_digits x h
  · rfl

theorem boundFits_of_digits (b : Bound) (h : digitsExactOwn b.v = true) : boundFits (some b) = true := by
  unfold boundFits
  simp only
  split
  · simp only [digitsExactOwn_isInt h, Bool.false_eq_true, if_false]
    exact textExact_of_digits b.v h
  · rfl

end Msgpack
end CtyModel
