/-
d14 — `regex`: the index lists that `regexp.FindStringSubmatchIndex` returns are SLICED by cty
(`str[idx[2i]:idx[2i+1]]`): under the shape the regexp package documents for them — one pair per
group incl. the whole match, every pair either (−1, −1) or 0 ≤ a ≤ b ≤ len(str) — no slice
expression and no index expression of `regexPatternResult` can panic.
-/
import CtyModel.Stdlib.Glue
import CtyModel.Lemmas.StdNumStr
import CtyModel.Lemmas.StdNumInt
namespace CtyModel
namespace StdNum

/-- one pair of a submatch index list: unmatched group, or a range of the subject -/
def PairOK (size : Nat) (a b : Int) : Prop := (a < 0 ∧ b < 0) ∨ (0 ≤ a ∧ a ≤ b ∧ b ≤ size)

/-- `FindStringSubmatchIndex` for a pattern with `k` groups on a subject of `size` bytes -/
def IdxOK (size k : Nat) (idxs : List Int) : Prop :=
  idxs.length = 2 * (k + 1) ∧
  (∀ i, i < k + 1 → ∀ a b, idxs[2 * i]? = some a → idxs[2 * i + 1]? = some b → PairOK size a b) ∧
  (∀ a, idxs[0]? = some a → 0 ≤ a)

theorem sliceBytes_no_panic (s : String) (a b : Int) (h : 0 ≤ a ∧ a ≤ b ∧ b ≤ s.utf8ByteSize) :
    (sliceBytes s a b).isPanic = false := by
  have : ¬ (a < 0 ∨ b < a ∨ b > s.utf8ByteSize) := by omega
  simp only [sliceBytes, this, if_false]
  split <;> rfl

theorem captureVal_no_panic (L : Lib) (str : String) (idxs : List Int) (i : Nat) (hl : 2 * i + 1 < idxs.length)
    (hp : ∀ a b, idxs[2 * i]? = some a → idxs[2 * i + 1]? = some b → PairOK str.utf8ByteSize a b) :
    (captureVal L str idxs i).isPanic = false := by
  have h0 : i * 2 < idxs.length := by omega
  have h1 : i * 2 + 1 < idxs.length := by omega
  have e0 : idxs[i * 2]? = some idxs[i * 2] := List.getElem?_eq_getElem h0
  have e1 : idxs[i * 2 + 1]? = some idxs[i * 2 + 1] := List.getElem?_eq_getElem h1
  have hp' := hp idxs[i * 2] idxs[i * 2 + 1] (by rw [Nat.mul_comm]; exact e0) (by rw [Nat.mul_comm]; exact e1)
  simp only [captureVal, idxAt, e0, e1, Res.bind_ok]
  split
  · rfl
  · rename_i hneg
    rcases hp' with hp' | hp'
    · exact absurd (Or.inl hp'.1) hneg
    · have := sliceBytes_no_panic str _ _ hp'
      cases hs : sliceBytes str idxs[i * 2] idxs[i * 2 + 1] with
      | ok t => rfl
      | err e => rfl
      | panic w => rw [hs] at this; simp [Res.isPanic] at this
      | unmodelled => rfl

theorem captureVals_no_panic (L : Lib) (str : String) (idxs : List Int) (is : List Nat)
    (h : ∀ i ∈ is, 2 * i + 1 < idxs.length ∧
      ∀ a b, idxs[2 * i]? = some a → idxs[2 * i + 1]? = some b → PairOK str.utf8ByteSize a b) :
    (captureVals L str idxs is).isPanic = false := by
  induction is with
  | nil => rfl
  | cons i rest ih =>
    have hi := h i List.mem_cons_self
    have h1 := captureVal_no_panic L str idxs i hi.1 hi.2
    have h2 := ih fun j hj => h j (List.mem_cons_of_mem _ hj)
    simp only [captureVals]
    cases hc : captureVal L str idxs i with
    | ok v =>
      simp only [Res.bind_ok]
      cases hv : captureVals L str idxs rest with
      | ok vs => rfl
      | err e => rfl
      | panic w => rw [hv] at h2; simp [Res.isPanic] at h2
      | unmodelled => rfl
    | err e => rfl
    | panic w => rw [hc] at h1; simp [Res.isPanic] at h1
    | unmodelled => rfl

/-- shifting the index list by the whole-match pair -/
theorem drop2_get (idxs : List Int) (j : Nat) : (idxs.drop 2)[j]? = idxs[j + 2]? := by
  rw [List.getElem?_drop]; congr 1; omega

theorem regexResult_no_panic (L : Lib) (names : List String) (str : String) (idxs : List Int) (retTy : Ty)
    (hk : IdxOK str.utf8ByteSize names.length idxs)
    (ht : retTy = .string ∨ (∃ es, retTy = .tuple es) ∨ (∃ ns ts os, retTy = .object ns ts os)) :
    (regexResult L names str idxs retTy).isPanic = false := by
  obtain ⟨hlen, hpairs, hfirst⟩ := hk
  have hrest : ∀ i, i < names.length → 2 * i + 1 < (idxs.drop 2).length ∧
      ∀ a b, (idxs.drop 2)[2 * i]? = some a → (idxs.drop 2)[2 * i + 1]? = some b → PairOK str.utf8ByteSize a b := by
    intro i hi
    refine ⟨by simp only [List.length_drop]; omega, ?_⟩
    intro a b ha hb
    rw [drop2_get] at ha hb
    exact hpairs (i + 1) (by omega) a b (by rw [← ha]; congr 1) (by rw [← hb]; congr 1)
  rcases ht with rfl | ⟨es, rfl⟩ | ⟨ns, ts, os, rfl⟩
  · -- the whole match
    have h0 : 0 < idxs.length := by omega
    have h1 : 1 < idxs.length := by omega
    have e0 : idxs[0]? = some idxs[0] := List.getElem?_eq_getElem h0
    have e1 : idxs[1]? = some idxs[1] := List.getElem?_eq_getElem h1
    have hp := hpairs 0 (by omega) idxs[0] idxs[1] e0 e1
    have hf := hfirst idxs[0] e0
    have hp' : 0 ≤ idxs[0] ∧ idxs[0] ≤ idxs[1] ∧ idxs[1] ≤ str.utf8ByteSize := by
      rcases hp with hp | hp
      · omega
      · exact hp
    have := sliceBytes_no_panic str _ _ hp'
    simp only [regexResult, idxAt, e0, e1, Res.bind_ok]
    cases hs : sliceBytes str idxs[0] idxs[1] with
    | ok t => rfl
    | err e => rfl
    | panic w => rw [hs] at this; simp [Res.isPanic] at this
    | unmodelled => rfl
  · have hl2 : (idxs.drop 2).length / 2 = names.length := by simp only [List.length_drop]; omega
    have := captureVals_no_panic L str (idxs.drop 2) (List.range ((idxs.drop 2).length / 2))
      (by intro i hi; rw [hl2] at hi; exact hrest i (List.mem_range.mp hi))
    simp only [regexResult]
    cases hv : captureVals L str (idxs.drop 2) (List.range ((idxs.drop 2).length / 2)) with
    | ok vs => rfl
    | err e => rfl
    | panic w => rw [hv] at this; simp [Res.isPanic] at this
    | unmodelled => rfl
  · have := captureVals_no_panic L str (idxs.drop 2) (List.range names.length)
      (by intro i hi; exact hrest i (List.mem_range.mp hi))
    simp only [regexResult]
    cases hv : captureVals L str (idxs.drop 2) (List.range names.length) with
    | ok vs => rfl
    | err e => rfl
    | panic w => rw [hv] at this; simp [Res.isPanic] at this
    | unmodelled => rfl

theorem regexResultType_shape (names : List String) (t : Ty) (h : regexResultType names = .ok t) :
    t = .string ∨ (∃ es, t = .tuple es) ∨ (∃ ns ts os, t = .object ns ts os) := by
  unfold regexResultType at h
  simp only [] at h
  split at h
  · cases h; left; rfl
  · split at h
    · cases h
    · split at h
      · cases h; right; left; exact ⟨_, rfl⟩
      · cases h; right; right; exact ⟨_, _, _, rfl⟩

theorem regexResultType_no_panic (names : List String) : (regexResultType names).isPanic = false := by
  unfold regexResultType
  simp only []
  split
  · rfl
  · split
    · rfl
    · split <;> rfl

/-- `regex` never panics when the regexp package keeps its promise about index lists -/
theorem regexImpl_no_panic (L : Lib) (pat str : String)
    (hk : ∀ names idxs, L.regexCompile pat = some names → L.regexFind pat str = some idxs →
      IdxOK str.utf8ByteSize names.length idxs) :
    (regexImpl L [sv pat, sv str]).isPanic = false := by
  simp only [regexImpl, arg0, arg1, Res.bind_ok, asString_sv]
  cases hc : L.regexCompile pat with
  | none => rfl
  | some names =>
    simp only
    have hp := regexResultType_no_panic names
    cases ht : regexResultType names with
    | ok t =>
      simp only [Res.bind_ok]
      cases hf : L.regexFind pat str with
      | none => rfl
      | some idxs =>
        exact regexResult_no_panic L names str idxs t (hk names idxs hc hf) (regexResultType_shape names t ht)
    | err e => rfl
    | panic w => rw [ht] at hp; simp [Res.isPanic] at hp
    | unmodelled => rfl

/-- without capture groups the result is the matched part of the subject (re-normalised) -/
theorem regexImpl_whole_match (L : Lib) (pat str : String) (idxs : List Int) (a b : Int) (m : String)
    (hc : L.regexCompile pat = some []) (hf : L.regexFind pat str = some idxs)
    (ha : idxs[0]? = some a) (hb : idxs[1]? = some b) (hs : sliceBytes str a b = .ok m) :
    regexImpl L [sv pat, sv str] = .ok (stringVal L.nfc m) := by
  simp [regexImpl, hc, hf, regexResultType, regexResult, idxAt, ha, hb, hs]

/-- no match is the documented error; an invalid pattern is an error -/
theorem regexImpl_errors (L : Lib) (pat str : String) :
    (L.regexCompile pat = none → regexImpl L [sv pat, sv str] = .err "invalid regexp pattern") ∧
    (∀ names t, L.regexCompile pat = some names → regexResultType names = .ok t → L.regexFind pat str = none →
      regexImpl L [sv pat, sv str] = .err "pattern did not match any part of the given string") := by
  constructor
  · intro h; simp [regexImpl, h]
  · intro names t h1 h2 h3; simp [regexImpl, h1, h2, h3]

end StdNum
end CtyModel
