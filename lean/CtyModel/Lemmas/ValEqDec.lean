/-
Decidable equality of `Ty`, `Payload`, `Value` (nested inductives: the deriving
handler does not apply), by structurally recursive Boolean tests that the kernel
can evaluate, so that `decide` works on statements about concrete values.
-/
import CtyModel.Val
namespace CtyModel

mutual
def Ty.same : Ty → Ty → Bool
  | .bool, .bool => true
  | .number, .number => true
  | .string, .string => true
  | .dyn, .dyn => true
  | .list a, .list b => Ty.same a b
  | .set a, .set b => Ty.same a b
  | .map a, .map b => Ty.same a b
  | .tuple as, .tuple bs => Ty.sameL as bs
  | .object n1 t1 o1, .object n2 t2 o2 => n1 == n2 && Ty.sameL t1 t2 && o1 == o2
  | .capsule a, .capsule b => a == b
  | _, _ => false
def Ty.sameL : List Ty → List Ty → Bool
  | [], [] => true
  | a :: as, b :: bs => Ty.same a b && Ty.sameL as bs
  | _, _ => false
end

mutual
theorem Ty.same_iff : ∀ a b : Ty, Ty.same a b = true ↔ a = b
  | a, b => by
    cases a <;> cases b <;> simp [Ty.same]
    case list.list x y => exact Ty.same_iff x y
    case set.set x y => exact Ty.same_iff x y
    case map.map x y => exact Ty.same_iff x y
    case tuple.tuple xs ys => exact Ty.sameL_iff xs ys
    case object.object n1 t1 o1 n2 t2 o2 =>
      rw [Ty.sameL_iff t1 t2]
      constructor
      · rintro ⟨⟨h1, h2⟩, h3⟩; exact ⟨h1, h2, h3⟩
      · rintro ⟨h1, h2, h3⟩; exact ⟨⟨h1, h2⟩, h3⟩
theorem Ty.sameL_iff : ∀ as bs : List Ty, Ty.sameL as bs = true ↔ as = bs
  | [], [] => by simp [Ty.sameL]
  | [], _ :: _ => by simp [Ty.sameL]
  | _ :: _, [] => by simp [Ty.sameL]
  | a :: as, b :: bs => by simp [Ty.sameL, Ty.same_iff a b, Ty.sameL_iff as bs]
end

instance : DecidableEq Ty := fun a b => decidable_of_iff _ (Ty.same_iff a b)

mutual
def Payload.same : Payload → Payload → Bool
  | .null, .null => true
  | .unk r, .unk r' => decide (r = r')
  | .b x, .b y => x == y
  | .n x, .n y => decide (x = y)
  | .s x, .s y => x == y
  | .seq xs, .seq ys => Payload.sameL xs ys
  | .smap k xs, .smap k' ys => k == k' && Payload.sameL xs ys
  | .sset i xs, .sset i' ys => i == i' && Payload.sameL xs ys
  | .caps, .caps => true
  | .marked m x, .marked m' y => m == m' && Payload.same x y
  | .bad w, .bad w' => w == w'
  | _, _ => false
def Payload.sameL : List Payload → List Payload → Bool
  | [], [] => true
  | x :: xs, y :: ys => Payload.same x y && Payload.sameL xs ys
  | _, _ => false
end

mutual
theorem Payload.same_iff : ∀ p q : Payload, Payload.same p q = true ↔ p = q
  | p, q => by
    cases p <;> cases q <;> simp [Payload.same]
    case seq.seq xs ys => exact Payload.sameL_iff xs ys
    case smap.smap k xs k' ys => rw [Payload.sameL_iff xs ys]; simp
    case sset.sset k xs k' ys => rw [Payload.sameL_iff xs ys]; simp
    case marked.marked m x m' y => rw [Payload.same_iff x y]; simp
theorem Payload.sameL_iff : ∀ ps qs : List Payload, Payload.sameL ps qs = true ↔ ps = qs
  | [], [] => by simp [Payload.sameL]
  | [], _ :: _ => by simp [Payload.sameL]
  | _ :: _, [] => by simp [Payload.sameL]
  | p :: ps, q :: qs => by simp [Payload.sameL, Payload.same_iff p q, Payload.sameL_iff ps qs]
end

instance : DecidableEq Payload := fun p q => decidable_of_iff _ (Payload.same_iff p q)

instance : DecidableEq Value := fun p q =>
  decidable_of_iff (p.ty = q.ty ∧ p.v = q.v) (by cases p; cases q; simp)

end CtyModel
