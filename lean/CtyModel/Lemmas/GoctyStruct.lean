/- Struct ↔ object: the lookups of `toCtyObject` / `fromCtyObject` over struct
fields kept as records, tagged and untagged. -/
import CtyModel.Lemmas.GoctyRT
import CtyModel.Lemmas.TyConform
namespace CtyModel
namespace Gocty
open Ty

/-! ### zero values -/
mutual
theorem isZero_eq : ∀ (g : GoVal) (T : GoTy), isZero g T = true → g = zeroVal T
  | .int v, T, h => by cases T <;> simp_all [isZero, zeroVal]
  | .flt x, T, h => by cases T <;> simp_all [isZero, zeroVal]
  | .nan, T, h => by cases T <;> simp [isZero] at h
  | .str s, T, h => by cases T <;> simp_all [isZero, zeroVal]
  | .bool b, T, h => by cases T <;> simp_all [isZero, zeroVal]
  | .nilSlice, T, h => by cases T <;> simp_all [isZero, zeroVal]
  | .slice _, T, h => by cases T <;> simp [isZero] at h
  | .nilMap, T, h => by cases T <;> simp_all [isZero, zeroVal]
  | .map _ _, T, h => by cases T <;> simp [isZero] at h
  | .nilPtr, T, h => by cases T <;> simp_all [isZero, zeroVal]
  | .ptr _, T, h => by cases T <;> simp [isZero] at h
  | .bigInt v, T, h => by cases T <;> simp_all [isZero, zeroVal]
  | .bigFloat x, T, h => by cases T <;> simp_all [isZero, zeroVal]
  | .cval _, T, h => by cases T <;> simp [isZero] at h
  | .cvalNil, T, h => by cases T <;> simp_all [isZero, zeroVal]
  | .arr vs, T, h => by
    cases T <;> simp only [isZero, Bool.false_eq_true] at h
    rename_i n e
    simp only [Bool.and_eq_true, beq_iff_eq] at h
    simp only [zeroVal, ← h.1]
    rw [isZeroL_eq vs e h.2]
    simp
  | .struct tags vs, T, h => by
    cases T <;> simp only [isZero, Bool.false_eq_true] at h
    rename_i tags' tys
    simp only [Bool.and_eq_true, beq_iff_eq] at h
    simp only [zeroVal, h.1, isZeroZ_eq vs tys h.2]
theorem isZeroL_eq : ∀ (vs : List GoVal) (e : GoTy), isZeroL vs e = true →
    vs = List.replicate vs.length (zeroVal e)
  | [], _, _ => rfl
  | v :: vs, e, h => by
    simp only [isZeroL, Bool.and_eq_true] at h
    simp only [List.length_cons, List.replicate_succ, List.cons.injEq]
    exact ⟨isZero_eq v e h.1, isZeroL_eq vs e h.2⟩
theorem isZeroZ_eq : ∀ (vs : List GoVal) (tys : List GoTy), isZeroZ vs tys = true → vs = zeroValL tys
  | [], [], _ => rfl
  | [], _ :: _, h => by simp [isZeroZ] at h
  | _ :: _, [], h => by simp [isZeroZ] at h
  | v :: vs, T :: tys, h => by
    simp only [isZeroZ, Bool.and_eq_true] at h
    simp only [zeroValL, List.cons.injEq]
    exact ⟨isZero_eq v T h.1, isZeroZ_eq vs tys h.2⟩
end

/-! ### struct fields as records (instead of five parallel lists) -/

/-- one struct field together with everything the round trip says about it -/
structure Fld where
  tag : String
  v : GoVal
  T : GoTy
  t : Ty
  w : Value

def findF (k : String) : List Fld → Option Fld
  | [] => none
  | f :: fs => if f.tag = k then some f else findF k fs

/-- the fields the bridge carries -/
def tg (fs : List Fld) : List Fld := fs.filter fun f => f.tag != ""

theorem mem_tg {fs : List Fld} {f : Fld} : f ∈ tg fs ↔ f ∈ fs ∧ f.tag ≠ "" := by
  simp [tg]

theorem lookupKey_map {α} (π : Fld → α) (k : String) : ∀ (fs : List Fld),
    lookupKey k (fs.map (·.tag)) (fs.map π) = (findF k fs).map π
  | [] => rfl
  | f :: fs => by
    simp only [List.map_cons, lookupKey, findF]
    split
    · rfl
    · exact lookupKey_map π k fs

theorem findF_tg {k : String} (hk : k ≠ "") : ∀ (fs : List Fld), findF k (tg fs) = findF k fs
  | [] => rfl
  | f :: fs => by
    unfold tg
    simp only [List.filter_cons]
    by_cases hf : f.tag = ""
    · have : f.tag ≠ k := by rw [hf]; exact fun e => hk e.symm
      simp only [hf, bne_self_eq_false, Bool.false_eq_true, if_false, findF]
      rw [if_neg (by rw [← hf]; exact this)]
      exact findF_tg hk fs
    · simp only [bne_iff_ne, ne_eq, hf, not_false_eq_true, if_true, findF]
      split
      · rfl
      · exact findF_tg hk fs

theorem findF_self : ∀ {fs : List Fld} {f : Fld}, tagsDistinct (fs.map (·.tag)) = true → f ∈ fs →
    f.tag ≠ "" → findF f.tag fs = some f
  | [], _, _, h, _ => by simp at h
  | a :: fs, f, hd, h, hne => by
    simp only [List.map_cons, tagsDistinct, Bool.and_eq_true, Bool.or_eq_true, beq_iff_eq, Bool.not_eq_true',
      List.contains_eq_mem, decide_eq_false_iff_not] at hd
    simp only [findF]
    rcases List.mem_cons.mp h with rfl | h
    · simp
    · have : a.tag ≠ f.tag := by
        intro e
        rcases hd.1 with h0 | h0
        · exact hne (e ▸ h0)
        · exact h0 (e ▸ List.mem_map_of_mem (f := (·.tag)) h)
      simp only [this, if_false]
      exact findF_self hd.2 h hne

theorem findF_of_mem : ∀ {fs : List Fld} {k : String}, k ∈ fs.map (·.tag) →
    ∃ f, findF k fs = some f ∧ f.tag = k ∧ f ∈ fs
  | [], _, h => by simp at h
  | a :: fs, k, h => by
    simp only [findF]
    by_cases e : a.tag = k
    · exact ⟨a, by simp [e], e, by simp⟩
    · simp only [e, if_false]
      simp only [List.map_cons, List.mem_cons] at h
      rcases h with h | h
      · exact absurd h.symm e
      · obtain ⟨f, h1, h2, h3⟩ := findF_of_mem h
        exact ⟨f, h1, h2, List.mem_cons_of_mem _ h3⟩

theorem lookupKey_names {α} (f : String → α) (k : String) : ∀ (ns : List String), k ∈ ns →
    lookupKey k ns (ns.map f) = some (f k)
  | [], h => by simp at h
  | n :: ns, h => by
    simp only [List.map_cons, lookupKey]
    split
    · rename_i e; rw [e]
    · rename_i e
      rcases List.mem_cons.mp h with h | h
      · exact absurd h.symm e
      · exact lookupKey_names f k ns h

theorem taggedNames_flds : ∀ (fs : List Fld), taggedNames (fs.map (·.tag)) = (tg fs).map (·.tag)
  | [] => rfl
  | f :: fs => by
    unfold tg
    simp only [List.map_cons, taggedNames, List.filter_cons]
    by_cases hf : f.tag = ""
    · simp only [hf, if_true, bne_self_eq_false, Bool.false_eq_true, if_false]
      exact taggedNames_flds fs
    · simp only [hf, if_false, bne_iff_ne, ne_eq, not_false_eq_true, if_true, List.map_cons, List.cons.injEq,
        true_and]
      exact taggedNames_flds fs

/-! struct → object -/

theorem toCtyF_flds (norm : String → String) (names : List String) (atys : List Ty) : ∀ (sub : List Fld),
    (∀ f ∈ sub, f.tag ≠ "" → lookupKey f.tag names atys = some f.t ∧ toCtyG norm true f.v f.t = .ok f.w) →
    toCtyF norm (sub.map (·.tag)) (sub.map (·.v)) names atys = (tg sub).map (fun f => Res.ok f.w)
  | [], _ => by simp [toCtyF, tg]
  | f :: sub, h => by
    have ih := toCtyF_flds norm names atys sub (fun g hg => h g (List.mem_cons_of_mem _ hg))
    unfold tg at ih ⊢
    simp only [List.map_cons, toCtyF, List.filter_cons]
    by_cases hf : f.tag = ""
    · simp only [hf, if_true, bne_self_eq_false, Bool.false_eq_true, if_false]
      exact ih
    · have := h f (by simp) hf
      simp only [hf, if_false, this.1, this.2, bne_iff_ne, ne_eq, not_false_eq_true, if_true, List.map_cons,
        List.cons.injEq, true_and]
      exact ih

theorem attrResults_flds (fs : List Fld) (φ : String → Ty) : ∀ (ns : List String),
    (∀ k ∈ ns, k ∈ fs.map (·.tag)) →
    attrResults ns (ns.map φ) (fs.map (·.tag)) (fs.map (fun f => Res.ok f.w)) =
      ns.map (fun k => Res.ok (((findF k fs).map (·.w)).getD default))
  | [], _ => rfl
  | k :: ns, h => by
    obtain ⟨f, h1, _, _⟩ := findF_of_mem (h k (by simp))
    simp only [List.map_cons, attrResults, lookupKey_map, h1, Option.map_some, Option.getD_some]
    rw [attrResults_flds fs φ ns (fun k hk => h k (List.mem_cons_of_mem _ hk))]

/-! object → struct -/

theorem missingRequired_none (names : List String) : ∀ (tags : List String) (tys : List GoTy),
    (∀ t ∈ tags, t ≠ "" → t ∈ names) → missingRequired names tags tys = false
  | [], _, _ => by simp [missingRequired]
  | _ :: _, [], _ => by simp [missingRequired]
  | t :: tags, T :: tys, h => by
    simp only [missingRequired, Bool.or_eq_false_iff]
    refine ⟨?_, missingRequired_none names tags tys (fun x hx => h x (List.mem_cons_of_mem _ hx))⟩
    by_cases ht : t = ""
    · simp [ht]
    · have : t ∈ names := h t (by simp) ht
      simp [this]

theorem firstFailure_none_of_ok {α β} : ∀ (rs : List (Res α)), (∀ r ∈ rs, ∃ a, r = .ok a) →
    (firstFailure rs : Option (Res β)) = none
  | [], _ => rfl
  | r :: rs, h => by
    obtain ⟨a, rfl⟩ := h r (by simp)
    simp only [firstFailure, failureOf]
    exact firstFailure_none_of_ok rs (fun x hx => h x (List.mem_cons_of_mem _ hx))

/-- every attribute decoded: the loop returns the values, whatever the schedule -/
theorem combSched_map_ok {α} (order names : List String) (xs : List α) :
    combSched order names (xs.map Res.ok) = .ok xs := by
  have hall : ∀ r ∈ xs.map Res.ok, ∃ a, r = Res.ok a := by
    intro r hr; obtain ⟨a, _, rfl⟩ := List.mem_map.mp hr; exact ⟨a, rfl⟩
  unfold combSched
  rw [anyUnmodelled_map_ok]
  simp only [Bool.false_eq_true, if_false]
  rw [firstFailure_none_of_ok _ (fun r hr => hall r (mem_inOrder hr)), firstFailure_none_of_ok _ hall,
    okVals_map_ok]

theorem fromCtyA_flds (S : Sched) (fs : List Fld)
    (hrt : ∀ f ∈ fs, f.tag ≠ "" → fromCtyP S [] f.w.ty f.w.v f.T = .ok f.v) : ∀ (ns : List String),
    (∀ k ∈ ns, k ≠ "" ∧ k ∈ fs.map (·.tag)) →
    fromCtyA S [] ns (tysOf (ns.map fun k => ((findF k fs).map (·.w)).getD default))
      (payloads (ns.map fun k => ((findF k fs).map (·.w)).getD default))
      (fs.map (·.tag)) (fs.map (·.T)) =
      ns.map (fun k => Res.ok (((findF k fs).map (·.v)).getD default))
  | [], _ => by simp [fromCtyA, tysOf, payloads]
  | k :: ns, h => by
    obtain ⟨hk, hmem⟩ := h k (by simp)
    obtain ⟨f, h1, h2, h3⟩ := findF_of_mem hmem
    simp only [List.map_cons, tysOf, payloads, fromCtyA, lookupTag, hk, if_false, lookupKey_map, h1,
      Option.map_some, Option.getD_some, hrt f h3 (h2 ▸ hk)]
    rw [fromCtyA_flds S fs hrt ns (fun k hk => h k (List.mem_cons_of_mem _ hk))]

theorem assemble_flds (names : List String) (gs : List GoVal) : ∀ (sub : List Fld),
    (∀ f ∈ sub, (f.tag = "" → f.v = zeroVal f.T) ∧ (f.tag ≠ "" → lookupKey f.tag names gs = some f.v)) →
    assemble names gs (sub.map (·.tag)) (sub.map (·.T)) = sub.map (·.v)
  | [], _ => by simp [assemble]
  | f :: sub, h => by
    have hf := h f (by simp)
    simp only [List.map_cons, assemble, lookupTag]
    rw [assemble_flds names gs sub (fun g hg => h g (List.mem_cons_of_mem _ hg))]
    by_cases ht : f.tag = ""
    · simp only [ht, if_true, hf.1 ht]
    · simp only [ht, if_false, hf.2 ht]

theorem tysOf_map {α} (f : α → Value) : ∀ (xs : List α), tysOf (xs.map f) = xs.map (fun x => (f x).ty)
  | [] => rfl
  | x :: xs => by simp [tysOf, tysOf_map f xs]

theorem payloads_length : ∀ (ws : List Value), (payloads ws).length = ws.length
  | [] => rfl
  | _ :: ws => by simp [payloads, payloads_length ws]

theorem matchesL_map (φ ψ : String → Ty) : ∀ (ns : List String), (∀ k ∈ ns, «matches» (φ k) (ψ k) = true) →
    matchesL (ns.map φ) (ns.map ψ) = true
  | [], _ => rfl
  | n :: ns, h => by
    simp only [List.map_cons, matchesL, h n (by simp), Bool.true_and]
    exact matchesL_map φ ψ ns (fun k hk => h k (List.mem_cons_of_mem _ hk))

/-- The struct case of the round trip, from what is known of each field. -/
theorem struct_rt (norm : String → String) (fs : List Fld) (hne : tg fs ≠ [])
    (hdist : tagsDistinct (fs.map (·.tag)) = true)
    (hzero : ∀ f ∈ fs, f.tag = "" → f.v = zeroVal f.T)
    (hto : ∀ f ∈ fs, f.tag ≠ "" → toCtyG norm true f.v f.t = .ok f.w)
    (hfrom : ∀ f ∈ fs, f.tag ≠ "" → ∀ S, fromCtyP S [] f.w.ty f.w.v f.T = .ok f.v) :
    let tags := fs.map (·.tag)
    let names := sortNames (taggedNames tags)
    let φ : String → Ty := fun k => (lookupKey k (taggedNames tags) ((tg fs).map (·.t))).getD .dyn
    let ov := objectVal names (names.map fun k => ((findF k fs).map (·.w)).getD default)
    toCtyG norm true (.struct tags (fs.map (·.v))) (.object names (names.map φ) (names.map fun _ => false)) = .ok ov ∧
    (∀ S, fromCtyP S [] ov.ty ov.v (.struct tags (fs.map (·.T))) = .ok (.struct tags (fs.map (·.v)))) ∧
    ((∀ f ∈ fs, f.tag ≠ "" → f.w.ty = f.t) → ov.ty = .object names (names.map φ) (names.map fun _ => false)) ∧
    ((∀ f ∈ fs, f.tag ≠ "" → «matches» f.t f.w.ty = true) →
      «matches» (.object names (names.map φ) (names.map fun _ => false)) ov.ty = true) := by
  intro tags names φ ov
  have htn : taggedNames tags = (tg fs).map (·.tag) := taggedNames_flds fs
  have hmem : ∀ k ∈ names, k ≠ "" ∧ k ∈ tags := by
    intro k hk
    have : k ∈ (tg fs).map (·.tag) := htn ▸ mem_sortNames.mp hk
    obtain ⟨f, hf, rfl⟩ := List.mem_map.mp this
    exact ⟨(mem_tg.mp hf).2, List.mem_map_of_mem (mem_tg.mp hf).1⟩
  have hmemT : ∀ k ∈ names, k ∈ (tg fs).map (·.tag) := fun k hk => htn ▸ mem_sortNames.mp hk
  have hmem' : ∀ f ∈ fs, f.tag ≠ "" → f.tag ∈ names := by
    intro f hf hne
    apply mem_sortNames.mpr
    rw [htn]
    exact List.mem_map_of_mem (mem_tg.mpr ⟨hf, hne⟩)
  have hnames : names.isEmpty = false := by
    cases h : tg fs with
    | nil => exact absurd h hne
    | cons f _ =>
      have hf : f ∈ tg fs := by rw [h]; simp
      have := hmem' f (mem_tg.mp hf).1 (mem_tg.mp hf).2
      cases hn : names with
      | nil => rw [hn] at this; simp at this
      | cons _ _ => rfl
  have hφ : ∀ f ∈ fs, f.tag ≠ "" → φ f.tag = f.t := by
    intro f hf hne
    simp only [φ, htn, lookupKey_map, findF_tg hne, findF_self hdist hf hne, Option.map_some, Option.getD_some]
  have hdist' : tagsDistinct tags = true := hdist
  have heff : effTags tags = tags := effTags_of_distinct tags hdist
  have hW : (names.map fun k => Res.ok (((findF k (tg fs)).map (·.w)).getD default)) =
      (names.map fun k => ((findF k fs).map (·.w)).getD default).map Res.ok := by
    rw [List.map_map]
    apply List.map_congr_left
    intro k hk
    simp only [Function.comp, findF_tg (hmem k hk).1]
  refine ⟨?_, ?_, ?_, ?_⟩
  · -- ToCtyValue
    simp only [toCtyG, hnames, Bool.false_eq_true, if_false, heff]
    rw [toCtyF_flds norm names (names.map φ) fs (fun f hf hne => ⟨by
      rw [lookupKey_names φ f.tag names (hmem' f hf hne), hφ f hf hne], hto f hf hne⟩)]
    rw [htn, attrResults_flds (tg fs) φ names hmemT, hW, combAll_map_ok]
  · -- FromCtyValue
    intro S
    simp only [ov, objectVal]
    unfold fromCtyP
    simp only [GoTy.base, GoTy.isCval, Bool.false_eq_true, if_false, bne_self_eq_false, heff,
      GoTy.depth, wrapPtr]
    rw [missingRequired_none names tags _ (fun t ht hne => by
      obtain ⟨f, hf, rfl⟩ := List.mem_map.mp ht
      exact hmem' f hf hne)]
    simp only [Bool.false_eq_true, if_false]
    rw [fromCtyA_flds S.next fs (fun f hf hn => hfrom f hf hn S.next) names hmem]
    rw [show (names.map fun k => Res.ok (((findF k fs).map (·.v)).getD default)) =
      (names.map fun k => ((findF k fs).map (·.v)).getD default).map Res.ok by simp [List.map_map]]
    rw [combSched_map_ok]
    simp only [mapRes]
    rw [assemble_flds names _ fs (fun f hf => ⟨hzero f hf, fun hne => by
      rw [lookupKey_names _ f.tag names (hmem' f hf hne), findF_self hdist hf hne]
      rfl⟩)]
  · intro hty
    simp only [ov, objectVal, tysOf_map]
    congr 1
    apply List.map_congr_left
    intro k hk
    obtain ⟨f, h1, h2, h3⟩ := findF_of_mem (hmem k hk).2
    have hne := (hmem k hk).1
    subst h2
    simp only [h1, Option.map_some, Option.getD_some, hty f h3 hne, hφ f h3 hne]
  · intro hm
    simp only [ov, objectVal, tysOf_map, «matches», beq_self_eq_true, Bool.true_and]
    apply matchesL_map
    intro k hk
    obtain ⟨f, h1, h2, h3⟩ := findF_of_mem (hmem k hk).2
    have hne := (hmem k hk).1
    subst h2
    simp only [h1, Option.map_some, Option.getD_some, hφ f h3 hne, hm f h3 hne]

end Gocty
end CtyModel
