/-
`length` and `hasindex` against a reference in plain vocabulary (the audit: "match
reference semantics for length, hasindex rests entirely on an rfl-unfolding to C02").
-/
import CtyModel.Lemmas.d13Index
import CtyModel.Lemmas.d13Product
namespace CtyModel
namespace Stdlib
open Value

/-- **length**: number of members of a known list, tuple, map, or wholly known set -/
theorem lengthImpl_reference (e : Ty) (ts : List Ty) (vs : List Payload) (ks : List String) (ids : List Int)
    (retTy : Ty) :
    lengthImpl [⟨.list e, .seq vs⟩] retTy = .ok (intVal vs.length) ∧
    lengthImpl [⟨.tuple ts, .seq vs⟩] retTy = .ok (intVal ts.length) ∧
    lengthImpl [⟨.map e, .smap ks vs⟩] retTy = .ok (intVal vs.length) ∧
    (Payload.whollyKnownL vs = true → lengthImpl [⟨.set e, .sset ids vs⟩] retTy = .ok (intVal vs.length)) := by
  refine ⟨length_list_known e vs, ?_, ?_, fun hk => length_set_known e ids vs hk⟩
  · simp [lengthImpl, Value.length, unMarks, Value.isMarked, Payload.isMarked, lengthU]
  · simp [lengthImpl, Value.length, unMarks, Value.isMarked, Payload.isMarked, lengthU, Value.isKnown,
      Payload.isKnown, Payload.unmark1]

/-- **hasindex**, through the whole call protocol: for a list or tuple and ANY known number,
`true` iff the number is a whole position inside the sequence; for a map and a string,
`true` iff the map has the key -/
theorem hasIndex_call_reference (e : Ty) (ts : List Ty) (vs : List Payload) (ks : List String) (x : Num) (k : String)
    (hm : Payload.containsMarkedL vs = false) :
    (Fn.call hasIndexSpec hasIndexType hasIndexImpl [⟨.list e, .seq vs⟩, numVal x]).1 =
      .ok (boolVal (match Spec.natIndex? x with | some i => decide (i < vs.length) | none => false)) ∧
    (Fn.call hasIndexSpec hasIndexType hasIndexImpl [⟨.tuple ts, .seq vs⟩, numVal x]).1 =
      .ok (boolVal (match Spec.natIndex? x with | some i => decide (i < ts.length) | none => false)) ∧
    (Fn.call hasIndexSpec hasIndexType hasIndexImpl [⟨.map e, .smap ks vs⟩, strVal k]).1 =
      .ok (boolVal (ks.contains k)) := by
  obtain ⟨k1, k2, k3, k4, k5, k6, k7⟩ := num_facts x
  refine ⟨?_, ?_, ?_⟩
  · obtain ⟨c1, c2, c3, c4, c5⟩ := seq_facts (.list e) vs hm
    have hld : (Ty.list e).isDyn = false := rfl
    apply hasIndex_call_known _ _ _ c1 k1 c2 k2 c3 k3 c4 k4 rfl k5 rfl
    simp only [hasIndexImpl, Value.hasIndex, binMarks, c5, k6, Bool.or_self, Bool.false_eq_true, if_false, hasIndexU,
      hld, k5, k7, Bool.not_true, k2, c2, keyIndex_num]
    cases Spec.natIndex? x <;> rfl
  · obtain ⟨c1, c2, c3, c4, c5⟩ := seq_facts (.tuple ts) vs hm
    have hld : (Ty.tuple ts).isDyn = false := rfl
    apply hasIndex_call_known _ _ _ c1 k1 c2 k2 c3 k3 c4 k4 rfl k5 rfl
    simp only [hasIndexImpl, Value.hasIndex, binMarks, c5, k6, Bool.or_self, Bool.false_eq_true, if_false, hasIndexU,
      hld, k5, k7, Bool.not_true, k2, keyIndex_num]
    cases Spec.natIndex? x <;> rfl
  · have c3 : (⟨.map e, .smap ks vs⟩ : Value).containsMarked = false := by
      simp [Value.containsMarked, Payload.containsMarked, hm]
    have c4 : (⟨.map e, .smap ks vs⟩ : Value).marksDeep = [] := by
      simp [Value.marksDeep, Payload.marksDeep, Payload.marksDeepL_of_not_containsMarkedL vs hm]
    apply hasIndex_call_known ⟨.map e, .smap ks vs⟩ (strVal k) _ rfl rfl rfl rfl c3 rfl c4 rfl rfl rfl rfl
    simp [hasIndexImpl, Value.hasIndex, binMarks, Value.isMarked, Payload.isMarked, strVal, hasIndexU, Ty.isDyn,
      Ty.isString, Value.isKnown, Payload.isKnown, Payload.unmark1]

/-! ### the hypotheses of `merge_map` / `merge_object` hold of well-formed arguments -/

/-- a known, unmarked map or object value can be iterated -/
theorem iterable_map_object (E : Env) (e : Ty) (ns : List String) (ts : List Ty) (os : List Bool)
    (ks : List String) (vs : List Payload) :
    Iterable E ⟨.map e, .smap ks vs⟩ ∧ Iterable E ⟨.object ns ts os, .smap ks vs⟩ :=
  ⟨⟨rfl, ks, _, rfl, rfl⟩, ⟨rfl, ns, _, rfl, rfl⟩⟩

/-- the bindings of arguments that all have the map type `map(e)` all have type `e`
(the homogeneity hypothesis of `merge_map`) -/
theorem allBindings_map_ty (E : Env) (e : Ty) (args : List Value) (hty : ∀ a ∈ args, a.ty = .map e) :
    ∀ kv ∈ allBindings E args, kv.2.ty = e := by
  intro kv hkv
  simp only [allBindings, List.mem_flatMap] at hkv
  obtain ⟨a, ha, hmem⟩ := hkv
  obtain ⟨t, p⟩ := a
  have ht : t = .map e := hty _ ha
  subst ht
  split at hmem
  · simp at hmem
  · simp only [bindings] at hmem
    cases p <;> simp only [elemKeys, elems] at hmem <;> try (simp at hmem; done)
    rename_i ks vs
    have := (List.of_mem_zip hmem).2
    obtain ⟨q, _, hq⟩ := List.mem_map.mp this
    rw [← hq]

/-- `keys` / `values` of a value that is neither a map nor an object are refused; the set
algebra refuses sets whose element types do not unify -/
theorem keys_values_setop_outside (E : Env) (m : Value) (args : List Value) (etys : List Ty) :
    (isMapTy m.ty = false → isObjectTy m.ty = false → Fails (keysType [m]) ∧ Fails (valuesType [m])) ∧
    (setOpElemTypes args = .ok (some etys) → etys ≠ [] → E.unify etys = .ok none → Fails (setOpType E args)) := by
  refine ⟨?_, ?_⟩
  · obtain ⟨t, p⟩ := m
    intro h1 h2
    cases t <;> simp_all [keysType, valuesType, isMapTy, isObjectTy, Fails]
  · intro h1 h2 h3
    refine ⟨"given sets must all have compatible element types", ?_⟩
    cases etys with
    | nil => exact absurd rfl h2
    | cons t ts => simp only [setOpType, h1, h3]

end Stdlib
end CtyModel
