/-
C06 lemmas, part 3: every constructor returns a well-formed value, given
well-formed members.
-/
import CtyModel.WFCons
import CtyModel.Lemmas.WFOps
set_option linter.unusedSimpArgs false
set_option linter.unusedVariables false
namespace CtyModel
namespace Payload
variable {nfc : String → Bool}

/-- what is well-formed under the placeholder (null, unknown, possibly marked) is well-formed under any type -/
theorem wfP_dyn_any : ∀ (t : Ty) (p : Payload), wfP nfc .dyn p = true → wfP nfc t p = true
  | t, .marked ms r, h => by
    simp only [wfP_marked, Bool.and_eq_true] at h ⊢
    exact ⟨h.1, wfP_dyn_any t r h.2⟩
  | t, .null, _ => by simp
  | t, .unk r, h => by
    simp only [wfP_unk] at h ⊢
    cases r <;> simp [Refine.kindOk] at h
    exact kindOk_unref t
  | _, .b _, h | _, .n _, h | _, .s _, h | _, .seq _, h | _, .smap _ _, h | _, .sset _ _, h | _, .caps, h
  | _, .bad _, h => by simp [wfP] at h
end Payload

namespace Value
variable {nfc : String → Bool}
open Gocty

theorem wf_stringVal (norm : String → String) (hn : ∀ s, nfc (norm s) = true) (s : String) :
    (stringVal norm s).WF nfc = true := by simp [WF, stringVal, Payload.wfP, hn]
theorem wf_listValEmpty {e : Ty} (h : e.ok nfc = true) : (listValEmpty e).WF nfc = true := by
  simp [WF, listValEmpty, Ty.ok_list, h, Payload.wfP, Payload.wfAll]
theorem wf_mapValEmpty {e : Ty} (h : e.ok nfc = true) : (mapValEmpty e).WF nfc = true := by
  simp [WF, mapValEmpty, Ty.ok_map, h, Payload.wfP, Payload.wfAll, Ty.strictAsc]
theorem wf_setValEmpty {e : Ty} (h : e.ok nfc = true) : (setValEmpty e).WF nfc = true := by
  simp [WF, setValEmpty, Ty.ok_set, h, Payload.wfP, Payload.wfAll, idsAsc, noDup, Payload.containsMarkedL]
theorem wf_emptyTupleVal : emptyTupleVal.WF nfc = true := by
  simp [WF, emptyTupleVal, Ty.ok, Ty.wf, Ty.wfL, Ty.hasOpt, Ty.hasOptL, Ty.namesAll, Ty.namesAllL, Payload.wfP, Payload.wfZip]
theorem wf_emptyObjectVal : emptyObjectVal.WF nfc = true := by
  simp [WF, emptyObjectVal, Ty.ok, Ty.wf, Ty.wfL, Ty.hasOpt, Ty.hasOptL, Ty.namesAll, Ty.namesAllL, Ty.strictAsc, Payload.wfP, Payload.wfZip]
theorem wf_capsuleVal (id : Nat) : (capsuleVal id).WF nfc = true := by
  simp [WF, capsuleVal, Payload.wfP, Ty.ok, Ty.wf, Ty.hasOpt, Ty.namesAll]

theorem wf_mark {v : Value} (m : String) (h : v.WF nfc = true) : (v.mark1 m).WF nfc = true := by
  obtain ⟨t, p⟩ := v
  simp only [WF, Bool.and_eq_true] at h
  unfold mark1
  split
  · rename_i ms r hp
    simp only at hp; subst hp
    simp only [Payload.wfP_marked, Bool.and_eq_true] at h
    have hne : (insertMark m ms).isEmpty = false := by
      cases hi : insertMark m ms with
      | nil => exact absurd hi (Payload.insertMark_ne_nil m ms)
      | cons _ _ => rfl
    simp [WF, h.1, h.2.1.2, h.2.2, hne]
  · rename_i p' hnm
    have : p.isMarked = false := by
      cases p <;> simp [Payload.isMarked]
      exact hnm _ _ rfl
    simp [WF, h.1, h.2, this]

theorem ok_of_wf {v : Value} (h : v.WF nfc = true) : v.ty.ok nfc = true := by
  simp only [WF, Bool.and_eq_true] at h; exact h.1

theorem isDynTy_eq {t : Ty} (h : isDynTy t = true) : t = .dyn := by cases t <;> simp_all [isDynTy]

theorem elemTypeOf_spec : ∀ (ws : List Value) (acc et : Ty), elemTypeOf acc ws = .ok et → acc.ok nfc = true →
    (∀ w ∈ ws, w.WF nfc = true) →
    et.ok nfc = true ∧ (isDynTy acc = false → et = acc) ∧ ∀ w ∈ ws, Payload.wfP nfc et w.v = true
  | [], acc, et, h, hacc, _ => by
    simp only [elemTypeOf, Res.ok.injEq] at h; subst h
    exact ⟨hacc, fun _ => rfl, by simp⟩
  | v :: vs, acc, et, h, hacc, hws => by
    have hv := hws v (by simp)
    have hvs : ∀ w ∈ vs, w.WF nfc = true := fun w hw => hws w (by simp [hw])
    have hvP : Payload.wfP nfc v.ty v.v = true := by
      simp only [WF, Bool.and_eq_true] at hv; exact hv.2
    simp only [elemTypeOf] at h
    split at h
    · rename_i hd
      obtain ⟨h1, h2, h3⟩ := elemTypeOf_spec vs v.ty et h (ok_of_wf hv) hvs
      refine ⟨h1, fun hnd => by simp [hd] at hnd, ?_⟩
      intro w hw
      rcases List.mem_cons.mp hw with rfl | hw
      · by_cases hdv : isDynTy w.ty = true
        · rw [isDynTy_eq hdv] at hvP; exact Payload.wfP_dyn_any _ _ hvP
        · rw [h2 (by simpa using hdv)]; exact hvP
      · exact h3 w hw
    · rename_i hd
      split at h
      · cases h
      · rename_i hne
        obtain ⟨h1, h2, h3⟩ := elemTypeOf_spec vs acc et h hacc hvs
        have hea : et = acc := h2 (by simpa using hd)
        refine ⟨h1, h2, ?_⟩
        intro w hw
        rcases List.mem_cons.mp hw with rfl | hw
        · by_cases hdv : isDynTy w.ty = true
          · rw [isDynTy_eq hdv] at hvP; exact Payload.wfP_dyn_any _ _ hvP
          · have heq : Ty.equals acc w.ty = true := by
              simp only [Bool.and_eq_true, Bool.not_eq_true', not_and, Bool.not_eq_false] at hne
              cases he : Ty.equals acc w.ty with
              | true => rfl
              | false => simp [he, hdv] at hne
            have hwok := ok_of_wf hv
            simp only [Ty.ok, Bool.and_eq_true] at hacc hwok
            have := (Ty.equals_iff_eq acc w.ty hacc.1.1 hwok.1.1).mp heq
            rw [hea, this]; exact hvP
        · exact h3 w hw

theorem wfAll_payloads {e : Ty} : ∀ {ws : List Value}, (∀ w ∈ ws, Payload.wfP nfc e w.v = true) →
    Payload.wfAll nfc e (payloads ws) = true
  | [], _ => rfl
  | w :: ws, h => by
    simp only [payloads, Payload.wfAll, Bool.and_eq_true]
    exact ⟨h w (by simp), wfAll_payloads fun x hx => h x (by simp [hx])⟩

theorem payloads_length : ∀ (ws : List Value), (payloads ws).length = ws.length
  | [] => rfl
  | _ :: ws => by simp [payloads, payloads_length ws]
theorem tysOf_length : ∀ (ws : List Value), (tysOf ws).length = ws.length
  | [] => rfl
  | _ :: ws => by simp [tysOf, tysOf_length ws]

theorem wf_listVal {ws : List Value} {r : Value} (h : listVal ws = .ok r) (hws : ∀ w ∈ ws, w.WF nfc = true) :
    r.WF nfc = true := by
  unfold listVal at h
  split at h
  · cases h
  · split at h <;> try cases h
    rename_i et he
    obtain ⟨h1, _, h3⟩ := elemTypeOf_spec ws .dyn et he rfl hws
    simp [WF, Ty.ok_list, h1, Payload.wfP, wfAll_payloads h3]

theorem wf_mapVal {ks : List String} {ws : List Value} {r : Value} (h : mapVal ks ws = .ok r)
    (hws : ∀ w ∈ ws, w.WF nfc = true) (hlen : ks.length = ws.length) (hasc : Ty.strictAsc ks = true)
    (hk : ks.all nfc = true) : r.WF nfc = true := by
  unfold mapVal at h
  split at h
  · cases h
  · split at h <;> try cases h
    rename_i et he
    obtain ⟨h1, _, h3⟩ := elemTypeOf_spec ws .dyn et he rfl hws
    simp [WF, Ty.ok_map, h1, Payload.wfP, wfAll_payloads h3, payloads_length, hlen, hasc]
    simpa using hk

theorem okL_tysOf : ∀ {ws : List Value}, (∀ w ∈ ws, w.WF nfc = true) → Ty.okL nfc (tysOf ws) = true
  | [], _ => rfl
  | w :: ws, h => by
    have h1 := ok_of_wf (h w (by simp))
    have h2 := okL_tysOf (ws := ws) fun x hx => h x (by simp [hx])
    simp only [Ty.ok, Ty.okL, Bool.and_eq_true, Bool.not_eq_true'] at h1 h2 ⊢
    simp [tysOf, Ty.wfL, Ty.hasOptL, Ty.namesAllL, h1, h2]

theorem wfZip_tysOf : ∀ {ws : List Value}, (∀ w ∈ ws, w.WF nfc = true) →
    Payload.wfZip nfc (tysOf ws) (payloads ws) = true
  | [], _ => rfl
  | w :: ws, h => by
    have h1 := h w (by simp)
    simp only [WF, Bool.and_eq_true] at h1
    simp [tysOf, payloads, Payload.wfZip, h1.2, wfZip_tysOf (ws := ws) fun x hx => h x (by simp [hx])]

theorem wf_tupleVal {ws : List Value} (hws : ∀ w ∈ ws, w.WF nfc = true) : (tupleVal ws).WF nfc = true := by
  simp [WF, tupleVal, Ty.ok_tuple, okL_tysOf hws, Payload.wfP, wfZip_tysOf hws, tysOf_length, payloads_length]

theorem wf_objectVal {names : List String} {ws : List Value} (hws : ∀ w ∈ ws, w.WF nfc = true)
    (hlen : names.length = ws.length) (hasc : Ty.strictAsc names = true) (hk : names.all nfc = true) :
    (objectVal names ws).WF nfc = true := by
  have h1 := okL_tysOf hws
  simp only [Ty.okL, Bool.and_eq_true, Bool.not_eq_true'] at h1
  have hany : (names.map fun _ => false).any id = false := by
    induction names <;> simp_all
  simp only [WF, objectVal, Ty.ok, Ty.wf, Ty.hasOpt, Ty.namesAll, Payload.wfP, Bool.and_eq_true,
    Bool.not_eq_true', Bool.or_eq_false_iff, beq_iff_eq]
  simp [h1, hany, hasc, hk, tysOf_length, payloads_length, hlen, wfZip_tysOf hws]
end Value
end CtyModel
