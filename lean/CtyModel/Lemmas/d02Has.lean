/-
C02, HasElement against a linear scan of the members with Equals: they agree when
every member that Equals the needle sits in the needle's hash bucket
(`HashCoherent`); the recorded counterexample (two non-integer numbers with the
same shortest decimal text but different 10-digit texts) with the bucket ids the
implementation computes.
-/
import CtyModel.Lemmas.d02Coll
namespace CtyModel
namespace D02
open Num Value

/-- every member that Equals the needle `x` sits in the bucket `h` the needle hashes to -/
def HashCoherent (e : Ty) (h : Int) (x : Payload) (ids : List Int) (vs : List Payload) : Prop :=
  ∀ q ∈ ids.zip vs, rawB e x q.2 = true → h = q.1

/-- under hash coherence HasElement is the linear scan of the members using Equals -/
theorem hasElement_scan (e : Ty) (hw : e.wf = true) (hp : e.plain = true) (ids : List Int) (vs : List Payload)
    (hg : ∀ p ∈ vs, Good e p) (x : Payload) (hx : Good e x) (h : Int) (hc : HashCoherent e h x ids vs) :
    Value.hasElement ⟨.set e, .sset ids vs⟩ ⟨e, x⟩ (some h) =
      .ok (boolVal ((ids.zip vs).any fun q => rawB e x q.2)) := by
  rw [hasElement_good e hw hp ids vs hg x hx h]
  congr 2
  rw [Bool.eq_iff_iff]
  simp only [List.any_eq_true, Bool.and_eq_true, beq_iff_eq]
  constructor
  · rintro ⟨q, hq, _, h2⟩; exact ⟨q, hq, h2⟩
  · rintro ⟨q, hq, h2⟩; exact ⟨q, hq, hc q hq h2, h2⟩

/-- the recorded witness: 3.9477794105 at float64 precision is a member (bucket
1243578146), the same decimal parsed at 512 bits Equals it but hashes to bucket
1459007788, and HasElement answers False -/
theorem hasElement_hash_counterexample :
    Value.equals ⟨.number, .n (.fin false 4444804470517179 (-50) 53)⟩
      ⟨.number, .n (.fin false 6616383510720751409574419276066167347849274831266510936186703153532054316082981444465370061514054905547072918229708187613238190649929064032578605931325323 (-509) 512)⟩
      = .ok (boolVal true) ∧
    Value.hasElement ⟨.set .number, .sset [1243578146] [.n (.fin false 4444804470517179 (-50) 53)]⟩
      ⟨.number, .n (.fin false 6616383510720751409574419276066167347849274831266510936186703153532054316082981444465370061514054905547072918229708187613238190649929064032578605931325323 (-509) 512)⟩
      (some 1459007788) = .ok (boolVal false) := by
  constructor
  · decide +kernel
  · decide +kernel

end D02
end CtyModel
