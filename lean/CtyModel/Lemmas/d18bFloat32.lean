/-
Slice d18b — when does Go's `float32(f)` overflow?  The float32 analogue of `Lemmas/GoctyFloat.lean` (the proofs are
the same with the float32 constants): `toF32 x` (= `Num.f64to32` on any number) is infinite exactly from `2^128 − 2^103` on —
the midpoint between the largest float32 and 2^128, the tie going up.  With it the float32 clause of C18 gets a closed form
in terms of the float64 INTERMEDIATE `x.Float64()` that the code narrows (`d18bFloat32` in Props/C18.lean).
-/
import CtyModel.Lemmas.GoctyFloat
namespace CtyModel
namespace Num
open NumCmp

/-- rounding a mantissa of `24 + k` bits (`k ≥ 1`) to 24 bits: the exponent rises by `k`, and the
result needs 25 bits (a carry out of the top) exactly from `(2^25 − 1)·2^(k−1)` on — the midpoint
between the largest 24-bit mantissa and `2^24`, the tie going up because `2^24 − 1` is odd -/
theorem roundME24_carry (m : Nat) (e : Int) (k : Nat) (hk : 0 < k) (hbl : bitlen m = 24 + k) :
    (roundME m e 24).2 = e + k ∧
    (bitlen (roundME m e 24).1 = 25 ∨ bitlen (roundME m e 24).1 = 24) ∧
    (bitlen (roundME m e 24).1 = 25 ↔ (2 ^ 25 - 1) * 2 ^ (k - 1) ≤ m) := by
  have hm0 : m ≠ 0 := by intro h; subst h; simp [bitlen] at hbl; omega
  have hlo := two_pow_bitlen_le hm0
  have hhi := lt_two_pow_bitlen m
  rw [hbl] at hlo hhi
  have hk' : 24 + k - 1 = 23 + k := by omega
  rw [hk'] at hlo
  unfold roundME
  have hnb : ¬ (24 + k ≤ 24) := by omega
  simp only [show (24:Nat) ≠ 0 by decide, if_false, hbl, hnb, Nat.add_sub_cancel_left]
  rw [Nat.shiftRight_eq_div_pow]
  have hdm := Nat.div_add_mod m (2 ^ k)
  have hlt := Nat.mod_lt m (Nat.two_pow_pos k)
  have hhalf : 2 ^ k = 2 * 2 ^ (k - 1) := by
    rw [← Nat.pow_succ']; congr 1; omega
  have hq1 : 2 ^ 23 ≤ m / 2 ^ k := by
    rw [Nat.le_div_iff_mul_le (Nat.two_pow_pos k), ← Nat.pow_add]; exact hlo
  have hq2 : m / 2 ^ k < 2 ^ 24 := by
    rw [Nat.div_lt_iff_lt_mul (Nat.two_pow_pos k), ← Nat.pow_add]; exact hhi
  generalize m / 2 ^ k = q at *
  generalize m % 2 ^ k = r at *
  generalize hH : 2 ^ (k - 1) = H at *
  rw [hhalf] at hdm hlt
  refine ⟨trivial, ?_, ?_⟩
  · split
    · by_cases hq : q + 1 = 2 ^ 24
      · left; rw [hq]; decide
      · right
        have h1 : bitlen (q + 1) ≤ 24 := (bitlen_le_iff _ _).mpr (by omega)
        have h2 : ¬ bitlen (q + 1) ≤ 23 := by rw [bitlen_le_iff]; omega
        omega
    · right
      have h1 : bitlen q ≤ 24 := (bitlen_le_iff _ _).mpr hq2
      have h2 : ¬ bitlen q ≤ 23 := by rw [bitlen_le_iff]; omega
      omega
  · have hthr : (2 ^ 25 - 1) * H = (2 ^ 24 - 1) * (2 * H) + H := by
      have : (2:Nat) ^ 25 - 1 = 2 * (2 ^ 24 - 1) + 1 := by decide
      rw [this, Nat.add_mul, Nat.one_mul, Nat.mul_assoc, Nat.mul_left_comm (2 ^ 24 - 1) 2 H]
    rw [hthr, ← hdm]
    by_cases hq : q = 2 ^ 24 - 1
    · subst hq
      have hodd : (2 ^ 24 - 1) % 2 = 1 := by decide
      rw [Nat.mul_comm (2 * H)]
      split
      · rename_i hup
        have : r ≥ H := by
          rcases hup with h1 | h1
          · exact Nat.le_of_lt h1
          · exact Nat.le_of_eq h1.1.symm
        constructor
        · intro _; omega
        · intro _; decide
      · rename_i hdown
        have : r < H := by
          rcases Nat.lt_or_ge r H with h | h
          · exact h
          · exfalso; apply hdown
            rcases Nat.lt_or_eq_of_le h with h | h
            · exact Or.inl h
            · exact Or.inr ⟨h.symm, hodd⟩
        constructor
        · intro hb
          have : bitlen (2 ^ 24 - 1) = 24 := by decide
          omega
        · intro _; omega
    · have hq3 : q + 1 ≤ 2 ^ 24 - 1 := by omega
      have hmul : 2 * H * (q + 1) ≤ 2 * H * (2 ^ 24 - 1) := Nat.mul_le_mul_left _ hq3
      have hb : ∀ x, x ≤ q + 1 → bitlen x ≠ 25 := by
        intro x hx hb
        have : bitlen x ≤ 24 := (bitlen_le_iff _ _).mpr (by omega)
        omega
      constructor
      · intro h; exfalso
        split at h
        · exact hb _ (Nat.le_refl _) h
        · exact hb _ (by omega) h
      · intro h; exfalso
        rw [Nat.mul_add, Nat.mul_one, Nat.mul_comm (2 * H) (2 ^ 24 - 1)] at hmul
        omega


open Gocty in
/-- Go's `float32(f)` / `Float32()` of a finite number overflows exactly when the number's top bit is above 2^127, or
at 2^127 with more than 24 significant bits that reach the midpoint between the largest float32 and
2^128: in mantissa/exponent form, `|x| ≥ 2^128 − 2^103` -/
theorem toF32_isInf_iff (n : Bool) (m : Nat) (e : Int) (p0 : Nat) (hx : normalNum (.fin n m e p0) = true)
    (hm : m ≠ 0) :
    (toF32 (.fin n m e p0)).1.isInf = true ↔
      (129 ≤ e + (bitlen m : Int) ∨
       (e + (bitlen m : Int) = 128 ∧ 25 ≤ bitlen m ∧ (2 ^ 25 - 1) * 2 ^ (bitlen m - 25) ≤ m)) := by
  have hn := norm_of_normal hx
  unfold toF32
  rw [toIEEE_fin 23 (-126) 127 n m e p0 m e hn hm]
  have hblpos := bitlen_pos hm
  by_cases hsub : e + (bitlen m : Int) - 1 < -126
  · -- below the normal range: never an overflow
    have hP : ieeeP 23 (-126) m e = 150 + (e + (bitlen m : Int) - 1) := by
      unfold ieeeP; rw [if_pos hsub]; omega
    have hrhs : ¬ (129 ≤ e + (bitlen m : Int) ∨
        (e + (bitlen m : Int) = 128 ∧ 25 ≤ bitlen m ∧ (2 ^ 25 - 1) * 2 ^ (bitlen m - 25) ≤ m)) := by omega
    simp only [hrhs, iff_false]
    split
    · simp [isInf]
    · split
      · simp [isInf]
      · rename_i h1 h2
        have hPpos : 0 < (ieeeP 23 (-126) m e).toNat := by omega
        have htop := (roundME_top m e (ieeeP 23 (-126) m e).toNat hPpos hm).2
        rw [if_neg (by omega)]
        simp [mk_not_inf]
  · have hP : ieeeP 23 (-126) m e = 24 := by
      unfold ieeeP; rw [if_neg hsub]; rfl
    rw [hP]
    rw [if_neg (by omega), if_neg (by omega)]
    have h53 : (24 : Int).toNat = 24 := rfl
    rw [h53]
    have htop := roundME_top m e 24 (by decide) hm
    by_cases hbig : 129 ≤ e + (bitlen m : Int)
    · rw [if_pos (by omega)]
      simp [isInf, hbig]
    · by_cases hsmall : e + (bitlen m : Int) ≤ 127
      · rw [if_neg (by omega)]
        have hrhs : ¬ (129 ≤ e + (bitlen m : Int) ∨
            (e + (bitlen m : Int) = 128 ∧ 25 ≤ bitlen m ∧ (2 ^ 25 - 1) * 2 ^ (bitlen m - 25) ≤ m)) := by omega
        simp [mk_not_inf, hrhs]
      · have heq : e + (bitlen m : Int) = 128 := by omega
        by_cases hbl : bitlen m ≤ 24
        · rw [roundME_fits m e 24 (by decide) hbl]
          rw [if_neg (by simp only []; omega)]
          have hrhs : ¬ (129 ≤ e + (bitlen m : Int) ∨
              (e + (bitlen m : Int) = 128 ∧ 25 ≤ bitlen m ∧ (2 ^ 25 - 1) * 2 ^ (bitlen m - 25) ≤ m)) := by omega
          simp [mk_not_inf, hrhs]
        · obtain ⟨k, hk⟩ : ∃ k, bitlen m = 24 + k := ⟨bitlen m - 24, by omega⟩
          have hk0 : 0 < k := by omega
          obtain ⟨c1, c2, c3⟩ := roundME24_carry m e k hk0 hk
          have hkk : bitlen m - 25 = k - 1 := by omega
          rw [hkk]
          by_cases hcarry : (2 ^ 25 - 1) * 2 ^ (k - 1) ≤ m
          · have hb := c3.mpr hcarry
            rw [if_pos (by rw [c1, hb]; push_cast; omega)]
            simp only [isInf, true_iff]
            right; exact ⟨heq, by omega, hcarry⟩
          · have hb : bitlen (roundME m e 24).1 = 24 := by
              rcases c2 with h | h
              · exact absurd (c3.mp h) hcarry
              · exact h
            rw [if_neg (by rw [c1, hb]; push_cast; omega)]
            simp only [mk_not_inf, Bool.false_eq_true, false_iff]
            omega

theorem thr_nat32 (m a b bl : Nat) (hlo : 2 ^ (bl - 1) ≤ m) (hhi : m < 2 ^ bl) (hbl : 0 < bl)
    (hab : a = 0 ∨ b = 0) :
    (2 ^ 25 - 1) * 2 ^ b ≤ m * 2 ^ a ↔
      (26 + b ≤ bl + a ∨ (bl + a = 25 + b ∧ 25 ≤ bl ∧ (2 ^ 25 - 1) * 2 ^ (bl - 25) ≤ m)) := by
  have hM1 : (2:Nat) ^ 25 - 1 < 2 ^ 25 := by decide
  have hM2 : (2:Nat) ^ 24 ≤ 2 ^ 25 - 1 := by decide
  have hpa := Nat.two_pow_pos a
  have hpb := Nat.two_pow_pos b
  by_cases h1 : 26 + b ≤ bl + a
  · simp only [h1, true_or, iff_true]
    have : 2 ^ (25 + b) ≤ 2 ^ (bl - 1 + a) := Nat.pow_le_pow_right (by decide) (by omega)
    rw [Nat.pow_add, Nat.pow_add] at this
    have h2 : 2 ^ (bl - 1) * 2 ^ a ≤ m * 2 ^ a := Nat.mul_le_mul_right _ hlo
    have h3 : (2 ^ 25 - 1) * 2 ^ b ≤ 2 ^ 25 * 2 ^ b := Nat.mul_le_mul_right _ (Nat.le_of_lt hM1)
    omega
  · by_cases h2 : bl + a ≤ 24 + b
    · have hr : ¬ (26 + b ≤ bl + a ∨ (bl + a = 25 + b ∧ 25 ≤ bl ∧ (2 ^ 25 - 1) * 2 ^ (bl - 25) ≤ m)) := by omega
      simp only [hr, iff_false]
      have : 2 ^ (bl + a) ≤ 2 ^ (24 + b) := Nat.pow_le_pow_right (by decide) h2
      rw [Nat.pow_add, Nat.pow_add] at this
      have h3 : m * 2 ^ a < 2 ^ bl * 2 ^ a := Nat.mul_lt_mul_of_pos_right hhi hpa
      have h4 : 2 ^ 24 * 2 ^ b ≤ (2 ^ 25 - 1) * 2 ^ b := Nat.mul_le_mul_right _ hM2
      omega
    · have heq : bl + a = 25 + b := by omega
      by_cases hbl53 : bl ≤ 24
      · have hb0 : b = 0 := by rcases hab with h | h <;> omega
        subst hb0
        have hr : ¬ (26 + 0 ≤ bl + a ∨ (bl + a = 25 + 0 ∧ 25 ≤ bl ∧ (2 ^ 25 - 1) * 2 ^ (bl - 25) ≤ m)) := by omega
        simp only [hr, iff_false, Nat.pow_zero, Nat.mul_one]
        have h3 : (m + 1) * 2 ^ a ≤ 2 ^ bl * 2 ^ a := Nat.mul_le_mul_right _ hhi
        rw [← Nat.pow_add, heq, Nat.add_mul, Nat.one_mul] at h3
        have : 2 ≤ 2 ^ a := by
          have : 2 ^ 1 ≤ 2 ^ a := Nat.pow_le_pow_right (by decide) (by omega)
          simpa using this
        have h54 : (2:Nat) ^ (25 + 0) = 2 ^ 25 := rfl
        omega
      · have ha0 : a = 0 := by rcases hab with h | h <;> omega
        subst ha0
        have hb : b = bl - 25 := by omega
        subst hb
        simp only [Nat.pow_zero, Nat.mul_one]
        constructor
        · intro h; right; exact ⟨by omega, by omega, h⟩
        · rintro (h | ⟨_, _, h⟩)
          · omega
          · exact h


/-- `|x| ≥ 2^128 − 2^103` (exact comparison `cmp`) in mantissa/exponent form -/
theorem cmp_thr32_iff (m : Nat) (e : Int) (p q : Nat) (hm : m ≠ 0) :
    0 ≤ cmp (.fin false m e p) (.fin false (2 ^ 25 - 1) 103 q) ↔
      (129 ≤ e + (bitlen m : Int) ∨
       (e + (bitlen m : Int) = 128 ∧ 25 ≤ bitlen m ∧ (2 ^ 25 - 1) * 2 ^ (bitlen m - 25) ≤ m)) := by
  rw [cmp_fin]
  unfold icmp scaleTo sgnm
  simp only [Bool.false_eq_true, if_false]
  generalize ha : (e - min e 103).toNat = a
  generalize hb : ((103:Int) - min e 103).toNat = b
  have hab : a = 0 ∨ b = 0 := by omega
  have he : e = 103 + (a : Int) - (b : Int) := by omega
  have hlo := two_pow_bitlen_le hm
  have hhi := lt_two_pow_bitlen m
  have hbl := bitlen_pos hm
  have key := thr_nat32 m a b (bitlen m) hlo hhi hbl hab
  generalize (2 ^ 25 - 1 : Nat) = M at key ⊢
  have hA : ((m:Int) * 2 ^ a) = ((m * 2 ^ a : Nat) : Int) := by push_cast; rfl
  have hB : ((M : Int) * 2 ^ b) = ((M * 2 ^ b : Nat) : Int) := by push_cast; rfl
  rw [hA, hB]
  have hge : (0 : Int) ≤ (if ((m * 2 ^ a : Nat) : Int) < ((M * 2 ^ b : Nat) : Int) then -1
      else if ((m * 2 ^ a : Nat) : Int) = ((M * 2 ^ b : Nat) : Int) then 0 else 1) ↔
      M * 2 ^ b ≤ m * 2 ^ a := by
    generalize m * 2 ^ a = X
    generalize M * 2 ^ b = Y
    split
    · constructor <;> intro _ <;> omega
    · split <;> (constructor <;> intro _ <;> omega)
  rw [hge, key]
  constructor
  · rintro (h | ⟨h1, h2, h3⟩)
    · left; omega
    · right; exact ⟨by omega, h2, h3⟩
  · rintro (h | ⟨h1, h2, h3⟩)
    · left; omega
    · right; exact ⟨by omega, h2, h3⟩


end Num

namespace Gocty
open Num

/-- 2^128 − 2^103: the midpoint between the largest float32 and 2^128 -/
def thr32 : Num := .fin false (2 ^ 25 - 1) 103 64

/-- what `Float64()` / `Float32()` return is in the model's normal form -/
theorem normal_toIEEE (mb : Nat) (emin emax : Int) (x : Num) : normalNum (toIEEE mb emin emax x).1 = true := by
  cases x with
  | inf n => rfl
  | fin n m0 e0 p0 =>
    obtain ⟨m, e, hn⟩ : ∃ m e, Num.norm m0 e0 = (m, e) := ⟨_, _, rfl⟩
    by_cases hm : m = 0
    · subst hm
      simp [Num.toIEEE, hn, normalNum]
    · rw [Num.toIEEE_fin mb emin emax n m0 e0 p0 m e hn hm]
      split
      · rfl
      · split
        · rfl
        · split
          · rfl
          · exact normal_mk _ _ _ _

/-- a finite number is refused by a float target exactly when the value that would be stored is an infinity -/
theorem float_refused_iff_inf (x : Num) (is32 : Bool) (hfin : x.isInf = false) :
    (∃ c, fromNum x (.float is32) = .err c) ↔ (if is32 then Num.f64to32 x.toF64.1 else x.toF64.1).isInf = true := by
  rw [fromNum_float]
  constructor
  · rintro ⟨c, hc⟩
    cases hi : (if is32 then Num.f64to32 x.toF64.1 else x.toF64.1).isInf with
    | true => rfl
    | false =>
      exfalso
      have := (fromNumFloat_ok_iff x is32 _).mpr ⟨rfl, Or.inr hi⟩
      rw [this] at hc; cases hc
  · intro hi
    cases hf : fromNumFloat x is32 with
    | ok f =>
      obtain ⟨rfl, h2⟩ := (fromNumFloat_ok_iff _ is32 f).mp hf
      rcases h2 with h2 | h2
      · rw [hfin] at h2; cases h2
      · rw [hi] at h2; cases h2
    | err c => exact ⟨c, rfl⟩
    | panic w => have := fromNumFloat_isPanic x is32; rw [hf] at this; cases this
    | unmodelled =>
      exfalso
      unfold fromNumFloat at hf
      simp only [] at hf
      split at hf
      · cases hf
      · split at hf <;> cases hf

/-- Go's `float32(y)` is infinite exactly when `y` is, or `|y| ≥ 2^128 − 2^103` -/
theorem f64to32_isInf_iff (y : Num) (hy : normalNum y = true) :
    (Num.f64to32 y).isInf = true ↔ (y.isInf = true ∨ 0 ≤ Num.cmp (Num.abs y) thr32) := by
  cases y with
  | inf n => simp [Num.f64to32, Num.toF32, Num.toIEEE, Num.isInf]
  | fin n m e p =>
    have hfi : (Num.fin n m e p).isInf = false := rfl
    rw [hfi]
    simp only [Bool.false_eq_true, false_or]
    unfold Num.f64to32
    by_cases hm : m = 0
    · subst hm
      have he : e = 0 := by simpa [normalNum] using hy
      subst he
      have h1 : (Num.toF32 (.fin n 0 0 p)).1.isInf = false := by
        simp [Num.toF32, Num.toIEEE, Num.norm_zero, Num.isInf]
      have h2 : Num.cmp (Num.abs (.fin n 0 0 p)) thr32 = -1 := by
        simp only [Num.abs, thr32, NumCmp.cmp_fin, NumCmp.icmp, NumCmp.sgnm, Num.scaleTo, Bool.false_eq_true, if_false]
        have hpos : (0:Int) < ((2 ^ 25 - 1 : Nat) : Int) * 2 ^ ((103:Int) - min 0 103).toNat :=
          Int.mul_pos (by decide) (NumCmp.two_pow_pos _)
        generalize ((2 ^ 25 - 1 : Nat) : Int) * 2 ^ ((103:Int) - min 0 103).toNat = Y at hpos
        simp only [Int.natCast_zero, Int.zero_mul, hpos, if_true]
      rw [h1, h2]; simp
    · rw [Num.toF32_isInf_iff n m e p hy hm]
      exact (Num.cmp_thr32_iff m e p 64 hm).symm

/-- `toIEEE` reads a number through its normal form only -/
theorem toIEEE_congr (mb : Nat) (emin emax : Int) (n : Bool) (m0 m1 : Nat) (e0 e1 : Int) (p0 p1 : Nat)
    (h : Num.norm m0 e0 = Num.norm m1 e1) :
    Num.toIEEE mb emin emax (.fin n m0 e0 p0) = Num.toIEEE mb emin emax (.fin n m1 e1 p1) := by
  unfold Num.toIEEE
  simp only [h]

/-- narrowing the float64 of a number that IS a float64 (`Float64()` exact) is rounding the number itself to float32 -/
theorem f64to32_of_exact (x : Num) (h : x.toF64.2 = true) : Num.f64to32 x.toF64.1 = (Num.toF32 x).1 := by
  cases x with
  | inf n => rfl
  | fin n m0 e0 p0 =>
    obtain ⟨m, e, hn⟩ : ∃ m e, Num.norm m0 e0 = (m, e) := ⟨_, _, rfl⟩
    by_cases hm : m = 0
    · subst hm
      simp [Num.toF64, Num.f64to32, Num.toF32, Num.toIEEE, hn, Num.norm_zero]
    · unfold Num.toF64 at h ⊢
      obtain ⟨h1, _⟩ := Num.toIEEE_exact 52 (-1022) 1023 n m0 e0 p0 m e hn hm h
      rw [h1]
      unfold Num.f64to32 Num.toF32 Num.mk
      have hnn : Num.norm (Num.norm m e).1 (Num.norm m e).2 = Num.norm m0 e0 := by
        have := norm_of_normal (normal_mk n m e Num.fprec)
        unfold Num.mk at this
        rw [this]
        have h2 := norm_of_normal (normal_mk n m0 e0 Num.fprec)
        unfold Num.mk at h2
        rw [hn] at h2 ⊢
        have h3 : Num.norm m e = (m, e) := by simpa using h2
        rw [h3]
      rw [toIEEE_congr 23 (-126) 127 n _ m0 _ e0 Num.fprec p0 hnn]

end Gocty
end CtyModel
