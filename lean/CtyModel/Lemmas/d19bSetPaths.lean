/-
d19b — paths THROUGH sets.

`Walk` reports, for a member of a set, the path of the set extended by an index
step whose key is the member itself.  `IndexStep.Apply` accepts a number key on a
list / tuple and a string key on a map and nothing else, so such a path does not
apply: `Path.Apply` answers with an ERROR at the set — whatever the member is
(a number, a string, a tuple …) — it does not panic and it does not return some
other member.  This is the other half of `walk_paths_lead_back`: together they
say for EVERY visit what `Path.Apply` does with the reported path.
-/
import CtyModel.Lemmas.d19bSet
namespace CtyModel
namespace Walk
open Value

/-- an index step applied to a set value is an error, whatever the key -/
theorem index_apply_set (k a : Value) (e : Ty) (h : a.ty = .set e) :
    ∃ c, (PathStep.index k).apply a = .err c := by
  simp only [PathStep.apply, h, PathStep.isListOrTuple, PathStep.isMap]
  by_cases hn : a.isNull = true
  · simp [hn]
  · simp only [hn, Bool.false_eq_true, if_false]
    cases k.ty <;> simp

theorem notSet_false {t : Ty} (h : notSet t = false) : ∃ e, t = .set e := by
  cases t <;> simp [notSet] at h
  exact ⟨_, rfl⟩

/-- **a reported path that passes through a set does not apply**: `Path.Apply`
returns an error (at the first set on the way) -/
theorem apply_pathAt_through_set {X : SetOracle} (hX : IterPerm X) : ∀ (r : Pos) (w a n : Value)
    (M : List String) (p : Path), Extra w a M → shapedV w = true → nodeAt X w r = some n →
    pathAt X w r = some p → noSetAt X w r = false → ∃ c, Path.apply p a = .err c
  | [], _, _, _, _, _, _, _, _, _, hns => by simp [noSetAt] at hns
  | j :: r, w, a, n, M, p, hE, hs, hn, hp, hns => by
    simp only [nodeAt, pathAt, noSetAt] at hn hp hns
    cases hj : (kids X w)[j]? with
    | none => simp [hj] at hn
    | some sc =>
      simp only [hj] at hn hp hns
      cases hp' : pathAt X sc.2 r with
      | none => simp [hp'] at hp
      | some p' =>
        simp only [hp', Option.map_some, Option.some.injEq] at hp
        subst hp
        by_cases hset : notSet w.ty = true
        · simp only [hset, Bool.true_and] at hns
          obtain ⟨a1, h1, hE1⟩ := step_apply w a M hE hs hset j sc hj
          obtain ⟨c, hc⟩ := apply_pathAt_through_set hX r sc.2 a1 n _ p' (hE.step hE1)
            (kids_shaped hX w hs sc (List.mem_of_getElem? hj)) hn hp' hns
          exact ⟨c, by simp [Path.apply, h1, hc]⟩
        · obtain ⟨e, he⟩ := notSet_false (by simpa using hset)
          have hfst := kids_set_fst_eq (X := X) he sc (List.mem_of_getElem? hj)
          obtain ⟨c, hc⟩ := index_apply_set sc.2 a e (by rw [hE.ty, he])
          exact ⟨c, by rw [hfst]; simp [Path.apply, hc]⟩

end Walk
end CtyModel
