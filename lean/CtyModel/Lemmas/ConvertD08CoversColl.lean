/-
Unknown soundness with `Covers` for LIST and MAP targets (audit C08 item 5: "says nothing when the
result is known … exact length 0"): the result of converting an unknown collection / tuple /
object — an unknown carrying a length refinement, or the known collection of unknown members
(the empty collection included) that an exactly-known length collapses to — admits the result of
converting every wholly-known value the unknown admits.
-/
import CtyModel.Lemmas.ConvertD08Covers
import CtyModel.Lemmas.ConvertD08Len
import CtyModel.Lemmas.ConvertD08LenSet
set_option linter.unusedSimpArgs false
namespace CtyModel
namespace Convert
open Ty Refine

/-! ### known collections of unknown members -/

theorem coversL_replicate_unk : ∀ (xs : List Payload), (∀ x ∈ xs, x.isMarked = false) →
    Cov.coversL false (List.replicate xs.length (.unk .unref)) xs = true
  | [], _ => by simp [Cov.coversL]
  | x :: xs, h => by
    simp only [List.length_cons, List.replicate_succ, Cov.coversL, Cov.coversP, Bool.and_eq_true]
    exact ⟨admits_unref x (h x (by simp)), coversL_replicate_unk xs fun y hy => h y (by simp [hy])⟩

theorem stripMarksL_replicate_unk : ∀ (k : Nat),
    Payload.stripMarksL (List.replicate k (.unk .unref)) = List.replicate k (.unk .unref)
  | 0 => rfl
  | k + 1 => by simp [List.replicate_succ, Payload.stripMarksL, Payload.stripMarks, stripMarksL_replicate_unk k]

/-! ### the builder on an unknown of a collection type -/

theorem init_coll {T : Ty} {rf1 : Rfn} {b : Builder} (hT : isCollectionTy T = true)
    (h : Refine.init ⟨T, .unk rf1⟩ = .ok b) :
    b.orig = ⟨T, .unk rf1⟩ ∧ b.marks = [] ∧ ∃ n lo hi, b.wip = .coll n lo hi ∧ lo = lenLo rf1 ∧
      hi = lenHi rf1 ∧ (rf1.nullness ≠ .t → n ≠ .t) := by
  unfold Refine.init at h
  simp only [Value.unmark, Payload.unmark1, Payload.isMarked, Bool.false_eq_true, if_false] at h
  split at h
  · rename_i hne
    by_cases hk : kindOk T rf1 = true
    · simp only [hk, if_true] at h
      simp at h; subst h
      refine ⟨rfl, rfl, ?_⟩
      cases rf1 <;> cases T <;> simp [kindOk, isCollectionTy] at hk hT hne <;>
        exact ⟨_, _, _, rfl, rfl, rfl, fun h => h⟩
    · simp [hk] at h
  · rename_i he
    have : rf1 = .unref := by simpa using he
    subst this
    simp at h; subst h
    refine ⟨rfl, rfl, ?_⟩
    cases T <;> simp [isCollectionTy] at hT <;>
      exact ⟨.u, 0, maxInt, rfl, rfl, rfl, fun _ => by decide⟩

theorem sameKind_coll {n : Tri} {lo hi : Int} {w : Rfn} (h : sameKind (.coll n lo hi) w = true) :
    ∃ n' lo' hi', w = .coll n' lo' hi' := by
  cases w <;> simp [sameKind] at h
  exact ⟨_, _, _, rfl⟩

theorem withMarks_nil_leaf (p : Payload) (hm : p.isMarked = false) : p.withMarks [] = p := by
  cases p <;> simp [Payload.isMarked] at hm <;> simp [Payload.withMarks, Payload.marks1, unionMarks]

/-- **the refined unknown — or the known collection it collapses to — admits every known collection
whose length lies within the requested bounds** -/
theorem refine_cover {T : Ty} {rf1 : Rfn} {cs : List RefineCall} {r : Value} {xs : List Payload} {c : Payload}
    (hcs : ∀ x ∈ cs, lenCall x = true ∧ x ≠ .notNull)
    (h : Refine.refine ⟨T, .unk rf1⟩ cs = .ok r)
    (hlo1 : lenLo rf1 = 0) (hhi1 : lenHi rf1 = maxInt) (hnt : rf1.nullness ≠ .t)
    (hc : (∃ e, T = .list e ∧ c = .seq xs) ∨ (∃ e ks, T = .map e ∧ c = .smap ks xs ∧ ks.length = xs.length))
    (hmk : ∀ x ∈ xs, x.isMarked = false)
    (hlo : max 0 (loOfAll cs) ≤ (xs.length : Int)) (hhi : (xs.length : Int) ≤ min maxInt (hiOfAll cs)) :
    Cov.coversP false r.v.stripMarks c = true := by
  have hTc : isCollectionTy T = true := by
    rcases hc with ⟨e, rfl, _⟩ | ⟨e, ks, rfl, _⟩ <;> rfl
  unfold Refine.refine at h
  obtain ⟨b, hb, h⟩ := Res.bind_eq_ok h
  obtain ⟨b', hb', h⟩ := Res.bind_eq_ok h
  obtain ⟨horig, hmarks, n0, lo0, hi0, hwip, hlo0, hhi0, hn0⟩ := init_coll hTc hb
  have hkeep : Keeps b b' := Res.all_iff.mp (keeps_run cs b) b' hb'
  have hlen := run_len (fun x hx => (hcs x hx).1) hb'
  have hnull := run_nullness hcs hb'
  obtain ⟨n', lo', hi', hw'⟩ := sameKind_coll (hwip ▸ hkeep.2.2)
  rw [hwip, hw'] at hlen hnull
  simp only [lenLo, lenHi, Rfn.nullness] at hlen hnull
  rw [hlo0, hhi0, hlo1, hhi1] at hlen
  have hn' : n' ≠ .t := by rw [hnull]; exact hn0 hnt
  have horig' : b'.orig = ⟨T, .unk rf1⟩ := hkeep.1.trans horig
  have hmarks' : b'.marks = [] := hkeep.2.1.trans hmarks
  have hb1 : lo' ≤ (xs.length : Int) := by omega
  have hb2 : (xs.length : Int) ≤ hi' := by omega
  -- the unknown result
  have hunk : Cov.coversP false (Payload.unk (.coll n' lo' hi')) c = true := by
    have hpl : Cov.possibleLen c = some ((xs.length : Int), (xs.length : Int)) := by
      rcases hc with ⟨e, _, rfl⟩ | ⟨e, ks, _, rfl, _⟩ <;> rfl
    have hnotnull : Cov.admits (.coll n' lo' hi') c =
        ((Rfn.coll n' lo' hi').nullness != .t && Cov.rfnAdmitsKnown (.coll n' lo' hi') c) := by
      rcases hc with ⟨e, _, rfl⟩ | ⟨e, ks, _, rfl, _⟩ <;> rfl
    simp only [Cov.coversP, hnotnull, Cov.rfnAdmitsKnown, hpl, Rfn.nullness, Bool.and_eq_true, decide_eq_true_eq]
    exact ⟨by cases n' <;> first | rfl | exact absurd rfl hn', hb1, hb2⟩
  have hdyn : b'.isDyn = false := by
    simp only [Builder.isDyn, horig', isDynVal]
    rcases hc with ⟨e, rfl, _⟩ | ⟨e, ks, rfl, _⟩ <;> rfl
  have hkn : b'.orig.isKnown = false := by rw [horig']; rfl
  have hkn2 : (⟨T, .unk rf1⟩ : Value).isKnown = false := rfl
  unfold newValue at h
  simp only [hkn, hdyn, Bool.or_self, Bool.false_eq_true, if_false, hw', horig', hmarks', hkn2] at h
  have hunkval : ((⟨T, .unk (.coll n' lo' hi')⟩ : Value).withMarks []).v.stripMarks = .unk (.coll n' lo' hi') := rfl
  cases n' with
  | t => exact absurd rfl hn'
  | u =>
    simp only [Rfn.nullness] at h
    simp at h; subst h
    rw [hunkval]; exact hunk
  | f =>
    simp only [Rfn.nullness] at h
    cases hcol : collapse T (.coll .f lo' hi') with
    | ok o =>
      rw [hcol] at h
      cases o with
      | none => simp at h; subst h; rw [hunkval]; exact hunk
      | some cv =>
        simp at h; subst h
        unfold collapse at hcol
        split at hcol
        · rename_i heq; simp at heq
        · rename_i nn lo'' hi'' heq
          simp only [Rfn.coll.injEq] at heq
          obtain ⟨_, rfl, rfl⟩ := heq
          split at hcol
          · rename_i hle
            subst hle
            have hxl : (xs.length : Int) = lo' := by omega
            split at hcol
            · rename_i h0
              subst h0
              have hx0 : xs = [] := by
                have : xs.length = 0 := by omega
                exact List.length_eq_zero_iff.mp this
              subst hx0
              rcases hc with ⟨e, rfl, rfl⟩ | ⟨e, ks, rfl, rfl, hkl⟩
              · simp at hcol; subst hcol
                rfl
              · simp at hcol; subst hcol
                have : ks = [] := List.length_eq_zero_iff.mp (by simpa using hkl)
                subst this
                rfl
            · rcases hc with ⟨e, rfl, rfl⟩ | ⟨e, ks, rfl, rfl, hkl⟩
              · simp only at hcol
                split at hcol
                · simp at hcol
                · simp at hcol; subst hcol
                  have hk : lo'.toNat = xs.length := by omega
                  simp only [Value.withMarks, withMarks_nil_leaf _ (rfl : (Payload.seq _).isMarked = false),
                    Payload.stripMarks, stripMarksL_replicate_unk, Cov.coversP, hk]
                  exact coversL_replicate_unk xs hmk
              · simp at hcol
          · simp at hcol
        · rename_i hx
          exact (hx _ _ _ rfl).elim
    | err e => rw [hcol] at h; simp at h
    | panic w => rw [hcol] at h; simp at h
    | unmodelled => rw [hcol] at h; simp at h

/-- the same for a set target: the collapsed results are the empty set and the set of one unknown member -/
theorem refine_cover_set {T : Ty} {rf1 : Rfn} {cs : List RefineCall} {r : Value} {xs : List Payload} {c : Payload}
    (hcs : ∀ x ∈ cs, lenCall x = true ∧ x ≠ .notNull)
    (h : Refine.refine ⟨T, .unk rf1⟩ cs = .ok r)
    (hlo1 : lenLo rf1 = 0) (hhi1 : lenHi rf1 = maxInt) (hnt : rf1.nullness ≠ .t)
    (hc : ∃ e ids, T = .set e ∧ c = .sset ids xs ∧ Payload.whollyKnownL xs = true)
    (hmk : ∀ x ∈ xs, x.isMarked = false)
    (hlo : max 0 (loOfAll cs) ≤ (xs.length : Int)) (hhi : (xs.length : Int) ≤ min maxInt (hiOfAll cs)) :
    Cov.coversP false r.v.stripMarks c = true := by
  have hTc : isCollectionTy T = true := by
    obtain ⟨e, ids, rfl, _⟩ := hc; rfl
  unfold Refine.refine at h
  obtain ⟨b, hb, h⟩ := Res.bind_eq_ok h
  obtain ⟨b', hb', h⟩ := Res.bind_eq_ok h
  obtain ⟨horig, hmarks, n0, lo0, hi0, hwip, hlo0, hhi0, hn0⟩ := init_coll hTc hb
  have hkeep : Keeps b b' := Res.all_iff.mp (keeps_run cs b) b' hb'
  have hlen := run_len (fun x hx => (hcs x hx).1) hb'
  have hnull := run_nullness hcs hb'
  obtain ⟨n', lo', hi', hw'⟩ := sameKind_coll (hwip ▸ hkeep.2.2)
  rw [hwip, hw'] at hlen hnull
  simp only [lenLo, lenHi, Rfn.nullness] at hlen hnull
  rw [hlo0, hhi0, hlo1, hhi1] at hlen
  have hn' : n' ≠ .t := by rw [hnull]; exact hn0 hnt
  have horig' : b'.orig = ⟨T, .unk rf1⟩ := hkeep.1.trans horig
  have hmarks' : b'.marks = [] := hkeep.2.1.trans hmarks
  have hb1 : lo' ≤ (xs.length : Int) := by omega
  have hb2 : (xs.length : Int) ≤ hi' := by omega
  -- the unknown result
  have hunk : Cov.coversP false (Payload.unk (.coll n' lo' hi')) c = true := by
    have hpl : Cov.possibleLen c = some ((xs.length : Int), (xs.length : Int)) := by
      obtain ⟨e, ids, _, rfl, hwkx⟩ := hc
      simp [Cov.possibleLen, hwkx]
    have hnotnull : Cov.admits (.coll n' lo' hi') c =
        ((Rfn.coll n' lo' hi').nullness != .t && Cov.rfnAdmitsKnown (.coll n' lo' hi') c) := by
      obtain ⟨e, ids, _, rfl, _⟩ := hc; rfl
    simp only [Cov.coversP, hnotnull, Cov.rfnAdmitsKnown, hpl, Rfn.nullness, Bool.and_eq_true, decide_eq_true_eq]
    exact ⟨by cases n' <;> first | rfl | exact absurd rfl hn', hb1, hb2⟩
  have hdyn : b'.isDyn = false := by
    simp only [Builder.isDyn, horig', isDynVal]
    obtain ⟨e, ids, rfl, _⟩ := hc; rfl
  have hkn : b'.orig.isKnown = false := by rw [horig']; rfl
  have hkn2 : (⟨T, .unk rf1⟩ : Value).isKnown = false := rfl
  unfold newValue at h
  simp only [hkn, hdyn, Bool.or_self, Bool.false_eq_true, if_false, hw', horig', hmarks', hkn2] at h
  have hunkval : ((⟨T, .unk (.coll n' lo' hi')⟩ : Value).withMarks []).v.stripMarks = .unk (.coll n' lo' hi') := rfl
  cases n' with
  | t => exact absurd rfl hn'
  | u =>
    simp only [Rfn.nullness] at h
    simp at h; subst h
    rw [hunkval]; exact hunk
  | f =>
    simp only [Rfn.nullness] at h
    cases hcol : collapse T (.coll .f lo' hi') with
    | ok o =>
      rw [hcol] at h
      cases o with
      | none => simp at h; subst h; rw [hunkval]; exact hunk
      | some cv =>
        simp at h; subst h
        unfold collapse at hcol
        split at hcol
        · rename_i heq; simp at heq
        · rename_i nn lo'' hi'' heq
          simp only [Rfn.coll.injEq] at heq
          obtain ⟨_, rfl, rfl⟩ := heq
          split at hcol
          · rename_i hle
            subst hle
            have hxl : (xs.length : Int) = lo' := by omega
            obtain ⟨e, ids, rfl, rfl, hwkx⟩ := hc
            split at hcol
            · rename_i h0
              subst h0
              have hx0 : xs = [] := by
                have : xs.length = 0 := by omega
                exact List.length_eq_zero_iff.mp this
              subst hx0
              simp at hcol; subst hcol
              rfl
            · simp only at hcol
              split at hcol
              · rename_i h1
                subst h1
                simp at hcol; subst hcol
                have hx1 : xs.length = 1 := by omega
                obtain ⟨x, rfl⟩ := List.length_eq_one_iff.mp hx1
                have hxm := hmk x (by simp)
                show Cov.coversP false (Payload.sset [unknownBucket] [.unk .unref]) (Payload.sset ids [x]) = true
                have ha : Cov.coversP false (.unk .unref) x = true := by
                  simp only [Cov.coversP]; exact admits_unref x hxm
                simp [Cov.coversP, Cov.coversS, Cov.anySplit, admits_unref x hxm]
              · simp at hcol
          · simp at hcol
        · rename_i hx
          exact (hx _ _ _ rfl).elim
    | err e => rw [hcol] at h; simp at h
    | panic w => rw [hcol] at h; simp at h
    | unmodelled => rw [hcol] at h; simp at h

theorem refine_notNull_coll (T : Ty) (hT : (∃ e, T = .list e) ∨ (∃ e, T = .map e)) :
    Refine.refine (Value.unknown T) [.notNull] = .ok ⟨T, .unk (.coll .f 0 maxInt)⟩ := by
  rcases hT with ⟨e, rfl⟩ | ⟨e, rfl⟩ <;> rfl

/-- `prepareUnknownResult` towards a list / map type: the result admits every known list / map whose
length is the number of attributes / elements of an object / tuple source, or lies within the length
bounds of a collection source -/
theorem prepare_cover {src : ValueRange} {T : Ty} {r : Value} {xs : List Payload} {c : Payload}
    (h : prepareUnknownResult src T = .ok r)
    (hc : (∃ e, T = .list e ∧ c = .seq xs) ∨ (∃ e ks, T = .map e ∧ c = .smap ks xs ∧ ks.length = xs.length))
    (hmk : ∀ x ∈ xs, x.isMarked = false) (hfit : (xs.length : Int) ≤ maxInt)
    (hobj : ∀ ns ts os, src.ty = .object ns ts os → xs.length = ns.length)
    (htup : ∀ ts, src.ty = .tuple ts → xs.length = ts.length)
    (hcoll : isCollectionTy src.ty = true → ∀ lo hi, src.lengthLowerBound = .ok lo →
      src.lengthUpperBound = .ok hi → lo ≤ (xs.length : Int) ∧ (xs.length : Int) ≤ hi) :
    Cov.coversP false r.v.stripMarks c = true := by
  have hT : (∃ e, T = .list e) ∨ (∃ e, T = .map e) := by
    rcases hc with ⟨e, h1, _⟩ | ⟨e, ks, h1, _⟩
    · exact .inl ⟨e, h1⟩
    · exact .inr ⟨e, h1⟩
  have hn0 : (0 : Int) ≤ xs.length := by omega
  have hmx : Refine.maxInt = CtyModel.maxInt := rfl
  unfold prepareUnknownResult at h
  simp only at h
  obtain ⟨ret, hret, h⟩ := Res.bind_eq_ok h
  have hret' : ∃ rf1, ret = ⟨T, .unk rf1⟩ ∧ lenLo rf1 = 0 ∧ lenHi rf1 = maxInt ∧ rf1.nullness ≠ .t ∧
      (rf1 = .unref ∨ rf1 = .coll .f 0 maxInt) := by
    split at hret
    · rw [refine_notNull_coll T hT] at hret
      simp at hret; subst hret
      exact ⟨_, rfl, rfl, rfl, by simp [Rfn.nullness], .inr rfl⟩
    · simp at hret; subst hret
      exact ⟨.unref, rfl, rfl, rfl, by simp [Rfn.nullness], .inl rfl⟩
  obtain ⟨rf1, rfl, hlo1, hhi1, hnt, hrf1⟩ := hret'
  -- the value `ret` itself (no length call)
  have hretc : Cov.coversP false (Payload.unk rf1) c = true := by
    rcases hrf1 with rfl | rfl
    · simp only [Cov.coversP]
      apply admits_unref
      rcases hc with ⟨e, _, rfl⟩ | ⟨e, ks, _, rfl, _⟩ <;> rfl
    · have hpl : Cov.possibleLen c = some ((xs.length : Int), (xs.length : Int)) := by
        rcases hc with ⟨e, _, rfl⟩ | ⟨e, ks, _, rfl, _⟩ <;> rfl
      have hadm : Cov.admits (.coll .f 0 maxInt) c =
          ((Rfn.coll .f 0 maxInt).nullness != .t && Cov.rfnAdmitsKnown (.coll .f 0 maxInt) c) := by
        rcases hc with ⟨e, _, rfl⟩ | ⟨e, ks, _, rfl, _⟩ <;> rfl
      simp only [Cov.coversP, hadm, Cov.rfnAdmitsKnown, hpl, Rfn.nullness, Bool.and_eq_true, decide_eq_true_eq]
      exact ⟨by decide, hn0, hfit⟩
  have fin : ∀ cs : List RefineCall, (∀ x ∈ cs, lenCall x = true ∧ x ≠ .notNull) →
      max 0 (loOfAll cs) ≤ (xs.length : Int) → (xs.length : Int) ≤ min maxInt (hiOfAll cs) →
      Refine.refine ⟨T, .unk rf1⟩ cs = .ok r → Cov.coversP false r.v.stripMarks c = true :=
    fun cs hcs h1 h2 h' => refine_cover hcs h' hlo1 hhi1 hnt hc hmk h1 h2
  cases hst : src.ty with
  | object ns ts os =>
    have hl := hobj ns ts os hst
    rcases hT with ⟨e, rfl⟩ | ⟨e, rfl⟩
    · simp only [hst, isCollectionTy, Bool.false_and, Bool.false_eq_true, if_false] at h
      simp at h; subst h; exact hretc
    · simp only [hst] at h
      refine fin _ (by simp [lenCall]) ?_ ?_ h <;>
        simp only [loOfAll, hiOfAll, loOf, hiOf, hmx] <;> omega
  | tuple ts =>
    have hl := htup ts hst
    rcases hT with ⟨e, rfl⟩ | ⟨e, rfl⟩
    · simp only [hst] at h
      refine fin _ (by simp [lenCall]) ?_ ?_ h <;>
        simp only [loOfAll, hiOfAll, loOf, hiOf, hmx] <;> omega
    · simp only [hst, isCollectionTy, Bool.false_and, Bool.false_eq_true, if_false] at h
      simp at h; subst h; exact hretc
  | list ie | set ie | map ie =>
    have hcl : isCollectionTy src.ty = true := by rw [hst]; rfl
    rcases hT with ⟨e, rfl⟩ | ⟨e, rfl⟩ <;>
    · simp only [hst, isCollectionTy, Bool.and_self, if_true] at h
      obtain ⟨lo, hlo, h⟩ := Res.bind_eq_ok h
      obtain ⟨hi, hhi, h⟩ := Res.bind_eq_ok h
      obtain ⟨b1, b2⟩ := hcoll hcl lo hi hlo hhi
      refine fin _ (by simp [lenCall]) ?_ ?_ h <;>
        simp only [List.cons_append, List.nil_append, loOfAll, hiOfAll, loOf, hiOf, hmx] <;> omega
  | bool | number | string | dyn | capsule _ =>
    rcases hT with ⟨e, rfl⟩ | ⟨e, rfl⟩ <;>
    · simp only [hst, isCollectionTy, Bool.false_and, Bool.false_eq_true, if_false] at h
      simp at h; subst h; exact hretc

/-- `prepareUnknownResult` towards a set type: the result admits every wholly-known set with at most as
many members as the source (`n`), and at least one if the source has any -/
theorem prepare_cover_set {src : ValueRange} {T : Ty} {r : Value} {xs : List Payload} {c : Payload} {n : Nat}
    (h : prepareUnknownResult src T = .ok r)
    (hc : ∃ e ids, T = .set e ∧ c = .sset ids xs ∧ Payload.whollyKnownL xs = true)
    (hmk : ∀ x ∈ xs, x.isMarked = false) (hfit : (n : Int) ≤ CtyModel.maxInt)
    (hle : xs.length ≤ n) (hpos : 0 < n → 1 ≤ xs.length)
    (htup : ∀ ts, src.ty = .tuple ts → n = ts.length)
    (hcoll : isCollectionTy src.ty = true → ∀ lo hi, src.lengthLowerBound = .ok lo →
      src.lengthUpperBound = .ok hi → lo ≤ (n : Int) ∧ (n : Int) ≤ hi) :
    Cov.coversP false r.v.stripMarks c = true := by
  obtain ⟨e, ids, rfl, rfl, hwkx⟩ := hc
  have hmx : Refine.maxInt = CtyModel.maxInt := rfl
  unfold prepareUnknownResult at h
  simp only at h
  obtain ⟨ret, hret, h⟩ := Res.bind_eq_ok h
  have hret' : ∃ rf1, ret = ⟨.set e, .unk rf1⟩ ∧ lenLo rf1 = 0 ∧ lenHi rf1 = CtyModel.maxInt ∧ rf1.nullness ≠ .t ∧
      (rf1 = .unref ∨ rf1 = .coll .f 0 maxInt) := by
    split at hret
    · have : Refine.refine (Value.unknown (.set e)) [.notNull] = .ok ⟨.set e, .unk (.coll .f 0 maxInt)⟩ := rfl
      rw [this] at hret
      simp at hret; subst hret
      exact ⟨_, rfl, rfl, rfl, by simp [Rfn.nullness], .inr rfl⟩
    · simp at hret; subst hret
      exact ⟨.unref, rfl, rfl, rfl, by simp [Rfn.nullness], .inl rfl⟩
  obtain ⟨rf1, rfl, hlo1, hhi1, hnt, hrf1⟩ := hret'
  have hxl : (xs.length : Int) ≤ CtyModel.maxInt := by omega
  have hretc : Cov.coversP false (Payload.unk rf1) (Payload.sset ids xs) = true := by
    rcases hrf1 with rfl | rfl
    · simp only [Cov.coversP]
      exact admits_unref _ rfl
    · have hpl : Cov.possibleLen (Payload.sset ids xs) = some ((xs.length : Int), (xs.length : Int)) := by
        simp [Cov.possibleLen, hwkx]
      have hadm : Cov.admits (.coll .f 0 maxInt) (Payload.sset ids xs) =
          ((Rfn.coll .f 0 maxInt).nullness != .t && Cov.rfnAdmitsKnown (.coll .f 0 maxInt) (Payload.sset ids xs)) := rfl
      simp only [Cov.coversP, hadm, Cov.rfnAdmitsKnown, hpl, Rfn.nullness, Bool.and_eq_true, decide_eq_true_eq]
      exact ⟨by decide, by omega, hxl⟩
  have fin : ∀ cs : List RefineCall, (∀ x ∈ cs, lenCall x = true ∧ x ≠ .notNull) →
      max 0 (loOfAll cs) ≤ (xs.length : Int) → (xs.length : Int) ≤ min CtyModel.maxInt (hiOfAll cs) →
      Refine.refine ⟨.set e, .unk rf1⟩ cs = .ok r → Cov.coversP false r.v.stripMarks (Payload.sset ids xs) = true :=
    fun cs hcs h1 h2 h' => refine_cover_set hcs h' hlo1 hhi1 hnt ⟨e, ids, rfl, rfl, hwkx⟩ hmk h1 h2
  cases hst : src.ty with
  | tuple ts =>
    have hl := htup ts hst
    simp only [hst] at h
    split at h
    · rename_i hle1
      refine fin _ (by simp [lenCall]) ?_ ?_ h <;>
        simp only [loOfAll, hiOfAll, loOf, hiOf, hmx] <;> omega
    · rename_i hgt
      refine fin _ (by simp [lenCall]) ?_ ?_ h <;>
        simp only [loOfAll, hiOfAll, loOf, hiOf, hmx] <;> omega
  | list ie | set ie | map ie =>
    have hcl : isCollectionTy src.ty = true := by rw [hst]; rfl
    simp only [hst, isCollectionTy, Bool.and_self, if_true] at h
    obtain ⟨lo, hlo, h⟩ := Res.bind_eq_ok h
    obtain ⟨hi, hhi, h⟩ := Res.bind_eq_ok h
    obtain ⟨b1, b2⟩ := hcoll hcl lo hi hlo hhi
    by_cases hp0 : lo > 0
    · simp only [hp0, if_true] at h
      refine fin _ (by simp [lenCall]) ?_ ?_ h <;>
        simp only [List.cons_append, List.nil_append, loOfAll, hiOfAll, loOf, hiOf, hmx] <;> omega
    · simp only [hp0, if_false] at h
      refine fin _ (by simp [lenCall]) ?_ ?_ h <;>
        simp only [List.cons_append, List.nil_append, loOfAll, hiOfAll, loOf, hiOf, hmx] <;> omega
  | object _ _ _ | bool | number | string | dyn | capsule _ =>
    simp only [hst, isCollectionTy, Bool.false_and, Bool.false_eq_true, if_false] at h
    simp at h; subst h; exact hretc

/-! ### assembling: the conversion of the unknown against the conversion of an admitted known value -/

theorem not_marked_of_clean {p : Payload} (h : p.containsMarked = false) : p.isMarked = false := by
  cases p <;> simp [Payload.containsMarked, Payload.isMarked] at h ⊢

theorem cmL_mem' : ∀ {ps : List Payload}, Payload.containsMarkedL ps = false → ∀ p ∈ ps, p.containsMarked = false
  | [], _, _, hp => by simp at hp
  | q :: qs, h, p, hp => by
    simp only [Payload.containsMarkedL, Bool.or_eq_false_iff] at h
    rcases List.mem_cons.mp hp with rfl | hp
    · exact h.1
    · exact cmL_mem' h.2 p hp

theorem stripMarksL_unmarked (xs : List Payload) : ∀ x ∈ Payload.stripMarksL xs, x.isMarked = false :=
  fun x hx => not_marked_of_clean (cmL_mem' (stripMarksL_noMarks xs) x hx)

/-- the length bounds a plain collection payload is admitted under -/
theorem admits_coll_len {rf : Rfn} {q : Payload} {ps : List Payload}
    (hq : q = .seq ps ∨ (∃ ks, q = .smap ks ps) ∨ (∃ ids, q = .sset ids ps))
    (hwk : q.whollyKnown = true) (hc : Cov.admits rf q.stripMarks = true) :
    lenLo rf ≤ (ps.length : Int) ∧ ((ps.length : Int) ≤ CtyModel.maxInt → (ps.length : Int) ≤ lenHi rf) := by
  have hmx : Refine.maxInt = CtyModel.maxInt := rfl
  have hpl : Cov.possibleLen q.stripMarks = some ((ps.length : Int), (ps.length : Int)) := by
    rcases hq with rfl | ⟨ks, rfl⟩ | ⟨ids, rfl⟩
    · simp [Payload.stripMarks, Cov.possibleLen, stripMarksL_len]
    · simp [Payload.stripMarks, Cov.possibleLen, stripMarksL_len]
    · have : Payload.whollyKnownL (Payload.stripMarksL ps) = true := by
        rw [wkL_stripMarks]; simpa [Payload.whollyKnown] using hwk
      simp [Payload.stripMarks, Cov.possibleLen, stripMarksL_len, this]
  have hadm : Cov.admits rf q.stripMarks = (rf.nullness != .t && Cov.rfnAdmitsKnown rf q.stripMarks) := by
    rcases hq with rfl | ⟨ks, rfl⟩ | ⟨ids, rfl⟩ <;> rfl
  rw [hadm] at hc
  simp only [Bool.and_eq_true] at hc
  cases rf with
  | coll n a b =>
    have := hc.2
    simp only [Cov.rfnAdmitsKnown, hpl, Bool.and_eq_true, decide_eq_true_eq] at this
    exact ⟨this.1, fun _ => this.2⟩
  | _ => simp only [lenLo, lenHi, hmx]; exact ⟨by omega, fun h => h⟩

theorem covers_coll_core {E : Env} (hU : UnifyLaws E) {fuel fuel' : Nat} {uns : Bool} {t want : Ty} {p : Plan}
    {rf : Rfn} {q : Payload} {r r' : Value}
    (hT : (∃ e, want = .list e) ∨ (∃ e, want = .map e))
    (hp : RegularPair ⟨t, .unk rf⟩ want) (hq : wtP t q = true) (hg : getConv E t want uns = some p)
    (hplain : plain q) (hwk : q.whollyKnown = true) (hfit : (srcLen q : Int) ≤ CtyModel.maxInt)
    (hc : Cov.admits rf q.stripMarks = true)
    (h : apply E (fuel + 1) p ⟨t, .unk rf⟩ = .ok r) (h' : apply E fuel' p ⟨t, q⟩ = .ok r') :
    Covers r r' = true := by
  have hmx : Refine.maxInt = CtyModel.maxInt := rfl
  have hwv := hp.wt
  simp only [Value.wt, Bool.and_eq_true, Bool.not_eq_true'] at hwv
  have hp' : RegularPair ⟨t, q⟩ want := ⟨by simp [Value.wt, hwv.1.1, hwv.1.2, hq], hp.wfT, hp.noDyn⟩
  have hty := apply_ty hU hp hg h
  have hty' := apply_ty hU hp' hg h'
  have hwt' := (apply_wt hU hp' hg h').1
  have hlen := apply_len hU hp' hg hplain.1 hplain.2.1 hplain.2.2 (lengthKnown_of_wk hwk) h'
  -- the shape of the converted known value
  have hshape : ∃ xs, xs.length = srcLen q ∧
      ((∃ e, want.stripOpt = .list e ∧ r'.v.stripMarks = .seq (Payload.stripMarksL xs)) ∨
       (∃ e ks, want.stripOpt = .map e ∧ r'.v.stripMarks = .smap ks (Payload.stripMarksL xs) ∧
         ks.length = xs.length)) := by
    rcases hT with ⟨e, rfl⟩ | ⟨e, rfl⟩
    · obtain ⟨xs, hxs, hl⟩ := hlen.1 e rfl
      exact ⟨xs, hl, .inl ⟨e.stripOpt, by simp [stripOpt], by rw [hxs]; rfl⟩⟩
    · obtain ⟨ks, xs, hxs, hl⟩ := hlen.2 e rfl
      refine ⟨xs, hl, .inr ⟨e.stripOpt, ks, by simp [stripOpt], by rw [hxs]; rfl, ?_⟩⟩
      simp only [Value.wt, Bool.and_eq_true] at hwt'
      have := hwt'.2
      rw [hty', hxs] at this
      simp only [stripOpt, wtP, Bool.and_eq_true, beq_iff_eq] at this
      exact this.1
  obtain ⟨xs, hxl, hsh⟩ := hshape
  -- the converted unknown
  rw [apply_unknown_exact hU fuel hp hg rfl rfl] at h
  obtain ⟨rng, hrng, h⟩ := Res.bind_eq_ok h
  simp only [Refine.range, Res.ok.injEq] at hrng
  subst hrng
  obtain ⟨hpm, hpk, hpn⟩ := hplain
  have hcov : Cov.coversP false r.v.stripMarks r'.v.stripMarks = true := by
    have hc' : (∃ e, want.stripOpt = .list e ∧ r'.v.stripMarks = .seq (Payload.stripMarksL xs)) ∨
        (∃ e ks, want.stripOpt = .map e ∧ r'.v.stripMarks = .smap ks (Payload.stripMarksL xs) ∧
          ks.length = (Payload.stripMarksL xs).length) := by
      rcases hsh with h1 | ⟨e, ks, h1, h2, h3⟩
      · exact .inl h1
      · exact .inr ⟨e, ks, h1, h2, by rw [stripMarksL_len]; exact h3⟩
    refine prepare_cover h hc' (stripMarksL_unmarked xs) (by rw [stripMarksL_len, hxl]; exact hfit) ?_ ?_ ?_
    · intro ns ts os hst
      simp only at hst
      subst hst
      obtain ⟨ps, rfl, hps⟩ := shape_object ⟨hpm, hpk, hpn⟩ hq
      have hwf := hwv.1.1
      simp only [wf, Bool.and_eq_true, beq_iff_eq] at hwf
      rw [stripMarksL_len, hxl]
      simp [srcLen, ← wtZip_length hps, hwf.1.1.1]
    · intro ts hst
      simp only at hst
      subst hst
      obtain ⟨ps, rfl, hps⟩ := shape_tuple ⟨hpm, hpk, hpn⟩ hq
      rw [stripMarksL_len, hxl]
      simp [srcLen, ← wtZip_length hps]
    · intro hcl lo hi hlo hhi
      simp only at hcl
      rw [stripMarksL_len, hxl]
      have key : ∀ ps : List Payload, (q = .seq ps ∨ (∃ ks, q = .smap ks ps) ∨ (∃ ids, q = .sset ids ps)) →
          srcLen q = ps.length → lo ≤ (srcLen q : Int) ∧ (srcLen q : Int) ≤ hi := by
        intro ps hqs hsl
        have hb := admits_coll_len hqs hwk hc
        rw [hsl] at hfit ⊢
        have hlo' : lo = lenLo rf := by
          cases t <;> simp [isCollectionTy] at hcl <;>
            (simp only [Refine.ValueRange.lengthLowerBound, isCollectionTy, if_true] at hlo
             cases rf <;> simp [lenLo] at hlo ⊢ <;> exact hlo.symm)
        have hhi' : hi = lenHi rf := by
          cases t <;> simp [isCollectionTy] at hcl <;>
            (simp only [Refine.ValueRange.lengthUpperBound, isCollectionTy, if_true] at hhi
             cases rf <;> simp [lenHi] at hhi ⊢ <;> exact hhi.symm)
        rw [hlo', hhi']
        exact ⟨hb.1, hb.2 hfit⟩
      cases t <;> simp [isCollectionTy] at hcl
      · obtain ⟨ps, rfl, _⟩ := shape_list ⟨hpm, hpk, hpn⟩ hq
        exact key ps (.inl rfl) rfl
      · obtain ⟨ids, ps, rfl, _⟩ := shape_set ⟨hpm, hpk, hpn⟩ hq
        exact key ps (.inr (.inr ⟨ids, rfl⟩)) rfl
      · obtain ⟨ks, ps, rfl, _, _⟩ := shape_map ⟨hpm, hpk, hpn⟩ hq
        exact key ps (.inr (.inl ⟨ks, rfl⟩)) rfl
  simp only [Covers, CoversG, hty, hty', Ty.matches_refl, Bool.true_and]
  exact hcov

/-- the length bounds of the range of an unknown collection admit the length of every admitted
wholly-known collection -/
theorem admitted_len_bounds {t : Ty} {rf : Rfn} {q : Payload} {lo hi : Int}
    (hq : wtP t q = true) (hplain : plain q) (hwk : q.whollyKnown = true)
    (hfit : (srcLen q : Int) ≤ CtyModel.maxInt) (hc : Cov.admits rf q.stripMarks = true)
    (hcl : isCollectionTy t = true)
    (hlo : (⟨t, if rf = .unref then .nullable .u else rf⟩ : ValueRange).lengthLowerBound = .ok lo)
    (hhi : (⟨t, if rf = .unref then .nullable .u else rf⟩ : ValueRange).lengthUpperBound = .ok hi) :
    lo ≤ (srcLen q : Int) ∧ (srcLen q : Int) ≤ hi := by
  have key : ∀ ps : List Payload, (q = .seq ps ∨ (∃ ks, q = .smap ks ps) ∨ (∃ ids, q = .sset ids ps)) →
      srcLen q = ps.length → lo ≤ (srcLen q : Int) ∧ (srcLen q : Int) ≤ hi := by
    intro ps hqs hsl
    have hb := admits_coll_len hqs hwk hc
    rw [hsl] at hfit ⊢
    have hlo' : lo = lenLo rf := by
      cases t <;> simp [isCollectionTy] at hcl <;>
        (simp only [Refine.ValueRange.lengthLowerBound, isCollectionTy, if_true] at hlo
         cases rf <;> simp [lenLo] at hlo ⊢ <;> exact hlo.symm)
    have hhi' : hi = lenHi rf := by
      cases t <;> simp [isCollectionTy] at hcl <;>
        (simp only [Refine.ValueRange.lengthUpperBound, isCollectionTy, if_true] at hhi
         cases rf <;> simp [lenHi] at hhi ⊢ <;> exact hhi.symm)
    rw [hlo', hhi']
    exact ⟨hb.1, hb.2 hfit⟩
  cases t <;> simp [isCollectionTy] at hcl
  · obtain ⟨ps, rfl, _⟩ := shape_list hplain hq
    exact key ps (.inl rfl) rfl
  · obtain ⟨ids, ps, rfl, _⟩ := shape_set hplain hq
    exact key ps (.inr (.inr ⟨ids, rfl⟩)) rfl
  · obtain ⟨ks, ps, rfl, _, _⟩ := shape_map hplain hq
    exact key ps (.inr (.inl ⟨ks, rfl⟩)) rfl

theorem covers_set_core {E : Env} (hU : UnifyLaws E) {fuel fuel' : Nat} {uns : Bool} {t oe : Ty} {p : Plan}
    {rf : Rfn} {q : Payload} {r r' : Value}
    (hp : RegularPair ⟨t, .unk rf⟩ (.set oe)) (hq : wtP t q = true) (hg : getConv E t (.set oe) uns = some p)
    (hplain : plain q) (hwk : q.whollyKnown = true) (hfit : (srcLen q : Int) ≤ CtyModel.maxInt)
    (hc : Cov.admits rf q.stripMarks = true)
    (h : apply E (fuel + 1) p ⟨t, .unk rf⟩ = .ok r) (h' : apply E fuel' p ⟨t, q⟩ = .ok r') :
    Covers r r' = true := by
  have hwv := hp.wt
  simp only [Value.wt, Bool.and_eq_true, Bool.not_eq_true'] at hwv
  have hp' : RegularPair ⟨t, q⟩ (.set oe) := ⟨by simp [Value.wt, hwv.1.1, hwv.1.2, hq], hp.wfT, hp.noDyn⟩
  have hty := apply_ty hU hp hg h
  have hty' := apply_ty hU hp' hg h'
  have hwk' := (apply_wt hU hp' hg h').2 hwk
  obtain ⟨ids, xs, hxs, hx1, hx2⟩ := apply_len_set hU hp' hg hplain.1 hplain.2.1 hplain.2.2 h'
  simp only at hx1 hx2
  have hwkx : Payload.whollyKnownL xs = true := by
    have : r'.v.stripMarks.whollyKnown = true := by rw [wk_stripMarks]; exact hwk'
    rw [hxs] at this
    simpa [Payload.whollyKnown] using this
  have hmkx : ∀ x ∈ xs, x.isMarked = false := by
    have : r'.v.stripMarks.containsMarked = false := stripMarks_noMarks _
    rw [hxs] at this
    simp only [Payload.containsMarked] at this
    exact fun x hx => not_marked_of_clean (cmL_mem' this x hx)
  rw [apply_unknown_exact hU fuel hp hg rfl rfl] at h
  obtain ⟨rng, hrng, h⟩ := Res.bind_eq_ok h
  simp only [Refine.range, Res.ok.injEq] at hrng
  subst hrng
  have hcov : Cov.coversP false r.v.stripMarks r'.v.stripMarks = true := by
    rw [hxs]
    have hpos' : 0 < srcLen q → 1 ≤ xs.length := by
      intro hpos
      have : min 1 (srcLen q) = 1 := by omega
      omega
    refine prepare_cover_set (n := srcLen q) h ⟨oe.stripOpt, ids, by simp [stripOpt], rfl, hwkx⟩ hmkx hfit hx2
      hpos' ?_ ?_
    · intro ts hst
      simp only at hst
      subst hst
      obtain ⟨ps, rfl, hps⟩ := shape_tuple hplain hq
      simp [srcLen, ← wtZip_length hps]
    · intro hcl lo hi hlo hhi
      exact admitted_len_bounds hq hplain hwk hfit hc hcl hlo hhi
  simp only [Covers, CoversG, hty, hty', Ty.matches_refl, Bool.true_and]
  exact hcov

/-- **Unknown soundness with `Covers`, set targets, marked values included**: as `unknown_covers_coll`;
the converted set may have fewer members than the admitted value (members coalesce), never none if it
has any — which is what the refinement of the converted unknown says, too. -/
theorem unknown_covers_set {E : Env} (hU : UnifyLaws E) {fuel fuel' : Nat} {uns : Bool} {v v' r r' : Value}
    {oe : Ty} {p : Plan}
    (hp : RegularPair v (.set oe)) (hwt' : wtP v'.ty v'.v = true) (hty : v'.ty = v.ty)
    (hg : getConv E v.ty (.set oe) uns = some p) (hk : v.isKnown = false)
    (hk' : v'.isKnown = true) (hn' : v'.isNull = false) (hwk' : v'.v.whollyKnown = true)
    (hfit : (srcLen v'.v.unmark1 : Int) ≤ CtyModel.maxInt) (hc : Covers v v' = true)
    (h : apply E fuel p v = .ok r) (h' : apply E fuel' p v' = .ok r') : Covers r r' = true := by
  obtain ⟨c, hgc, rfl⟩ := Option.map_eq_some_iff.mp hg
  have hwv := hp.conds.wt
  obtain ⟨f0, r0, h0, hm0, hl, _⟩ := apply_peel hwv h
  obtain ⟨f0', r0', h0', hm0', _, hr⟩ := apply_peel hwt' h'
  rw [hl, hr]
  obtain ⟨rf, hrf⟩ := unmark_unknown hk
  have hq' : v'.unmark = ⟨v.ty, v'.v.unmark1⟩ := by rw [← hty]; rfl
  have hwq : wtP v.ty v'.v.unmark1 = true := by rw [← hty]; exact (wtP_unmark1 hwt').1
  have hadm : Cov.admits rf v'.v.unmark1.stripMarks = true := by
    have hc' := hc
    rw [← covers_unmark_left, ← covers_unmark_right, hrf] at hc'
    simp only [Covers, CoversG, Bool.and_eq_true] at hc'
    simpa [Payload.stripMarks, Cov.coversP, Value.unmark] using hc'.2
  have hum : v'.v.unmark1.isMarked = false := hm0'
  have huu : v'.v.unmark1.unmark1 = v'.v.unmark1 := by
    cases hq : v'.v.unmark1 <;> simp [Payload.unmark1]
    rw [hq] at hum; simp [Payload.isMarked] at hum
  have hplain : plain v'.v.unmark1 := by
    refine ⟨hum, ?_, ?_⟩
    · simpa [Value.isKnown, Payload.isKnown, huu] using hk'
    · simpa [Value.isNull, Payload.isNull, huu] using hn'
  have hwkq : v'.v.unmark1.whollyKnown = true := by rw [wk_unmark1]; exact hwk'
  rw [hrf] at h0
  rw [hq'] at h0'
  have hp0 : RegularPair ⟨v.ty, .unk rf⟩ (.set oe) := ⟨by
    have := hp.wt
    simp only [Value.wt, Bool.and_eq_true] at this ⊢
    exact ⟨this.1, by simp [wtP]⟩, hp.wfT, hp.noDyn⟩
  exact covers_set_core hU hp0 hwq hg hplain hwkq hfit hadm h0 h0'

/-- **Unknown soundness with `Covers`, list and map targets, marked values included.**
`v` unknown — a collection, tuple or object type, any refinement, marked or not; `v'` a wholly-known
non-null value of the same type that `v` admits (`Covers v v'`), marked or not (at any depth), of a
length that fits an `int`.  The result of converting `v` — an unknown list / map with the length
refinement `prepareUnknownResult` derives, or the known list of unknown members / the empty
collection it collapses to when that length is exact — admits the result of converting `v'`. -/
theorem unknown_covers_coll {E : Env} (hU : UnifyLaws E) {fuel fuel' : Nat} {uns : Bool} {v v' r r' : Value}
    {want : Ty} {p : Plan} (hT : (∃ e, want = .list e) ∨ (∃ e, want = .map e))
    (hp : RegularPair v want) (hwt' : wtP v'.ty v'.v = true) (hty : v'.ty = v.ty)
    (hg : getConv E v.ty want uns = some p) (hk : v.isKnown = false)
    (hk' : v'.isKnown = true) (hn' : v'.isNull = false) (hwk' : v'.v.whollyKnown = true)
    (hfit : (srcLen v'.v.unmark1 : Int) ≤ CtyModel.maxInt) (hc : Covers v v' = true)
    (h : apply E fuel p v = .ok r) (h' : apply E fuel' p v' = .ok r') : Covers r r' = true := by
  obtain ⟨c, hgc, rfl⟩ := Option.map_eq_some_iff.mp hg
  have hwv := hp.conds.wt
  obtain ⟨f0, r0, h0, hm0, hl, _⟩ := apply_peel hwv h
  obtain ⟨f0', r0', h0', hm0', _, hr⟩ := apply_peel hwt' h'
  rw [hl, hr]
  obtain ⟨rf, hrf⟩ := unmark_unknown hk
  have hq' : v'.unmark = ⟨v.ty, v'.v.unmark1⟩ := by rw [← hty]; rfl
  have hwq : wtP v.ty v'.v.unmark1 = true := by rw [← hty]; exact (wtP_unmark1 hwt').1
  have hadm : Cov.admits rf v'.v.unmark1.stripMarks = true := by
    have hc' := hc
    rw [← covers_unmark_left, ← covers_unmark_right, hrf] at hc'
    simp only [Covers, CoversG, Bool.and_eq_true] at hc'
    simpa [Payload.stripMarks, Cov.coversP, Value.unmark] using hc'.2
  have hum : v'.v.unmark1.isMarked = false := hm0'
  have huu : v'.v.unmark1.unmark1 = v'.v.unmark1 := by
    cases hq : v'.v.unmark1 <;> simp [Payload.unmark1]
    rw [hq] at hum; simp [Payload.isMarked] at hum
  have hplain : plain v'.v.unmark1 := by
    refine ⟨hum, ?_, ?_⟩
    · simpa [Value.isKnown, Payload.isKnown, huu] using hk'
    · simpa [Value.isNull, Payload.isNull, huu] using hn'
  have hwkq : v'.v.unmark1.whollyKnown = true := by rw [wk_unmark1]; exact hwk'
  rw [hrf] at h0
  rw [hq'] at h0'
  have hp0 : RegularPair ⟨v.ty, .unk rf⟩ want := ⟨by
    have := hp.wt
    simp only [Value.wt, Bool.and_eq_true] at this ⊢
    exact ⟨this.1, by simp [wtP]⟩, hp.wfT, hp.noDyn⟩
  exact covers_coll_core hU hT hp0 hwq hg hplain hwkq hfit hadm h0 h0'

end Convert
end CtyModel
