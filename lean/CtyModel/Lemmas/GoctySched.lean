/- The schedule of `fromCtyObject` (Go's map order) decides nothing but which failure is met
first: success, the decoded value and the fact of failing are the same under every schedule. -/
import CtyModel.Lemmas.GoctyDecode
namespace CtyModel
namespace Gocty

theorem cls_mapRes {α β} (f : α → β) {r r' : Res α} (h : cls r = cls r') :
    cls (mapRes f r) = cls (mapRes f r') := by
  cases r <;> cases r' <;> simp_all [cls, mapRes]

theorem cls_seqAll {α} : ∀ (rs rs' : List (Res α)), rs.map cls = rs'.map cls →
    cls (seqAll rs) = cls (seqAll rs')
  | [], [], _ => rfl
  | [], _ :: _, h => by simp at h
  | _ :: _, [], h => by simp at h
  | r :: rs, r' :: rs', h => by
    simp only [List.map_cons, List.cons.injEq] at h
    have ih := cls_seqAll rs rs' h.2
    cases r <;> cases r' <;> simp [cls] at h <;> simp only [seqAll, cls]
    rename_i a b
    obtain ⟨rfl, _⟩ := h
    cases h1 : seqAll rs <;> cases h2 : seqAll rs' <;> simp_all [cls]

theorem anyUnmodelled_cls {α} : ∀ (rs rs' : List (Res α)), rs.map cls = rs'.map cls →
    anyUnmodelled rs = anyUnmodelled rs'
  | [], [], _ => rfl
  | [], _ :: _, h => by simp at h
  | _ :: _, [], h => by simp at h
  | r :: rs, r' :: rs', h => by
    simp only [List.map_cons, List.cons.injEq] at h
    have ih := anyUnmodelled_cls rs rs' h.2
    cases r <;> cases r' <;> simp [cls] at h <;> simp [anyUnmodelled, ih]

/-- every member succeeded -/
def allOk {α} : List (Res α) → Bool
  | [] => true
  | .ok _ :: rs => allOk rs
  | _ :: _ => false

theorem allOk_cls {α} : ∀ (rs rs' : List (Res α)), rs.map cls = rs'.map cls →
    allOk rs = allOk rs' ∧ (allOk rs = true → okVals rs = okVals rs')
  | [], [], _ => ⟨rfl, fun _ => rfl⟩
  | [], _ :: _, h => by simp at h
  | _ :: _, [], h => by simp at h
  | r :: rs, r' :: rs', h => by
    simp only [List.map_cons, List.cons.injEq] at h
    have ih := allOk_cls rs rs' h.2
    cases r <;> cases r' <;> simp [cls] at h <;> simp [allOk, okVals, ih.1]
    intro hh
    exact ⟨h.1, ih.2 (ih.1 ▸ hh)⟩

theorem firstFailure_allOk {α β} : ∀ (rs : List (Res α)), allOk rs = true →
    (firstFailure rs : Option (Res β)) = none
  | [], _ => rfl
  | .ok a :: rs, h => by simp only [firstFailure, failureOf]; exact firstFailure_allOk rs h
  | .err _ :: _, h | .panic _ :: _, h | .unmodelled :: _, h => by simp [allOk] at h

theorem firstFailure_not_allOk {α β} : ∀ (rs : List (Res α)), allOk rs = false → anyUnmodelled rs = false →
    ∃ f : Res β, firstFailure rs = some f ∧ cls f = .fail
  | [], h, _ => by simp [allOk] at h
  | .ok a :: rs, h, hu => by
    simp only [firstFailure, failureOf]
    exact firstFailure_not_allOk rs (by simpa [allOk] using h) (by simpa [anyUnmodelled] using hu)
  | .err c :: _, _, _ => ⟨.err c, rfl, rfl⟩
  | .panic w :: _, _, _ => ⟨.panic w, rfl, rfl⟩
  | .unmodelled :: _, _, hu => by simp [anyUnmodelled] at hu

theorem firstFailure_cls_fail {α β} : ∀ (rs : List (Res α)) (f : Res β), anyUnmodelled rs = false →
    firstFailure rs = some f → cls f = .fail ∧ allOk rs = false
  | [], _, _, h => by simp [firstFailure] at h
  | .ok a :: rs, f, hu, h => by
    simp only [firstFailure, failureOf] at h
    simpa [allOk] using firstFailure_cls_fail rs f (by simpa [anyUnmodelled] using hu) h
  | .err c :: _, f, _, h => by simp only [firstFailure, failureOf, Option.some.injEq] at h; subst h; exact ⟨rfl, rfl⟩
  | .panic w :: _, f, _, h => by simp only [firstFailure, failureOf, Option.some.injEq] at h; subst h; exact ⟨rfl, rfl⟩
  | .unmodelled :: _, _, hu, _ => by simp [anyUnmodelled] at hu

theorem allOk_iff {α} : ∀ (rs : List (Res α)), allOk rs = true ↔ ∀ r ∈ rs, ∃ a, r = .ok a
  | [] => by simp [allOk]
  | .ok a :: rs => by simp [allOk, allOk_iff rs]
  | .err _ :: _ => by simp [allOk]
  | .panic _ :: _ => by simp [allOk]
  | .unmodelled :: _ => by simp [allOk]

theorem anyUnmodelled_false_iff {α} : ∀ (rs : List (Res α)), anyUnmodelled rs = false ↔ ∀ r ∈ rs, r ≠ .unmodelled
  | [] => by simp [anyUnmodelled]
  | .ok a :: rs => by simp [anyUnmodelled, anyUnmodelled_false_iff rs]
  | .err _ :: rs => by simp [anyUnmodelled, anyUnmodelled_false_iff rs]
  | .panic _ :: rs => by simp [anyUnmodelled, anyUnmodelled_false_iff rs]
  | .unmodelled :: _ => by simp [anyUnmodelled]

/-- the class of the attribute loop, whatever the order -/
theorem cls_combSched {α} (order names : List String) (rs : List (Res α)) :
    cls (combSched order names rs) =
      if anyUnmodelled rs then .unmodelled else if allOk rs then .ok (okVals rs) else .fail := by
  unfold combSched
  by_cases hu : anyUnmodelled rs = true
  · simp [hu, cls]
  · simp only [Bool.not_eq_true] at hu
    simp only [hu, Bool.false_eq_true, if_false]
    have hu' : anyUnmodelled (inOrder order names rs) = false := by
      rw [anyUnmodelled_false_iff] at hu ⊢
      exact fun r hr => hu r (mem_inOrder hr)
    by_cases ha : allOk rs = true
    · have ha' : allOk (inOrder order names rs) = true := by
        rw [allOk_iff] at ha ⊢
        exact fun r hr => ha r (mem_inOrder hr)
      rw [firstFailure_allOk _ ha', firstFailure_allOk _ ha]
      simp [ha, cls]
    · simp only [Bool.not_eq_true] at ha
      simp only [ha, Bool.false_eq_true, if_false]
      cases h1 : (firstFailure (inOrder order names rs) : Option (Res (List α))) with
      | some f => exact (firstFailure_cls_fail _ f hu' h1).1
      | none =>
        obtain ⟨f, hf, hc⟩ := firstFailure_not_allOk (β := List α) rs ha hu
        simp only [hf]; exact hc

theorem cls_combSched_congr {α} (o o' names : List String) (rs rs' : List (Res α))
    (h : rs.map cls = rs'.map cls) : cls (combSched o names rs) = cls (combSched o' names rs') := by
  rw [cls_combSched, cls_combSched, anyUnmodelled_cls rs rs' h, (allOk_cls rs rs' h).1]
  by_cases ha : allOk rs' = true
  · have := (allOk_cls rs rs' h).2 (by rw [(allOk_cls rs rs' h).1]; exact ha)
    simp [ha, this]
  · simp [ha]

/-! the iteration order of a set depends on the members only -/

/-- a (member, result) pair with the result reduced to its class -/
def pcls (x : Payload × Res GoVal) : Payload × Cls GoVal := (x.1, cls x.2)

theorem insertSorted_cls (ety : Ty) (x x' : Payload × Res GoVal) (hx : pcls x = pcls x') :
    ∀ (l l' : List (Payload × Res GoVal)), l.map pcls = l'.map pcls →
    (insertSorted ety x l).map pcls = (insertSorted ety x' l').map pcls
  | [], [], _ => by simp [insertSorted, hx]
  | [], _ :: _, h => by simp at h
  | _ :: _, [], h => by simp at h
  | y :: l, y' :: l', h => by
    simp only [List.map_cons, List.cons.injEq] at h
    have hk : x.1 = x'.1 := by have := congrArg Prod.fst hx; simpa [pcls] using this
    have hy : y.1 = y'.1 := by have := congrArg Prod.fst h.1; simpa [pcls] using this
    simp only [insertSorted, hk, hy]
    split
    · simp [hx, h.1, h.2]
    · simp [h.1, insertSorted_cls ety x x' hx l l' h.2]

theorem zipPR_cls : ∀ (cs : List Payload) (rs rs' : List (Res GoVal)), rs.map cls = rs'.map cls →
    (zipPR cs rs).map pcls = (zipPR cs rs').map pcls
  | [], _, _, _ => by simp [zipPR]
  | _ :: _, [], [], _ => by simp [zipPR]
  | _ :: _, [], _ :: _, h => by simp at h
  | _ :: _, _ :: _, [], h => by simp at h
  | c :: cs, r :: rs, r' :: rs', h => by
    simp only [List.map_cons, List.cons.injEq] at h
    simp [zipPR, pcls, h.1, zipPR_cls cs rs rs' h.2]

theorem foldl_insertSorted_cls (ety : Ty) : ∀ (xs xs' acc acc' : List (Payload × Res GoVal)),
    xs.map pcls = xs'.map pcls → acc.map pcls = acc'.map pcls →
    (xs.foldl (fun a x => insertSorted ety x a) acc).map pcls =
      (xs'.foldl (fun a x => insertSorted ety x a) acc').map pcls
  | [], [], _, _, _, h => h
  | [], _ :: _, _, _, h, _ => by simp at h
  | _ :: _, [], _, _, h, _ => by simp at h
  | x :: xs, x' :: xs', acc, acc', h, ha => by
    simp only [List.map_cons, List.cons.injEq] at h
    simp only [List.foldl_cons]
    exact foldl_insertSorted_cls ety xs xs' _ _ h.2 (insertSorted_cls ety x x' h.1 acc acc' ha)

theorem setOrder_cls (ety : Ty) (cs : List Payload) (rs rs' : List (Res GoVal)) (h : rs.map cls = rs'.map cls) :
    (setOrder ety cs rs).map cls = (setOrder ety cs rs').map cls := by
  unfold setOrder
  have := foldl_insertSorted_cls ety _ _ [] [] (zipPR_cls cs rs rs' h) rfl
  have h2 := congrArg (List.map Prod.snd) this
  simp only [List.map_map] at h2 ⊢
  exact h2

/-! ### the theorem -/
open Payload in
mutual
theorem fromCtyP_sched : ∀ (p : Payload) (S S' : Sched) (ms : List String) (ty : Ty) (T : GoTy),
    cls (fromCtyP S ms ty p T) = cls (fromCtyP S' ms ty p T)
  | .marked m r, S, S', ms, ty, T => by
    unfold fromCtyP; split; · rfl
    exact fromCtyP_sched r S S' _ ty T
  | .null, S, S', ms, ty, T | .unk _, S, S', ms, ty, T | .b _, S, S', ms, ty, T | .n _, S, S', ms, ty, T
  | .s _, S, S', ms, ty, T | .caps, S, S', ms, ty, T | .bad _, S, S', ms, ty, T => by
    unfold fromCtyP; rfl
  | .seq cs, S, S', ms, ty, T => by
    unfold fromCtyP; split; · rfl
    simp only []
    split
    · split
      · split
        · rfl
        · exact cls_mapRes _ (cls_seqAll _ _ (fromCtyL_sched cs S S' _ _))
      · split
        · rfl
        · split
          · rfl
          · exact cls_mapRes _ (cls_seqAll _ _ (fromCtyL_sched cs S S' _ _))
      · rfl
    · split
      · split
        · rfl
        · exact cls_mapRes _ (cls_seqAll _ _ (fromCtyZ_sched cs S S' ms _ _))
      · rfl
      · rfl
      · rfl
    · rfl
  | .smap ks cs, S, S', ms, ty, T => by
    unfold fromCtyP; split; · rfl
    simp only []
    split
    · split
      · split
        · rfl
        · exact cls_mapRes _ (cls_seqAll _ _ (fromCtyL_sched cs S S' _ _))
      · rfl
    · split
      · rfl
      · split
        · split
          · rfl
          · exact cls_mapRes _ (cls_combSched_congr _ _ _ _ _ (fromCtyA_sched cs S.next S'.next ms _ _ _ _))
        · rfl
        · rfl
        · rfl
    · rfl
  | .sset _ cs, S, S', ms, ty, T => by
    unfold fromCtyP; split; · rfl
    simp only []
    split
    · split
      · split
        · rfl
        · split
          · rfl
          · exact cls_mapRes _ (cls_seqAll _ _ (setOrder_cls _ cs _ _ (fromCtyL_sched cs S S' _ _)))
      · split
        · rfl
        · split
          · rfl
          · split
            · rfl
            · exact cls_mapRes _ (cls_seqAll _ _ (setOrder_cls _ cs _ _ (fromCtyL_sched cs S S' _ _)))
      · rfl
    · rfl
theorem fromCtyL_sched : ∀ (cs : List Payload) (S S' : Sched) (ety : Ty) (E : GoTy),
    (fromCtyL S ety cs E).map cls = (fromCtyL S' ety cs E).map cls
  | [], _, _, _, _ => rfl
  | c :: cs, S, S', ety, E => by
    simp only [fromCtyL, List.map_cons, fromCtyP_sched c S S' [] ety E, fromCtyL_sched cs S S' ety E]
theorem fromCtyZ_sched : ∀ (cs : List Payload) (S S' : Sched) (ms : List String) (etys : List Ty) (tys : List GoTy),
    (fromCtyZ S ms etys cs tys).map cls = (fromCtyZ S' ms etys cs tys).map cls
  | [], _, _, _, _, _ => by simp [fromCtyZ]
  | _ :: _, _, _, _, [], _ => by simp [fromCtyZ]
  | _ :: _, _, _, _, _ :: _, [] => by simp [fromCtyZ]
  | c :: cs, S, S', ms, ety :: etys, T :: tys => by
    simp only [fromCtyZ, List.map_cons, fromCtyP_sched c S S' ms ety T, fromCtyZ_sched cs S S' ms etys tys]
theorem fromCtyA_sched : ∀ (cs : List Payload) (S S' : Sched) (ms : List String) (names : List String)
    (atys : List Ty) (tags : List String) (tys : List GoTy),
    (fromCtyA S ms names atys cs tags tys).map cls = (fromCtyA S' ms names atys cs tags tys).map cls
  | [], _, _, _, _, _, _, _ => by simp [fromCtyA]
  | _ :: _, _, _, _, [], _, _, _ => by simp [fromCtyA]
  | _ :: _, _, _, _, _ :: _, [], _, _ => by simp [fromCtyA]
  | c :: cs, S, S', ms, k :: names, aty :: atys, tags, tys => by
    simp only [fromCtyA, List.map_cons, fromCtyA_sched cs S S' ms names atys tags tys, List.cons.injEq, and_true]
    split
    · rfl
    · exact fromCtyP_sched c S S' ms aty _
end

end Gocty
end CtyModel
