/-
Lemmas: the sequence functions (`element`, `slice`, `reverse`, `compact`,
`sort`, `distinct`, `coalescelist`, `chunklist`) compute their specifications.
-/
import CtyModel.Lemmas.StdlibBasic
import CtyModel.Lemmas.SetRefineSort
namespace CtyModel
namespace Stdlib
open Value

/-- a call that fails with an ordinary error -/
def Fails {α} (r : Res α) : Prop := ∃ c, r = .err c

theorem keyIndex_intVal (i : Nat) (hi : (i : Int) ≤ maxInt) : keyIndex (intVal i) = .ok (some i) := by
  simp only [keyIndex, intVal, numVal, Num.toInt?, Num.ofInt, Num.mk]
  have hnn : ¬ ((i : Int) < 0) := by omega
  have hneg : decide ((i : Int) < 0) = false := by simp
  rw [hneg]
  by_cases h0 : i = 0
  · subst h0; simp [Num.norm, Num.normFuel, Num.isInt, Num.truncInt, maxInt]
  · have hv := Num.norm_val (Int.natAbs i) 0 (by omega)
    have hexp : 0 ≤ (Num.norm (Int.natAbs i) 0).2 := hv.1
    simp only [Num.isInt, Num.truncInt, ge_iff_le, hexp, decide_true, if_true]
    have h2 : ((Num.norm (Int.natAbs (i:Int)) 0).1 : Int) * 2 ^ ((Num.norm (Int.natAbs (i:Int)) 0).2).toNat = i := by
      have := hv.2
      simp only [Int.sub_zero] at this
      have h3 : Int.natAbs (i : Int) = i := by simp
      rw [h3] at this ⊢
      exact_mod_cast this
    simp only [Bool.false_eq_true, if_false, h2]
    have : ¬ ((i : Int) < 0 ∨ (i : Int) > maxInt) := by omega
    simp [this]

theorem index_tuple_nat (ts : List Ty) (vs : List Payload) (i : Nat) (hi : (i : Int) ≤ maxInt) :
    Value.index ⟨.tuple ts, .seq vs⟩ (intVal i) =
      match ts[i]? with
      | none => .panic "index out of range"
      | some t => (match vs[i]? with
        | some p => .ok ⟨t, p⟩
        | none => .panic "index out of range") := by
  have hk := keyIndex_intVal i hi
  simp only [intVal, numVal] at hk
  simp [Value.index, binMarks, Value.isMarked, Payload.isMarked, intVal, numVal, indexU, Value.isKnown,
    Payload.isKnown, Payload.unmark1, Ty.isDyn, Ty.isNumber, hk]
  cases ts[i]? <;> simp
  cases vs[i]? <;> rfl

/-! ### `element` -/

theorem elementImpl_list (e : Ty) (vs : List Payload) (x : Num) (retTy : Ty)
    (hlen : (vs.length : Int) ≤ maxInt) (hm : ∀ p ∈ vs, p.isMarked = false) :
    elementImpl [⟨.list e, .seq vs⟩, numVal x] retTy =
      match Gocty.int64Exact x with
      | none => .err "invalid index"
      | some i =>
        match Spec.element? vs i with
        | none => .err "cannot use element function with an empty list"
        | some p => .ok ⟨e, p⟩ := by
  simp only [elementImpl, fromCtyInt_num, fromNumInt_64]
  cases hx : Gocty.int64Exact x with
  | none => rfl
  | some i =>
    simp only [Value.unmark, Payload.unmark1, Value.isKnown, Payload.isKnown, lengthInt_list, Value.marks,
      Payload.marks1, Bool.not_true, Bool.false_eq_true, if_false]
    by_cases h0 : vs.length = 0
    · simp [h0, Spec.element?]
    · have hpos : 0 < vs.length := by omega
      have hw := wrapIndex_eq i vs.length hpos
      have hnn := Int.emod_nonneg i (b := (vs.length : Int)) (by omega)
      have hlt := Int.emod_lt_of_pos i (b := (vs.length : Int)) (by omega)
      have hn : wrapIndex i vs.length = ((i % (vs.length : Int)).toNat : Int) := by rw [hw]; omega
      have hlt' : (i % (vs.length : Int)).toNat < vs.length := by omega
      simp only [h0, beq_iff_eq, if_false, hn, Spec.element?]
      rw [index_list_nat e vs _ (by omega)]
      rw [List.getElem?_eq_getElem hlt']
      simp only [Res.map]
      rw [withMarkSets_nil_of_unmarked _ (hm _ (List.getElem_mem hlt'))]

theorem elementImpl_tuple (ts : List Ty) (vs : List Payload) (x : Num) (retTy : Ty)
    (hl : ts.length = vs.length) (hlen : (vs.length : Int) ≤ maxInt) (hm : ∀ p ∈ vs, p.isMarked = false) :
    elementImpl [⟨.tuple ts, .seq vs⟩, numVal x] retTy =
      match Gocty.int64Exact x with
      | none => .err "invalid index"
      | some i =>
        match Spec.element? ts i, Spec.element? vs i with
        | some t, some p => .ok ⟨t, p⟩
        | _, _ => .err "cannot use element function with an empty list" := by
  simp only [elementImpl, fromCtyInt_num, fromNumInt_64]
  cases hx : Gocty.int64Exact x with
  | none => rfl
  | some i =>
    simp only [Value.unmark, Payload.unmark1, Value.isKnown, Payload.isKnown, lengthInt_tuple, Value.marks,
      Payload.marks1, Bool.not_true, Bool.false_eq_true, if_false]
    by_cases h0 : ts.length = 0
    · simp [h0, Spec.element?]
    · have hpos : 0 < ts.length := by omega
      have hw := wrapIndex_eq i ts.length hpos
      have hnn := Int.emod_nonneg i (b := (ts.length : Int)) (by omega)
      have hlt := Int.emod_lt_of_pos i (b := (ts.length : Int)) (by omega)
      have hn : wrapIndex i ts.length = ((i % (ts.length : Int)).toNat : Int) := by rw [hw]; omega
      have hlt' : (i % (ts.length : Int)).toNat < ts.length := by omega
      have hlt2 : (i % (ts.length : Int)).toNat < vs.length := by omega
      have h0' : ¬ vs.length = 0 := by omega
      simp only [h0, h0', beq_iff_eq, if_false, hn, Spec.element?]
      rw [index_tuple_nat ts vs _ (by omega)]
      rw [← hl, List.getElem?_eq_getElem hlt']
      have : vs[(i % (ts.length : Int)).toNat]? = some vs[(i % (ts.length : Int)).toNat] :=
        List.getElem?_eq_getElem hlt2
      simp only [this, Res.map]
      rw [withMarkSets_nil_of_unmarked _ (hm _ (List.getElem_mem hlt2))]

theorem elementType_list (e : Ty) (p : Payload) (idx : Value) :
    elementType [⟨.list e, p⟩, idx] = .ok e := rfl

theorem elementType_tuple (ts : List Ty) (p : Payload) (x : Num) :
    elementType [⟨.tuple ts, p⟩, numVal x] =
      match Gocty.int64Exact x with
      | none => .err "invalid index"
      | some i =>
        match Spec.element? ts i with
        | none => .err "cannot use element function with an empty list"
        | some t => .ok t := by
  have hk : (numVal x).isKnown = true := rfl
  simp only [elementType, fromCtyInt_num, fromNumInt_64, hk, Bool.not_true, Bool.false_eq_true, if_false]
  cases hx : Gocty.int64Exact x with
  | none => rfl
  | some i =>
    by_cases h0 : ts.length = 0
    · simp [h0, Spec.element?]
    · have hpos : 0 < ts.length := by omega
      have hw := wrapIndex_eq i ts.length hpos
      have hnn := Int.emod_nonneg i (b := (ts.length : Int)) (by omega)
      have hlt := Int.emod_lt_of_pos i (b := (ts.length : Int)) (by omega)
      have hlt' : (i % (ts.length : Int)).toNat < ts.length := by omega
      simp only [h0, beq_iff_eq, if_false, hw, Spec.element?]
      rw [List.getElem?_eq_getElem hlt']

/-! ### `reverse` -/

theorem reverseLoop_eq (l out : List Value) : reverseLoop l out = l.reverse ++ out := by
  induction l generalizing out with
  | nil => rfl
  | cons v l ih => simp [reverseLoop, ih]

theorem asValueSlice_list (E : Env) (e : Ty) (vs : List Payload) :
    asValueSlice E ⟨.list e, .seq vs⟩ = .ok (vs.map (⟨e, ·⟩)) := by
  cases vs <;> simp [asValueSlice]

theorem asValueSlice_tuple (E : Env) (ts : List Ty) (vs : List Payload) (h : ts.length = vs.length) :
    asValueSlice E ⟨.tuple ts, .seq vs⟩ = .ok (zipTV ts vs) := by
  cases ts with
  | nil => cases vs <;> simp_all [asValueSlice, zipTV]
  | cons t ts => simp [asValueSlice]

theorem reverseImpl_list (E : Env) (e : Ty) (he : e.equals e = true) (vs : List Payload) :
    reverseImpl E [⟨.list e, .seq vs⟩] (.list e) = .ok (mkList e vs.reverse) := by
  simp only [reverseImpl, Value.unmark, Payload.unmark1, asValueSlice_list, reverseLoop_eq, List.append_nil,
    isTupleTy, Bool.false_eq_true, if_false, Value.marks, Payload.marks1, List.length_reverse, List.length_map]
  by_cases h0 : vs.length = 0
  · have : vs = [] := List.eq_nil_of_length_eq_zero h0
    subst this
    rfl
  · have hne : vs.reverse ≠ [] := by
      intro h; apply h0; simpa using congrArg List.length h
    simp only [h0, beq_iff_eq, if_false, ← List.map_reverse]
    rw [listVal_map e he _ hne]
    rfl

theorem zipTV_reverse (ts : List Ty) (vs : List Payload) (h : ts.length = vs.length) :
    (zipTV ts vs).reverse = zipTV ts.reverse vs.reverse := by
  induction ts generalizing vs with
  | nil => cases vs <;> simp_all [zipTV]
  | cons t ts ih =>
    cases vs with
    | nil => simp at h
    | cons v vs =>
      have hl : ts.length = vs.length := by simpa using h
      simp only [zipTV, List.reverse_cons, ih vs hl]
      clear ih
      have key : ∀ (as : List Ty) (bs : List Payload), as.length = bs.length →
          zipTV (as ++ [t]) (bs ++ [v]) = zipTV as bs ++ [⟨t, v⟩] := by
        intro as
        induction as with
        | nil => intro bs hb; cases bs <;> simp_all [zipTV]
        | cons a as iha =>
          intro bs hb
          cases bs with
          | nil => simp at hb
          | cons b bs => simp [zipTV, iha bs (by simpa using hb)]
      exact (key _ _ (by simp [hl])).symm

theorem reverseImpl_tuple (E : Env) (ts : List Ty) (vs : List Payload) (h : ts.length = vs.length) :
    reverseImpl E [⟨.tuple ts, .seq vs⟩] (.tuple ts.reverse) = .ok ⟨.tuple ts.reverse, .seq vs.reverse⟩ := by
  simp only [reverseImpl, Value.unmark, Payload.unmark1, isSetTy, Bool.false_and, Bool.false_eq_true, if_false,
    asValueSlice_tuple E ts vs h, reverseLoop_eq,
    List.append_nil, isTupleTy, if_true, Value.marks, Payload.marks1, zipTV_reverse ts vs h]
  simp [Gocty.tupleVal, tysOf_zipTV, payloads_zipTV, h, withMarkSets, Fn.withMarkSets, Fn.unionAll,
    Value.withMarks, Payload.withMarks, Payload.marks1, unionMarks]

/-- a set that is not wholly known: neither its iteration order nor its number of
members is settled, so the result is an unknown of the result type carrying the
argument's marks -/
theorem reverseImpl_set_unknown (E : Env) (arg : Value) (e : Ty) (retTy : Ty)
    (ht : arg.ty = .set e) (hk : arg.unmark.whollyKnown = false) :
    reverseImpl E [arg] retTy = .ok (withMarkSets (Value.unknown retTy) [arg.marks]) := by
  have hs : isSetTy arg.unmark.ty = true := by simp [Value.unmark, ht, isSetTy]
  simp [reverseImpl, hs, hk]

/-- a wholly known set: the list of its members in reversed iteration order -/
theorem reverseImpl_set_known (E : Env) (e : Ty) (he : e.equals e = true) (ids : List Int) (vs : List Payload)
    (hk : Payload.whollyKnownL vs = true) :
    reverseImpl E [⟨.set e, .sset ids vs⟩] (.list e) = .ok (mkList e (setIter E e vs).reverse) := by
  have hwk : (⟨.set e, .sset ids vs⟩ : Value).whollyKnown = true := by
    simp [Value.whollyKnown, Payload.whollyKnown, hk]
  have hu : (⟨.set e, .sset ids vs⟩ : Value).unmark = ⟨.set e, .sset ids vs⟩ := rfl
  have hm : (⟨.set e, .sset ids vs⟩ : Value).marks = [] := rfl
  have hlen : (setIter E e vs).length = vs.length := (SetImpl.sortStable_perm _ vs).length_eq
  have hsl : asValueSlice E ⟨.set e, .sset ids vs⟩ = .ok ((setIter E e vs).map (⟨e, ·⟩)) := by
    cases vs with
    | nil => rfl
    | cons v vs => simp [asValueSlice]
  simp only [reverseImpl, hu, hm, hwk, Bool.not_true, Bool.and_false, Bool.false_eq_true, if_false, hsl,
    reverseLoop_eq, List.append_nil, isTupleTy, List.length_reverse, List.length_map, hlen]
  by_cases h0 : vs.length = 0
  · have : vs = [] := List.eq_nil_of_length_eq_zero h0
    subst this
    rfl
  · have hne : (setIter E e vs).reverse ≠ [] := by
      intro h; apply h0; have := congrArg List.length h; simp [hlen] at this; simp [this]
    simp only [h0, beq_iff_eq, if_false, ← List.map_reverse]
    rw [listVal_map e he _ hne]
    rfl

theorem reverseType_list (e : Ty) (p : Payload) : reverseType [⟨.list e, p⟩] = .ok (.list e) := rfl
theorem reverseType_set (e : Ty) (p : Payload) : reverseType [⟨.set e, p⟩] = .ok (.list e) := rfl
theorem reverseType_tuple (ts : List Ty) (p : Payload) :
    reverseType [⟨.tuple ts, p⟩] = .ok (.tuple ts.reverse) := rfl

/-! ### `slice` -/

theorem length_list_known (e : Ty) (vs : List Payload) :
    Value.length ⟨.list e, .seq vs⟩ = .ok (intVal vs.length) := C02.length_list e vs

theorem intVal_isKnown (i : Int) : (intVal i).isKnown = true := rfl

/-- `sliceIndexes` on a known list and two known numbers -/
theorem sliceIndexes_list (e : Ty) (vs : List Payload) (a b : Num) :
    sliceIndexes [⟨.list e, .seq vs⟩, numVal a, numVal b] =
      match Gocty.int64Exact a with
      | none => .err "invalid start index"
      | some s =>
        if s < 0 then .err "start index must not be less than zero"
        else if s > vs.length then .err "start index must not be greater than the length of the list"
        else
          match Gocty.int64Exact b with
          | none => .err "invalid end index"
          | some t =>
            if t < 0 then .err "end index must not be less than zero"
            else if t > vs.length then .err "end index must not be greater than the length of the list"
            else if s > t then .err "start index must not be greater than end index"
            else .ok ⟨s, t, true⟩ := by
  have hk : ∀ x, (numVal x).isKnown = true := fun _ => rfl
  have hlk : (⟨.list e, .seq vs⟩ : Value).isKnown = true := rfl
  simp only [sliceIndexes, Value.unmark, Payload.unmark1, isTupleTy, Bool.false_eq_true, if_false, hlk,
    Bool.not_true,
    length_list_known, intVal_isKnown, if_true, lengthInt_list, Res.map, hk, fromCtyInt_num, fromNumInt_64]
  cases ha : Gocty.int64Exact a with
  | none => rfl
  | some s =>
    by_cases h1 : s < 0
    · simp [h1]
    · by_cases h2 : s > vs.length
      · simp [h1, h2]
      · simp only [h1, h2, if_false, decide_false, Bool.false_eq_true]
        cases hb : Gocty.int64Exact b with
        | none => rfl
        | some t =>
          by_cases h3 : t < 0
          · simp [h3]
          · by_cases h4 : t > vs.length
            · simp [h3, h4]
            · by_cases h5 : s > t
              · simp [h3, h4, h5]
              · simp [h3, h4, h5]

/-- the indices a call passes, read as integers in the documented domain -/
def SliceArgs (len : Nat) (a b : Num) (s t : Int) : Prop :=
  Gocty.int64Exact a = some s ∧ Gocty.int64Exact b = some t ∧ Spec.sliceDomain len s t

theorem sliceIndexes_list_ok (e : Ty) (vs : List Payload) (a b : Num) (s t : Int)
    (h : SliceArgs vs.length a b s t) :
    sliceIndexes [⟨.list e, .seq vs⟩, numVal a, numVal b] = .ok ⟨s, t, true⟩ := by
  obtain ⟨ha, hb, h0, hst, htl⟩ := h
  rw [sliceIndexes_list, ha, hb]
  have h1 : ¬ s < 0 := by omega
  have h2 : ¬ s > vs.length := by omega
  have h3 : ¬ t < 0 := by omega
  have h4 : ¬ t > vs.length := by omega
  have h5 : ¬ s > t := by omega
  simp [h1, h2, h3, h4, h5]

theorem sliceIndexes_list_err (e : Ty) (vs : List Payload) (a b : Num)
    (h : ¬ ∃ s t, SliceArgs vs.length a b s t) :
    Fails (sliceIndexes [⟨.list e, .seq vs⟩, numVal a, numVal b]) := by
  rw [sliceIndexes_list]
  cases ha : Gocty.int64Exact a with
  | none => exact ⟨_, rfl⟩
  | some s =>
    by_cases h1 : s < 0
    · simp only [h1, if_true]; exact ⟨_, rfl⟩
    · by_cases h2 : s > vs.length
      · simp only [h1, h2, if_true, if_false]; exact ⟨_, rfl⟩
      · simp only [h1, h2, if_false]
        cases hb : Gocty.int64Exact b with
        | none => exact ⟨_, rfl⟩
        | some t =>
          by_cases h3 : t < 0
          · simp only [h3, if_true]; exact ⟨_, rfl⟩
          · by_cases h4 : t > vs.length
            · simp only [h3, h4, if_true, if_false]; exact ⟨_, rfl⟩
            · by_cases h5 : s > t
              · simp only [h3, h4, h5, if_true, if_false]; exact ⟨_, rfl⟩
              · exfalso
                exact h ⟨s, t, ha, hb, by omega, by omega, by omega⟩

theorem goSlice_ok {α} (l : List α) (s t : Int) (h0 : 0 ≤ s) (hst : s ≤ t) (htl : t ≤ l.length) :
    goSlice l s t = .ok (Spec.slice l s.toNat t.toNat) := by
  have : ¬ (s < 0 ∨ t < s ∨ t > l.length) := by omega
  simp only [goSlice, Spec.slice]
  have h1 : ¬ s < 0 := by omega
  have h2 : ¬ t < s := by omega
  have h3 : ¬ t > l.length := by omega
  simp only [h1, h2, h3, decide_false, Bool.or_self, Bool.false_eq_true, if_false]
  congr 2
  omega

theorem slice_map {α β} (f : α → β) (l : List α) (a b : Nat) :
    Spec.slice (l.map f) a b = (Spec.slice l a b).map f := by
  simp [Spec.slice, List.map_take, List.map_drop]

/-- `slice` on a known list: inside the documented domain `0 ≤ start ≤ end ≤ length`
(whole numbers) it returns the elements at positions `start ≤ p < end` -/
theorem sliceImpl_list_ok (E : Env) (e : Ty) (he : e.equals e = true) (vs : List Payload) (a b : Num)
    (s t : Int) (h : SliceArgs vs.length a b s t) :
    sliceImpl E [⟨.list e, .seq vs⟩, numVal a, numVal b] (.list e) =
      .ok (mkList e (Spec.slice vs s.toNat t.toNat)) := by
  have hi := sliceIndexes_list_ok e vs a b s t h
  obtain ⟨ha, hb, h0, hst, htl⟩ := h
  simp only [sliceImpl, Ty.isDyn, Bool.false_eq_true, if_false, hi, Value.unmark, Payload.unmark1,
    Value.marks, Payload.marks1, isTupleTy, elementTypeOf, Res.map, asValueSlice_list]
  by_cases hz : t - s = 0
  · have : Spec.slice vs s.toNat t.toNat = [] := by simp [Spec.slice]; omega
    simp [hz, this]
    rfl
  · simp only [hz, beq_iff_eq, if_false]
    rw [goSlice_ok _ s t h0 hst (by simpa using htl), slice_map]
    have hne : Spec.slice vs s.toNat t.toNat ≠ [] := by
      intro hnil
      have := congrArg List.length hnil
      simp [Spec.slice] at this
      omega
    simp only [listVal_map e he _ hne]
    rfl

/-- …and outside it the call fails -/
theorem sliceImpl_list_err (E : Env) (e : Ty) (vs : List Payload) (a b : Num)
    (h : ¬ ∃ s t, SliceArgs vs.length a b s t) :
    Fails (sliceImpl E [⟨.list e, .seq vs⟩, numVal a, numVal b] (.list e)) := by
  obtain ⟨c, hc⟩ := sliceIndexes_list_err e vs a b h
  exact ⟨c, by simp [sliceImpl, Ty.isDyn, hc]⟩

theorem sliceType_list_ok (e : Ty) (vs : List Payload) (a b : Num) (s t : Int)
    (h : SliceArgs vs.length a b s t) :
    sliceType [⟨.list e, .seq vs⟩, numVal a, numVal b] = .ok (.list e) := by
  simp [sliceType, isSetTy, isListTy, isTupleTy, sliceIndexes_list_ok e vs a b s t h]

/-! ### `compact` -/

/-- a member of a known list of strings: a string or null -/
def isStrOrNull : Payload → Bool
  | .s _ | .null => true
  | _ => false

/-- what `compact` keeps: non-null, non-empty strings -/
def keepsCompact : Payload → Bool
  | .s s => s != ""
  | _ => false

theorem whollyKnownL_strOrNull (vs : List Payload) (h : ∀ p ∈ vs, isStrOrNull p = true) :
    Payload.whollyKnownL vs = true := by
  induction vs with
  | nil => rfl
  | cons v vs ih =>
    have hv := h v (by simp)
    have := ih (fun p hp => h p (by simp [hp]))
    cases v <;> simp_all [Payload.whollyKnownL, Payload.whollyKnown, isStrOrNull]

theorem compactLoop_eq (vs : List Payload) (h : ∀ p ∈ vs, isStrOrNull p = true) :
    compactLoop (vs.map (⟨.string, ·⟩)) = .ok ((vs.filter keepsCompact).map (⟨.string, ·⟩)) := by
  induction vs with
  | nil => rfl
  | cons v vs ih =>
    have hv := h v (by simp)
    have ih' := ih (fun p hp => h p (by simp [hp]))
    cases v <;> simp [isStrOrNull] at hv
    · -- null
      simp [compactLoop, Value.isNull, Payload.isNull, Payload.unmark1, ih', keepsCompact]
    · rename_i s
      by_cases hs : s = ""
      · simp [compactLoop, Value.isNull, Payload.isNull, Payload.unmark1, asString, Value.isMarked,
          Payload.isMarked, Ty.isString, ih', keepsCompact, hs]
      · have hk : keepsCompact (.s s) = true := by simp [keepsCompact, hs]
        simp [compactLoop, Value.isNull, Payload.isNull, Payload.unmark1, asString, Value.isMarked,
          Payload.isMarked, Ty.isString, ih', hs, List.filter_cons, hk]

/-- `compact` returns the non-null, non-empty strings in their original order -/
theorem compactImpl_eq (E : Env) (vs : List Payload) (h : ∀ p ∈ vs, isStrOrNull p = true) (retTy : Ty) :
    compactImpl E [⟨.list .string, .seq vs⟩] retTy = .ok (mkList .string (vs.filter keepsCompact)) := by
  have hk : (⟨.list .string, .seq vs⟩ : Value).whollyKnown = true := by
    simp [Value.whollyKnown, Payload.whollyKnown, whollyKnownL_strOrNull vs h]
  simp only [compactImpl, hk, Bool.not_true, Bool.false_eq_true, if_false, elems_list, compactLoop_eq vs h,
    List.length_map]
  by_cases h0 : (vs.filter keepsCompact).length = 0
  · have := List.eq_nil_of_length_eq_zero h0
    simp [h0, this, listEmpty, mkList]
  · have hne : vs.filter keepsCompact ≠ [] := fun hn => h0 (by simp [hn])
    simp only [h0, beq_iff_eq, if_false]
    exact listVal_map .string rfl _ hne

/-! ### `sort` -/

theorem insertStr_perm (s : String) (l : List String) : (insertStr s l).Perm (s :: l) := by
  induction l with
  | nil => exact List.Perm.refl _
  | cons x xs ih =>
    simp only [insertStr]
    split
    · exact List.Perm.refl _
    · exact (List.Perm.cons x ih).trans (List.Perm.swap s x xs)

theorem sortStrings_perm (l : List String) : (sortStrings l).Perm l := by
  induction l with
  | nil => exact List.Perm.refl _
  | cons x xs ih =>
    simp only [sortStrings, List.foldr_cons]
    exact (insertStr_perm x _).trans (List.Perm.cons x ih)

theorem insertStr_sorted (s : String) (l : List String) (h : l.Pairwise (· ≤ ·)) :
    (insertStr s l).Pairwise (· ≤ ·) := by
  induction l with
  | nil => simp [insertStr]
  | cons x xs ih =>
    simp only [insertStr]
    have hx := List.pairwise_cons.mp h
    split
    · rename_i hsx
      refine List.pairwise_cons.mpr ⟨?_, h⟩
      intro y hy
      rcases List.mem_cons.mp hy with rfl | hy
      · exact hsx
      · exact String.le_trans hsx (hx.1 y hy)
    · rename_i hsx
      have hxs : x ≤ s := by
        rcases String.le_total s x with h1 | h1
        · exact absurd h1 hsx
        · exact h1
      refine List.pairwise_cons.mpr ⟨?_, ih hx.2⟩
      intro y hy
      rcases List.mem_cons.mp ((insertStr_perm s xs).mem_iff.mp hy) with rfl | hy
      · exact hxs
      · exact hx.1 y hy

theorem sortStrings_sorted (l : List String) : (sortStrings l).Pairwise (· ≤ ·) := by
  induction l with
  | nil => simp [sortStrings]
  | cons x xs ih =>
    simp only [sortStrings, List.foldr_cons]
    exact insertStr_sorted x _ ih

theorem sortStrings_isSort (l : List String) : Spec.IsSortOf (· ≤ ·) l (sortStrings l) :=
  ⟨sortStrings_perm l, sortStrings_sorted l⟩

theorem sortCollect_strs (ss : List String) :
    sortCollect (ss.map fun s => ⟨.string, .s s⟩) = .ok ss := by
  induction ss with
  | nil => rfl
  | cons s ss ih =>
    simp [sortCollect, Value.isNull, Payload.isNull, Payload.unmark1, asString, Value.isMarked,
      Payload.isMarked, Ty.isString, ih]

theorem whollyKnownL_strs (ss : List String) : Payload.whollyKnownL (ss.map Payload.s) = true := by
  induction ss with
  | nil => rfl
  | cons s ss ih => simp [Payload.whollyKnownL, Payload.whollyKnown, ih]

/-- `sort` on a known list of non-null strings returns the list of the same
strings in the arrangement `sortStrings` -/
theorem sortImpl_eq (E : Env) (ss : List String) (retTy : Ty) :
    sortImpl E [⟨.list .string, .seq (ss.map Payload.s)⟩] retTy =
      .ok (mkList .string ((sortStrings ss).map Payload.s)) := by
  have hk : (⟨.list .string, .seq (ss.map Payload.s)⟩ : Value).whollyKnown = true := by
    simp [Value.whollyKnown, Payload.whollyKnown, whollyKnownL_strs]
  simp only [sortImpl, hk, Bool.not_true, Bool.false_eq_true, if_false, lengthInt_list, List.length_map,
    elems_list]
  by_cases h0 : ss.length = 0
  · have := List.eq_nil_of_length_eq_zero h0
    subst this
    rfl
  · simp only [h0, beq_iff_eq, if_false, List.map_map]
    have : (ss.map ((fun x => (⟨.string, x⟩ : Value)) ∘ Payload.s)) = ss.map fun s => ⟨.string, .s s⟩ := rfl
    rw [this, sortCollect_strs]
    have hne : (sortStrings ss).map Payload.s ≠ [] := by
      intro hn
      have h1 := congrArg List.length hn
      have h2 := (sortStrings_perm ss).length_eq
      simp only [List.length_map, List.length_nil] at h1
      omega
    have := listVal_map .string rfl _ hne
    simp only [List.map_map] at this
    simp only [strVal]
    exact this

/-- a null member is rejected -/
theorem sortCollect_null (pre : List String) (rest : List Payload) :
    Fails (sortCollect ((pre.map fun s => (⟨.string, .s s⟩ : Value)) ++ ⟨.string, .null⟩ :: rest.map (⟨.string, ·⟩))) := by
  induction pre with
  | nil => exact ⟨"given list element is null; a null string cannot be sorted",
      by simp [sortCollect, Value.isNull, Payload.isNull, Payload.unmark1]⟩
  | cons s pre ih =>
    obtain ⟨c, hc⟩ := ih
    refine ⟨c, ?_⟩
    simp only [List.map_cons, List.cons_append, sortCollect, Value.isNull, Payload.isNull, Payload.unmark1,
      Bool.false_eq_true, if_false, asString, Value.isMarked, Payload.isMarked, Ty.isString, Bool.not_true, hc]

/-! ### `distinct` -/

/-- the equality `distinct` uses, as a Boolean: `Equal(a, b)` is known and true -/
def eqT (a b : Value) : Bool :=
  match equalCall a b with
  | .ok v => v.isTrue
  | _ => false

/-- every comparison among these values is decided (a known `Bool`): what
`Equals` does on wholly known, mark-free values (C01 `known_in_known_out`) -/
def Decided (l : List Value) : Prop :=
  ∀ a ∈ l, ∀ b ∈ l, ∃ bv, equalCall a b = .ok (boolVal bv)

theorem isMissing_eq (x : Value) (slice : List Value)
    (h : ∀ a ∈ slice, ∃ bv, equalCall a x = .ok (boolVal bv)) :
    isMissing x slice = .ok (!slice.any (fun y => eqT y x)) := by
  induction slice with
  | nil => rfl
  | cons y ys ih =>
    obtain ⟨bv, hb⟩ := h y (by simp)
    have ih' := ih (fun a ha => h a (by simp [ha]))
    cases bv
    · simp [isMissing, hb, boolTrue, boolVal, Value.isMarked, Payload.isMarked, Ty.isBool, ih', eqT,
        Value.isTrue]
    · simp [isMissing, hb, boolTrue, boolVal, Value.isMarked, Payload.isMarked, Ty.isBool, eqT,
        Value.isTrue]

theorem distinctLoop_eq (before acc xs : List Value)
    (hd : Decided (before ++ xs))
    (htr : ∀ a b c, eqT a b = true → eqT b c = true → eqT a c = true)
    (hsub : ∀ z ∈ acc, z ∈ before)
    (hrep : ∀ y ∈ before, y ∈ acc ∨ ∃ z ∈ acc, eqT z y = true) :
    distinctLoop acc xs = .ok (acc ++ Spec.firstOccsFrom eqT before xs) := by
  induction xs generalizing before acc with
  | nil => simp [distinctLoop, Spec.firstOccsFrom]
  | cons x xs ih =>
    have hmiss : isMissing x acc = .ok (!acc.any (fun y => eqT y x)) := by
      apply isMissing_eq
      intro a ha
      exact hd a (by simp [hsub a ha]) x (by simp)
    have hany : acc.any (fun y => eqT y x) = before.any (fun y => eqT y x) := by
      rw [Bool.eq_iff_iff, List.any_eq_true, List.any_eq_true]
      constructor
      · rintro ⟨z, hz, hzx⟩; exact ⟨z, hsub z hz, hzx⟩
      · rintro ⟨y, hy, hyx⟩
        rcases hrep y hy with hya | ⟨z, hz, hzy⟩
        · exact ⟨y, hya, hyx⟩
        · exact ⟨z, hz, htr z y x hzy hyx⟩
    have hd' : Decided ((before ++ [x]) ++ xs) := by simpa using hd
    simp only [distinctLoop, appendIfMissing, hmiss, Spec.firstOccsFrom]
    by_cases hb : before.any (fun y => eqT y x) = true
    · have ha : acc.any (fun y => eqT y x) = true := hany ▸ hb
      simp only [ha, hb, Bool.not_true, if_true]
      apply ih (before ++ [x]) acc hd'
      · intro z hz; simp [hsub z hz]
      · intro y hy
        rcases List.mem_append.mp hy with hy | hy
        · exact hrep y hy
        · simp only [List.mem_singleton] at hy
          subst hy
          right
          simpa [List.any_eq_true] using ha
    · have hb' : before.any (fun y => eqT y x) = false := by simpa using hb
      have ha : acc.any (fun y => eqT y x) = false := hany ▸ hb'
      simp only [ha, hb', Bool.not_false, Bool.false_eq_true, if_false]
      rw [ih (before ++ [x]) (acc ++ [x]) hd']
      · simp
      · intro z hz
        rcases List.mem_append.mp hz with hz | hz
        · simp [hsub z hz]
        · simp at hz; simp [hz]
      · intro y hy
        rcases List.mem_append.mp hy with hy | hy
        · rcases hrep y hy with h1 | ⟨z, hz, hzy⟩
          · left; simp [h1]
          · right; exact ⟨z, by simp [hz], hzy⟩
        · left; simp at hy; simp [hy]

/-- `distinct` keeps exactly the first occurrences, in order -/
theorem distinctImpl_eq (E : Env) (e : Ty) (he : e.equals e = true) (vs : List Payload)
    (hk : Payload.whollyKnownL vs = true)
    (hd : Decided (vs.map (⟨e, ·⟩)))
    (htr : ∀ a b c, eqT a b = true → eqT b c = true → eqT a c = true) :
    ∃ kept, distinctImpl E [⟨.list e, .seq vs⟩] (.list e) = .ok (mkList e kept) ∧
      kept.map (⟨e, ·⟩) = Spec.firstOccs eqT (vs.map (⟨e, ·⟩)) := by
  have hk' : (⟨.list e, .seq vs⟩ : Value).whollyKnown = true := by
    simp [Value.whollyKnown, Payload.whollyKnown, hk]
  have hloop := distinctLoop_eq [] [] (vs.map (⟨e, ·⟩)) (by simpa using hd) htr (by simp) (by simp)
  simp only [List.nil_append] at hloop
  -- the kept values are members of the input, hence of the form ⟨e, p⟩
  have hsub : ∀ (before l : List Value), ∀ v ∈ Spec.firstOccsFrom eqT before l, v ∈ l := by
    intro before l
    induction l generalizing before with
    | nil => simp [Spec.firstOccsFrom]
    | cons x xs ih =>
      intro v hv
      simp only [Spec.firstOccsFrom] at hv
      split at hv
      · exact List.mem_cons_of_mem _ (ih _ v hv)
      · rcases List.mem_cons.mp hv with rfl | hv
        · simp
        · exact List.mem_cons_of_mem _ (ih _ v hv)
  have hform : ∀ l : List Value, (∀ v ∈ l, ∃ p, v = ⟨e, p⟩) → ∃ ps : List Payload, l = ps.map (⟨e, ·⟩) := by
    intro l
    induction l with
    | nil => intro _; exact ⟨[], rfl⟩
    | cons v l ih =>
      intro h
      obtain ⟨p, hp⟩ := h v (by simp)
      obtain ⟨ps, hps⟩ := ih (fun w hw => h w (by simp [hw]))
      exact ⟨p :: ps, by simp [hp, hps]⟩
  obtain ⟨kept, hkept⟩ := hform (Spec.firstOccsFrom eqT [] (vs.map (⟨e, ·⟩))) (by
    intro v hv
    have := hsub [] _ v hv
    simp only [List.mem_map] at this
    obtain ⟨p, _, hp⟩ := this
    exact ⟨p, hp.symm⟩)
  refine ⟨kept, ?_, by simp [Spec.firstOccs, hkept]⟩
  simp only [distinctImpl, hk', Bool.not_true, Bool.false_eq_true, if_false, elems_list, hloop, hkept,
    List.length_map, elementTypeOf, Res.map]
  by_cases h0 : kept.length = 0
  · have := List.eq_nil_of_length_eq_zero h0
    simp [this, listEmpty, mkList]
  · have hne : kept ≠ [] := fun hn => h0 (by simp [hn])
    simp only [h0, beq_iff_eq, if_false]
    exact listVal_map e he _ hne

/-! ### `coalescelist` -/

/-- `coalescelist` on known arguments of list or tuple type: the first one that is
neither null nor empty; an error when there is none -/
theorem coalesceListLoop_eq (retTy : Ty) (args : List Value)
    (hk : ∀ a ∈ args, a.isKnown = true ∧ a.isMarked = false)
    (hl : ∀ a ∈ args, a.isNull = false → ∃ n, lengthInt a = .ok n) :
    coalesceListLoop retTy args =
      match args.find? (fun a => !a.isNull && (match lengthInt a with | .ok n => decide (n > 0) | _ => false)) with
      | some a => .ok a
      | none => .err "no non-null arguments" := by
  induction args with
  | nil => rfl
  | cons a rest ih =>
    have ha := hk a (by simp)
    have ih' := ih (fun b hb => hk b (by simp [hb])) (fun b hb => hl b (by simp [hb]))
    simp only [coalesceListLoop, ha.1, Bool.not_true, Bool.false_eq_true, if_false, List.find?_cons]
    by_cases hn : a.isNull = true
    · simp [hn, ih']
    · have hn' : a.isNull = false := by simpa using hn
      obtain ⟨n, hlen⟩ := hl a (by simp) hn'
      by_cases hpos : n > 0
      · simp [hn', hlen, hpos]
      · simp [hn', hlen, hpos, ih']

/-! ### `chunklist` -/

theorem dropLast_cons_of_ne_nil {α} (a : α) (l : List α) (h : l ≠ []) :
    (a :: l).dropLast = a :: l.dropLast := by
  cases l with
  | nil => exact absurd rfl h
  | cons b l => rfl

theorem succ_mod (i n : Nat) (hn : 0 < n) :
    (i + 1) % n = if i % n + 1 = n then 0 else i % n + 1 := by
  have h := Nat.div_add_mod i n
  have hlt := Nat.mod_lt i hn
  have h2 : i + 1 = n * (i / n) + (i % n + 1) := by omega
  have h3 : (i + 1) % n = (i % n + 1) % n := by
    conv => lhs; rw [h2]
    exact Nat.mul_add_mod ..
  rw [h3]
  split
  · rename_i h1; rw [h1]; exact Nat.mod_self n
  · exact Nat.mod_eq_of_lt (by omega)

/-- the chunk loop, from any reachable state: `i` elements consumed, `i + |rest| = l`,
and either nothing is left and the open chunk is empty, or the open chunk `cp`
holds the last `i % n` elements consumed -/
theorem chunkLoop_spec (e : Ty) (he : e.equals e = true) (n l : Nat) (hn : 0 < n) :
    ∀ (ps cp : List Payload) (i : Nat) (output : List Value),
      i + ps.length = l → ((ps = [] ∧ cp = []) ∨ (ps ≠ [] ∧ cp.length = i % n)) →
      ∃ cs : List (List Payload),
        chunkLoop n l i (cp.map (⟨e, ·⟩)) output (ps.map (⟨e, ·⟩)) =
          .ok (output ++ cs.map (fun c => ⟨.list e, .seq c⟩)) ∧
        cs.flatten = cp ++ ps ∧ (∀ c ∈ cs, c ≠ []) ∧ (∀ c ∈ cs.dropLast, c.length = n) ∧
        (∀ c ∈ cs, c.length ≤ n) := by
  intro ps
  induction ps with
  | nil =>
    intro cp i output _ hinv
    rcases hinv with ⟨_, rfl⟩ | ⟨h, _⟩
    · exact ⟨[], by simp [chunkLoop], by simp, by simp, by simp, by simp⟩
    · exact absurd rfl h
  | cons p ps ih =>
    intro cp i output hil hinv
    have hcp : cp.length = i % n := by
      rcases hinv with ⟨h, _⟩ | ⟨_, h⟩
      · simp at h
      · exact h
    have hlt : i % n < n := Nat.mod_lt _ hn
    have hsm := succ_mod i n hn
    have hil' : i + 1 + ps.length = l := by simp at hil; omega
    simp only [List.map_cons, chunkLoop]
    have hchunk : cp.map (⟨e, ·⟩) ++ [(⟨e, p⟩ : Value)] = (cp ++ [p]).map (⟨e, ·⟩) := by simp
    rw [hchunk]
    by_cases hclose : ((i + 1) % n == 0 || i + 1 == l) = true
    · simp only [hclose, if_true]
      rw [listVal_map e he (cp ++ [p]) (by simp)]
      simp only
      have hinv' : (ps = [] ∧ ([] : List Payload) = []) ∨ (ps ≠ [] ∧ ([] : List Payload).length = (i + 1) % n) := by
        by_cases hps : ps = []
        · exact Or.inl ⟨hps, rfl⟩
        · right
          refine ⟨hps, ?_⟩
          have hlen : 0 < ps.length := List.length_pos_iff.mpr hps
          rcases (Bool.or_eq_true _ _).mp hclose with h | h
          · simp at h; simp [h]
          · simp only [beq_iff_eq] at h; omega
      obtain ⟨cs, hrun, hflat, hne, hfull, hle⟩ :=
        ih [] (i + 1) (output ++ [⟨.list e, .seq (cp ++ [p])⟩]) hil' hinv'
      refine ⟨(cp ++ [p]) :: cs, ?_, ?_, ?_, ?_, ?_⟩
      · simp only [List.map_nil] at hrun
        rw [hrun]; simp
      · simp [hflat]
      · intro c hc
        rcases List.mem_cons.mp hc with rfl | hc
        · simp
        · exact hne c hc
      · intro c hc
        by_cases hcs : cs = []
        · subst hcs; simp at hc
        · rw [dropLast_cons_of_ne_nil _ _ hcs] at hc
          rcases List.mem_cons.mp hc with rfl | hc
          · -- cs ≠ [] means ps ≠ [], so i + 1 ≠ l and the chunk was closed by the modulus
            have hps : ps ≠ [] := by
              intro hps
              subst hps
              simp only [List.nil_append] at hflat
              cases cs with
              | nil => exact hcs rfl
              | cons c cs =>
                have h1 := hne c (by simp)
                have h2 := congrArg List.length hflat
                simp only [List.flatten_cons, List.length_append, List.length_nil] at h2
                exact h1 (List.eq_nil_of_length_eq_zero (by omega))
            have hlen : 0 < ps.length := List.length_pos_iff.mpr hps
            have hmod : (i + 1) % n = 0 := by
              rcases (Bool.or_eq_true _ _).mp hclose with h | h
              · simpa using h
              · simp only [beq_iff_eq] at h; omega
            simp only [List.length_append, List.length_cons, List.length_nil, hcp]
            rw [hmod] at hsm
            split at hsm <;> omega
          · exact hfull c hc
      · intro c hc
        rcases List.mem_cons.mp hc with rfl | hc
        · simp [hcp]; omega
        · exact hle c hc
    · have hclose' : ((i + 1) % n == 0 || i + 1 == l) = false := by simpa using hclose
      have hm : (i + 1) % n ≠ 0 := by
        intro h; simp [h] at hclose'
      have hl : i + 1 ≠ l := by
        intro h; simp [h] at hclose'
      simp only [hclose', Bool.false_eq_true, if_false]
      have hps : ps ≠ [] := by
        intro hps; subst hps; simp at hil'; exact hl hil'
      have hinv' : (ps = [] ∧ cp ++ [p] = []) ∨ (ps ≠ [] ∧ (cp ++ [p]).length = (i + 1) % n) := by
        right
        refine ⟨hps, ?_⟩
        simp only [List.length_append, List.length_cons, List.length_nil, hcp]
        split at hsm <;> omega
      obtain ⟨cs, hrun, hflat, hne, hfull, hle⟩ := ih (cp ++ [p]) (i + 1) output hil' hinv'
      exact ⟨cs, hrun, by simp [hflat], hne, hfull, hle⟩

/-- `chunklist` with a positive whole size: the result is the list of the chunks
of a chunking of the input into pieces of that size -/
theorem chunklistImpl_pos (E : Env) (e : Ty) (he : e.equals e = true) (vs : List Payload) (x : Num) (n : Nat)
    (hx : Gocty.int64Exact x = some (n : Int)) (hn : 0 < n) (retTy : Ty) :
    ∃ cs : List (List Payload),
      chunklistImpl E [⟨.list e, .seq vs⟩, numVal x] retTy = .ok ⟨.list (.list e), .seq (cs.map Payload.seq)⟩ ∧
      Spec.IsChunking n vs cs := by
  have hu : (numVal x).unmark = numVal x := rfl
  have hmk : (numVal x).marks = [] := rfl
  simp only [chunklistImpl, hu, hmk, fromCtyInt_num, fromNumInt_64, hx]
  simp only [Value.unmark, Payload.unmark1, lengthInt_list, elems_list, Value.marks, Payload.marks1]
  have h1 : ¬ ((n : Int) < 0) := by omega
  have h2 : ¬ ((n : Int) = 0) := by omega
  simp only [h1, if_false, beq_iff_eq, h2, Int.toNat_natCast]
  by_cases h0 : vs.length = 0
  · have := List.eq_nil_of_length_eq_zero h0
    subst this
    refine ⟨[], ?_, by simp [Spec.IsChunking]⟩
    simp [listEmpty, withMarkSets, Fn.withMarkSets, Fn.unionAll, unionMarks, Value.withMarks,
      Payload.withMarks, Payload.marks1]
  · simp only [h0, if_false]
    obtain ⟨cs, hrun, hflat, hne, hfull, hle⟩ :=
      chunkLoop_spec e he n vs.length hn vs [] 0 [] (by simp) (by
        right; exact ⟨fun h => h0 (by simp [h]), by simp⟩)
    simp only [List.map_nil, List.nil_append] at hrun hflat
    refine ⟨cs, ?_, hflat, hne, hfull, hle⟩
    rw [hrun]
    have hcs : cs ≠ [] := by
      intro h; subst h; simp at hflat; exact h0 (by simp [← hflat])
    have hmap : cs.map (fun c => (⟨.list e, .seq c⟩ : Value)) = (cs.map Payload.seq).map (⟨.list e, ·⟩) := by
      simp
    have hlv := listVal_map (.list e) (by simpa [Ty.equals] using he) (cs.map Payload.seq) (by simpa using hcs)
    rw [hmap]
    simp only [hlv]
    simp [Res.map, withMarkSets, Fn.withMarkSets, Fn.unionAll, unionMarks, Value.withMarks,
      Payload.withMarks, Payload.marks1]

/-- size 0: the whole (non-empty) list as the single chunk -/
theorem chunklistImpl_zero (E : Env) (e : Ty) (he : e.equals e = true) (vs : List Payload) (x : Num)
    (hx : Gocty.int64Exact x = some 0) (hne : vs ≠ []) (retTy : Ty) :
    chunklistImpl E [⟨.list e, .seq vs⟩, numVal x] retTy = .ok ⟨.list (.list e), .seq [.seq vs]⟩ := by
  have hu : (numVal x).unmark = numVal x := rfl
  have hmk : (numVal x).marks = [] := rfl
  have h0 : ¬ vs.length = 0 := fun h => hne (List.eq_nil_of_length_eq_zero h)
  simp only [chunklistImpl, hu, hmk, fromCtyInt_num, fromNumInt_64, hx]
  simp only [Value.unmark, Payload.unmark1, lengthInt_list, Value.marks, Payload.marks1]
  simp only [Int.lt_irrefl, if_false, beq_iff_eq, h0, if_true]
  have := listVal_map (.list e) (by simpa [Ty.equals] using he) [.seq vs] (by simp)
  simp only [List.map_cons, List.map_nil] at this
  rw [this]
  simp [Res.map, withMarkSets, Fn.withMarkSets, Fn.unionAll, unionMarks, Value.withMarks,
    Payload.withMarks, Payload.marks1]

/-- the empty list: an empty list of lists, whatever the (valid) size -/
theorem chunklistImpl_empty (E : Env) (e : Ty) (x : Num) (i : Int)
    (hx : Gocty.int64Exact x = some i) (hi : 0 ≤ i) (retTy : Ty) :
    chunklistImpl E [⟨.list e, .seq []⟩, numVal x] retTy = .ok ⟨.list (.list e), .seq []⟩ := by
  have hu : (numVal x).unmark = numVal x := rfl
  have hmk : (numVal x).marks = [] := rfl
  have h1 : ¬ i < 0 := by omega
  simp only [chunklistImpl, hu, hmk, fromCtyInt_num, fromNumInt_64, hx]
  simp [Value.unmark, Payload.unmark1, Value.marks, Payload.marks1, h1, listEmpty, withMarkSets,
    Fn.withMarkSets, Fn.unionAll, unionMarks, Value.withMarks, Payload.withMarks]

/-- a size that is not a whole number, or is negative, is an error -/
theorem chunklistImpl_err (E : Env) (l : Value) (x : Num) (retTy : Ty)
    (h : ∀ i, Gocty.int64Exact x = some i → i < 0) :
    Fails (chunklistImpl E [l, numVal x] retTy) := by
  have hu : (numVal x).unmark = numVal x := rfl
  have hmk : (numVal x).marks = [] := rfl
  simp only [chunklistImpl, hu, fromCtyInt_num, fromNumInt_64]
  cases hx : Gocty.int64Exact x with
  | none => exact ⟨_, rfl⟩
  | some i => simp only [h i hx, if_true]; exact ⟨_, rfl⟩

end Stdlib
end CtyModel
