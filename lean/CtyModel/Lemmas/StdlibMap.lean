/-
Lemmas: Go maps under construction (`amInsert`) denote "last binding wins"
maps with ascending keys; `merge`, `zipmap`, `keys`, `values`, `lookup`.
-/
import CtyModel.Lemmas.StdlibSeq
namespace CtyModel
namespace Stdlib
open Value

variable {β : Type}

/-! ### `m[k] = v` on an ascending association list -/

theorem str_lt_of_not_lt_of_ne {a b : String} (h1 : ¬ a < b) (h2 : a ≠ b) : b < a := by
  have hba : b ≤ a := String.not_lt.mp h1
  apply String.not_le.mp
  intro hab
  exact h2 (String.le_antisymm hab hba)

theorem assoc_amInsert (k k' : String) (v : β) (m : List (String × β)) :
    Spec.assoc k (amInsert k' v m) = if k = k' then some v else Spec.assoc k m := by
  induction m with
  | nil =>
    by_cases h : k = k'
    · subst h; simp [amInsert, Spec.assoc]
    · have : (k' == k) = false := by simpa using fun h' => h h'.symm
      simp [amInsert, Spec.assoc, h, this]
  | cons kv rest ih =>
    obtain ⟨k'', v''⟩ := kv
    simp only [amInsert]
    by_cases hlt : k' < k''
    · simp only [hlt, if_true]
      by_cases h : k = k'
      · subst h; simp [Spec.assoc]
      · have : (k' == k) = false := by simpa using fun h' => h h'.symm
        simp [Spec.assoc, h, this]
    · simp only [hlt, if_false]
      by_cases heq : k' = k''
      · subst heq
        simp only [if_true]
        by_cases h : k = k'
        · subst h; simp [Spec.assoc]
        · have : (k' == k) = false := by simpa using fun h' => h h'.symm
          simp [Spec.assoc, h, this]
      · simp only [heq, if_false]
        by_cases h : k = k'
        · subst h
          have : (k'' == k) = false := by simpa using fun h' => heq h'.symm
          have ih' := ih
          simp only [if_true] at ih'
          simp only [Spec.assoc, List.find?_cons, this, if_true] at ih' ⊢
          exact ih'
        · simp only [h, if_false] at ih ⊢
          by_cases h2 : k'' = k
          · subst h2; simp [Spec.assoc]
          · have : (k'' == k) = false := by simpa using h2
            simp only [Spec.assoc, List.find?_cons, this] at ih ⊢
            exact ih

theorem mem_keys_amInsert (k : String) (v : β) (m : List (String × β)) (x : String)
    (hx : x ∈ (amInsert k v m).map (·.1)) : x = k ∨ x ∈ m.map (·.1) := by
  induction m with
  | nil => simp [amInsert] at hx; exact Or.inl hx
  | cons kv rest ih =>
    obtain ⟨k'', v''⟩ := kv
    simp only [amInsert] at hx
    split at hx
    · simp at hx ⊢; rcases hx with h | h | h <;> simp [h]
    · split at hx
      · rename_i heq
        simp at hx ⊢; rcases hx with h | h
        · exact Or.inl h
        · exact Or.inr (Or.inr h)
      · simp only [List.map_cons, List.mem_cons] at hx ⊢
        rcases hx with h | h
        · exact Or.inr (Or.inl h)
        · rcases ih h with h | h
          · exact Or.inl h
          · exact Or.inr (Or.inr h)

theorem keys_asc_amInsert (k : String) (v : β) (m : List (String × β))
    (h : (m.map (·.1)).Pairwise (· < ·)) : ((amInsert k v m).map (·.1)).Pairwise (· < ·) := by
  induction m with
  | nil => simp [amInsert]
  | cons kv rest ih =>
    obtain ⟨k'', v''⟩ := kv
    simp only [List.map_cons] at h
    have hc := List.pairwise_cons.mp h
    simp only [amInsert]
    split
    · rename_i hlt
      simp only [List.map_cons]
      refine List.pairwise_cons.mpr ⟨?_, h⟩
      intro y hy
      rcases List.mem_cons.mp hy with rfl | hy
      · exact hlt
      · exact String.lt_trans hlt (hc.1 y hy)
    · rename_i hnlt
      split
      · rename_i heq
        subst heq
        simpa using h
      · rename_i hne
        simp only [List.map_cons]
        refine List.pairwise_cons.mpr ⟨?_, ih hc.2⟩
        intro y hy
        rcases mem_keys_amInsert k v rest y hy with rfl | hy
        · exact str_lt_of_not_lt_of_ne hnlt hne
        · exact hc.1 y hy

theorem lastBinding_snoc (k k' : String) (v : β) (pairs : List (String × β)) :
    Spec.lastBinding k (pairs ++ [(k', v)]) = if k = k' then some v else Spec.lastBinding k pairs := by
  by_cases h : k = k'
  · subst h; simp [Spec.lastBinding]
  · have : (k' == k) = false := by simpa using fun h' => h h'.symm
    simp [Spec.lastBinding, h, this]

/-- assigning the bindings `more` one after the other into a map that denotes
`pairs` gives a map that denotes `pairs ++ more` -/
theorem isMapOf_foldl (more pairs m : List (String × β)) (h : Spec.IsMapOf pairs m) :
    Spec.IsMapOf (pairs ++ more) (more.foldl (fun m p => amInsert p.1 p.2 m) m) := by
  induction more generalizing pairs m with
  | nil => simpa using h
  | cons p more ih =>
    have hstep : Spec.IsMapOf (pairs ++ [p]) (amInsert p.1 p.2 m) := by
      refine ⟨keys_asc_amInsert _ _ _ h.1, ?_⟩
      intro k
      rw [assoc_amInsert, lastBinding_snoc, h.2 k]
    have := ih (pairs ++ [p]) (amInsert p.1 p.2 m) hstep
    simpa using this

theorem amInsertAll_eq_foldl (ks : List String) (vs : List β) (m : List (String × β)) :
    amInsertAll ks vs m = (ks.zip vs).foldl (fun m p => amInsert p.1 p.2 m) m := by
  induction ks generalizing vs m with
  | nil => simp [amInsertAll]
  | cons k ks ih =>
    cases vs with
    | nil => simp [amInsertAll]
    | cons v vs => simp [amInsertAll, ih]

theorem isMapOf_nil : Spec.IsMapOf ([] : List (String × β)) [] :=
  ⟨by simp, fun k => by simp [Spec.assoc, Spec.lastBinding]⟩

theorem isMapOf_amInsertAll (ks : List String) (vs : List β) (pairs m : List (String × β))
    (h : Spec.IsMapOf pairs m) : Spec.IsMapOf (pairs ++ ks.zip vs) (amInsertAll ks vs m) := by
  rw [amInsertAll_eq_foldl]
  exact isMapOf_foldl _ _ _ h

theorem mem_amInsert (k : String) (v : β) (m : List (String × β)) (kv : String × β)
    (h : kv ∈ amInsert k v m) : kv = (k, v) ∨ kv ∈ m := by
  induction m with
  | nil => simp [amInsert] at h; exact Or.inl h
  | cons p rest ih =>
    obtain ⟨k'', v''⟩ := p
    simp only [amInsert] at h
    split at h
    · simp at h ⊢; rcases h with h | h | h <;> simp [h]
    · split at h
      · simp at h ⊢; rcases h with h | h
        · exact Or.inl h
        · exact Or.inr (Or.inr h)
      · simp only [List.mem_cons] at h ⊢
        rcases h with h | h
        · exact Or.inr (Or.inl h)
        · rcases ih h with h | h
          · exact Or.inl h
          · exact Or.inr (Or.inr h)

theorem mem_amInsertAll (ks : List String) (vs : List β) (m : List (String × β)) (kv : String × β)
    (h : kv ∈ amInsertAll ks vs m) : kv ∈ ks.zip vs ∨ kv ∈ m := by
  induction ks generalizing vs m with
  | nil => simp [amInsertAll] at h; exact Or.inr h
  | cons k ks ih =>
    cases vs with
    | nil => simp [amInsertAll] at h; exact Or.inr h
    | cons v vs =>
      simp only [amInsertAll] at h
      rcases ih vs _ h with h | h
      · exact Or.inl (by simp [h])
      · rcases mem_amInsert k v m kv h with h | h
        · left; simp [h]
        · exact Or.inr h

theorem unmark_of_unmarked (a : Value) (h : a.v.isMarked = false) : a.unmark = a := by
  cases a with
  | mk t p => cases p <;> first | rfl | simp [Payload.isMarked] at h

theorem marks_of_unmarked (a : Value) (h : a.v.isMarked = false) : a.marks = [] := by
  cases a with
  | mk t p => cases p <;> first | rfl | simp [Payload.isMarked] at h

/-! ### `merge` -/

/-- the bindings an `ElementIterator` over a known map or object yields -/
def bindings (E : Env) (a : Value) : List (String × Value) :=
  match elemKeys a, elems E a with
  | .ok ks, .ok vs => ks.zip vs
  | _, _ => []

/-- `a` can be iterated with string keys (a known, non-null, unmarked map or object) -/
def Iterable (E : Env) (a : Value) : Prop :=
  a.v.isMarked = false ∧ ∃ ks vs, elemKeys a = .ok ks ∧ elems E a = .ok vs

/-- all bindings of the non-null arguments, in argument order -/
def allBindings (E : Env) (args : List Value) : List (String × Value) :=
  args.flatMap fun a => if a.isNull then [] else bindings E a

theorem mergeLoop_spec (E : Env) (args : List Value)
    (h : ∀ a ∈ args, a.isNull = false → Iterable E a)
    (hm : ∀ a ∈ args, a.v.isMarked = false) :
    ∀ (pairs out : List (String × Value)), Spec.IsMapOf pairs out →
      ∃ out', mergeLoop E args out [] = .ok (out', []) ∧
        Spec.IsMapOf (pairs ++ allBindings E args) out' ∧
        (∀ kv ∈ out', kv ∈ out ∨ kv ∈ allBindings E args) := by
  induction args with
  | nil =>
    intro pairs out hmo
    exact ⟨out, rfl, by simpa [allBindings] using hmo, fun kv hkv => Or.inl hkv⟩
  | cons a rest ih =>
    intro pairs out hmo
    have ih' := ih (fun b hb => h b (by simp [hb])) (fun b hb => hm b (by simp [hb]))
    simp only [mergeLoop]
    by_cases hn : a.isNull = true
    · simp only [hn, if_true]
      obtain ⟨out', hrun, hspec, hmem⟩ := ih' pairs out hmo
      exact ⟨out', hrun, by simpa [allBindings, hn] using hspec, by simpa [allBindings, hn] using hmem⟩
    · have hn' : a.isNull = false := by simpa using hn
      obtain ⟨hmk, ks, vs, hk, he⟩ := h a (by simp) hn'
      have hum : a.unmark = a := unmark_of_unmarked a hmk
      have hmarks : a.marks = [] := marks_of_unmarked a hmk
      simp only [hn', Bool.false_eq_true, if_false, hum, hmarks, List.length_nil, Nat.lt_irrefl,
        decide_false, hk, he]
      have hstep := isMapOf_amInsertAll ks vs pairs out hmo
      obtain ⟨out', hrun, hspec, hmem⟩ := ih' _ _ hstep
      refine ⟨out', hrun, ?_, ?_⟩
      · have hb : bindings E a = ks.zip vs := by simp [bindings, hk, he]
        simpa [allBindings, hn', hb, List.append_assoc] using hspec
      · intro kv hkv
        have hb : bindings E a = ks.zip vs := by simp [bindings, hk, he]
        rcases hmem kv hkv with h1 | h1
        · rcases mem_amInsertAll ks vs out kv h1 with h2 | h2
          · right
            simp only [allBindings, List.flatMap_cons, List.mem_append, hn', hb]
            exact Or.inl (by simpa using h2)
          · exact Or.inl h2
        · right
          simp only [allBindings, List.flatMap_cons, List.mem_append]
          right
          simpa [allBindings] using h1

theorem values_of_ty (e : Ty) (ws : List Value) (h : ∀ w ∈ ws, w.ty = e) :
    ws = (Gocty.payloads ws).map (⟨e, ·⟩) := by
  induction ws with
  | nil => rfl
  | cons w ws ih =>
    have hw := h w (by simp)
    have := ih (fun x hx => h x (by simp [hx]))
    cases w with
    | mk t p =>
      simp only at hw
      subst hw
      simp only [Gocty.payloads, List.map_cons]
      exact congrArg (_ :: ·) this

/-- `cty.MapVal` of a non-empty map whose values all have type `e` -/
theorem mapVal_of_ty (e : Ty) (he : e.equals e = true) (ks : List String) (ws : List Value)
    (hne : ws ≠ []) (h : ∀ w ∈ ws, w.ty = e) :
    Gocty.mapVal ks ws = .ok ⟨.map e, .smap ks (Gocty.payloads ws)⟩ := by
  have hw := values_of_ty e ws h
  have hne' : Gocty.payloads ws ≠ [] := by
    cases ws with
    | nil => exact absurd rfl hne
    | cons w ws => simp [Gocty.payloads]
  have hl := listVal_map e he (Gocty.payloads ws) hne'
  rw [← hw] at hl
  simp only [Gocty.listVal, Gocty.mapVal] at hl ⊢
  have : ws.isEmpty = false := by
    cases ws with
    | nil => exact absurd rfl hne
    | cons _ _ => rfl
  simp only [this, Bool.false_eq_true, if_false] at hl ⊢
  cases hx : Gocty.elemTypeOf .dyn ws with
  | ok t =>
    simp only [hx] at hl ⊢
    simp only [Res.ok.injEq, Value.mk.injEq, Ty.list.injEq] at hl
    obtain ⟨h1, _⟩ := hl
    subst h1
    rfl
  | err c => simp [hx] at hl
  | panic c => simp [hx] at hl
  | unmodelled => simp [hx] at hl

/-- `merge` when the result type is a map type `map(e)`: all bindings have type `e` -/
theorem mergeImpl_map (E : Env) (e : Ty) (he : e.equals e = true) (args : List Value)
    (h : ∀ a ∈ args, a.isNull = false → Iterable E a)
    (hm : ∀ a ∈ args, a.v.isMarked = false)
    (hty : ∀ kv ∈ allBindings E args, kv.2.ty = e) :
    ∃ out, mergeImpl E args (.map e) =
        .ok ⟨.map e, .smap (out.map (·.1)) (Gocty.payloads (out.map (·.2)))⟩ ∧
      Spec.IsMapOf (allBindings E args) out := by
  obtain ⟨out, hrun, hspec, hmem⟩ := mergeLoop_spec E args h hm [] [] isMapOf_nil
  simp only [List.nil_append] at hspec
  refine ⟨out, ?_, hspec⟩
  simp only [mergeImpl, hrun]
  by_cases h0 : out.length = 0
  · have := List.eq_nil_of_length_eq_zero h0
    subst this
    simp [mapEmpty, withMarkSets_empty, Gocty.payloads]
  · simp only [h0, beq_iff_eq, if_false]
    have hne : out.map (·.2) ≠ [] := by
      intro hn; apply h0; simpa using congrArg List.length hn
    rw [mapVal_of_ty e he _ _ hne (by
      intro w hw
      obtain ⟨kv, hkv, rfl⟩ := List.mem_map.mp hw
      rcases hmem kv hkv with h1 | h1
      · simp at h1
      · exact hty kv h1)]
    simp [Res.map, withMarkSets_empty]

/-- `merge` when the result type is an object type: the object built from the merged bindings -/
theorem mergeImpl_object (E : Env) (ns : List String) (ts : List Ty) (os : List Bool) (args : List Value)
    (h : ∀ a ∈ args, a.isNull = false → Iterable E a)
    (hm : ∀ a ∈ args, a.v.isMarked = false) :
    ∃ out, mergeImpl E args (.object ns ts os) = .ok (Gocty.objectVal (out.map (·.1)) (out.map (·.2))) ∧
      Spec.IsMapOf (allBindings E args) out := by
  obtain ⟨out, hrun, hspec, _⟩ := mergeLoop_spec E args h hm [] [] isMapOf_nil
  simp only [List.nil_append] at hspec
  exact ⟨out, by simp [mergeImpl, hrun, withMarkSets_empty], hspec⟩

/-! ### `zipmap` -/

theorem zipmapLoop_spec (e : Ty) (vs : List Payload) (hlen : (vs.length : Int) ≤ maxInt) :
    ∀ (ks : List String) (i : Nat) (pairs out : List (String × Value)),
      i + ks.length = vs.length → Spec.IsMapOf pairs out →
      ∃ out', zipmapLoop ⟨.list e, .seq vs⟩ (ks.map strVal) i out [] = .ok (out', []) ∧
        Spec.IsMapOf (pairs ++ ks.zip ((vs.drop i).map (⟨e, ·⟩))) out' ∧
        (∀ kv ∈ out', kv ∈ out ∨ kv.2.ty = e) := by
  intro ks
  induction ks with
  | nil =>
    intro i pairs out _ hmo
    exact ⟨out, rfl, by simpa using hmo, fun kv hkv => Or.inl hkv⟩
  | cons k ks ih =>
    intro i pairs out hi hmo
    have hlt : i < vs.length := by simp at hi; omega
    simp only [List.map_cons, zipmapLoop]
    rw [index_list_nat e vs i (by omega), List.getElem?_eq_getElem hlt]
    have hs : asString (strVal k).unmark = .ok k := rfl
    have hmk : (strVal k).marks = [] := rfl
    simp only [hs, hmk, unionMarks, List.foldr_nil]
    have hstep : Spec.IsMapOf (pairs ++ [(k, (⟨e, vs[i]⟩ : Value))]) (amInsert k ⟨e, vs[i]⟩ out) := by
      have := isMapOf_foldl [(k, (⟨e, vs[i]⟩ : Value))] pairs out hmo
      simpa using this
    obtain ⟨out', hrun, hspec, hmem⟩ := ih (i + 1) _ _ (by simp at hi ⊢; omega) hstep
    refine ⟨out', hrun, ?_, ?_⟩
    · have hd : vs.drop i = vs[i] :: vs.drop (i + 1) := List.drop_eq_getElem_cons hlt
      rw [hd]
      simpa only [List.map_cons, List.zip_cons_cons, List.append_assoc, List.singleton_append] using hspec
    · intro kv hkv
      rcases hmem kv hkv with h1 | h1
      · rcases mem_amInsert _ _ _ _ h1 with h2 | h2
        · right; simp [h2]
        · exact Or.inl h2
      · exact Or.inr h1

/-- `zipmap` of known string keys and a known list of the same length -/
theorem zipmapImpl_list (E : Env) (e : Ty) (he : e.equals e = true) (ks : List String) (vs : List Payload)
    (hl : ks.length = vs.length) (hlen : (vs.length : Int) ≤ maxInt) :
    ∃ out, zipmapImpl E [⟨.list .string, .seq (ks.map Payload.s)⟩, ⟨.list e, .seq vs⟩] (.map e) =
        .ok ⟨.map e, .smap (out.map (·.1)) (Gocty.payloads (out.map (·.2)))⟩ ∧
      Spec.IsMapOf (ks.zip (vs.map (⟨e, ·⟩))) out := by
  have hk : (⟨.list .string, .seq (ks.map Payload.s)⟩ : Value).whollyKnown = true := by
    simp [Value.whollyKnown, Payload.whollyKnown, whollyKnownL_strs]
  obtain ⟨out, hrun, hspec, hmem⟩ := zipmapLoop_spec e vs hlen ks 0 [] [] (by simpa using hl) isMapOf_nil
  simp only [List.nil_append, List.drop_zero] at hspec
  refine ⟨out, ?_, hspec⟩
  have hmap : (ks.map Payload.s).map (fun x => (⟨.string, x⟩ : Value)) = ks.map strVal := by
    simp [strVal]
  simp only [zipmapImpl, Value.unmark, Payload.unmark1, Value.marks, Payload.marks1, unionMarks,
    List.foldr_nil, hk, Bool.not_true, Bool.false_eq_true, if_false, lengthInt_list, List.length_map,
    elems_list, hmap, hrun]
  have : (ks.length != vs.length) = false := by simp [hl]
  simp only [this, Bool.false_eq_true, if_false]
  by_cases h0 : out.length = 0
  · have := List.eq_nil_of_length_eq_zero h0
    subst this
    simp [mapEmpty, Gocty.payloads, withMarkSets, Fn.withMarkSets, Fn.unionAll, unionMarks, Value.withMarks,
      Payload.withMarks, Payload.marks1]
  · simp only [h0, beq_iff_eq, if_false]
    have hne : out.map (·.2) ≠ [] := by
      intro hn; apply h0; simpa using congrArg List.length hn
    rw [mapVal_of_ty e he _ _ hne (by
      intro w hw
      obtain ⟨kv, hkv, rfl⟩ := List.mem_map.mp hw
      rcases hmem kv hkv with h1 | h1
      · simp at h1
      · exact h1)]
    simp [Res.map, withMarkSets, Fn.withMarkSets, Fn.unionAll, unionMarks, Value.withMarks,
      Payload.withMarks, Payload.marks1]

/-- keys and values of different lengths are rejected -/
theorem zipmapImpl_length_err (E : Env) (e : Ty) (ks : List String) (vs : List Payload)
    (hl : ks.length ≠ vs.length) (retTy : Ty) :
    Fails (zipmapImpl E [⟨.list .string, .seq (ks.map Payload.s)⟩, ⟨.list e, .seq vs⟩] retTy) := by
  have hk : (⟨.list .string, .seq (ks.map Payload.s)⟩ : Value).whollyKnown = true := by
    simp [Value.whollyKnown, Payload.whollyKnown, whollyKnownL_strs]
  refine ⟨"number of keys does not match number of values", ?_⟩
  simp [zipmapImpl, Value.unmark, Payload.unmark1, hk, hl]

theorem zipmapType_list (E : Env) (keys : Value) (e : Ty) (p : Payload) :
    zipmapType E [keys, ⟨.list e, p⟩] = .ok (.map e) := rfl

/-! ### `keys`, `values` -/

theorem keysImpl_map (e : Ty) (ks : List String) (vs : List Payload) (retTy : Ty) :
    keysImpl [⟨.map e, .smap ks vs⟩] retTy = .ok (mkList .string (ks.map Payload.s)) := by
  simp only [keysImpl, Value.unmark, Payload.unmark1, Value.marks, Payload.marks1, Value.isKnown,
    Payload.isKnown, Bool.not_true, Bool.false_eq_true, if_false, elemKeys]
  by_cases h0 : ks.length = 0
  · have := List.eq_nil_of_length_eq_zero h0
    subst this
    rfl
  · have hne : ks.map Payload.s ≠ [] := by
      intro hn; apply h0; simpa using congrArg List.length hn
    simp only [h0, beq_iff_eq, if_false]
    have hm : ks.map strVal = (ks.map Payload.s).map (⟨.string, ·⟩) := by simp [strVal]
    rw [hm, listVal_map .string rfl _ hne]
    rfl

theorem keysImpl_object (ns : List String) (ts : List Ty) (os : List Bool) (p : Payload) (retTy : Ty)
    (hp : p.isMarked = false) :
    keysImpl [⟨.object ns ts os, p⟩] retTy =
      .ok ⟨.tuple (ns.map fun _ => .string), .seq (ns.map Payload.s)⟩ := by
  have hu : (⟨.object ns ts os, p⟩ : Value).unmark = ⟨.object ns ts os, p⟩ := unmark_of_unmarked _ hp
  have hmk : (⟨.object ns ts os, p⟩ : Value).marks = [] := marks_of_unmarked _ hp
  simp only [keysImpl, hu, hmk]
  by_cases h0 : ns.length = 0
  · have := List.eq_nil_of_length_eq_zero h0
    subst this
    rfl
  · simp only [h0, beq_iff_eq, if_false]
    have hm : ns.map strVal = (ns.map Payload.s).map (⟨.string, ·⟩) := by simp [strVal]
    rw [hm]
    simp only [Gocty.tupleVal, tysOf_map, payloads_map]
    simp [withMarkSets, Fn.withMarkSets, Fn.unionAll, unionMarks, Value.withMarks, Payload.withMarks,
      Payload.marks1, Function.comp_def]

theorem keysType_map (e : Ty) (p : Payload) : keysType [⟨.map e, p⟩] = .ok (.list .string) := rfl
theorem keysType_object (ns : List String) (ts : List Ty) (os : List Bool) (p : Payload) :
    keysType [⟨.object ns ts os, p⟩] = .ok (.tuple (ns.map fun _ => .string)) := rfl

theorem valuesImpl_map (E : Env) (e : Ty) (he : e.equals e = true) (ks : List String) (vs : List Payload) :
    valuesImpl E [⟨.map e, .smap ks vs⟩] (.list e) = .ok (mkList e vs) := by
  simp only [valuesImpl, Value.unmark, Payload.unmark1, Value.marks, Payload.marks1, elems_map, isTupleTy,
    Bool.false_eq_true, if_false, List.length_map, elementTypeOf, Res.map]
  by_cases h0 : vs.length = 0
  · have := List.eq_nil_of_length_eq_zero h0
    subst this
    rfl
  · have hne : vs ≠ [] := fun hn => h0 (by simp [hn])
    simp only [h0, beq_iff_eq, if_false, listVal_map e he vs hne]
    rfl

theorem valuesImpl_object (E : Env) (ns : List String) (ts : List Ty) (os : List Bool) (ks : List String)
    (vs : List Payload) (h : ts.length = vs.length) :
    valuesImpl E [⟨.object ns ts os, .smap ks vs⟩] (.tuple ts) = .ok ⟨.tuple ts, .seq vs⟩ := by
  simp [valuesImpl, Value.unmark, Payload.unmark1, Value.marks, Payload.marks1, isTupleTy, Gocty.tupleVal,
    tysOf_zipTV, payloads_zipTV, h, withMarkSets, Fn.withMarkSets, Fn.unionAll, unionMarks,
    Value.withMarks, Payload.withMarks]

theorem valuesType_map (e : Ty) (p : Payload) : valuesType [⟨.map e, p⟩] = .ok (.list e) := rfl
theorem valuesType_object (ns : List String) (ts : List Ty) (os : List Bool) (p : Payload) :
    valuesType [⟨.object ns ts os, p⟩] = .ok (.tuple ts) := rfl

/-! ### `lookup` -/

theorem lookupKey_none_iff (k : String) (ks : List String) (vs : List Payload) (h : ks.length = vs.length) :
    lookupKey k ks vs = none ↔ ks.contains k = false := by
  induction ks generalizing vs with
  | nil => simp [lookupKey]
  | cons n ns ih =>
    cases vs with
    | nil => simp at h
    | cons v vs =>
      simp only [lookupKey]
      by_cases hn : n = k
      · simp [hn]
      · have := ih vs (by simpa using h)
        have hne : (k == n) = false := by simpa using fun h' => hn h'.symm
        simp [hn, this, List.contains_cons, hne]
        exact fun _ h' => hn h'.symm

/-- `lookup` in a known map: the element under the key if the key is present,
otherwise the default converted to the element type -/
theorem lookupImpl_map (E : Env) (e : Ty) (ks : List String) (vs : List Payload) (k : String) (d : Value)
    (hl : ks.length = vs.length) (hk : Payload.whollyKnownL vs = true)
    (hm : ∀ p ∈ vs, p.isMarked = false) :
    lookupImpl E [⟨.map e, .smap ks vs⟩, strVal k, d] e =
      match lookupKey k ks vs with
      | some p => .ok ⟨e, p⟩
      | none => (convertTo E d e).map (withMarkSets · [[]]) := by
  have hwk : (⟨.map e, .smap ks vs⟩ : Value).whollyKnown = true := by
    simp [Value.whollyKnown, Payload.whollyKnown, hk]
  have hs : asString (strVal k).unmark = .ok k := rfl
  have hmk : (strVal k).marks = [] := rfl
  have hu1 : (⟨.map e, .smap ks vs⟩ : Value).unmark = ⟨.map e, .smap ks vs⟩ := rfl
  have hm1 : (⟨.map e, .smap ks vs⟩ : Value).marks = [] := rfl
  simp only [lookupImpl, hu1, hm1, hmk, hs, hwk]
  simp only [List.length_nil, Nat.lt_irrefl, decide_false, Bool.false_eq_true, if_false, List.append_nil,
    Bool.not_true]
  have hhas : Value.hasIndex ⟨.map e, .smap ks vs⟩ (strVal k) = .ok (boolVal (ks.contains k)) := by
    simp [Value.hasIndex, binMarks, Value.isMarked, Payload.isMarked, hasIndexU, strVal, Ty.isDyn, Ty.isString,
      Value.isKnown, Payload.isKnown, Payload.unmark1]
  have hidx : Value.index ⟨.map e, .smap ks vs⟩ (strVal k) = .ok ⟨e, (lookupKey k ks vs).getD .null⟩ := by
    simp [Value.index, binMarks, Value.isMarked, Payload.isMarked, indexU, strVal, Ty.isDyn, Ty.isString,
      Value.isKnown, Payload.isKnown, Payload.unmark1]
  rw [hhas, hidx]
  cases hlk : lookupKey k ks vs with
  | none =>
    have := (lookupKey_none_iff k ks vs hl).mp hlk
    rw [this]
    simp [boolVal, Ty.isBool]
  | some p =>
    have hc : ks.contains k = true := by
      cases hcc : ks.contains k with
      | true => rfl
      | false => rw [(lookupKey_none_iff k ks vs hl).mpr hcc] at hlk; simp at hlk
    have hpm : p ∈ vs := by
      clear hhas hidx hc hwk hk hm hu1 hm1
      induction ks generalizing vs with
      | nil => simp [lookupKey] at hlk
      | cons n ns ih =>
        cases vs with
        | nil => simp at hl
        | cons v vs =>
          simp only [lookupKey] at hlk
          split at hlk
          · simp at hlk; simp [hlk]
          · exact List.mem_cons_of_mem _ (ih vs (by simpa using hl) hlk)
    simp only [boolVal, hc, Ty.isBool, Bool.true_and, if_true, Option.getD_some, Res.map]
    rw [withMarkSets_nil_of_unmarked _ (hm p hpm)]

theorem lookupType_map (E : Env) (e : Ty) (p : Payload) (key d : Value) (hd : d.ty.equals e.stripOpt = true) :
    lookupType E [⟨.map e, p⟩, key, d] = .ok e := by
  simp [lookupType, convertTo, hd]

end Stdlib
end CtyModel
