/- Numeric lemmas for C18: normalisation keeps the value, bit lengths, the
integer decoders against their closed-form ranges. -/
import CtyModel.GoctySpec
namespace CtyModel
namespace Num

theorem bitlen_pos {m : Nat} (h : m ≠ 0) : 0 < bitlen m := by
  simp [bitlen, h]

theorem lt_two_pow_bitlen (m : Nat) : m < 2 ^ bitlen m := by
  unfold bitlen
  split
  · subst_vars; simp
  · exact Nat.lt_log2_self

theorem two_pow_bitlen_le {m : Nat} (h : m ≠ 0) : 2 ^ (bitlen m - 1) ≤ m := by
  unfold bitlen
  simp only [h, if_false, Nat.add_sub_cancel]
  exact Nat.log2_self_le h

/-- stripping trailing zero bits keeps the value and only raises the exponent -/
theorem normFuel_spec : ∀ (fuel m : Nat) (e : Int), m ≠ 0 →
    ∃ k : Nat, (normFuel fuel m e).2 = e + k ∧ m = (normFuel fuel m e).1 * 2 ^ k ∧
      (normFuel fuel m e).1 ≠ 0
  | 0, m, e, h => ⟨0, by simp [normFuel], by simp [normFuel], by simpa [normFuel] using h⟩
  | fuel + 1, m, e, h => by
    simp only [normFuel, h, if_false]
    split
    · rename_i hev
      have h2 : m / 2 ≠ 0 := by omega
      obtain ⟨k, hk1, hk2, hk3⟩ := normFuel_spec fuel (m / 2) (e + 1) h2
      refine ⟨k + 1, ?_, ?_, hk3⟩
      · rw [hk1]; simp only [Int.natCast_add, Int.natCast_one]; omega
      · have : m = 2 * (m / 2) := by omega
        rw [Nat.pow_succ, ← Nat.mul_assoc, ← hk2]; omega
    · exact ⟨0, by simp, by simp, h⟩

theorem norm_spec (m : Nat) (e : Int) (h : m ≠ 0) :
    ∃ k : Nat, (norm m e).2 = e + k ∧ m = (norm m e).1 * 2 ^ k ∧ (norm m e).1 ≠ 0 :=
  normFuel_spec _ m e h

theorem norm_zero (e : Int) : norm 0 e = (0, 0) := by
  simp [norm, bitlen, normFuel]

end Num

namespace Gocty

theorem norm_of_normal {n : Bool} {m : Nat} {e : Int} {p : Nat}
    (h : normalNum (.fin n m e p) = true) : Num.norm m e = (m, e) := by
  unfold normalNum at h
  by_cases hm : m = 0
  · subst hm; simp at h; subst h; exact Num.norm_zero 0
  · simp [hm] at h
    unfold Num.norm
    simp [Num.normFuel, hm]
    omega

theorem toInt?_iff (x : Num) (hx : normalNum x = true) (k : Int) :
    x.toInt? = some k ↔ IsTheInt x k := by
  cases x with
  | inf n => simp [Num.toInt?, Num.isInt, IsTheInt]
  | fin n m e p =>
    unfold Num.toInt? Num.isInt IsTheInt
    by_cases he : e ≥ 0
    · have h0 : (-e).toNat = 0 := by omega
      simp only [he, decide_true, if_true, Num.truncInt, h0, Int.pow_zero, Int.mul_one,
        Option.some.injEq]
      cases n <;> simp [Int.neg_mul]
    · simp only [he, decide_false]
      simp only [Bool.false_eq_true, if_false]
      refine ⟨fun h => by simp at h, fun h => ?_⟩
      exfalso
      have h0 : e.toNat = 0 := by omega
      rw [h0] at h
      simp only [Int.pow_zero, Int.mul_one] at h
      obtain ⟨j, hj⟩ : ∃ j, (-e).toNat = j + 1 := ⟨(-e).toNat - 1, by omega⟩
      rw [hj, Int.pow_succ, ← Int.mul_assoc] at h
      generalize k * 2 ^ j = y at h
      unfold normalNum at hx
      by_cases hm : m = 0
      · simp [hm] at hx; omega
      · simp [hm] at hx
        cases n <;> simp at h <;> omega


theorem intMinMax_bits (w : IntW) : intMinMax w.bits = some (lo w.bits true, hi w.bits true) := by
  cases w <;> decide

theorem uintMax_bits (w : IntW) : uintMax w.bits = some (hi w.bits false) := by
  cases w <;> decide

theorem lo_ge_int64 (w : IntW) : -9223372036854775808 ≤ lo w.bits true := by cases w <;> decide
theorem hi_le_int64 (w : IntW) : hi w.bits true ≤ 9223372036854775807 := by cases w <;> decide
theorem hi_le_uint64 (w : IntW) : hi w.bits false ≤ 18446744073709551615 := by cases w <;> decide
theorem hi_nonneg (w : IntW) : 0 ≤ hi w.bits false := by cases w <;> decide

/-- signed targets -/
theorem fromNumInt_ok_iff (x : Num) (hx : normalNum x = true) (w : IntW) (k : Int) :
    fromNumInt x w.bits = .ok k ↔ IsTheInt x k ∧ lo w.bits true ≤ k ∧ k ≤ hi w.bits true := by
  have h1 := lo_ge_int64 w
  have h2 := hi_le_int64 w
  rw [← toInt?_iff x hx]
  unfold fromNumInt int64Exact
  rw [intMinMax_bits]
  simp only []
  cases h : x.toInt? with
  | none => simp
  | some j =>
    simp only [Option.some.injEq]
    by_cases hr : -9223372036854775808 ≤ j ∧ j ≤ 9223372036854775807
    · simp only [hr, and_self, if_true]
      by_cases hb : j < lo w.bits true ∨ j > hi w.bits true
      · simp only [hb, if_true]
        constructor
        · intro h; cases h
        · rintro ⟨rfl, h3, h4⟩; omega
      · simp only [hb, if_false, Res.ok.injEq]
        constructor
        · rintro rfl; exact ⟨rfl, by omega, by omega⟩
        · rintro ⟨rfl, _, _⟩; rfl
    · simp only [hr, if_false]
      constructor
      · intro h; cases h
      · rintro ⟨rfl, h3, h4⟩; omega


/-- unsigned targets -/
theorem fromNumUInt_ok_iff (x : Num) (hx : normalNum x = true) (w : IntW) (k : Int) :
    fromNumUInt x w.bits = .ok k ↔ IsTheInt x k ∧ 0 ≤ k ∧ k ≤ hi w.bits false := by
  have h2 := hi_le_uint64 w
  have h3 := hi_nonneg w
  rw [← toInt?_iff x hx]
  unfold fromNumUInt
  rw [uintMax_bits]
  simp only []
  cases x with
  | inf n => simp [uint64Exact, Num.toInt?, Num.isInt]
  | fin n m e p =>
    have hn := norm_of_normal hx
    unfold uint64Exact
    simp only [hn]
    unfold Num.toInt? Num.isInt
    by_cases he : e ≥ 0
    · simp only [he, decide_true, Bool.not_true, Bool.false_eq_true, false_or, if_true, Num.truncInt]
      by_cases hm : m = 0
      · subst hm
        simp only [if_true]
        have : ¬ ((0:Int) > hi w.bits false) := by omega
        simp only [this, if_false]
        cases n <;> simp <;> (rintro rfl; omega)
      · simp only [hm, if_false]
        have hpos : (0:Int) < (m:Int) * 2 ^ e.toNat :=
          Int.mul_pos (by omega) (Int.pow_pos (by decide))
        cases n with
        | true =>
          simp only [if_true]
          constructor
          · intro h; cases h
          · rintro ⟨h, h4, _⟩; simp at h; omega
        | false =>
          simp only [Bool.false_eq_true, if_false]
          have hbl := Num.bitlen_pos hm
          have hexp : ¬ (e + (Num.bitlen m : Int) ≤ 0) := by omega
          simp only [hexp, if_false]
          by_cases h64 : e + (Num.bitlen m : Int) ≤ 64
          · have hb : Num.bitlen m ≤ 64 := by omega
            simp only [h64, hb, if_true, he]
            by_cases hgt : (m:Int) * 2 ^ e.toNat > hi w.bits false
            · simp only [hgt, if_true]
              constructor
              · intro h; cases h
              · rintro ⟨h, _, h5⟩; simp at h; omega
            · simp only [hgt, if_false, Res.ok.injEq, Option.some.injEq]
              constructor
              · rintro rfl; exact ⟨rfl, by omega, by omega⟩
              · rintro ⟨rfl, _, _⟩; rfl
          · simp only [h64, if_false]
            constructor
            · intro h; cases h
            · rintro ⟨h, _, h5⟩
              simp only [Option.some.injEq] at h
              exfalso
              have h6 := Num.two_pow_bitlen_le hm
              have h7 : 2 ^ 64 ≤ 2 ^ (Num.bitlen m - 1 + e.toNat) :=
                Nat.pow_le_pow_right (by decide) (by omega)
              rw [Nat.pow_add] at h7
              have h8 : 2 ^ (Num.bitlen m - 1) * 2 ^ e.toNat ≤ m * 2 ^ e.toNat :=
                Nat.mul_le_mul_right _ h6
              have h9 : ((m * 2 ^ e.toNat : Nat) : Int) = (m:Int) * 2 ^ e.toNat := by push_cast; rfl
              omega
    · simp only [he, decide_false, Bool.not_false, true_or, if_true, Bool.false_eq_true, if_false]
      constructor
      · intro h; split at h <;> cases h
      · rintro ⟨h, _⟩; cases h


theorem normFuel_odd : ∀ (fuel m : Nat) (e : Int), m ≠ 0 → m < 2 ^ fuel →
    (Num.normFuel fuel m e).1 % 2 = 1
  | 0, m, e, h0, h => by simp at h; omega
  | fuel + 1, m, e, h0, h => by
    simp only [Num.normFuel, h0, if_false]
    split
    · exact normFuel_odd fuel (m / 2) (e + 1) (by omega) (by rw [Nat.pow_succ] at h; omega)
    · simp; omega

/-- every number has a normal representation: the one `Num.mk` (hence every
arithmetic result and the wire codec of the harness) builds -/
theorem normal_mk (n : Bool) (m : Nat) (e : Int) (p : Nat) : normalNum (Num.mk n m e p) = true := by
  unfold Num.mk normalNum
  by_cases hm : m = 0
  · subst hm; simp [Num.norm_zero]
  · obtain ⟨k, _, _, h3⟩ := Num.norm_spec m e hm
    have := normFuel_odd (Num.bitlen m + 1) m e hm
      (Nat.lt_trans (Num.lt_two_pow_bitlen m) (Nat.pow_lt_pow_right (by decide) (by omega)))
    simp only [h3, if_false]
    simpa [Num.norm] using this

theorem fromNum_int_signed (x : Num) (w : IntW) :
    fromNum x (.int w true) = mapRes GoVal.int (fromNumInt x w.bits) := by
  simp only [fromNum]; cases fromNumInt x w.bits <;> rfl

theorem fromNum_int_unsigned (x : Num) (w : IntW) :
    fromNum x (.int w false) = mapRes GoVal.int (fromNumUInt x w.bits) := by
  simp only [fromNum]; cases fromNumUInt x w.bits <;> rfl

theorem mapRes_int_ok_iff (r : Res Int) (g : GoVal) :
    mapRes GoVal.int r = .ok g ↔ ∃ k, r = .ok k ∧ g = .int k := by
  cases r <;> simp [mapRes, eq_comm]

theorem fromNum_int_ok_iff (x : Num) (hx : normalNum x = true) (w : IntW) (s : Bool) (g : GoVal) :
    fromNum x (.int w s) = .ok g ↔
      ∃ k, IsTheInt x k ∧ lo w.bits s ≤ k ∧ k ≤ hi w.bits s ∧ g = .int k := by
  cases s with
  | true =>
    rw [fromNum_int_signed, mapRes_int_ok_iff]
    constructor
    · rintro ⟨k, hk, rfl⟩
      have := (fromNumInt_ok_iff x hx w k).mp hk
      exact ⟨k, this.1, this.2.1, this.2.2, rfl⟩
    · rintro ⟨k, hk, h1, h2, rfl⟩
      exact ⟨k, (fromNumInt_ok_iff x hx w k).mpr ⟨hk, h1, h2⟩, rfl⟩
  | false =>
    have hlo : lo w.bits false = 0 := rfl
    rw [fromNum_int_unsigned, mapRes_int_ok_iff]
    constructor
    · rintro ⟨k, hk, rfl⟩
      have := (fromNumUInt_ok_iff x hx w k).mp hk
      exact ⟨k, this.1, by omega, this.2.2, rfl⟩
    · rintro ⟨k, hk, h1, h2, rfl⟩
      exact ⟨k, (fromNumUInt_ok_iff x hx w k).mpr ⟨hk, by omega, h2⟩, rfl⟩

/-- a number is decoded into an integer target or refused with an error: no panic, nothing unmodelled -/
theorem fromNum_int_ok_or_err (x : Num) (w : IntW) (s : Bool) :
    (∃ g, fromNum x (.int w s) = .ok g) ∨ (∃ c, fromNum x (.int w s) = .err c) := by
  cases s
  · rw [fromNum_int_unsigned]; unfold fromNumUInt
    rw [uintMax_bits]
    simp only []
    cases uint64Exact x with
    | none => exact Or.inr ⟨_, rfl⟩
    | some iv =>
      simp only []
      by_cases hc : (!x.isInt) = true ∨ iv > hi w.bits false
      · rw [if_pos hc]; exact Or.inr ⟨_, rfl⟩
      · rw [if_neg hc]; exact Or.inl ⟨_, rfl⟩
  · rw [fromNum_int_signed]; unfold fromNumInt
    rw [intMinMax_bits]
    simp only []
    cases int64Exact x with
    | none => exact Or.inr ⟨_, rfl⟩
    | some iv =>
      simp only []
      by_cases hc : iv < lo w.bits true ∨ iv > hi w.bits true
      · rw [if_pos hc]; exact Or.inr ⟨_, rfl⟩
      · rw [if_neg hc]; exact Or.inl ⟨_, rfl⟩

/-! ### floats -/

theorem mk_not_inf (n : Bool) (m : Nat) (e : Int) (p : Nat) : (Num.mk n m e p).isInf = false := rfl

/-- an infinite result of the IEEE conversion is flagged exact only for an infinite argument -/
theorem toIEEE_inf_exact (mb : Nat) (emin emax : Int) (x : Num)
    (h : (Num.toIEEE mb emin emax x).1.isInf = true) :
    (Num.toIEEE mb emin emax x).2 = x.isInf := by
  cases x with
  | inf n => rfl
  | fin n m e p =>
    revert h
    unfold Num.toIEEE
    simp only []
    repeat' split
    all_goals first | (intro _; rfl) | (intro h; simp [mk_not_inf] at h; done) | (intro h; simp [Num.isInf] at h; done)

theorem f64to32_inf (n : Bool) : Num.f64to32 (.inf n) = .inf n := rfl

/-- `fromNumFloat` in closed form: the stored value is the correctly rounded one
(float64: `Float64()`; float32: that, converted by Go's `float32()`), and the
conversion is refused exactly when a finite number would be stored as an infinity -/
theorem fromNumFloat_ok_iff (x : Num) (is32 : Bool) (f : Num) :
    fromNumFloat x is32 = .ok f ↔
      f = (if is32 then Num.f64to32 x.toF64.1 else x.toF64.1) ∧ (x.isInf = true ∨ f.isInf = false) := by
  unfold fromNumFloat
  simp only []
  by_cases hinf : x.toF64.1.isInf = true
  · have hex := toIEEE_inf_exact 52 (-1022) 1023 x hinf
    have h32 : Num.f64to32 x.toF64.1 = x.toF64.1 := by
      cases hx : x.toF64.1 with
      | inf n => rfl
      | fin _ _ _ _ => rw [hx] at hinf; simp [Num.isInf] at hinf
    change x.toF64.2 = x.isInf at hex
    cases hxi : x.isInf
    · rw [hxi] at hex
      simp only [hex, hinf, Bool.not_false, Bool.and_self, if_true]
      constructor
      · intro h; cases h
      · rintro ⟨rfl, h⟩; cases is32 <;> simp_all
    · rw [hxi] at hex
      simp only [hex, hinf, Bool.not_true, Bool.false_and, Bool.false_eq_true, if_false, Bool.and_false,
        Res.ok.injEq, true_or, and_true]
      exact eq_comm
  · simp only [Bool.not_eq_true] at hinf
    simp only [hinf, Bool.and_false, Bool.false_eq_true, if_false, Bool.not_false, Bool.and_true]
    cases is32
    · simp only [Bool.false_and, Bool.false_eq_true, if_false, Res.ok.injEq]
      constructor
      · rintro rfl; exact ⟨rfl, Or.inr hinf⟩
      · rintro ⟨rfl, _⟩; rfl
    · simp only [Bool.true_and, if_true]
      by_cases h2 : (Num.f64to32 x.toF64.1).isInf = true
      · simp only [h2, if_true]
        constructor
        · intro h; cases h
        · rintro ⟨rfl, h⟩
          rcases h with h | h
          · exfalso
            cases x with
            | inf n => simp [Num.toF64, Num.toIEEE, Num.isInf] at hinf
            | fin _ _ _ _ => simp [Num.isInf] at h
          · rw [h2] at h; cases h
      · simp only [h2, Bool.false_eq_true, if_false, Res.ok.injEq]
        constructor
        · rintro rfl; exact ⟨rfl, Or.inr (by simpa using h2)⟩
        · rintro ⟨rfl, _⟩; rfl

theorem fromNum_float (x : Num) (is32 : Bool) :
    fromNum x (.float is32) = mapRes GoVal.flt (fromNumFloat x is32) := by
  simp only [fromNum]; cases fromNumFloat x is32 <;> rfl

end Gocty
end CtyModel
