/- Numeric lemmas for C18: normalisation keeps the value, bit lengths, the
integer decoders against their closed-form ranges. -/
import CtyModel.GoctySpec
namespace CtyModel
namespace Num

theorem bitlen_pos {m : Nat} (h : m ≠ 0) : 0 < bitlen m := by
  simp [bitlen, h]

theorem lt_two_pow_bitlen (m : Nat) : m < 2 ^ bitlen m := by
  unfold bitlen
  split
  · subst_vars; simp
  · exact Nat.lt_log2_self

theorem two_pow_bitlen_le {m : Nat} (h : m ≠ 0) : 2 ^ (bitlen m - 1) ≤ m := by
  unfold bitlen
  simp only [h, if_false, Nat.add_sub_cancel]
  exact Nat.log2_self_le h

/-- stripping trailing zero bits keeps the value and only raises the exponent -/
theorem normFuel_spec : ∀ (fuel m : Nat) (e : Int), m ≠ 0 →
    ∃ k : Nat, (normFuel fuel m e).2 = e + k ∧ m = (normFuel fuel m e).1 * 2 ^ k ∧
      (normFuel fuel m e).1 ≠ 0
  | 0, m, e, h => ⟨0, by simp [normFuel], by simp [normFuel], by simpa [normFuel] using h⟩
  | fuel + 1, m, e, h => by
    simp only [normFuel, h, if_false]
    split
    · rename_i hev
      have h2 : m / 2 ≠ 0 := by omega
      obtain ⟨k, hk1, hk2, hk3⟩ := normFuel_spec fuel (m / 2) (e + 1) h2
      refine ⟨k + 1, ?_, ?_, hk3⟩
      · rw [hk1]; simp only [Int.natCast_add, Int.natCast_one]; omega
      · have : m = 2 * (m / 2) := by omega
        rw [Nat.pow_succ, ← Nat.mul_assoc, ← hk2]; omega
    · exact ⟨0, by simp, by simp, h⟩

theorem norm_spec (m : Nat) (e : Int) (h : m ≠ 0) :
    ∃ k : Nat, (norm m e).2 = e + k ∧ m = (norm m e).1 * 2 ^ k ∧ (norm m e).1 ≠ 0 :=
  normFuel_spec _ m e h

theorem norm_zero (e : Int) : norm 0 e = (0, 0) := by
  simp [norm, bitlen, normFuel]

end Num
end CtyModel
