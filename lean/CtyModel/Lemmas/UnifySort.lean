/-
sortTypes (sort_types.go): the indices it returns are in range.
-/
import CtyModel.Lemmas.UnifyBasic
namespace CtyModel
namespace Unify
open Convert Ty

theorem edgesOf_lt (tys : List Ty) (k : Nat) : ∀ j ∈ edgesOf tys k, j < tys.length := by
  intro j hj
  unfold edgesOf at hj
  split at hj
  · simp at hj
  · rename_i tk hk
    have hkl : k < tys.length := (List.getElem?_eq_some_iff.mp hk).1
    simp only [List.mem_append, List.mem_filter, List.mem_range] at hj
    rcases hj with h | h
    · omega
    · exact h.1

/-- every list in the edge table holds indices below `l` -/
def EdgesBelow (edges : List (List Nat)) (l : Nat) : Prop := ∀ outs ∈ edges, ∀ j ∈ outs, j < l

theorem edgesBelow_sort (tys : List Ty) :
    EdgesBelow ((List.range tys.length).map (edgesOf tys)) tys.length := by
  intro outs ho j hj
  obtain ⟨k, _, rfl⟩ := List.mem_map.mp ho
  exact edgesOf_lt tys k j hj

theorem getD_mem_or_nil {α} (xs : List (List α)) (i : Nat) : xs.getD i [] = [] ∨ xs.getD i [] ∈ xs := by
  simp only [List.getD_eq_getElem?_getD]
  cases h : xs[i]? with
  | none => left; rfl
  | some a => right; simpa using List.mem_of_getElem? h

/-- the inner loop over `edges[i]` only appends members of `edges[i]` to the queue -/
theorem sortStep_mem (outs : List Nat) : ∀ (st : List Nat × List Nat) (x : Nat),
    x ∈ (outs.foldl (fun (st : List Nat × List Nat) j =>
      let deg' := decAt st.2 j
      if deg'.getD j 1 = 0 then (st.1 ++ [j], deg') else (st.1, deg')) st).1 → x ∈ st.1 ∨ x ∈ outs := by
  induction outs with
  | nil => intro st x h; exact .inl h
  | cons j outs ih =>
    intro st x h
    simp only [List.foldl_cons] at h
    rcases ih _ x h with h | h
    · split at h
      · simp only [List.mem_append, List.mem_singleton] at h
        rcases h with h | h
        · exact .inl h
        · exact .inr (by simp [h])
      · exact .inl h
    · exact .inr (List.mem_cons_of_mem _ h)

theorem sortLoop_mem (edges : List (List Nat)) (l : Nat) (he : EdgesBelow edges l) :
    ∀ (fuel : Nat) (queue deg visited : List Nat), (∀ x ∈ queue, x < l) → (∀ x ∈ visited, x < l) →
      ∀ x ∈ sortLoop edges fuel queue deg visited, x < l := by
  intro fuel
  induction fuel with
  | zero => intro queue deg visited _ hv x hx; simp [sortLoop] at hx; exact hv x hx
  | succ fuel ih =>
    intro queue deg visited hq hv x hx
    cases queue with
    | nil => simp [sortLoop] at hx; exact hv x hx
    | cons i queue =>
      simp only [sortLoop] at hx
      refine ih _ _ _ ?_ ?_ x hx
      · intro y hy
        rcases sortStep_mem _ _ y hy with h | h
        · exact hq y (List.mem_cons_of_mem _ h)
        · rcases getD_mem_or_nil edges i with hn | hm
          · rw [hn] at h; simp at h
          · exact he _ hm y h
      · intro y hy
        simp only [List.mem_append, List.mem_singleton] at hy
        rcases hy with h | h
        · exact hv y h
        · exact h ▸ hq i (by simp)

/-- `sortTypes` returns indices into the given slice (so `types[wantTypeIdx]` cannot
be out of range) -/
theorem sortTypes_lt (tys : List Ty) (hne : tys ≠ []) : ∀ i ∈ sortTypes tys, i < tys.length := by
  intro i hi
  have hpos : 0 < tys.length := List.length_pos_iff.mpr hne
  simp only [sortTypes, List.mem_append, List.mem_replicate] at hi
  rcases hi with h | h
  · refine sortLoop_mem _ tys.length (edgesBelow_sort tys) _ _ _ _ ?_ (by simp) i h
    intro x hx
    simp only [List.mem_filter, List.mem_range] at hx
    exact hx.1
  · omega

/-- … and at least as many of them as there are types -/
theorem sortTypes_length_ge (tys : List Ty) : tys.length ≤ (sortTypes tys).length := by
  simp only [sortTypes, List.length_append, List.length_replicate]
  omega

end Unify
end CtyModel
