/-
C20 — frame lemmas of the heap model: a step that leaves every library-owned
("frozen") object alone leaves the fingerprint of every frozen word alone.
-/
import CtyModel.HeapOps
namespace CtyModel
namespace Heap

/-- `m'` extends `m` and every library-owned object of `m` is the same in `m'`
(same body, same owner) -/
def Preserves (m m' : Mem) : Prop :=
  m.length ≤ m'.length ∧ ∀ a, frozenObj m a = true → m'[a]? = m[a]?

theorem frozenObj_lt {m : Mem} {a : Addr} (h : frozenObj m a = true) : a < m.length := by
  unfold frozenObj ownerOf at h
  cases hm : m[a]? with
  | none => simp [hm] at h
  | some o => exact (List.getElem?_eq_some_iff.mp hm).1

theorem Preserves.refl (m : Mem) : Preserves m m := ⟨Nat.le_refl _, fun _ _ => rfl⟩

/-- frozen objects stay frozen -/
theorem Preserves.frozenObj {m m' : Mem} (h : Preserves m m') {a : Addr}
    (ha : frozenObj m a = true) : frozenObj m' a = true := by
  have e := h.2 a ha
  unfold Heap.frozenObj ownerOf at ha ⊢
  rw [e]
  cases hm : m[a]? with
  | none => simp [hm] at ha
  | some o =>
    simp only [hm, Option.map_some] at ha ⊢
    cases ho : o.owner with
    | lib => simp
    | libset => simp
    | bucket b =>
      simp only [ho] at ha ⊢
      have hb : Heap.frozenObj m b = true := by
        unfold Heap.frozenObj ownerOf
        cases hmb : m[b]? with
        | none => simp [hmb] at ha
        | some ob =>
          simp only [hmb, Option.map_some] at ha ⊢
          have : ob.owner = .libset := by simpa using ha
          simp [this]
      have eb := h.2 b hb
      rw [eb]; exact ha
    | caller => simp [ho] at ha
    | helper => simp [ho] at ha
    | scratch => simp [ho] at ha

theorem Preserves.trans {m m' m'' : Mem} (h1 : Preserves m m') (h2 : Preserves m' m'') :
    Preserves m m'' :=
  ⟨Nat.le_trans h1.1 h2.1, fun a ha => by rw [h2.2 a (h1.frozenObj ha), h1.2 a ha]⟩

theorem preserves_alloc (m : Mem) (o : Owner) (b : Body) : Preserves m (alloc m o b).1 := by
  refine ⟨by simp [alloc], fun a ha => ?_⟩
  have := frozenObj_lt ha
  simp [alloc, List.getElem?_append_left this]

/-- an in-place write to an object that is not library-owned -/
theorem preserves_setBody {m : Mem} {a : Addr} (b : Body) (h : frozenObj m a = false) :
    Preserves m (setBody m a b) := by
  unfold setBody
  cases hm : m[a]? with
  | none => exact Preserves.refl m
  | some o =>
    refine ⟨by simp, fun x hx => ?_⟩
    have hne : a ≠ x := by intro e; subst e; rw [hx] at h; exact Bool.noConfusion h
    simp [List.getElem?_set_ne hne]

/-- an ownership transfer of an object that is not (yet) library-owned -/
theorem preserves_freeze {m : Mem} {a : Addr} (h : frozenObj m a = false) :
    Preserves m (freeze m a) := by
  unfold freeze
  cases hm : m[a]? with
  | none => exact Preserves.refl m
  | some o =>
    refine ⟨by simp, fun x hx => ?_⟩
    have hne : a ≠ x := by intro e; subst e; rw [hx] at h; exact Bool.noConfusion h
    simp [List.getElem?_set_ne hne]

/-! ### what `frozen` says, constructor by constructor -/

theorem bucketOK_iff {p : Word → Bool} {m : Mem} {a : Addr} {w : Word} :
    bucketOK p m a w = true ↔
      ∃ arr off len cap cells, w = .slice arr off len cap ∧
        m[arr]? = some ⟨.bucket a, .array cells⟩ ∧ cells.all p = true := by
  constructor
  · intro h
    cases w with
    | slice arr off len cap =>
      simp only [bucketOK] at h
      cases hm : m[arr]? with
      | none => simp [hm] at h
      | some o =>
        rcases o with ⟨ow, bd⟩
        cases ow <;> cases bd <;> simp [hm] at h
        obtain ⟨hb, hc⟩ := h
        subst hb
        exact ⟨arr, off, len, cap, _, rfl, hm, by simpa [List.all_eq_true] using hc⟩
    | _ => simp [bucketOK] at h
  · rintro ⟨arr, off, len, cap, cells, rfl, hm, hc⟩
    simp [bucketOK, hm, hc]

theorem frozen_num {f : Nat} {m : Mem} {a : Addr} :
    frozen (f + 1) m (.num a) = true ↔ ∃ v, m[a]? = some ⟨.lib, .bigfloat v⟩ := by
  simp only [frozen]
  cases hm : m[a]? with
  | none => simp
  | some o => rcases o with ⟨ow, bd⟩; cases ow <;> cases bd <;> simp

theorem frozen_slice {f : Nat} {m : Mem} {arr off len cap : Nat} :
    frozen (f + 1) m (.slice arr off len cap) = true ↔
      ∃ cells, m[arr]? = some ⟨.lib, .array cells⟩ ∧ cells.all (frozen f m) = true := by
  simp only [frozen]
  cases hm : m[arr]? with
  | none => simp
  | some o => rcases o with ⟨ow, bd⟩; cases ow <;> cases bd <;> simp

theorem frozen_map {f : Nat} {m : Mem} {a : Addr} :
    frozen (f + 1) m (.map a) = true ↔
      ∃ kvs, m[a]? = some ⟨.lib, .gomap kvs⟩ ∧ (kvs.all fun kv => frozen f m kv.2) = true := by
  simp only [frozen]
  cases hm : m[a]? with
  | none => simp
  | some o => rcases o with ⟨ow, bd⟩; cases ow <;> cases bd <;> simp

theorem frozen_set {f : Nat} {m : Mem} {a : Addr} :
    frozen (f + 1) m (.set a) = true ↔
      ∃ kvs, m[a]? = some ⟨.libset, .gomap kvs⟩ ∧
        (kvs.all fun kv => bucketOK (frozen f m) m a kv.2) = true := by
  simp only [frozen]
  cases hm : m[a]? with
  | none => simp
  | some o => rcases o with ⟨ow, bd⟩; cases ow <;> cases bd <;> simp

theorem frozen_marked {f : Nat} {m : Mem} {ms : Addr} {r : Word} :
    frozen (f + 1) m (.marked ms r) = true ↔
      (∃ l, m[ms]? = some ⟨.lib, .markset l⟩) ∧ frozen f m r = true := by
  simp only [frozen, Bool.and_eq_true]
  cases hm : m[ms]? with
  | none => simp
  | some o => rcases o with ⟨ow, bd⟩; cases ow <;> cases bd <;> simp

theorem frozen_pair {f : Nat} {m : Mem} {t v : Word} :
    frozen (f + 1) m (.pair t v) = true ↔ frozen f m t = true ∧ frozen f m v = true := by
  simp [frozen]

theorem frozenObj_lib {m : Mem} {a : Addr} {b : Body} (h : m[a]? = some ⟨.lib, b⟩) :
    frozenObj m a = true := by
  simp [frozenObj, ownerOf, h]

theorem frozenObj_libset {m : Mem} {a : Addr} {b : Body} (h : m[a]? = some ⟨.libset, b⟩) :
    frozenObj m a = true := by
  simp [frozenObj, ownerOf, h]

theorem frozenObj_bucket {m : Mem} {a x : Addr} {b bx : Body} (h : m[a]? = some ⟨.libset, b⟩)
    (hx : m[x]? = some ⟨.bucket a, bx⟩) : frozenObj m x = true := by
  simp [frozenObj, ownerOf, h, hx]

/-! ### frozen words stay frozen and keep their fingerprint -/

theorem bucketOK_stable {p q : Word → Bool} {m m' : Mem} (h : Preserves m m') {a : Addr} {b : Body}
    (ha : m[a]? = some ⟨.libset, b⟩) (hpq : ∀ w, p w = true → q w = true) {w : Word}
    (hw : bucketOK p m a w = true) : bucketOK q m' a w = true := by
  obtain ⟨arr, off, len, cap, cells, rfl, hm, hc⟩ := bucketOK_iff.mp hw
  refine bucketOK_iff.mpr ⟨arr, off, len, cap, cells, rfl, ?_, ?_⟩
  · rw [h.2 arr (frozenObj_bucket ha hm), hm]
  · rw [List.all_eq_true] at hc ⊢
    exact fun x hx => hpq x (hc x hx)

theorem frozen_stable {m m' : Mem} (h : Preserves m m') :
    ∀ (f : Nat) (w : Word), frozen f m w = true → frozen f m' w = true := by
  intro f
  induction f with
  | zero => intro w _; rfl
  | succ f ih =>
    intro w hw
    cases w with
    | null | unk | bool | str | attr | tprim => rfl
    | marks a => simp [frozen] at hw
    | num a =>
      obtain ⟨v, hm⟩ := frozen_num.mp hw
      exact frozen_num.mpr ⟨v, by rw [h.2 a (frozenObj_lib hm), hm]⟩
    | slice arr off len cap =>
      obtain ⟨cells, hm, hc⟩ := frozen_slice.mp hw
      refine frozen_slice.mpr ⟨cells, by rw [h.2 arr (frozenObj_lib hm), hm], ?_⟩
      rw [List.all_eq_true] at hc ⊢
      exact fun x hx => ih x (hc x hx)
    | map a =>
      obtain ⟨kvs, hm, hc⟩ := frozen_map.mp hw
      refine frozen_map.mpr ⟨kvs, by rw [h.2 a (frozenObj_lib hm), hm], ?_⟩
      rw [List.all_eq_true] at hc ⊢
      exact fun x hx => ih x.2 (hc x hx)
    | set a =>
      obtain ⟨kvs, hm, hc⟩ := frozen_set.mp hw
      refine frozen_set.mpr ⟨kvs, by rw [h.2 a (frozenObj_libset hm), hm], ?_⟩
      rw [List.all_eq_true] at hc ⊢
      exact fun x hx => bucketOK_stable h hm ih (hc x hx)
    | marked ms r =>
      obtain ⟨⟨l, hm⟩, hr⟩ := frozen_marked.mp hw
      exact frozen_marked.mpr ⟨⟨l, by rw [h.2 ms (frozenObj_lib hm), hm]⟩, ih r hr⟩
    | pair t v =>
      obtain ⟨ht, hv⟩ := frozen_pair.mp hw
      exact frozen_pair.mpr ⟨ih t ht, ih v hv⟩
    | tlist e | tset e | tmap e | ttuple e | tobject e =>
      simp only [frozen] at hw ⊢
      exact ih e hw

theorem cellsOf_eq {m : Mem} {a : Addr} {o : Owner} {cells : List Word}
    (h : m[a]? = some ⟨o, .array cells⟩) : cellsOf m a = some cells := by
  simp [cellsOf, h]

theorem kvsOf_eq {m : Mem} {a : Addr} {o : Owner} {kvs : List (Key × Word)}
    (h : m[a]? = some ⟨o, .gomap kvs⟩) : kvsOf m a = some kvs := by
  simp [kvsOf, h]

theorem window_subset {cells : List Word} {off len : Nat} {x : Word}
    (h : x ∈ window cells off len) : x ∈ cells :=
  List.mem_of_mem_drop (List.mem_of_mem_take h)

/-- a bucket of a library-owned set reads the same -/
theorem fpSeq_bucket_stable {g g' : Word → List Tok} {p : Word → Bool} {m m' : Mem}
    (h : Preserves m m') {a : Addr} {b : Body} (ha : m[a]? = some ⟨.libset, b⟩)
    (hg : ∀ w, p w = true → g' w = g w) {w : Word} (hw : bucketOK p m a w = true) :
    fpSeq g' m' w = fpSeq g m w := by
  obtain ⟨arr, off, len, cap, cells, rfl, hm, hc⟩ := bucketOK_iff.mp hw
  have hm' : m'[arr]? = some ⟨.bucket a, .array cells⟩ := by
    rw [h.2 arr (frozenObj_bucket ha hm), hm]
  simp only [fpSeq, cellsOf_eq hm, cellsOf_eq hm']
  congr 2
  rw [List.all_eq_true] at hc
  exact congrArg _ (List.map_congr_left fun x hx => hg x (hc x (window_subset hx)))

/-- **frame lemma**: a frozen word has the same fingerprint in every heap that
preserves the library-owned objects -/
theorem fp_stable {m m' : Mem} (h : Preserves m m') :
    ∀ (f : Nat) (w : Word), frozen f m w = true → fp f m' w = fp f m w := by
  intro f
  induction f with
  | zero => intro w _; rfl
  | succ f ih =>
    intro w hw
    cases w with
    | null | unk | bool | str | attr | tprim => rfl
    | marks a => simp [frozen] at hw
    | num a =>
      obtain ⟨v, hm⟩ := frozen_num.mp hw
      have hm' : m'[a]? = some ⟨.lib, .bigfloat v⟩ := by rw [h.2 a (frozenObj_lib hm), hm]
      simp [fp, floatOf, hm, hm']
    | slice arr off len cap =>
      obtain ⟨cells, hm, hc⟩ := frozen_slice.mp hw
      have hm' : m'[arr]? = some ⟨.lib, .array cells⟩ := by rw [h.2 arr (frozenObj_lib hm), hm]
      simp only [fp, fpSeq, cellsOf_eq hm, cellsOf_eq hm']
      congr 2
      rw [List.all_eq_true] at hc
      exact congrArg _ (List.map_congr_left fun x hx => ih x (hc x (window_subset hx)))
    | map a =>
      obtain ⟨kvs, hm, hc⟩ := frozen_map.mp hw
      have hm' : m'[a]? = some ⟨.lib, .gomap kvs⟩ := by rw [h.2 a (frozenObj_lib hm), hm]
      simp only [fp, kvsOf_eq hm, kvsOf_eq hm']
      congr 2
      rw [List.all_eq_true] at hc
      exact congrArg _ (List.map_congr_left fun x hx => by rw [ih x.2 (hc x hx)])
    | set a =>
      obtain ⟨kvs, hm, hc⟩ := frozen_set.mp hw
      have hm' : m'[a]? = some ⟨.libset, .gomap kvs⟩ := by rw [h.2 a (frozenObj_libset hm), hm]
      simp only [fp, kvsOf_eq hm, kvsOf_eq hm']
      congr 2
      rw [List.all_eq_true] at hc
      exact congrArg _ (List.map_congr_left fun x hx => by
        rw [fpSeq_bucket_stable h hm ih (hc x hx)])
    | marked ms r =>
      obtain ⟨⟨l, hm⟩, hr⟩ := frozen_marked.mp hw
      have hm' : m'[ms]? = some ⟨.lib, .markset l⟩ := by rw [h.2 ms (frozenObj_lib hm), hm]
      simp [fp, marksOf, hm, hm', ih r hr]
    | pair t v =>
      obtain ⟨ht, hv⟩ := frozen_pair.mp hw
      simp [fp, ih t ht, ih v hv]
    | tlist e | tset e | tmap e | ttuple e | tobject e =>
      simp only [frozen] at hw
      simp [fp, ih e hw]

end Heap
end CtyModel
