/-
C05, slice d05b: THE BRIDGE beyond integers — a decidable side condition on the numbers actually involved.

`Lemmas/d05Bridge.lean` proves that two equality oracles that agree on a class `P` of numbers give the same outcome of
every builder chain whose numbers lie in `P`, and instantiates `P` with "integer or infinity".  Here `P` is "one of
the numbers of this very input": for a finite list `L` of numbers,

  `textFreeList L`  :=  for every two members `a`, `b` of `L`:  `rawNumberEqual a b = (a.Cmp(b) == 0)`

is a decidable condition (the harness evaluates the same condition on the real code: `Equals(a, b) == (Cmp == 0)` for
every pair, `c05TextAgrees`), and when it holds the code's text-based equality, the partial oracle wherever it
answers, and the total exact oracle agree on `L` — so the builder as the code runs it satisfies every `[ExactOracle]`
theorem on that input.  Non-integers at one precision, or at several precisions whose shortest decimal texts happen
to tell them apart exactly as their values do, are covered; the recorded finding (0.1 held at two precisions) is
exactly an input for which `textFreeList` is `false`.

`numsOfValue v` / `numsOfCalls cs` collect the numbers; `textFree v cs` is the condition for `v.Refine().cs`.
-/
import CtyModel.Lemmas.d05Bridge
import CtyModel.RefineTextFree
namespace CtyModel
namespace Refine
namespace D05b
open D05

/-- membership as a Boolean class of numbers -/
def inList (L : List Num) (x : Num) : Bool := L.any fun y => decide (y = x)

theorem inList_iff {L : List Num} {x : Num} : inList L x = true ↔ x ∈ L := by
  simp only [inList, List.any_eq_true, decide_eq_true_eq]
  exact ⟨fun ⟨y, hy, he⟩ => he ▸ hy, fun h => ⟨x, h, rfl⟩⟩

theorem textFreeList_exact {L : List Num} (h : textFreeList L = true) : TextExactOn (inList L) := by
  intro a b ha hb
  rw [inList_iff] at ha hb
  simp only [textFreeList, List.all_eq_true] at h
  have := h a ha b hb
  simpa using this

/-- on such a list the code's oracle and the total exact oracle agree -/
theorem agree_of_textFree {L : List Num} (h : textFreeList L = true) : AgreeOn textOracle idealOracle (inList L) :=
  agree_text_ideal (textFreeList_exact h)

/-! ## the collected numbers cover what the congruence lemmas ask for -/

theorem inList_mono {L L' : List Num} (h : ∀ x, x ∈ L → x ∈ L') {x : Num} (hx : inList L x = true) :
    inList L' x = true := by
  rw [inList_iff] at hx ⊢
  exact h x hx

theorem boundOk_of_subset {L : List Num} {w : Option Bound} (h : ∀ x, x ∈ numsOfBound w → x ∈ L) :
    boundOk (inList L) w = true := by
  cases w with
  | none => rfl
  | some w => simp only [boundOk]; exact inList_iff.mpr (h w.v (by simp [numsOfBound]))

theorem rfnOk_of_subset {L : List Num} {r : Rfn} (h : ∀ x, x ∈ numsOfRfn r → x ∈ L) : rfnOk (inList L) r = true := by
  cases r <;> try rfl
  rename_i n lo hi
  simp only [rfnOk, Bool.and_eq_true]
  exact ⟨boundOk_of_subset fun x hx => h x (by simp [numsOfRfn, hx]),
         boundOk_of_subset fun x hx => h x (by simp [numsOfRfn, hx])⟩

theorem argOk_of_subset {L : List Num} {a : NumArg} (h : ∀ x, x ∈ numsOfArg a → x ∈ L) : argOk (inList L) a = true := by
  cases a <;> simp only [argOk] <;> first | rfl | exact inList_iff.mpr (h _ (by simp [numsOfArg]))

theorem callOk_of_subset {L : List Num} {c : RefineCall} (h : ∀ x, x ∈ numsOfCall c → x ∈ L) :
    callOk (inList L) c = true := by
  cases c <;> try rfl
  · exact argOk_of_subset h
  · exact argOk_of_subset h
  · simp only [callOk, Bool.and_eq_true]
    exact ⟨argOk_of_subset fun x hx => h x (by simp [numsOfCall, hx]),
           argOk_of_subset fun x hx => h x (by simp [numsOfCall, hx])⟩

theorem callsOk_of_subset {L : List Num} {cs : List RefineCall} (h : ∀ x, x ∈ numsOfCalls cs → x ∈ L) :
    cs.all (callOk (inList L)) = true := by
  rw [List.all_eq_true]
  intro c hc
  exact callOk_of_subset fun x hx => h x (by
    simp only [numsOfCalls, List.mem_flatMap]; exact ⟨c, hc, hx⟩)

theorem valueOk_of_subset {L : List Num} {v : Value} (h : ∀ x, x ∈ numsOfValue v → x ∈ L) :
    valueOk (inList L) v = true := by
  unfold valueOk
  unfold numsOfValue at h
  cases hp : v.unmark.v <;> rw [hp] at h <;> try rfl
  · exact rfnOk_of_subset fun x hx => h x (by simp only [numsOfPayload]; exact hx)
  · exact inList_iff.mpr (h _ (by simp [numsOfPayload]))

theorem builderOk_of_subset {L : List Num} {b : Builder} (h : ∀ x, x ∈ numsOfBuilder b → x ∈ L) :
    builderOk (inList L) b = true := by
  unfold builderOk
  rw [Bool.and_eq_true]
  constructor
  · unfold origOk
    unfold numsOfBuilder at h
    cases hp : b.orig.v <;> rw [hp] at h <;> try rfl
    exact inList_iff.mpr (h _ (by simp))
  · exact rfnOk_of_subset fun x hx => h x (by simp [numsOfBuilder, hx])

/-! ## the transfer -/

/-- On a text-free input the code's oracle and the total exact oracle give the SAME outcome of
`v.Refine().<cs>.NewValue()` — value, panic, everything. -/
theorem refine_textFree {v : Value} {cs : List RefineCall} (h : textFree v cs = true) :
    @refine textOracle v cs = @refine idealOracle v cs :=
  refine_congr (agree_of_textFree h) (valueOk_of_subset fun _ hx => List.mem_append_left _ hx)
    (callsOk_of_subset fun _ hx => List.mem_append_right _ hx)

/-- … and of a chain on a builder. -/
theorem run_textFree {b : Builder} {cs : List RefineCall} (h : textFreeB b cs = true) :
    @run textOracle b cs = @run idealOracle b cs :=
  run_congr (agree_of_textFree h) (builderOk_of_subset fun _ hx => List.mem_append_left _ hx)
    (callsOk_of_subset fun _ hx => List.mem_append_right _ hx)

theorem step_textFree {b : Builder} {c : RefineCall} (h : textFreeB b [c] = true) :
    @step textOracle b c = @step idealOracle b c :=
  step_congr (agree_of_textFree h) (builderOk_of_subset fun _ hx => List.mem_append_left _ hx)
    (callOk_of_subset fun _ hx => List.mem_append_right _ (by simpa [numsOfCalls] using hx))

theorem newValue_textFree {b : Builder} (h : textFreeB b [] = true) :
    @newValue textOracle b = @newValue idealOracle b :=
  newValue_congr (agree_of_textFree h) (builderOk_of_subset fun _ hx => List.mem_append_left _ hx)

/-- the integer class of slice d05 is an instance: a list of integers and infinities is text-free -/
theorem textFreeList_of_intLike {L : List Num} (h : L.all intLike = true) : textFreeList L = true := by
  simp only [textFreeList, List.all_eq_true, beq_iff_eq] at h ⊢
  intro a ha b hb
  exact rawEqual_intLike (h a ha) (h b hb)

end D05b
end Refine
end CtyModel
