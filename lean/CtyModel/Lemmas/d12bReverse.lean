/-
C12 / d12b: `reverse` and `values` end to end: lists, tuples (maps, objects) known at the top whose MEMBERS
are weakened are reversed / listed member by member, so the result admits the concrete result position by
position; a set holding an unknown member has no iteration order yet and `reverse` answers the unknown
list (/repo 54de46d).
-/
import CtyModel.Lemmas.d12bElems
namespace CtyModel
namespace D12b
open Fn Stdlib C12L Cov

theorem covVals_nil {ex : Bool} : CovVals ex [] [] := ⟨rfl, rfl⟩
theorem cleanVals_nil : CleanVals [] := by intro p hp; simp [Gocty.payloads] at hp

theorem asValueSlice_cov (E : Env) {w o : Value} (hmw : w.containsMarked = false) (hmo : o.containsMarked = false)
    (hty : w.ty = o.ty) (hc : CoversX w o = true) (hk : w.isKnown = true) (hset : isSetTy o.ty = false)
    {io : List Value} (h : asValueSlice E o = .ok io) :
    ∃ iw, asValueSlice E w = .ok iw ∧ CovVals true iw io ∧ CleanVals iw ∧ CleanVals io := by
  unfold asValueSlice at h ⊢
  cases hl : Stdlib.lengthInt o with
  | ok n =>
    rw [hl] at h
    rw [lengthInt_covers hmw hmo hty hc hk hset hl]
    cases n with
    | zero =>
      simp only [Res.ok.injEq] at h ⊢
      subst h
      exact ⟨[], rfl, covVals_nil, cleanVals_nil, cleanVals_nil⟩
    | succ n =>
      simp only at h ⊢
      obtain ⟨ew, h1, h2⟩ := elems_cov E hmw hmo hty hc hk hset h
      exact ⟨ew, h1, h2, elems_clean E hmw (by rw [hty]; exact hset) h1, elems_clean E hmo hset h⟩
  | err c => rw [hl] at h; cases h
  | panic c => rw [hl] at h; cases h
  | unmodelled => rw [hl] at h; cases h

theorem withMarkSets_nil1' (v : Value) : Stdlib.withMarkSets v [[]] = v.withMarks [] := withMarkSets_nil1 v

theorem withMarks_ty (v : Value) (ms : List String) : (v.withMarks ms).ty = v.ty := rfl

theorem reverseType_eq {o w : Value} (hty : w.ty = o.ty) : reverseType [w] = reverseType [o] := by
  simp [reverseType, hty]

theorem covVals_length {ex : Bool} {ws os : List Value} (h : CovVals ex ws os) : ws.length = os.length := by
  rw [← tysOf_length ws, ← tysOf_length os, h.1]

/-- what `reverse` and `values` do with the slice of members: a tuple, the empty list, or `cty.ListVal` -/
def seqResult (rt : Ty) (vals : List Value) : Res Value :=
  if isTupleTy rt then .ok (Stdlib.withMarkSets (Gocty.tupleVal vals) [[]])
  else if vals.length == 0 then (elementTypeOf rt).map fun e => Stdlib.withMarkSets (listEmpty e) [[]]
  else (Gocty.listVal vals).map (Stdlib.withMarkSets · [[]])

theorem seqResult_cov {rt : Ty} {ws os : List Value} (hc : CovVals true ws os) (hmw : CleanVals ws) (hmo : CleanVals os)
    {r : Value} (h : seqResult rt os = .ok r) :
    ∃ r', seqResult rt ws = .ok r' ∧ r'.ty = r.ty ∧ Covers r' r = true := by
  unfold seqResult at h ⊢
  have hl := covVals_length hc
  split at h
  · rename_i ht
    simp only [ht, if_true, Res.ok.injEq] at h ⊢
    subst h
    obtain ⟨h1, h2⟩ := tupleVal_cov hmw hmo hc
    refine ⟨_, rfl, ?_, ?_⟩
    · rw [withMarkSets_nil1', withMarkSets_nil1', withMarks_ty, withMarks_ty]; exact h1
    · rw [withMarkSets_nil1', withMarkSets_nil1', covers_withMarks_left, covers_withMarks_right]; exact h2
  · rename_i ht
    simp only [ht, if_false]
    rw [hl]
    split at h
    · rename_i h0
      simp only [h0, if_true]
      obtain ⟨e, he, rfl⟩ := res_map_ok h
      rw [he]
      refine ⟨_, rfl, rfl, ?_⟩
      dsimp only
      rw [withMarkSets_nil1', covers_withMarks_left, covers_withMarks_right]
      simp [Covers, CoversG, listEmpty, Ty.matches_refl, Payload.stripMarks, Payload.stripMarksL, coversP, coversL]
    · rename_i h0
      simp only [h0, if_false]
      obtain ⟨lv, hlv, rfl⟩ := res_map_ok h
      obtain ⟨r', h1, h2, h3⟩ := listVal_cov hmw hmo hc hlv
      rw [h1]
      refine ⟨_, rfl, ?_, ?_⟩
      · dsimp only; rw [withMarkSets_nil1', withMarkSets_nil1', withMarks_ty, withMarks_ty]; exact h2
      · dsimp only; rw [withMarkSets_nil1', withMarkSets_nil1', covers_withMarks_left, covers_withMarks_right]; exact h3

theorem reverseImpl_eq (E : Env) {v : Value} (hm : v.containsMarked = false) (rt : Ty) :
    reverseImpl E [v] rt =
      if isSetTy v.ty && !v.whollyKnown then .ok (Stdlib.withMarkSets (Value.unknown rt) [[]])
      else match asValueSlice E v with
        | .ok inVals => seqResult rt (Stdlib.reverseLoop inVals [])
        | r => Res.cast r := by
  obtain ⟨hu, hms⟩ := clean_unmark hm
  simp only [reverseImpl, hu, hms, seqResult]
  split
  · rfl
  · cases asValueSlice E v <;> rfl

/-- `reverse`: a list or tuple known at the top with weakened members; a set with an unknown member (or the
set itself) -/
theorem reverse_implSound (E : Env) (o w : Value) (hty : w.ty = o.ty)
    (hmw : w.containsMarked = false) (hmo : o.containsMarked = false)
    (hk : w.isKnown = true) (hc : CoversX w o = true)
    (hset : isSetTy o.ty = true → w.whollyKnown = false ∨ w = o) :
    ImplSoundAt reverseType (reverseImpl E) [o] [w] := by
  intro rt rt' r ho hw hio hconf hwf' hrwf hrefl
  rw [reverseType_eq hty, ho] at hw
  cases hw
  rw [reverseImpl_eq E hmo] at hio
  rw [reverseImpl_eq E hmw]
  by_cases hs : isSetTy o.ty = true
  · rcases hset hs with h | h
    · simp only [hty, hs, h, Bool.not_false, Bool.and_self, if_true]
      refine ⟨_, rfl, ?_, ?_⟩
      · rw [withMarkSets_nil1']
        exact (Ty.conform_iff rt rt hwf' hwf').mpr (Ty.matches_refl rt)
      · rw [withMarkSets_nil1', covers_withMarks_left]
        exact unknown_covers_of_matches rt r ((Ty.conform_iff rt r.ty hwf' hrwf).mp hconf)
    · subst h
      exact ⟨r, hio, hconf, hrefl⟩
  · have hs' : isSetTy o.ty = false := by simpa using hs
    simp only [hs', Bool.false_and, Bool.false_eq_true, if_false] at hio
    simp only [hty, hs', Bool.false_and, Bool.false_eq_true, if_false]
    cases hio' : asValueSlice E o with
    | ok io =>
      rw [hio'] at hio
      obtain ⟨iw, h1, h2, h3, h4⟩ := asValueSlice_cov E hmw hmo hty hc hk hs' hio'
      rw [h1]
      simp only at hio ⊢
      rw [reverseLoop_eq, List.append_nil] at hio ⊢
      obtain ⟨r', hr', ht', hc'⟩ := seqResult_cov (covVals_reverse h2) (cleanVals_reverse h3) (cleanVals_reverse h4) hio
      exact ⟨r', hr', by rw [ht']; exact hconf, hc'⟩
    | err c => rw [hio'] at hio; cases hio
    | panic c => rw [hio'] at hio; cases hio
    | unmodelled => rw [hio'] at hio; cases hio

theorem wfL_iff : ∀ (ts : List Ty), Ty.wfL ts = true ↔ ∀ t ∈ ts, Ty.wf t = true
  | [] => by simp [Ty.wfL]
  | t :: ts => by simp [Ty.wfL, wfL_iff ts]

theorem reverseType_wf {w : Value} (hwf : Ty.wf w.ty = true) {t : Ty} (h : reverseType [w] = .ok t) : Ty.wf t = true := by
  simp only [reverseType] at h
  split at h
  · cases h
    rename_i ts hts
    rw [hts] at hwf
    simp only [Ty.wf] at hwf ⊢
    rw [wfL_iff] at hwf ⊢
    intro t ht
    exact hwf t (List.mem_reverse.mp ht)
  · cases h; rename_i e hts; rw [hts] at hwf; simpa [Ty.wf] using hwf
  · cases h; rename_i e hts; rw [hts] at hwf; simpa [Ty.wf] using hwf
  · cases h

/-! ### `values` -/

theorem valuesImpl_eq (E : Env) {v : Value} (hm : v.containsMarked = false) (rt : Ty) :
    valuesImpl E [v] rt =
      match elems E v with
      | .ok vals => seqResult rt vals
      | r => Res.cast r := by
  obtain ⟨hu, hms⟩ := clean_unmark hm
  simp only [valuesImpl, hu, hms, seqResult]
  cases elems E v <;> rfl

theorem valuesType_eq {o w : Value} (hty : w.ty = o.ty) : valuesType [w] = valuesType [o] := by
  simp [valuesType, hty]

/-- `values`: a map or object known at the top; its element values, weakened or not, are listed in key order -/
theorem values_implSound (E : Env) (o w : Value) (hty : w.ty = o.ty)
    (hmw : w.containsMarked = false) (hmo : o.containsMarked = false)
    (hk : w.isKnown = true) (hc : CoversX w o = true) :
    ImplSoundAt valuesType (valuesImpl E) [o] [w] := by
  intro rt rt' r ho hw hio hconf hwf' hrwf hrefl
  rw [valuesType_eq hty, ho] at hw
  cases hw
  have hs' : isSetTy o.ty = false := by
    simp only [valuesType] at ho
    split at ho <;> simp_all [isSetTy]
  rw [valuesImpl_eq E hmo] at hio
  rw [valuesImpl_eq E hmw]
  cases hio' : elems E o with
  | ok io =>
    rw [hio'] at hio
    obtain ⟨iw, h1, h2⟩ := elems_cov E hmw hmo hty hc hk hs' hio'
    rw [h1]
    simp only at hio ⊢
    obtain ⟨r', hr', ht', hc'⟩ := seqResult_cov h2 (elems_clean E hmw (by rw [hty]; exact hs') h1)
      (elems_clean E hmo hs' hio') hio
    exact ⟨r', hr', by rw [ht']; exact hconf, hc'⟩
  | err c => rw [hio'] at hio; cases hio
  | panic c => rw [hio'] at hio; cases hio
  | unmodelled => rw [hio'] at hio; cases hio

theorem valuesType_wf {w : Value} (hwf : Ty.wf w.ty = true) {t : Ty} (h : valuesType [w] = .ok t) : Ty.wf t = true := by
  simp only [valuesType] at h
  split at h
  · cases h; rename_i e hts; rw [hts] at hwf; simpa [Ty.wf] using hwf
  · cases h; rename_i ns ts os hts; rw [hts] at hwf; simp only [Ty.wf, Bool.and_eq_true] at hwf ⊢; exact hwf.2
  · cases h

end D12b
end CtyModel
