/-
C01: `ValueRange.Includes` answers False only for values the range does not
admit — up to cty's text-based number equality (`rawNumberEqual`), which is the
one place where the statement fails.
-/
import CtyModel.Lemmas.OpsEquals
namespace CtyModel
open Value Cov NumCmp

local instance : LawfulBEq Tri where
  eq_of_beq := by intro a b h; cases a <;> cases b <;> first | rfl | cases h
  rfl := by intro a; cases a <;> rfl

/-- the unknown value a range stands for -/
def unkOf (rng : VRange) : Value := ⟨rng.ty, .unk rng.raw⟩

/-- cty's number equality agrees with exact comparison between `x` and the bound (true for integers) -/
def BoundCoherent (b : Option Bound) (x : Num) : Prop :=
  ∀ bd, b = some bd → Num.rawEqual x bd.v = (Num.cmp x bd.v == 0)

theorem stripMarks_top_known {p : Payload} (hm : ∀ ms q, p ≠ .marked ms q) (hu : ∀ r, p ≠ .unk r) (hn : p ≠ .null) :
    (∀ r, p.stripMarks ≠ .unk r) ∧ p.stripMarks ≠ .null ∧ (∀ ms q, p.stripMarks ≠ .marked ms q) := by
  cases p <;> simp_all [Payload.stripMarks]

theorem admits_known_nullT {r : Rfn} {p : Payload} (hu : ∀ r, p ≠ .unk r) (hn : p ≠ .null) (ht : r.nullness = .t) :
    admits r p = false := by
  cases p <;> simp_all [admits]

theorem rawEqual_self_inf (n : Bool) : Num.rawEqual (.inf n) (.inf n) = true := by
  simp [Num.rawEqual, Num.isInt]

theorem numGE_negInf (x : Num) : numGE x (.inf true) = true := by
  cases x with
  | inf n => cases n <;> simp [numGE, Num.cmp, rawEqual_self_inf]
  | fin n m e p => simp [numGE, Num.cmp]

theorem numLE_posInf (x : Num) : numLE x (.inf false) = true := by
  cases x with
  | inf n => cases n <;> simp [numLE, Num.cmp, rawEqual_self_inf]
  | fin n m e p => simp [numLE, Num.cmp]

theorem loInside_false_of_minOk {x : Num} {lo : Option Bound} (hc : BoundCoherent lo x)
    (hmin : (if (lo.getD ⟨.inf true, true⟩).incl then numGE x (lo.getD ⟨.inf true, true⟩).v
             else decide (Num.cmp x (lo.getD ⟨.inf true, true⟩).v > 0)) = false) : loInside lo (pt x) = false := by
  cases lo with
  | none => simp [numGE_negInf] at hmin
  | some b =>
    have hcb := hc b rfl
    simp only [Option.getD_some] at hmin
    simp only [loInside, pt, Option.getD_some]
    have sw : Num.cmp b.v x = - Num.cmp x b.v := cmp_swap x b.v
    by_cases hi : b.incl = true
    · simp only [hi, if_true, numGE, Bool.or_eq_false_iff, decide_eq_false_iff_not] at hmin
      rw [hcb] at hmin
      have h0 : Num.cmp x b.v ≠ 0 := by simpa using hmin.2
      have : ¬ (Num.cmp b.v x ≤ 0) := by omega
      simp [hi, this]
    · simp only [hi, Bool.false_eq_true, if_false, decide_eq_false_iff_not] at hmin
      have : ¬ (Num.cmp b.v x < 0) := by omega
      simp [hi, this]

theorem hiInside_false_of_maxOk {x : Num} {hi : Option Bound} (hc : BoundCoherent hi x)
    (hmax : (if (hi.getD ⟨.inf false, true⟩).incl then numLE x (hi.getD ⟨.inf false, true⟩).v
             else decide (Num.cmp x (hi.getD ⟨.inf false, true⟩).v < 0)) = false) : hiInside hi (pt x) = false := by
  cases hi with
  | none => simp [numLE_posInf] at hmax
  | some b =>
    have hcb := hc b rfl
    simp only [Option.getD_some] at hmax
    simp only [hiInside, pt, Option.getD_some]
    by_cases hi' : b.incl = true
    · simp only [hi', if_true, numLE, Bool.or_eq_false_iff, decide_eq_false_iff_not] at hmax
      rw [hcb] at hmax
      have h0 : Num.cmp x b.v ≠ 0 := by simpa using hmax.2
      have : ¬ (Num.cmp x b.v ≤ 0) := by omega
      simp [hi', this]
    · simp only [hi', Bool.false_eq_true, if_false, decide_eq_false_iff_not] at hmax
      have : ¬ (Num.cmp x b.v < 0) := by omega
      simp [hi', this]

theorem includes_false_sound_partial (rng : VRange) (v : Value) (hm : v.isMarked = false) (hk : v.isKnown = true)
    (hwr : rng.ty.wf = true) (hwv : v.ty.wf = true)
    (hcoh : ∀ x lo hi nl, v.v = .n x → rng.raw = .num nl lo hi → BoundCoherent lo x ∧ BoundCoherent hi x)
    (h : includes rng v = .ok (some false)) : Covers (unkOf rng) v = false := by
  obtain ⟨tr, raw⟩ := rng
  obtain ⟨tv, p⟩ := v
  simp only at hwr hwv hcoh
  have hpm : ∀ ms q, p ≠ .marked ms q := by
    intro ms q hh; subst hh; simp [Value.isMarked, Payload.isMarked] at hm
  have hpu : ∀ r, p ≠ .unk r := by
    intro r hh; subst hh; simp [Value.isKnown, Payload.isKnown, Payload.unmark1] at hk
  simp only [Covers, CoversG, unkOf, Payload.stripMarks, coversP]
  by_cases hnull : p = .null
  · -- a null value is excluded only by a not-null range
    subst hnull
    have hvn : (⟨tv, .null⟩ : Value).isNull = true := by simp [Value.isNull, Payload.isNull, Payload.unmark1]
    unfold includes at h
    simp only [hvn] at h
    cases hn : raw.nullness <;> simp [hn] at h
    simp [Payload.stripMarks, admits, hn]
  · have hvn : (⟨tv, p⟩ : Value).isNull = false := by
      cases p <;> simp_all [Value.isNull, Payload.isNull, Payload.unmark1]
    obtain ⟨su, sn, sm⟩ := stripMarks_top_known hpm hpu hnull
    unfold includes at h
    simp only [hvn, Bool.and_false, Bool.false_eq_true, if_false] at h
    by_cases hnt : (raw.nullness == Tri.t) = true
    · have : raw.nullness = .t := by simpa using hnt
      simp [admits_known_nullT su sn this]
    simp only [hnt, Bool.false_eq_true, if_false] at h
    by_cases hcf : (Ty.conformErrs tr tv != 0) = true
    · have : Ty.matches tr tv = false := by
        cases hmm : Ty.matches tr tv
        · rfl
        · have := (Ty.conform_iff tr tv hwr hwv).mpr hmm
          simp [this] at hcf
      simp [this]
    simp only [hcf, Bool.false_eq_true, if_false] at h
    by_cases hd : tv.isDyn = true
    · simp [hd] at h
    simp only [hd, Bool.false_eq_true, if_false] at h
    cases raw with
    | unref => simp at h
    | nullable _ => simp at h
    | str nl pfx =>
      cases p <;> simp at h
      rename_i s
      simp [Payload.stripMarks, admits, rfnAdmitsKnown, h]
    | coll nl lo hi =>
      cases tv <;> cases p <;> simp at h
      · -- list
        rename_i e vs
        have : ¬ (lo ≤ (vs.length : Int) ∧ (vs.length : Int) ≤ hi) := by omega
        simp [Payload.stripMarks, admits, rfnAdmitsKnown, possibleLen, stripMarksL_length]
        intro _ h1; omega
      · -- set
        rename_i e ids vs
        simp only [Payload.stripMarks, admits, rfnAdmitsKnown, possibleLen, stripMarksL_length, wk_stripMarksL]
        by_cases hex : (vs.length = 1 ∨ Payload.whollyKnownL vs = true)
        · simp only [hex, if_true] at h
          have hex' : (decide (vs.length ≤ 1) || Payload.whollyKnownL vs) = true := by
            simp only [Bool.or_eq_true, decide_eq_true_eq]
            rcases hex with h1 | h1
            · exact Or.inl (by omega)
            · exact Or.inr h1
          simp only [hex', if_true]
          split at h <;> simp at h
          rename_i hout
          have : (decide (lo ≤ (vs.length : Int)) && decide ((vs.length : Int) ≤ hi)) = false := by
            simp only [Bool.and_eq_false_iff, decide_eq_false_iff_not]; omega
          simp [this]
        · simp only [hex, if_false] at h
          have hex' : (decide (vs.length ≤ 1) || Payload.whollyKnownL vs) = false := by
            simp only [not_or, Bool.not_eq_true] at hex
            simp only [Bool.or_eq_false_iff, decide_eq_false_iff_not]
            refine ⟨?_, hex.2⟩
            intro hle
            have : vs.length = 0 := by omega
            have : vs = [] := List.length_eq_zero_iff.mp this
            subst this
            simp [Payload.whollyKnownL] at hex
          simp only [hex', Bool.false_eq_true, if_false]
          split at h <;> simp at h
          rename_i hout
          have : (decide (lo ≤ (1 : Int)) && decide ((vs.length : Int) ≤ hi)) = false := by
            simp only [not_or, Bool.not_eq_true] at hex
            have : vs.length ≠ 0 := by
              intro h0
              have : vs = [] := List.length_eq_zero_iff.mp h0
              subst this
              simp [Payload.whollyKnownL] at hex
            simp only [Bool.and_eq_false_iff, decide_eq_false_iff_not]; omega
          simp [this]
      · -- map
        rename_i e ks vs
        simp [Payload.stripMarks, admits, rfnAdmitsKnown, possibleLen, stripMarksL_length]
        intro _ h1; omega
    | num nl lo hi =>
      cases p with
      | n x =>
        dsimp only at h
        obtain ⟨cl, ch⟩ := hcoh x lo hi nl rfl rfl
        simp only [Payload.stripMarks, admits, rfnAdmitsKnown]
        generalize hmin : (if (lo.getD ⟨.inf true, true⟩).incl then numGE x (lo.getD ⟨.inf true, true⟩).v
               else decide (Num.cmp x (lo.getD ⟨.inf true, true⟩).v > 0)) = minOk at h
        generalize hmax : (if (hi.getD ⟨.inf false, true⟩).incl then numLE x (hi.getD ⟨.inf false, true⟩).v
               else decide (Num.cmp x (hi.getD ⟨.inf false, true⟩).v < 0)) = maxOk at h
        cases hm1 : minOk
        · subst hm1
          simp [loInside_false_of_minOk cl hmin]
        · cases hm2 : maxOk
          · subst hm2
            simp [hiInside_false_of_maxOk ch hmax]
          · simp [hm1, hm2] at h
      | _ => simp at h

/-- the full statement (no side condition on numbers) -/
def IncludesFalseSound : Prop :=
  ∀ (rng : VRange) (v : Value), v.isMarked = false → v.isKnown = true → rng.ty.wf = true → v.ty.wf = true →
    includes rng v = .ok (some false) → Covers (unkOf rng) v = false

/-- … it fails exactly where cty's text-based number equality disagrees with exact
comparison: a number sitting ON an inclusive bound that `rawNumberEqual` does not
recognise as equal to it (another precision, non-integer) -/
theorem includes_false_at_bound (x b : Num) (hc : Num.cmp x b = 0) (hr : Num.rawEqual x b = false) :
    includes ⟨.number, .num .u (some ⟨b, true⟩) none⟩ ⟨.number, .n x⟩ = .ok (some false) ∧
    Covers (unkOf ⟨.number, .num .u (some ⟨b, true⟩) none⟩) ⟨.number, .n x⟩ = true := by
  constructor
  · simp [includes, Rfn.nullness, Value.isNull, Payload.isNull, Payload.unmark1, Ty.conformErrs, Ty.equals, Ty.isDyn,
      numGE, hc, hr]
  · have h1 : Num.cmp b x = 0 := by rw [cmp_swap x b]; omega
    simp [Covers, CoversG, unkOf, Ty.matches, Payload.stripMarks, coversP, admits, rfnAdmitsKnown, Rfn.nullness,
      loInside, hiInside, pt, posInfB, h1, cmp_posInf]

theorem includesFalseSound_needs_coherence (h : IncludesFalseSound) (x b : Num) (hc : Num.cmp x b = 0) :
    Num.rawEqual x b = true := by
  cases hr : Num.rawEqual x b
  · obtain ⟨h1, h2⟩ := includes_false_at_bound x b hc hr
    have := h _ _ (by rfl) (by rfl) (by rfl) (by rfl) h1
    rw [h2] at this; cases this
  · rfl
end CtyModel
