/-
C05: `RefineWith` and `RefineNotNull` are the builder chain in other clothes — so every theorem about
`refine v cs` is a theorem about them.
-/
import CtyModel.RefineWith
import CtyModel.Lemmas.d05Chain
namespace CtyModel
namespace Refine
namespace D05

section Any
variable [EqOracle]

/-- refiners that return the builder they were given: the loop is one chain of all their calls -/
theorem withLoop_same {rs : List Refiner} : ∀ {b : Builder}, rs.all (·.same) = true →
    withLoop b rs = run b (rs.flatMap (·.calls)) := by
  induction rs with
  | nil => intro b _; rfl
  | cons r rs ih =>
    intro b h
    simp only [List.all_cons, Bool.and_eq_true] at h
    simp only [withLoop, List.flatMap_cons, run_append, h.1, if_true]
    cases run b r.calls with
    | ok b' => simp only [Res.bind]; exact ih h.2
    | err e => rfl
    | panic w => rfl
    | unmodelled => rfl

/-- a refiner that returns another builder: never accepted -/
theorem withLoop_different {rs : List Refiner} : ∀ {b b' : Builder}, rs.any (fun r => !r.same) = true →
    withLoop b rs ≠ .ok b' := by
  induction rs with
  | nil => intro b b' h; simp at h
  | cons r rs ih =>
    intro b b' h hk
    simp only [withLoop] at hk
    cases h1 : run b r.calls with
    | ok b1 =>
      rw [h1] at hk
      simp only [Res.bind] at hk
      cases hs : r.same with
      | true =>
        rw [hs] at hk
        simp only [if_true] at hk
        simp only [List.any_cons, hs, Bool.not_true, Bool.false_or] at h
        exact ih h hk
      | false => rw [hs] at hk; simp at hk
    | err e => rw [h1] at hk; simp [Res.bind] at hk
    | panic w => rw [h1] at hk; simp [Res.bind] at hk
    | unmodelled => rw [h1] at hk; simp [Res.bind] at hk

theorem refineWith_nil (v : Value) : refineWith v [] = .ok v := rfl

theorem refineWith_same {v : Value} {rs : List Refiner} (hne : rs ≠ []) (h : rs.all (·.same) = true) :
    refineWith v rs = refine v (rs.flatMap (·.calls)) := by
  unfold refineWith refine
  have : rs.isEmpty = false := by cases rs <;> simp_all
  simp only [this, Bool.false_eq_true, if_false]
  cases init v with
  | ok b => simp only [Res.bind]; rw [withLoop_same h]
  | err e => rfl
  | panic w => rfl
  | unmodelled => rfl

theorem refineWith_different {v w : Value} {rs : List Refiner} (h : rs.any (fun r => !r.same) = true) :
    refineWith v rs ≠ .ok w := by
  intro hk
  unfold refineWith at hk
  have : rs.isEmpty = false := by cases rs <;> simp_all
  simp only [this, Bool.false_eq_true, if_false] at hk
  cases hi : init v with
  | ok b =>
    rw [hi] at hk
    simp only [Res.bind] at hk
    cases hl : withLoop b rs with
    | ok b' => exact withLoop_different h hl
    | err e => rw [hl] at hk; simp at hk
    | panic w => rw [hl] at hk; simp at hk
    | unmodelled => rw [hl] at hk; simp at hk
  | err e => rw [hi] at hk; simp [Res.bind] at hk
  | panic w => rw [hi] at hk; simp [Res.bind] at hk
  | unmodelled => rw [hi] at hk; simp [Res.bind] at hk

theorem refineNotNull_eq (v : Value) : refineNotNull v = refine v [.notNull] := by
  unfold refineNotNull refine
  cases init v with
  | ok b =>
    simp only [Res.bind, run]
    cases step b .notNull <;> rfl
  | err e => rfl
  | panic w => rfl
  | unmodelled => rfl

end Any

end D05
end Refine
end CtyModel
