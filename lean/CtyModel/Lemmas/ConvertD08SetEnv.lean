/-
The set parameters of the correspondence driver's environment satisfy `SetLaws`
(audit C08 item 1): `hashC` (= `setRules.Hash`, ConvertSet.lean) and `equivC`
(= `setRules.Equivalent`, i.e. `Value.Equals` known-true, Ops.lean) never panic
and never report an error on well-typed, mark-free, wholly-known members of a
well-formed element type — they answer, or the model gives up (`.unmodelled`:
a string outside the modelled `%q` range, a capsule member).

Both facts hold for every fuel of the fuel-indexed transliterations, so no
fuel-adequacy argument is needed here.
-/
import CtyModel.Lemmas.ConvertTotal
import CtyModel.ConvertSet
import CtyModel.Lemmas.ValEqEquals
set_option linter.unusedSimpArgs false
namespace CtyModel
namespace Convert
open Ty

/-- "ok or unmodelled" -/
theorem NB_false_iff {α} {r : Res α} : NB false r ↔ (∃ a, r = .ok a) ∨ r = .unmodelled := by
  constructor
  · intro h
    cases r with
    | ok a => exact .inl ⟨a, rfl⟩
    | err c => exact absurd (h.2 c rfl) (by simp)
    | panic w => exact absurd rfl (h.1 w)
    | unmodelled => exact .inr rfl
  · rintro (⟨a, rfl⟩ | rfl)
    · exact NB.ok _
    · exact NB.unmodelled

/-! ### members of well-typed containers -/

theorem cmL_mem : ∀ {ps : List Payload}, Payload.containsMarkedL ps = false → ∀ p ∈ ps, p.containsMarked = false
  | [], _, _, hp => by simp at hp
  | q :: qs, h, p, hp => by
    simp only [Payload.containsMarkedL, Bool.or_eq_false_iff] at h
    rcases List.mem_cons.mp hp with rfl | hp
    · exact h.1
    · exact cmL_mem h.2 p hp

/-- a payload the hash / equivalence functions are asked about, without the wholly-known part -/
def clean (t : Ty) (p : Payload) : Prop := wtP t p = true ∧ p.containsMarked = false

theorem clean_all {e : Ty} {ps : List Payload} (h1 : wtAll e ps = true) (h2 : Payload.containsMarkedL ps = false) :
    ∀ p ∈ ps, clean e p := fun p hp => ⟨wtAll_mem h1 p hp, cmL_mem h2 p hp⟩

/-! ### `setRules.Hash` -/

theorem joinRes_NB (sep : List UInt8) : ∀ (rs : List (Res (List UInt8))), (∀ r ∈ rs, NB false r) →
    NB false (joinRes sep rs)
  | [], _ => NB.ok _
  | r :: rs, h => by
    simp only [joinRes]
    exact NB.bind (h r (by simp)) fun _ _ =>
      NB.bind (joinRes_NB sep rs fun x hx => h x (List.mem_cons_of_mem _ hx)) fun _ _ => NB.ok _

theorem insertBy_mem {lt : Payload → Payload → Bool} {x y : Payload} :
    ∀ {l : List Payload}, y ∈ insertBy lt x l → y = x ∨ y ∈ l
  | [], h => by simp [insertBy] at h; exact .inl h
  | z :: zs, h => by
    simp only [insertBy] at h
    split at h
    · rcases List.mem_cons.mp h with rfl | h
      · exact .inl rfl
      · exact .inr h
    · rcases List.mem_cons.mp h with rfl | h
      · exact .inr (by simp)
      · rcases insertBy_mem h with rfl | h
        · exact .inl rfl
        · exact .inr (by simp [h])

theorem foldl_insertBy_mem {lt : Payload → Payload → Bool} : ∀ (ps acc : List Payload) (y : Payload),
    y ∈ ps.foldl (fun acc x => insertBy lt x acc) acc → y ∈ ps ∨ y ∈ acc
  | [], acc, y, h => .inr h
  | p :: ps, acc, y, h => by
    simp only [List.foldl] at h
    rcases foldl_insertBy_mem ps _ y h with h | h
    · exact .inl (by simp [h])
    · rcases insertBy_mem h with rfl | h
      · exact .inl (by simp)
      · exact .inr h

theorem sortedF_mem {fuel : Nat} {e : Ty} {xs : List Payload} {y : Payload} (h : y ∈ sortedF fuel e xs) : y ∈ xs := by
  cases fuel with
  | zero => simpa [sortedF] using h
  | succ n =>
    simp only [sortedF] at h
    rcases foldl_insertBy_mem xs [] y h with h | h
    · exact h
    · simp at h

theorem zipWithTys_NB {f : Ty → Payload → Res (List UInt8)} : ∀ (ts : List Ty) (vs : List Payload),
    wtZip ts vs = true → Payload.containsMarkedL vs = false →
    (∀ t v, clean t v → NB false (f t v)) →
    ∀ r ∈ (zipWithTys ts vs).map (fun tp => f tp.1 tp.2), NB false r
  | [], [], _, _, _ => by simp [zipWithTys]
  | [], _ :: _, h, _, _ => by simp [wtZip] at h
  | _ :: _, [], h, _, _ => by simp [wtZip] at h
  | t :: ts, v :: vs, hw, hm, hf => by
    simp only [wtZip, Bool.and_eq_true] at hw
    simp only [Payload.containsMarkedL, Bool.or_eq_false_iff] at hm
    intro r hr
    simp only [zipWithTys, List.map_cons] at hr
    rcases List.mem_cons.mp hr with rfl | hr
    · exact hf t v ⟨hw.1, hm.1⟩
    · exact zipWithTys_NB ts vs hw.2 hm.2 hf r hr

theorem hashBytesF_NB : ∀ (fuel : Nat) (t : Ty) (p : Payload), clean t p → NB false (hashBytesF fuel t p)
  | 0, _, _, _ => by simp only [hashBytesF]; exact NB.unmodelled
  | fuel + 1, t, p, ⟨hw, hm⟩ => by
    have ih := hashBytesF_NB fuel
    cases p with
    | marked ms r => simp [Payload.containsMarked] at hm
    | unk r => simp only [hashBytesF]; exact NB.ok _
    | null => simp only [hashBytesF]; exact NB.ok _
    | bad w => simp only [hashBytesF]; exact NB.unmodelled
    | b x => cases t <;> simp [wtP] at hw; simp only [hashBytesF]; exact NB.ok _
    | n x => cases t <;> simp [wtP] at hw; simp only [hashBytesF]; exact NB.ok _
    | s x =>
      cases t <;> simp [wtP] at hw
      simp only [hashBytesF]
      split
      · exact NB.ok _
      · exact NB.unmodelled
    | caps => cases t <;> simp [wtP] at hw; simp only [hashBytesF]; exact NB.ok _
    | seq vs =>
      simp only [Payload.containsMarked] at hm
      cases t <;> simp [wtP] at hw
      case list e =>
        simp only [hashBytesF]
        refine NB.map (joinRes_NB _ _ ?_)
        intro r hr
        obtain ⟨v, hv, rfl⟩ := List.mem_map.mp hr
        exact ih e v (clean_all hw hm v hv)
      case tuple ts =>
        simp only [hashBytesF]
        exact NB.map (joinRes_NB _ _ (zipWithTys_NB ts vs hw hm fun t v hc => ih t v hc))
    | smap ks vs =>
      simp only [Payload.containsMarked] at hm
      cases t <;> simp [wtP] at hw
      case map e =>
        simp only [hashBytesF]
        refine NB.map (joinRes_NB _ _ ?_)
        intro r hr
        obtain ⟨kv, hkv, rfl⟩ := List.mem_map.mp hr
        have hv : kv.2 ∈ vs := (List.of_mem_zip hkv).2
        refine NB.bind (ih .string (.s kv.1) ⟨by simp [wtP], by simp [Payload.containsMarked]⟩) fun _ _ => ?_
        exact NB.bind (ih e kv.2 (clean_all hw.2 hm kv.2 hv)) fun _ _ => NB.ok _
      case object ns ts os =>
        simp only [hashBytesF]
        exact NB.map (joinRes_NB _ _ (zipWithTys_NB ts vs hw.2 hm fun t v hc => ih t v hc))
    | sset ids vs =>
      simp only [Payload.containsMarked] at hm
      cases t <;> simp [wtP] at hw
      case set e =>
        simp only [hashBytesF]
        refine NB.map (joinRes_NB _ _ ?_)
        intro r hr
        obtain ⟨v, hv, rfl⟩ := List.mem_map.mp hr
        exact ih e v (clean_all hw.2 hm v (sortedF_mem hv))

theorem hashC_NB {t : Ty} {p : Payload} (h : memberOK t p = true) : NB false (hashC t p) := by
  simp only [memberOK, Bool.and_eq_true, Bool.not_eq_true'] at h
  exact NB.map (hashBytesF_NB _ t p ⟨h.1.1, h.1.2⟩)

/-! ### `setRules.Equivalent` = `Value.Equals` is known and true -/

open CtyModel.Value in
theorem eqAccOf_NB {r : Res Value} (h : NB false r) : NB false (eqAccOf r) := by
  cases r with
  | ok v => simp only [eqAccOf]; split <;> (try split) <;> exact NB.ok _
  | err c => exact absurd (h.2 c rfl) (by simp)
  | panic w => exact absurd rfl (h.1 w)
  | unmodelled => exact NB.unmodelled

/-- what the recursive occurrence of `Equals` is assumed to do on members -/
def EqNB (rec : CtyModel.Value.EqRec) : Prop :=
  ∀ (t : Ty) (x y : Payload), t.wf = true → memberOK t x = true → memberOK t y = true → NB false (rec t x t y)

theorem memberOK_cons {e : Ty} {x : Payload} {xs : List Payload} (hw : wtAll e (x :: xs) = true)
    (hm : Payload.containsMarkedL (x :: xs) = false) (hk : Payload.whollyKnownL (x :: xs) = true) :
    memberOK e x = true ∧ wtAll e xs = true ∧ Payload.containsMarkedL xs = false ∧ Payload.whollyKnownL xs = true := by
  simp only [wtAll, Bool.and_eq_true] at hw
  simp only [Payload.containsMarkedL, Bool.or_eq_false_iff] at hm
  simp only [Payload.whollyKnownL, Bool.and_eq_true] at hk
  exact ⟨by simp [memberOK, hw.1, hm.1, hk.1], hw.2, hm.2, hk.2⟩

theorem memberOK_zcons {t : Ty} {ts : List Ty} {x : Payload} {xs : List Payload} (hw : wtZip (t :: ts) (x :: xs) = true)
    (hm : Payload.containsMarkedL (x :: xs) = false) (hk : Payload.whollyKnownL (x :: xs) = true) :
    memberOK t x = true ∧ wtZip ts xs = true ∧ Payload.containsMarkedL xs = false ∧ Payload.whollyKnownL xs = true := by
  simp only [wtZip, Bool.and_eq_true] at hw
  simp only [Payload.containsMarkedL, Bool.or_eq_false_iff] at hm
  simp only [Payload.whollyKnownL, Bool.and_eq_true] at hk
  exact ⟨by simp [memberOK, hw.1, hm.1, hk.1], hw.2, hm.2, hk.2⟩

theorem memberOK_mem {e : Ty} : ∀ {xs : List Payload}, wtAll e xs = true → Payload.containsMarkedL xs = false →
    Payload.whollyKnownL xs = true → ∀ x ∈ xs, memberOK e x = true
  | [], _, _, _, _, hx => by simp at hx
  | y :: ys, hw, hm, hk, x, hx => by
    obtain ⟨h1, h2, h3, h4⟩ := memberOK_cons hw hm hk
    rcases List.mem_cons.mp hx with rfl | hx
    · exact h1
    · exact memberOK_mem h2 h3 h4 x hx

section Loops
open CtyModel.Value
variable {rec : EqRec} (hr : EqNB rec)
include hr

theorem equalsZip_NB : ∀ (ts : List Ty) (xs ys : List Payload), wfL ts = true →
    wtZip ts xs = true → Payload.containsMarkedL xs = false → Payload.whollyKnownL xs = true →
    wtZip ts ys = true → Payload.containsMarkedL ys = false → Payload.whollyKnownL ys = true →
    NB false (CtyModel.Value.equalsZip rec ts xs ys)
  | [], _, _, _, _, _, _, _, _, _ => by simp only [CtyModel.Value.equalsZip]; exact NB.ok _
  | _ :: _, [], _, _, h, _, _, _, _, _ => by simp [wtZip] at h
  | _ :: _, _ :: _, [], _, _, _, _, h, _, _ => by simp [wtZip] at h
  | t :: ts, x :: xs, y :: ys, hw, hx, hxm, hxk, hy, hym, hyk => by
    simp only [wfL, Bool.and_eq_true] at hw
    obtain ⟨ox, hx2, hxm2, hxk2⟩ := memberOK_zcons hx hxm hxk
    obtain ⟨oy, hy2, hym2, hyk2⟩ := memberOK_zcons hy hym hyk
    have h1 := eqAccOf_NB (hr t x y hw.1 ox oy)
    simp only [CtyModel.Value.equalsZip]
    cases hc : eqAccOf (rec t x t y) with
    | ok acc =>
      cases acc
      · exact equalsZip_NB ts xs ys hw.2 hx2 hxm2 hxk2 hy2 hym2 hyk2
      · exact NB.ok _
      · exact NB.ok _
    | err c => rw [hc] at h1; exact absurd (h1.2 c rfl) (by simp)
    | panic w => rw [hc] at h1; exact absurd rfl (h1.1 w)
    | unmodelled => exact NB.unmodelled

theorem equalsObj_NB : ∀ (ts : List Ty) (xs ys : List Payload) (sawU : Bool), wfL ts = true →
    wtZip ts xs = true → Payload.containsMarkedL xs = false → Payload.whollyKnownL xs = true →
    wtZip ts ys = true → Payload.containsMarkedL ys = false → Payload.whollyKnownL ys = true →
    NB false (equalsObj rec ts xs ys sawU)
  | [], _, _, _, _, _, _, _, _, _, _ => by simp only [equalsObj]; exact NB.ok _
  | _ :: _, [], _, _, _, h, _, _, _, _, _ => by simp [wtZip] at h
  | _ :: _, _ :: _, [], _, _, _, _, _, h, _, _ => by simp [wtZip] at h
  | t :: ts, x :: xs, y :: ys, sawU, hw, hx, hxm, hxk, hy, hym, hyk => by
    simp only [wfL, Bool.and_eq_true] at hw
    obtain ⟨ox, hx2, hxm2, hxk2⟩ := memberOK_zcons hx hxm hxk
    obtain ⟨oy, hy2, hym2, hyk2⟩ := memberOK_zcons hy hym hyk
    have h1 := eqAccOf_NB (hr t x y hw.1 ox oy)
    simp only [equalsObj]
    cases hc : eqAccOf (rec t x t y) with
    | ok acc =>
      cases acc
      · exact equalsObj_NB ts xs ys sawU hw.2 hx2 hxm2 hxk2 hy2 hym2 hyk2
      · exact NB.ok _
      · exact equalsObj_NB ts xs ys true hw.2 hx2 hxm2 hxk2 hy2 hym2 hyk2
    | err c => rw [hc] at h1; exact absurd (h1.2 c rfl) (by simp)
    | panic w => rw [hc] at h1; exact absurd rfl (h1.1 w)
    | unmodelled => exact NB.unmodelled

theorem equalsAll_NB (e : Ty) (hw : e.wf = true) : ∀ (xs ys : List Payload),
    (∀ x ∈ xs, memberOK e x = true) → (∀ y ∈ ys, memberOK e y = true) → NB false (equalsAll rec e xs ys)
  | [], _, _, _ => by simp only [equalsAll]; exact NB.ok _
  | _ :: _, [], _, _ => by simp only [equalsAll]; exact NB.ok _
  | x :: xs, y :: ys, hx, hy => by
    have h1 := eqAccOf_NB (hr e x y hw (hx x (by simp)) (hy y (by simp)))
    simp only [equalsAll]
    cases hc : eqAccOf (rec e x e y) with
    | ok acc =>
      cases acc
      · exact equalsAll_NB e hw xs ys (fun z hz => hx z (List.mem_cons_of_mem _ hz))
          (fun z hz => hy z (List.mem_cons_of_mem _ hz))
      · exact NB.ok _
      · exact NB.ok _
    | err c => rw [hc] at h1; exact absurd (h1.2 c rfl) (by simp)
    | panic w => rw [hc] at h1; exact absurd rfl (h1.1 w)
    | unmodelled => exact NB.unmodelled

omit hr in
theorem lookupKey_mem {k : String} {y : Payload} : ∀ {ks : List String} {vs : List Payload},
    lookupKey k ks vs = some y → y ∈ vs
  | [], _, h => by simp [lookupKey] at h
  | _ :: _, [], h => by simp [lookupKey] at h
  | n :: ns, v :: vs, h => by
    simp only [lookupKey] at h
    split at h
    · simp at h; subst h; simp
    · exact List.mem_cons_of_mem _ (lookupKey_mem h)

theorem equalsMap_NB (e : Ty) (hw : e.wf = true) : ∀ (kx : List String) (xs : List Payload) (ky : List String)
    (ys : List Payload) (sawU : Bool),
    (∀ x ∈ xs, memberOK e x = true) → (∀ y ∈ ys, memberOK e y = true) →
    NB false (equalsMap rec e kx xs ky ys sawU)
  | [], _, _, _, _, _, _ => by simp only [equalsMap]; exact NB.ok _
  | _ :: _, [], _, _, _, _, _ => by simp only [equalsMap]; exact NB.ok _
  | k :: kx, x :: xs, ky, ys, sawU, hx, hy => by
    simp only [equalsMap]
    cases hl : lookupKey k ky ys with
    | none => exact NB.ok _
    | some y =>
      simp only
      have h1 := eqAccOf_NB (hr e x y hw (hx x (by simp)) (hy y (lookupKey_mem hl)))
      cases hc : eqAccOf (rec e x e y) with
      | ok acc =>
        cases acc
        · exact equalsMap_NB e hw kx xs ky ys sawU (fun z hz => hx z (List.mem_cons_of_mem _ hz)) hy
        · exact NB.ok _
        · exact equalsMap_NB e hw kx xs ky ys true (fun z hz => hx z (List.mem_cons_of_mem _ hz)) hy
      | err c => rw [hc] at h1; exact absurd (h1.2 c rfl) (by simp)
      | panic w => rw [hc] at h1; exact absurd rfl (h1.1 w)
      | unmodelled => exact NB.unmodelled

theorem setHas_NB (e : Ty) (hw : e.wf = true) (i : Int) (x : Payload) (hx : memberOK e x = true) :
    ∀ (js : List Int) (ys : List Payload), (∀ y ∈ ys, memberOK e y = true) → NB false (setHas rec e i x js ys)
  | [], _, _ => by simp only [setHas]; exact NB.ok _
  | _ :: _, [], _ => by simp only [setHas]; exact NB.ok _
  | j :: js, y :: ys, hy => by
    have ih := setHas_NB e hw i x hx js ys (fun z hz => hy z (List.mem_cons_of_mem _ hz))
    simp only [setHas]
    split
    · have h1 := hr e x y hw hx (hy y (by simp))
      cases hc : rec e x e y with
      | ok v => simp only; split; exact NB.ok _; exact ih
      | err c => rw [hc] at h1; exact absurd (h1.2 c rfl) (by simp)
      | panic w => rw [hc] at h1; exact absurd rfl (h1.1 w)
      | unmodelled => exact NB.unmodelled
    · exact ih

theorem setInclWK_NB (e : Ty) (hw : e.wf = true) : ∀ (is : List Int) (xs : List Payload) (iy : List Int)
    (ys : List Payload), (∀ x ∈ xs, memberOK e x = true) → (∀ y ∈ ys, memberOK e y = true) →
    NB false (setInclWK rec e is xs iy ys)
  | [], _, _, _, _, _ => by simp only [setInclWK]; exact NB.ok _
  | _ :: _, [], _, _, _, _ => by simp only [setInclWK]; exact NB.ok _
  | i :: is, x :: xs, iy, ys, hx, hy => by
    simp only [setInclWK]
    split
    · exact NB.ok _
    · have h1 := setHas_NB hr e hw i x (hx x (by simp)) iy ys hy
      have ih := setInclWK_NB e hw is xs iy ys (fun z hz => hx z (List.mem_cons_of_mem _ hz)) hy
      cases hc : setHas rec e i x iy ys with
      | ok h =>
        simp only
        cases hd : setInclWK rec e is xs iy ys with
        | ok o => cases o <;> exact NB.ok _
        | err c => rw [hd] at ih; exact absurd (ih.2 c rfl) (by simp)
        | panic w => rw [hd] at ih; exact absurd rfl (ih.1 w)
        | unmodelled => exact NB.unmodelled
      | err c => rw [hc] at h1; exact absurd (h1.2 c rfl) (by simp)
      | panic w => rw [hc] at h1; exact absurd rfl (h1.1 w)
      | unmodelled => exact NB.unmodelled

end Loops

theorem known_of_wk' {p : Payload} (hm : p.containsMarked = false) (hk : p.whollyKnown = true) : p.isKnown = true := by
  cases p <;> simp_all [Payload.isKnown, Payload.unmark1, Payload.whollyKnown, Payload.containsMarked]

open CtyModel.Value in
theorem equalsFuel_NB : ∀ fuel : Nat, EqNB (equalsFuel fuel)
  | 0 => by intro t x y _ _ _; simp only [equalsFuel]; exact NB.unmodelled
  | fuel + 1 => by
    intro t x y hw hx hy
    have ih := equalsFuel_NB fuel
    have hx' := hx; have hy' := hy
    simp only [memberOK, Bool.and_eq_true, Bool.not_eq_true'] at hx' hy'
    obtain ⟨⟨hxw, hxm⟩, hxk⟩ := hx'
    obtain ⟨⟨hyw, hym⟩, hyk⟩ := hy'
    have kx := known_of_wk' hxm hxk
    have ky := known_of_wk' hym hyk
    simp only [equalsFuel, equalsPre_of_known t t x y kx ky]
    cases hnx : x.isNull <;> cases hny : y.isNull <;> simp only [Bool.and_self, Bool.or_self, Bool.and_false,
      Bool.false_and, Bool.or_false, Bool.false_or, Bool.or_true, Bool.true_or, Bool.false_eq_true, if_false, if_true]
    · -- both non-null
      split
      · split <;> exact NB.ok _
      · rename_i hA
        split
        · exact NB.ok _
        · rename_i hB
          clear hA hB
          cases x <;> simp [Payload.isNull, Payload.unmark1, Payload.containsMarked, Payload.whollyKnown] at hnx hxm hxk
          all_goals
            cases y <;> simp [Payload.isNull, Payload.unmark1, Payload.containsMarked, Payload.whollyKnown] at hny hym hyk
          all_goals (cases t <;> simp [wtP] at hxw hyw)
          all_goals (try (first | exact NB.ok _ | exact NB.unmodelled))
          · -- list
            rename_i xs ys e
            simp only [wf] at hw
            dsimp only
            split
            · exact NB.map (equalsAll_NB ih e hw xs ys (memberOK_mem hxw hxm hxk) (memberOK_mem hyw hym hyk))
            · exact NB.ok _
          · -- tuple
            rename_i xs ys ts
            simp only [wf] at hw
            exact NB.map (equalsZip_NB ih ts xs ys hw hxw hxm hxk hyw hym hyk)
          · -- map
            rename_i kx' xs ky' ys e
            simp only [wf] at hw
            dsimp only
            split
            · exact NB.map (equalsMap_NB ih e hw kx' xs ky' ys false (memberOK_mem hxw.2 hxm hxk)
                (memberOK_mem hyw.2 hym hyk))
            · exact NB.ok _
          · -- object
            rename_i kx' xs ky' ys ns ts os
            simp only [wf, Bool.and_eq_true] at hw
            exact NB.map (equalsObj_NB ih ts xs ys false hw.2 hxw.2 hxm hxk hyw.2 hym hyk)
          · -- set
            rename_i ix xs iy ys e
            simp only [wf] at hw
            have hX := memberOK_mem hxw.2 hxm hxk
            have hY := memberOK_mem hyw.2 hym hyk
            have h1 := setInclWK_NB ih e hw ix xs iy ys hX hY
            have h2 := setInclWK_NB ih e hw iy ys ix xs hY hX
            dsimp only
            cases hc : setInclWK (equalsFuel fuel) e ix xs iy ys with
            | ok o =>
              cases o with
              | none => exact NB.ok _
              | some p =>
                simp only
                cases hd : setInclWK (equalsFuel fuel) e iy ys ix xs with
                | ok o2 => cases o2 <;> exact NB.ok _
                | err c => rw [hd] at h2; exact absurd (h2.2 c rfl) (by simp)
                | panic w => rw [hd] at h2; exact absurd rfl (h2.1 w)
                | unmodelled => exact NB.unmodelled
            | err c => rw [hc] at h1; exact absurd (h1.2 c rfl) (by simp)
            | panic w => rw [hc] at h1; exact absurd rfl (h1.1 w)
            | unmodelled => exact NB.unmodelled
    · exact NB.ok _
    · exact NB.ok _
    · exact NB.ok _

theorem stripMarks_id' : ∀ (p : Payload), p.containsMarked = false → p.stripMarks = p :=
  fun p h => Payload.stripMarks_id p h

theorem equivC_NB {t : Ty} {a b : Payload} (hw : t.wf = true) (ha : memberOK t a = true) (hb : memberOK t b = true) :
    NB false (equivC t a b) := by
  have ha' := ha; have hb' := hb
  simp only [memberOK, Bool.and_eq_true, Bool.not_eq_true'] at ha' hb'
  have hne : NB false ((Value.equals ⟨t, a⟩ ⟨t, b⟩).map Value.isTrue) := by
    simp only [Value.equals, Value.containsMarked, ha'.1.2, hb'.1.2, Bool.or_self, Bool.false_eq_true, if_false,
      Value.equalsP]
    exact NB.map (equalsFuel_NB _ t a b hw ha hb)
  unfold equivC
  split
  · exact NB.unmodelled
  · exact hne

/-- **the driver's set parameters satisfy the set laws**, whatever model of `unify` is plugged in -/
theorem setLaws_concrete (U : Bool → List Ty → Option Ty) : SetLaws (Env.concrete U) where
  hash_ok := fun _ _ _ hm => NB_false_iff.mp (hashC_NB hm)
  equiv_ok := fun _ _ _ hw ha hb => NB_false_iff.mp (equivC_NB hw ha hb)

end Convert
end CtyModel
