/-
`RawEquals`: the transliteration `rawK` computes the specification `rawB` on
well-formed values of a plain type (L1 = L2), and `rawB` is an equivalence.
-/
import CtyModel.Lemmas.ValEqNum
import CtyModel.Lemmas.Asc
namespace CtyModel
open Value

/-! ### `Equals` on primitive leaves -/

theorem equalsP_num (x y : Num) :
    equalsP .number (.n x) .number (.n y) = .ok (boolVal (Num.rawEqual x y)) := by
  simp [equalsP, equalsFuel, equalsPre, Value.isNull, Payload.isNull, Payload.unmark1, definitelyNotNull,
    Value.isKnown, Payload.isKnown, hasWhollyKnownType, Ty.equals]

theorem equalsP_bool (x y : Bool) :
    equalsP .bool (.b x) .bool (.b y) = .ok (boolVal (x == y)) := by
  simp [equalsP, equalsFuel, equalsPre, Value.isNull, Payload.isNull, Payload.unmark1, definitelyNotNull,
    Value.isKnown, Payload.isKnown, hasWhollyKnownType, Ty.equals]

theorem equalsP_str (x y : String) :
    equalsP .string (.s x) .string (.s y) = .ok (boolVal (x == y)) := by
  simp [equalsP, equalsFuel, equalsPre, Value.isNull, Payload.isNull, Payload.unmark1, definitelyNotNull,
    Value.isKnown, Payload.isKnown, hasWhollyKnownType, Ty.equals]

theorem primRawEq_boolVal (t : Ty) (a b : Payload) (r : Bool) (h : equalsP t a t b = .ok (boolVal r)) :
    primRawEq t a b = .ok r := by
  simp only [primRawEq, h]
  cases r <;> rfl

theorem primRawEq_num (x y : Num) : primRawEq .number (.n x) (.n y) = .ok (Num.rawEqual x y) :=
  primRawEq_boolVal _ _ _ _ (equalsP_num x y)
theorem primRawEq_bool (x y : Bool) : primRawEq .bool (.b x) (.b y) = .ok (x == y) :=
  primRawEq_boolVal _ _ _ _ (equalsP_bool x y)
theorem primRawEq_str (x y : String) : primRawEq .string (.s x) (.s y) = .ok (x == y) :=
  primRawEq_boolVal _ _ _ _ (equalsP_str x y)

/-! ### kind tests -/
theorem Ty.isBool_iff {t : Ty} : t.isBool = true ↔ t = .bool := by cases t <;> simp [Ty.isBool]
theorem Ty.isNumber_iff {t : Ty} : t.isNumber = true ↔ t = .number := by cases t <;> simp [Ty.isNumber]
theorem Ty.isString_iff {t : Ty} : t.isString = true ↔ t = .string := by cases t <;> simp [Ty.isString]

/-! ### L1 = L2 -/

theorem wf_of_lookupKey {e : Ty} {k : String} : ∀ {ks : List String} {vs : List Payload} {y : Payload},
    lookupKey k ks vs = some y → Payload.shapedAll e vs = true → y.shaped e = true
  | [], _, _, h, _ => by simp [lookupKey] at h
  | _ :: _, [], _, h, _ => by simp [lookupKey] at h
  | n :: ns, v :: vs, y, h, hw => by
    simp only [Payload.shapedAll, Bool.and_eq_true] at hw
    simp only [lookupKey] at h
    split at h
    · cases h; exact hw.1
    · exact wf_of_lookupKey h hw.2

theorem andThen_ok (r : Bool) (k : Unit → Res Bool) (s : Bool) (hk : r = true → k () = .ok s) :
    Res.andThen (.ok r) k = .ok (r && (if r then s else true)) := by
  cases r
  · rfl
  · simp [Res.andThen, hk rfl]

mutual
theorem rawK_eq_rawB (sr : SetRawRec) : ∀ (t : Ty) (a b : Payload), t.plain = true →
    a.shaped t = true → b.shaped t = true → rawK sr t a b = .ok (rawB t a b)
  | t, .marked m p, q, hp, ha, hb => by
    cases q with
    | marked m' q' =>
      simp only [Payload.shaped, Bool.and_eq_true] at ha hb
      simp only [rawK, rawB, rawK_eq_rawB sr t p q' hp ha.2 hb.2]
      by_cases h : (m == m') = true <;> simp [h]
    | _ => simp [rawK, rawB]
  | t, .unk r, q, _, _, _ => by cases q <;> simp [rawK, rawB]
  | t, .null, q, _, _, _ => by cases q <;> simp [rawK, rawB]
  | t, .b x, q, _, ha, hb => by
    simp only [Payload.shaped, Ty.isBool_iff] at ha
    subst ha
    cases q <;> simp [rawK, rawB, rawRhs, rawLeaf, primRawEq_bool, Payload.shaped, Ty.isNumber, Ty.isString] at hb ⊢
  | t, .n x, q, _, ha, hb => by
    simp only [Payload.shaped, Ty.isNumber_iff] at ha
    subst ha
    cases q <;> simp [rawK, rawB, rawRhs, rawLeaf, primRawEq_num, Payload.shaped, Ty.isBool, Ty.isString] at hb ⊢
  | t, .s x, q, _, ha, hb => by
    simp only [Payload.shaped, Ty.isString_iff] at ha
    subst ha
    cases q <;> simp [rawK, rawB, rawRhs, rawLeaf, primRawEq_str, Payload.shaped, Ty.isBool, Ty.isNumber] at hb ⊢
  | t, .seq xs, q, hp, ha, hb => by
    cases t <;> simp [Payload.shaped] at ha
    case list e =>
      simp only [Ty.plain] at hp
      cases q <;> simp [rawK, rawB, rawRhs, Payload.shaped, Ty.isBool, Ty.isNumber, Ty.isString] at hb ⊢
      case seq ys =>
        rw [rawAll_eq sr e xs ys hp ha hb]
        by_cases hl : xs.length = ys.length <;> simp [hl]
    case tuple ts =>
      simp only [Ty.plain] at hp
      cases q <;> simp [rawK, rawB, rawRhs, Payload.shaped, Ty.isBool, Ty.isNumber, Ty.isString] at hb ⊢
      case seq ys => exact rawZip_eq sr ts xs ys hp ha hb
  | t, .smap kx xs, q, hp, ha, hb => by
    cases t <;> simp [Payload.shaped] at ha
    case map e =>
      simp only [Ty.plain] at hp
      cases q <;> simp [rawK, rawB, rawRhs, Payload.shaped, Ty.isBool, Ty.isNumber, Ty.isString] at hb ⊢
      case smap ky ys =>
        rw [rawMap_eq sr e kx xs ky ys hp ha.2 hb.2]
        by_cases hl : xs.length = ys.length <;> simp [hl]
    case object ns ts os =>
      simp only [Ty.plain] at hp
      cases q <;> simp [rawK, rawB, rawRhs, Payload.shaped, Ty.isBool, Ty.isNumber, Ty.isString] at hb ⊢
      case smap ky ys => exact rawZip_eq sr ts xs ys hp ha.2 hb.2
  | t, .sset _ _, _, hp, ha, _ => by
    cases t <;> simp [Payload.shaped] at ha
    simp [Ty.plain] at hp
  | t, .caps, _, hp, ha, _ => by
    cases t <;> simp [Payload.shaped] at ha
    simp [Ty.plain] at hp
  | _, .bad _, _, _, ha, _ => by simp [Payload.shaped] at ha
theorem rawAll_eq (sr : SetRawRec) : ∀ (e : Ty) (xs ys : List Payload), e.plain = true →
    Payload.shapedAll e xs = true → Payload.shapedAll e ys = true → rawAll sr e xs ys = .ok (rawBAll e xs ys)
  | _, [], _, _, _, _ => by simp [rawAll, rawBAll]
  | _, _ :: _, [], _, _, _ => by simp [rawAll, rawBAll]
  | e, x :: xs, y :: ys, hp, ha, hb => by
    simp only [Payload.shapedAll, Bool.and_eq_true] at ha hb
    simp only [rawAll, rawBAll, rawK_eq_rawB sr e x y hp ha.1 hb.1]
    cases rawB e x y
    · rfl
    · simpa [Res.andThen] using rawAll_eq sr e xs ys hp ha.2 hb.2
theorem rawZip_eq (sr : SetRawRec) : ∀ (ts : List Ty) (xs ys : List Payload), Ty.plainL ts = true →
    Payload.shapedZip ts xs = true → Payload.shapedZip ts ys = true → rawZip sr ts xs ys = .ok (rawBZip ts xs ys)
  | [], _, _, _, _, _ => by simp [rawZip, rawBZip]
  | _ :: _, [], _, _, ha, _ => by simp [Payload.shapedZip] at ha
  | _ :: _, _ :: _, [], _, _, hb => by simp [Payload.shapedZip] at hb
  | t :: ts, x :: xs, y :: ys, hp, ha, hb => by
    simp only [Payload.shapedZip, Bool.and_eq_true] at ha hb
    simp only [Ty.plainL, Bool.and_eq_true] at hp
    simp only [rawZip, rawBZip, rawK_eq_rawB sr t x y hp.1 ha.1 hb.1]
    cases rawB t x y
    · rfl
    · simpa [Res.andThen] using rawZip_eq sr ts xs ys hp.2 ha.2 hb.2
theorem rawMap_eq (sr : SetRawRec) : ∀ (e : Ty) (ks : List String) (xs : List Payload) (ky : List String)
    (ys : List Payload), e.plain = true → Payload.shapedAll e xs = true → Payload.shapedAll e ys = true →
    rawMap sr e ks xs ky ys = .ok (rawBMap e ks xs ky ys)
  | _, [], _, _, _, _, _, _ => by simp [rawMap, rawBMap]
  | _, _ :: _, [], _, _, _, _, _ => by simp [rawMap, rawBMap]
  | e, k :: ks, x :: xs, ky, ys, hp, ha, hb => by
    simp only [Payload.shapedAll, Bool.and_eq_true] at ha
    simp only [rawMap, rawBMap]
    cases hl : lookupKey k ky ys with
    | none => rfl
    | some y =>
      have hy : y.shaped e = true := wf_of_lookupKey hl hb
      simp only [rawK_eq_rawB sr e x y hp ha.1 hy]
      cases rawB e x y
      · rfl
      · simpa [Res.andThen] using rawMap_eq sr e ks xs ky ys hp ha.2 hb
end

end CtyModel

namespace CtyModel
open Value

/-! ### maps: lookup by key = position by position, for ascending key lists -/

theorem lookupKey_mem {k : String} : ∀ {ks : List String} {vs : List Payload} {y : Payload},
    lookupKey k ks vs = some y → k ∈ ks
  | [], _, _, h => by simp [lookupKey] at h
  | _ :: _, [], _, h => by simp [lookupKey] at h
  | n :: ns, v :: vs, y, h => by
    simp only [lookupKey] at h
    split at h
    · rename_i hn; simp [hn]
    · exact List.mem_cons_of_mem _ (lookupKey_mem h)

theorem lookupKey_skip {k : String} {y : Payload} {ks : List String} {ys : List Payload} :
    ∀ (pre : List String) (preY : List Payload), pre.length = preY.length → k ∉ pre →
      lookupKey k (pre ++ k :: ks) (preY ++ y :: ys) = some y
  | [], [], _, _ => by simp [lookupKey]
  | [], _ :: _, h, _ => by simp at h
  | _ :: _, [], h, _ => by simp at h
  | p :: pre, q :: preY, h, hk => by
    have hne : ¬ p = k := fun he => hk (by simp [he])
    simp only [List.cons_append, lookupKey, hne, if_false]
    exact lookupKey_skip pre preY (by simpa using h) (fun hm => hk (List.mem_cons_of_mem _ hm))

theorem rawBMap_self (e : Ty) : ∀ (ks : List String) (xs ys : List Payload) (pre : List String)
    (preY : List Payload), pre.length = preY.length → ks.length = xs.length → ks.length = ys.length →
    (∀ k ∈ ks, k ∉ pre) → ks.Nodup → rawBMap e ks xs (pre ++ ks) (preY ++ ys) = rawBAll e xs ys
  | [], xs, ys, _, _, _, hx, hy, _, _ => by
    cases xs <;> cases ys <;> simp at hx hy <;> simp [rawBMap, rawBAll]
  | k :: ks, [], _, _, _, _, hx, _, _, _ => by simp at hx
  | k :: ks, _ :: _, [], _, _, _, _, hy, _, _ => by simp at hy
  | k :: ks, x :: xs, y :: ys, pre, preY, hl, hx, hy, hpre, hnd => by
    have hk : k ∉ pre := hpre k (by simp)
    simp only [rawBMap, rawBAll, lookupKey_skip pre preY hl hk]
    have := rawBMap_self e ks xs ys (pre ++ [k]) (preY ++ [y]) (by simp [hl]) (by simpa using hx)
      (by simpa using hy)
      (by
        intro k' hk' hm
        rcases List.mem_append.mp hm with h | h
        · exact hpre k' (List.mem_cons_of_mem _ hk') h
        · simp at h; subst h; exact (List.nodup_cons.mp hnd).1 hk')
      (List.nodup_cons.mp hnd).2
    simp only [List.append_assoc, List.singleton_append] at this
    rw [this]

theorem lookupKey_none_of_not_mem {k : String} : ∀ {ks : List String} {vs : List Payload},
    k ∉ ks → lookupKey k ks vs = none
  | ks, vs, h => by
    cases hl : lookupKey k ks vs with
    | none => rfl
    | some y => exact absurd (lookupKey_mem hl) h

theorem rawBMap_missing (e : Ty) (ky : List String) (ys : List Payload) : ∀ (ks : List String)
    (xs : List Payload), ks.length = xs.length → (∃ k ∈ ks, k ∉ ky) → rawBMap e ks xs ky ys = false
  | [], _, _, h => by simp at h
  | _ :: _, [], hl, _ => by simp at hl
  | k :: ks, x :: xs, hl, ⟨k', hk', hm⟩ => by
    simp only [rawBMap]
    rcases List.mem_cons.mp hk' with rfl | hk''
    · rw [lookupKey_none_of_not_mem hm]
    · cases lookupKey k ky ys with
      | none => rfl
      | some y =>
        simp only [rawBMap_missing e ky ys ks xs (by simpa using hl) ⟨k', hk'', hm⟩, Bool.and_false]

theorem rawBMap_eq (e : Ty) (kx : List String) (xs : List Payload) (ky : List String) (ys : List Payload)
    (hax : Ty.strictAsc kx = true) (hay : Ty.strictAsc ky = true) (hx : kx.length = xs.length)
    (hy : ky.length = ys.length) (hl : xs.length = ys.length) :
    rawBMap e kx xs ky ys = (decide (kx = ky) && rawBAll e xs ys) := by
  by_cases h : kx = ky
  · subst h
    simpa using rawBMap_self e kx xs ys [] [] rfl hx (by omega) (by simp) (Ty.strictAsc_nodup hax)
  · simp only [h, decide_false, Bool.false_and]
    apply rawBMap_missing e ky ys kx xs hx
    apply Classical.byContradiction
    intro hne
    apply h
    apply Ty.asc_subset_eq kx ky hax hay (by omega)
    intro x hxm
    apply Classical.byContradiction
    intro hnm
    exact hne ⟨x, hxm, hnm⟩

/-! ### refinements -/

theorem Tri.beq_iff (a b : Tri) : (a == b) = true ↔ a = b := by cases a <;> cases b <;> decide

theorem rfnBoundRawEq_refl (a : Option Bound) : rfnBoundRawEq a a = true := by
  cases a <;> simp [rfnBoundRawEq, Num.rawEq_refl]

theorem rfnBoundRawEq_symm (a b : Option Bound) : rfnBoundRawEq a b = rfnBoundRawEq b a := by
  cases a <;> cases b <;> simp [rfnBoundRawEq, Num.rawEq_symm]

theorem rfnBoundRawEq_trans (a b c : Option Bound) (h1 : rfnBoundRawEq a b = true)
    (h2 : rfnBoundRawEq b c = true) : rfnBoundRawEq a c = true := by
  cases a <;> cases b <;> cases c <;> simp [rfnBoundRawEq] at h1 h2 ⊢
  exact Num.rawEq_trans _ _ _ h1 h2

theorem rfnRawEq_refl (r : Rfn) : rfnRawEq r r = true := by
  cases r <;> simp [rfnRawEq, rfnBoundRawEq_refl, Tri.beq_iff]

theorem Tri.beq_comm (a b : Tri) : (a == b) = (b == a) := by cases a <;> cases b <;> rfl

theorem rfnRawEq_symm (r s : Rfn) : rfnRawEq r s = rfnRawEq s r := by
  cases r <;> cases s <;> simp only [rfnRawEq]
  case nullable.nullable a b => exact Tri.beq_comm a b
  case str.str a p b q => rw [Tri.beq_comm a b, BEq.comm (a := p)]
  case num.num a lo hi b lo' hi' =>
    rw [rfnBoundRawEq_symm lo lo', rfnBoundRawEq_symm hi hi', Tri.beq_comm a b,
      BEq.comm (a := (lo.map (·.incl)).getD false), BEq.comm (a := (hi.map (·.incl)).getD false)]
  case coll.coll a lo hi b lo' hi' => rw [Tri.beq_comm a b, BEq.comm (a := lo), BEq.comm (a := hi)]

theorem rfnRawEq_trans (r s u : Rfn) (h1 : rfnRawEq r s = true) (h2 : rfnRawEq s u = true) :
    rfnRawEq r u = true := by
  cases r <;> cases s <;> simp only [rfnRawEq, Bool.false_eq_true] at h1 <;>
    cases u <;> simp only [rfnRawEq, Bool.false_eq_true] at h2 ⊢
  case nullable.nullable.nullable a b c =>
    simp only [Tri.beq_iff] at *; exact h1.trans h2
  case str.str.str a p b q c w =>
    simp only [Bool.and_eq_true, Tri.beq_iff, beq_iff_eq] at *
    exact ⟨h1.1.trans h2.1, h1.2.trans h2.2⟩
  case num.num.num a lo hi b lo' hi' c lo'' hi'' =>
    simp only [Bool.and_eq_true, Tri.beq_iff, beq_iff_eq] at *
    exact ⟨⟨⟨⟨h1.1.1.1.1.trans h2.1.1.1.1, rfnBoundRawEq_trans _ _ _ h1.1.1.1.2 h2.1.1.1.2⟩,
      rfnBoundRawEq_trans _ _ _ h1.1.1.2 h2.1.1.2⟩, h1.1.2.trans h2.1.2⟩, h1.2.trans h2.2⟩
  case coll.coll.coll a lo hi b lo' hi' c lo'' hi'' =>
    simp only [Bool.and_eq_true, Tri.beq_iff, beq_iff_eq] at *
    exact ⟨⟨h1.1.1.trans h2.1.1, h1.1.2.trans h2.1.2⟩, h1.2.trans h2.2⟩

end CtyModel

namespace CtyModel
open Value

/-! ### `rawB` is an equivalence on well-formed values of a plain type -/

theorem wfAll_length_irrel : True := trivial

mutual
theorem rawB_refl : ∀ (t : Ty) (a : Payload), t.plain = true → a.shaped t = true → rawB t a a = true
  | t, .marked m p, hp, ha => by
    simp only [Payload.shaped, Bool.and_eq_true] at ha
    simp [rawB, rawB_refl t p hp ha.2]
  | _, .unk r, _, _ => by simp [rawB, rfnRawEq_refl]
  | _, .null, _, _ => by simp [rawB]
  | _, .b _, _, _ => by simp [rawB]
  | _, .n _, _, _ => by simp [rawB, Num.rawEq_refl]
  | _, .s _, _, _ => by simp [rawB]
  | t, .seq xs, hp, ha => by
    cases t <;> simp [Payload.shaped] at ha
    case list e => simp only [Ty.plain] at hp; simp [rawB, rawBAll_refl e xs hp ha]
    case tuple ts => simp only [Ty.plain] at hp; simp [rawB, rawBZip_refl ts xs hp ha]
  | t, .smap ks xs, hp, ha => by
    cases t <;> simp [Payload.shaped] at ha
    case map e =>
      simp only [Ty.plain] at hp
      simp [rawB, rawBMap_eq e ks xs ks xs ha.1.2 ha.1.2 ha.1.1 ha.1.1 rfl, rawBAll_refl e xs hp ha.2]
    case object ns ts os => simp only [Ty.plain] at hp; simp [rawB, rawBZip_refl ts xs hp ha.2]
  | t, .sset _ _, hp, ha => by
    cases t <;> simp [Payload.shaped] at ha
    simp [Ty.plain] at hp
  | t, .caps, hp, ha => by
    cases t <;> simp [Payload.shaped] at ha
    simp [Ty.plain] at hp
  | _, .bad _, _, ha => by simp [Payload.shaped] at ha
theorem rawBAll_refl : ∀ (e : Ty) (xs : List Payload), e.plain = true → Payload.shapedAll e xs = true →
    rawBAll e xs xs = true
  | _, [], _, _ => by simp [rawBAll]
  | e, x :: xs, hp, ha => by
    simp only [Payload.shapedAll, Bool.and_eq_true] at ha
    simp [rawBAll, rawB_refl e x hp ha.1, rawBAll_refl e xs hp ha.2]
theorem rawBZip_refl : ∀ (ts : List Ty) (xs : List Payload), Ty.plainL ts = true →
    Payload.shapedZip ts xs = true → rawBZip ts xs xs = true
  | [], _, _, _ => by simp [rawBZip]
  | _ :: _, [], _, _ => by simp [rawBZip]
  | t :: ts, x :: xs, hp, ha => by
    simp only [Payload.shapedZip, Bool.and_eq_true] at ha
    simp only [Ty.plainL, Bool.and_eq_true] at hp
    simp [rawBZip, rawB_refl t x hp.1 ha.1, rawBZip_refl ts xs hp.2 ha.2]
end

mutual
theorem rawB_symm : ∀ (t : Ty) (a b : Payload), t.plain = true → a.shaped t = true → b.shaped t = true →
    rawB t a b = rawB t b a
  | t, .marked m p, q, hp, ha, hb => by
    cases q with
    | marked m' q' =>
      simp only [Payload.shaped, Bool.and_eq_true] at ha hb
      simp only [rawB, rawB_symm t p q' hp ha.2 hb.2, BEq.comm (a := m)]
    | _ => cases t <;> simp [rawB]
  | t, .unk r, q, _, _, _ => by cases q <;> cases t <;> simp [rawB, rfnRawEq_symm r]
  | t, .null, q, _, _, _ => by cases q <;> cases t <;> simp [rawB]
  | t, .b x, q, _, _, _ => by cases q <;> cases t <;> simp [rawB, BEq.comm (a := x)]
  | t, .n x, q, _, _, _ => by cases q <;> cases t <;> simp [rawB, Num.rawEq_symm x]
  | t, .s x, q, _, _, _ => by cases q <;> cases t <;> simp [rawB, BEq.comm (a := x)]
  | t, .seq xs, q, hp, ha, hb => by
    cases t <;> simp [Payload.shaped] at ha
    case list e =>
      simp only [Ty.plain] at hp
      cases q <;> simp [rawB, Payload.shaped, Ty.isBool, Ty.isNumber, Ty.isString] at hb ⊢
      case seq ys => rw [rawBAll_symm e xs ys hp ha hb, BEq.comm (a := xs.length)]
    case tuple ts =>
      simp only [Ty.plain] at hp
      cases q <;> simp [rawB, Payload.shaped, Ty.isBool, Ty.isNumber, Ty.isString] at hb ⊢
      case seq ys => exact rawBZip_symm ts xs ys hp ha hb
  | t, .smap kx xs, q, hp, ha, hb => by
    cases t <;> simp [Payload.shaped] at ha
    case map e =>
      simp only [Ty.plain] at hp
      cases q <;> simp [rawB, Payload.shaped, Ty.isBool, Ty.isNumber, Ty.isString] at hb ⊢
      case smap ky ys =>
        by_cases hl : xs.length = ys.length
        · rw [rawBMap_eq e kx xs ky ys ha.1.2 hb.1.2 ha.1.1 hb.1.1 hl,
            rawBMap_eq e ky ys kx xs hb.1.2 ha.1.2 hb.1.1 ha.1.1 hl.symm,
            rawBAll_symm e xs ys hp ha.2 hb.2]
          simp [hl, eq_comm (a := kx)]
        · have : ¬ ys.length = xs.length := fun h => hl h.symm
          rw [beq_false_of_ne hl, beq_false_of_ne this]
          rfl
    case object ns ts os =>
      simp only [Ty.plain] at hp
      cases q <;> simp [rawB, Payload.shaped, Ty.isBool, Ty.isNumber, Ty.isString] at hb ⊢
      case smap ky ys => exact rawBZip_symm ts xs ys hp ha.2 hb.2
  | t, .sset _ _, _, hp, ha, _ => by
    cases t <;> simp [Payload.shaped] at ha
    simp [Ty.plain] at hp
  | t, .caps, _, hp, ha, _ => by
    cases t <;> simp [Payload.shaped] at ha
    simp [Ty.plain] at hp
  | _, .bad _, _, _, ha, _ => by simp [Payload.shaped] at ha
theorem rawBAll_symm : ∀ (e : Ty) (xs ys : List Payload), e.plain = true → Payload.shapedAll e xs = true →
    Payload.shapedAll e ys = true → rawBAll e xs ys = rawBAll e ys xs
  | _, [], ys, _, _, _ => by cases ys <;> simp [rawBAll]
  | _, _ :: _, [], _, _, _ => by simp [rawBAll]
  | e, x :: xs, y :: ys, hp, ha, hb => by
    simp only [Payload.shapedAll, Bool.and_eq_true] at ha hb
    simp only [rawBAll, rawB_symm e x y hp ha.1 hb.1, rawBAll_symm e xs ys hp ha.2 hb.2]
theorem rawBZip_symm : ∀ (ts : List Ty) (xs ys : List Payload), Ty.plainL ts = true →
    Payload.shapedZip ts xs = true → Payload.shapedZip ts ys = true → rawBZip ts xs ys = rawBZip ts ys xs
  | [], _, _, _, _, _ => by simp [rawBZip]
  | _ :: _, [], _, _, ha, _ => by simp [Payload.shapedZip] at ha
  | _ :: _, _ :: _, [], _, _, hb => by simp [Payload.shapedZip] at hb
  | t :: ts, x :: xs, y :: ys, hp, ha, hb => by
    simp only [Payload.shapedZip, Bool.and_eq_true] at ha hb
    simp only [Ty.plainL, Bool.and_eq_true] at hp
    simp only [rawBZip, rawB_symm t x y hp.1 ha.1 hb.1, rawBZip_symm ts xs ys hp.2 ha.2 hb.2]
end

end CtyModel

namespace CtyModel
open Value

mutual
theorem rawB_trans : ∀ (t : Ty) (a b c : Payload), t.plain = true → a.shaped t = true → b.shaped t = true →
    c.shaped t = true → rawB t a b = true → rawB t b c = true → rawB t a c = true
  | t, .marked m p, b, c, hp, ha, hb, hc, h1, h2 => by
    cases b <;> simp only [rawB, Bool.false_eq_true] at h1
    rename_i m' q
    cases c <;> simp only [rawB, Bool.false_eq_true] at h2
    rename_i m'' r
    simp only [Payload.shaped, Bool.and_eq_true] at ha hb hc
    simp only [Bool.and_eq_true, beq_iff_eq] at h1 h2
    simp only [rawB, Bool.and_eq_true, beq_iff_eq]
    exact ⟨h1.1.trans h2.1, rawB_trans t p q r hp ha.2 hb.2 hc.2 h1.2 h2.2⟩
  | t, .unk r, b, c, _, _, _, _, h1, h2 => by
    cases b <;> simp only [rawB, Bool.false_eq_true] at h1
    cases c <;> simp only [rawB, Bool.false_eq_true] at h2
    simp only [rawB]
    exact rfnRawEq_trans _ _ _ h1 h2
  | t, .null, b, c, _, _, _, _, h1, h2 => by
    cases b <;> simp only [rawB, Bool.false_eq_true] at h1
    cases c <;> simp only [rawB, Bool.false_eq_true] at h2
    simp [rawB]
  | t, .b x, b, c, _, _, _, _, h1, h2 => by
    cases b <;> simp only [rawB, Bool.false_eq_true] at h1
    cases c <;> simp only [rawB, Bool.false_eq_true] at h2
    simp only [rawB, beq_iff_eq] at *
    exact h1.trans h2
  | t, .n x, b, c, _, _, _, _, h1, h2 => by
    cases b <;> simp only [rawB, Bool.false_eq_true] at h1
    cases c <;> simp only [rawB, Bool.false_eq_true] at h2
    simp only [rawB]
    exact Num.rawEq_trans _ _ _ h1 h2
  | t, .s x, b, c, _, _, _, _, h1, h2 => by
    cases b <;> simp only [rawB, Bool.false_eq_true] at h1
    cases c <;> simp only [rawB, Bool.false_eq_true] at h2
    simp only [rawB, beq_iff_eq] at *
    exact h1.trans h2
  | t, .seq xs, b, c, hp, ha, hb, hc, h1, h2 => by
    cases t <;> simp [Payload.shaped] at ha
    case list e =>
      simp only [Ty.plain] at hp
      cases b <;> simp [rawB] at h1
      rename_i ys
      cases c <;> simp [rawB] at h2
      rename_i zs
      simp only [Payload.shaped] at hb hc
      simp only [rawB, Bool.and_eq_true, beq_iff_eq]
      exact ⟨h1.1.trans h2.1, rawBAll_trans e xs ys zs hp ha hb hc h1.1 h1.2 h2.2⟩
    case tuple ts =>
      simp only [Ty.plain] at hp
      cases b <;> simp [rawB] at h1
      rename_i ys
      cases c <;> simp [rawB] at h2
      rename_i zs
      simp only [Payload.shaped] at hb hc
      simp only [rawB]
      exact rawBZip_trans ts xs ys zs hp ha hb hc h1 h2
  | t, .smap kx xs, b, c, hp, ha, hb, hc, h1, h2 => by
    cases t <;> simp [Payload.shaped] at ha
    case map e =>
      simp only [Ty.plain] at hp
      cases b <;> simp [rawB] at h1
      rename_i ky ys
      cases c <;> simp [rawB] at h2
      rename_i kz zs
      simp [Payload.shaped] at hb hc
      rw [rawBMap_eq e kx xs ky ys ha.1.2 hb.1.2 ha.1.1 hb.1.1 h1.1] at h1
      rw [rawBMap_eq e ky ys kz zs hb.1.2 hc.1.2 hb.1.1 hc.1.1 h2.1] at h2
      simp only [Bool.and_eq_true, decide_eq_true_eq] at h1 h2
      simp only [rawB, Bool.and_eq_true, beq_iff_eq]
      refine ⟨h1.1.trans h2.1, ?_⟩
      rw [rawBMap_eq e kx xs kz zs ha.1.2 hc.1.2 ha.1.1 hc.1.1 (h1.1.trans h2.1)]
      simp only [Bool.and_eq_true, decide_eq_true_eq]
      exact ⟨h1.2.1.trans h2.2.1, rawBAll_trans e xs ys zs hp ha.2 hb.2 hc.2 h1.1 h1.2.2 h2.2.2⟩
    case object ns ts os =>
      simp only [Ty.plain] at hp
      cases b <;> simp [rawB] at h1
      rename_i ky ys
      cases c <;> simp [rawB] at h2
      rename_i kz zs
      simp [Payload.shaped] at hb hc
      simp only [rawB]
      exact rawBZip_trans ts xs ys zs hp ha.2 hb.2 hc.2 h1 h2
  | t, .sset _ _, _, _, hp, ha, _, _, _, _ => by
    cases t <;> simp [Payload.shaped] at ha
    simp [Ty.plain] at hp
  | t, .caps, _, _, hp, ha, _, _, _, _ => by
    cases t <;> simp [Payload.shaped] at ha
    simp [Ty.plain] at hp
  | _, .bad _, _, _, _, ha, _, _, _, _ => by simp [Payload.shaped] at ha
theorem rawBAll_trans : ∀ (e : Ty) (xs ys zs : List Payload), e.plain = true → Payload.shapedAll e xs = true →
    Payload.shapedAll e ys = true → Payload.shapedAll e zs = true → xs.length = ys.length →
    rawBAll e xs ys = true → rawBAll e ys zs = true → rawBAll e xs zs = true
  | _, [], _, zs, _, _, _, _, _, _, _ => by simp [rawBAll]
  | _, _ :: _, [], _, _, _, _, _, hl, _, _ => by simp at hl
  | _, _ :: _, _ :: _, [], _, _, _, _, _, _, _ => by simp [rawBAll]
  | e, x :: xs, y :: ys, z :: zs, hp, ha, hb, hc, hl, h1, h2 => by
    simp only [Payload.shapedAll, Bool.and_eq_true] at ha hb hc
    simp only [rawBAll, Bool.and_eq_true] at h1 h2 ⊢
    exact ⟨rawB_trans e x y z hp ha.1 hb.1 hc.1 h1.1 h2.1,
      rawBAll_trans e xs ys zs hp ha.2 hb.2 hc.2 (by simpa using hl) h1.2 h2.2⟩
theorem rawBZip_trans : ∀ (ts : List Ty) (xs ys zs : List Payload), Ty.plainL ts = true →
    Payload.shapedZip ts xs = true → Payload.shapedZip ts ys = true → Payload.shapedZip ts zs = true →
    rawBZip ts xs ys = true → rawBZip ts ys zs = true → rawBZip ts xs zs = true
  | [], _, _, _, _, _, _, _, _, _ => by simp [rawBZip]
  | _ :: _, [], _, _, _, ha, _, _, _, _ => by simp [Payload.shapedZip] at ha
  | _ :: _, _ :: _, [], _, _, _, hb, _, _, _ => by simp [Payload.shapedZip] at hb
  | _ :: _, _ :: _, _ :: _, [], _, _, _, hc, _, _ => by simp [Payload.shapedZip] at hc
  | t :: ts, x :: xs, y :: ys, z :: zs, hp, ha, hb, hc, h1, h2 => by
    simp only [Payload.shapedZip, Bool.and_eq_true] at ha hb hc
    simp only [Ty.plainL, Bool.and_eq_true] at hp
    simp only [rawBZip, Bool.and_eq_true] at h1 h2 ⊢
    exact ⟨rawB_trans t x y z hp.1 ha.1 hb.1 hc.1 h1.1 h2.1,
      rawBZip_trans ts xs ys zs hp.2 ha.2 hb.2 hc.2 h1.2 h2.2⟩
end

end CtyModel
