/-
Lemmas for C11: how the argument checks of the call protocol behave when every
argument is replaced by an unknown value of the same type — which is what
`Function.ReturnType` does (`returnType spec tf tys = returnTypeForValuesPub spec
tf (tys.map Value.unknown)`), i.e. the "type-only prediction".
-/
import CtyModel.Lemmas.FnCall2
import CtyModel.Stdlib.Specs
namespace CtyModel
namespace Fn

/-- the placeholder `ReturnType` substitutes for an argument: an unknown of its type -/
def unkOf (v : Value) : Value := Value.unknown v.ty

@[simp] theorem unkOf_ty (v : Value) : (unkOf v).ty = v.ty := rfl
@[simp] theorem unkOf_isNull (v : Value) : (unkOf v).isNull = false := rfl
@[simp] theorem unkOf_containsMarked (v : Value) : (unkOf v).containsMarked = false := rfl

theorem map_unknown_ty (args : List Value) : (args.map (·.ty)).map Value.unknown = args.map unkOf := by
  simp [List.map_map, unkOf, Function.comp_def]

/-- an argument that passes the checks still passes as a placeholder -/
theorem check_unkOf_none {p : Param} {v : Value} (h : p.check v = none) : p.check (unkOf v) = none := by
  unfold Param.check at h ⊢
  simp only [unkOf_isNull, unkOf_ty, Bool.false_and, Bool.false_eq_true, if_false]
  split at h
  · simp at h
  · exact h

/-- an argument that short-circuits as dynamically typed still does as a placeholder -/
theorem check_unkOf_dynamic {p : Param} {v : Value} (h : p.check v = some .dynamic) :
    p.check (unkOf v) = some .dynamic := by
  unfold Param.check at h ⊢
  simp only [unkOf_isNull, unkOf_ty, Bool.false_and, Bool.false_eq_true, if_false]
  split at h
  · simp at h
  · exact h

theorem typeArg_unkOf (p : Param) (v : Value) : p.typeArg (unkOf v) = unkOf v := by
  simp [Param.typeArg]

theorem unkOf_typeArg (p : Param) (v : Value) : unkOf (p.typeArg v) = unkOf v := by
  simp [unkOf, Param.typeArg_ty]

theorem firstFail_unkOf_none : ∀ {ps : List Param} {vs : List Value},
    firstFail ps vs = none → firstFail ps (vs.map unkOf) = none
  | [], _, _ => by simp [firstFail]
  | _ :: _, [], _ => by simp [firstFail]
  | p :: ps, v :: vs, h => by
    simp only [firstFail] at h
    cases hc : p.check v with
    | some f => simp [hc] at h
    | none =>
      simp only [hc, Option.map_eq_none_iff] at h
      simp [firstFail, check_unkOf_none hc, firstFail_unkOf_none h]

theorem firstFail_unkOf_dynamic : ∀ {ps : List Param} {vs : List Value} {k : Nat},
    firstFail ps vs = some (k, .dynamic) → firstFail ps (vs.map unkOf) = some (k, .dynamic)
  | [], _, _, h => by simp [firstFail] at h
  | _ :: _, [], _, h => by simp [firstFail] at h
  | p :: ps, v :: vs, k, h => by
    simp only [firstFail] at h
    cases hc : p.check v with
    | some f =>
      simp only [hc, Option.some.injEq, Prod.mk.injEq] at h
      obtain ⟨rfl, rfl⟩ := h
      simp [firstFail, check_unkOf_dynamic hc]
    | none =>
      simp only [hc, Option.map_eq_some_iff] at h
      obtain ⟨⟨k', f'⟩, hf, he⟩ := h
      simp only [Prod.mk.injEq] at he
      obtain ⟨rfl, rfl⟩ := he
      simp [firstFail, check_unkOf_none hc, firstFail_unkOf_dynamic hf]

theorem zipWith_typeArg_unkOf : ∀ (ps : List Param) (vs : List Value),
    List.zipWith Param.typeArg ps (vs.map unkOf) = (List.zipWith Param.typeArg ps vs).map unkOf
  | [], _ => by simp
  | _ :: _, [] => by simp
  | p :: ps, v :: vs => by
    simp [typeArg_unkOf, unkOf_typeArg, zipWith_typeArg_unkOf ps vs]

/-- If the argument checks let the real arguments through to the `Type` callback, they let
the placeholders through too, and the callback then sees the placeholders of what it saw. -/
theorem pass1_unkOf_ok {spec : Spec} {args T : List Value} (h : pass1 spec args = .ok T) :
    pass1 spec (args.map unkOf) = .ok (T.map unkOf) := by
  rw [pass1_eq] at h ⊢
  simp only [List.length_map]
  by_cases hc : spec.countOK args.length = true
  · simp only [hc, if_true] at h ⊢
    cases hf : firstFail (spec.expand args.length) args with
    | some kf =>
      obtain ⟨k, f⟩ := kf
      rw [hf] at h
      cases f <;> simp [Pass1.ofFail] at h
    | none =>
      rw [hf] at h
      simp only [Pass1.ok.injEq] at h
      subst h
      rw [firstFail_unkOf_none hf]
      simp [zipWith_typeArg_unkOf]
  · simp [hc] at h

/-- …and a dynamically-typed short-circuit stays one. -/
theorem pass1_unkOf_dyn {spec : Spec} {args : List Value} (h : pass1 spec args = .dyn) :
    pass1 spec (args.map unkOf) = .dyn := by
  rw [pass1_eq] at h ⊢
  simp only [List.length_map]
  by_cases hc : spec.countOK args.length = true
  · simp only [hc, if_true] at h ⊢
    cases hf : firstFail (spec.expand args.length) args with
    | none => rw [hf] at h; simp at h
    | some kf =>
      obtain ⟨k, f⟩ := kf
      rw [hf] at h
      cases f
      · simp [Pass1.ofFail] at h
      · rw [firstFail_unkOf_dynamic hf]; rfl
      · simp [Pass1.ofFail] at h
  · simp [hc] at h

/-- `pass1` decides the first component of a successful `call`. -/
theorem call_ok_pass1 {spec : Spec} {tf : TypeFn} {impl : ImplFn} {args : List Value} {v : Value}
    (h : (call spec tf impl args).1 = .ok v) :
    pass1 spec args = .dyn ∨ ∃ T t, pass1 spec args = .ok T ∧ tf T = .ok t := by
  unfold call returnTypeForValues at h
  cases hp : pass1 spec args with
  | countErr => simp [hp] at h
  | argErr i => simp [hp] at h
  | dyn => exact .inl rfl
  | ok T =>
    right
    simp only [hp] at h
    cases ht : tf T with
    | ok t => exact ⟨T, t, rfl, ht⟩
    | err c => simp [ht] at h
    | panic w => simp [ht] at h
    | unmodelled => simp [ht] at h

/-- the value-based prediction in terms of `pass1` -/
theorem rtfvPub_of_pass1_ok {spec : Spec} {tf : TypeFn} {args T : List Value} {t : Ty}
    (hp : pass1 spec args = .ok T) (ht : tf T = .ok t) :
    (returnTypeForValuesPub spec tf args).1 = .ok t := by
  simp [returnTypeForValuesPub, returnTypeForValues, hp, ht]

theorem rtfvPub_of_pass1_dyn {spec : Spec} {tf : TypeFn} {args : List Value}
    (hp : pass1 spec args = .dyn) :
    (returnTypeForValuesPub spec tf args).1 = .ok .dyn := by
  simp [returnTypeForValuesPub, returnTypeForValues, hp]

end Fn
end CtyModel
