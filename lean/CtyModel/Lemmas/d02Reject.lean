/-
C02: "operands of the wrong type are rejected rather than yielding a value", for
every type-checked operation and every operand position, and the result TYPE of
every arithmetic / logic method.  A type is WRONG for an operation that requires
`req` if it is neither `req` nor the dynamic pseudo-type.
-/
import CtyModel.Lemmas.d02Lift
import CtyModel.Lemmas.OpsKnown
namespace CtyModel
namespace D02
open Num Value

/-- `t` is neither the required type nor `DynamicPseudoType` -/
def Wrong (req t : Ty) : Prop := t ≠ req ∧ t ≠ .dyn

theorem isDyn_iff (t : Ty) : t.isDyn = true ↔ t = .dyn := by cases t <;> simp [Ty.isDyn]
theorem isNumber_iff (t : Ty) : t.isNumber = true ↔ t = .number := by cases t <;> simp [Ty.isNumber]
theorem isString_iff (t : Ty) : t.isString = true ↔ t = .string := by cases t <;> simp [Ty.isString]
theorem equals_number (t : Ty) : Ty.equals t .number = true ↔ t = .number := by cases t <;> simp [Ty.equals]
theorem equals_bool (t : Ty) : Ty.equals t .bool = true ↔ t = .bool := by cases t <;> simp [Ty.equals]

/-- the type-check loop panics as soon as ANY operand has a wrong type, whatever
the other operands are (an earlier operand can only make it continue) -/
theorem typeCheckAux_wrong (req : Ty) (hreq : ∀ t, Ty.equals t req = true → t = req) :
    ∀ (vs : List Value) (d u : Bool), (∃ v ∈ vs, Wrong req v.ty) →
      typeCheckAux req vs d u = .panic "type mismatch"
  | [], _, _, h => by obtain ⟨v, hv, _⟩ := h; cases hv
  | v :: vs, d, u, h => by
    simp only [typeCheckAux]
    by_cases hd : v.ty.isDyn = true
    · simp only [hd, if_true]
      apply typeCheckAux_wrong req hreq vs
      obtain ⟨w, hw, hW⟩ := h
      rcases List.mem_cons.mp hw with rfl | hw
      · exact absurd ((isDyn_iff _).mp hd) hW.2
      · exact ⟨w, hw, hW⟩
    · simp only [hd, Bool.false_eq_true, if_false]
      by_cases he : Ty.equals v.ty req = true
      · simp only [he, Bool.not_true, Bool.false_eq_true, if_false]
        apply typeCheckAux_wrong req hreq vs
        obtain ⟨w, hw, hW⟩ := h
        rcases List.mem_cons.mp hw with rfl | hw
        · exact absurd (hreq _ he) hW.1
        · exact ⟨w, hw, hW⟩
      · simp [he]

theorem tc2_wrong_number {a b : Value} (h : Wrong .number a.ty ∨ Wrong .number b.ty) :
    typeCheck .number [a, b] = .panic "type mismatch" := by
  apply typeCheckAux_wrong .number (fun t => (equals_number t).mp)
  rcases h with h | h
  · exact ⟨a, by simp, h⟩
  · exact ⟨b, by simp, h⟩

theorem tc1_wrong_number {a : Value} (h : Wrong .number a.ty) : typeCheck .number [a] = .panic "type mismatch" :=
  typeCheckAux_wrong .number (fun t => (equals_number t).mp) _ _ _ ⟨a, by simp, h⟩

theorem tc2_wrong_bool {a b : Value} (h : Wrong .bool a.ty ∨ Wrong .bool b.ty) :
    typeCheck .bool [a, b] = .panic "type mismatch" := by
  apply typeCheckAux_wrong .bool (fun t => (equals_bool t).mp)
  rcases h with h | h
  · exact ⟨a, by simp, h⟩
  · exact ⟨b, by simp, h⟩

theorem tc1_wrong_bool {a : Value} (h : Wrong .bool a.ty) : typeCheck .bool [a] = .panic "type mismatch" :=
  typeCheckAux_wrong .bool (fun t => (equals_bool t).mp) _ _ _ ⟨a, by simp, h⟩

/-- the marks prologue of a binary method does not change operand types, so a body
that rejects by type rejects under the prologue too -/
theorem binMarks_rejects {f : Value → Value → Res Value} {P : Ty → Ty → Prop} {w : String}
    (hf : ∀ x y : Value, P x.ty y.ty → f x y = .panic w) {a b : Value} (h : P a.ty b.ty) :
    binMarks f a b = .panic w := by
  unfold binMarks
  split
  · rw [hf a.unmark b.unmark h]; rfl
  · exact hf a b h

theorem unMarks_rejects {f : Value → Res Value} {P : Ty → Prop} {w : String}
    (hf : ∀ x : Value, P x.ty → f x = .panic w) {a : Value} (h : P a.ty) :
    unMarks f a = .panic w := by
  unfold unMarks
  split
  · rw [hf a.unmark h]; rfl
  · exact hf a h

/-! ### every number / bool method, every operand position -/

theorem add_rejects {a b : Value} (h : Wrong .number a.ty ∨ Wrong .number b.ty) :
    Value.add a b = .panic "type mismatch" :=
  binMarks_rejects (P := fun s t => Wrong .number s ∨ Wrong .number t)
    (fun x y h => by simp only [addU, tc2_wrong_number h, Res.bind_panic]) h
theorem sub_rejects {a b : Value} (h : Wrong .number a.ty ∨ Wrong .number b.ty) :
    Value.sub a b = .panic "type mismatch" :=
  binMarks_rejects (P := fun s t => Wrong .number s ∨ Wrong .number t)
    (fun x y h => by simp only [subU, tc2_wrong_number h, Res.bind_panic]) h
theorem mul_rejects {a b : Value} (h : Wrong .number a.ty ∨ Wrong .number b.ty) :
    Value.mul a b = .panic "type mismatch" :=
  binMarks_rejects (P := fun s t => Wrong .number s ∨ Wrong .number t)
    (fun x y h => by simp only [mulU, tc2_wrong_number h, Res.bind_panic]) h
theorem div_rejects {a b : Value} (h : Wrong .number a.ty ∨ Wrong .number b.ty) :
    Value.div a b = .panic "type mismatch" :=
  binMarks_rejects (P := fun s t => Wrong .number s ∨ Wrong .number t)
    (fun x y h => by simp only [divU, tc2_wrong_number h, Res.bind_panic]) h
theorem mod_rejects {a b : Value} (h : Wrong .number a.ty ∨ Wrong .number b.ty) :
    Value.mod a b = .panic "type mismatch" :=
  binMarks_rejects (P := fun s t => Wrong .number s ∨ Wrong .number t)
    (fun x y h => by simp only [modU, tc2_wrong_number h, Res.bind_panic]) h
theorem lt_rejects {a b : Value} (h : Wrong .number a.ty ∨ Wrong .number b.ty) :
    Value.lessThan a b = .panic "type mismatch" :=
  binMarks_rejects (P := fun s t => Wrong .number s ∨ Wrong .number t)
    (fun x y h => by simp only [lessThanU, tc2_wrong_number h, Res.bind_panic]) h
theorem gt_rejects {a b : Value} (h : Wrong .number a.ty ∨ Wrong .number b.ty) :
    Value.greaterThan a b = .panic "type mismatch" :=
  binMarks_rejects (P := fun s t => Wrong .number s ∨ Wrong .number t)
    (fun x y h => by simp only [greaterThanU, tc2_wrong_number h, Res.bind_panic]) h
theorem le_rejects {a b : Value} (h : Wrong .number a.ty ∨ Wrong .number b.ty) :
    Value.lessThanOrEqualTo a b = .panic "type mismatch" := by
  simp only [lessThanOrEqualTo, lt_rejects h, Res.bind_panic]
theorem ge_rejects {a b : Value} (h : Wrong .number a.ty ∨ Wrong .number b.ty) :
    Value.greaterThanOrEqualTo a b = .panic "type mismatch" := by
  simp only [greaterThanOrEqualTo, gt_rejects h, Res.bind_panic]
theorem neg_rejects {a : Value} (h : Wrong .number a.ty) : Value.neg a = .panic "type mismatch" :=
  unMarks_rejects (P := Wrong .number) (fun x h => by simp only [negU, tc1_wrong_number h, Res.bind_panic]) h
theorem abs_rejects {a : Value} (h : Wrong .number a.ty) : Value.abs a = .panic "type mismatch" :=
  unMarks_rejects (P := Wrong .number) (fun x h => by simp only [absU, tc1_wrong_number h, Res.bind_panic]) h
theorem and_rejects {a b : Value} (h : Wrong .bool a.ty ∨ Wrong .bool b.ty) :
    Value.and a b = .panic "type mismatch" :=
  binMarks_rejects (P := fun s t => Wrong .bool s ∨ Wrong .bool t)
    (fun x y h => by simp only [andU, tc2_wrong_bool h, Res.bind_panic]) h
theorem or_rejects {a b : Value} (h : Wrong .bool a.ty ∨ Wrong .bool b.ty) :
    Value.or a b = .panic "type mismatch" :=
  binMarks_rejects (P := fun s t => Wrong .bool s ∨ Wrong .bool t)
    (fun x y h => by simp only [orU, tc2_wrong_bool h, Res.bind_panic]) h
theorem not_rejects {a : Value} (h : Wrong .bool a.ty) : Value.not a = .panic "type mismatch" :=
  unMarks_rejects (P := Wrong .bool) (fun x h => by simp only [notU, tc1_wrong_bool h, Res.bind_panic]) h

/-! ### lookups: receiver and key types -/

/-- the types `Index` / `HasIndex` accept as a receiver -/
def Indexable : Ty → Bool
  | .list _ | .map _ | .tuple _ | .dyn => true
  | _ => false

theorem index_rejects_receiver {v k : Value} (h : Indexable v.ty = false) :
    Value.index v k = .panic "not a list, map, or tuple type" :=
  binMarks_rejects (P := fun s _ => Indexable s = false)
    (fun x y h => by
      obtain ⟨t, p⟩ := x
      cases t <;> simp_all [indexU, Indexable, Ty.isDyn]) h

theorem hasIndex_rejects_receiver {v k : Value} (h : Indexable v.ty = false) :
    Value.hasIndex v k = .panic "not a list, map, or tuple type" :=
  binMarks_rejects (P := fun s _ => Indexable s = false)
    (fun x y h => by
      obtain ⟨t, p⟩ := x
      cases t <;> simp_all [hasIndexU, Indexable, Ty.isDyn]) h

theorem isDyn_false' {t : Ty} (h : t ≠ .dyn) : t.isDyn = false := by
  cases hh : t.isDyn
  · rfl
  · exact absurd ((isDyn_iff _).mp hh) h
theorem isNumber_false {t : Ty} (h : t ≠ .number) : t.isNumber = false := by
  cases hh : t.isNumber
  · rfl
  · exact absurd ((isNumber_iff _).mp hh) h
theorem isString_false {t : Ty} (h : t ≠ .string) : t.isString = false := by
  cases hh : t.isString
  · rfl
  · exact absurd ((isString_iff _).mp hh) h

/-- a list is indexed by numbers only -/
theorem index_rejects_key_list {v k : Value} {e : Ty} (hv : v.ty = .list e) (hk : Wrong .number k.ty) :
    Value.index v k = .panic "list key must be number" :=
  binMarks_rejects (P := fun s t => s = .list e ∧ Wrong .number t)
    (fun x y h => by
      obtain ⟨t, p⟩ := x
      obtain ⟨rfl, h1, h2⟩ := h
      simp [indexU, Ty.isDyn, isNumber_false h1]) ⟨hv, hk⟩

/-- a tuple is indexed by numbers only -/
theorem index_rejects_key_tuple {v k : Value} {es : List Ty} (hv : v.ty = .tuple es) (hk : Wrong .number k.ty) :
    Value.index v k = .panic "tuple key must be number" :=
  binMarks_rejects (P := fun s t => s = .tuple es ∧ Wrong .number t)
    (fun x y h => by
      obtain ⟨t, p⟩ := x
      obtain ⟨rfl, h1, h2⟩ := h
      simp [indexU, Ty.isDyn, isNumber_false h1]) ⟨hv, hk⟩

/-- a map is indexed by strings only -/
theorem index_rejects_key_map {v k : Value} {e : Ty} (hv : v.ty = .map e) (hk : Wrong .string k.ty) :
    Value.index v k = .panic "map key must be string" :=
  binMarks_rejects (P := fun s t => s = .map e ∧ Wrong .string t)
    (fun x y h => by
      obtain ⟨t, p⟩ := x
      obtain ⟨rfl, h1, h2⟩ := h
      simp [indexU, Ty.isDyn, isString_false h1]) ⟨hv, hk⟩

/-- `GetAttr` on a receiver that is neither an object nor dynamically typed -/
theorem getAttr_rejects_receiver {v : Value} {name : String}
    (h : (match v.ty with | .object _ _ _ | .dyn => true | _ => false) = false) :
    Value.getAttr v name = .panic "not an object" := by
  have key : ∀ x : Value, (match x.ty with | .object _ _ _ | .dyn => true | _ => false) = false →
      getAttrU x name = .panic "not an object" := by
    intro x hx
    obtain ⟨t, p⟩ := x
    cases t <;> simp_all [getAttrU, Ty.isDyn]
  unfold Value.getAttr
  split
  · rw [key v.unmark h]; rfl
  · exact key v h

/-! ### result types -/

theorem ty_withMarks' (r : Value) (ms : List String) : (r.withMarks ms).ty = r.ty := rfl

theorem binMarks_ty {f : Value → Value → Res Value} {t : Ty} (hf : ∀ x y r, f x y = .ok r → r.ty = t)
    {a b r : Value} (h : binMarks f a b = .ok r) : r.ty = t := by
  unfold binMarks at h
  split at h
  · cases hfx : f a.unmark b.unmark with
    | ok r' => rw [hfx] at h; simp only [Res.map, Res.ok.injEq] at h; rw [← h]; exact hf _ _ r' hfx
    | _ => rw [hfx] at h; simp [Res.map] at h
  · exact hf _ _ _ h

theorem unMarks_ty {f : Value → Res Value} {t : Ty} (hf : ∀ x r, f x = .ok r → r.ty = t)
    {a r : Value} (h : unMarks f a = .ok r) : r.ty = t := by
  unfold unMarks at h
  split at h
  · cases hfx : f a.unmark with
    | ok r' => rw [hfx] at h; simp only [Res.map, Res.ok.injEq] at h; rw [← h]; exact hf _ r' hfx
    | _ => rw [hfx] at h; simp [Res.map] at h
  · exact hf _ _ h

theorem ty_numRangeResult (lo hi : Option Num) : (numRangeResult lo hi).ty = .number := by
  unfold numRangeResult
  split
  · split <;> rfl
  · rfl

theorem addU_ty {a b r : Value} (h : addU a b = .ok r) : r.ty = .number := by
  unfold addU at h
  obtain ⟨tc, htc, h⟩ := Res.bind_eq_ok.mp h
  rcases tc_cases tc with rfl | rfl | rfl <;> simp only at h
  · obtain ⟨x, hx, h⟩ := Res.bind_eq_ok.mp h
    obtain ⟨y, hy, h⟩ := Res.bind_eq_ok.mp h
    obtain ⟨z, hz, h⟩ := Res.bind_eq_ok.mp h
    simp only [pure, Res.ok.injEq] at h; subst h; rfl
  all_goals (obtain ⟨lo, hi, rfl⟩ := rangeArith_shape h; exact ty_numRangeResult _ _)

theorem subU_ty {a b r : Value} (h : subU a b = .ok r) : r.ty = .number := by
  unfold subU at h
  obtain ⟨tc, htc, h⟩ := Res.bind_eq_ok.mp h
  rcases tc_cases tc with rfl | rfl | rfl <;> simp only at h
  · obtain ⟨x, hx, h⟩ := Res.bind_eq_ok.mp h
    obtain ⟨y, hy, h⟩ := Res.bind_eq_ok.mp h
    obtain ⟨z, hz, h⟩ := Res.bind_eq_ok.mp h
    simp only [pure, Res.ok.injEq] at h; subst h; rfl
  all_goals (obtain ⟨lo, hi, rfl⟩ := rangeArith_shape h; exact ty_numRangeResult _ _)

theorem mulU_ty {a b r : Value} (h : mulU a b = .ok r) : r.ty = .number := by
  unfold mulU at h
  obtain ⟨tc, htc, h⟩ := Res.bind_eq_ok.mp h
  rcases tc_cases tc with rfl | rfl | rfl <;> simp only at h
  · obtain ⟨x, hx, h⟩ := Res.bind_eq_ok.mp h
    obtain ⟨y, hy, h⟩ := Res.bind_eq_ok.mp h
    obtain ⟨z, hz, h⟩ := Res.bind_eq_ok.mp h
    simp only [pure, Res.ok.injEq] at h; subst h; rfl
  all_goals
    split at h
    · simp only [pure, Res.ok.injEq] at h; subst h; rfl
    · obtain ⟨lo, hi, rfl⟩ := rangeArithC_shape h; exact ty_numRangeResult _ _

theorem divU_ty {a b r : Value} (h : divU a b = .ok r) : r.ty = .number := by
  unfold divU at h
  obtain ⟨tc, htc, h⟩ := Res.bind_eq_ok.mp h
  rcases tc_cases tc with rfl | rfl | rfl <;> simp only at h
  · obtain ⟨x, hx, h⟩ := Res.bind_eq_ok.mp h
    obtain ⟨y, hy, h⟩ := Res.bind_eq_ok.mp h
    obtain ⟨z, hz, h⟩ := Res.bind_eq_ok.mp h
    simp only [pure, Res.ok.injEq] at h; subst h; rfl
  · simp only [pure, Res.ok.injEq] at h; subst h; rfl
  · simp only [pure, Res.ok.injEq] at h; subst h; rfl

theorem negU_ty {a r : Value} (h : negU a = .ok r) : r.ty = .number := by
  unfold negU at h
  obtain ⟨tc, htc, h⟩ := Res.bind_eq_ok.mp h
  rcases tc_cases tc with rfl | rfl | rfl <;> simp only at h
  · obtain ⟨x, hx, h⟩ := Res.bind_eq_ok.mp h
    simp only [pure, Res.ok.injEq] at h; subst h; rfl
  · simp only [pure, Res.ok.injEq] at h; subst h; rfl
  · simp only [pure, Res.ok.injEq] at h; subst h; rfl

theorem absU_ty {a r : Value} (h : absU a = .ok r) : r.ty = .number := by
  unfold absU at h
  obtain ⟨tc, htc, h⟩ := Res.bind_eq_ok.mp h
  rcases tc_cases tc with rfl | rfl | rfl <;> simp only at h
  · obtain ⟨x, hx, h⟩ := Res.bind_eq_ok.mp h
    simp only [pure, Res.ok.injEq] at h; subst h; rfl
  · simp only [pure, Res.ok.injEq] at h; subst h; rfl
  · simp only [pure, Res.ok.injEq] at h; subst h; rfl

/-- Modulo: on a zero divisor it returns the receiver itself — which has passed the
type check with no dynamic operand, so its type is `number` too -/
theorem modU_ty {a b r : Value} (h : modU a b = .ok r) : r.ty = .number := by
  rcases modU_shape h with ⟨x, rfl⟩ | rfl | rfl
  · rfl
  · rw [modU_eq] at h
    obtain ⟨tc, htc, h⟩ := Res.bind_eq_ok.mp h
    have hinv := tc2_number_inv htc
    rcases tc_cases tc with rfl | rfl | rfl
    · exact (hinv.2.2.2 (by simp)).1
    · simp only [pure, Res.ok.injEq] at h; rw [← h]; rfl
    · exact (hinv.2.2.2 (by simp)).1
  · rfl

theorem add_ty {a b r : Value} (h : Value.add a b = .ok r) : r.ty = .number := binMarks_ty (fun _ _ _ => addU_ty) h
theorem sub_ty {a b r : Value} (h : Value.sub a b = .ok r) : r.ty = .number := binMarks_ty (fun _ _ _ => subU_ty) h
theorem mul_ty {a b r : Value} (h : Value.mul a b = .ok r) : r.ty = .number := binMarks_ty (fun _ _ _ => mulU_ty) h
theorem div_ty {a b r : Value} (h : Value.div a b = .ok r) : r.ty = .number := binMarks_ty (fun _ _ _ => divU_ty) h
theorem mod_ty {a b r : Value} (h : Value.mod a b = .ok r) : r.ty = .number := binMarks_ty (fun _ _ _ => modU_ty) h
theorem neg_ty {a r : Value} (h : Value.neg a = .ok r) : r.ty = .number := unMarks_ty (fun _ _ => negU_ty) h
theorem abs_ty {a r : Value} (h : Value.abs a = .ok r) : r.ty = .number := unMarks_ty (fun _ _ => absU_ty) h

theorem notU_ty {a r : Value} (h : notU a = .ok r) : r.ty = .bool := by
  unfold notU at h
  obtain ⟨tc, htc, h⟩ := Res.bind_eq_ok.mp h
  rcases tc_cases tc with rfl | rfl | rfl <;> simp only at h
  · obtain ⟨x, hx, h⟩ := Res.bind_eq_ok.mp h
    simp only [pure, Res.ok.injEq] at h; subst h; rfl
  · simp only [pure, Res.ok.injEq] at h; subst h; rfl
  · simp only [pure, Res.ok.injEq] at h; subst h; rfl

theorem andU_ty {a b r : Value} (h : andU a b = .ok r) : r.ty = .bool := by
  unfold andU at h
  obtain ⟨tc, htc, h⟩ := Res.bind_eq_ok.mp h
  rcases tc_cases tc with rfl | rfl | rfl <;> simp only at h
  · obtain ⟨x, hx, h⟩ := Res.bind_eq_ok.mp h
    split at h
    · simp only [pure, Res.ok.injEq] at h; subst h; rfl
    · obtain ⟨y, hy, h⟩ := Res.bind_eq_ok.mp h
      simp only [pure, Res.ok.injEq] at h; subst h; rfl
  · split at h <;> (simp only [pure, Res.ok.injEq] at h; subst h; rfl)
  · split at h <;> (simp only [pure, Res.ok.injEq] at h; subst h; rfl)

theorem orU_ty {a b r : Value} (h : orU a b = .ok r) : r.ty = .bool := by
  unfold orU at h
  obtain ⟨tc, htc, h⟩ := Res.bind_eq_ok.mp h
  rcases tc_cases tc with rfl | rfl | rfl <;> simp only at h
  · obtain ⟨x, hx, h⟩ := Res.bind_eq_ok.mp h
    split at h
    · simp only [pure, Res.ok.injEq] at h; subst h; rfl
    · obtain ⟨y, hy, h⟩ := Res.bind_eq_ok.mp h
      simp only [pure, Res.ok.injEq] at h; subst h; rfl
  · split at h <;> (simp only [pure, Res.ok.injEq] at h; subst h; rfl)
  · split at h <;> (simp only [pure, Res.ok.injEq] at h; subst h; rfl)

theorem not_ty {a r : Value} (h : Value.not a = .ok r) : r.ty = .bool := unMarks_ty (fun _ _ => notU_ty) h
theorem and_ty {a b r : Value} (h : Value.and a b = .ok r) : r.ty = .bool := binMarks_ty (fun _ _ _ => andU_ty) h
theorem or_ty {a b r : Value} (h : Value.or a b = .ok r) : r.ty = .bool := binMarks_ty (fun _ _ _ => orU_ty) h

theorem le_ty {a b r : Value} (h : Value.lessThanOrEqualTo a b = .ok r) : r.ty = .bool := by
  unfold lessThanOrEqualTo at h
  obtain ⟨l, hl, h⟩ := Res.bind_eq_ok.mp h
  obtain ⟨e, he, h⟩ := Res.bind_eq_ok.mp h
  exact or_ty h
theorem ge_ty {a b r : Value} (h : Value.greaterThanOrEqualTo a b = .ok r) : r.ty = .bool := by
  unfold greaterThanOrEqualTo at h
  obtain ⟨l, hl, h⟩ := Res.bind_eq_ok.mp h
  obtain ⟨e, he, h⟩ := Res.bind_eq_ok.mp h
  exact or_ty h
theorem ne_ty {a b r : Value} (h : Value.notEqual a b = .ok r) : r.ty = .bool := by
  unfold notEqual at h
  obtain ⟨e, he, h⟩ := Res.bind_eq_ok.mp h
  exact not_ty h

theorem hasIndex_ty {a b r : Value} (h : Value.hasIndex a b = .ok r) : r.ty = .bool :=
  binMarks_ty (fun _ _ r hr => by rcases hasIndexU_result hr with rfl | ⟨b, rfl⟩ <;> rfl) h

theorem lengthU_ty {v r : Value} (h : lengthU v = .ok r) : r.ty = .number := by
  unfold lengthU at h
  repeat' (first | split at h | (obtain ⟨_, _, h⟩ := Res.bind_eq_ok.mp h))
  all_goals (cases h <;> first | rfl | exact ty_numRangeResult _ _)
theorem length_ty {a r : Value} (h : Value.length a = .ok r) : r.ty = .number := unMarks_ty (fun _ _ => lengthU_ty) h

theorem hasElementU_ty {v e r : Value} {eh : Option Int} (h : hasElementU v e eh = .ok r) : r.ty = .bool := by
  unfold hasElementU at h
  simp only at h
  repeat' split at h
  all_goals first
    | (cases h <;> rfl)
    | (obtain ⟨f, _, rfl⟩ := res_map_ok h; cases f <;> (try split) <;> rfl)
theorem hasElement_ty {a b r : Value} {eh : Option Int} (h : Value.hasElement a b eh = .ok r) : r.ty = .bool := by
  unfold Value.hasElement at h
  split at h
  · cases hfx : hasElementU a.unmark b.unmarkDeep eh with
    | ok r' => rw [hfx] at h; simp only [Res.map, Res.ok.injEq] at h; rw [← h]; exact hasElementU_ty (r := r') hfx
    | _ => rw [hfx] at h; simp [Res.map] at h
  · exact hasElementU_ty h

/-- Index: the element type of the list / map, the type of the addressed tuple position -/
theorem indexU_ty_list {v k r : Value} {e : Ty} (hv : v.ty = .list e) (h : indexU v k = .ok r) : r.ty = e := by
  obtain ⟨t, p⟩ := v
  simp only at hv; subst hv
  simp only [indexU, Ty.isDyn, Bool.false_eq_true, if_false] at h
  repeat' (first | split at h | (obtain ⟨_, _, h⟩ := Res.bind_eq_ok.mp h))
  all_goals (first | (cases h; rfl) | simp at h)
theorem indexU_ty_map {v k r : Value} {e : Ty} (hv : v.ty = .map e) (h : indexU v k = .ok r) : r.ty = e := by
  obtain ⟨t, p⟩ := v
  simp only at hv; subst hv
  simp only [indexU, Ty.isDyn, Bool.false_eq_true, if_false] at h
  repeat' (first | split at h | (obtain ⟨_, _, h⟩ := Res.bind_eq_ok.mp h))
  all_goals (first | (cases h; rfl) | simp at h)
theorem index_ty_list {v k r : Value} {e : Ty} (hv : v.ty = .list e) (h : Value.index v k = .ok r) : r.ty = e := by
  unfold Value.index binMarks at h
  split at h
  · cases hfx : indexU v.unmark k.unmark with
    | ok r' => rw [hfx] at h; simp only [Res.map, Res.ok.injEq] at h; rw [← h]; exact indexU_ty_list (v := v.unmark) (r := r') hv hfx
    | _ => rw [hfx] at h; simp [Res.map] at h
  · exact indexU_ty_list hv h
theorem index_ty_map {v k r : Value} {e : Ty} (hv : v.ty = .map e) (h : Value.index v k = .ok r) : r.ty = e := by
  unfold Value.index binMarks at h
  split at h
  · cases hfx : indexU v.unmark k.unmark with
    | ok r' => rw [hfx] at h; simp only [Res.map, Res.ok.injEq] at h; rw [← h]; exact indexU_ty_map (v := v.unmark) (r := r') hv hfx
    | _ => rw [hfx] at h; simp [Res.map] at h
  · exact indexU_ty_map hv h

end D02
end CtyModel
