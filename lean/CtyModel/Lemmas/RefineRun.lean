/-
C05: from one builder method to `step` (with its `refineable()` guard and the
two-call shorthands) and to whole call sequences (`run`), by induction over the
list of calls.
-/
import CtyModel.Lemmas.RefineGamma
namespace CtyModel
namespace Refine

variable [ExactOracle]

omit [ExactOracle] in
theorem den_rangeInclusive (lo hi : NumArg) (x : Conc) :
    den (.numRangeInclusive lo hi) x = (den (.numLower lo true) x && den (.numUpper hi true) x) := by
  cases x <;> rfl

omit [ExactOracle] in
theorem den_collectionLength (n : Int) (x : Conc) :
    den (.collectionLength n) x = (den (.lenLower n) x && den (.lenUpper n) x) := by
  cases x <;> simp [den]
  rw [Bool.eq_iff_iff]; simp; omega

omit [ExactOracle] in
theorem dropped_lower_incl (a : NumArg) : (RefineCall.numLower a true).dropped = false := by cases a <;> rfl
omit [ExactOracle] in
theorem dropped_upper_incl (a : NumArg) : (RefineCall.numUpper a true).dropped = false := by cases a <;> rfl

omit [ExactOracle] in
/-- two successive non-dropped calls amount to the conjunction of their constraints -/
theorem Effect.comp {b b1 b2 : Builder} {c1 c2 c : RefineCall} (e1 : Effect b b1 c1) (e2 : Effect b1 b2 c2)
    (h1 : c1.dropped = false) (h2 : c2.dropped = false) (hc : c.dropped = false)
    (hden : ∀ x, den c x = (den c1 x && den c2 x)) : Effect b b2 c := by
  obtain ⟨s1, w1, l1, g1⟩ := e1
  obtain ⟨s2, w2, l2, g2⟩ := e2
  simp only [h1, h2, Bool.false_eq_true, if_false] at g1 g2
  refine ⟨s1.trans s2, fun h => w2 (w1 h), fun h => l2 (l1 h), ?_⟩
  simp only [hc, Bool.false_eq_true, if_false]
  intro x
  rw [g2, g1, hden, Bool.and_assoc]

/-- every successful call on a receiver other than `cty.DynamicVal` has its `Effect` -/
theorem step_effect {b b' : Builder} {c : RefineCall} (hd : b.isDyn = false) (h : step b c = .ok b') :
    Effect b b' c := by
  unfold step at h
  rw [hd] at h
  simp only [Bool.false_eq_true, if_false] at h
  split at h
  · simp at h
  · rename_i hu
    cases c with
    | notNull => exact stepNotNull_effect hu h
    | null => exact stepNull_effect hu h
    | numLower a incl => exact stepNumLower_effect h
    | numUpper a incl => exact stepNumUpper_effect h
    | lenLower n => exact stepLenLower_effect h
    | lenUpper n => exact stepLenUpper_effect h
    | stringPrefix p => exact stepPrefix_effect _ (.inl rfl) h
    | stringPrefixFull p => exact stepPrefix_effect _ (.inr rfl) h
    | numRangeInclusive lo hi =>
      simp only [step1] at h
      cases h1 : stepNumLower b lo true with
      | ok b1 =>
        rw [h1] at h
        exact (stepNumLower_effect h1).comp (stepNumUpper_effect h) (dropped_lower_incl _) (dropped_upper_incl _) rfl
          (den_rangeInclusive lo hi)
      | err e => rw [h1] at h; simp [Res.bind] at h
      | panic w => rw [h1] at h; simp [Res.bind] at h
      | unmodelled => rw [h1] at h; simp [Res.bind] at h
    | collectionLength n =>
      simp only [step1] at h
      cases h1 : stepLenLower b n with
      | ok b1 =>
        rw [h1] at h
        exact (stepLenLower_effect h1).comp (stepLenUpper_effect h) rfl rfl rfl (den_collectionLength n)
      | err e => rw [h1] at h; simp [Res.bind] at h
      | panic w => rw [h1] at h; simp [Res.bind] at h
      | unmodelled => rw [h1] at h; simp [Res.bind] at h

/-- `cty.DynamicVal` ignores every call -/
theorem step_dyn {b : Builder} (hd : b.isDyn = true) (c : RefineCall) : step b c = .ok b := by
  unfold step; rw [hd]; rfl

theorem run_dyn {b : Builder} (hd : b.isDyn = true) (cs : List RefineCall) : run b cs = .ok b := by
  induction cs with
  | nil => rfl
  | cons c cs ih => simp [run, step_dyn hd, Res.bind, ih]

omit [ExactOracle] in
/-- narrowing, for one call -/
theorem Effect.narrows {b b' : Builder} {c : RefineCall} (e : Effect b b' c) (x : Conc) (h : γB b' x = true) :
    γB b x = true := by
  obtain ⟨_, _, _, g⟩ := e
  split at g
  · rw [← g]; exact h
  · rw [g] at h; simp at h; exact h.1

/-- a call sequence: receiver, marks and well-formedness stay; the admitted set only
shrinks; and, when no call has the dropped shape, it is exactly what the receiver
admitted intersected with every stated constraint -/
theorem run_effect {cs : List RefineCall} : ∀ {b b' : Builder}, b.isDyn = false → run b cs = .ok b' →
    b.sameBase b' ∧ (b.wf = true → b'.wf = true) ∧ (b.wip.lenOk = true → b'.wip.lenOk = true) ∧
    (∀ x, γB b' x = true → γB b x = true) ∧
    (cs.all (fun c => !c.dropped) = true → ∀ x, γB b' x = (γB b x && cs.all (fun c => den c x))) := by
  induction cs with
  | nil =>
    intro b b' _ h
    simp [run] at h; subst h
    exact ⟨Builder.sameBase.rfl' _, id, id, fun _ => id, fun _ x => by simp⟩
  | cons c cs ih =>
    intro b b' hd h
    simp only [run] at h
    cases h1 : step b c with
    | ok b1 =>
      rw [h1] at h
      simp only [Res.bind] at h
      have e := step_effect hd h1
      have hd1 : b1.isDyn = false := by rw [Builder.isDyn_congr e.1]; exact hd
      obtain ⟨s2, w2, l2, n2, x2⟩ := ih hd1 h
      refine ⟨e.1.trans s2, fun hw => w2 (e.2.1 hw), fun hl => l2 (e.2.2.1 hl), fun x hx => e.narrows x (n2 x hx), ?_⟩
      intro hall x
      simp only [List.all_cons, Bool.and_eq_true, Bool.not_eq_eq_eq_not, Bool.not_true] at hall
      have g1 := e.2.2.2
      simp only [hall.1, Bool.false_eq_true, if_false] at g1
      rw [x2 (by simpa using hall.2) x, g1 x, List.all_cons, Bool.and_assoc]
    | err e => rw [h1] at h; simp [Res.bind] at h
    | panic w => rw [h1] at h; simp [Res.bind] at h
    | unmodelled => rw [h1] at h; simp [Res.bind] at h

end Refine
end CtyModel
