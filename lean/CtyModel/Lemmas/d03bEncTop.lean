/-
d03b — consequences of the level induction, stated on `makeSetHashBytes` /
`RawEquals` of whole values.
-/
import CtyModel.Lemmas.d03bEncLvl
namespace CtyModel
namespace D03b
open Value SetImpl

theorem hashBytesP_enc {t : Ty} {p : Payload} (hc : capFree t = true) (hg : G t p) :
    hashBytesP t p = hashBytesP (enc t) (canon t p) := by
  rw [hashBytesP_eq_hashS sh0 (enc_plain t hc) (canon_G t p hg).1]
  exact (S_all p.depth).1 t p hc hg (Nat.le_refl _)

theorem rawEqP_enc {t : Ty} {a b : Payload} (hc : capFree t = true) (ha : G t a) (hb : G t b) :
    rawEqP t a t b = .ok (rawB (enc t) (canon t a) (canon t b)) :=
  (S_all (max a.depth b.depth)).2 t a b hc ha hb (Nat.le_max_left ..) (Nat.le_max_right ..)

/-- iteration order of a set value's members, as the specification sort of the members -/
theorem setIter_enc {e : Ty} {vs : List Payload} (hc : capFree e = true) (hg : GAll e vs) :
    setIter e vs = .ok (sortStable (fun x y => lessEnc e (canon e x) (canon e y)) vs) :=
  lvl_iter_enc (S_all _) hc hg (Nat.le_refl _)

/-! ### integer numbers stay integer numbers -/

theorem numsL_all_iff (f : Num → Bool) : ∀ {vs : List Payload},
    (Payload.numsL vs).all f = true ↔ ∀ v ∈ vs, v.nums.all f = true
  | [] => by simp [Payload.numsL]
  | v :: vs => by simp [Payload.numsL, List.all_append, numsL_all_iff f (vs := vs)]

mutual
theorem canon_nums (f : Num → Bool) : ∀ (t : Ty) (p : Payload), p.nums.all f = true → (canon t p).nums.all f = true
  | t, .marked m r, h => by
    simp only [Payload.nums] at h
    simp only [canon, Payload.nums]; exact canon_nums f t r h
  | t, .null, _ => by rw [canon_null]; rfl
  | t, .unk r, _ => by rw [canon_unk]; rfl
  | t, .b _, h => by cases t <;> exact h
  | t, .n _, h => by cases t <;> exact h
  | t, .s _, h => by cases t <;> exact h
  | t, .caps, h => by cases t <;> exact h
  | t, .bad _, h => by cases t <;> exact h
  | t, .seq xs, h => by
    simp only [Payload.nums] at h
    cases t <;> try exact h
    case list e =>
      simp only [canon, Payload.nums, numsL_all_iff]
      exact canonAll_nums f e xs (numsL_all_iff f |>.mp h)
    case tuple ts =>
      simp only [canon, Payload.nums, numsL_all_iff]
      exact canonZip_nums f ts xs (numsL_all_iff f |>.mp h)
  | t, .smap ks xs, h => by
    simp only [Payload.nums] at h
    cases t <;> try exact h
    case map e =>
      simp only [canon, Payload.nums, numsL_all_iff]
      exact canonAll_nums f e xs (numsL_all_iff f |>.mp h)
    case object ns ts os =>
      simp only [canon, Payload.nums, numsL_all_iff]
      exact canonZip_nums f ts xs (numsL_all_iff f |>.mp h)
  | t, .sset ids xs, h => by
    simp only [Payload.nums] at h
    cases t <;> try exact h
    case set e =>
      simp only [canon, Payload.nums, numsL_all_iff]
      intro v hv
      exact canonAll_nums f e xs (numsL_all_iff f |>.mp h) v ((mem_sortStable _ _ _).mp hv)
theorem canonAll_nums (f : Num → Bool) : ∀ (e : Ty) (vs : List Payload), (∀ v ∈ vs, v.nums.all f = true) →
    ∀ w ∈ canonAll e vs, w.nums.all f = true
  | _, [], _, w, hw => by simp [canonAll] at hw
  | e, v :: vs, h, w, hw => by
    simp only [canonAll, List.mem_cons] at hw
    rcases hw with rfl | hw
    · exact canon_nums f e v (h v (List.mem_cons_self ..))
    · exact canonAll_nums f e vs (fun u hu => h u (List.mem_cons_of_mem _ hu)) w hw
theorem canonZip_nums (f : Num → Bool) : ∀ (ts : List Ty) (vs : List Payload), (∀ v ∈ vs, v.nums.all f = true) →
    ∀ w ∈ canonZip ts vs, w.nums.all f = true
  | [], vs, h, w, hw => by simp only [canonZip] at hw; exact h w hw
  | _ :: _, [], _, w, hw => by simp [canonZip] at hw
  | t :: ts, v :: vs, h, w, hw => by
    simp only [canonZip, List.mem_cons] at hw
    rcases hw with rfl | hw
    · exact canon_nums f t v (h v (List.mem_cons_self ..))
    · exact canonZip_nums f ts vs (fun u hu => h u (List.mem_cons_of_mem _ hu)) w hw
end

theorem canon_intNums {t : Ty} {p : Payload} (h : p.intNums = true) : (canon t p).intNums = true :=
  canon_nums Num.isInt t p h

theorem canon_numTextsOk {t : Ty} {p : Payload} (h : p.numTextsOk = true) : (canon t p).numTextsOk = true :=
  canon_nums numTextOk t p h

end D03b
end CtyModel

namespace CtyModel
namespace D03b
open Value SetImpl

theorem strictTotalB_spec {α : Type} {less : α → α → Bool} {l : List α} (h : strictTotalB less l = true) :
    StrictTotalOnList less l := by
  simp only [strictTotalB, Bool.and_eq_true, List.all_eq_true, Bool.not_eq_true', Bool.or_eq_true,
    Bool.and_eq_true, List.mem_range, beq_iff_eq] at h
  obtain ⟨⟨h1, h2⟩, h3⟩ := h
  refine ⟨h1, fun a ha b hb c hc hab hbc => ?_, ?_⟩
  · rcases h2 a ha b hb c hc with h | h
    · simp [hab, hbc] at h
    · exact h
  · rw [List.pairwise_iff_getElem]
    intro i j hi hj hij
    rcases h3 i hi j hj with h | h
    · omega
    · simpa [List.getElem?_eq_getElem hi, List.getElem?_eq_getElem hj] using h

/-- `ctyLessB` (what `setRules.Less` returns) is the specification on the transliterations -/
theorem ctyLessB_enc {e : Ty} (hc : capFree e = true) {x y : Payload} (hx : G e x) (hy : G e y) :
    setLess e x y = .ok (ctyLessB e x y) ∧ ctyLessB e x y = lessEnc e (canon e x) (canon e y) := by
  have h := lvl_less_enc (S_all (max x.depth y.depth)) hc hx hy (Nat.le_max_left ..) (Nat.le_max_right ..)
  simp only [ctyLessB, setLess, h, and_self]

theorem strictTotal_enc {e : Ty} (hc : capFree e = true) {vs : List Payload} (hg : GAll e vs)
    (h : StrictTotalOnList (ctyLessB e) vs) : StrictTotalOnList (fun x y => lessEnc e (canon e x) (canon e y)) vs := by
  rw [GAll_iff] at hg
  have eq : ∀ a ∈ vs, ∀ b ∈ vs, ctyLessB e a b = lessEnc e (canon e a) (canon e b) :=
    fun a ha b hb => (ctyLessB_enc hc (hg a ha) (hg b hb)).2
  refine ⟨fun a ha => by rw [← eq a ha a ha]; exact h.irrefl a ha, fun a ha b hb c hc' h1 h2 => ?_, ?_⟩
  · rw [← eq a ha b hb] at h1; rw [← eq b hb c hc'] at h2; rw [← eq a ha c hc']
    exact h.trans a ha b hb c hc' h1 h2
  · exact h.total.imp_of_mem fun {a b} ha hb hab => by rw [← eq a ha b hb, ← eq b hb a ha]; exact hab

/-- **sorted iteration is a function of the member set** where `Less` is a strict total order -/
theorem setIter_perm {e : Ty} (hc : capFree e = true) {xs ys : List Payload} (gx : GAll e xs) (hp : xs.Perm ys)
    (ht : StrictTotalOnList (ctyLessB e) xs) : setIter e xs = setIter e ys := by
  have gy : GAll e ys := GAll_iff.mpr fun v hv => GAll_iff.mp gx v (hp.mem_iff.mpr hv)
  rw [setIter_enc hc gx, setIter_enc hc gy, sortStable_eq_of_perm _ hp (strictTotal_enc hc gx ht)]

theorem canonSet_perm {e : Ty} (hc : capFree e = true) {xs ys : List Payload} (gx : GAll e xs) (hp : xs.Perm ys)
    (ht : StrictTotalOnList (ctyLessB e) xs) : canonSet e xs = canonSet e ys := by
  rw [canonSet_eq, canonSet_eq, sortStable_eq_of_perm _ hp (strictTotal_enc hc gx ht)]

end D03b
end CtyModel
