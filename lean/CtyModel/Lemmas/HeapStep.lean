/-
C20 — every step of a history writes only its write set `wset` (plus objects it
allocates itself); when the step respects the ownership rules the write set holds
no library-owned object, hence (`HeapFrame.fp_stable`) every frozen word keeps its
fingerprint.
-/
import CtyModel.Lemmas.HeapPres
namespace CtyModel
namespace Heap

theorem sliceW_of_owned {W : Addr → Prop} {m : Mem} {o : Owner} {w : Word}
    (hW : ∀ x, ownerOf m x = some o → W x) (h : sliceOwned m o w = true) : SliceW W m w := by
  intro arr off len cap e
  subst e
  exact .inl (hW arr (by simpa [sliceOwned] using h))

theorem setW_of_owned {W : Addr → Prop} {m : Mem} {a : Addr}
    (hW : ∀ x, (x = a ∨ ownerOf m x = some (.bucket a)) → W x) (h : setOwned m a = true) :
    SetW W m m a := by
  simp only [setOwned, Bool.and_eq_true] at h
  refine ⟨.inl (hW a (.inl rfl)), fun kvs hk kv hkv => ?_⟩
  have h2 := h.2
  simp only [hk, List.all_eq_true] at h2
  exact sliceW_of_owned (fun x hx => hW x (.inr hx)) (h2 kv hkv)

theorem setCopy_addr {m : Mem} {own : Owner} {a : Addr} {r : Mem × Addr}
    (h : setCopy m own a = some r) : r.2 = m.length := by
  unfold setCopy at h
  cases hk : kvsOf m a with
  | none => simp [hk] at h
  | some kvs =>
    simp only [hk, setNew, Option.map_eq_some_iff] at h
    obtain ⟨m2, _, e⟩ := h
    rw [← e]; rfl

theorem kvsOf_freeze (m : Mem) (x a : Addr) : kvsOf (freeze m x) a = kvsOf m a := by
  unfold freeze
  cases hm : m[x]? with
  | none => rfl
  | some o =>
    by_cases e : x = a
    · subst e
      have hlt := (List.getElem?_eq_some_iff.mp hm).1
      rcases o with ⟨ow, bd⟩
      cases bd <;> simp [kvsOf, List.getElem?_set_self hlt, hm]
    · simp [kvsOf, List.getElem?_set_ne e]

theorem kvsOf_freezeCaller (m : Mem) (x a : Addr) : kvsOf (freezeCaller m x) a = kvsOf m a := by
  unfold freezeCaller; split
  · exact kvsOf_freeze m x a
  · rfl

theorem setW_freezeCaller {W : Addr → Prop} {m : Mem} {a : Addr} (x : Addr) (h : SetW W m m a) :
    SetW W m (freezeCaller m x) a :=
  ⟨h.1, fun kvs hk => h.2 kvs (by rw [← hk, kvsOf_freezeCaller])⟩

theorem popFrames_subset : ∀ (fs : List Frame) (fr : Frame), fr ∈ popFrames fs → fr ∈ fs := by
  intro fs
  induction fs with
  | nil => intro fr h; simp [popFrames] at h
  | cons f r ih =>
    intro fr h
    rcases f with ⟨p, todo⟩
    cases todo with
    | nil => simp only [popFrames] at h; exact List.mem_cons_of_mem _ (ih fr h)
    | cons _ _ => simpa [popFrames] using h

theorem pres_expandPending {W : Addr → Prop} {m0 m : Mem} (h : Ext W m0 m) (wk : Walker) :
    Ext W m0 (expandPending m wk).1 := by
  unfold expandPending
  split
  · exact pres_walkChildren h _ _
  · exact h

theorem sliceW_expandPending {W : Addr → Prop} {m : Mem} {wk : Walker}
    (hW : ∀ x, ownerOf m x = some .scratch → W x) (h : walkerOwned m wk = true) (m1 : Mem) :
    ∀ fr ∈ (expandPending m1 wk).2, SliceW W m fr.path := by
  simp only [walkerOwned, Bool.and_eq_true, List.all_eq_true] at h
  intro fr hfr
  unfold expandPending at hfr
  split at hfr
  · rename_i path t p hp
    rcases List.mem_cons.mp hfr with e | e
    · subst e
      have := h.1
      simp only [hp] at this
      exact sliceW_of_owned hW this
    · exact sliceW_of_owned hW (h.2 fr e)
  · exact sliceW_of_owned hW (h.2 fr hfr)

macro "pres_close" : tactic => `(tactic|
  (simp only [St.withMem, St.pushVal, St.pushGo, St.pushOut] at *
   first
    | exact Ext.refl _ _
    | exact preserves_alloc' _ _ _ _
    | exact pres_alloc (preserves_alloc' _ _ _ _) _ _
    | exact pres_alloc (pres_alloc (preserves_alloc' _ _ _ _) _ _) _ _
    | (apply pres_iterElems (Ext.refl _ _) (kes := _); assumption)
    | (apply pres_alloc; apply pres_iterElems (Ext.refl _ _) (kes := _); assumption)))

/-- **an API step writes only its write set** (everything else it touches is fresh) -/
theorem stepApi_writes {st st' : St} {c : Api} (hr : respectful st (.api c) = true)
    (h : stepApi st c = some st') : Ext (fun x => wset st (.api c) x = true) st.mem st'.mem := by
  cases c with
  | numberVal g =>
    simp only [stepApi] at h
    opt_cases h
    rename_i a hg _ _
    simp only [St.withMem, St.pushVal]
    exact pres_freezeCaller _ _ (fun ho => by simp [wset, hg, ho])
  | tupleType g =>
    simp only [stepApi] at h
    opt_cases h
    rename_i hg _ _
    simp only [St.withMem, St.pushVal]
    exact pres_freezeCaller _ _ (fun ho => by simp [wset, hg, ho])
  | setVal g hs =>
    simp only [stepApi] at h
    opt_cases h
    rename_i m2 hm2
    exact pres_publish (pres_setAddAll _ _ _ _ (pres_alloc (preserves_alloc' _ _ _ _) _ _)
      (setW_new (preserves_alloc' _ _ _ _) _) hm2).1 (.inr (by simp [setNew]))
  | asValueSet v hs =>
    simp only [stepApi] at h
    opt_cases h
    rename_i r hr' m2 hm2
    have h0 := pres_iterElems (Ext.refl (fun x => wset st (.api (.asValueSet v hs)) x = true) _) (kes := r.2) hr'
    exact (pres_setAddAll _ _ _ _ (pres_alloc h0 _ _) (setW_new h0 _) hm2).1
  | setValFromValueSet g =>
    simp only [stepApi] at h
    opt_cases h
    rename_i r hr'
    refine pres_publish (pres_setCopy (Ext.refl _ _) (a' := r.2) hr') (.inr ?_)
    have := setCopy_addr hr'
    simp only [this]; exact Nat.le_refl _
  | vsCopy g =>
    simp only [stepApi] at h
    opt_cases h
    rename_i r hr'
    exact pres_setCopy (Ext.refl _ _) (a' := r.2) hr'
  | vsAdd g v hh =>
    simp only [stepApi] at h
    opt_cases h
    rename_i ety a hg _ _ m2 hm2
    simp only [respectful, hg] at hr
    refine (pres_setAdd (Ext.refl _ _) (setW_of_owned ?_ hr) hm2).1
    intro x hx
    rcases hx with hx | hx <;> simp [wset, hg, hx]
  | vsRemove g v hh =>
    simp only [stepApi] at h
    opt_cases h
    rename_i ety a hg _ _ m2 hm2
    refine pres_setRemove (Ext.refl _ _) (.inl ?_) hm2
    simp [wset, hg]
  | psRemove g p hh =>
    simp only [stepApi] at h
    opt_cases h
    rename_i a hg _ _ m2 hm2
    refine pres_setRemove (Ext.refl _ _) (.inl ?_) hm2
    simp [wset, hg]
  | psAddAllSteps g p hs =>
    simp only [stepApi] at h
    opt_cases h
    · exact Ext.refl _ _
    · rename_i _ a hg _ arr off len cap hp _ _ _ m2 hm2
      simp only [respectful, hg, Bool.and_eq_true] at hr
      have hw : SetW (fun x => wset st (.api (.psAddAllSteps g p hs)) x = true) st.mem st.mem a := by
        refine setW_of_owned ?_ hr.1
        intro x hx
        rcases hx with hx | hx <;> simp [wset, hg, hx]
      refine (pres_setAddAll _ _ _ _ (pres_freezeCaller _ _ ?_) (setW_freezeCaller _ hw) hm2).1
      intro ho
      simp [wset, hp, ho]
    · exact Ext.refl _ _
  | psAdd g p hh =>
    simp only [stepApi] at h
    opt_cases h
    · rename_i a hg _ arr off len cap hp _ _ m2 hm2
      simp only [respectful, hg, Bool.and_eq_true] at hr
      have hw : SetW (fun x => wset st (.api (.psAdd g p hh)) x = true) st.mem st.mem a := by
        refine setW_of_owned ?_ hr.1
        intro x hx
        rcases hx with hx | hx <;> simp [wset, hg, hx]
      refine (pres_setAdd (pres_freezeCaller _ _ ?_) (setW_freezeCaller _ hw) hm2).1
      intro ho
      simp [wset, hp, ho]
    · rename_i a hg _ hp m2 hm2
      simp only [respectful, hg, Bool.and_eq_true] at hr
      have hw : SetW (fun x => wset st (.api (.psAdd g p hh)) x = true) st.mem st.mem a := by
        refine setW_of_owned ?_ hr.1
        intro x hx
        rcases hx with hx | hx <;> simp [wset, hg, hx]
      exact (pres_setAdd (Ext.refl _ _) hw hm2).1
  | walkNext w =>
    simp only [stepApi] at h
    opt_cases h
    · exact pres_expandPending (Ext.refl _ _) _
    · rename_i wk hwk _ path step child todo rest hpop r hg
      simp only [respectful, hwk] at hr
      have hmem : (⟨path, (step, child) :: todo⟩ : Frame) ∈ (expandPending st.mem wk).2 :=
        popFrames_subset _ _ (by rw [hpop]; exact List.mem_cons_self)
      exact (pres_goAppend (pres_expandPending (Ext.refl _ _) wk)
        (sliceW_expandPending (fun x hx => by simp [wset, hx]) hr st.mem _ hmem) (s' := r.2) hg).1
  | _ =>
    simp only [stepApi] at h
    opt_cases h
    all_goals pres_close

/-- a caller action writes only the object it targets -/
theorem stepCaller_writes {st st' : St} {c : Caller} (h : stepCaller st c = some st') :
    Ext (fun x => wset st (.caller c) x = true) st.mem st'.mem := by
  cases c with
  | appendVal g v =>
    simp only [stepCaller] at h
    opt_cases h
    rename_i s hs _ _ r hg
    refine (pres_goAppend' (Ext.refl _ _) ?_ (s' := r.2) hg).1
    intro arr off len cap e hlt
    subst e
    exact .inl (by simp [wset, callerTarget, hs, hlt])
  | appendStep g name =>
    simp only [stepCaller] at h
    opt_cases h
    rename_i s hs r hg
    refine (pres_goAppend' (Ext.refl _ _) ?_ (s' := r.2) hg).1
    intro arr off len cap e hlt
    subst e
    exact .inl (by simp [wset, callerTarget, hs, hlt])
  | _ =>
    simp only [stepCaller] at h
    opt_cases h
    all_goals (first
      | pres_close
      | exact pres_setBody (Ext.refl _ _) _ (.inl (by simp [wset, callerTarget, *])))

theorem step_writes {st st' : St} {op : HeapOp} (hr : respectful st op = true)
    (h : step st op = some st') : Ext (fun x => wset st op x = true) st.mem st'.mem := by
  cases op with
  | api c => exact stepApi_writes hr h
  | caller c => exact stepCaller_writes h

/-- owners of what a respectful step may write: the caller's plain data, a helper
set's own storage, a walk's path buffer — never a library-owned object -/
theorem wset_owner {st : St} {op : HeapOp} (hr : respectful st op = true) {x : Addr}
    (hx : wset st op x = true) :
    ownerOf st.mem x = some .caller ∨ ownerOf st.mem x = some .scratch ∨
      ∃ a, ownerOf st.mem a = some .helper ∧ (x = a ∨ ownerOf st.mem x = some (.bucket a)) := by
  cases op with
  | caller c =>
    simp only [wset, beq_iff_eq] at hx
    simp only [respectful, hx, beq_iff_eq] at hr
    exact .inl hr
  | api c =>
    cases c
    all_goals (try (simp [wset] at hx; done))
    case numberVal g => simp only [wset, Bool.and_eq_true, beq_iff_eq] at hx; exact .inl hx.2
    case tupleType g =>
      simp only [wset] at hx
      split at hx
      · simp only [Bool.and_eq_true, beq_iff_eq] at hx; exact .inl hx.2
      · simp at hx
    case vsAdd g v hh =>
      simp only [wset] at hx
      split at hx
      · rename_i ety a hg
        simp only [respectful, hg, setOwned, Bool.and_eq_true, beq_iff_eq] at hr
        simp only [Bool.or_eq_true, beq_iff_eq] at hx
        exact .inr (.inr ⟨a, hr.1, hx⟩)
      · simp at hx
    case vsRemove g v hh =>
      simp only [wset] at hx
      split at hx
      · rename_i ety a hg
        simp only [respectful, hg, setOwned, Bool.and_eq_true, beq_iff_eq] at hr
        simp only [Bool.or_eq_true, beq_iff_eq] at hx
        exact .inr (.inr ⟨a, hr.1, hx⟩)
      · simp at hx
    case psRemove g p hh =>
      simp only [wset] at hx
      split at hx
      · rename_i a hg
        simp only [respectful, hg, setOwned, Bool.and_eq_true, beq_iff_eq] at hr
        simp only [Bool.or_eq_true, beq_iff_eq] at hx
        exact .inr (.inr ⟨a, hr.1, hx⟩)
      · simp at hx
    case psAdd g p hh =>
      simp only [wset, Bool.or_eq_true] at hx
      rcases hx with hx | hx
      · split at hx
        · rename_i a hg
          simp only [respectful, hg, setOwned, Bool.and_eq_true, beq_iff_eq] at hr
          simp only [Bool.or_eq_true, beq_iff_eq] at hx
          exact .inr (.inr ⟨a, hr.1.1, hx⟩)
        · simp at hx
      · split at hx
        · simp only [Bool.and_eq_true, beq_iff_eq] at hx; exact .inl hx.2
        · simp at hx
    case psAddAllSteps g p hs =>
      simp only [wset, Bool.or_eq_true] at hx
      rcases hx with hx | hx
      · split at hx
        · rename_i a hg
          simp only [respectful, hg, setOwned, Bool.and_eq_true, beq_iff_eq] at hr
          simp only [Bool.or_eq_true, beq_iff_eq] at hx
          exact .inr (.inr ⟨a, hr.1.1, hx⟩)
        · simp at hx
      · split at hx
        · simp only [Bool.and_eq_true, beq_iff_eq] at hx; exact .inl hx.2
        · simp at hx
    case walkNext w => simp only [wset, beq_iff_eq] at hx; exact .inr (.inl hx)

theorem wset_not_frozen {st : St} {op : HeapOp} (hr : respectful st op = true) {x : Addr}
    (hx : wset st op x = true) : frozenObj st.mem x = false := by
  rcases wset_owner hr hx with h | h | ⟨a, ha, h | h⟩
  · exact not_frozen_of_owner h (by simp) (by simp)
  · exact not_frozen_of_owner h (by simp) (by simp)
  · subst h; exact not_frozen_of_owner ha (by simp) (by simp)
  · simp [frozenObj, h, ha]

theorem step_preserves {st st' : St} {op : HeapOp} (hr : respectful st op = true)
    (h : step st op = some st') : Preserves st.mem st'.mem :=
  (step_writes hr h).preserves fun _ hx => wset_not_frozen hr hx

/-- **all histories**: a history every step of which respects the ownership rules
leaves every library-owned object of the initial heap as it was -/
theorem run_preserves : ∀ (ops : List HeapOp) (st : St), respectfulRun st ops = true →
    Preserves st.mem (run st ops).mem := by
  intro ops
  induction ops with
  | nil => intro st _; exact Preserves.refl _
  | cons op ops ih =>
    intro st hr
    simp only [respectfulRun, Bool.and_eq_true] at hr
    simp only [run]
    cases hs : step st op with
    | none => simp only [hs, Option.getD_none] at hr ⊢; exact ih st hr.2
    | some st1 =>
      simp only [hs, Option.getD_some] at hr ⊢
      exact (step_preserves hr.1 hs).trans (ih st1 hr.2)

end Heap
end CtyModel
