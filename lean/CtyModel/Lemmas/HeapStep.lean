/-
C20 — every step of a history that respects the ownership rules leaves the
library-owned objects alone (`step_preserves`), hence (`HeapFrame.fp_stable`) the
fingerprint of every frozen word.
-/
import CtyModel.Lemmas.HeapPres
namespace CtyModel
namespace Heap

theorem setW_of_bool {m : Mem} {a : Addr} (h : setWritable m a = true) : SetW m m a := by
  simp only [setWritable, Bool.and_eq_true, Bool.not_eq_true'] at h
  refine ⟨h.1, fun kvs hk kv hkv => ?_⟩
  have h2 := h.2
  simp only [hk, List.all_eq_true] at h2
  exact sliceW_of_bool (h2 kv hkv)

theorem kvsOf_freeze (m : Mem) (x a : Addr) : kvsOf (freeze m x) a = kvsOf m a := by
  unfold freeze
  cases hm : m[x]? with
  | none => rfl
  | some o =>
    by_cases e : x = a
    · subst e
      have hlt := (List.getElem?_eq_some_iff.mp hm).1
      rcases o with ⟨ow, bd⟩
      cases bd <;> simp [kvsOf, List.getElem?_set_self hlt, hm]
    · simp [kvsOf, List.getElem?_set_ne e]

theorem kvsOf_freezeCaller (m : Mem) (x a : Addr) : kvsOf (freezeCaller m x) a = kvsOf m a := by
  unfold freezeCaller; split
  · exact kvsOf_freeze m x a
  · rfl

theorem setW_freezeCaller {m : Mem} {a : Addr} (x : Addr) (h : SetW m m a) :
    SetW m (freezeCaller m x) a :=
  ⟨h.1, fun kvs hk => h.2 kvs (by rw [← hk, kvsOf_freezeCaller])⟩

theorem popFrames_subset : ∀ (fs : List Frame) (fr : Frame), fr ∈ popFrames fs → fr ∈ fs := by
  intro fs
  induction fs with
  | nil => intro fr h; simp [popFrames] at h
  | cons f r ih =>
    intro fr h
    rcases f with ⟨p, todo⟩
    cases todo with
    | nil => simp only [popFrames] at h; exact List.mem_cons_of_mem _ (ih fr h)
    | cons _ _ => simpa [popFrames] using h

theorem pres_expandPending {m0 m : Mem} (h : Preserves m0 m) (wk : Walker) :
    Preserves m0 (expandPending m wk).1 := by
  unfold expandPending
  split
  · exact pres_walkChildren h _ _
  · exact h

theorem sliceW_expandPending {m : Mem} {wk : Walker} (h : walkerWritable m wk = true) (m1 : Mem) :
    ∀ fr ∈ (expandPending m1 wk).2, SliceW m fr.path := by
  simp only [walkerWritable, Bool.and_eq_true, List.all_eq_true] at h
  intro fr hfr
  unfold expandPending at hfr
  split at hfr
  · rename_i path t p hp
    rcases List.mem_cons.mp hfr with e | e
    · subst e
      have := h.1
      simp only [hp] at this
      exact sliceW_of_bool this
    · exact sliceW_of_bool (h.2 fr e)
  · exact sliceW_of_bool (h.2 fr hfr)

macro "pres_close" : tactic => `(tactic|
  (simp only [St.withMem, St.pushVal, St.pushGo, St.pushOut] at *
   first
    | exact Preserves.refl _
    | exact preserves_alloc _ _ _
    | exact pres_alloc (preserves_alloc _ _ _) _ _
    | exact pres_alloc (pres_alloc (preserves_alloc _ _ _) _ _) _ _
    | exact pres_freezeCaller _ _
    | (apply pres_iterElems (Preserves.refl _) (kes := _); assumption)
    | (apply pres_alloc; apply pres_iterElems (Preserves.refl _) (kes := _); assumption)))

/-- **no API step writes a library-owned object** (and none changes hands back). -/
theorem stepApi_preserves {st st' : St} {c : Api} (hr : respectful st (.api c) = true)
    (h : stepApi st c = some st') : Preserves st.mem st'.mem := by
  cases c with
  | setVal g hs =>
    simp only [stepApi] at h
    opt_cases h
    rename_i m2 hm2
    exact (pres_setAddAll _ _ _ _ (pres_alloc (preserves_alloc _ _ _) _ _)
      (setW_new (preserves_alloc _ _ _) _) hm2).1
  | asValueSet v hs =>
    simp only [stepApi] at h
    opt_cases h
    rename_i r hr' m2 hm2
    have h0 : Preserves st.mem r.1 := pres_iterElems (Preserves.refl _) (kes := r.2) hr'
    exact (pres_setAddAll _ _ _ _ (pres_alloc h0 _ _) (setW_new h0 _) hm2).1
  | setValFromValueSet g =>
    simp only [stepApi] at h
    opt_cases h
    rename_i r hr'
    exact pres_setCopy (Preserves.refl _) (a' := r.2) hr'
  | vsCopy g =>
    simp only [stepApi] at h
    opt_cases h
    rename_i r hr'
    exact pres_setCopy (Preserves.refl _) (a' := r.2) hr'
  | vsAdd g v hh =>
    simp only [stepApi] at h
    opt_cases h
    rename_i ety a hg _ _ m2 hm2
    simp only [respectful, hg] at hr
    exact (pres_setAdd (Preserves.refl _) (setW_of_bool hr) hm2).1
  | vsRemove g v hh =>
    simp only [stepApi] at h
    opt_cases h
    rename_i ety a hg _ _ m2 hm2
    simp only [respectful, hg] at hr
    exact pres_setRemove (Preserves.refl _) (setW_of_bool hr).1 hm2
  | psAdd g p hh =>
    simp only [stepApi] at h
    opt_cases h
    rename_i a hg pw hp m2 hm2
    simp only [respectful, hg, Bool.and_eq_true] at hr
    have hw := setW_of_bool hr.1
    split at hm2
    · exact (pres_setAdd (pres_freezeCaller _ _) (setW_freezeCaller _ hw) hm2).1
    · exact (pres_setAdd (Preserves.refl _) hw hm2).1
  | walkNext w =>
    simp only [stepApi] at h
    opt_cases h
    · exact pres_expandPending (Preserves.refl _) _
    · rename_i wk hwk _ path step child todo rest hpop r hg
      simp only [respectful, hwk] at hr
      have hmem : (⟨path, (step, child) :: todo⟩ : Frame) ∈ (expandPending st.mem wk).2 :=
        popFrames_subset _ _ (by rw [hpop]; exact List.mem_cons_self)
      exact (pres_goAppend (pres_expandPending (Preserves.refl _) wk)
        (sliceW_expandPending hr st.mem _ hmem) (s' := r.2) hg).1
  | _ =>
    simp only [stepApi] at h
    opt_cases h
    all_goals pres_close

theorem not_frozen_of_caller {m : Mem} {a : Addr} (h : (ownerOf m a == some Owner.caller) = true) :
    frozenObj m a = false :=
  not_frozen_of_owner (by simpa using h) (by simp) (by simp)

/-- a caller action writes only the object it targets, which the caller owns -/
theorem stepCaller_preserves {st st' : St} {c : Caller} (hr : respectful st (.caller c) = true)
    (h : stepCaller st c = some st') : Preserves st.mem st'.mem := by
  cases c with
  | appendVal g v =>
    simp only [stepCaller] at h
    opt_cases h
    rename_i s hs _ _ r hg
    simp only [respectful, callerTarget, hs] at hr
    refine (pres_goAppend' (Preserves.refl _) ?_ (s' := r.2) hg).1
    intro arr off len cap e hlt
    subst e
    simp only [hlt, if_true] at hr
    exact not_frozen_of_caller hr
  | appendStep g name =>
    simp only [stepCaller] at h
    opt_cases h
    rename_i s hs r hg
    simp only [respectful, callerTarget, hs] at hr
    refine (pres_goAppend' (Preserves.refl _) ?_ (s' := r.2) hg).1
    intro arr off len cap e hlt
    subst e
    simp only [hlt, if_true] at hr
    exact not_frozen_of_caller hr
  | _ =>
    simp only [stepCaller] at h
    opt_cases h
    all_goals (first
      | pres_close
      | (rename_i hg _ _ _ _ _; simp only [respectful, callerTarget, hg] at hr
         exact preserves_setBody _ (not_frozen_of_caller hr))
      | (rename_i hg _ _ _ _; simp only [respectful, callerTarget, hg] at hr
         exact preserves_setBody _ (not_frozen_of_caller hr))
      | (rename_i hg _ _ _; simp only [respectful, callerTarget, hg] at hr
         exact preserves_setBody _ (not_frozen_of_caller hr))
      | (rename_i hg _ _; simp only [respectful, callerTarget, hg] at hr
         exact preserves_setBody _ (not_frozen_of_caller hr)))

theorem step_preserves {st st' : St} {op : HeapOp} (hr : respectful st op = true)
    (h : step st op = some st') : Preserves st.mem st'.mem := by
  cases op with
  | api c => exact stepApi_preserves hr h
  | caller c => exact stepCaller_preserves hr h

/-- **all histories**: a history every step of which respects the ownership rules
leaves every library-owned object of the initial heap as it was -/
theorem run_preserves : ∀ (ops : List HeapOp) (st : St), respectfulRun st ops = true →
    Preserves st.mem (run st ops).mem := by
  intro ops
  induction ops with
  | nil => intro st _; exact Preserves.refl _
  | cons op ops ih =>
    intro st hr
    simp only [respectfulRun, Bool.and_eq_true] at hr
    simp only [run]
    cases hs : step st op with
    | none => simp only [hs, Option.getD_none] at hr ⊢; exact ih st hr.2
    | some st1 =>
      simp only [hs, Option.getD_some] at hr ⊢
      exact (step_preserves hr.1 hs).trans (ih st1 hr.2)

end Heap
end CtyModel
