/-
"Never a Go panic": corollaries of the reference theorems, for the index arithmetic
functions over EVERY known number and for the equality-based functions over plain
element types.
-/
import CtyModel.Lemmas.d13Wrap
import CtyModel.Lemmas.d13Seq
import CtyModel.Lemmas.d13Map
namespace CtyModel
namespace Stdlib
open Value

/-- the call does not end in a Go panic -/
def NoPanic {α} (r : Res α) : Prop := ∀ w, r ≠ .panic w

theorem NoPanic.of_ok {α} {r : Res α} {a : α} (h : r = .ok a) : NoPanic r := by
  intro w hw; rw [h] at hw; cases hw
theorem NoPanic.of_err {α} {r : Res α} {c : String} (h : r = .err c) : NoPanic r := by
  intro w hw; rw [h] at hw; cases hw
theorem NoPanic.of_fails {α} {r : Res α} (h : Fails r) : NoPanic r := by
  obtain ⟨c, hc⟩ := h; exact NoPanic.of_err hc

/-- `element`, `index`, `slice`, `chunklist` on a known mark-free list never panic, whatever
known numbers they are given -/
theorem index_arithmetic_no_panic (E : Env) (e : Ty) (he : e.equals e = true) (vs : List Payload) (x y : Num)
    (retTy : Ty) (hlen : (vs.length : Int) ≤ maxInt) (hm : Payload.containsMarkedL vs = false)
    (hm' : ∀ p ∈ vs, p.isMarked = false) :
    NoPanic (elementImpl [⟨.list e, .seq vs⟩, numVal x] retTy) ∧
    NoPanic (indexImpl [⟨.list e, .seq vs⟩, numVal x] retTy) ∧
    NoPanic (sliceImpl E [⟨.list e, .seq vs⟩, numVal x, numVal y] (.list e)) ∧
    NoPanic (chunklistImpl E [⟨.list e, .seq vs⟩, numVal x] retTy) := by
  refine ⟨?_, ?_, ?_, ?_⟩
  · rw [elementImpl_list e vs x retTy hlen hm']
    cases Gocty.int64Exact x with
    | none => exact NoPanic.of_err rfl
    | some i =>
      cases h : Spec.element? vs i with
      | none => exact NoPanic.of_err (c := "cannot use element function with an empty list") (by simp [h])
      | some p => exact NoPanic.of_ok (a := ⟨e, p⟩) (by simp [h])
  · rw [indexImpl_list_num e vs x hm retTy]
    cases h : (Spec.natIndex? x).bind (vs[·]?) with
    | none => exact NoPanic.of_err rfl
    | some p => exact NoPanic.of_ok rfl
  · by_cases h : ∃ s t, SliceArgs vs.length x y s t
    · obtain ⟨s, t, hst⟩ := h
      exact NoPanic.of_ok (sliceImpl_list_ok E e he vs x y s t hst)
    · exact NoPanic.of_fails (sliceImpl_list_err E e vs x y h)
  · cases hx : Gocty.int64Exact x with
    | none => exact NoPanic.of_fails (chunklistImpl_err E _ x retTy (by intro i hi; rw [hx] at hi; cases hi))
    | some i =>
      by_cases hneg : i < 0
      · exact NoPanic.of_fails (chunklistImpl_err E _ x retTy (by
          intro j hj; rw [hx] at hj; cases hj; exact hneg))
      · by_cases h0 : i = 0
        · subst h0
          cases vs with
          | nil => exact NoPanic.of_ok (chunklistImpl_empty E e x 0 hx (by omega) retTy)
          | cons v vs => exact NoPanic.of_ok (chunklistImpl_zero E e he (v :: vs) x hx (by simp) retTy)
        · have hpos : 0 < i.toNat := by omega
          have hx' : Gocty.int64Exact x = some ((i.toNat : Nat) : Int) := by
            rw [hx]; congr 1; omega
          obtain ⟨cs, hcs, _⟩ := chunklistImpl_pos E e he vs x i.toNat hx' hpos retTy
          exact NoPanic.of_ok hcs

/-- `index` on tuples and maps, `lookup` on maps and objects never panic -/
theorem index_lookup_no_panic (E : Env) (e : Ty) (ts : List Ty) (vs : List Payload) (ks ns : List String) (os : List Bool)
    (x : Num) (k : String) (d : Value) (retTy : Ty)
    (hl : ts.length = vs.length) (hm : Payload.containsMarkedL vs = false)
    (hd : NoPanic (convertTo E d retTy)) :
    NoPanic (indexImpl [⟨.tuple ts, .seq vs⟩, numVal x] retTy) ∧
    NoPanic (indexImpl [⟨.map e, .smap ks vs⟩, strVal k] retTy) ∧
    (ns.length = ts.length → ns.length = os.length → ns.length = vs.length →
      Payload.whollyKnownL vs = true → (∀ p ∈ vs, p.isMarked = false) →
      NoPanic (lookupImpl E [⟨.object ns ts os, .smap ns vs⟩, strVal k, d] retTy)) := by
  refine ⟨?_, ?_, ?_⟩
  · rw [indexImpl_tuple_num ts vs x hl hm retTy]
    cases (Spec.natIndex? x).bind (fun i => (ts[i]?).bind fun t => (vs[i]?).map fun p => (⟨t, p⟩ : Value)) with
    | none => exact NoPanic.of_err rfl
    | some v => exact NoPanic.of_ok rfl
  · rw [indexImpl_map_str e ks vs k hm retTy]
    cases ks.contains k with
    | false => exact NoPanic.of_err rfl
    | true => exact NoPanic.of_ok rfl
  · intro h1 h2 h3 hk hmk
    rw [lookupImpl_object E ns ts os vs k d retTy h1 h2 h3 hk hmk]
    cases Spec.attr? k ns ts vs with
    | some v => exact NoPanic.of_ok rfl
    | none =>
      intro w hw
      cases hc : convertTo E d retTy with
      | ok v => simp [hc, Res.map] at hw
      | err c => simp [hc, Res.map] at hw
      | panic w' => exact hd w' hc
      | unmodelled => simp [hc, Res.map] at hw

/-- `distinct` and `contains` on lists of a plain element type never panic -/
theorem equality_functions_no_panic (E : Env) (e : Ty) (hw : e.wf = true) (hp : e.plain = true) (vs : List Payload)
    (q : Payload) (retTy : Ty) (hm : ∀ p ∈ vs, Payload.plainMember e p = true) (hq : Payload.plainMember e q = true) :
    NoPanic (distinctImpl E [⟨.list e, .seq vs⟩] (.list e)) ∧
    NoPanic (containsImpl E [⟨.list e, .seq vs⟩, ⟨e, q⟩] retTy) := by
  refine ⟨NoPanic.of_ok (distinctImpl_plain E e hw hp vs hm), ?_⟩
  cases vs with
  | nil => exact NoPanic.of_ok (containsImpl_empty E e ⟨e, q⟩ retTy)
  | cons v vs => exact NoPanic.of_ok (containsImpl_plain E e hw hp [] (v :: vs) q retTy (by simp) hm hq).1

end Stdlib
end CtyModel
