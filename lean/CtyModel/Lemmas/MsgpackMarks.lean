/-
`marshal` never panics, and it succeeds only on values without marks at any depth
(C16: "marked values are rejected with an error").
-/
import CtyModel.Lemmas.MsgpackRT
namespace CtyModel
namespace Msgpack
open Refine

mutual
theorem toJson_no_panic : ∀ (t : Ty) (w : String), Ty.toJson t ≠ .panic w
  | .bool, _ | .number, _ | .string, _ | .dyn, _ | .capsule _, _ => by simp [Ty.toJson]
  | .list e, w | .set e, w | .map e, w => by
    have := toJson_no_panic e
    simp only [Ty.toJson]
    cases h : Ty.toJson e <;> simp_all [Res.map]
  | .tuple es, w => by
    have := toJsonL_no_panic es
    simp only [Ty.toJson]
    cases h : Ty.toJsonL es <;> simp_all [Res.map]
  | .object ns ts os, w => by
    have := toJsonL_no_panic ts
    simp only [Ty.toJson]
    cases h : Ty.toJsonL ts <;> simp_all [Res.map]
theorem toJsonL_no_panic : ∀ (ts : List Ty) (w : String), Ty.toJsonL ts ≠ .panic w
  | [], _ => by simp [Ty.toJsonL]
  | t :: ts, w => by
    have h1 := toJson_no_panic t
    have h2 := toJsonL_no_panic ts
    simp only [Ty.toJsonL]
    cases h : Ty.toJson t <;> simp_all
    cases h' : Ty.toJsonL ts <;> simp_all [Res.map]
end

/-- what is proved of every payload: no panic, and success only without marks -/
def NP (E : Ext) (p : Payload) : Prop :=
  ∀ vt ct : Ty, (∀ w, marshalP E vt p ct ≠ .panic w) ∧ (∀ it, marshalP E vt p ct = .ok it → p.containsMarked = false)

theorem marshalUnknown_no_panic (E : Ext) (vt : Ty) (r : Rfn) (w : String) : marshalUnknown E vt r ≠ .panic w := by
  unfold marshalUnknown
  split
  · simp
  · have : ∀ w, rfnEntries E vt r ≠ .panic w := by
      intro w
      unfold rfnEntries
      repeat' split
      all_goals simp
    cases h : rfnEntries E vt r <;> simp_all
    split <;> simp

theorem wrapDyn_no_panic (vt : Ty) (inner : Res Item) (h : ∀ w, inner ≠ .panic w) (w : String) :
    wrapDyn vt inner ≠ .panic w := by
  have := toJson_no_panic vt
  unfold wrapDyn
  cases hj : Ty.toJson vt <;> simp_all
  cases inner <;> simp_all

theorem wrapDyn_ok {vt : Ty} {inner : Res Item} {it : Item} (h : wrapDyn vt inner = .ok it) : ∃ it0, inner = .ok it0 := by
  unfold wrapDyn at h
  cases hj : Ty.toJson vt <;> simp_all
  cases inner <;> simp_all

theorem childItem_np (E : Ext) (p : Payload) (ih : NP E p) (ce ve : Ty) :
    (∀ w, childItem E ce ve p ≠ .panic w) ∧ (∀ it, childItem E ce ve p = .ok it → p.containsMarked = false) := by
  by_cases hm : ∃ ms q, p = .marked ms q
  · obtain ⟨ms, q, rfl⟩ := hm
    simp [childItem]
  · have hci : childItem E ce ve p =
        (if ce.isDyn && !ve.isDyn then wrapDyn ve (marshalP E ve p ve) else marshalP E ve p ce) := by
      cases p <;> first | rfl | exact absurd ⟨_, _, rfl⟩ hm
    rw [hci]
    split
    · exact ⟨wrapDyn_no_panic ve _ (ih ve ve).1, fun it h => by
        obtain ⟨it0, h0⟩ := wrapDyn_ok h
        exact (ih ve ve).2 it0 h0⟩
    · exact ih ve ce

theorem marshalAll_np (E : Ext) (ve ce : Ty) : ∀ ps : List Payload, (∀ p ∈ ps, NP E p) →
    (∀ w, marshalAll E ve ps ce ≠ .panic w) ∧ (∀ its, marshalAll E ve ps ce = .ok its → Payload.containsMarkedL ps = false)
  | [], _ => by simp [marshalAll, Payload.containsMarkedL]
  | p :: ps, ih => by
    obtain ⟨h1, h2⟩ := childItem_np E p (ih p (by simp)) ce ve
    obtain ⟨h3, h4⟩ := marshalAll_np E ve ce ps (fun q hq => ih q (by simp [hq]))
    rw [marshalAll_cons]
    cases hc : childItem E ce ve p with
    | ok it =>
      cases hs : marshalAll E ve ps ce with
      | ok its => simp [Res.map, Payload.containsMarkedL, h2 it hc, h4 its hs]
      | panic w => exact absurd hs (h3 w)
      | _ => simp [Res.map]
    | panic w => exact absurd hc (h1 w)
    | _ => simp

theorem marshalZip_np (E : Ext) : ∀ (ves : List Ty) (ps : List Payload) (ces : List Ty), (∀ p ∈ ps, NP E p) →
    (∀ w, marshalZip E ves ps ces ≠ .panic w) ∧
    (ves.length = ps.length → ces.length = ps.length →
      ∀ its, marshalZip E ves ps ces = .ok its → Payload.containsMarkedL ps = false)
  | ve :: ves, p :: ps, ce :: ces, ih => by
    obtain ⟨h1, h2⟩ := childItem_np E p (ih p (by simp)) ce ve
    obtain ⟨h3, h4⟩ := marshalZip_np E ves ps ces (fun q hq => ih q (by simp [hq]))
    rw [marshalZip_cons]
    cases hc : childItem E ce ve p with
    | ok it =>
      cases hs : marshalZip E ves ps ces with
      | ok its =>
        refine ⟨by simp [Res.map], fun hl1 hl2 its' _ => ?_⟩
        simp [Payload.containsMarkedL, h2 it hc, h4 (by simpa using hl1) (by simpa using hl2) its hs]
      | panic w => exact absurd hs (h3 w)
      | _ => simp [Res.map]
    | panic w => exact absurd hc (h1 w)
    | _ => simp
  | [], [], _, _ => by simp [marshalZip, Payload.containsMarkedL]
  | [], _ :: _, _, _ => by simp [marshalZip]
  | _ :: _, [], _, _ => by simp [marshalZip, Payload.containsMarkedL]
  | _ :: _, _ :: _, [], _ => by simp [marshalZip]

theorem np_seq (E : Ext) (vs : List Payload) (ih : ∀ p ∈ vs, NP E p) : NP E (.seq vs) := by
  intro vt ct
  cases ct <;> cases vt <;> simp only [marshalP, Payload.containsMarked] <;> try simp
  case list.list ce ve =>
    obtain ⟨h1, h2⟩ := marshalAll_np E ve ce vs ih
    cases h : marshalAll E ve vs ce <;> simp_all [Res.map]
  case tuple.tuple ces ves =>
    obtain ⟨h1, h2⟩ := marshalZip_np E ves vs ces ih
    split
    · rename_i hl
      cases h : marshalZip E ves vs ces <;> simp_all [Res.map]
    · simp

theorem np_sset (E : Ext) (ids : List Int) (vs : List Payload) (ih : ∀ p ∈ vs, NP E p) : NP E (.sset ids vs) := by
  intro vt ct
  cases ct <;> cases vt <;> simp only [marshalP, Payload.containsMarked] <;> try simp
  case set.set ce ve =>
    obtain ⟨h1, h2⟩ := marshalAll_np E ve ce vs ih
    cases h : marshalAll E ve vs ce <;> simp_all [Res.map]

theorem np_smap (E : Ext) (ks : List String) (vs : List Payload) (ih : ∀ p ∈ vs, NP E p) : NP E (.smap ks vs) := by
  intro vt ct
  cases ct <;> cases vt <;> simp only [marshalP, Payload.containsMarked] <;> try simp
  case map.map ce ve =>
    obtain ⟨h1, h2⟩ := marshalAll_np E ve ce vs ih
    split
    · cases h : marshalAll E ve vs ce <;> simp_all [Res.map]
    · simp
  case object.object cns cts cos vns vts vos =>
    obtain ⟨h1, h2⟩ := marshalZip_np E vts vs cts ih
    split
    · rename_i hl
      cases h : marshalZip E vts vs cts <;> simp_all [Res.map]
    · simp

mutual
theorem np (E : Ext) : ∀ p : Payload, NP E p
  | .null => by intro vt ct; simp [marshalP, Payload.containsMarked]
  | .unk r => by intro vt ct; simp [marshalP, Payload.containsMarked, marshalUnknown_no_panic]
  | .b _ => by intro vt ct; cases ct <;> simp [marshalP, Payload.containsMarked]
  | .n _ => by intro vt ct; cases ct <;> simp [marshalP, Payload.containsMarked]
  | .s _ => by intro vt ct; cases ct <;> simp [marshalP, Payload.containsMarked]
  | .caps => by intro vt ct; cases ct <;> simp [marshalP, Payload.containsMarked]
  | .bad _ => by intro vt ct; simp [marshalP]
  | .marked _ _ => by intro vt ct; simp [marshalP]
  | .seq vs => np_seq E vs (npL E vs)
  | .sset ids vs => np_sset E ids vs (npL E vs)
  | .smap ks vs => np_smap E ks vs (npL E vs)
theorem npL (E : Ext) : ∀ ps : List Payload, ∀ p ∈ ps, NP E p
  | [], _, h => by simp at h
  | q :: qs, p, h => by
    by_cases hp : p = q
    · rw [hp]; exact np E q
    · exact npL E qs p (by simpa [hp] using h)
end

/-- `Marshal` (as far as it is modelled) never panics -/
theorem marshal_no_panic (E : Ext) (v : Value) (t : Ty) (w : String) : marshal E v t ≠ .panic w := by
  unfold marshal
  split
  · simp
  · split
    · simp
    · rw [marshalV_eq]; exact (childItem_np E v.v (np E v.v) t v.ty).1 w

/-- … and succeeds only on a value that carries no mark at any depth -/
theorem marshal_ok_unmarked (E : Ext) (v : Value) (t : Ty) (it : Item) (h : marshal E v t = .ok it) :
    v.containsMarked = false := by
  unfold marshal at h
  split at h
  · simp at h
  · split at h
    · simp at h
    · rw [marshalV_eq] at h; exact (childItem_np E v.v (np E v.v) t v.ty).2 it h

end Msgpack
end CtyModel
