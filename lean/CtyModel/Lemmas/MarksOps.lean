/-
The mark prologues of the operation methods (`binMarks`, `unMarks`, and the two
deep ones of `Equals` and `HasElement`) on top of their unmarked cores
(`Lemmas/MarksOpsU.lean`): non-interference, no loss, no invention for every
method of `Op`.
-/
import CtyModel.Lemmas.MarksOpsU
namespace CtyModel
namespace Value

/-- the core computes the same on deeply unmarked operands -/
def Commutes2 (f : Value → Value → Res Value) : Prop :=
  ∀ x y : Value, x.isMarked = false → y.isMarked = false → x.MarksWF → y.MarksWF →
    (f x y).map unmarkDeep = f x.unmarkDeep y.unmarkDeep

def Commutes1 (f : Value → Res Value) : Prop :=
  ∀ x : Value, x.isMarked = false → x.MarksWF → (f x).map unmarkDeep = f x.unmarkDeep

/-- every mark in a result of the core is somewhere in an operand -/
def NoInv2 (f : Value → Value → Res Value) : Prop :=
  ∀ x y : Value, (f x y).All fun r => ∀ m ∈ r.marksDeep, m ∈ x.marksDeep ∨ m ∈ y.marksDeep

def NoInv1 (f : Value → Res Value) : Prop :=
  ∀ x : Value, (f x).All fun r => ∀ m ∈ r.marksDeep, m ∈ x.marksDeep

theorem map_unmarkDeep_of_clean {m : Res Value} (h : m.All Clean) : m.map unmarkDeep = m := by
  cases m <;> simp_all [Res.All, Res.map]
  exact h.unmarkDeep

theorem Commutes2.of_strip {f : Value → Value → Res Value}
    (hs : ∀ x y : Value, x.isMarked = false → y.isMarked = false → f x.unmarkDeep y.unmarkDeep = f x y)
    (hc : ∀ x y, (f x y).All Clean) : Commutes2 f := fun x y hx hy _ _ => by
  rw [map_unmarkDeep_of_clean (hc x y), hs x y hx hy]

theorem Commutes1.of_strip {f : Value → Res Value}
    (hs : ∀ x : Value, x.isMarked = false → f x.unmarkDeep = f x) (hc : ∀ x, (f x).All Clean) : Commutes1 f :=
  fun x hx _ => by rw [map_unmarkDeep_of_clean (hc x), hs x hx]

theorem NoInv2.of_clean {f : Value → Value → Res Value} (hc : ∀ x y, (f x y).All Clean) : NoInv2 f :=
  fun x y => (hc x y).mono fun r hr m hm => by rw [hr.marksDeep] at hm; simp at hm

theorem NoInv1.of_clean {f : Value → Res Value} (hc : ∀ x, (f x).All Clean) : NoInv1 f :=
  fun x => (hc x).mono fun r hr m hm => by rw [hr.marksDeep] at hm; simp at hm

/-! ### the prologue `if val.IsMarked() || other.IsMarked() { … Unmark … WithMarks }` -/

theorem binMarks_of_unmarked {f : Value → Value → Res Value} {a b : Value} (ha : a.isMarked = false)
    (hb : b.isMarked = false) : binMarks f a b = f a b := by simp [binMarks, ha, hb]

theorem unMarks_of_unmarked {f : Value → Res Value} {a : Value} (ha : a.isMarked = false) :
    unMarks f a = f a := by simp [unMarks, ha]

theorem binMarks_commutes {f : Value → Value → Res Value} (hf : Commutes2 f) {a b : Value}
    (ha : a.MarksWF) (hb : b.MarksWF) :
    (binMarks f a b).map unmarkDeep = binMarks f a.unmarkDeep b.unmarkDeep := by
  rw [binMarks_of_unmarked (isMarked_unmarkDeep a) (isMarked_unmarkDeep b)]
  by_cases h : (a.isMarked || b.isMarked) = true
  · simp only [binMarks, h, if_true, Res.map_map]
    rw [Res.map_congr (g := unmarkDeep) _ (fun r _ => by simp [Function.comp, unmarkDeep_withMarks])]
    rw [hf a.unmark b.unmark ha.isMarked_unmark hb.isMarked_unmark ha.unmark hb.unmark, unmarkDeep_unmark, unmarkDeep_unmark]
  · have h' : a.isMarked = false ∧ b.isMarked = false := by simpa using h
    rw [binMarks_of_unmarked h'.1 h'.2]
    exact hf a b h'.1 h'.2 ha hb

theorem unMarks_commutes {f : Value → Res Value} (hf : Commutes1 f) {a : Value} (ha : a.MarksWF) :
    (unMarks f a).map unmarkDeep = unMarks f a.unmarkDeep := by
  rw [unMarks_of_unmarked (isMarked_unmarkDeep a)]
  by_cases h : a.isMarked = true
  · simp only [unMarks, h, if_true, Res.map_map]
    rw [Res.map_congr (g := unmarkDeep) _ (fun r _ => by simp [Function.comp, unmarkDeep_withMarks])]
    rw [hf a.unmark ha.isMarked_unmark ha.unmark, unmarkDeep_unmark]
  · have h' : a.isMarked = false := by simpa using h
    rw [unMarks_of_unmarked h']
    exact hf a h' ha

/-- no loss: the union of the operands' top-level marks is on the result, whatever the core is -/
theorem binMarks_top {f : Value → Value → Res Value} {a b r : Value} (h : binMarks f a b = .ok r) {m : String}
    (hm : m ∈ a.marks ∨ m ∈ b.marks) : m ∈ r.marks := by
  by_cases hc : (a.isMarked || b.isMarked) = true
  · simp only [binMarks, hc, if_true] at h
    obtain ⟨r0, _, rfl⟩ := Res.map_eq_ok.mp h
    exact mem_marks_withMarks.mpr (.inr (mem_unionMarks.mpr hm))
  · have h' : a.isMarked = false ∧ b.isMarked = false := by simpa using hc
    rw [marks_of_not_marked h'.1, marks_of_not_marked h'.2] at hm
    simp at hm

theorem unMarks_top {f : Value → Res Value} {a r : Value} (h : unMarks f a = .ok r) {m : String}
    (hm : m ∈ a.marks) : m ∈ r.marks := by
  by_cases hc : a.isMarked = true
  · simp only [unMarks, hc, if_true] at h
    obtain ⟨r0, _, rfl⟩ := Res.map_eq_ok.mp h
    exact mem_marks_withMarks.mpr (.inr hm)
  · rw [marks_of_not_marked (by simpa using hc)] at hm
    simp at hm

/-- no invention through the prologue -/
theorem binMarks_noinv {f : Value → Value → Res Value} (hf : NoInv2 f) {a b r : Value}
    (h : binMarks f a b = .ok r) {m : String} (hm : m ∈ r.marksDeep) : m ∈ a.marksDeep ∨ m ∈ b.marksDeep := by
  by_cases hc : (a.isMarked || b.isMarked) = true
  · simp only [binMarks, hc, if_true] at h
    obtain ⟨r0, h0, rfl⟩ := Res.map_eq_ok.mp h
    rcases mem_marksDeep_withMarks.mp hm with h1 | h1
    · rcases mem_unionMarks.mp h1 with h2 | h2
      · exact .inl (marks_subset_marksDeep h2)
      · exact .inr (marks_subset_marksDeep h2)
    · rcases (hf a.unmark b.unmark).of_eq h0 m h1 with h2 | h2
      · exact .inl (marksDeep_unmark_subset h2)
      · exact .inr (marksDeep_unmark_subset h2)
  · have h' : a.isMarked = false ∧ b.isMarked = false := by simpa using hc
    rw [binMarks_of_unmarked h'.1 h'.2] at h
    exact (hf a b).of_eq h m hm

theorem unMarks_noinv {f : Value → Res Value} (hf : NoInv1 f) {a r : Value}
    (h : unMarks f a = .ok r) {m : String} (hm : m ∈ r.marksDeep) : m ∈ a.marksDeep := by
  by_cases hc : a.isMarked = true
  · simp only [unMarks, hc, if_true] at h
    obtain ⟨r0, h0, rfl⟩ := Res.map_eq_ok.mp h
    rcases mem_marksDeep_withMarks.mp hm with h1 | h1
    · exact marks_subset_marksDeep h1
    · exact marksDeep_unmark_subset ((hf a.unmark).of_eq h0 m h1)
  · rw [unMarks_of_unmarked (by simpa using hc)] at h
    exact (hf a).of_eq h m hm

/-! ### the cores, packaged -/

theorem commutes_addU : Commutes2 addU := .of_strip (fun _ _ hx hy => addU_strip hx hy) addU_clean
theorem commutes_subU : Commutes2 subU := .of_strip (fun _ _ hx hy => subU_strip hx hy) subU_clean
theorem commutes_mulU : Commutes2 mulU := .of_strip (fun _ _ hx hy => mulU_strip hx hy) mulU_clean
theorem commutes_divU : Commutes2 divU := .of_strip (fun _ _ hx hy => divU_strip hx hy) divU_clean
theorem commutes_modU : Commutes2 modU := fun _ _ hx hy _ _ => Res.Rel.map_eq (modU_rel hx hy)
theorem commutes_lessThanU : Commutes2 lessThanU := .of_strip (fun _ _ hx hy => lessThanU_strip hx hy) lessThanU_clean
theorem commutes_greaterThanU : Commutes2 greaterThanU :=
  .of_strip (fun _ _ hx hy => greaterThanU_strip hx hy) greaterThanU_clean
theorem commutes_andU : Commutes2 andU := .of_strip (fun _ _ hx hy => andU_strip hx hy) andU_clean
theorem commutes_orU : Commutes2 orU := .of_strip (fun _ _ hx hy => orU_strip hx hy) orU_clean
theorem commutes_indexU : Commutes2 indexU := fun _ _ hx hy _ _ => Res.Rel.map_eq (indexU_rel hx hy)
theorem commutes_hasIndexU : Commutes2 hasIndexU :=
  .of_strip (fun _ _ hx hy => hasIndexU_strip hx hy) hasIndexU_clean
theorem commutes_negU : Commutes1 negU := .of_strip (fun _ hx => negU_strip hx) negU_clean
theorem commutes_absU : Commutes1 absU := .of_strip (fun _ hx => absU_strip hx) absU_clean
theorem commutes_notU : Commutes1 notU := .of_strip (fun _ hx => notU_strip hx) notU_clean
theorem commutes_lengthU : Commutes1 lengthU := .of_strip (fun _ hx => lengthU_strip hx) lengthU_clean
theorem commutes_getAttrU (name : String) : Commutes1 (fun v => getAttrU v name) :=
  fun _ hx _ => Res.Rel.map_eq (getAttrU_rel name hx)

theorem noinv_modU : NoInv2 modU := fun x y => (modU_clean x y).mono fun r hr m hm => by
  rcases hr with hr | rfl
  · rw [hr.marksDeep] at hm; simp at hm
  · exact .inl hm
theorem noinv_indexU : NoInv2 indexU := fun x y => (indexU_marks x y).mono fun _ hr m hm => .inl (hr m hm)
theorem noinv_getAttrU (name : String) : NoInv1 (fun v => getAttrU v name) := fun x => getAttrU_marks x name

theorem getAttr_eq (v : Value) (name : String) : getAttr v name = unMarks (fun v => getAttrU v name) v := rfl

/-! ### `Equals`: both operands are unmarked deeply, all marks go to the result -/

theorem equals_clean_operands {a b : Value} (ha : a.containsMarked = false) (hb : b.containsMarked = false) :
    equals a b = equalsP a.ty a.v b.ty b.v := by simp [equals, ha, hb]

theorem equals_commutes (a b : Value) : (equals a b).map unmarkDeep = equals a.unmarkDeep b.unmarkDeep := by
  rw [equals_clean_operands (containsMarked_unmarkDeep a) (containsMarked_unmarkDeep b)]
  by_cases h : (a.containsMarked || b.containsMarked) = true
  · simp only [equals, h, if_true, Res.map_map]
    rw [Res.map_congr (g := unmarkDeep) _ (fun r _ => by simp [Function.comp, unmarkDeep_withMarks])]
    exact map_unmarkDeep_of_clean (equalsP_clean _ _ _ _)
  · have h' : a.containsMarked = false ∧ b.containsMarked = false := by simpa using h
    rw [equals_clean_operands h'.1 h'.2, unmarkDeep_of_clean h'.1, unmarkDeep_of_clean h'.2]
    exact map_unmarkDeep_of_clean (equalsP_clean _ _ _ _)

theorem marksDeep_of_clean {a : Value} (h : a.containsMarked = false) : a.marksDeep = [] :=
  Payload.marksDeep_of_not_containsMarked _ h

/-- no loss, at every depth of both operands -/
theorem equals_deep {a b r : Value} (h : equals a b = .ok r) {m : String}
    (hm : m ∈ a.marksDeep ∨ m ∈ b.marksDeep) : m ∈ r.marks := by
  by_cases hc : (a.containsMarked || b.containsMarked) = true
  · simp only [equals, hc, if_true] at h
    obtain ⟨r0, _, rfl⟩ := Res.map_eq_ok.mp h
    exact mem_marks_withMarks.mpr (.inr (mem_unionMarks.mpr hm))
  · have h' : a.containsMarked = false ∧ b.containsMarked = false := by simpa using hc
    rw [marksDeep_of_clean h'.1, marksDeep_of_clean h'.2] at hm
    simp at hm

theorem equals_noinv {a b r : Value} (h : equals a b = .ok r) {m : String} (hm : m ∈ r.marksDeep) :
    m ∈ a.marksDeep ∨ m ∈ b.marksDeep := by
  by_cases hc : (a.containsMarked || b.containsMarked) = true
  · simp only [equals, hc, if_true] at h
    obtain ⟨r0, h0, rfl⟩ := Res.map_eq_ok.mp h
    rcases mem_marksDeep_withMarks.mp hm with h1 | h1
    · exact mem_unionMarks.mp h1
    · rw [((equalsP_clean _ _ _ _).of_eq h0).marksDeep] at h1; simp at h1
  · have h' : a.containsMarked = false ∧ b.containsMarked = false := by simpa using hc
    rw [equals_clean_operands h'.1 h'.2] at h
    rw [((equalsP_clean _ _ _ _).of_eq h).marksDeep] at hm; simp at hm

/-! ### `HasElement`: the set is unmarked at the top, the needle deeply -/

theorem hasElement_clean_operands {v e : Value} (h : Option Int) (hv : v.isMarked = false)
    (he : e.containsMarked = false) : hasElement v e h = hasElementU v e h := by simp [hasElement, hv, he]

theorem hasElement_commutes {v e : Value} (h : Option Int) (hv : v.MarksWF) :
    (hasElement v e h).map unmarkDeep = hasElement v.unmarkDeep e.unmarkDeep h := by
  rw [hasElement_clean_operands h (isMarked_unmarkDeep v) (containsMarked_unmarkDeep e)]
  by_cases hc : (v.isMarked || e.containsMarked) = true
  · simp only [hasElement, hc, if_true, Res.map_map]
    rw [Res.map_congr (g := unmarkDeep) _ (fun r _ => by simp [Function.comp, unmarkDeep_withMarks])]
    rw [map_unmarkDeep_of_clean (hasElementU_clean _ _ _), ← unmarkDeep_unmark v,
      hasElementU_strip _ _ hv.isMarked_unmark hv.unmark.2]
  · have h' : v.isMarked = false ∧ e.containsMarked = false := by simpa using hc
    rw [hasElement_clean_operands h h'.1 h'.2, unmarkDeep_of_clean h'.2,
      map_unmarkDeep_of_clean (hasElementU_clean _ _ _), hasElementU_strip _ _ h'.1 hv.2]

/-- no loss: top-level marks of the set, marks at every depth of the needle -/
theorem hasElement_kept {v e r : Value} {h : Option Int} (hr : hasElement v e h = .ok r) {m : String}
    (hm : m ∈ v.marks ∨ m ∈ e.marksDeep) : m ∈ r.marks := by
  by_cases hc : (v.isMarked || e.containsMarked) = true
  · simp only [hasElement, hc, if_true] at hr
    obtain ⟨r0, _, rfl⟩ := Res.map_eq_ok.mp hr
    exact mem_marks_withMarks.mpr (.inr (mem_unionMarks.mpr hm))
  · have h' : v.isMarked = false ∧ e.containsMarked = false := by simpa using hc
    rw [marks_of_not_marked h'.1, marksDeep_of_clean h'.2] at hm
    simp at hm

theorem hasElement_noinv {v e r : Value} {h : Option Int} (hr : hasElement v e h = .ok r) {m : String}
    (hm : m ∈ r.marksDeep) : m ∈ v.marksDeep ∨ m ∈ e.marksDeep := by
  by_cases hc : (v.isMarked || e.containsMarked) = true
  · simp only [hasElement, hc, if_true] at hr
    obtain ⟨r0, h0, rfl⟩ := Res.map_eq_ok.mp hr
    rcases mem_marksDeep_withMarks.mp hm with h1 | h1
    · rcases mem_unionMarks.mp h1 with h2 | h2
      · exact .inl (marks_subset_marksDeep h2)
      · exact .inr h2
    · rw [((hasElementU_clean _ _ _).of_eq h0).marksDeep] at h1; simp at h1
  · have h' : v.isMarked = false ∧ e.containsMarked = false := by simpa using hc
    rw [hasElement_clean_operands h h'.1 h'.2] at hr
    rw [((hasElementU_clean _ _ _).of_eq hr).marksDeep] at hm; simp at hm

/-! ### the three compositions: `NotEqual`, `LessThanOrEqualTo`, `GreaterThanOrEqualTo` -/

theorem Clean.marksWF {r : Value} (h : r.Clean) : r.MarksWF := ⟨markerWF_of_clean _ h, setsClean_of_clean _ h⟩

theorem isMarked_of_clean {p : Payload} (h : p.containsMarked = false) : p.isMarked = false := by
  cases p <;> simp_all [Payload.containsMarked, Payload.isMarked]

/-- a clean result with a mark set put on it is a well-formed marked value -/
theorem Clean.withMarks_wf {r : Value} (h : r.Clean) (ms : List String) : (r.withMarks ms).MarksWF := by
  have hm : r.v.isMarked = false := isMarked_of_clean h
  have hu : r.v.unmark1 = r.v := Payload.unmark1_eq_of_not_marked hm
  show (Payload.withMarks r.v ms).markerWF = true ∧ (Payload.withMarks r.v ms).setsClean = true
  rw [Payload.withMarks_def]
  split
  · exact h.marksWF
  · rename_i hne
    rw [hu]
    exact ⟨by simp [Payload.markerWF, hne, hm, markerWF_of_clean _ h], by simpa [Payload.setsClean] using setsClean_of_clean _ h⟩

theorem binMarks_wf {f : Value → Value → Res Value} (hc : ∀ x y, (f x y).All Clean) {a b r : Value}
    (h : binMarks f a b = .ok r) : r.MarksWF := by
  unfold binMarks at h
  split at h
  · obtain ⟨r0, h0, rfl⟩ := Res.map_eq_ok.mp h
    exact ((hc _ _).of_eq h0).withMarks_wf _
  · exact ((hc _ _).of_eq h).marksWF

theorem equals_wf {a b r : Value} (h : equals a b = .ok r) : r.MarksWF := by
  unfold equals at h
  split at h
  · obtain ⟨r0, h0, rfl⟩ := Res.map_eq_ok.mp h
    exact ((equalsP_clean _ _ _ _).of_eq h0).withMarks_wf _
  · exact ((equalsP_clean _ _ _ _).of_eq h).marksWF

theorem Res.Rel.of_map_eq {α β} {f : α → β} {m : Res α} {m' : Res β} (h : m.map f = m') :
    Res.Rel (fun a b => f a = b) m m' := by
  subst h; cases m <;> simp [Res.Rel, Res.map]

theorem bind_eq_ok' {α β} {m : Res α} {f : α → Res β} {b : β} (h : (m >>= f) = .ok b) :
    ∃ a, m = .ok a ∧ f a = .ok b := by
  cases m <;> simp_all

section
variable {a b : Value} (ha : a.MarksWF) (hb : b.MarksWF)
include ha hb

/-- `cmp.Or(Equals)` for a comparison core `cmpU` -/
theorem cmpOrEquals_commutes {cmpU : Value → Value → Res Value} (hcm : Commutes2 cmpU)
    (hcl : ∀ x y, (cmpU x y).All Clean) :
    (do let l ← binMarks cmpU a b; let e ← equals a b; Value.or l e : Res Value).map unmarkDeep =
      (do let l ← binMarks cmpU a.unmarkDeep b.unmarkDeep; let e ← equals a.unmarkDeep b.unmarkDeep; Value.or l e) := by
  apply Res.Rel.map_eq
  apply Res.Rel.bind' (Res.Rel.of_map_eq (binMarks_commutes hcm ha hb))
  intro l l' hl hlok
  apply Res.Rel.bind' (Res.Rel.of_map_eq (equals_commutes a b))
  intro e e' he heok
  subst hl he
  exact Res.Rel.of_map_eq (binMarks_commutes commutes_orU (binMarks_wf hcl hlok) (equals_wf heok))

end

theorem cmpOrEquals_kept {cmpU : Value → Value → Res Value} {a b r : Value}
    (h : (do let l ← binMarks cmpU a b; let e ← equals a b; Value.or l e : Res Value) = .ok r) {m : String}
    (hm : m ∈ a.marksDeep ∨ m ∈ b.marksDeep) : m ∈ r.marks := by
  obtain ⟨l, _, h⟩ := bind_eq_ok' h
  obtain ⟨e, he, h⟩ := bind_eq_ok' h
  exact binMarks_top h (.inr (equals_deep he hm))

theorem cmpOrEquals_noinv {cmpU : Value → Value → Res Value} (hcl : ∀ x y, (cmpU x y).All Clean) {a b r : Value}
    (h : (do let l ← binMarks cmpU a b; let e ← equals a b; Value.or l e : Res Value) = .ok r) {m : String}
    (hm : m ∈ r.marksDeep) : m ∈ a.marksDeep ∨ m ∈ b.marksDeep := by
  obtain ⟨l, hl, h⟩ := bind_eq_ok' h
  obtain ⟨e, he, h⟩ := bind_eq_ok' h
  rcases binMarks_noinv (.of_clean orU_clean) h hm with h1 | h1
  · exact binMarks_noinv (.of_clean hcl) hl h1
  · exact equals_noinv he h1

theorem notEqual_kept {a b r : Value} (h : notEqual a b = .ok r) {m : String}
    (hm : m ∈ a.marksDeep ∨ m ∈ b.marksDeep) : m ∈ r.marks := by
  obtain ⟨e, he, h⟩ := bind_eq_ok' h
  exact unMarks_top h (equals_deep he hm)

theorem notEqual_noinv {a b r : Value} (h : notEqual a b = .ok r) {m : String} (hm : m ∈ r.marksDeep) :
    m ∈ a.marksDeep ∨ m ∈ b.marksDeep := by
  obtain ⟨e, he, h⟩ := bind_eq_ok' h
  exact equals_noinv he (unMarks_noinv (.of_clean notU_clean) h hm)

theorem notEqual_commutes (a b : Value) : (notEqual a b).map unmarkDeep = notEqual a.unmarkDeep b.unmarkDeep := by
  unfold notEqual
  apply Res.Rel.map_eq
  apply Res.Rel.bind' (Res.Rel.of_map_eq (equals_commutes a b))
  intro e e' he heok
  subst he
  exact Res.Rel.of_map_eq (unMarks_commutes commutes_notU (equals_wf heok))

end Value
end CtyModel

namespace CtyModel
open Value

/-- operand tuples as the API builds them -/
def ArgsWF (args : List Value) : Prop := ∀ a ∈ args, a.MarksWF

namespace Op

/-- NON-INTERFERENCE for every operation method: same outcome class (the very
same panic text, even) and, after `UnmarkDeep`, the same result as on the deeply
unmarked operands. -/
theorem run_commutes (op : Op) (args : List Value) (h : ArgsWF args) :
    (op.run args).map unmarkDeep = op.run (args.map unmarkDeep) := by
  rcases args with _ | ⟨a, _ | ⟨b, _ | ⟨c, rest⟩⟩⟩
  · cases op <;> rfl
  · have ha : a.MarksWF := h a (by simp)
    cases op <;> simp only [run, List.map] <;> try rfl
    · exact unMarks_commutes commutes_negU ha
    · exact unMarks_commutes commutes_absU ha
    · exact unMarks_commutes commutes_notU ha
    · exact unMarks_commutes commutes_lengthU ha
    · rename_i name
      rw [getAttr_eq, getAttr_eq]
      exact unMarks_commutes (commutes_getAttrU name) ha
  · have ha : a.MarksWF := h a (by simp)
    have hb : b.MarksWF := h b (by simp)
    cases op <;> simp only [run, List.map] <;> try rfl
    · exact equals_commutes a b
    · exact binMarks_commutes commutes_addU ha hb
    · exact binMarks_commutes commutes_subU ha hb
    · exact binMarks_commutes commutes_mulU ha hb
    · exact binMarks_commutes commutes_divU ha hb
    · exact binMarks_commutes commutes_modU ha hb
    · exact binMarks_commutes commutes_andU ha hb
    · exact binMarks_commutes commutes_orU ha hb
    · exact binMarks_commutes commutes_lessThanU ha hb
    · exact binMarks_commutes commutes_greaterThanU ha hb
    · exact binMarks_commutes commutes_indexU ha hb
    · exact binMarks_commutes commutes_hasIndexU ha hb
    · exact hasElement_commutes _ ha
    · exact notEqual_commutes a b
    · exact cmpOrEquals_commutes ha hb commutes_lessThanU lessThanU_clean
    · exact cmpOrEquals_commutes ha hb commutes_greaterThanU greaterThanU_clean
  · cases op <;> rfl

/-- NO LOSS: every promised mark of every operand (top-level marks; marks at every
depth for both operands of `Equals` and for the needle of `HasElement`) is on the result. -/
theorem run_kept (op : Op) (args : List Value) (r : Value) (h : op.run args = .ok r)
    (i : Nat) (a : Value) (hi : args[i]? = some a) (m : String) (hm : m ∈ op.promised i a) : m ∈ r.marks := by
  rcases args with _ | ⟨x, _ | ⟨y, _ | ⟨c, rest⟩⟩⟩
  · simp at hi
  · have hia : i = 0 ∧ a = x := by
      rcases i with _ | i <;> simp_all
    obtain ⟨rfl, rfl⟩ := hia
    cases op <;> simp only [run] at h <;> try (exact absurd h (by simp))
    all_goals simp only [promised] at hm
    · exact unMarks_top h hm
    · exact unMarks_top h hm
    · exact unMarks_top h hm
    · exact unMarks_top h hm
    · rw [getAttr_eq] at h; exact unMarks_top h hm
  · have hia : (i = 0 ∧ a = x) ∨ (i = 1 ∧ a = y) := by
      rcases i with _ | _ | i <;> simp_all
    cases op <;> simp only [run] at h <;> try (exact absurd h (by simp))
    all_goals rcases hia with ⟨rfl, rfl⟩ | ⟨rfl, rfl⟩ <;> simp only [promised] at hm
    all_goals first
      | exact equals_deep h (.inl hm)
      | exact equals_deep h (.inr hm)
      | exact notEqual_kept h (.inl hm)
      | exact notEqual_kept h (.inr hm)
      | exact cmpOrEquals_kept h (.inl hm)
      | exact cmpOrEquals_kept h (.inr hm)
      | exact hasElement_kept h (.inl hm)
      | exact hasElement_kept h (.inr hm)
      | exact binMarks_top h (.inl hm)
      | exact binMarks_top h (.inr hm)
  · cases op <;> simp [run] at h

/-- NO INVENTION: every mark anywhere in the result is somewhere in an operand. -/
theorem run_noinv (op : Op) (args : List Value) (r : Value) (h : op.run args = .ok r)
    (m : String) (hm : m ∈ r.marksDeep) : ∃ a ∈ args, m ∈ a.marksDeep := by
  rcases args with _ | ⟨x, _ | ⟨y, _ | ⟨c, rest⟩⟩⟩
  · cases op <;> simp [run] at h
  · refine ⟨x, by simp, ?_⟩
    cases op <;> simp only [run] at h <;> try (exact absurd h (by simp))
    · exact unMarks_noinv (.of_clean negU_clean) h hm
    · exact unMarks_noinv (.of_clean absU_clean) h hm
    · exact unMarks_noinv (.of_clean notU_clean) h hm
    · exact unMarks_noinv (.of_clean lengthU_clean) h hm
    · rw [getAttr_eq] at h; exact unMarks_noinv (noinv_getAttrU _) h hm
  · have key : m ∈ x.marksDeep ∨ m ∈ y.marksDeep := by
      cases op <;> simp only [run] at h <;> try (exact absurd h (by simp))
      · exact equals_noinv h hm
      · exact binMarks_noinv (.of_clean addU_clean) h hm
      · exact binMarks_noinv (.of_clean subU_clean) h hm
      · exact binMarks_noinv (.of_clean mulU_clean) h hm
      · exact binMarks_noinv (.of_clean divU_clean) h hm
      · exact binMarks_noinv noinv_modU h hm
      · exact binMarks_noinv (.of_clean andU_clean) h hm
      · exact binMarks_noinv (.of_clean orU_clean) h hm
      · exact binMarks_noinv (.of_clean lessThanU_clean) h hm
      · exact binMarks_noinv (.of_clean greaterThanU_clean) h hm
      · exact binMarks_noinv noinv_indexU h hm
      · exact binMarks_noinv (.of_clean hasIndexU_clean) h hm
      · exact hasElement_noinv h hm
      · exact notEqual_noinv h hm
      · exact cmpOrEquals_noinv lessThanU_clean h hm
      · exact cmpOrEquals_noinv greaterThanU_clean h hm
    rcases key with k | k
    · exact ⟨x, by simp, k⟩
    · exact ⟨y, by simp, k⟩
  · cases op <;> simp [run] at h

end Op
end CtyModel
