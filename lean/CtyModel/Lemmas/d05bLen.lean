/-
C05, slice d05b: a length constraint on a KNOWN collection whose length is not one number.

`b.orig.Length()` of a known set that holds an unknown member next to other members is not a known number: it is an
unknown number refined to `1 ≤ length ≤ stored members` (value coalescing can only reduce the count).  The model has
this as `knownLength` (possible lengths `(least, most)`; `least = most` for lists, maps, wholly-known and one-member
sets).  `CollectionLengthLowerBound(n)` compares `n > Length()` and panics when the answer is KNOWN and true, which
for the range means `n > most`; `CollectionLengthUpperBound(n)` panics when `n < least`.

This file proves, for every equality oracle (the oracle is not involved):

* a length constraint that excludes EVERY possible length of the known receiver panics — wherever it stands in a
  chain (`step_len_excluded_panics`, `run_len_excluded_rejected`);
* on the builder `Value.Refine()` returns for a known collection, a constraint that admits SOME possible length is
  accepted (`step_len_admitted_ok`), so the builder rejects exactly the excluded constraints
  (`step_len_fresh_iff`).
-/
import CtyModel.Lemmas.RefineBase
import CtyModel.Lemmas.d05Chain
namespace CtyModel
namespace Refine
namespace D05b

/-- the three calls that state a length constraint -/
def isLenCall : RefineCall → Bool
  | .lenLower _ | .lenUpper _ | .collectionLength _ => true
  | _ => false

/-- some possible length `l` of the receiver (`least ≤ l ≤ most`) satisfies the constraint -/
def admitsSomeLength (c : RefineCall) (least most : Nat) : Bool :=
  match c with
  | .lenLower n => decide (n ≤ (most : Int))
  | .lenUpper n => decide ((least : Int) ≤ n)
  | .collectionLength n => decide ((least : Int) ≤ n) && decide (n ≤ (most : Int))
  | _ => true

/-- `admitsSomeLength` says what its name says, in the vocabulary of the specification (`den`) -/
theorem admitsSomeLength_iff (c : RefineCall) (hc : isLenCall c = true) (least most : Nat) (hlm : least ≤ most) :
    admitsSomeLength c least most = true ↔ ∃ l : Nat, least ≤ l ∧ l ≤ most ∧ den c (.coll l) = true := by
  cases c <;> simp [isLenCall] at hc
  · rename_i n
    simp only [admitsSomeLength, den, decide_eq_true_eq]
    exact ⟨fun h => ⟨most, hlm, Nat.le_refl _, h⟩, fun ⟨l, _, h2, h3⟩ => by omega⟩
  · rename_i n
    simp only [admitsSomeLength, den, decide_eq_true_eq]
    exact ⟨fun h => ⟨least, Nat.le_refl _, hlm, h⟩, fun ⟨l, h1, _, h3⟩ => by omega⟩
  · rename_i n
    simp only [admitsSomeLength, den, Bool.and_eq_true, decide_eq_true_eq]
    constructor
    · intro ⟨h1, h2⟩
      refine ⟨n.toNat, by omega, by omega, by omega⟩
    · intro ⟨l, h1, h2, h3⟩
      omega

/-- the possible lengths the code computes are a range -/
theorem knownLength_le {v : Value} {least most : Nat} (h : knownLength v = .ok (least, most)) : least ≤ most := by
  obtain ⟨ty, p⟩ := v
  cases ty <;> cases p <;> simp only [knownLength] at h <;>
    try (first | (cases h; done) | (simp only [Res.ok.injEq, Prod.mk.injEq] at h; omega))
  rename_i e ids vs
  split at h
  · simp only [Res.ok.injEq, Prod.mk.injEq] at h; omega
  · rename_i hne
    simp only [Res.ok.injEq, Prod.mk.injEq] at h
    obtain ⟨rfl, rfl⟩ := h
    cases vs with
    | nil => simp [Payload.whollyKnownL] at hne
    | cons _ _ => simp

theorem stepLenLower_known_panics {b : Builder} {n : Int} {least most : Nat} (hk : b.orig.isKnown = true)
    (hl : knownLength b.orig = .ok (least, most)) (hn : (most : Int) < n) : ∃ w, stepLenLower b n = .panic w := by
  unfold stepLenLower
  split
  · simp only [hk, if_true, hl]
    rw [if_pos (by omega)]
    exact ⟨_, rfl⟩
  · exact ⟨_, rfl⟩

theorem stepLenUpper_known_panics {b : Builder} {n : Int} {least most : Nat} (hk : b.orig.isKnown = true)
    (hl : knownLength b.orig = .ok (least, most)) (hn : n < (least : Int)) : ∃ w, stepLenUpper b n = .panic w := by
  unfold stepLenUpper
  split
  · simp only [hk, if_true, hl]
    rw [if_pos (by omega)]
    exact ⟨_, rfl⟩
  · exact ⟨_, rfl⟩

/-- with a known receiver whose `Length()` is modelled, `CollectionLengthLowerBound` returns or panics -/
theorem stepLenLower_known_ok_or_panic {b : Builder} {n : Int} {least most : Nat} (hk : b.orig.isKnown = true)
    (hl : knownLength b.orig = .ok (least, most)) :
    (∃ b', stepLenLower b n = .ok b') ∨ ∃ w, stepLenLower b n = .panic w := by
  unfold stepLenLower
  split
  · simp only [hk, if_true, hl]
    split
    · exact .inr ⟨_, rfl⟩
    · split
      · exact .inl ⟨_, rfl⟩
      · split
        · exact .inr ⟨_, rfl⟩
        · exact .inl ⟨_, rfl⟩
  · exact .inr ⟨_, rfl⟩

section Any
variable [EqOracle]

/-- A length constraint that excludes every possible length of the known receiver PANICS (it is not merely "not
accepted"), whatever the builder has recorded so far. -/
theorem step_len_excluded_panics {b : Builder} {c : RefineCall} {least most : Nat} (hd : b.isDyn = false)
    (hk : b.orig.isKnown = true) (hl : knownLength b.orig = .ok (least, most)) (hc : isLenCall c = true)
    (hex : admitsSomeLength c least most = false) : ∃ w, step b c = .panic w := by
  unfold step
  rw [hd]
  simp only [Bool.false_eq_true, if_false]
  split
  · exact ⟨_, rfl⟩
  · cases c <;> simp [isLenCall] at hc
    · rename_i n
      simp only [admitsSomeLength, decide_eq_false_iff_not] at hex
      exact stepLenLower_known_panics hk hl (by omega)
    · rename_i n
      simp only [admitsSomeLength, decide_eq_false_iff_not] at hex
      exact stepLenUpper_known_panics hk hl (by omega)
    · rename_i n
      simp only [step1]
      by_cases hn : (most : Int) < n
      · obtain ⟨w, hw⟩ := stepLenLower_known_panics (n := n) hk hl hn
        exact ⟨w, by rw [hw]; rfl⟩
      · have hlt : n < (least : Int) := by
          simp only [admitsSomeLength, Bool.and_eq_false_iff, decide_eq_false_iff_not] at hex
          omega
        rcases stepLenLower_known_ok_or_panic (n := n) hk hl with ⟨b1, h1⟩ | ⟨w, hw⟩
        · have hb := (stepLenLower_base h1).1.1
          obtain ⟨w, hw⟩ := stepLenUpper_known_panics (b := b1) (n := n) (by rw [hb]; exact hk)
            (by rw [hb]; exact hl) hlt
          exact ⟨w, by rw [h1]; simp only [Res.bind]; exact hw⟩
        · exact ⟨w, by rw [hw]; rfl⟩

/-- … wherever it stands in a chain: the chain is never accepted. -/
theorem run_len_excluded_rejected {b : Builder} {c : RefineCall} {least most : Nat} (hd : b.isDyn = false)
    (hk : b.orig.isKnown = true) (hl : knownLength b.orig = .ok (least, most)) (hc : isLenCall c = true)
    (hex : admitsSomeLength c least most = false) (pre post : List RefineCall) (b' : Builder) :
    run b (pre ++ c :: post) ≠ .ok b' := by
  intro h
  rw [D05.run_append] at h
  cases h1 : run b pre with
  | ok b1 =>
    rw [h1] at h
    simp only [Res.bind, run] at h
    have hb := (run_base_any h1).1
    obtain ⟨w, hw⟩ := step_len_excluded_panics (b := b1) (c := c) (by rw [Builder.isDyn_congr hb]; exact hd)
      (by rw [hb.1]; exact hk) (by rw [hb.1]; exact hl) hc hex
    rw [hw] at h
    simp at h
  | err e => rw [h1] at h; simp [Res.bind] at h
  | panic w => rw [h1] at h; simp [Res.bind] at h
  | unmodelled => rw [h1] at h; simp [Res.bind] at h

/-- On a builder whose recorded length range does not cut the possible lengths (`lo ≤ least`, `most ≤ hi` — in
particular the builder `Refine()` returns, which records `0 … math.MaxInt`), a constraint that admits some possible
length is accepted. -/
theorem step_len_admitted_ok {b : Builder} {c : RefineCall} {least most : Nat} {nl : Tri} {lo hi : Int}
    (hd : b.isDyn = false) (hk : b.orig.isKnown = true) (hl : knownLength b.orig = .ok (least, most))
    (hw : b.wip = .coll nl lo hi) (hlo : lo ≤ (least : Int)) (hhi : (most : Int) ≤ hi)
    (hc : isLenCall c = true) (had : admitsSomeLength c least most = true) : ∃ b', step b c = .ok b' := by
  have hlm := knownLength_le hl
  have hu : b.wip ≠ .unref := by rw [hw]; simp
  have lower : ∀ {n : Int}, n ≤ (most : Int) →
      stepLenLower b n = .ok b ∨ (lo ≤ n ∧ stepLenLower b n = .ok { b with wip := .coll nl n hi }) := by
    intro n hn
    unfold stepLenLower
    rw [hw]
    simp only [hk, if_true, hl]
    rw [if_neg (by omega)]
    by_cases h1 : lo > n
    · left; rw [if_pos h1]
    · right; rw [if_neg h1, if_neg (by omega)]; exact ⟨by omega, rfl⟩
  have upper : ∀ {b1 : Builder} {lo1 : Int} {n : Int}, b1.orig = b.orig → b1.wip = .coll nl lo1 hi → lo1 ≤ n →
      (least : Int) ≤ n → ∃ b', stepLenUpper b1 n = .ok b' := by
    intro b1 lo1 n ho hw1 h1 h2
    unfold stepLenUpper
    rw [hw1]
    simp only [ho, hk, if_true, hl]
    rw [if_neg (by omega)]
    by_cases h3 : hi < n
    · rw [if_pos h3]; exact ⟨_, rfl⟩
    · rw [if_neg h3, if_neg (by omega)]; exact ⟨_, rfl⟩
  unfold step
  rw [hd]
  simp only [Bool.false_eq_true, if_false, hu]
  cases c <;> simp [isLenCall] at hc
  · rename_i n
    simp only [admitsSomeLength, decide_eq_true_eq] at had
    rcases lower had with h | ⟨_, h⟩ <;> exact ⟨_, h⟩
  · rename_i n
    simp only [admitsSomeLength, decide_eq_true_eq] at had
    exact upper rfl hw (by omega) had
  · rename_i n
    simp only [admitsSomeLength, Bool.and_eq_true, decide_eq_true_eq] at had
    simp only [step1]
    rcases lower had.2 with h | ⟨h0, h⟩
    · rw [h]; simp only [Res.bind]; exact upper rfl hw (by omega) had.1
    · rw [h]; simp only [Res.bind]; exact upper rfl rfl (Int.le_refl _) had.1

/-- EXACTLY: on the builder `Refine()` returns for a known collection (nothing recorded yet: `0 … math.MaxInt`), a
length constraint is accepted iff it admits some possible length of the receiver, and otherwise it panics. -/
theorem step_len_fresh_iff {b : Builder} {c : RefineCall} {least most : Nat} {nl : Tri}
    (hd : b.isDyn = false) (hk : b.orig.isKnown = true) (hl : knownLength b.orig = .ok (least, most))
    (hw : b.wip = .coll nl 0 maxInt) (hfit : (most : Int) ≤ maxInt) (hc : isLenCall c = true) :
    ((∃ b', step b c = .ok b') ↔ admitsSomeLength c least most = true) ∧
    ((∃ w, step b c = .panic w) ↔ admitsSomeLength c least most = false) := by
  cases had : admitsSomeLength c least most with
  | true =>
    obtain ⟨b', h⟩ := step_len_admitted_ok hd hk hl hw (by omega) hfit hc had
    refine ⟨⟨fun _ => rfl, fun _ => ⟨b', h⟩⟩, ⟨fun ⟨w, hw'⟩ => ?_, fun h' => by cases h'⟩⟩
    rw [h] at hw'; cases hw'
  | false =>
    obtain ⟨w, h⟩ := step_len_excluded_panics hd hk hl hc had
    refine ⟨⟨fun ⟨b', hb'⟩ => ?_, fun h' => by cases h'⟩, ⟨fun _ => rfl, fun _ => ⟨w, h⟩⟩⟩
    rw [h] at hb'; cases hb'

end Any

end D05b
end Refine
end CtyModel
