/-
Carrier-relative lawfulness for the generic hash-bucket set (`SetImpl`).

`Rules.Lawful` (Lemmas/SetRefineInv) quantifies over EVERY `a : α`.  For cty's
own `setRules` over raw payloads that is unsatisfiable (an unknown member is not
`Equals`-true to itself, an ill-typed payload makes `Equals` panic), so every
theorem that assumes `(setRules E ety).Lawful` is vacuous.  Here the contract is
relativised to a carrier `P : α → Prop` (`Rules.LawfulOn`): the laws are asked
only of members that satisfy `P`.

The bridge is a morphism argument, generic in `α`: for `f : β → α`, every
operation of `SetImpl` under `R` on `f`-images is the `f`-image of the same
operation under `R.pull f` (`add_mapS`, `has_mapS`, `iter_mapS`, `union_mapS`, …).
With `f = Subtype.val : {a // P a} → α` the pulled-back rules are `Lawful` in the
old, global sense (`LawfulOn.pull`), so every C03 refinement theorem applies on
the subtype and is carried back (`fromList_lift`, `inv_mapS`, `abs_mapS`).
-/
import CtyModel.Lemmas.SetRefineAlg
namespace CtyModel

/-- `R` seen through `f : β → α` -/
def Rules.pull {α β : Type} (R : Rules α) (f : β → α) : Rules β where
  hash := fun x => R.hash (f x)
  equiv := fun a b => R.equiv (f a) (f b)
  less := R.less.map fun l a b => l (f a) (f b)

/-- the contract of `cty/set/rules.go`, asked only of members in the carrier `P` -/
structure Rules.LawfulOn {α : Type} (R : Rules α) (P : α → Prop) : Prop where
  refl : ∀ a, P a → R.equiv a a = true
  symm : ∀ a b, P a → P b → R.equiv a b = true → R.equiv b a = true
  trans : ∀ a b c, P a → P b → P c → R.equiv a b = true → R.equiv b c = true → R.equiv a c = true
  hash_eq : ∀ a b, P a → P b → R.equiv a b = true → R.hash a = R.hash b

theorem Rules.LawfulOn.pull {α : Type} {R : Rules α} {P : α → Prop} (h : R.LawfulOn P) :
    (R.pull (Subtype.val : {a // P a} → α)).Lawful :=
  ⟨fun a => h.refl a.1 a.2, fun a b => h.symm a.1 b.1 a.2 b.2,
   fun a b c => h.trans a.1 b.1 c.1 a.2 b.2 c.2, fun a b => h.hash_eq a.1 b.1 a.2 b.2⟩

/-- global lawfulness is lawfulness on the trivial carrier -/
theorem Rules.Lawful.on {α : Type} {R : Rules α} (h : R.Lawful) (P : α → Prop) : R.LawfulOn P :=
  ⟨fun a _ => h.refl a, fun a b _ _ => h.symm a b, fun a b c _ _ _ => h.trans a b c,
   fun a b _ _ => h.hash_eq a b⟩

theorem Rules.LawfulOn.mono {α : Type} {R : Rules α} {P Q : α → Prop} (h : R.LawfulOn P)
    (hq : ∀ a, Q a → P a) : R.LawfulOn Q :=
  ⟨fun a ha => h.refl a (hq a ha), fun a b ha hb => h.symm a b (hq a ha) (hq b hb),
   fun a b c ha hb hc => h.trans a b c (hq a ha) (hq b hb) (hq c hc),
   fun a b ha hb => h.hash_eq a b (hq a ha) (hq b hb)⟩

namespace SetImpl
variable {α β : Type}

/-- the image of a set representation under `f` (bucket ids kept) -/
def mapS (f : β → α) (s : SetImpl β) : SetImpl α :=
  ⟨s.buckets.map fun kv => (kv.1, kv.2.map f)⟩

abbrev mapB (f : β → α) (kv : Int × List β) : Int × List α := (kv.1, kv.2.map f)

theorem mapS_buckets (f : β → α) (s : SetImpl β) : (mapS f s).buckets = s.buckets.map (mapB f) := rfl

theorem lookup_mapB (f : β → α) : ∀ (bs : List (Int × List β)) (h : Int),
    lookup (bs.map (mapB f)) h = (lookup bs h).map (List.map f)
  | [], _ => rfl
  | (k, b) :: rest, h => by
    simp only [List.map_cons, lookup, mapB]
    split
    · rfl
    · exact lookup_mapB f rest h

theorem setBucket_mapB (f : β → α) : ∀ (bs : List (Int × List β)) (h : Int) (b : List β),
    setBucket (bs.map (mapB f)) h (b.map f) = (setBucket bs h b).map (mapB f)
  | [], _, _ => rfl
  | (k, c) :: rest, h, b => by
    simp only [List.map_cons, setBucket, mapB]
    split
    · rfl
    · split
      · rfl
      · simp only [List.map_cons, mapB]
        rw [← setBucket_mapB f rest h b]

theorem any_map_pull (R : Rules α) (f : β → α) (x : β) (l : List β) :
    (l.map f).any (fun ev => R.equiv (f x) ev) = l.any (fun ev => (R.pull f).equiv x ev) := by
  simp [List.any_map, Rules.pull, Function.comp_def]

theorem add_mapS (R : Rules α) (f : β → α) (s : SetImpl β) (x : β) :
    add R (mapS f s) (f x) = mapS f (add (R.pull f) s x) := by
  have hh : (R.pull f).hash x = R.hash (f x) := rfl
  simp only [add, mapS_buckets, lookup_mapB, hh]
  cases hl : lookup s.buckets (R.hash (f x)) with
  | none =>
    simp only [Option.map_none, Option.getD_none, List.any_nil, Bool.false_eq_true, if_false, List.nil_append]
    show (⟨setBucket (s.buckets.map (mapB f)) (R.hash (f x)) ([x].map f)⟩ : SetImpl α) = _
    rw [setBucket_mapB]; rfl
  | some b =>
    simp only [Option.map_some, Option.getD_some, any_map_pull]
    split
    · rfl
    · show (⟨setBucket (s.buckets.map (mapB f)) (R.hash (f x)) (b.map f ++ [f x])⟩ : SetImpl α) = _
      rw [show b.map f ++ [f x] = (b ++ [x]).map f by simp, setBucket_mapB]; rfl

theorem has_mapS (R : Rules α) (f : β → α) (s : SetImpl β) (x : β) :
    has R (mapS f s) (f x) = has (R.pull f) s x := by
  have hh : (R.pull f).hash x = R.hash (f x) := rfl
  simp only [has, mapS_buckets, lookup_mapB, hh]
  cases hl : lookup s.buckets (R.hash (f x)) with
  | none => rfl
  | some b => simp only [Option.map_some, any_map_pull]

theorem values_mapS (f : β → α) (s : SetImpl β) : values (mapS f s) = (values s).map f := by
  simp only [values, mapS_buckets]
  generalize s.buckets = bs
  induction bs with
  | nil => rfl
  | cons p rest ih => simp [List.flatMap_cons, ih]

theorem insertBack_map (less : α → α → Bool) (f : β → α) (x : β) : ∀ acc : List β,
    insertBack less (f x) (acc.map f) = (insertBack (fun a b => less (f a) (f b)) x acc).map f
  | [] => rfl
  | y :: ys => by
    simp only [List.map_cons, insertBack]
    split
    · simp only [List.map_cons]; rw [insertBack_map less f x ys]
    · rfl

theorem sortStable_map (less : α → α → Bool) (f : β → α) (l : List β) :
    sortStable less (l.map f) = (sortStable (fun a b => less (f a) (f b)) l).map f := by
  simp only [sortStable, List.map_reverse]
  congr 1
  suffices h : ∀ acc : List β,
      (l.map f).foldl (fun acc x => insertBack less x acc) (acc.map f) =
        (l.foldl (fun acc x => insertBack (fun a b => less (f a) (f b)) x acc) acc).map f from h []
  induction l with
  | nil => intro acc; rfl
  | cons x xs ih =>
    intro acc
    simp only [List.map_cons, List.foldl_cons]
    rw [insertBack_map, ih]

theorem iter_mapS (R : Rules α) (f : β → α) (s : SetImpl β) :
    iter R (mapS f s) = (iter (R.pull f) s).map f := by
  simp only [iter, Rules.pull]
  cases R.less with
  | none => simp [values_mapS]
  | some less => simp [valuesSorted, values_mapS, sortStable_map]

theorem addWhere_mapS (R : Rules α) (f : β → α) (p : α → Bool) : ∀ (l : List β) (rs : SetImpl β),
    addWhere R p (mapS f rs) (l.map f) = mapS f (addWhere (R.pull f) (fun v => p (f v)) rs l)
  | [], _ => rfl
  | v :: l, rs => by
    simp only [List.map_cons, addWhere, List.foldl_cons]
    by_cases hp : p (f v) = true
    · simp only [hp, if_true]
      rw [add_mapS]
      exact addWhere_mapS R f p l _
    · simp only [hp, if_false, Bool.false_eq_true]
      exact addWhere_mapS R f p l rs

theorem empty_mapS (f : β → α) : mapS f (empty : SetImpl β) = empty := rfl

theorem fromList_mapS (R : Rules α) (f : β → α) (l : List β) :
    fromList R (l.map f) = mapS f (fromList (R.pull f) l) := by
  simp only [fromList]
  rw [← empty_mapS f, addWhere_mapS]

theorem union_mapS (R : Rules α) (f : β → α) (s1 s2 : SetImpl β) :
    union R (mapS f s1) (mapS f s2) = mapS f (union (R.pull f) s1 s2) := by
  simp only [union, iter_mapS]
  rw [← empty_mapS f, addWhere_mapS, addWhere_mapS]

theorem intersection_mapS (R : Rules α) (f : β → α) (s1 s2 : SetImpl β) :
    intersection R (mapS f s1) (mapS f s2) = mapS f (intersection (R.pull f) s1 s2) := by
  simp only [intersection, iter_mapS]
  rw [← empty_mapS f, addWhere_mapS]
  simp only [has_mapS]

theorem subtract_mapS (R : Rules α) (f : β → α) (s1 s2 : SetImpl β) :
    subtract R (mapS f s1) (mapS f s2) = mapS f (subtract (R.pull f) s1 s2) := by
  simp only [subtract, iter_mapS]
  rw [← empty_mapS f, addWhere_mapS]
  simp only [has_mapS]

theorem symmetricDifference_mapS (R : Rules α) (f : β → α) (s1 s2 : SetImpl β) :
    symmetricDifference R (mapS f s1) (mapS f s2) = mapS f (symmetricDifference (R.pull f) s1 s2) := by
  simp only [symmetricDifference, iter_mapS]
  rw [← empty_mapS f, addWhere_mapS, addWhere_mapS]
  simp only [has_mapS]

/-! ### the invariant and the abstraction through `mapS` -/

theorem asc_mapB (f : β → α) (bs : List (Int × List β)) : Asc (bs.map (mapB f)) ↔ Asc bs := by
  simp only [Asc, List.pairwise_map]

theorem inv_mapS (R : Rules α) (f : β → α) (s : SetImpl β) : Inv R (mapS f s) ↔ Inv (R.pull f) s := by
  constructor
  · intro h
    refine ⟨(asc_mapB f _).mp h.asc, ?_, ?_, ?_⟩
    · intro p hp hnil
      exact h.nonempty (mapB f p) (List.mem_map.mpr ⟨p, hp, rfl⟩) (by simp [hnil])
    · intro p hp m hm
      exact h.hashed (mapB f p) (List.mem_map.mpr ⟨p, hp, rfl⟩) (f m) (List.mem_map.mpr ⟨m, hm, rfl⟩)
    · have := h.nodup
      rw [values_mapS] at this
      simp only [Inequiv, List.pairwise_map] at this
      exact this
  · intro h
    refine ⟨(asc_mapB f _).mpr h.asc, ?_, ?_, ?_⟩
    · intro p hp
      obtain ⟨q, hq, rfl⟩ := List.mem_map.mp hp
      have := h.nonempty q hq
      simpa [mapB] using this
    · intro p hp m hm
      obtain ⟨q, hq, rfl⟩ := List.mem_map.mp hp
      obtain ⟨m', hm', rfl⟩ := List.mem_map.mp hm
      exact h.hashed q hq m' hm'
    · rw [values_mapS]
      simp only [Inequiv, List.pairwise_map]
      exact h.nodup

theorem abs_mapS (R : Rules α) (f : β → α) (s : SetImpl β) (y : β) :
    abs R (mapS f s) (f y) ↔ abs (R.pull f) s y := by
  simp only [abs, values_mapS, List.mem_map]
  constructor
  · rintro ⟨m, ⟨m', hm', rfl⟩, he⟩; exact ⟨m', hm', he⟩
  · rintro ⟨m', hm', he⟩; exact ⟨f m', ⟨m', hm', rfl⟩, he⟩

theorem length_mapS (f : β → α) (s : SetImpl β) : length (mapS f s) = length s := by
  rw [length_eq_values_length, length_eq_values_length, values_mapS, List.length_map]

/-! ### lifting a list into the carrier -/

/-- the elements of `l`, each with the proof that it lies in the carrier -/
def liftL {P : α → Prop} (l : List α) (h : ∀ x ∈ l, P x) : List {a // P a} := l.pmap Subtype.mk h

theorem liftL_val {P : α → Prop} (l : List α) (h : ∀ x ∈ l, P x) : (liftL l h).map Subtype.val = l := by
  simp [liftL, List.map_pmap]

theorem mem_liftL {P : α → Prop} {l : List α} {h : ∀ x ∈ l, P x} {x : {a // P a}} :
    x ∈ liftL l h ↔ x.1 ∈ l := by
  simp only [liftL, List.mem_pmap]
  constructor
  · rintro ⟨a, ha, rfl⟩; exact ha
  · intro hx; exact ⟨x.1, hx, rfl⟩

end SetImpl
end CtyModel
