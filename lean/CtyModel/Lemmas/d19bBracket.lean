/-
d19b — `Enter` / `Exit` are properly nested, for EVERY transformer.

Whatever the two methods of a `Transformer` do — replace values by values of any
shape, fail, panic, depend on the calls made so far — the calls `transform` makes
form a bracket sequence: `Exit(p, ·)` is only ever called for the most recent
`Enter(p, ·)` that is still open, with the same path.  A run that succeeds leaves
nothing open; a run that fails stops with exactly the `Enter`s on the way to the
failure open (an `Enter` that fails stays open; an `Exit` that fails has closed its
`Enter`).
-/
import CtyModel.Lemmas.d19bVisits
namespace CtyModel
namespace Walk
open Value

/-- run a list of events against the stack of open `Enter` paths -/
def brk : List Ev → List Path → Option (List Path)
  | [], st => some st
  | .enter p _ :: es, st => brk es (p :: st)
  | .exit p _ :: es, st =>
    match st with
    | q :: st' => if q = p then brk es st' else none
    | [] => none

/-- `evs` is a bracket sequence from any stack; it returns to the stack when `ok`, and
in any case only adds to it -/
def Brk (evs : List Ev) (ok : Bool) : Prop :=
  ∀ st, ∃ st', brk evs st = some st' ∧ (ok = true → st' = st) ∧ ∃ pre, st' = pre ++ st

theorem brk_append : ∀ (a b : List Ev) (st : List Path), brk (a ++ b) st = (brk a st).bind (brk b)
  | [], b, st => rfl
  | .enter p v :: a, b, st => by simp [brk, brk_append a b]
  | .exit p v :: a, b, st => by
    cases st with
    | nil => simp [brk]
    | cons q st' =>
      by_cases h : q = p
      · simp [brk, h, brk_append a b]
      · simp [brk, h]

theorem Brk.nil (ok : Bool) : Brk [] ok := fun st => ⟨st, rfl, fun _ => rfl, [], rfl⟩

theorem Brk.weaken {evs : List Ev} {ok : Bool} (h : Brk evs ok) : Brk evs false := fun st => by
  obtain ⟨st', h1, _, h3⟩ := h st
  exact ⟨st', h1, (fun h => by cases h), h3⟩

theorem Brk.append {a b : List Ev} {ok : Bool} (ha : Brk a true) (hb : Brk b ok) : Brk (a ++ b) ok := fun st => by
  obtain ⟨sa, h1, h2, _⟩ := ha st
  have := h2 rfl
  subst this
  obtain ⟨sb, h4, h5, h6⟩ := hb sa
  exact ⟨sb, by rw [brk_append, h1]; exact h4, h5, h6⟩

/-- an opening `Enter`, a returning middle, and then anything that only adds -/
theorem Brk.enter_then {p : Path} {v : Value} {evs : List Ev} {ok : Bool} (h : Brk evs ok) :
    Brk (.enter p v :: evs) false := fun st => by
  obtain ⟨st', h1, _, pre, h3⟩ := h (p :: st)
  exact ⟨st', by simpa [brk] using h1, (fun h => by cases h), pre ++ [p], by simp [h3]⟩

theorem Brk.enter_exit {p : Path} {v w : Value} {evs : List Ev} (h : Brk evs true) (ok : Bool) :
    Brk (.enter p v :: (evs ++ [.exit p w])) ok := fun st => by
  obtain ⟨st', h1, h2, _⟩ := h (p :: st)
  have := h2 rfl
  subst this
  refine ⟨st, ?_, fun _ => rfl, [], rfl⟩
  simp [brk, brk_append, h1]

/-- what a recursive call is assumed / shown to do to the log -/
def LogBrk {α : Type} (log : List Ev) (r : List Ev × Res α) : Prop :=
  ∃ evs, r.1 = log ++ evs ∧ Brk evs r.2.isOk

theorem transformKids_brk (rec' : TRec) (hrec : ∀ log path v, LogBrk log (rec' log path v)) (path : Path) :
    ∀ (cs : List (PathStep × Value)) (log : List Ev), LogBrk log (transformKids rec' log path cs)
  | [], log => ⟨[], by simp [transformKids], Brk.nil _⟩
  | (s, c) :: rest, log => by
    obtain ⟨e1, h1, b1⟩ := hrec log (path ++ [s]) c
    simp only [transformKids]
    rcases hr : rec' log (path ++ [s]) c with ⟨l1, r1⟩
    rw [hr] at h1 b1
    simp only at h1 b1
    cases r1 with
    | ok nv =>
      obtain ⟨e2, h2, b2⟩ := transformKids_brk rec' hrec path rest l1
      simp only
      rcases hk : transformKids rec' l1 path rest with ⟨l2, r2⟩
      rw [hk] at h2 b2
      simp only at h2 b2
      have b1' : Brk e1 true := b1
      cases r2 with
      | ok nvs => exact ⟨e1 ++ e2, by simp [h2, h1, List.append_assoc], b1'.append b2⟩
      | err c => exact ⟨e1 ++ e2, by simp [h2, h1, List.append_assoc], b1'.append b2⟩
      | panic w => exact ⟨e1 ++ e2, by simp [h2, h1, List.append_assoc], b1'.append b2⟩
      | unmodelled => exact ⟨e1 ++ e2, by simp [h2, h1, List.append_assoc], b1'.append b2⟩
    | err c => exact ⟨e1, h1, b1⟩
    | panic w => exact ⟨e1, h1, b1⟩
    | unmodelled => exact ⟨e1, h1, b1⟩

/-- the `switch` of `transform` adds the events of ONE member loop (or none) -/
theorem kidsMatch_brk {log : List Ev} (tk : List Ev × Res (List Value)) (h : LogBrk log tk)
    (f : List Value → Res Value) :
    LogBrk log (match tk with
      | (log, .ok elems) => (log, f elems)
      | (log, r) => liftRes log r) := by
  obtain ⟨evs, h1, b⟩ := h
  rcases tk with ⟨l, r⟩
  simp only at h1 b
  cases r with
  | ok elems =>
    refine ⟨evs, h1, ?_⟩
    show Brk evs (f elems).isOk
    cases f elems
    · exact b
    · exact b.weaken
    · exact b.weaken
    · exact b.weaken
  | err c => exact ⟨evs, h1, b⟩
  | panic w => exact ⟨evs, h1, b⟩
  | unmodelled => exact ⟨evs, h1, b⟩

theorem LogBrk.same {α : Type} (log : List Ev) (r : Res α) : LogBrk log (log, r) :=
  ⟨[], by simp, Brk.nil _⟩

theorem rebuild_brk (X : SetOracle) (σ : Sched) (rec' : TRec)
    (hrec : ∀ log path v, LogBrk log (rec' log path v)) (log : List Ev) (path : Path) (val : Value) :
    LogBrk log (rebuild X σ rec' log path val) := by
  have hk := fun cs => transformKids_brk rec' hrec path cs log
  unfold rebuild
  simp only
  split
  · exact LogBrk.same _ _
  · split
    · split
      · exact LogBrk.same _ _
      · exact kidsMatch_brk _ (hk _) _
    · split
      · exact LogBrk.same _ _
      · exact kidsMatch_brk _ (hk _) _
    · split
      · exact LogBrk.same _ _
      · exact kidsMatch_brk _ (hk _) (fun elems => .ok _)
    · split
      · exact LogBrk.same _ _
      · exact kidsMatch_brk _ (hk _) _
    · split
      · exact LogBrk.same _ _
      · exact kidsMatch_brk _ (hk _) (fun nvs => .ok _)
    · exact LogBrk.same _ _

/-- **every run of `transform` is a bracket sequence** -/
theorem transformFuel_brk (X : SetOracle) (σ : Sched) (t : Transformer) :
    ∀ (f : Nat) (log : List Ev) (path : Path) (v : Value), LogBrk log (transformFuel X σ t f log path v)
  | 0, log, _, _ => LogBrk.same _ _
  | f + 1, log, path, v0 => by
    simp only [transformFuel]
    split
    · rename_i val _
      obtain ⟨evs, h1, b⟩ := rebuild_brk X σ (transformFuel X σ t f) (transformFuel_brk X σ t f)
        (log ++ [.enter path v0]) path val
      rcases hr : rebuild X σ (transformFuel X σ t f) (log ++ [.enter path v0]) path val with ⟨l, r⟩
      rw [hr] at h1 b
      simp only at h1 b
      rw [hr]
      cases r with
      | ok newVal =>
        have b' : Brk evs true := b
        dsimp only
        cases t.exit l path newVal <;>
          exact ⟨.enter path v0 :: (evs ++ [.exit path newVal]), by simp [h1, List.append_assoc],
            Brk.enter_exit b' _⟩
      | err c => exact ⟨.enter path v0 :: evs, by simp [h1, List.append_assoc], b.enter_then⟩
      | panic w => exact ⟨.enter path v0 :: evs, by simp [h1, List.append_assoc], b.enter_then⟩
      | unmodelled => exact ⟨.enter path v0 :: evs, by simp [h1, List.append_assoc], b.enter_then⟩
    · exact ⟨[.enter path v0], rfl, (Brk.nil true).enter_then⟩
    · exact ⟨[.enter path v0], rfl, (Brk.nil true).enter_then⟩
    · exact ⟨[.enter path v0], rfl, (Brk.nil true).enter_then⟩

end Walk
end CtyModel
