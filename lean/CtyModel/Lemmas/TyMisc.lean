/- Placeholder occurrence, optional-annotation erasure, matches = fill. -/
import CtyModel.Lemmas.TyConform
namespace CtyModel
namespace Ty

/-! ### HasDynamicTypes -/
mutual
theorem hasDyn_occurs : ∀ t : Ty, hasDyn t = true → Occurs t
  | .dyn, _ => .here
  | .bool, h | .number, h | .string, h | .capsule _, h => by simp [hasDyn] at h
  | .list e, h => .list (hasDyn_occurs e (by simpa [hasDyn] using h))
  | .set e, h => .set (hasDyn_occurs e (by simpa [hasDyn] using h))
  | .map e, h => .map (hasDyn_occurs e (by simpa [hasDyn] using h))
  | .tuple es, h => by
    obtain ⟨e, he, ho⟩ := hasDynL_occurs es (by simpa [hasDyn] using h)
    exact .tuple he ho
  | .object _ ts _, h => by
    obtain ⟨e, he, ho⟩ := hasDynL_occurs ts (by simpa [hasDyn] using h)
    exact .object he ho
theorem hasDynL_occurs : ∀ ts : List Ty, hasDynL ts = true → ∃ e ∈ ts, Occurs e
  | [], h => by simp [hasDynL] at h
  | t :: ts, h => by
    simp only [hasDynL, Bool.or_eq_true] at h
    rcases h with h | h
    · exact ⟨t, by simp, hasDyn_occurs t h⟩
    · obtain ⟨e, he, ho⟩ := hasDynL_occurs ts h
      exact ⟨e, List.mem_cons_of_mem _ he, ho⟩
end

theorem hasDynL_of_mem {ts : List Ty} {e : Ty} (he : e ∈ ts) (h : hasDyn e = true) :
    hasDynL ts = true := by
  induction ts with
  | nil => simp at he
  | cons t ts ih =>
    simp only [hasDynL, Bool.or_eq_true]
    rcases List.mem_cons.mp he with rfl | he
    · exact .inl h
    · exact .inr (ih he)

theorem occurs_hasDyn {t : Ty} (h : Occurs t) : hasDyn t = true := by
  induction h with
  | here => simp [hasDyn]
  | list _ ih | set _ ih | map _ ih => simpa [hasDyn] using ih
  | tuple he _ ih => simpa [hasDyn] using hasDynL_of_mem he ih
  | object he _ ih => simpa [hasDyn] using hasDynL_of_mem he ih

/-! ### WithoutOptionalAttributesDeep -/
theorem stripOptL_length : ∀ ts : List Ty, (stripOptL ts).length = ts.length
  | [] => rfl
  | _ :: ts => by simp [stripOptL, stripOptL_length ts]

mutual
theorem stripOpt_idem : ∀ t : Ty, stripOpt (stripOpt t) = stripOpt t
  | .bool | .number | .string | .dyn | .capsule _ => by simp [stripOpt]
  | .list e | .set e | .map e => by simp [stripOpt, stripOpt_idem e]
  | .tuple es => by simp [stripOpt, stripOptL_idem es]
  | .object ns ts os => by simp [stripOpt, stripOptL_idem ts, Function.comp_def]
theorem stripOptL_idem : ∀ ts : List Ty, stripOptL (stripOptL ts) = stripOptL ts
  | [] => rfl
  | t :: ts => by simp [stripOptL, stripOpt_idem t, stripOptL_idem ts]
end

mutual
theorem stripOpt_noOpt : ∀ t : Ty, hasOpt (stripOpt t) = false
  | .bool | .number | .string | .dyn | .capsule _ => by simp [stripOpt, hasOpt]
  | .list e | .set e | .map e => by simp [stripOpt, hasOpt, stripOpt_noOpt e]
  | .tuple es => by simp [stripOpt, hasOpt, stripOptL_noOpt es]
  | .object ns ts os => by simp [stripOpt, hasOpt, stripOptL_noOpt ts]
theorem stripOptL_noOpt : ∀ ts : List Ty, hasOptL (stripOptL ts) = false
  | [] => rfl
  | t :: ts => by simp [stripOptL, hasOptL, stripOpt_noOpt t, stripOptL_noOpt ts]
end

theorem map_false_of_not_any : ∀ (os : List Bool), os.any id = false → os.map (fun _ => false) = os
  | [], _ => rfl
  | o :: os, h => by
    simp only [List.any_cons, id, Bool.or_eq_false_iff] at h
    simp [h.1, map_false_of_not_any os h.2]

/-! erasure changes nothing in a type that carries no optional annotation -/
mutual
theorem stripOpt_id_of_noOpt : ∀ t : Ty, hasOpt t = false → stripOpt t = t
  | .bool, _ | .number, _ | .string, _ | .dyn, _ | .capsule _, _ => by simp [stripOpt]
  | .list e, h | .set e, h | .map e, h => by
    simp [stripOpt, stripOpt_id_of_noOpt e (by simpa [hasOpt] using h)]
  | .tuple es, h => by simp [stripOpt, stripOptL_id_of_noOpt es (by simpa [hasOpt] using h)]
  | .object ns ts os, h => by
    simp only [hasOpt, Bool.or_eq_false_iff] at h
    simp [stripOpt, stripOptL_id_of_noOpt ts h.2, map_false_of_not_any os h.1]
theorem stripOptL_id_of_noOpt : ∀ ts : List Ty, hasOptL ts = false → stripOptL ts = ts
  | [], _ => rfl
  | t :: ts, h => by
    simp only [hasOptL, Bool.or_eq_false_iff] at h
    simp [stripOptL, stripOpt_id_of_noOpt t h.1, stripOptL_id_of_noOpt ts h.2]
end

/-! erasure leaves everything but the annotations alone: the erased type matches
the original, and the original matches the erased one (`matches` ignores exactly
the annotations), and placeholders / capsules are untouched. -/
mutual
theorem stripOpt_matches : ∀ t : Ty, «matches» (stripOpt t) t = true ∧ «matches» t (stripOpt t) = true
  | .bool | .number | .string | .dyn | .capsule _ => by simp [stripOpt, «matches»]
  | .list e | .set e | .map e => by simpa [stripOpt, «matches»] using stripOpt_matches e
  | .tuple es => by simpa [stripOpt, «matches»] using stripOptL_matches es
  | .object ns ts os => by simpa [stripOpt, «matches»] using stripOptL_matches ts
theorem stripOptL_matches : ∀ ts : List Ty,
    matchesL (stripOptL ts) ts = true ∧ matchesL ts (stripOptL ts) = true
  | [] => by simp [stripOptL, matchesL]
  | t :: ts => by
    simp [stripOptL, matchesL, (stripOpt_matches t).1, (stripOpt_matches t).2,
      (stripOptL_matches ts).1, (stripOptL_matches ts).2]
end

mutual
theorem stripOpt_hasDyn : ∀ t : Ty, hasDyn (stripOpt t) = hasDyn t
  | .bool | .number | .string | .dyn | .capsule _ => by simp [stripOpt]
  | .list e | .set e | .map e => by simp [stripOpt, hasDyn, stripOpt_hasDyn e]
  | .tuple es => by simp [stripOpt, hasDyn, stripOptL_hasDyn es]
  | .object ns ts os => by simp [stripOpt, hasDyn, stripOptL_hasDyn ts]
theorem stripOptL_hasDyn : ∀ ts : List Ty, hasDynL (stripOptL ts) = hasDynL ts
  | [] => rfl
  | t :: ts => by simp [stripOptL, hasDynL, stripOpt_hasDyn t, stripOptL_hasDyn ts]
end

/-! ### matches = equal after filling placeholders and erasing annotations -/
theorem fillL_length : ∀ (cs ts : List Ty), (fillL cs ts).length = cs.length
  | [], _ => by simp [fillL]
  | _ :: _, [] => by simp [fillL]
  | _ :: cs, _ :: ts => by simp [fillL, fillL_length cs ts]

mutual
theorem matches_iff_fill : ∀ (c t : Ty), wf c = true → wf t = true →
    («matches» c t = true ↔ stripOpt (fill c t) = stripOpt t)
  | .dyn, t, _, _ => by simp [«matches», fill]
  | .bool, t, _, _ => by cases t <;> simp [«matches», fill, stripOpt]
  | .number, t, _, _ => by cases t <;> simp [«matches», fill, stripOpt]
  | .string, t, _, _ => by cases t <;> simp [«matches», fill, stripOpt]
  | .capsule i, t, _, _ => by cases t <;> simp [«matches», fill, stripOpt]
  | .list c, t, hc, ht => by
    cases t <;> simp [«matches», fill, stripOpt]
    simp only [wf] at hc ht; exact matches_iff_fill c _ hc ht
  | .set c, t, hc, ht => by
    cases t <;> simp [«matches», fill, stripOpt]
    simp only [wf] at hc ht; exact matches_iff_fill c _ hc ht
  | .map c, t, hc, ht => by
    cases t <;> simp [«matches», fill, stripOpt]
    simp only [wf] at hc ht; exact matches_iff_fill c _ hc ht
  | .tuple cs, t, hc, ht => by
    cases t <;> simp [«matches», fill, stripOpt]
    simp only [wf] at hc ht; exact matchesL_iff_fill cs _ hc ht
  | .object cn ct co, t, hc, ht => by
    cases t <;> simp [«matches», fill, stripOpt]
    rename_i tn tt to
    simp only [wf, Bool.and_eq_true, beq_iff_eq] at hc ht
    obtain ⟨⟨⟨l1, l1'⟩, _⟩, w1⟩ := hc
    obtain ⟨⟨⟨l2, l2'⟩, _⟩, w2⟩ := ht
    rw [matchesL_iff_fill ct tt w1 w2]
    intro _
    constructor
    · intro h
      refine ⟨h, ?_⟩
      have hl := congrArg List.length h
      simp only [stripOptL_length] at hl
      have hf := fillL_length ct tt
      apply List.ext_getElem
      · simp; omega
      · simp
    · rintro ⟨h, _⟩; exact h
theorem matchesL_iff_fill : ∀ (cs ts : List Ty), wfL cs = true → wfL ts = true →
    (matchesL cs ts = true ↔ stripOptL (fillL cs ts) = stripOptL ts)
  | [], [], _, _ => by simp [matchesL, fillL, stripOptL]
  | [], _ :: _, _, _ => by simp [matchesL, fillL, stripOptL]
  | _ :: _, [], _, _ => by simp [matchesL, fillL, stripOptL]
  | c :: cs, t :: ts, hc, ht => by
    simp only [wfL, Bool.and_eq_true] at hc ht
    simp only [matchesL, fillL, stripOptL, Bool.and_eq_true, List.cons.injEq]
    rw [matches_iff_fill c t hc.1 ht.1, matchesL_iff_fill cs ts hc.2 ht.2]
end

end Ty
end CtyModel
