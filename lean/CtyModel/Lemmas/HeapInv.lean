/-
C20 — the heap invariant behind "every value the library builds is made of
library-owned storage": every cell of every array and every entry of every plain
map holds a word whose whole reach is library-owned (`FrozenAll`); the bucket map
of a set points at arrays tagged as its own.  This file: the invariant and how the
primitives (`alloc`, in-place writes, ownership transfers) maintain it.
-/
import CtyModel.Lemmas.HeapSets
namespace CtyModel
namespace Heap

/-- everything `w` reaches is library-owned, to every depth -/
def FrozenAll (m : Mem) (w : Word) : Prop := ∀ f, frozen f m w = true

/-- the buckets of the set whose bucket map is `a`: slices over existing arrays
tagged as buckets of `a` -/
def BucketsOf (m : Mem) (a : Addr) (kvs : List (Key × Word)) : Prop :=
  ∀ kv ∈ kvs, ∃ arr off len cap cells, kv.2 = .slice arr off len cap ∧
    m[arr]? = some ⟨.bucket a, .array cells⟩

def isSetOwner (o : Owner) : Bool :=
  match o with
  | .helper | .libset => true
  | _ => false

/-- the object at address `a` holds only words that are library-owned throughout
(a bucket map: only its own buckets) -/
def ObjOK (m : Mem) (a : Addr) (o : Obj) : Prop :=
  match o.body with
  | .array cells => ∀ c ∈ cells, FrozenAll m c
  | .gomap kvs => if isSetOwner o.owner = true then BucketsOf m a kvs else ∀ kv ∈ kvs, FrozenAll m kv.2
  | _ => True

def HeapOK (m : Mem) : Prop := ∀ a o, m[a]? = some o → ObjOK m a o

def sameKind : Body → Body → Bool
  | .array _, .array _ => true
  | .gomap _, .gomap _ => true
  | .bigfloat _, .bigfloat _ => true
  | .markset _, .markset _ => true
  | _, _ => false

/-- relative to the base heap `m0`: every object of `m0` is still there, of the same
kind, and with the same owner — except that a caller-owned object may have passed
to the library (`caller → lib`).  Ownership never moves towards the caller. -/
def Mono (m0 m : Mem) : Prop :=
  m0.length ≤ m.length ∧ ∀ (a : Addr) (o : Obj), m0[a]? = some o → ∃ o' : Obj, m[a]? = some o' ∧
    sameKind o.body o'.body = true ∧ (o'.owner = o.owner ∨ (o.owner = .caller ∧ o'.owner = .lib))

theorem sameKind_refl (b : Body) : sameKind b b = true := by cases b <;> rfl

theorem sameKind_trans {a b c : Body} (h1 : sameKind a b = true) (h2 : sameKind b c = true) :
    sameKind a c = true := by
  cases a <;> cases b <;> cases c <;> simp_all [sameKind]

theorem Mono.refl (m : Mem) : Mono m m :=
  ⟨Nat.le_refl _, fun _ o h => ⟨o, h, sameKind_refl _, .inl rfl⟩⟩

theorem Mono.trans {m0 m1 m2 : Mem} (h1 : Mono m0 m1) (h2 : Mono m1 m2) : Mono m0 m2 := by
  refine ⟨Nat.le_trans h1.1 h2.1, fun a o ho => ?_⟩
  obtain ⟨o1, ho1, k1, w1⟩ := h1.2 a o ho
  obtain ⟨o2, ho2, k2, w2⟩ := h2.2 a o1 ho1
  refine ⟨o2, ho2, sameKind_trans k1 k2, ?_⟩
  rcases w1 with w1 | ⟨w1, w1'⟩
  · rcases w2 with w2 | ⟨w2, w2'⟩
    · exact .inl (w2.trans w1)
    · exact .inr ⟨w1 ▸ w2, w2'⟩
  · rcases w2 with w2 | ⟨w2, _⟩
    · exact .inr ⟨w1, w2.trans w1'⟩
    · rw [w1'] at w2; cases w2

/-! ### what FrozenAll gives -/

theorem frozenAll_pair {m : Mem} {t v : Word} :
    FrozenAll m (.pair t v) ↔ FrozenAll m t ∧ FrozenAll m v := by
  constructor
  · intro h
    exact ⟨fun f => (frozen_pair.mp (h (f + 1))).1, fun f => (frozen_pair.mp (h (f + 1))).2⟩
  · intro h f
    cases f with
    | zero => rfl
    | succ f => exact frozen_pair.mpr ⟨h.1 f, h.2 f⟩

theorem frozenAll_imm {m : Mem} {w : Word}
    (h : match w with
      | .null | .unk _ | .bool _ | .str _ | .attr _ | .tprim _ => True
      | _ => False) : FrozenAll m w := by
  intro f
  cases f with
  | zero => rfl
  | succ f => cases w <;> simp_all [frozen]

theorem frozenAll_null {m : Mem} : FrozenAll m .null := frozenAll_imm trivial
theorem frozenAll_tprim {m : Mem} {n : String} : FrozenAll m (.tprim n) := frozenAll_imm trivial
theorem frozenAll_str {m : Mem} {s : String} : FrozenAll m (.str s) := frozenAll_imm trivial
theorem frozenAll_attr {m : Mem} {s : String} : FrozenAll m (.attr s) := frozenAll_imm trivial
theorem frozenAll_bool {m : Mem} {b : Bool} : FrozenAll m (.bool b) := frozenAll_imm trivial
theorem frozenAll_unk {m : Mem} {r : String} : FrozenAll m (.unk r) := frozenAll_imm trivial

theorem frozenAll_wrap {m : Mem} {e : Word} (h : FrozenAll m e) :
    FrozenAll m (.tlist e) ∧ FrozenAll m (.tset e) ∧ FrozenAll m (.tmap e) ∧
      FrozenAll m (.ttuple e) ∧ FrozenAll m (.tobject e) := by
  refine ⟨?_, ?_, ?_, ?_, ?_⟩ <;> intro f <;> cases f <;> simp [frozen, h _]

theorem frozenAll_unwrap {m : Mem} {e : Word}
    (h : FrozenAll m (.tlist e) ∨ FrozenAll m (.tset e) ∨ FrozenAll m (.tmap e) ∨
      FrozenAll m (.ttuple e) ∨ FrozenAll m (.tobject e)) : FrozenAll m e := by
  intro f
  rcases h with h | h | h | h | h <;> simpa [frozen] using h (f + 1)

theorem frozenAll_stable {m m' : Mem} (h : Preserves m m') {w : Word} (hw : FrozenAll m w) :
    FrozenAll m' w := fun f => frozen_stable h f w (hw f)

/-- a slice over a library-owned array of library-owned words -/
theorem frozenAll_slice {m : Mem} {arr off len cap : Nat} {cells : List Word}
    (hm : m[arr]? = some ⟨.lib, .array cells⟩) (hc : ∀ c ∈ cells, FrozenAll m c) :
    FrozenAll m (.slice arr off len cap) := by
  intro f
  cases f with
  | zero => rfl
  | succ f => exact frozen_slice.mpr ⟨cells, hm, List.all_eq_true.mpr fun c hcm => hc c hcm f⟩

theorem frozenAll_slice_cells {m : Mem} {arr off len cap : Nat} (h : FrozenAll m (.slice arr off len cap)) :
    ∃ cells, m[arr]? = some ⟨.lib, .array cells⟩ ∧ ∀ c ∈ cells, FrozenAll m c := by
  obtain ⟨cells, hm, _⟩ := frozen_slice.mp (h 1)
  refine ⟨cells, hm, fun c hc f => ?_⟩
  obtain ⟨cells', hm', hall⟩ := frozen_slice.mp (h (f + 1))
  rw [hm] at hm'; cases hm'
  exact List.all_eq_true.mp hall c hc

theorem frozenAll_map {m : Mem} {a : Addr} {kvs : List (Key × Word)}
    (hm : m[a]? = some ⟨.lib, .gomap kvs⟩) (hc : ∀ kv ∈ kvs, FrozenAll m kv.2) :
    FrozenAll m (.map a) := by
  intro f
  cases f with
  | zero => rfl
  | succ f => exact frozen_map.mpr ⟨kvs, hm, List.all_eq_true.mpr fun kv hkv => hc kv hkv f⟩

theorem frozenAll_map_kvs {m : Mem} {a : Addr} (h : FrozenAll m (.map a)) :
    ∃ kvs, m[a]? = some ⟨.lib, .gomap kvs⟩ ∧ ∀ kv ∈ kvs, FrozenAll m kv.2 := by
  obtain ⟨kvs, hm, _⟩ := frozen_map.mp (h 1)
  refine ⟨kvs, hm, fun kv hkv f => ?_⟩
  obtain ⟨kvs', hm', hall⟩ := frozen_map.mp (h (f + 1))
  rw [hm] at hm'; cases hm'
  exact List.all_eq_true.mp hall kv hkv

theorem frozenAll_num {m : Mem} {a : Addr} {v : Int} (hm : m[a]? = some ⟨.lib, .bigfloat v⟩) :
    FrozenAll m (.num a) := by
  intro f
  cases f with
  | zero => rfl
  | succ f => exact frozen_num.mpr ⟨v, hm⟩

theorem frozenAll_marked {m : Mem} {ms : Addr} {l : List String} {r : Word}
    (hm : m[ms]? = some ⟨.lib, .markset l⟩) (hr : FrozenAll m r) : FrozenAll m (.marked ms r) := by
  intro f
  cases f with
  | zero => rfl
  | succ f => exact frozen_marked.mpr ⟨⟨l, hm⟩, hr f⟩

theorem frozenAll_unmark {m : Mem} {ms : Addr} {r : Word} (h : FrozenAll m (.marked ms r)) :
    FrozenAll m r := fun f => (frozen_marked.mp (h (f + 1))).2

theorem frozenAll_unwrap' {m : Mem} {w : Word} (h : FrozenAll m w) : FrozenAll m (unwrap w) := by
  cases w with
  | marked ms r => exact frozenAll_unmark h
  | _ => exact h

/-- the set inside a value: a published bucket map with buckets in order -/
theorem frozenAll_set {m : Mem} {a : Addr} {kvs : List (Key × Word)}
    (hm : m[a]? = some ⟨.libset, .gomap kvs⟩)
    (hb : ∀ kv ∈ kvs, ∃ arr off len cap cells, kv.2 = .slice arr off len cap ∧
      m[arr]? = some ⟨.bucket a, .array cells⟩ ∧ ∀ c ∈ cells, FrozenAll m c) :
    FrozenAll m (.set a) := by
  intro f
  cases f with
  | zero => rfl
  | succ f =>
    refine frozen_set.mpr ⟨kvs, hm, List.all_eq_true.mpr fun kv hkv => ?_⟩
    obtain ⟨arr, off, len, cap, cells, e, hma, hc⟩ := hb kv hkv
    exact bucketOK_iff.mpr ⟨arr, off, len, cap, cells, e, hma, List.all_eq_true.mpr fun c hcm => hc c hcm f⟩

theorem frozenAll_set_members {m : Mem} {a : Addr} (h : FrozenAll m (.set a)) :
    ∃ kvs, m[a]? = some ⟨.libset, .gomap kvs⟩ ∧
      ∀ kv ∈ kvs, ∃ arr off len cap cells, kv.2 = .slice arr off len cap ∧
        m[arr]? = some ⟨.bucket a, .array cells⟩ ∧ ∀ c ∈ cells, FrozenAll m c := by
  obtain ⟨kvs, hm, hall1⟩ := frozen_set.mp (h 1)
  refine ⟨kvs, hm, fun kv hkv => ?_⟩
  obtain ⟨arr, off, len, cap, cells, e, hma, _⟩ := bucketOK_iff.mp (List.all_eq_true.mp hall1 kv hkv)
  refine ⟨arr, off, len, cap, cells, e, hma, fun c hc f => ?_⟩
  obtain ⟨kvs', hm', hall⟩ := frozen_set.mp (h (f + 1))
  rw [hm] at hm'; cases hm'
  obtain ⟨arr', _, _, _, cells', e', hma', hc'⟩ := bucketOK_iff.mp (List.all_eq_true.mp hall kv hkv)
  rw [e] at e'; cases e'
  rw [hma] at hma'; cases hma'
  exact List.all_eq_true.mp hc' c hc

/-! ### the invariant is carried by every heap change that leaves library-owned
objects alone, keeps bucket arrays bucket arrays, and writes only good objects -/

theorem heapOK_transfer {m m' : Mem} (hok : HeapOK m) (hp : Preserves m m')
    (hb : ∀ (arr b : Addr) (cells : List Word), m[arr]? = some (⟨.bucket b, .array cells⟩ : Obj) →
      ∃ cells', m'[arr]? = some (⟨.bucket b, .array cells'⟩ : Obj))
    (hobj : ∀ (a : Addr) (o' : Obj), m'[a]? = some o' → m[a]? = some o' ∨ ObjOK m' a o') : HeapOK m' := by
  intro a o' ho'
  rcases hobj a o' ho' with h | h
  · have := hok a o' h
    unfold ObjOK at this ⊢
    cases hbd : o'.body with
    | array cells => simp only [hbd] at this ⊢; exact fun c hc => frozenAll_stable hp (this c hc)
    | gomap kvs =>
      simp only [hbd] at this ⊢
      split
      · rename_i hs
        simp only [hs, if_true] at this
        intro kv hkv
        obtain ⟨arr, off, len, cap, cells, e, hma⟩ := this kv hkv
        obtain ⟨cells', hma'⟩ := hb arr a cells hma
        exact ⟨arr, off, len, cap, cells', e, hma'⟩
      · rename_i hs
        simp only [hs] at this
        exact fun kv hkv => frozenAll_stable hp (this kv hkv)
    | bigfloat v => trivial
    | markset l => trivial
  · exact h

/-! ### the primitives maintain `Mono` and `HeapOK` -/

theorem get_lt {m : Mem} {a : Addr} {o : Obj} (h : m[a]? = some o) : a < m.length :=
  (List.getElem?_eq_some_iff.mp h).1

theorem setBody_get_self' {m : Mem} {a : Addr} {o : Obj} (b : Body) (h : m[a]? = some o) :
    (setBody m a b)[a]? = some { o with body := b } := setBody_get_self b h

theorem freeze_get_self {m : Mem} {a : Addr} {o : Obj} (h : m[a]? = some o) :
    (freeze m a)[a]? = some { o with owner := .lib } := by
  have hlt := get_lt h
  unfold freeze
  simp [h, List.getElem?_set_self hlt]

theorem publish_get_self {m : Mem} {a : Addr} {o : Obj} (h : m[a]? = some o) :
    (publish m a)[a]? = some { o with owner := .libset } := by
  have hlt := get_lt h
  unfold publish
  simp [h, List.getElem?_set_self hlt]

/-- what may be allocated: words that are library-owned throughout; a set's bucket
map is born empty -/
def NewBodyOK (m : Mem) (o : Owner) : Body → Prop
  | .array cells => ∀ c ∈ cells, FrozenAll m c
  | .gomap kvs => if isSetOwner o = true then kvs = [] else ∀ kv ∈ kvs, FrozenAll m kv.2
  | _ => True

theorem mono_alloc {m0 m : Mem} (h : Mono m0 m) (o : Owner) (b : Body) : Mono m0 (alloc m o b).1 := by
  refine ⟨Nat.le_trans h.1 (by simp), fun a ob hob => ?_⟩
  obtain ⟨o', ho', hk⟩ := h.2 a ob hob
  exact ⟨o', by rw [alloc_get_old _ _ (get_lt ho'), ho'], hk⟩

theorem heapOK_alloc {m : Mem} (hok : HeapOK m) {o : Owner} {b : Body} (hb : NewBodyOK m o b) :
    HeapOK (alloc m o b).1 := by
  have hp : Preserves m (alloc m o b).1 := preserves_alloc m o b
  refine heapOK_transfer hok hp (fun arr bk cells h => ⟨cells, by rw [alloc_get_old _ _ (get_lt h), h]⟩) ?_
  intro a o' ho'
  by_cases hlt : a < m.length
  · left; rw [← ho', alloc_get_old _ _ hlt]
  · right
    have hlen : a < (alloc m o b).1.length := get_lt ho'
    have ha : a = m.length := by
      have h1 := alloc_fst_length m o b
      have h2 : a < m.length + 1 := h1 ▸ hlen
      exact Nat.le_antisymm (Nat.lt_succ_iff.mp h2) (Nat.not_lt.mp hlt)
    subst ha
    rw [alloc_get_new] at ho'
    cases ho'
    unfold ObjOK
    cases b with
    | array cells => exact fun c hc => frozenAll_stable hp (hb c hc)
    | gomap kvs =>
      simp only [NewBodyOK] at hb ⊢
      split
      · rename_i hs; simp only [hs, if_true] at hb; subst hb; intro kv hkv; cases hkv
      · rename_i hs; simp only [hs] at hb; exact fun kv hkv => frozenAll_stable hp (hb kv hkv)
    | bigfloat v => trivial
    | markset l => trivial

theorem mono_setBody {m0 m : Mem} (h : Mono m0 m) {a : Addr} {o : Obj} (hm : m[a]? = some o) {b : Body}
    (hk : sameKind o.body b = true) : Mono m0 (setBody m a b) := by
  refine ⟨by simpa using h.1, fun x ob hob => ?_⟩
  obtain ⟨o', ho', hk', hw⟩ := h.2 x ob hob
  by_cases e : a = x
  · subst e
    rw [hm] at ho'; cases ho'
    exact ⟨_, setBody_get_self' b hm, sameKind_trans hk' hk, hw⟩
  · exact ⟨o', by rw [setBody_get_ne b e, ho'], hk', hw⟩

/-- an in-place write of good content to an object that is not library-owned -/
theorem heapOK_setBody {m : Mem} (hok : HeapOK m) {a : Addr} {o : Obj} (hm : m[a]? = some o) {b : Body}
    (hk : sameKind o.body b = true) (hf : frozenObj m a = false)
    (hb : ObjOK (setBody m a b) a { o with body := b }) : HeapOK (setBody m a b) := by
  have hp : Preserves m (setBody m a b) := preserves_setBody b hf
  refine heapOK_transfer hok hp ?_ ?_
  · intro arr bk cells h
    by_cases e : a = arr
    · subst e
      rw [hm] at h; cases h
      cases b <;> simp [sameKind] at hk
      exact ⟨_, setBody_get_self' _ hm⟩
    · exact ⟨cells, by rw [setBody_get_ne b e, h]⟩
  · intro x o' ho'
    by_cases e : a = x
    · subst e
      rw [setBody_get_self' b hm] at ho'; cases ho'
      exact .inr hb
    · left; rw [← ho', setBody_get_ne b e]

theorem mono_freeze {m0 m : Mem} (h : Mono m0 m) {a : Addr} {b : Body} (hm : m[a]? = some ⟨.caller, b⟩) :
    Mono m0 (freeze m a) := by
  refine ⟨by simpa using h.1, fun x ob hob => ?_⟩
  obtain ⟨o', ho', hk', hw⟩ := h.2 x ob hob
  by_cases e : a = x
  · subst e
    rw [hm] at ho'; cases ho'
    refine ⟨_, freeze_get_self hm, hk', ?_⟩
    rcases hw with hw | ⟨_, hw⟩
    · exact .inr ⟨hw.symm, rfl⟩
    · cases hw
  · exact ⟨o', by rw [freeze_get_ne e, ho'], hk', hw⟩

theorem heapOK_freeze {m : Mem} (hok : HeapOK m) {a : Addr} {b : Body} (hm : m[a]? = some ⟨.caller, b⟩) :
    HeapOK (freeze m a) := by
  have hf : frozenObj m a = false := not_frozen_of_owner (o := .caller) (by simp [ownerOf, hm]) (by simp) (by simp)
  have hp : Preserves m (freeze m a) := preserves_freeze hf
  refine heapOK_transfer hok hp ?_ ?_
  · intro arr bk cells h
    have e : a ≠ arr := by intro e; subst e; rw [hm] at h; cases h
    exact ⟨cells, by rw [freeze_get_ne e, h]⟩
  · intro x o' ho'
    by_cases e : a = x
    · subst e
      rw [freeze_get_self hm] at ho'; cases ho'
      right
      have := hok a _ hm
      unfold ObjOK at this ⊢
      cases b with
      | array cells => exact fun c hc => frozenAll_stable hp (this c hc)
      | gomap kvs =>
        simp only [isSetOwner] at this ⊢
        exact fun kv hkv => frozenAll_stable hp (this kv hkv)
      | bigfloat v => trivial
      | markset l => trivial
    · left; rw [← ho', freeze_get_ne e]

theorem mono_freezeCaller {m0 m : Mem} (h : Mono m0 m) (a : Addr) : Mono m0 (freezeCaller m a) := by
  unfold freezeCaller
  split
  · rename_i ho
    cases hm : m[a]? with
    | none => simp [ownerOf, hm] at ho
    | some o =>
      rcases o with ⟨ow, b⟩
      have : ow = .caller := by simpa [ownerOf, hm] using ho
      subst this
      exact mono_freeze h hm
  · exact h

theorem heapOK_freezeCaller {m : Mem} (hok : HeapOK m) (a : Addr) : HeapOK (freezeCaller m a) := by
  unfold freezeCaller
  split
  · rename_i ho
    cases hm : m[a]? with
    | none => simp [ownerOf, hm] at ho
    | some o =>
      rcases o with ⟨ow, b⟩
      have : ow = .caller := by simpa [ownerOf, hm] using ho
      subst this
      exact heapOK_freeze hok hm
  · exact hok

/-- a constructor publishes the set it has just built (its map is not in `m0`) -/
theorem mono_publish {m0 m : Mem} (h : Mono m0 m) {a : Addr} (ha : m0.length ≤ a) :
    Mono m0 (publish m a) := by
  refine ⟨by simpa using h.1, fun x ob hob => ?_⟩
  obtain ⟨o', ho', hk⟩ := h.2 x ob hob
  have : a ≠ x := by have hx := get_lt hob; intro e; subst e; exact Nat.not_lt.mpr ha hx
  exact ⟨o', by rw [publish_get_ne this, ho'], hk⟩

theorem heapOK_publish {m : Mem} (hok : HeapOK m) {a : Addr} {kvs : List (Key × Word)}
    (hm : m[a]? = some ⟨.helper, .gomap kvs⟩) : HeapOK (publish m a) := by
  have hf : frozenObj m a = false := not_frozen_of_owner (o := .helper) (by simp [ownerOf, hm]) (by simp) (by simp)
  have hp : Preserves m (publish m a) :=
    ⟨by simp, fun x hx => by
      have : a ≠ x := by intro e; subst e; rw [hx] at hf; cases hf
      exact publish_get_ne this⟩
  have hbk : ∀ (arr b : Addr) (cells : List Word), m[arr]? = some (⟨.bucket b, .array cells⟩ : Obj) →
      ∃ cells', (publish m a)[arr]? = some (⟨.bucket b, .array cells'⟩ : Obj) := by
    intro arr bk cells h
    have e : a ≠ arr := by intro e; subst e; rw [hm] at h; cases h
    exact ⟨cells, by rw [publish_get_ne e, h]⟩
  refine heapOK_transfer hok hp hbk ?_
  intro x o' ho'
  by_cases e : a = x
  · subst e
    rw [publish_get_self hm] at ho'; cases ho'
    right
    have := hok a _ hm
    unfold ObjOK at this ⊢
    simp only [isSetOwner, if_true] at this ⊢
    intro kv hkv
    obtain ⟨arr, off, len, cap, cells, e1, hma⟩ := this kv hkv
    obtain ⟨cells', hma'⟩ := hbk arr a cells hma
    exact ⟨arr, off, len, cap, cells', e1, hma'⟩
  · left; rw [← ho', publish_get_ne e]

end Heap
end CtyModel
