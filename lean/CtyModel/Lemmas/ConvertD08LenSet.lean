/-
Conversions to a set type: the result has at most as many members as the source, and at least one
if the source has any (members may coalesce, never vanish).
-/
import CtyModel.Lemmas.ConvertD08Len
import CtyModel.Lemmas.CoversBasic
set_option linter.unusedSimpArgs false
namespace CtyModel
namespace Convert
open Ty

theorem setAdd_len {E : Env} {ety : Ty} {h : Int} {x : Payload} :
    ∀ {l l' : List (Int × Payload)}, setAdd E ety h x l = .ok l' →
      l.length ≤ l'.length ∧ l'.length ≤ l.length + 1 ∧ 1 ≤ l'.length
  | [], l', hr => by simp [setAdd] at hr; subst hr; simp
  | (j, z) :: rest, l', hr => by
    simp only [setAdd] at hr
    split at hr
    · obtain ⟨l0, hl0, rfl⟩ := Res.map_eq_ok hr
      have := setAdd_len hl0
      simp; omega
    · split at hr
      · split at hr
        · simp at hr; subst hr; simp
        · obtain ⟨l0, hl0, rfl⟩ := Res.map_eq_ok hr
          have := setAdd_len hl0
          simp; omega
        · simp at hr
        · simp at hr
        · simp at hr
      · simp at hr; subst hr; simp

theorem newSetAcc_len {E : Env} {ety : Ty} : ∀ {xs : List Payload} {acc bs : List (Int × Payload)},
    newSetAcc E ety xs acc = .ok bs →
      acc.length ≤ bs.length ∧ bs.length ≤ acc.length + xs.length ∧ (xs ≠ [] → 1 ≤ bs.length)
  | [], acc, bs, hr => by simp [newSetAcc] at hr; subst hr; simp
  | x :: xs, acc, bs, hr => by
    simp only [newSetAcc] at hr
    split at hr
    · split at hr
      · rename_i acc' hsa
        have h1 := setAdd_len hsa
        have h2 := newSetAcc_len hr
        simp; omega
      · simp at hr
      · simp at hr
      · simp at hr
    · simp at hr
    · simp at hr
    · simp at hr

/-- the result payload, marks stripped, is a set of between `lo` and `hi` members -/
def isSetBetween (lo hi : Nat) (p : Payload) : Prop :=
  ∃ ids xs, p.stripMarks = .sset ids xs ∧ lo ≤ xs.length ∧ xs.length ≤ hi

theorem setVal_shape {E : Env} {vs : List Value} {r : Value} (hne : vs ≠ []) (hr : setVal E vs = .ok r) :
    isSetBetween 1 vs.length r.v := by
  unfold setVal at hr
  have : vs.isEmpty = false := by cases vs <;> simp at hne ⊢
  simp only [this, Bool.false_eq_true, if_false] at hr
  split at hr
  · simp at hr
  · obtain ⟨p, hp, rfl⟩ := Res.map_eq_ok hr
    unfold newSet at hp
    obtain ⟨bs, hbs, rfl⟩ := Res.map_eq_ok hp
    have hl := newSetAcc_len hbs
    refine ⟨bs.map (·.1), Payload.stripMarksL (bs.map (·.2)), ?_, ?_, ?_⟩
    · simp [Value.withMarks, Payload.stripMarks_withMarks, Payload.stripMarks]
    · rw [stripMarksL_len]; simp
      exact hl.2.2 (by simpa using hne)
    · rw [stripMarksL_len]; simp
      have := hl.2.1; simpa using this

section Bodies
variable {E : Env} (hU : UnifyLaws E) {rec : Rec} (hrec : RecOK E rec)
include hU hrec

theorem collToSet_shape {uns : Bool} {ie oe conv} {v r : Value} {es : List Value}
    (hpf : PlanFor E uns ie oe conv) (hwi : wf ie = true) (hoi : hasOpt ie = false)
    (hwo : wf oe = true) (hdo : hasDyn oe = false)
    (hes : elemsOf E v = .ok es) (hel : ∀ e ∈ es, e.ty = ie ∧ wtP ie e.v = true)
    (h : applyStep E rec (.collToSet oe conv) v = .ok r) :
    isSetBetween (min 1 es.length) es.length r.v := by
  have hnd : oe.isDyn = false := not_isDyn_of_noDyn hdo
  simp only [applyStep, hnd, hdo, hes, Res.bind] at h
  obtain ⟨es', hes', h⟩ := Res.bind_eq_ok h
  have hm := converted_members hU hrec (post := stripNull) (fun _ hv => stripNull_ty' hv)
    hpf hwi hoi hwo hdo hel hes'
  split at h
  · rename_i hemp
    have h0 : es' = [] := by simpa using hemp
    simp at h; subst h
    rw [h0] at hm
    have : es.length = 0 := by simpa using hm.1.symm
    exact ⟨[], [], rfl, by simp [this], by simp⟩
  · rename_i hne
    have hne' : es' ≠ [] := by simpa using hne
    have hT := wf_stripOpt oe hwo
    have hTd : (stripOpt oe).isDyn = false := not_isDyn_of_noDyn (by rw [stripOpt_hasDyn]; exact hdo)
    simp only [canCollVal_same hT hTd hne' hm.2] at h
    obtain ⟨ids, xs, h1, h2, h3⟩ := setVal_shape hne' h
    rw [hm.1] at h3
    exact ⟨ids, xs, h1, by omega, h3⟩

omit hU in
theorem tupToSet_shape {uns : Bool} {its : List Ty} {oe : Ty} {cs : List Plan} {ps : List Payload} {r : Value}
    (hpl : All2 (fun it p => PlanFor E uns it oe p) its cs) (hne : its ≠ []) (hw : wtZip its ps = true)
    (hall : ∀ it ∈ its, wf it = true ∧ hasOpt it = false)
    (hwo : wf oe = true) (hdo : hasDyn oe = false)
    (h : applyStep E rec (.tupToSet cs) ⟨.tuple its, .seq ps⟩ = .ok r) :
    isSetBetween 1 ps.length r.v := by
  simp only [applyStep, elemsOf] at h
  obtain ⟨es, hes, h⟩ := Res.bind_eq_ok h
  simp at hes; subst hes
  obtain ⟨es', hes', h⟩ := Res.bind_eq_ok h
  have hm := applyZip_all hrec stripNull (fun _ hv => stripNull_ty' hv) hwo hdo its cs ps es' hpl hw hall hes'
  have hne' : es' ≠ [] := by
    intro he; rw [he] at hm
    have h0 := hm.1
    simp at h0
    exact hne (List.length_eq_zero_iff.mp h0.symm)
  have hT := wf_stripOpt oe hwo
  have hTd : (stripOpt oe).isDyn = false := not_isDyn_of_noDyn (by rw [stripOpt_hasDyn]; exact hdo)
  simp only [canCollVal_same hT hTd hne' hm.2] at h
  obtain ⟨ids, xs, h1, h2, h3⟩ := setVal_shape hne' h
  rw [hm.1, wtZip_length hw] at h3
  exact ⟨ids, xs, h1, h2, h3⟩

end Bodies

/-- every closure body with a set target -/
theorem inner_len_set {E : Env} (hU : UnifyLaws E) {rec : Rec} (hrec : RecOK E rec)
    (inT oe : Ty) (uns : Bool) (c : Plan) (v r : Value) (hg : gck E inT (.set oe) uns = some c)
    (hc : Conds inT (.set oe) v) (hp : plain v.v) (h : applyStep E rec c v = .ok r) :
    isSetBetween (min 1 (srcLen v.v)) (srcLen v.v) r.v := by
  obtain ⟨hty, hwI, hwO, hoI, hdO, hwt'⟩ := hc
  obtain ⟨vt, vp⟩ := v
  simp only at hty hwt' hp
  subst hty
  have hid : vt.isDyn = false := by
    cases vt <;> simp [Ty.isDyn]
    exact (shape_prim_dyn hp hwt').elim
  have hwo : wf oe = true := by simpa [wf] using hwO
  have hdo : hasDyn oe = false := by simpa [hasDyn] using hdO
  cases vt <;> simp [gck, Ty.isDyn, isPrim] at hg hid
  case list ie =>
    have hwi : wf ie = true := by simpa [wf] using hwI
    have hoi : hasOpt ie = false := by simpa [hasOpt] using hoI
    obtain ⟨ps, rfl, hps⟩ := shape_list hp hwt'
    have hpf : ∃ conv, c = .collToSet oe conv ∧ PlanFor E uns ie oe conv := by
      obtain ⟨_, hg⟩ := hg
      split at hg
      · rename_i he; simp at hg; exact ⟨.nil, hg.symm, .inl ⟨rfl, he⟩⟩
      · obtain ⟨c', hc', rfl⟩ := Option.map_eq_some_iff.mp hg
        exact ⟨_, rfl, .inr ⟨c', rfl, hc'⟩⟩
    obtain ⟨conv, rfl, hpf⟩ := hpf
    have := collToSet_shape hU hrec (es := ps.map fun p => ⟨ie, p⟩) hpf hwi hoi hwo hdo rfl (by
      intro e he
      obtain ⟨p, hpm, rfl⟩ := List.mem_map.mp he
      exact ⟨rfl, wtAll_mem hps p hpm⟩) h
    simpa [srcLen] using this
  case set ie =>
    have hwi : wf ie = true := by simpa [wf] using hwI
    have hoi : hasOpt ie = false := by simpa [hasOpt] using hoI
    obtain ⟨ids, ps, rfl, hps⟩ := shape_set hp hwt'
    have hpf : ∃ conv, c = .collToSet oe conv ∧ PlanFor E uns ie oe conv := by
      split at hg
      · rename_i he; simp at hg; exact ⟨.nil, hg.symm, .inl ⟨rfl, he⟩⟩
      · obtain ⟨c', hc', rfl⟩ := Option.map_eq_some_iff.mp hg
        exact ⟨_, rfl, .inr ⟨c', rfl, hc'⟩⟩
    obtain ⟨conv, rfl, hpf⟩ := hpf
    have := collToSet_shape hU hrec (es := (setValues E ie ps).map fun p => ⟨ie, p⟩) hpf hwi hoi hwo hdo rfl
      (by
        intro e he
        obtain ⟨p, hpm, rfl⟩ := List.mem_map.mp he
        exact ⟨rfl, wtAll_mem hps p (setValues_mem hpm)⟩) h
    simpa [srcLen, setValues_length] using this
  case tuple its =>
    have hwi : wfL its = true := by simpa [wf] using hwI
    have hoi : hasOptL its = false := by simpa [hasOpt] using hoI
    obtain ⟨ps, rfl, hps⟩ := shape_tuple hp hwt'
    split at hg
    · rename_i hemp
      have h0 : its = [] := by simpa using hemp
      subst h0
      have hps0 : ps = [] := by cases ps <;> simp [wtZip] at hps ⊢
      subst hps0
      simp at hg; subst hg
      simp only [applyStep] at h
      simp at h; subst h
      exact ⟨[], [], rfl, by simp [srcLen], by simp⟩
    · rename_i hne
      have hnd : oe.isDyn = false := not_isDyn_of_noDyn hdo
      simp only [seqTargetEty, hnd] at hg
      obtain ⟨cs, hcs, rfl⟩ := Option.map_eq_some_iff.mp hg
      have hpl := gcAll_inv E uns oe hcs
      obtain ⟨ids, xs, h1, h2, h3⟩ := tupToSet_shape hrec hpl (by simpa using hne) hps
        (fun it hit => ⟨wfL_mem hwi it hit, hasOptL_mem hoi it hit⟩) hwo hdo h
      exact ⟨ids, xs, h1, by simp only [srcLen]; omega, by simpa [srcLen] using h3⟩

/-- **Conversions to a set type never make members vanish, and never invent any.** -/
theorem apply_len_set {E : Env} (hU : UnifyLaws E) {v r : Value} {oe : Ty} {uns : Bool} {p : Plan} {fuel : Nat}
    (hp : RegularPair v (.set oe)) (hg : getConv E v.ty (.set oe) uns = some p)
    (hm : v.isMarked = false) (hk : v.isKnown = true) (hn : v.isNull = false)
    (h : apply E fuel p v = .ok r) : isSetBetween (min 1 (srcLen v.v)) (srcLen v.v) r.v := by
  obtain ⟨c, hc, rfl⟩ := Option.map_eq_some_iff.mp hg
  cases fuel with
  | zero => simp [apply] at h
  | succ n =>
    have hnd : (Ty.set oe).isDyn = false := rfl
    simp only [apply, applyStep, hm, hnd, hk, hn, Bool.false_eq_true, if_false, Bool.not_true, Bool.or_self] at h
    cases n with
    | zero => simp [apply] at h
    | succ m =>
      simp only [apply] at h
      exact inner_len_set hU (recOK_apply hU m) v.ty oe uns c v r hc hp.conds ⟨hm, hk, hn⟩ h

end Convert
end CtyModel
