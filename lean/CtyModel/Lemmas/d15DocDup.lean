/-
C15 (d15) — the FULL document clause: `docValid` (representable numbers; members that share
a normalised key have `Equals` implied types — "no conflicting duplicate keys") ⇒
`docCheckFull`.  Objects may repeat keys (also keys that coincide only after normalisation)
in any order; the last member in document order stands, in the decoder as in `canon`.
-/
import CtyModel.Lemmas.d15SortDup
import CtyModel.Lemmas.d15DocU
namespace CtyModel
namespace JsonVal
open Ty

theorem eq_self_d15 {t : Ty} (h : wf t = true) : t.equals t = true := (equals_iff_eq t t h h).mpr rfl

theorem wfL_of_forall : ∀ ts : List Ty, (∀ t ∈ ts, wf t = true) → wfL ts = true
  | [], _ => rfl
  | t :: ts, h => by
    simp [wfL, h t (by simp), wfL_of_forall ts (fun u hu => h u (List.mem_cons_of_mem _ hu))]

/-! ### the structural type is well-formed -/
mutual
theorem structTyU_wf (env : JEnv) : ∀ j : Json, docValid env j = true → wf (structTyU env.norm j) = true
  | .null, _ => rfl
  | .bool _, _ => rfl
  | .num _, _ => rfl
  | .str _, _ => rfl
  | .arr xs, h => by
    simp only [structTyU, wf]
    exact wfL_of_forall _ (structTyUL_wf env xs (by simpa [docValid] using h))
  | .obj ks vs, h => by
    simp only [docValid, Bool.and_eq_true, beq_iff_eq] at h
    obtain ⟨⟨hkl, hv⟩, _⟩ := h
    obtain ⟨hasc, hlen, _⟩ := buildFields_spec env.norm ks (structTyUL env.norm vs) (by simp [structTyUL_length, hkl])
    simp only [structTyU, wf, Bool.and_eq_true, beq_iff_eq, List.length_map]
    refine ⟨⟨⟨hlen, hlen⟩, hasc⟩, wfL_of_forall _ ?_⟩
    intro t ht
    rw [buildFields_eq_sortG] at ht
    exact structTyUL_wf env vs hv t (sortG_mem2 _ _ t ht)
theorem structTyUL_wf (env : JEnv) : ∀ js : List Json, docValidL env js = true →
    ∀ t ∈ structTyUL env.norm js, wf t = true
  | [], _, _, h => by simp [structTyUL] at h
  | j :: js, hv, t, h => by
    simp only [docValidL, Bool.and_eq_true] at hv
    simp only [structTyUL, List.mem_cons] at h
    rcases h with rfl | h
    · exact structTyU_wf env j hv.1
    · exact structTyUL_wf env js hv.2 t h
end

/-! ### agreement of the members that share a normalised key: the types are a function of the key -/

theorem lookF_mem {k : String} {t : Ty} : ∀ (ns : List String) (ts : List Ty), lookF k ns ts = some t → t ∈ ts
  | [], _, h => by simp [lookF] at h
  | _ :: _, [], h => by simp [lookF] at h
  | n :: ns, u :: us, h => by
    simp only [lookF] at h
    by_cases hn : n = k
    · simp [hn] at h; simp [h]
    · simp [hn] at h; exact List.mem_cons_of_mem _ (lookF_mem ns us h)

/-- the type listed first under a normalised key (placeholder if the key does not occur) -/
def keyTy (nks : List String) (cts : List Ty) (n : String) : Ty := (lookF n nks cts).getD .dyn

theorem keyTy_wf (nks : List String) (cts : List Ty) (h : ∀ t ∈ cts, wf t = true) (n : String) :
    wf (keyTy nks cts n) = true := by
  unfold keyTy
  cases hl : lookF n nks cts with
  | none => rfl
  | some t => exact h t (lookF_mem nks cts hl)

/-- members after (k, t) with the same key have the same type -/
def AgreeW (k : String) (t : Ty) : List String → List Ty → Prop
  | k' :: ks, t' :: ts => (k' = k → t' = t) ∧ AgreeW k t ks ts
  | _, _ => True

def AgreeL : List String → List Ty → Prop
  | k :: ks, t :: ts => AgreeW k t ks ts ∧ AgreeL ks ts
  | _, _ => True

theorem agree_graph : ∀ (nks : List String) (cts : List Ty), nks.length = cts.length → AgreeL nks cts →
    cts = nks.map (keyTy nks cts)
  | [], [], _, _ => rfl
  | [], _ :: _, h, _ => by simp at h
  | _ :: _, [], h, _ => by simp at h
  | n :: nks, t :: cts, hl, h => by
    simp only [AgreeL] at h
    have ih := agree_graph nks cts (by simpa using hl) h.2
    simp only [List.map_cons, keyTy, lookF, if_true, Option.getD_some, List.cons.injEq, true_and]
    -- on the tail, the first occurrence in the whole list gives the same type
    have : ∀ (ks : List String) (ts : List Ty), ks.length = ts.length → AgreeW n t ks ts →
        ts = ks.map (keyTy nks cts) → ts = ks.map (fun x => (if n = x then some t else lookF x nks cts).getD .dyn) := by
      intro ks
      induction ks with
      | nil => intro ts _ _ h3; simpa using h3
      | cons k ks ihk =>
        intro ts h1 h2 h3
        cases ts with
        | nil => simp at h1
        | cons u us =>
          simp only [AgreeW] at h2
          simp only [List.map_cons, List.cons.injEq] at h3
          simp only [List.map_cons, List.cons.injEq]
          refine ⟨?_, ihk us (by simpa using h1) h2.2 h3.2⟩
          by_cases hk : n = k
          · simp [hk, h2.1 hk.symm]
          · simp only [hk, if_false]; exact h3.1
    exact this nks cts (by simpa using hl) h.1 ih

theorem agreeW_of (env : JEnv) (k : String) (v : Json) (t : Ty) (hv : impliedType env v = .ok t) (hwt : wf t = true) :
    ∀ (ks : List String) (vs : List Json) (ts : List Ty), agreeWith env k v ks vs = true →
      All2 (fun x u => impliedType env x = .ok u) vs ts → (∀ u ∈ ts, wf u = true) → ks.length = vs.length →
      AgreeW (env.norm k) t (ks.map env.norm) ts
  | [], _, _, _, _, _, _ => by simp [AgreeW]
  | _ :: _, [], _, _, _, _, h => by simp at h
  | _ :: _, _ :: _, [], _, h, _, _ => by simp [All2] at h
  | k' :: ks, v' :: vs, u :: ts, ha, h2, hw, hl => by
    simp only [agreeWith, Bool.and_eq_true] at ha
    simp only [All2] at h2
    simp only [List.map_cons, AgreeW]
    refine ⟨?_, agreeW_of env k v t hv hwt ks vs ts ha.2 h2.2 (fun x hx => hw x (List.mem_cons_of_mem _ hx)) (by simpa using hl)⟩
    intro he
    have h1 := ha.1
    simp only [he, if_true, sameImplied, hv, h2.1] at h1
    exact ((equals_iff_eq t u hwt (hw u (by simp))).mp h1).symm

theorem agreeL_of (env : JEnv) : ∀ (ks : List String) (vs : List Json) (ts : List Ty), noConflict env ks vs = true →
    All2 (fun x u => impliedType env x = .ok u) vs ts → (∀ u ∈ ts, wf u = true) → ks.length = vs.length →
    AgreeL (ks.map env.norm) ts
  | [], _, _, _, _, _, _ => by simp [AgreeL]
  | _ :: _, [], _, _, _, _, h => by simp at h
  | _ :: _, _ :: _, [], _, h, _, _ => by simp [All2] at h
  | k :: ks, v :: vs, t :: ts, hn, h2, hw, hl => by
    simp only [noConflict, Bool.and_eq_true] at hn
    simp only [All2] at h2
    simp only [List.map_cons, AgreeL]
    exact ⟨agreeW_of env k v t h2.1 (hw t (by simp)) ks vs ts hn.1 h2.2
        (fun x hx => hw x (List.mem_cons_of_mem _ hx)) (by simpa using hl),
      agreeL_of env ks vs ts hn.2 h2.2 (fun x hx => hw x (List.mem_cons_of_mem _ hx)) (by simpa using hl)⟩

/-! ### `impliedObjectType` when the types are a function of the normalised key -/

theorem lookupTy_map (g : String → Ty) (k : String) : ∀ aK : List String,
    lookupTy k aK (aK.map g) = if k ∈ aK then some (g k) else none
  | [] => by simp [lookupTy]
  | n :: ns => by
    simp only [List.map_cons, lookupTy, lookupTy_map g k ns]
    by_cases hn : n = k
    · simp [hn]
    · have : ¬ k = n := fun e => hn e.symm
      simp [hn, this]

theorem setTy_map_same (g : String → Ty) (k : String) : ∀ aK : List String,
    setTy k (g k) aK (aK.map g) = aK.map g
  | [] => by simp [setTy]
  | n :: ns => by
    simp only [List.map_cons, setTy]
    by_cases hn : n = k
    · simp [hn]
    · simp [hn, setTy_map_same g k ns]

theorem impliedMembers_dup (env : JEnv) (G : String → Ty) (hwf : ∀ n, wf (G n) = true) :
    ∀ (ks : List String) (vs : List Json) (aK : List String), ks.length = vs.length →
      All2 (fun x u => impliedType env x = .ok u) vs (ks.map fun k => G (env.norm k)) →
      ∃ aK', impliedMembers env ks vs aK (aK.map fun k => G (env.norm k)) =
          .ok (aK', aK'.map fun k => G (env.norm k)) ∧ ∀ x, x ∈ aK' ↔ x ∈ aK ∨ x ∈ ks
  | [], _, aK, _, _ => ⟨aK, by simp [impliedMembers], by simp⟩
  | _ :: _, [], _, h, _ => by simp at h
  | k :: ks, v :: vs, aK, hl, h => by
    simp only [List.map_cons, All2] at h
    simp only [impliedMembers, h.1, lookupTy_map (fun k => G (env.norm k)) k aK]
    by_cases hk : k ∈ aK
    · simp only [hk, if_true, eq_self_d15 (hwf _), Bool.not_true, Bool.false_eq_true, if_false,
        setTy_map_same (fun k => G (env.norm k)) k aK]
      obtain ⟨aK', h1, h2⟩ := impliedMembers_dup env G hwf ks vs aK (by simpa using hl) h.2
      refine ⟨aK', h1, fun x => ?_⟩
      rw [h2 x]
      constructor
      · rintro (h | h)
        · exact .inl h
        · exact .inr (List.mem_cons_of_mem _ h)
      · rintro (h | h)
        · exact .inl h
        · rcases List.mem_cons.mp h with rfl | h
          · exact .inl hk
          · exact .inr h
    · simp only [hk, if_false]
      obtain ⟨aK', h1, h2⟩ := impliedMembers_dup env G hwf ks vs (aK ++ [k]) (by simpa using hl) h.2
      simp only [List.map_append, List.map_cons, List.map_nil] at h1
      refine ⟨aK', h1, fun x => ?_⟩
      rw [h2 x]
      simp only [List.mem_append, List.mem_cons, List.not_mem_nil, or_false]
      constructor
      · rintro ((h | h) | h)
        · exact .inl h
        · exact .inr (.inl h)
        · exact .inr (.inr h)
      · rintro (h | h | h)
        · exact .inl (.inl h)
        · exact .inl (.inr h)
        · exact .inr h

theorem conflictWith_graph (norm : String → String) (G : String → Ty) (hwf : ∀ n, wf (G n) = true) (k : String) :
    ∀ ks : List String, conflictWith norm k (G (norm k)) ks (ks.map fun k => G (norm k)) = false
  | [] => by simp [conflictWith]
  | k' :: ks => by
    simp only [List.map_cons, conflictWith, conflictWith_graph norm G hwf k ks, Bool.or_false]
    by_cases he : norm k' = norm k
    · simp [he, eq_self_d15 (hwf _)]
    · simp [he]

theorem normConflict_graph (norm : String → String) (G : String → Ty) (hwf : ∀ n, wf (G n) = true) :
    ∀ ks : List String, normConflict norm ks (ks.map fun k => G (norm k)) = false
  | [] => by simp [normConflict]
  | k :: ks => by
    simp [normConflict, conflictWith_graph norm G hwf k ks, normConflict_graph norm G hwf ks]

theorem find_graph (G : String → Ty) (k : String) : ∀ ns : List String, k ∈ ns →
    find k ns (ns.map G) (ns.map fun _ => false) = some (G k, false)
  | [], h => by simp at h
  | n :: ns, h => by
    simp only [List.map_cons, find]
    by_cases hn : n = k
    · simp [hn]
    · simp only [hn, if_false]
      rcases List.mem_cons.mp h with rfl | h
      · exact absurd rfl hn
      · exact find_graph G k ns h

theorem fieldsIn_graph (G : String → Ty) (ns : List String) : ∀ nks : List String, (∀ n ∈ nks, n ∈ ns) →
    FieldsIn nks (nks.map G) (nks.map fun _ => false) ns (ns.map G) (ns.map fun _ => false)
  | [], _ => by simp [FieldsIn]
  | n :: nks, h => by
    simp only [List.map_cons, FieldsIn]
    exact ⟨find_graph G n ns (h n (by simp)), fieldsIn_graph G ns nks (fun x hx => h x (List.mem_cons_of_mem _ hx))⟩

/-! ### the round trip -/

mutual
theorem doc_rtD (env : JEnv) (hid : ∀ s, env.norm (env.norm s) = env.norm s) :
    ∀ d : Json, docValid env d = true → DocGoodU env d
  | .null, _ => ⟨.null, .null, by simp [impliedType, structTyU], by simp [unmarshal, structTyU],
      rfl, rfl, by simp [marshalKnown], by simp [canon, jsonEquiv]⟩
  | .bool b, _ => ⟨.b b, .bool b, by simp [impliedType, structTyU],
      by simp [unmarshal, unmarshalPrim, structTyU], rfl, rfl,
      by simp [marshalKnown, structTyU], by simp [canon, jsonEquiv]⟩
  | .str s, _ => ⟨.s (env.norm s), .str (env.norm s), by simp [impliedType, structTyU],
      by simp [unmarshal, unmarshalPrim, structTyU], rfl, rfl,
      by simp [marshalKnown, structTyU], by simp [canon, jsonEquiv, hid]⟩
  | .num l, h => by
    simp only [docValid] at h
    split at h
    · rename_i n hn
      obtain ⟨hinf, n', hp, hr⟩ := numOK_spec h
      exact ⟨.n n, .num (Num.textF n), by simp [impliedType, structTyU],
        by simp [unmarshal, unmarshalPrim, structTyU, hn, Res.map], rfl, rfl,
        by simp [marshalKnown, structTyU, hinf], by simp [canon, jsonEquiv, hp, hn, hr]⟩
    · simp at h
  | .arr xs, h => by
    obtain ⟨vals, ds, hi, _, hu, _, hty, hrm, hre, hlen⟩ := doc_rtDL env hid xs (by simpa [docValid] using h)
    have hl : vals.length = (structTyUL env.norm xs).length := by
      have := congrArg List.length hty; simpa using this
    have hm := marshalZip_of_All2 env vals ds hrm
    rw [hty] at hm
    refine ⟨.seq (vals.map (·.v)), .arr ds, by simp [impliedType, structTyU, hi, Res.map], ?_, rfl, rfl,
      by simp [marshalKnown, structTyU, hm, Res.map], ?_⟩
    · simp [unmarshal, structTyU, hu, hl, tupleVal, hty]
    · simp only [canon, jsonEquiv]
      exact jsonEquivL_of_All2 _ _ (by simpa [canonL_eq_map] using hre)
  | .obj ks vs, h => by
    have hvalid := h
    simp only [docValid, Bool.and_eq_true, beq_iff_eq] at h
    obtain ⟨⟨hkl, hok⟩, hnc⟩ := h
    obtain ⟨vals, ds, _, himp, _, hua, hty, hrm, hre, hlen⟩ := doc_rtDL env hid vs hok
    -- the member types are a function of the normalised key
    have hwfm := structTyUL_wf env vs hok
    have hclen : (ks.map env.norm).length = (structTyUL env.norm vs).length := by
      simp [structTyUL_length, hkl]
    have hagree := agreeL_of env ks vs _ hnc himp hwfm hkl
    have hG := agree_graph _ _ hclen hagree
    have hGwf := keyTy_wf (ks.map env.norm) (structTyUL env.norm vs) hwfm
    generalize hGdef : keyTy (ks.map env.norm) (structTyUL env.norm vs) = G at hG hGwf
    -- the attribute map of the implied type, as the generic sort
    have hbf := buildFields_eq_sortG env.norm ks (structTyUL env.norm vs)
    obtain ⟨hasc, hrlen, hrmem⟩ := buildFields_spec env.norm ks (structTyUL env.norm vs) (by simpa using hclen)
    have hr2 : (buildFields env.norm ks (structTyUL env.norm vs)).2 =
        (buildFields env.norm ks (structTyUL env.norm vs)).1.map G := by
      rw [hbf, hG]; exact sortG_graph G _
    have hvl : vals.length = vs.length := by
      have := congrArg List.length hty
      simp only [List.length_map, structTyUL_length] at this
      exact this
    -- ImpliedType
    have himpl : impliedType env (.obj ks vs) = .ok (structTyU env.norm (.obj ks vs)) := by
      have himp' : All2 (fun x u => impliedType env x = .ok u) vs (ks.map fun k => G (env.norm k)) := by
        have : (ks.map fun k => G (env.norm k)) = (ks.map env.norm).map G := by simp [List.map_map]
        rw [this, ← hG]; exact himp
      obtain ⟨aK', hm1, hm2⟩ := impliedMembers_dup env G hGwf ks vs [] hkl himp'
      simp only [List.map_nil] at hm1
      have hb' := buildFields_eq_sortG env.norm aK' (aK'.map fun k => G (env.norm k))
      have hmm : (aK'.map fun k => G (env.norm k)) = (aK'.map env.norm).map G := by simp [List.map_map]
      obtain ⟨hasc', _, hmem'⟩ := buildFields_spec env.norm aK' (aK'.map fun k => G (env.norm k)) (by simp)
      have hkeys : (buildFields env.norm aK' (aK'.map fun k => G (env.norm k))).1 =
          (buildFields env.norm ks (structTyUL env.norm vs)).1 := by
        apply asc_ext _ _ hasc' hasc
        intro x
        rw [hmem' x, hrmem x]
        simp only [List.mem_map]
        constructor
        · rintro ⟨a, ha, rfl⟩
          rcases (hm2 a).mp ha with h | h
          · simp at h
          · exact ⟨a, h, rfl⟩
        · rintro ⟨a, ha, rfl⟩
          exact ⟨a, (hm2 a).mpr (.inr ha), rfl⟩
      have hvals : (buildFields env.norm aK' (aK'.map fun k => G (env.norm k))).2 =
          (buildFields env.norm ks (structTyUL env.norm vs)).2 := by
        rw [hr2, ← hkeys, hb', hmm]; exact sortG_graph G _
      simp only [impliedType, hm1, normConflict_graph env.norm G hGwf aK', Bool.false_eq_true, if_false, structTyU,
        hkeys, hvals]
    -- the members are found under their normalised keys
    have hfi : FieldsIn (ks.map env.norm) (structTyUL env.norm vs) ((ks.map env.norm).map fun _ => false)
        (buildFields env.norm ks (structTyUL env.norm vs)).1 (buildFields env.norm ks (structTyUL env.norm vs)).2
        ((buildFields env.norm ks (structTyUL env.norm vs)).1.map fun _ => false) := by
      rw [hr2]
      conv => arg 2; rw [hG]
      exact fieldsIn_graph G _ _ (fun n hn => (hrmem n).mpr hn)
    have hfa := hua ks ((ks.map env.norm).map fun _ => false) _ _ _ hkl (by simp [hkl]) hfi
    -- `objectVal` picks, for every sorted key, the LAST decoded member under it
    have hkeysV : (sortG (ks.map env.norm) vals).1 = (sortG (ks.map env.norm) (structTyUL env.norm vs)).1 :=
      sortG_keys _ _ _ (by simp [hvl, structTyUL_length])
    have hov : objectVal (buildFields env.norm ks (structTyUL env.norm vs)).1
        (buildFields env.norm ks (structTyUL env.norm vs)).2 (ks.map env.norm) vals =
        (sortG (ks.map env.norm) vals).2 := by
      apply objectVal_of_lookups
      · exact hrlen
      · rw [hbf, ← hkeysV]
        have := sortG_lookLG (ks.map env.norm) vals (by simp [hvl, hkl])
        simpa [lookupLast_eq_lookLG] using this
    have htyS : ((sortG (ks.map env.norm) vals).2).map (·.ty) = (buildFields env.norm ks (structTyUL env.norm vs)).2 := by
      rw [hbf, ← hty, sortG_map]
    have hrmS := (sortG_rel (RM env) (ks.map env.norm) vals ds hrm).2
    have hmS := marshalZip_of_All2 env _ _ hrmS
    rw [htyS] at hmS
    have hdl : ds.length = vs.length := by rw [← All2_length hrm]; exact hvl
    refine ⟨.smap (buildFields env.norm ks (structTyUL env.norm vs)).1 (((sortG (ks.map env.norm) vals).2).map (·.v)),
      .obj (buildFields env.norm ks (structTyUL env.norm vs)).1 (sortG (ks.map env.norm) ds).2, himpl, ?_, rfl, rfl, ?_, ?_⟩
    · simp [unmarshal, structTyU, hfa, hov, htyS]
    · simp [marshalKnown, structTyU, hmS, Res.map]
    · have hns : (buildFields env.norm ks (structTyUL env.norm vs)).1.map env.norm =
          (buildFields env.norm ks (structTyUL env.norm vs)).1 :=
        map_norm_id env hid ks _ (fun x hx => (hrmem x).mp hx)
      have hkeysD : (sortG (ks.map env.norm) (canonL env vs)).1 = (buildFields env.norm ks (structTyUL env.norm vs)).1 := by
        rw [hbf]; exact sortG_keys _ _ _ (by simp [canonL_eq_map, structTyUL_length])
      have hlenS : (buildFields env.norm ks (structTyUL env.norm vs)).1.length =
          (canonL env (sortG (ks.map env.norm) ds).2).length := by
        rw [canonL_eq_map, List.length_map, ← sortG_length, hbf]
        exact congrArg List.length (sortG_keys _ _ _ (by simp [hdl, structTyUL_length]))
      simp only [canon, hns, sortMembers_eq_sortG, sortG_sorted _ _ hasc hlenS, jsonEquiv, hkeysD,
        beq_self_eq_true, Bool.true_and]
      apply jsonEquivL_of_All2
      rw [canonL_eq_map, ← sortG_map, canonL_eq_map]
      exact (sortG_rel _ (ks.map env.norm) _ _ (by simpa [canonL_eq_map] using hre)).2
theorem doc_rtDL (env : JEnv) (hid : ∀ s, env.norm (env.norm s) = env.norm s) :
    ∀ xs : List Json, docValidL env xs = true →
    ∃ (vals : List Value) (ds : List Json),
      impliedAll env xs = .ok (structTyUL env.norm xs) ∧
      All2 (fun x u => impliedType env x = .ok u) xs (structTyUL env.norm xs) ∧
      unmarshalZip env xs (structTyUL env.norm xs) = .ok vals ∧
      (∀ (ks : List String) (osK : List Bool) (ns : List String) (ts : List Ty) (os : List Bool),
        ks.length = xs.length → osK.length = xs.length →
        FieldsIn (ks.map env.norm) (structTyUL env.norm xs) osK ns ts os →
        unmarshalAttrs env ks xs ns ts os = .ok vals) ∧
      vals.map (·.ty) = structTyUL env.norm xs ∧
      All2 (RM env) vals ds ∧
      All2 (fun a b => jsonEquiv a b = true) (ds.map (canon env)) (xs.map (canon env)) ∧
      (structTyUL env.norm xs).length = xs.length
  | [], _ => ⟨[], [], rfl, trivial, by simp [unmarshalZip],
      fun ks _ _ _ _ hk _ _ => by
        have : ks = [] := List.eq_nil_of_length_eq_zero (by simpa using hk)
        subst this; simp [unmarshalAttrs],
      rfl, trivial, trivial, rfl⟩
  | x :: xs, h => by
    simp only [docValidL, Bool.and_eq_true] at h
    obtain ⟨p, d', hi, hu, hmk, hkn, hm, he⟩ := doc_rtD env hid x h.1
    obtain ⟨vals, ds, his, himps, hus, huas, htys, hrms, hres, hlen⟩ := doc_rtDL env hid xs h.2
    refine ⟨⟨structTyU env.norm x, p⟩ :: vals, d' :: ds, by simp [impliedAll, structTyUL, hi, his], ⟨hi, himps⟩,
      by simp [unmarshalZip, structTyUL, hu, hus], ?_, by simp [structTyUL, htys], ⟨⟨hmk, hkn, hm⟩, hrms⟩,
      ⟨he, hres⟩, by simp [structTyUL, hlen]⟩
    intro ks osK ns ts os hk ho hf
    cases ks with
    | nil => simp at hk
    | cons k ks =>
      cases osK with
      | nil => simp at ho
      | cons o osK =>
        simp only [structTyUL, List.map_cons, FieldsIn] at hf
        simp [unmarshalAttrs, hf.1, hu,
          huas ks osK ns ts os (by simpa using hk) (by simpa using ho) hf.2]
end

end JsonVal
end CtyModel
