/-
C20 (d20) — strict histories.  `Heap.run` SKIPS a step the model does not apply
(`(step st op).getD st`), so "all histories" in the `fingerprints_stable*` theorems
includes histories with arbitrarily many no-ops.  `runStrict` is the history in
which EVERY step applies; it is what the correspondence harness runs (a step the
model does not apply prints `!` and can never equal the `[...]` the real call
printed).  Every theorem about `run` restricts to it.
-/
import CtyModel.Lemmas.HeapInvF
namespace CtyModel
namespace Heap

/-- the history in which every step applies (`none` as soon as one does not) -/
def runStrict : St → List HeapOp → Option St
  | st, [] => some st
  | st, op :: ops => (step st op).bind fun st' => runStrict st' ops

theorem runStrict_run : ∀ (ops : List HeapOp) (st st' : St), runStrict st ops = some st' → run st ops = st' := by
  intro ops
  induction ops with
  | nil => intro st st' h; simpa [runStrict, run] using h
  | cons op ops ih =>
    intro st st' h
    simp only [runStrict, Option.bind_eq_some_iff] at h
    obtain ⟨st1, hs, hr⟩ := h
    simp only [run, hs, Option.getD_some]
    exact ih st1 st' hr

theorem runStrict_append : ∀ (a b : List HeapOp) (st : St),
    runStrict st (a ++ b) = (runStrict st a).bind fun st' => runStrict st' b := by
  intro a
  induction a with
  | nil => intro b st; simp [runStrict]
  | cons op a ih =>
    intro b st
    simp only [List.cons_append, runStrict]
    cases step st op with
    | none => simp
    | some st1 => simp [ih b st1]

/-- number of steps of a history the model applies -/
def applied : St → List HeapOp → Nat
  | _, [] => 0
  | st, op :: ops =>
    match step st op with
    | some st' => applied st' ops + 1
    | none => applied st ops

/-- a history is strict iff none of its steps is skipped -/
theorem runStrict_isSome_iff : ∀ (ops : List HeapOp) (st : St),
    (runStrict st ops).isSome = true ↔ applied st ops = ops.length := by
  intro ops
  induction ops with
  | nil => intro st; simp [runStrict, applied]
  | cons op ops ih =>
    intro st
    simp only [runStrict, applied, List.length_cons]
    cases hs : step st op with
    | none =>
      simp only [Option.bind_none, Option.isSome_none, Bool.false_eq_true, false_iff]
      have : ∀ (l : List HeapOp) (s : St), applied s l ≤ l.length := by
        intro l
        induction l with
        | nil => intro s; simp [applied]
        | cons o l ihl =>
          intro s
          simp only [applied, List.length_cons]
          cases step s o with
          | none => exact Nat.le_succ_of_le (ihl s)
          | some s1 => exact Nat.succ_le_succ (ihl s1)
      have := this ops st
      omega
    | some st1 =>
      simp only [Option.bind_some]
      rw [ih st1]
      omega

/-! ### applicability: in a state in order, calls on value registers of the right kind apply -/

theorem num_applies {st : St} (hi : Inv st) {v : Nat} {t : Word} {a : Addr} (hv : st.val v = some (t, .num a)) :
    ∃ x, floatOf st.mem a = some x := by
  obtain ⟨_, hp⟩ := val_frozen hi hv
  obtain ⟨x, hm⟩ := frozen_num.mp (hp 1)
  exact ⟨x, by simp [floatOf, hm]⟩

theorem marked_applies {st : St} (hi : Inv st) {v : Nat} {t r : Word} {ms : Addr}
    (hv : st.val v = some (t, .marked ms r)) : ∃ l, marksOf st.mem ms = some l := by
  obtain ⟨_, hp⟩ := val_frozen hi hv
  obtain ⟨⟨l, hm⟩, _⟩ := frozen_marked.mp (hp 1)
  exact ⟨l, by simp [marksOf, hm]⟩

/-- number accessors / operations apply to every number value register -/
theorem number_calls_apply {st : St} (hi : Inv st) {v w : Nat} {t t' : Word} {a b : Addr}
    (hv : st.val v = some (t, .num a)) (hw : st.val w = some (t', .num b)) :
    (step st (.api (.asBigFloat v))).isSome = true ∧ (step st (.api (.opNegate v))).isSome = true ∧
    (step st (.api (.opAdd v w))).isSome = true := by
  obtain ⟨x, hx⟩ := num_applies hi hv
  obtain ⟨y, hy⟩ := num_applies hi hw
  simp [step, stepApi, hv, hw, hx, hy]

/-- the mark calls apply to every value register -/
theorem mark_calls_apply {st : St} (hi : Inv st) {v w : Nat} {t p t' q : Word} (mk : String)
    (hv : st.val v = some (t, p)) (hw : st.val w = some (t', q)) :
    (step st (.api (.marks v))).isSome = true ∧ (step st (.api (.unmark v))).isSome = true ∧
    (step st (.api (.mark v mk))).isSome = true ∧ (step st (.api (.withSameMarks v w))).isSome = true := by
  refine ⟨?_, ?_, ?_, ?_⟩
  · cases p with
    | marked ms r =>
      obtain ⟨l, hl⟩ := marked_applies hi hv
      simp [step, stepApi, hv, hl]
    | _ => simp [step, stepApi, hv]
  · cases p with
    | marked ms r =>
      obtain ⟨l, hl⟩ := marked_applies hi hv
      simp [step, stepApi, hv, hl]
    | _ => simp [step, stepApi, hv]
  · simp [step, stepApi, hv]
  · simp only [step, stepApi, hv, hw, Option.bind_eq_bind, Option.bind_some]
    split <;> simp

end Heap
end CtyModel
