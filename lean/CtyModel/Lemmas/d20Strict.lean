/-
C20 (d20) — strict histories.  `Heap.run` SKIPS a step the model does not apply
(`(step st op).getD st`), so "all histories" in the `fingerprints_stable*` theorems
includes histories with arbitrarily many no-ops.  `runStrict` is the history in
which EVERY step applies; it is what the correspondence harness runs (a step the
model does not apply prints `!` and can never equal the `[...]` the real call
printed).  Every theorem about `run` restricts to it.
-/
import CtyModel.Lemmas.HeapInvF
namespace CtyModel
namespace Heap

/-- the history in which every step applies (`none` as soon as one does not) -/
def runStrict : St → List HeapOp → Option St
  | st, [] => some st
  | st, op :: ops => (step st op).bind fun st' => runStrict st' ops

theorem runStrict_run : ∀ (ops : List HeapOp) (st st' : St), runStrict st ops = some st' → run st ops = st' := by
  intro ops
  induction ops with
  | nil => intro st st' h; simpa [runStrict, run] using h
  | cons op ops ih =>
    intro st st' h
    simp only [runStrict, Option.bind_eq_some_iff] at h
    obtain ⟨st1, hs, hr⟩ := h
    simp only [run, hs, Option.getD_some]
    exact ih st1 st' hr

theorem runStrict_append : ∀ (a b : List HeapOp) (st : St),
    runStrict st (a ++ b) = (runStrict st a).bind fun st' => runStrict st' b := by
  intro a
  induction a with
  | nil => intro b st; simp [runStrict]
  | cons op a ih =>
    intro b st
    simp only [List.cons_append, runStrict]
    cases step st op with
    | none => simp
    | some st1 => simp [ih b st1]

/-- number of steps of a history the model applies -/
def applied : St → List HeapOp → Nat
  | _, [] => 0
  | st, op :: ops =>
    match step st op with
    | some st' => applied st' ops + 1
    | none => applied st ops

/-- a history is strict iff none of its steps is skipped -/
theorem runStrict_isSome_iff : ∀ (ops : List HeapOp) (st : St),
    (runStrict st ops).isSome = true ↔ applied st ops = ops.length := by
  intro ops
  induction ops with
  | nil => intro st; simp [runStrict, applied]
  | cons op ops ih =>
    intro st
    simp only [runStrict, applied, List.length_cons]
    cases hs : step st op with
    | none =>
      simp only [Option.bind_none, Option.isSome_none, Bool.false_eq_true, false_iff]
      have : ∀ (l : List HeapOp) (s : St), applied s l ≤ l.length := by
        intro l
        induction l with
        | nil => intro s; simp [applied]
        | cons o l ihl =>
          intro s
          simp only [applied, List.length_cons]
          cases step s o with
          | none => exact Nat.le_succ_of_le (ihl s)
          | some s1 => exact Nat.succ_le_succ (ihl s1)
      have := this ops st
      omega
    | some st1 =>
      simp only [Option.bind_some]
      rw [ih st1]
      omega

end Heap
end CtyModel
