/-
C05: a builder call that contradicts what is already recorded, or the known
value being refined, is not accepted.

* `step_known`: a call accepted on a known receiver holds of that value.
* `step_rejects`: a range constraint that leaves no non-null value where there was
  one is not accepted — except for exclusive bounds at an infinity
  (`RefineCall.exclusiveInfinite`), which the code accepts.
-/
import CtyModel.Lemmas.RefineRun
namespace CtyModel
namespace Refine
open NumCmp

variable [ExactOracle]

/-! ## vocabulary -/

/-- constraints on the range (everything but `NotNull` / `Null`) -/
def RefineCall.isRange : RefineCall → Bool
  | .notNull | .null => false
  | _ => true

def NumArg.isPosInf : NumArg → Bool
  | .posInf => true
  | .known (.inf false) => true
  | _ => false

def NumArg.isNegInf : NumArg → Bool
  | .negInf => true
  | .known (.inf true) => true
  | _ => false

/-- an *exclusive* bound at an infinity that the builder accepts although it leaves
nothing, or drops: `> +∞`, `< −∞`, and `> cty.NegativeInfinity`, `< cty.PositiveInfinity`
(the singletons) -/
def RefineCall.exclusiveInfinite : RefineCall → Bool
  | .numLower a false => a.isPosInf || a == .negInf
  | .numUpper a false => a.isNegInf || a == .posInf
  | _ => false

/-! ## witnesses inside a consistent interval -/

omit [ExactOracle] in
theorem lt_posInf {m : Num} (h : m ≠ .inf false) : Lt m (.inf false) := by
  unfold Lt
  have h1 := cmp_posInf m
  have h2 := mt (cmp_posInf_eq m).mp h
  omega

omit [ExactOracle] in
theorem negInf_lt {m : Num} (h : m ≠ .inf true) : Lt (.inf true) m := by
  have h1 := cmp_negInf m
  have h2 := mt (cmp_negInf_eq m).mp h
  have h3 := cmp_swap m (.inf true)
  unfold Lt; omega

theorem lower_witness {m : Num} {incl : Bool} {hi : Option Bound}
    (hc : consistent? (some ⟨m, incl⟩) hi = some true) (hinf : incl = false → m ≠ .inf false) :
    ∃ y, aboveLower (some ⟨m, incl⟩) y = true ∧ belowUpper hi y = true := by
  cases hi with
  | none =>
    cases incl with
    | true => exact ⟨m, aboveLower_incl.mpr (Le.refl m), rfl⟩
    | false =>
      have := between_spec (lt_posInf (hinf rfl))
      exact ⟨_, aboveLower_excl.mpr this.1, rfl⟩
  | some w =>
    obtain ⟨h, hincl⟩ := w
    unfold consistent? at hc
    cases incl <;> cases hincl <;> simp at hc
    · have := between_spec (lt_iff.mp hc)
      exact ⟨_, aboveLower_excl.mpr this.1, belowUpper_excl.mpr this.2⟩
    · exact ⟨h, aboveLower_excl.mpr (lt_iff.mp hc), belowUpper_incl.mpr (Le.refl h)⟩
    · exact ⟨m, aboveLower_incl.mpr (Le.refl m), belowUpper_excl.mpr (lt_iff.mp hc)⟩
    · exact ⟨m, aboveLower_incl.mpr (Le.refl m), belowUpper_incl.mpr (le?_true hc)⟩

theorem upper_witness {m : Num} {incl : Bool} {lo : Option Bound}
    (hc : consistent? lo (some ⟨m, incl⟩) = some true) (hinf : incl = false → m ≠ .inf true) :
    ∃ y, aboveLower lo y = true ∧ belowUpper (some ⟨m, incl⟩) y = true := by
  cases lo with
  | none =>
    cases incl with
    | true => exact ⟨m, rfl, belowUpper_incl.mpr (Le.refl m)⟩
    | false =>
      have := between_spec (negInf_lt (hinf rfl))
      exact ⟨_, rfl, belowUpper_excl.mpr this.2⟩
  | some w =>
    obtain ⟨l, lincl⟩ := w
    unfold consistent? at hc
    cases incl <;> cases lincl <;> simp at hc
    · have := between_spec (lt_iff.mp hc)
      exact ⟨_, aboveLower_excl.mpr this.1, belowUpper_excl.mpr this.2⟩
    · exact ⟨l, aboveLower_incl.mpr (Le.refl l), belowUpper_excl.mpr (lt_iff.mp hc)⟩
    · exact ⟨m, aboveLower_excl.mpr (lt_iff.mp hc), belowUpper_incl.mpr (Le.refl m)⟩
    · exact ⟨m, aboveLower_incl.mpr (le?_true hc), belowUpper_incl.mpr (Le.refl m)⟩

/-! ## γ of a number / length / string refinement, element-wise -/

omit [ExactOracle] in
theorem γ_num_num (t : Ty) (n : Tri) (lo hi : Option Bound) (y0 y : Num) :
    γ t (.num n lo hi) (.num y) =
      (Conc.kindOk t (.num y0) && nullOk n (.num y0) && (aboveLower lo y && belowUpper hi y)) := rfl

omit [ExactOracle] in
theorem γ_coll_coll (t : Ty) (n : Tri) (lo hi : Int) (k0 k : Nat) :
    γ t (.coll n lo hi) (.coll k) =
      (Conc.kindOk t (.coll k0) && nullOk n (.coll k0) && (decide (lo ≤ (k : Int)) && decide ((k : Int) ≤ hi))) := rfl

omit [ExactOracle] in
theorem γ_str_str (t : Ty) (n : Tri) (p : String) (s0 s : List UInt8) :
    γ t (.str n p) (.str s) =
      (Conc.kindOk t (.str s0) && nullOk n (.str s0) && (bytes p).isPrefixOf s) := rfl

/-! ## rejection, method by method -/

section
variable {b : Builder}

theorem stepNumLower_rejects {a : NumArg} {incl : Bool}
    (hx : (RefineCall.numLower a incl).exclusiveInfinite = false)
    (h1 : ∃ x, x ≠ .null ∧ γB b x = true)
    (h2 : ∀ x, x ≠ .null → (γB b x && den (.numLower a incl) x) = false) (b' : Builder) :
    stepNumLower b a incl ≠ .ok b' := by
  intro h
  obtain ⟨n, lo, hi, hw, hcase⟩ := stepNumLower_ok h
  obtain ⟨x0, hx0n, hx0⟩ := h1
  cases x0 with
  | null => exact hx0n rfl
  | str s => have := h2 _ hx0n; simp [den, hx0] at this
  | coll k => have := h2 _ hx0n; simp [den, hx0] at this
  | other => have := h2 _ hx0n; simp [den, hx0] at this
  | num y0 =>
    rw [γB_of_wip hw, γ_num_num _ _ _ _ y0 y0] at hx0
    simp only [Bool.and_eq_true] at hx0
    obtain ⟨hkn, hlo0, hhi0⟩ := hx0
    -- no number satisfies the recorded bounds and the new one
    have H : ∀ y, aboveLower lo y = true → belowUpper hi y = true → argLower a incl y = true → False := by
      intro y hl hh ha
      have := h2 (.num y) (by simp)
      rw [γB_of_wip hw, γ_num_num _ _ _ _ y0 y] at this
      simp [den, hkn, hl, hh, ha] at this
    rcases hcase with ⟨rfl, _⟩ | ⟨m, hm, hcore⟩
    · exact H y0 hlo0 hhi0 rfl
    · obtain ⟨_, hc⟩ := lowerCore_ok hcore
      rcases hc with ⟨_, ht⟩ | ⟨ht, _, hcons⟩
      · exact H y0 hlo0 hhi0 (by rw [argLower_of_num? hm]; exact lowerTighter_false ht hlo0)
      · by_cases hneg : a = .negInf
        · subst hneg
          have hi' : incl = true := by
            cases incl
            · have hb : (NumArg.negInf == NumArg.negInf) = true := rfl
              simp [RefineCall.exclusiveInfinite, NumArg.isPosInf, hb] at hx
            · rfl
          subst hi'
          exact H y0 hlo0 hhi0 (by simp [argLower, aboveLower_negInf_incl])
        · have hst : (a != NumArg.negInf) = true := by cases a <;> first | rfl | exact absurd rfl hneg
          rw [hst] at hcons
          simp only [if_true] at hcons
          have hinf : incl = false → m ≠ .inf false := by
            intro hi' hmi
            subst hi' hmi
            cases a <;> simp_all [NumArg.num?, RefineCall.exclusiveInfinite, NumArg.isPosInf]
          obtain ⟨y, hy1, hy2⟩ := lower_witness hcons hinf
          exact H y (lowerTighter_true ht hy1) hy2 (by rw [argLower_of_num? hm]; exact hy1)

theorem stepNumUpper_rejects {a : NumArg} {incl : Bool}
    (hx : (RefineCall.numUpper a incl).exclusiveInfinite = false)
    (h1 : ∃ x, x ≠ .null ∧ γB b x = true)
    (h2 : ∀ x, x ≠ .null → (γB b x && den (.numUpper a incl) x) = false) (b' : Builder) :
    stepNumUpper b a incl ≠ .ok b' := by
  intro h
  obtain ⟨n, lo, hi, hw, hcase⟩ := stepNumUpper_ok h
  obtain ⟨x0, hx0n, hx0⟩ := h1
  cases x0 with
  | null => exact hx0n rfl
  | str s => have := h2 _ hx0n; simp [den, hx0] at this
  | coll k => have := h2 _ hx0n; simp [den, hx0] at this
  | other => have := h2 _ hx0n; simp [den, hx0] at this
  | num y0 =>
    rw [γB_of_wip hw, γ_num_num _ _ _ _ y0 y0] at hx0
    simp only [Bool.and_eq_true] at hx0
    obtain ⟨hkn, hlo0, hhi0⟩ := hx0
    have H : ∀ y, aboveLower lo y = true → belowUpper hi y = true → argUpper a incl y = true → False := by
      intro y hl hh ha
      have := h2 (.num y) (by simp)
      rw [γB_of_wip hw, γ_num_num _ _ _ _ y0 y] at this
      simp [den, hkn, hl, hh, ha] at this
    rcases hcase with ⟨rfl, _⟩ | ⟨m, hm, hcore⟩
    · exact H y0 hlo0 hhi0 rfl
    · obtain ⟨_, hc⟩ := upperCore_ok hcore
      rcases hc with ⟨_, ht⟩ | ⟨ht, _, hcons⟩
      · exact H y0 hlo0 hhi0 (by rw [argUpper_of_num? hm]; exact upperTighter_false ht hhi0)
      · by_cases hpos : a = .posInf
        · subst hpos
          have hi' : incl = true := by
            cases incl
            · have hb : (NumArg.posInf == NumArg.posInf) = true := rfl
              simp [RefineCall.exclusiveInfinite, NumArg.isNegInf, hb] at hx
            · rfl
          subst hi'
          exact H y0 hlo0 hhi0 (by simp [argUpper, belowUpper_posInf_incl])
        · have hst : (a != NumArg.posInf) = true := by cases a <;> first | rfl | exact absurd rfl hpos
          rw [hst] at hcons
          simp only [if_true] at hcons
          have hinf : incl = false → m ≠ .inf true := by
            intro hi' hmi
            subst hi' hmi
            cases a <;> simp_all [NumArg.num?, RefineCall.exclusiveInfinite, NumArg.isNegInf]
          obtain ⟨y, hy1, hy2⟩ := upper_witness hcons hinf
          exact H y hy1 (upperTighter_true ht hy2) (by rw [argUpper_of_num? hm]; exact hy2)

omit [ExactOracle] in
theorem stepLenLower_rejects {n : Int}
    (h1 : ∃ x, x ≠ .null ∧ γB b x = true)
    (h2 : ∀ x, x ≠ .null → (γB b x && den (.lenLower n) x) = false) (b' : Builder) :
    stepLenLower b n ≠ .ok b' := by
  intro h
  obtain ⟨nl, lo, hi, hw, hcase, _⟩ := stepLenLower_ok h
  obtain ⟨x0, hx0n, hx0⟩ := h1
  cases x0 with
  | null => exact hx0n rfl
  | str s => have := h2 _ hx0n; simp [den, hx0] at this
  | num y => have := h2 _ hx0n; simp [den, hx0] at this
  | other => have := h2 _ hx0n; simp [den, hx0] at this
  | coll k0 =>
    rw [γB_of_wip hw, γ_coll_coll _ _ _ _ k0 k0] at hx0
    simp only [Bool.and_eq_true, decide_eq_true_eq] at hx0
    obtain ⟨hkn, hlo0, hhi0⟩ := hx0
    have H : ∀ k : Nat, lo ≤ (k : Int) → (k : Int) ≤ hi → n ≤ (k : Int) → False := by
      intro k hl hh ha
      have := h2 (.coll k) (by simp)
      rw [γB_of_wip hw, γ_coll_coll _ _ _ _ k0 k] at this
      simp [den, hkn, hl, hh, ha] at this
    rcases hcase with ⟨_, hlt⟩ | ⟨h3, h4, _⟩
    · exact H k0 hlo0 hhi0 (by omega)
    · exact H n.toNat (by omega) (by omega) (by omega)

omit [ExactOracle] in
theorem stepLenUpper_rejects {n : Int} (hlen : b.wip.lenOk = true)
    (h1 : ∃ x, x ≠ .null ∧ γB b x = true)
    (h2 : ∀ x, x ≠ .null → (γB b x && den (.lenUpper n) x) = false) (b' : Builder) :
    stepLenUpper b n ≠ .ok b' := by
  intro h
  obtain ⟨nl, lo, hi, hw, hcase, _⟩ := stepLenUpper_ok h
  rw [hw] at hlen
  simp only [Rfn.lenOk, decide_eq_true_eq] at hlen
  obtain ⟨x0, hx0n, hx0⟩ := h1
  cases x0 with
  | null => exact hx0n rfl
  | str s => have := h2 _ hx0n; simp [den, hx0] at this
  | num y => have := h2 _ hx0n; simp [den, hx0] at this
  | other => have := h2 _ hx0n; simp [den, hx0] at this
  | coll k0 =>
    rw [γB_of_wip hw, γ_coll_coll _ _ _ _ k0 k0] at hx0
    simp only [Bool.and_eq_true, decide_eq_true_eq] at hx0
    obtain ⟨hkn, hlo0, hhi0⟩ := hx0
    have H : ∀ k : Nat, lo ≤ (k : Int) → (k : Int) ≤ hi → (k : Int) ≤ n → False := by
      intro k hl hh ha
      have := h2 (.coll k) (by simp)
      rw [γB_of_wip hw, γ_coll_coll _ _ _ _ k0 k] at this
      simp [den, hkn, hl, hh, ha] at this
    rcases hcase with ⟨_, hlt⟩ | ⟨h3, h4, _⟩
    · exact H k0 hlo0 hhi0 (by omega)
    · exact H lo.toNat (by omega) (by omega) (by omega)

omit [ExactOracle] in
theorem stepPrefix_rejects {p : String} (c : RefineCall) (hc : c = .stringPrefix p ∨ c = .stringPrefixFull p)
    (h1 : ∃ x, x ≠ .null ∧ γB b x = true)
    (h2 : ∀ x, x ≠ .null → (γB b x && den c x) = false) (b' : Builder) :
    stepPrefix b p ≠ .ok b' := by
  intro h
  obtain ⟨n, q, hw, ho, _, _⟩ := stepPrefix_ok h
  obtain ⟨x0, hx0n, hx0⟩ := h1
  have hden : ∀ x, den c x = den (.stringPrefix p) x := by
    intro x; rcases hc with rfl | rfl <;> cases x <;> rfl
  cases x0 with
  | null => exact hx0n rfl
  | coll k => have := h2 _ hx0n; rw [hden] at this; simp [den, hx0] at this
  | num y => have := h2 _ hx0n; rw [hden] at this; simp [den, hx0] at this
  | other => have := h2 _ hx0n; rw [hden] at this; simp [den, hx0] at this
  | str s0 =>
    rw [γB_of_wip hw, γ_str_str _ _ _ s0 s0] at hx0
    simp only [Bool.and_eq_true] at hx0
    obtain ⟨hkn, _⟩ := hx0
    -- the merged prefix itself is a string that has both prefixes
    let w := if (bytes p).length > (bytes q).length then bytes p else bytes q
    have hwq : ((bytes q).isPrefixOf w && (bytes p).isPrefixOf w) = true := by
      rw [← merged_prefix ho]
      exact List.isPrefixOf_iff_prefix.mpr (List.prefix_refl _)
    simp only [Bool.and_eq_true] at hwq
    have := h2 (.str w) (by simp)
    rw [γB_of_wip hw, γ_str_str _ _ _ s0 w, hden] at this
    simp [den, hkn, hwq.1, hwq.2] at this

end

/-! ## rejection for `step` -/

omit [ExactOracle] in
theorem exclusiveInfinite_lower_incl (a : NumArg) : (RefineCall.numLower a true).exclusiveInfinite = false := rfl
omit [ExactOracle] in
theorem exclusiveInfinite_upper_incl (a : NumArg) : (RefineCall.numUpper a true).exclusiveInfinite = false := rfl

omit [ExactOracle] in
/-- the shared shape of the two-call shorthands: if nothing non-null satisfies both
constraints, one of the two calls is not accepted -/
theorem two_calls_reject {b : Builder} {c1 c2 : RefineCall}
    (f1 f2 : Builder → Res Builder)
    (e1 : ∀ {b b'}, f1 b = .ok b' → Effect b b' c1) (hd1 : c1.dropped = false)
    (r1 : ∀ {b : Builder}, (∃ x, x ≠ .null ∧ γB b x = true) →
      (∀ x, x ≠ .null → (γB b x && den c1 x) = false) → ∀ b', f1 b ≠ .ok b')
    (r2 : ∀ {b : Builder}, b.wip.lenOk = true → (∃ x, x ≠ .null ∧ γB b x = true) →
      (∀ x, x ≠ .null → (γB b x && den c2 x) = false) → ∀ b', f2 b ≠ .ok b')
    (hw : b.wip.lenOk = true)
    (h1 : ∃ x, x ≠ .null ∧ γB b x = true)
    (h2 : ∀ x, x ≠ .null → (γB b x && (den c1 x && den c2 x)) = false) (b' : Builder) :
    (f1 b).bind f2 ≠ .ok b' := by
  intro h
  cases hf : f1 b with
  | ok b1 =>
    rw [hf] at h
    simp only [Res.bind] at h
    have e := e1 hf
    have g := e.2.2.2
    simp only [hd1, Bool.false_eq_true, if_false] at g
    by_cases hne : ∃ x, x ≠ .null ∧ γB b1 x = true
    · exact r2 (e.2.2.1 hw) hne (fun x hx => by rw [g, Bool.and_assoc]; exact h2 x hx) b' h
    · refine r1 h1 (fun x hx => ?_) b1 hf
      rw [← g]
      cases hg : γB b1 x
      · rfl
      · exact absurd ⟨x, hx, hg⟩ hne
  | err e => rw [hf] at h; simp [Res.bind] at h
  | panic w => rw [hf] at h; simp [Res.bind] at h
  | unmodelled => rw [hf] at h; simp [Res.bind] at h

/-- a range constraint that leaves no non-null value, where there was one, is not
accepted — unless it is an exclusive bound at an infinity -/
theorem step_rejects {b : Builder} {c : RefineCall} (hw : b.wf = true) (hlen : b.wip.lenOk = true)
    (hr : c.isRange = true) (hx : c.exclusiveInfinite = false)
    (h1 : ∃ x, x ≠ .null ∧ γB b x = true)
    (h2 : ∀ x, x ≠ .null → (γB b x && den c x) = false) (b' : Builder) :
    step b c ≠ .ok b' := by
  intro h
  by_cases hd : b.isDyn = true
  · -- DynamicVal: the call is ignored, but then the witness of `h1` satisfies no constraint…
    -- a DynamicVal builder has `wip = .unref`, whose γ admits every value of every kind
    rw [step_dyn hd] at h
    obtain ⟨x0, hx0n, hx0⟩ := h1
    have := h2 x0 hx0n
    rw [hx0] at this
    simp only [Bool.true_and] at this
    -- pick a witness of another kind: DynamicVal admits all kinds
    unfold Builder.isDyn isDynVal at hd
    split at hd
    · rename_i hty hv
      have hwf := hw
      unfold Builder.wf at hwf
      simp only [Bool.and_eq_true, Bool.or_eq_true] at hwf
      have hk : b.orig.isKnown = false := by simp [Value.isKnown, Payload.isKnown, Payload.unmark1, hv]
      rw [hk] at hwf
      have hkind := hwf.2
      simp only [Bool.false_eq_true, false_or] at hkind
      rw [hty] at hkind
      -- kindOk .dyn r = true only for r = .unref
      have hu : b.wip = .unref := by
        cases hwip : b.wip <;> simp [hwip, kindOk] at hkind ⊢
      -- every non-null x of any kind is admitted; choose one on which `den c` holds
      have adm : ∀ x, x ≠ Conc.null → γB b x = true := by
        intro x hx
        unfold γB γ
        rw [hty, hu]
        cases x <;> first | exact absurd rfl hx | rfl
      cases c with
      | notNull => simp [RefineCall.isRange] at hr
      | null => simp [RefineCall.isRange] at hr
      | numLower a i => have := h2 .other (by simp); rw [adm _ (by simp)] at this; simp [den] at this
      | numUpper a i => have := h2 .other (by simp); rw [adm _ (by simp)] at this; simp [den] at this
      | numRangeInclusive lo hi => have := h2 .other (by simp); rw [adm _ (by simp)] at this; simp [den] at this
      | lenLower n => have := h2 .other (by simp); rw [adm _ (by simp)] at this; simp [den] at this
      | lenUpper n => have := h2 .other (by simp); rw [adm _ (by simp)] at this; simp [den] at this
      | collectionLength n => have := h2 .other (by simp); rw [adm _ (by simp)] at this; simp [den] at this
      | stringPrefix p => have := h2 .other (by simp); rw [adm _ (by simp)] at this; simp [den] at this
      | stringPrefixFull p => have := h2 .other (by simp); rw [adm _ (by simp)] at this; simp [den] at this
    · simp at hd
  · have hd' : b.isDyn = false := by simpa using hd
    unfold step at h
    rw [hd'] at h
    simp only [Bool.false_eq_true, if_false] at h
    split at h
    · simp at h
    · cases c with
      | notNull => simp [RefineCall.isRange] at hr
      | null => simp [RefineCall.isRange] at hr
      | numLower a incl => exact stepNumLower_rejects hx h1 h2 b' h
      | numUpper a incl => exact stepNumUpper_rejects hx h1 h2 b' h
      | lenLower n => exact stepLenLower_rejects h1 h2 b' h
      | lenUpper n => exact stepLenUpper_rejects hlen h1 h2 b' h
      | stringPrefix p => exact stepPrefix_rejects _ (.inl rfl) h1 h2 b' h
      | stringPrefixFull p => exact stepPrefix_rejects _ (.inr rfl) h1 h2 b' h
      | numRangeInclusive lo hi =>
        refine two_calls_reject (c1 := .numLower lo true) (c2 := .numUpper hi true)
          (fun b => stepNumLower b lo true) (fun b => stepNumUpper b hi true)
          stepNumLower_effect (dropped_lower_incl _)
          (fun h1 h2 => stepNumLower_rejects (exclusiveInfinite_lower_incl _) h1 h2)
          (fun _ h1 h2 => stepNumUpper_rejects (exclusiveInfinite_upper_incl _) h1 h2)
          hlen h1 (fun x hx => by rw [← den_rangeInclusive]; exact h2 x hx) b' h
      | collectionLength n =>
        refine two_calls_reject (c1 := .lenLower n) (c2 := .lenUpper n)
          (fun b => stepLenLower b n) (fun b => stepLenUpper b n)
          stepLenLower_effect rfl
          (fun h1 h2 => stepLenLower_rejects h1 h2)
          (fun hw' h1 h2 => stepLenUpper_rejects hw' h1 h2)
          hlen h1 (fun x hx => by rw [← den_collectionLength]; exact h2 x hx) b' h

/-- `Null()` on a receiver that does not admit null is not accepted -/
theorem step_null_rejects {b : Builder} (hd : b.isDyn = false) (h1 : γB b .null = false) (b' : Builder) :
    step b .null ≠ .ok b' := by
  intro h
  unfold step at h
  rw [hd] at h
  simp only [Bool.false_eq_true, if_false] at h
  split at h
  · simp at h
  · obtain ⟨_, hn, _⟩ := stepNull_ok h
    unfold γB γ at h1
    rw [rangeOk_null] at h1
    cases hn' : b.wip.nullness <;> simp_all [nullOk, Conc.kindOk] <;> exact absurd h1 (by decide)

/-- `NotNull()` on a receiver that admits no non-null value, although its recorded
range is satisfiable (i.e. one that is definitely null), is not accepted -/
theorem step_notNull_rejects {b : Builder} (hd : b.isDyn = false)
    (h1 : ∃ x, x ≠ .null ∧ Conc.kindOk b.orig.ty x = true ∧ rangeOk b.wip x = true)
    (h2 : ∀ x, x ≠ .null → γB b x = false) (b' : Builder) :
    step b .notNull ≠ .ok b' := by
  intro h
  unfold step at h
  rw [hd] at h
  simp only [Bool.false_eq_true, if_false] at h
  split at h
  · simp at h
  · obtain ⟨_, hn, _⟩ := stepNotNull_ok h
    obtain ⟨x, hx, hk, hr⟩ := h1
    have := h2 x hx
    unfold γB γ at this
    rw [hk, hr] at this
    cases x <;> cases hn' : b.wip.nullness <;> simp_all [nullOk] <;> exact absurd this (by decide)

end Refine
end CtyModel
