/-
C17 (MessagePack half) — the allocation cost model of the decoder (`D17.allocCost`,
`D17.allocCostCut`, CtyModel/d17Msgpack.lean) is bounded by the size of the document:

* on a complete item tree, with ANY `hint` that never exceeds the announced length, the slots
  requested are at most `wireSize` (every member that is announced is there, and costs a byte);
* on a document cut off after a length header, with a `hint` that also never exceeds `M`
  (`allocHint`: `M = 1024`), at most `M` slots per byte of the document.
-/
import CtyModel.d17Msgpack
namespace CtyModel
namespace D17
open Msgpack

theorem allocHint_le (n : Nat) : allocHint n ≤ n := by unfold allocHint; split <;> omega
theorem allocHint_le_max (n : Nat) : allocHint n ≤ allocHintMax := by unfold allocHint; split <;> omega

mutual
theorem length_le_wireSizeL : ∀ xs : List Item, xs.length ≤ wireSizeL xs
  | [] => by simp [wireSizeL]
  | x :: xs => by
    have h1 := one_le_wireSize x
    have h2 := length_le_wireSizeL xs
    simp only [wireSizeL, List.length_cons]; omega
theorem one_le_wireSize : ∀ x : Item, 1 ≤ wireSize x
  | .nil | .bool _ | .int _ | .uint _ | .f32 _ | .f64 _ | .fnan | .str _ | .bin _ | .binj _ | .arr _ | .map _ _
  | .ext _ _ _ _ => by simp [wireSize] <;> omega
end

section
variable (hint : Nat → Nat) (hh : ∀ n, hint n ≤ n) (E : Ext)
include hh

mutual
theorem allocCost_le : ∀ (it : Item) (ty : Ty), allocCost hint E it ty + 1 ≤ 2 * wireSize it
  | .ext code len hdr stream, ty => by
    have h := allocCostAll_le stream boundTy
    simp only [allocCost, wireSize]
    repeat' split
    all_goals omega
  | .arr xs, ty => by
    have hl := length_le_wireSizeL xs
    cases ty with
    | dyn => exact allocCostArrDyn_le xs
    | list e =>
      have h := allocCostAll_le xs e
      have := hh xs.length
      simp only [allocCost, wireSize]; split <;> omega
    | set e =>
      have h := allocCostAll_le xs e
      have := hh xs.length
      simp only [allocCost, wireSize]; split <;> omega
    | tuple es =>
      have h := allocCostZip_le xs es
      have := hh xs.length
      simp only [allocCost, wireSize]; repeat' split
      all_goals omega
    | _ => simp [allocCost, wireSize] <;> omega
  | .map ks vs, ty => by
    have hl := length_le_wireSizeL ks
    cases ty with
    | map e =>
      have h := allocCostAll_le vs e
      have := hh ks.length
      simp only [allocCost, wireSize]; split <;> omega
    | object ns ts os =>
      have h := allocCostAttrs_le ks vs ns ts os
      have := hh ks.length
      simp only [allocCost, wireSize]; repeat' split
      all_goals omega
    | _ => simp [allocCost, wireSize] <;> omega
  | .nil, _ | .bool _, _ | .int _, _ | .uint _, _ | .f32 _, _ | .f64 _, _ | .fnan, _ | .str _, _ | .bin _, _
  | .binj _, _ => by simp [allocCost, wireSize] <;> omega
theorem allocCostArrDyn_le : ∀ xs : List Item, allocCost hint E (.arr xs) .dyn + 1 ≤ 2 * wireSize (.arr xs)
  | [] => by simp [allocCost, wireSize] <;> omega
  | [_] => by simp [allocCost, wireSize] <;> omega
  | _ :: _ :: _ :: _ => by simp [allocCost, wireSize] <;> omega
  | [tj, body] => by
    have hj := one_le_wireSize tj
    have h := fun t => allocCost_le body t
    simp only [allocCost, wireSize, wireSizeL]
    split
    · rename_i ty' _
      have := h ty'
      omega
    · omega
theorem allocCostAll_le : ∀ (xs : List Item) (e : Ty), allocCostAll hint E xs e + xs.length ≤ 2 * wireSizeL xs
  | [], _ => by simp [allocCostAll, wireSizeL]
  | x :: xs, e => by
    have h1 := allocCost_le x e
    have h2 := allocCostAll_le xs e
    simp only [allocCostAll, wireSizeL, List.length_cons]; omega
theorem allocCostZip_le : ∀ (xs : List Item) (es : List Ty), allocCostZip hint E xs es + xs.length ≤ 2 * wireSizeL xs
  | [], _ => by simp [allocCostZip, wireSizeL]
  | x :: xs, [] => by
    have := length_le_wireSizeL (x :: xs)
    simp only [allocCostZip]; omega
  | x :: xs, e :: es => by
    have h1 := allocCost_le x e
    have h2 := allocCostZip_le xs es
    simp only [allocCostZip, wireSizeL, List.length_cons]; omega
theorem allocCostAttrs_le : ∀ (ks vs : List Item) (ns : List String) (ts : List Ty) (os : List Bool),
    allocCostAttrs hint E ks vs ns ts os ≤ 2 * wireSizeL vs
  | [], _, _, _, _ => by simp [allocCostAttrs]
  | _ :: _, [], _, _, _ => by simp [allocCostAttrs]
  | k :: ks, v :: vs, ns, ts, os => by
    have h1 := fun t => allocCost_le v t
    have h2 := allocCostAttrs_le ks vs ns ts os
    simp only [allocCostAttrs, wireSizeL]
    split
    · split
      · rename_i aty _ _
        have := h1 aty
        omega
      · omega
    · omega
end

/-- a cut-off document: `M` slots per byte, for a hint that is also bounded by `M ≥ 1` -/
theorem allocCostCut_le (M : Nat) (hM : 2 ≤ M) (hmax : ∀ n, hint n ≤ M) (hext : maxExtLen ≤ 2 * M) :
    ∀ (c : Cut) (ty : Ty), allocCostCut hint E c ty ≤ M * cutSize c
  | .eof, _ => by simp [allocCostCut]
  | .ext code len, _ => by
    simp only [allocCostCut, cutSize]
    repeat' split
    all_goals omega
  | .arr n done last, ty => by
    have ih := fun t => allocCostCut_le M hM hmax hext last t
    have h0 := hmax n
    have hmul : M * (1 + wireSizeL done + cutSize last) = M + M * wireSizeL done + M * cutSize last := by
      rw [Nat.mul_add, Nat.mul_add, Nat.mul_one]
    have hd : 2 * wireSizeL done ≤ M * wireSizeL done := Nat.mul_le_mul_right _ hM
    cases ty with
    | dyn =>
      simp only [allocCostCut, cutSize]
      repeat' split
      all_goals first
        | omega
        | (rename_i ty' _; have := ih ty'; rw [hmul]; omega)
    | list e =>
      have h1 := allocCostAll_le hint hh E done e
      have := ih e
      simp only [allocCostCut, cutSize]; rw [hmul]; split <;> omega
    | set e =>
      have h1 := allocCostAll_le hint hh E done e
      have := ih e
      simp only [allocCostCut, cutSize]; rw [hmul]; split <;> omega
    | tuple es =>
      have h1 := allocCostZip_le hint hh E done es
      simp only [allocCostCut, cutSize]; rw [hmul]
      repeat' split
      all_goals first
        | omega
        | (rename_i e _ _; have := ih e; omega)
    | _ => simp [allocCostCut]
  | .mapK n ks vs, ty => by
    have h0 := hmax n
    have hmul : M * (1 + wireSizeL ks + wireSizeL vs) = M + M * wireSizeL ks + M * wireSizeL vs := by
      rw [Nat.mul_add, Nat.mul_add, Nat.mul_one]
    have hd : 2 * wireSizeL vs ≤ M * wireSizeL vs := Nat.mul_le_mul_right _ hM
    cases ty with
    | map e =>
      have h1 := allocCostAll_le hint hh E vs e
      simp only [allocCostCut, cutSize]; rw [hmul]; split <;> omega
    | object ns ts os =>
      have h1 := allocCostAttrs_le hint hh E ks vs ns ts os
      simp only [allocCostCut, cutSize]; rw [hmul]
      repeat' split
      all_goals omega
    | _ => simp [allocCostCut]
  | .mapV n ks vs key last, ty => by
    have ih := fun t => allocCostCut_le M hM hmax hext last t
    have h0 := hmax n
    have hmul : M * (1 + wireSizeL ks + wireSizeL vs + wireSize key + cutSize last) =
        M + M * wireSizeL ks + M * wireSizeL vs + M * wireSize key + M * cutSize last := by
      rw [Nat.mul_add, Nat.mul_add, Nat.mul_add, Nat.mul_add, Nat.mul_one]
    have hd : 2 * wireSizeL vs ≤ M * wireSizeL vs := Nat.mul_le_mul_right _ hM
    cases ty with
    | map e =>
      have h1 := allocCostAll_le hint hh E vs e
      have := ih e
      simp only [allocCostCut, cutSize]; rw [hmul]; split <;> omega
    | object ns ts os =>
      have h1 := allocCostAttrs_le hint hh E ks vs ns ts os
      simp only [allocCostCut, cutSize]; rw [hmul]
      repeat' split
      all_goals first
        | omega
        | (rename_i aty _ _; have := ih aty; omega)
    | _ => simp [allocCostCut]

end

end D17
end CtyModel
