/-
C17 (JSON half) — the JSON type decoder `Ty.ofJson` (`Type.UnmarshalJSON`, cty/json.go) on
EVERY token tree: it never panics, and a type it returns satisfies the representation
invariant of types (`Ty.wf`: attribute names strictly ascending, the three parallel lists of
equal length — i.e. the optional attributes are a subset of the declared ones) and has
normalised attribute names.

The proofs are by strong induction on `sizeOf` of the token tree (the decoder recurses through
`List Json` at three different places), with one predicate transformer on outcomes:
`Sat P r` = "`r` is not a panic, and if it is `ok a` then `P a`".
-/
import CtyModel.Lemmas.JsonValDoc
import CtyModel.WF
namespace CtyModel
namespace C17Json
open Ty

/-- not a panic; when `ok a`, `P a` -/
def Sat {α} (P : α → Prop) : Res α → Prop
  | .ok a => P a
  | .panic _ => False
  | _ => True

theorem Sat.ok {α} {P : α → Prop} {a : α} (h : P a) : Sat P (.ok a) := h
theorem Sat.err {α} {P : α → Prop} {c : String} : Sat P (.err c : Res α) := trivial
theorem Sat.unm {α} {P : α → Prop} : Sat P (.unmodelled : Res α) := trivial

theorem Sat.map {α β} {P : α → Prop} {Q : β → Prop} {r : Res α} {f : α → β} (h : Sat P r)
    (hf : ∀ a, P a → Q (f a)) : Sat Q (r.map f) := by
  cases r <;> simp_all [Sat, Res.map]

theorem Sat.bind {α β} {P : α → Prop} {Q : β → Prop} {r : Res α} {f : α → Res β} (h : Sat P r)
    (hf : ∀ a, P a → Sat Q (f a)) : Sat Q (r.bind f) := by
  cases r <;> simp_all [Sat, Res.bind]

theorem Sat.mono {α} {P Q : α → Prop} {r : Res α} (h : Sat P r) (hf : ∀ a, P a → Q a) : Sat Q r := by
  cases r <;> simp_all [Sat]

theorem Sat.not_panic {α} {P : α → Prop} {r : Res α} (h : Sat P r) : ∀ w, r ≠ .panic w := by
  intro w e; subst e; exact h

theorem Sat.of_ok {α} {P : α → Prop} {r : Res α} {a : α} (h : Sat P r) (e : r = .ok a) : P a := by
  subst e; exact h

theorem Sat.intro {α} {P : α → Prop} {r : Res α} (h1 : ∀ w, r ≠ .panic w) (h2 : ∀ a, r = .ok a → P a) :
    Sat P r := by
  cases r with
  | ok a => exact h2 a rfl
  | panic w => exact absurd rfl (h1 w)
  | _ => trivial

/-- "is a fixed point of `norm`": the `nfc` column of C06's `WF` that belongs to `norm` -/
def nfcOf (norm : String → String) : String → Bool := fun s => norm s == s

/-- what a decoded type is shown to satisfy -/
def TyGood (norm : String → String) (t : Ty) : Prop :=
  Ty.wf t = true ∧ ((∀ s, norm (norm s) = norm s) → Ty.namesAll (nfcOf norm) t = true)

def TyGoodL (norm : String → String) (ts : List Ty) : Prop :=
  Ty.wfL ts = true ∧ ((∀ s, norm (norm s) = norm s) → Ty.namesAllL (nfcOf norm) ts = true)

theorem tyGoodL_mem {norm : String → String} : ∀ {ts : List Ty}, (∀ t ∈ ts, TyGood norm t) → TyGoodL norm ts
  | [], _ => ⟨rfl, fun _ => rfl⟩
  | t :: ts, h => by
    have h1 := h t (by simp)
    have h2 := tyGoodL_mem (norm := norm) (ts := ts) (fun x hx => h x (by simp [hx]))
    refine ⟨by simp [Ty.wfL, h1.1, h2.1], fun hn => ?_⟩
    simp [Ty.namesAllL, h1.2 hn, h2.2 hn]

theorem tyGoodL_of {norm : String → String} : ∀ {ts : List Ty}, TyGoodL norm ts → ∀ t ∈ ts, TyGood norm t
  | [], _, t, ht => by simp at ht
  | u :: us, h, t, ht => by
    obtain ⟨h1, h2⟩ := h
    simp only [Ty.wfL, Bool.and_eq_true] at h1
    have hr : TyGoodL norm us := ⟨h1.2, fun hn => by
      have := h2 hn; simp only [Ty.namesAllL, Bool.and_eq_true] at this; exact this.2⟩
    rcases List.mem_cons.mp ht with rfl | ht
    · exact ⟨h1.1, fun hn => by
        have := h2 hn; simp only [Ty.namesAllL, Bool.and_eq_true] at this; exact this.1⟩
    · exact tyGoodL_of hr t ht

/-! ### `insertField` / `buildFields` on ANY pair of lists (no length hypothesis on the input) -/

theorem insertField_tys (k : String) (t : Ty) : ∀ (ns : List String) (ts : List Ty),
    ∀ u ∈ (insertField k t ns ts).2, u = t ∨ u ∈ ts
  | [], _, u, hu => by simp [insertField] at hu; exact Or.inl hu
  | _ :: _, [], u, hu => by simp [insertField] at hu; exact Or.inl hu
  | n :: ns, v :: vs, u, hu => by
    simp only [insertField] at hu
    split at hu
    · simp at hu; rcases hu with rfl | rfl | hu
      · exact Or.inl rfl
      · exact Or.inr (by simp)
      · exact Or.inr (by simp [hu])
    · split at hu
      · exact Or.inr hu
      · simp at hu
        rcases hu with rfl | hu
        · exact Or.inr (by simp)
        · rcases insertField_tys k t ns vs u hu with h | h
          · exact Or.inl h
          · exact Or.inr (by simp [h])

/-- `buildFields` always returns strictly ascending names, lists of equal length, names that are
normal forms of given keys, and types that were given -/
theorem buildFields_inv (norm : String → String) : ∀ (ks : List String) (ts : List Ty),
    strictAsc (buildFields norm ks ts).1 = true ∧
    (buildFields norm ks ts).1.length = (buildFields norm ks ts).2.length ∧
    (∀ x ∈ (buildFields norm ks ts).1, ∃ k ∈ ks, x = norm k) ∧
    (∀ u ∈ (buildFields norm ks ts).2, u ∈ ts)
  | [], _ => by simp [buildFields, strictAsc]
  | _ :: _, [] => by simp [buildFields, strictAsc]
  | k :: ks, t :: ts => by
    obtain ⟨ha, hl, hn, ht⟩ := buildFields_inv norm ks ts
    simp only [buildFields]
    obtain ⟨ia, il, im, _⟩ := JsonVal.insertField_spec (norm k) t _ _ hl ha
    refine ⟨ia, il, ?_, ?_⟩
    · intro x hx
      rcases (im x).mp hx with rfl | hx
      · exact ⟨k, by simp, rfl⟩
      · obtain ⟨k', hk', e⟩ := hn x hx
        exact ⟨k', by simp [hk'], e⟩
    · intro u hu
      rcases insertField_tys (norm k) t _ _ u hu with rfl | hu
      · simp
      · simp [ht u hu]

theorem all_nfc_of_norm {norm : String → String} (hn : ∀ s, norm (norm s) = norm s) {ks ns : List String}
    (h : ∀ x ∈ ns, ∃ k ∈ ks, x = norm k) : ns.all (nfcOf norm) = true := by
  simp only [List.all_eq_true, nfcOf, beq_iff_eq]
  intro x hx
  obtain ⟨k, _, rfl⟩ := h x hx
  exact hn k

/-- an object type assembled from `buildFields` and any flag list of the right length -/
theorem tyGood_object {norm : String → String} {ks : List String} {ts : List Ty} (hts : TyGoodL norm ts)
    (os : List Bool) (ho : os.length = (buildFields norm ks ts).1.length) :
    TyGood norm (.object (buildFields norm ks ts).1 (buildFields norm ks ts).2 os) := by
  obtain ⟨ha, hl, hn, ht⟩ := buildFields_inv norm ks ts
  have hg : TyGoodL norm (buildFields norm ks ts).2 :=
    tyGoodL_mem (fun u hu => tyGoodL_of hts u (ht u hu))
  refine ⟨?_, fun hnorm => ?_⟩
  · simp [Ty.wf, hl, ha, hg.1, ho]
  · simp [Ty.namesAll, all_nfc_of_norm hnorm hn, hg.2 hnorm]

/-! ### the decoder -/

theorem sizeOf_lt_cons (x : Json) (xs : List Json) : sizeOf x < sizeOf (x :: xs) ∧ sizeOf xs < sizeOf (x :: xs) := by
  simp only [List.cons.sizeOf_spec]; omega

/-- the two halves of the statement, for all trees of size below `n` -/
theorem ofJson_sat_aux (norm : String → String) : ∀ n : Nat,
    (∀ j : Json, sizeOf j < n → Sat (TyGood norm) (ofJson norm j)) ∧
    (∀ js : List Json, sizeOf js < n → Sat (TyGoodL norm) (ofJsonL norm js))
  | 0 => ⟨fun _ h => absurd h (Nat.not_lt_zero _), fun _ h => absurd h (Nat.not_lt_zero _)⟩
  | n + 1 => by
    obtain ⟨ih, ihL⟩ := ofJson_sat_aux norm n
    constructor
    · intro j hj
      have prim : ∀ t : Ty, (t = .bool ∨ t = .number ∨ t = .string ∨ t = .dyn) → TyGood norm t := by
        intro t ht
        rcases ht with rfl | rfl | rfl | rfl <;> exact ⟨rfl, fun _ => rfl⟩
      cases j with
      | null => simp [ofJson, Sat]
      | bool _ => simp [ofJson, Sat]
      | num _ => simp [ofJson, Sat]
      | obj _ _ => simp [ofJson, Sat]
      | str s =>
        simp only [ofJson]
        repeat' split
        all_goals first
          | exact Sat.err
          | exact Sat.ok (prim _ (by simp))
      | arr xs =>
        cases xs with
        | nil => simp [ofJson, Sat]
        | cons x rest =>
          have hx : sizeOf rest < n := by
            simp only [Json.arr.sizeOf_spec, List.cons.sizeOf_spec] at hj; omega
          cases x with
          | null => simp [ofJson, Sat]
          | bool _ => simp [ofJson, Sat]
          | num _ => simp [ofJson, Sat]
          | obj _ _ => simp [ofJson, Sat]
          | arr _ => simp [ofJson, Sat]
          | str kind =>
            have wrap : ∀ (mk : Ty → Ty), (∀ e, Ty.wf (mk e) = Ty.wf e) →
                (∀ p e, Ty.namesAll p (mk e) = Ty.namesAll p e) → ∀ e, TyGood norm e → TyGood norm (mk e) :=
              fun mk h1 h2 e he => ⟨by rw [h1]; exact he.1, fun hn => by rw [h2]; exact he.2 hn⟩
            rw [ofJson.eq_def]
            simp only []
            split
            ·
              cases rest with
              | nil => exact Sat.err
              | cons e more =>
                have he : sizeOf e < n := by have := (sizeOf_lt_cons e more).1; omega
                cases more with
                | nil => exact (ih e he).map (wrap _ (fun _ => by simp [Ty.wf]) (fun _ _ => by simp [Ty.namesAll]))
                | cons _ _ => exact (ih e he).bind (fun _ _ => Sat.err)
            split
            ·
              cases rest with
              | nil => exact Sat.err
              | cons e more =>
                have he : sizeOf e < n := by have := (sizeOf_lt_cons e more).1; omega
                cases more with
                | nil => exact (ih e he).map (wrap _ (fun _ => by simp [Ty.wf]) (fun _ _ => by simp [Ty.namesAll]))
                | cons _ _ => exact (ih e he).bind (fun _ _ => Sat.err)
            split
            ·
              cases rest with
              | nil => exact Sat.err
              | cons e more =>
                have he : sizeOf e < n := by have := (sizeOf_lt_cons e more).1; omega
                cases more with
                | nil => exact (ih e he).map (wrap _ (fun _ => by simp [Ty.wf]) (fun _ _ => by simp [Ty.namesAll]))
                | cons _ _ => exact (ih e he).bind (fun _ _ => Sat.err)
            split
            · -- tuple
              cases rest with
              | nil => exact Sat.err
              | cons e more =>
                have he : sizeOf e < n := by have := (sizeOf_lt_cons e more).1; omega
                cases e with
                | null => simp only []; split <;> first | exact Sat.err | exact Sat.ok ⟨rfl, fun _ => rfl⟩
                | arr es =>
                  have hes : sizeOf es < n := by simp only [Json.arr.sizeOf_spec] at he; omega
                  simp only []
                  refine (ihL es hes).bind (fun ts hts => ?_)
                  split
                  · exact Sat.ok ⟨by simpa [Ty.wf] using hts.1, fun hn => by simpa [Ty.namesAll] using hts.2 hn⟩
                  · exact Sat.err
                | _ => exact Sat.err
            split
            · -- object
              cases rest with
              | nil => exact Sat.err
              | cons attrs more =>
                have hattrs : sizeOf attrs < n := by have := (sizeOf_lt_cons attrs more).1; omega
                simp only []
                refine Sat.bind (P := fun p : List String × List Ty => ∃ ks ts, TyGoodL norm ts ∧ p = buildFields norm ks ts) ?_ ?_
                · cases attrs with
                  | null => exact Sat.ok ⟨[], [], ⟨rfl, fun _ => rfl⟩, by simp [buildFields]⟩
                  | obj ks vs =>
                    have hvs : sizeOf vs < n := by simp only [Json.obj.sizeOf_spec] at hattrs; omega
                    exact (ihL vs hvs).map (fun ts hts => ⟨ks, ts, hts, rfl⟩)
                  | _ => exact Sat.err
                · intro p hp
                  obtain ⟨ks, ts, hts, rfl⟩ := hp
                  cases more with
                  | nil => exact Sat.ok (tyGood_object hts _ (by simp))
                  | cons optj more' =>
                    simp only []
                    refine Sat.bind (P := fun _ => True) ?_ (fun optl _ => ?_)
                    · cases optj with
                      | null => exact Sat.ok trivial
                      | arr xs => simp only []; split <;> first | exact Sat.err | exact Sat.ok trivial
                      | _ => exact Sat.err
                    · show Sat _ _
                      split
                      · split
                        · exact Sat.ok (tyGood_object hts _ (by simp))
                        · exact Sat.err
                      · exact Sat.err
            · exact Sat.err
    · intro js hjs
      cases js with
      | nil => exact Sat.ok ⟨rfl, fun _ => rfl⟩
      | cons x xs =>
        have ⟨h1, h2⟩ := sizeOf_lt_cons x xs
        have hx := ih x (by omega)
        have hxs := ihL xs (by omega)
        simp only [ofJsonL]
        cases hr : ofJson norm x with
        | ok t =>
          rw [hr] at hx
          simp only
          refine hxs.map (fun ts hts => ?_)
          have ht : TyGood norm t := hx
          exact ⟨by simp [Ty.wfL, ht.1, hts.1], fun hn => by simp [Ty.namesAllL, ht.2 hn, hts.2 hn]⟩
        | err c => exact Sat.err
        | panic w => rw [hr] at hx; exact absurd hx id
        | unmodelled => exact Sat.unm

/-- `Type.UnmarshalJSON` on every token tree: no panic; a returned type is well-formed with
normalised names -/
theorem ofJson_sat (norm : String → String) (j : Json) : Sat (TyGood norm) (ofJson norm j) :=
  (ofJson_sat_aux norm (sizeOf j + 1)).1 j (Nat.lt_succ_self _)

end C17Json
end CtyModel
