/-
C11 totality obligations (slice d11b) for `range` (sequence.go `RangeFunc`).
-/
import CtyModel.Lemmas.d11bNum
import CtyModel.Lemmas.StdlibRange
namespace CtyModel
namespace Stdlib
open Fn Value D11b
variable {nfc : String → Bool}

/-- what the generating loop answers: a list of numbers, an error, or (fuel, never reached with the
1025 the callback passes — `rangeLoop_limit`) `.unmodelled`; never a panic -/
def LoopGood (r : Res (List Value)) : Prop :=
  r = .unmodelled ∨ (∃ c, r = .err c) ∨ ∃ l : List Num, r = .ok (l.map numVal)

theorem rangeLoop_good (down : Bool) (stop step : Num) (hf : isFin step = true) :
    ∀ (fuel : Nat) (x : Num) (acc : List Num),
      LoopGood (rangeLoop down (numVal stop) (numVal step) fuel (numVal x) (acc.map numVal))
  | 0, _, _ => .inl rfl
  | fuel + 1, x, acc => by
    simp only [rangeLoop, reached_eq]
    cases reached down stop x
    · simp only [List.length_map]
      split
      · exact .inr (.inl ⟨_, rfl⟩)
      · rw [value_add_num x step hf]
        have := rangeLoop_good down stop step hf fuel (nextNum step x) (acc ++ [x])
        simpa using this
    · exact .inr (.inr ⟨acc, rfl⟩)


/-- the fuel of the generating loop is never used up: started as `Impl` starts it (1025, no values yet)
the loop answers a list or an error, not `.unmodelled` -/
theorem rangeLoop_fuel_suffices (down : Bool) (stop step : Num) (hf : isFin step = true) :
    ∀ (fuel : Nat) (x : Num) (acc : List Num), acc.length ≤ 1024 → 1025 ≤ fuel + acc.length →
      rangeLoop down (numVal stop) (numVal step) fuel (numVal x) (acc.map numVal) ≠ .unmodelled
  | 0, _, _, h1, h2 => by omega
  | fuel + 1, x, acc, h1, h2 => by
    simp only [rangeLoop, reached_eq]
    cases reached down stop x
    · simp only [List.length_map]
      split
      · simp
      · rename_i hlt
        rw [value_add_num x step hf]
        have := rangeLoop_fuel_suffices down stop step hf fuel (nextNum step x) (acc ++ [x])
          (by simp; omega) (by simp; omega)
        simpa using this
    · simp

theorem implGood_rangeFinish {r : Res (List Value)} (h : LoopGood r) : ImplGood (.list .number) (rangeFinish r) := by
  rcases h with rfl | ⟨c, rfl⟩ | ⟨l, rfl⟩
  · exact implGood_unmodelled _
  · exact implGood_err _ _
  · simp only [rangeFinish, List.length_map]
    by_cases h0 : l.length = 0
    · simp only [h0, beq_self_eq_true, if_true]
      exact implGood_seq (by decide) rfl
    · simp only [h0, beq_iff_eq, if_false]
      rw [listVal_nums l (fun h => h0 (by simp [h]))]
      exact implGood_seq (by decide) rfl

theorem implGood_range3 (E : Env) (a b s : Num) (rt : Ty) :
    ImplGood (.list .number) (rangeImpl E [numVal a, numVal b, numVal s] rt) := by
  by_cases hz : isZeroStep s = true
  · rw [rangeImpl_three_zero E _ _ s hz]; exact implGood_err _ _
  · cases s with
    | inf n =>
      obtain ⟨c, hc⟩ := rangeImpl_three_inf E (numVal a) (numVal b) n rt
      rw [hc]; exact implGood_err _ _
    | fin sn sm se sp =>
      rw [rangeImpl_three E a b _ (by simpa using hz) rt rfl]
      split
      · exact implGood_rangeFinish (by simpa using rangeLoop_good _ b _ rfl 1025 a [])
      · exact implGood_err _ _

theorem implGood_range (E : Env) {as : List Value} {rt : Ty} (h : ImplArgsOK nfc rangeSpec as)
    (ht : rangeType as = .ok rt) : ImplGood rt (rangeImpl E as rt) := by
  simp only [rangeType] at ht
  cases ht
  have hc := args_invVar h
  obtain ⟨xs, rfl⟩ := all_numVal as fun a ha => num_arg' (hc a ha) rfl rfl rfl rfl
  match xs with
  | [] => obtain ⟨c, hc⟩ := rangeImpl_arity E [] (.list .number) (.inl rfl); simp only [List.map_nil]; rw [hc]; exact implGood_err _ _
  | [a] =>
    simp only [List.map_cons, List.map_nil]
    rw [rangeImpl_one]
    split
    · exact implGood_range3 {} _ a _ _
    · exact implGood_range3 {} _ a _ _
  | [a, b] =>
    simp only [List.map_cons, List.map_nil]
    rw [rangeImpl_two]
    split
    · exact implGood_range3 {} a b _ _
    · exact implGood_range3 {} a b _ _
  | [a, b, s] => exact implGood_range3 E a b s _
  | a :: b :: c :: d :: rest =>
    obtain ⟨c, hc⟩ := rangeImpl_arity E ((a :: b :: c :: d :: rest).map numVal) (.list .number)
      (.inr (by simp only [List.map_cons, List.length_cons]; omega))
    rw [hc]; exact implGood_err _ _

theorem call_total_range (E : Env) (args : List Value) (hargs : ∀ a ∈ args, a.WF nfc = true) :
    (∀ w, (call rangeSpec rangeType (rangeImpl E) args).1 ≠ .panic w) ∧
    (∀ w, (call rangeSpec rangeType (rangeImpl E) args).1 ≠ .err (.panicError w)) :=
  call_total_of_good rangeSpec rangeType (rangeImpl E) rfl (fun _ w _ => by simp [rangeType])
    (fun _ _ h ht => implGood_range E h ht) args hargs

end Stdlib
end CtyModel
